/-
C13 — Actor state and hyper-parameter contract holds for every actor flavour.
Property theorems over ForML.Model.Actor (helper lemmas are local `private theorem`s).

All theorems quantify over the user's functions (`u : User σ`, uninterpreted), over every
signature `sig`, every flavour (`fs : FlavourSpec` = native / decorated / wrapped with all their
variants), all hyper-parameter dicts, all training histories and all inputs.
-/
import ForML.Model.Actor

namespace ForML.Actor

variable {σ : Type}

/-! ### dict lemmas -/

private theorem pget_pset (m : PMap) (k : Key) (v : Int) (k' : Key) :
    pget (pset m k v) k' = if k = k' then some v else pget m k' := by
  induction m with
  | nil => simp [pset, pget]
  | cons kv r ih =>
    obtain ⟨k0, v0⟩ := kv
    by_cases h0 : k0 = k
    · subst h0; simp only [pset, pget, if_true]; by_cases h : k0 = k' <;> simp [h]
    · by_cases h1 : k = k'
      · subst h1; simp [pset, pget, h0, ih]
      · simp [pset, pget, h0, ih, h1]

private theorem pget_pupdate (m u : PMap) (k : Key) :
    pget (pupdate m u) k = por (pget u k) (pget m k) := by
  induction u with
  | nil => simp [pupdate, pget, por]
  | cons kv r ih =>
    obtain ⟨k0, v0⟩ := kv
    simp only [pupdate, pget_pset, pget]
    by_cases h : k0 = k
    · simp [h, por]
    · simp [h, ih]

private theorem por_some {a b : Option Int} {v : Int} (h : a = some v) : por a b = some v := by
  subst h; rfl

private theorem por_self (a : Option Int) : por a a = a := by cases a <;> rfl

/-- a key-only predicate holds for all entries iff it holds for every key that can be looked up -/
private theorem all_keys_iff (P : Key → Bool) (m : PMap) :
    m.all (fun kv => P kv.1) = true ↔ ∀ k, (pget m k).isSome = true → P k = true := by
  induction m with
  | nil => simp [pget]
  | cons kv r ih =>
    obtain ⟨k0, v0⟩ := kv
    simp only [List.all_cons, Bool.and_eq_true, ih, pget]
    constructor
    · rintro ⟨h0, hr⟩ k hk
      by_cases h : k0 = k
      · subst h; exact h0
      · simp [h] at hk; exact hr k hk
    · intro h
      refine ⟨h k0 (by simp), fun k hk => ?_⟩
      by_cases h' : k0 = k
      · subst h'; exact h k0 (by simp)
      · exact h k (by simp [h', hk])

private theorem all_keys_congr (P : Key → Bool) (m1 m2 : PMap) (h : ∀ k, pget m1 k = pget m2 k) :
    m1.all (fun kv => P kv.1) = m2.all (fun kv => P kv.1) := by
  have e : (m1.all (fun kv => P kv.1) = true) ↔ (m2.all (fun kv => P kv.1) = true) := by
    rw [all_keys_iff, all_keys_iff]; simp [h]
  cases h1 : m1.all (fun kv => P kv.1) <;> cases h2 : m2.all (fun kv => P kv.1) <;> simp_all

private theorem accepts_congr (s : Sig) (m1 m2 : PMap) (h : ∀ k, pget m1 k = pget m2 k) :
    accepts s m1 = accepts s m2 := by
  unfold accepts
  rw [all_keys_congr (fun k => s.names.contains k) m1 m2 h]

private theorem all_keys_pupdate (P : Key → Bool) (m u : PMap)
    (hm : m.all (fun kv => P kv.1) = true) (hu : u.all (fun kv => P kv.1) = true) :
    (pupdate m u).all (fun kv => P kv.1) = true := by
  rw [all_keys_iff] at *
  intro k hk
  rw [pget_pupdate] at hk
  cases h : pget u k with
  | some v => exact hu k (by simp [h])
  | none => rw [h] at hk; exact hm k (by simpa [por] using hk)

private theorem accepts_pupdate (s : Sig) (m u : PMap) (hm : accepts s m = true) (hu : accepts s u = true) :
    accepts s (pupdate m u) = true := by
  unfold accepts at *
  cases hv : s.varkw
  · simp [hv] at hm hu ⊢
    have := all_keys_pupdate (fun k => s.names.contains k) m u (by simpa using hm) (by simpa using hu)
    simpa using this
  · simp

private theorem pget_zipPos_isSome (ks : List Key) (vs : List Int) (k : Key) :
    (pget (zipPos ks vs) k).isSome = true → k ∈ ks := by
  induction ks generalizing vs with
  | nil => simp [zipPos, pget]
  | cons k0 r ih =>
    cases vs with
    | nil => simp [zipPos, pget]
    | cons v vs =>
      simp only [zipPos, pget]
      by_cases h : k0 = k
      · subst h; simp
      · simp only [h, if_false]; intro hk; exact List.mem_cons_of_mem _ (ih vs hk)

private theorem accepts_zipPos (s : Sig) (vs : List Int) : accepts s (zipPos s.pos vs) = true := by
  unfold accepts
  cases s.varkw
  · simp only [Bool.false_or]
    rw [all_keys_iff (fun k => s.names.contains k)]
    intro k hk
    have := pget_zipPos_isSome s.pos vs k hk
    simp [Sig.names, this]
  · simp

/-! ### invariants of objects coming out of a constructor -/

private theorem accepts_defaults (s : Sig) (hwf : s.wf = true) : accepts s s.defaults = true := by
  unfold accepts; unfold Sig.wf at hwf; rw [hwf]; simp

private theorem bind_accepts (s : Sig) (args : List Int) (kw b : PMap) (h : bind s args kw = .ok b) :
    accepts s b = true := by
  unfold bind at h
  cases hp : bindPartial s args kw with
  | error e => simp [hp] at h
  | ok b' =>
    simp only [hp] at h
    split at h
    · cases h
      unfold bindPartial at hp
      split at hp
      · cases hp
      · simp only at hp
        split at hp
        · cases hp
        · split at hp
          · cases hp
          · rename_i _ _ hacc
            cases hp
            exact accepts_pupdate s _ _ (accepts_zipPos s _) (by simpa using hacc)
    · cases h

private theorem ctorStore_ok (s : Sig) (hwf : s.wf = true) (args : List Int) (kw : PMap) (o : Obj σ)
    (h : ctorStore s args kw = .ok o) :
    o.state = none ∧ accepts s o.params = true ∧ (∀ k, (pget s.defaults k).isSome = true → (pget o.params k).isSome = true) := by
  unfold ctorStore at h
  cases hb : bind s args kw with
  | error e => simp [hb] at h
  | ok b =>
    simp only [hb] at h
    cases h
    refine ⟨rfl, ?_, ?_⟩
    · exact accepts_pupdate s _ _ (accepts_defaults s hwf) (bind_accepts s args kw b hb)
    · intro k hk
      simp only [pget_pupdate]
      cases hbk : pget b k with
      | some v => simp [por]
      | none => simpa [por] using hk

/-! ### observational equality -/

/-- same internal state and the same effective hyper-parameters (dict order and shadowed
duplicates are not observable) -/
def Equiv (o1 o2 : Obj σ) : Prop := o1.state = o2.state ∧ ∀ k, pget o1.params k = pget o2.params k

/-- lifted to results: both fail alike or both succeed with equivalent objects -/
def EquivE : Except Err (Obj σ) → Except Err (Obj σ) → Prop
  | .ok a, .ok b => Equiv a b
  | .error e, .error e' => e = e'
  | _, _ => False

private theorem equiv_fun {o1 o2 : Obj σ} (h : Equiv o1 o2) : pget o1.params = pget o2.params := funext h.2

private theorem storeParams_equiv (s : Sig) {o1 o2 : Obj σ} (h : Equiv o1 o2) (kw : PMap) :
    EquivE (storeParams s o1 kw) (storeParams s o2 kw) := by
  unfold storeParams
  split
  · exact ⟨h.1, fun k => by simp [pget_pupdate, h.2 k]⟩
  · rfl

/-- **Equivalent objects behave identically** under every flavour: `apply` gives the same result
(or the same error) for every input, `train` and `set_params` keep them equivalent. -/
theorem C13_equiv_behaves (u : User σ) (fs : FlavourSpec) (o1 o2 : Obj σ) (h : Equiv o1 o2) :
    (∀ x, (fs.toFlavour u).apply o1 x = (fs.toFlavour u).apply o2 x) ∧
    (∀ x y, EquivE ((fs.toFlavour u).train o1 x y) ((fs.toFlavour u).train o2 x y)) ∧
    (∀ kw, EquivE ((fs.toFlavour u).setParams o1 kw) ((fs.toFlavour u).setParams o2 kw)) ∧
    (∀ k, pget ((fs.toFlavour u).getParams o1) k = pget ((fs.toFlavour u).getParams o2) k) := by
  have hf := equiv_fun h
  have hs := h.1
  cases fs with
  | native s t =>
    refine ⟨fun x => ?_, fun x y => ?_, fun kw => storeParams_equiv s h kw, h.2⟩
    · simp only [FlavourSpec.toFlavour, native, classApply, hf, hs]
    · simp only [FlavourSpec.toFlavour, native]
      cases t
      · simp [EquivE]
      · simp [EquivE, Equiv, hf, hs]
  | decorated s p =>
    have ha := accepts_congr s o1.params o2.params h.2
    refine ⟨fun x => ?_, fun x y => ?_, fun kw => ?_, h.2⟩
    · simp only [FlavourSpec.toFlavour, decorated, hf, hs, ha]
    · simp only [FlavourSpec.toFlavour, decorated, ha]
      cases p
      · simp [EquivE]
      · cases hacc : accepts s o2.params
        · simp [EquivE]
        · simp [EquivE, Equiv, hf, hs]
    · simp only [FlavourSpec.toFlavour, decorated, EquivE, Equiv, hs, true_and]
      intro k; simp [pget_pupdate, h.2 k]
  | wrapped s tm =>
    refine ⟨fun x => ?_, fun x y => ?_, fun kw => storeParams_equiv s h kw, h.2⟩
    · simp only [FlavourSpec.toFlavour, wrapped, classApply, hf, hs]
    · simp only [FlavourSpec.toFlavour, wrapped]
      cases tm <;> simp [EquivE, Equiv, hf, hs]

/-! ### empty state -/

/-- **An empty state leaves the actor as it is** (all flavours; directly and through the
`SetState` preset of the platform). -/
theorem C13_empty (u : User σ) (fs : FlavourSpec) (o : Obj σ) :
    (fs.toFlavour u).setState o none = .ok o ∧ presetState (fs.toFlavour u) o none = .ok o := by
  refine ⟨?_, rfl⟩
  cases fs with
  | native s t => rfl
  | decorated s p => cases p <;> rfl
  | wrapped s tm => rfl

/-- A freshly built stateful actor is untrained: `apply` raises; and it stays so after an empty
state.  A fresh decorated pair exports the empty state. -/
theorem C13_untrained (u : User σ) (fs : FlavourSpec) (hst : (fs.toFlavour u).hasTrain = true)
    (args : List Int) (kw : PMap) (o : Obj σ) (hb : (fs.toFlavour u).build args kw = .ok o) :
    (∀ x, (fs.toFlavour u).apply o x = .error .runtimeError) ∧
    (∀ o', (fs.toFlavour u).setState o none = .ok o' → ∀ x, (fs.toFlavour u).apply o' x = .error .runtimeError) ∧
    (∀ s p, fs = .decorated s p → (fs.toFlavour u).getState o = none) := by
  have hnone : o.state = none := by
    cases fs with
    | native s t =>
      simp only [FlavourSpec.toFlavour, native, ctorStore] at hb
      split at hb <;> cases hb; rfl
    | decorated s p =>
      simp only [FlavourSpec.toFlavour, decorated] at hb
      split at hb
      · cases hb
      · split at hb <;> cases hb; rfl
    | wrapped s tm =>
      simp only [FlavourSpec.toFlavour, wrapped, ctorStore] at hb
      split at hb <;> cases hb; rfl
  have happ : ∀ x, (fs.toFlavour u).apply o x = .error .runtimeError := by
    intro x
    cases fs with
    | native s t => simp only [FlavourSpec.toFlavour, native] at hst; subst hst; simp [FlavourSpec.toFlavour, native, classApply, hnone]
    | decorated s p => simp only [FlavourSpec.toFlavour, decorated] at hst; subst hst; simp [FlavourSpec.toFlavour, decorated, hnone]
    | wrapped s tm => simp only [FlavourSpec.toFlavour, wrapped] at hst; simp [FlavourSpec.toFlavour, wrapped, classApply, hst, hnone]
  refine ⟨happ, ?_, ?_⟩
  · intro o' ho'
    rw [(C13_empty u fs o).1] at ho'
    cases ho'; exact happ
  · intro s p hfs
    subst hfs
    simp only [FlavourSpec.toFlavour, decorated] at hst
    subst hst
    simp [FlavourSpec.toFlavour, decorated, hnone]

/-! ### hyper-parameters of the receiving actor win -/

private theorem storeParams_win (s : Sig) (o o' : Obj σ) (kw : PMap) (h : storeParams s o kw = .ok o')
    (k : Key) (v : Int) (hk : pget kw k = some v) : pget o'.params k = some v := by
  unfold storeParams at h
  split at h
  · cases h; simp [pget_pupdate, por_some hk]
  · cases h

/-- **Precedence**: whatever state is given to an actor (`set_state` of *any* bytes that it
accepts), every hyper-parameter the actor had keeps its value. -/
theorem C13_params_win (u : User σ) (fs : FlavourSpec) (o o' : Obj σ) (b : Blob σ)
    (h : (fs.toFlavour u).setState o b = .ok o') (k : Key) (v : Int)
    (hk : pget ((fs.toFlavour u).getParams o) k = some v) :
    pget ((fs.toFlavour u).getParams o') k = some v := by
  cases fs with
  | native s t =>
    simp only [FlavourSpec.toFlavour, native] at h hk ⊢
    cases b with
    | none => cases h; exact hk
    | some pl =>
      simp only [dictSetState] at h
      split at h
      · cases h
      · cases pl with
        | whole p st => exact storeParams_win s _ o' o.params h k v hk
        | value x => cases h
  | decorated s p =>
    simp only [FlavourSpec.toFlavour, decorated] at h hk ⊢
    cases p
    · cases b <;> simp at h; cases h; exact hk
    · cases b with
      | none => simp at h; cases h; exact hk
      | some pl => cases pl <;> simp at h; cases h; exact hk
  | wrapped s tm =>
    simp only [FlavourSpec.toFlavour, wrapped] at h hk ⊢
    cases b with
    | none => cases h; exact hk
    | some pl =>
      simp only [dictSetState] at h
      split at h
      · cases h
      · cases pl with
        | whole p st => exact storeParams_win s _ o' o.params h k v hk
        | value x => cases h

/-- The same through the platform's `SetState.set` (`get_params`, `set_state`, `set_params`). -/
theorem C13_params_win_preset (u : User σ) (fs : FlavourSpec) (o o' : Obj σ) (b : Blob σ)
    (h : presetState (fs.toFlavour u) o b = .ok o') (k : Key) (v : Int)
    (hk : pget ((fs.toFlavour u).getParams o) k = some v) :
    pget ((fs.toFlavour u).getParams o') k = some v := by
  cases b with
  | none => cases h; exact hk
  | some pl =>
    simp only [presetState] at h
    split at h
    · cases h
    · rename_i o1 _
      cases fs with
      | native s t => exact storeParams_win s o1 o' _ h k v hk
      | decorated s p =>
        simp only [FlavourSpec.toFlavour, decorated] at h hk ⊢
        cases h; simp [pget_pupdate, por_some hk]
      | wrapped s tm => exact storeParams_win s o1 o' _ h k v hk

/-! ### state transfer -/

private theorem dict_transfer (s : Sig) (r0 twin : Obj σ) (hacc : accepts s r0.params = true) :
    dictSetState s true r0 (dictGetState true twin)
      = .ok { params := pupdate twin.params r0.params, state := twin.state } := by
  simp [dictSetState, dictGetState, storeParams, hacc]

/-- **State transfer**: an actor `r0` rebuilt from a builder accepts the state exported by *any*
twin of the same flavour (trained on whatever history, with whatever parameter updates); the result
has the twin's internal state, and every hyper-parameter is the builder's, or -- only where the
builder supplies none -- the twin's. -/
theorem C13_transfer (u : User σ) (fs : FlavourSpec) (hwf : fs.sig.wf = true)
    (hst : (fs.toFlavour u).isStateful = true)
    (args : List Int) (kw : PMap) (r0 : Obj σ) (hb : (fs.toFlavour u).build args kw = .ok r0) (twin : Obj σ) :
    ∃ r, (fs.toFlavour u).setState r0 ((fs.toFlavour u).getState twin) = .ok r ∧ r.state = twin.state ∧
      ∀ k, pget r.params k = por (pget r0.params k) (pget r.params k) ∧
        (pget r0.params k = none → pget r.params k = pget twin.params k ∨ pget r.params k = none) := by
  cases fs with
  | native s t =>
    simp only [FlavourSpec.toFlavour, native] at hst hb ⊢
    subst hst
    obtain ⟨_, hacc, _⟩ := ctorStore_ok s hwf args kw r0 hb
    refine ⟨_, dict_transfer s r0 twin hacc, rfl, fun k => ?_⟩
    simp only [pget_pupdate]
    cases pget r0.params k <;> simp [por]
  | decorated s p =>
    simp only [FlavourSpec.toFlavour, decorated] at hst hb ⊢
    subst hst
    have hnone : r0.state = none := by
      split at hb
      · cases hb
      · split at hb <;> cases hb; rfl
    cases hts : twin.state with
    | none =>
      refine ⟨r0, by simp, hnone, fun k => ?_⟩
      cases pget r0.params k <;> simp [por]
    | some st =>
      refine ⟨{ r0 with state := some st }, by simp, rfl, fun k => ?_⟩
      cases pget r0.params k <;> simp [por]
  | wrapped s tm =>
    simp only [FlavourSpec.toFlavour, wrapped] at hst hb ⊢
    obtain ⟨_, hacc, _⟩ := ctorStore_ok s hwf args kw r0 hb
    rw [hst]
    refine ⟨_, dict_transfer s r0 twin hacc, rfl, fun k => ?_⟩
    simp only [pget_pupdate]
    cases pget r0.params k <;> simp [por]

/-- **Transfer equivalence**: if moreover the twin's effective hyper-parameters are the builder's
(it was built from the same builder and only trained), the rebuilt actor is observationally equal
to the twin -- hence (`C13_equiv_behaves`) applies, trains and is re-parameterised identically,
for every input and every continuation. -/
theorem C13_transfer_equiv (u : User σ) (fs : FlavourSpec) (hwf : fs.sig.wf = true)
    (hst : (fs.toFlavour u).isStateful = true)
    (args : List Int) (kw : PMap) (r0 : Obj σ) (hb : (fs.toFlavour u).build args kw = .ok r0) (twin : Obj σ)
    (hp : ∀ k, pget twin.params k = pget r0.params k) :
    ∃ r, (fs.toFlavour u).setState r0 ((fs.toFlavour u).getState twin) = .ok r ∧ Equiv r twin := by
  obtain ⟨r, hr, hs, hk⟩ := C13_transfer u fs hwf hst args kw r0 hb twin
  refine ⟨r, hr, hs, fun k => ?_⟩
  obtain ⟨h1, h2⟩ := hk k
  cases h0 : pget r0.params k with
  | some v => rw [h1, h0, hp k, h0]; rfl
  | none =>
    rcases h2 h0 with h | h
    · exact h
    · rw [h, hp k, h0]

/-! ### training histories -/

/-- training never changes the hyper-parameters -/
private theorem train_params (u : User σ) (fs : FlavourSpec) (o o' : Obj σ) (x y : Int)
    (h : (fs.toFlavour u).train o x y = .ok o') : o'.params = o.params := by
  cases fs with
  | native s t =>
    simp only [FlavourSpec.toFlavour, native] at h
    split at h <;> cases h; rfl
  | decorated s p =>
    simp only [FlavourSpec.toFlavour, decorated] at h
    split at h
    · split at h <;> cases h; rfl
    · cases h
  | wrapped s tm =>
    simp only [FlavourSpec.toFlavour, wrapped] at h
    cases tm <;> simp at h <;> cases h <;> rfl

private theorem trainAll_params (u : User σ) (fs : FlavourSpec) (h : List (Int × Int)) (o o' : Obj σ)
    (ht : trainAll (fs.toFlavour u) o h = .ok o') : o'.params = o.params := by
  induction h generalizing o with
  | nil => simp [trainAll] at ht; cases ht; rfl
  | cons xy r ih =>
    obtain ⟨x, y⟩ := xy
    simp only [trainAll] at ht
    split at ht
    · cases ht
    · rename_i o1 h1
      rw [ih o1 ht, train_params u fs o o1 x y h1]

private theorem trainAll_equiv (u : User σ) (fs : FlavourSpec) (h : List (Int × Int)) (o1 o2 : Obj σ)
    (he : Equiv o1 o2) : EquivE (trainAll (fs.toFlavour u) o1 h) (trainAll (fs.toFlavour u) o2 h) := by
  induction h generalizing o1 o2 with
  | nil => exact he
  | cons xy r ih =>
    obtain ⟨x, y⟩ := xy
    have hstep := (C13_equiv_behaves u fs o1 o2 he).2.1 x y
    simp only [trainAll]
    cases h1 : (fs.toFlavour u).train o1 x y <;> cases h2 : (fs.toFlavour u).train o2 x y <;>
      simp only [h1, h2, EquivE] at hstep ⊢
    · exact hstep
    · exact ih _ _ hstep

private theorem trainAll_append (f : Flavour σ) (h1 h2 : List (Int × Int)) (o : Obj σ) :
    trainAll f o (h1 ++ h2) = match trainAll f o h1 with
      | .error e => .error e
      | .ok o' => trainAll f o' h2 := by
  induction h1 generalizing o with
  | nil => simp [trainAll]
  | cons xy r ih =>
    obtain ⟨x, y⟩ := xy
    simp only [List.cons_append, trainAll]
    cases f.train o x y with
    | error e => rfl
    | ok o1 => exact ih o1

/-- **Incremental training with state transfer, for every history** (induction over the
histories): train a twin from a builder on `h1`, export its state, give it to an actor rebuilt
from the same builder and continue training that one on `h2`: the result is observationally equal
to one actor trained on `h1 ++ h2` (same outputs for every input, by `C13_equiv_behaves`), and a
failure of the one is the same failure of the other. -/
theorem C13_incremental (u : User σ) (fs : FlavourSpec) (hwf : fs.sig.wf = true)
    (hst : (fs.toFlavour u).isStateful = true)
    (args : List Int) (kw : PMap) (o0 : Obj σ) (hb : (fs.toFlavour u).build args kw = .ok o0)
    (h1 h2 : List (Int × Int)) (twin : Obj σ) (ht : trainAll (fs.toFlavour u) o0 h1 = .ok twin) :
    ∃ r, (fs.toFlavour u).setState o0 ((fs.toFlavour u).getState twin) = .ok r ∧
      EquivE (trainAll (fs.toFlavour u) r h2) (trainAll (fs.toFlavour u) o0 (h1 ++ h2)) := by
  have hp : ∀ k, pget twin.params k = pget o0.params k := by
    intro k; rw [trainAll_params u fs h1 o0 twin ht]
  obtain ⟨r, hr, he⟩ := C13_transfer_equiv u fs hwf hst args kw o0 hb twin hp
  refine ⟨r, hr, ?_⟩
  rw [trainAll_append, ht]
  exact trainAll_equiv u fs h2 r twin he

/-! ### pickling -/

/-- Native and decorated actors are pickled by their attribute dict: the copy is the object. -/
theorem C13_pickle_plain (u : User σ) (s : Sig) (b : Bool) (o : Obj σ) :
    (native u s b).repickle o = .ok o ∧ (decorated u s b).repickle o = .ok o := ⟨rfl, rfl⟩

/-- A builder survives pickling (`__getnewargs_ex__` re-runs `Spec.__new__` on the same values). -/
theorem C13_pickle_builder (f : Flavour σ) (args : List Int) (kw : PMap) (sp : Spec)
    (h : mkSpec f args kw = .ok sp) : sp.repickle f = .ok sp := by
  unfold mkSpec at h
  cases hb : bindPartial f.specSig args kw with
  | error e => simp [hb] at h
  | ok b => simp only [hb] at h; cases h; simp [Spec.repickle, mkSpec, hb]

/-- what the reachable wrapped objects satisfy (see `C13_wrapped_invariant`) -/
def WrappedInv (s : Sig) (tm : TrainMap) (o : Obj σ) : Prop :=
  accepts s o.params = true ∧
  (∀ k, (pget s.defaults k).isSome = true → (pget o.params k).isSome = true) ∧
  (tm.stateful = false → o.state = none)

/-- Full statement: every (reachable) wrapped actor survives pickling. Refuted below. -/
def C13_pickle_wrapped_full : Prop :=
  ∀ (σ : Type) (u : User σ) (s : Sig) (tm : TrainMap) (o : Obj σ), s.wf = true → WrappedInv s tm o →
    ∃ o', (wrapped u s tm).repickle o = .ok o' ∧ Equiv o' o

/-- `OriginDefaultConstructible`: the origin class can be instantiated without arguments -/
def DefaultConstructible (s : Sig) : Bool := s.mandatory.isEmpty

/-- **Pickling of a wrapped actor** (the `copyreg` reducer: `actor()`, `set_state`, `set_params`)
yields an observationally equal actor *provided the origin is constructible without arguments*. -/
theorem C13_pickle_wrapped_partial (u : User σ) (s : Sig) (tm : TrainMap) (o : Obj σ) (hwf : s.wf = true)
    (hdc : DefaultConstructible s = true) (hinv : WrappedInv s tm o) :
    ∃ o', (wrapped u s tm).repickle o = .ok o' ∧ Equiv o' o := by
  obtain ⟨hacc, hcov, hstate⟩ := hinv
  have hm : s.mandatory = [] := by simpa [DefaultConstructible] using hdc
  have hctor : (ctorStore s [] [] : Except Err (Obj σ)) = .ok { params := s.defaults, state := none } := by
    simp [ctorStore, bind, bindPartial, hm, zipPos, accepts, pupdate, pkeys]
  have hdacc : accepts s s.defaults = true := accepts_defaults s hwf
  simp only [wrapped, hctor]
  cases hs : tm.stateful
  · -- stateless: no state travels, the parameters are set on a fresh origin
    have := hstate hs
    refine ⟨{ params := pupdate s.defaults o.params, state := none }, by simp [dictSetState, dictGetState, storeParams, hacc], ?_, ?_⟩
    · exact this.symm
    · intro k
      simp only [pget_pupdate]
      cases hk : pget o.params k with
      | some v => rfl
      | none =>
        cases hd : pget s.defaults k with
        | none => rfl
        | some v => have := hcov k (by simp [hd]); simp [hk] at this
  · refine ⟨{ params := pupdate (pupdate o.params s.defaults) o.params, state := o.state },
      by simp [dictSetState, dictGetState, storeParams, hacc, hdacc], rfl, ?_⟩
    intro k
    simp only [pget_pupdate]
    cases hk : pget o.params k with
    | some v => rfl
    | none =>
      cases hd : pget s.defaults k with
      | none => simp [por]
      | some v => have := hcov k (by simp [hd]); simp [hk] at this

/-- The hypothesis of the partial theorem holds for every wrapped actor that comes out of its
constructor and is kept by training / `set_params` / `set_state`. -/
theorem C13_wrapped_invariant (u : User σ) (s : Sig) (tm : TrainMap) (hwf : s.wf = true) :
    (∀ args kw o, (wrapped u s tm).build args kw = .ok o → WrappedInv s tm o) ∧
    (∀ o o' x y, WrappedInv s tm o → (wrapped u s tm).train o x y = .ok o' → WrappedInv s tm o') ∧
    (∀ o o' kw, WrappedInv s tm o → (wrapped u s tm).setParams o kw = .ok o' → WrappedInv s tm o') ∧
    (∀ o o' twin, WrappedInv s tm o → WrappedInv s tm twin →
      (wrapped u s tm).setState o ((wrapped u s tm).getState twin) = .ok o' → WrappedInv s tm o') := by
  have hstore : ∀ (o o' : Obj σ) (st : Option σ) (p kw : PMap), accepts s p = true →
      (∀ k, (pget s.defaults k).isSome = true → (pget p k).isSome = true ∨ (pget kw k).isSome = true) →
      storeParams s { params := p, state := st } kw = .ok o' →
      accepts s o'.params = true ∧ (∀ k, (pget s.defaults k).isSome = true → (pget o'.params k).isSome = true) ∧ o'.state = st := by
    intro o o' st p kw hacc hcov h
    unfold storeParams at h
    split at h
    · rename_i hk
      cases h
      refine ⟨accepts_pupdate s _ _ hacc hk, fun k hd => ?_, rfl⟩
      simp only [pget_pupdate]
      cases hkk : pget kw k with
      | some v => simp [por]
      | none => rcases hcov k hd with h | h
                · simpa [por] using h
                · simp [hkk] at h
    · cases h
  refine ⟨?_, ?_, ?_, ?_⟩
  · intro args kw o h
    obtain ⟨h1, h2, h3⟩ := ctorStore_ok s hwf args kw o h
    exact ⟨h2, h3, fun _ => h1⟩
  · intro o o' x y hi h
    simp only [wrapped] at h
    cases tm <;> simp at h <;> cases h <;> exact ⟨hi.1, hi.2.1, by simp [TrainMap.stateful]⟩
  · intro o o' kw hi h
    obtain ⟨h1, h2, h3⟩ := hstore o o' o.state o.params kw hi.1 (fun k hd => Or.inl (hi.2.1 k hd)) h
    exact ⟨h1, h2, fun hs => by rw [h3]; exact hi.2.2 hs⟩
  · intro o o' twin hi ht h
    simp only [wrapped, dictGetState] at h
    cases hs : tm.stateful
    · simp only [hs] at h; cases h; exact hi
    · simp only [hs, if_true, dictSetState] at h
      obtain ⟨h1, h2, h3⟩ := hstore o o' twin.state twin.params o.params ht.1 (fun k hd => Or.inr (hi.2.1 k hd)) (by simpa using h)
      exact ⟨h1, h2, fun hs' => by simp [hs] at hs'⟩

/-- D21: an origin class with a mandatory constructor argument cannot be unpickled. -/
theorem C13_pickle_wrapped_counterexample : ¬ C13_pickle_wrapped_full := by
  intro h
  let s : Sig := { pos := [0, 1], mandatory := [0], defaults := [(1, 0)] }
  let o : Obj Int := { params := [(0, 2), (1, 0)], state := some 5 }
  have hinv : WrappedInv s .method o := by
    refine ⟨by decide, ?_, by decide⟩
    intro k hk
    by_cases h1 : k = 1
    · subst h1; decide
    · simp [s, pget, Ne.symm h1] at hk
  obtain ⟨o', ho', _⟩ := h Int toyUser s .method o (by decide) hinv
  have : (wrapped toyUser s .method).repickle o = .error .typeError := by rfl
  rw [this] at ho'
  cases ho'

/-! ### is_stateful -/

/-- **An actor reports itself stateful exactly when it has a training implementation** (native:
overridden `train`; decorated: the pair; wrapped: mapped callable or callable origin attribute). -/
theorem C13_stateful_iff (u : User σ) (fs : FlavourSpec) :
    (fs.toFlavour u).isStateful = (fs.toFlavour u).hasTrain := by
  cases fs with
  | native s t => rfl
  | decorated s p => rfl
  | wrapped s tm => cases tm <;> rfl

/-- the same statement for `Class.Actor.is_stateful` as it is before the repair (`hasattr`) -/
def C13_stateful_legacy_full : Prop := ∀ tm : TrainMap, tm.statefulLegacy = tm.trains

theorem C13_stateful_legacy_counterexample : ¬ C13_stateful_legacy_full := by
  intro h; exact absurd (h .noncallable) (by decide)

/-! ### builders -/

/-- `Builder.update` merges the keywords (new values win) and replaces the positionals only if new
ones are given; `reset` replaces both; `__call__` without overrides builds from exactly the stored
values. -/
theorem C13_builder (f : Flavour σ) (sp sp' : Spec) (args : List Int) (kw : PMap) :
    (sp.update f args kw = .ok sp' →
      sp'.args = (if args.isEmpty then sp.args else args) ∧ ∀ k, pget sp'.kwargs k = por (pget kw k) (pget sp.kwargs k)) ∧
    (sp.reset f args kw = .ok sp' → sp' = { args := args, kwargs := kw }) ∧
    sp.call f [] [] = f.build sp.args sp.kwargs := by
  refine ⟨fun h => ?_, fun h => ?_, rfl⟩
  · simp only [Spec.update, mkSpec] at h
    split at h
    · cases h
    · cases h; exact ⟨rfl, fun k => pget_pupdate _ _ k⟩
  · simp only [Spec.reset, mkSpec] at h
    split at h
    · cases h
    · cases h; rfl

/-! ### non-vacuity (tests, not theorems): concrete objects satisfy the hypotheses -/

/-- the fixed two-parameter signature of the toy actors is well-formed and default-constructible -/
example : (Sig.wf { pos := [0, 1], defaults := [(0, 1), (1, 0)] } = true) ∧
    DefaultConstructible { pos := [0, 1], defaults := [(0, 1), (1, 0)] } = true := by decide

/-- a builder `(a=2, b=3)`, trained twice, state transferred to a fresh actor: same output -/
def exNative : Flavour Int := native toyUser { pos := [0, 1], defaults := [(0, 1), (1, 0)] } true

example :
    (do let o ← exNative.build [] [(0, 2), (1, 3)]
        let t ← trainAll exNative o [(1, 2), (3, 4)]
        let r ← exNative.setState o (exNative.getState t)
        pure (← exNative.apply r 10, ← exNative.apply t 10) : Except Err (Int × Int)) = .ok (122, 122) := by rfl

/-- a wrapped actor that satisfies the invariant and the hypotheses of the partial pickle theorem -/
example : WrappedInv (σ := Int) { pos := [0, 1], defaults := [(0, 1), (1, 0)] } .method
    { params := [(0, 2), (1, 3)], state := some 5 } := by
  refine ⟨by decide, ?_, by decide⟩
  intro k hk
  by_cases h0 : k = 0
  · subst h0; decide
  · by_cases h1 : k = 1
    · subst h1; decide
    · simp [pget, Ne.symm h0, Ne.symm h1] at hk

end ForML.Actor
