/-
C13 — Actor state and hyper-parameter contract holds for every actor flavour.
Property theorems over ForML.Model.Actor (helper lemmas: ForML.Lemmas.C13 and local `private theorem`s).

All theorems quantify over the user's functions (`u : User σ`, uninterpreted), over every
signature `sig`, every flavour (`fs : FlavourSpec` = native / native with its own state methods /
decorated / wrapped with all their variants), all hyper-parameter dicts, all training histories,
all `set_params` sequences and all inputs.
-/
import ForML.Lemmas.C13
import ForML.Model.ActorClass

namespace ForML.Actor

variable {σ : Type}

/-! ### observational equality -/

/-- same internal state and the same effective attribute values (dict order and shadowed
duplicates are not observable) -/
def Equiv (o1 o2 : Obj σ) : Prop := o1.state = o2.state ∧ ∀ k, pget o1.params k = pget o2.params k

/-- lifted to results: both fail alike or both succeed with equivalent objects -/
def EquivE : Except Err (Obj σ) → Except Err (Obj σ) → Prop
  | .ok a, .ok b => Equiv a b
  | .error e, .error e' => e = e'
  | _, _ => False

private theorem equiv_fun {o1 o2 : Obj σ} (h : Equiv o1 o2) : pget o1.params = pget o2.params := funext h.2

private theorem reported_congr (s : Sig) {o1 o2 : Obj σ} (h : Equiv o1 o2) (k : Key) :
    pget (reported s o1) k = pget (reported s o2) k := by
  simp only [pget_reported, h.2 k]

private theorem storeParams_equiv (s : Sig) {o1 o2 : Obj σ} (h : Equiv o1 o2) (kw1 kw2 : PMap)
    (hk : ∀ k, pget kw1 k = pget kw2 k) :
    EquivE (storeParams s o1 kw1) (storeParams s o2 kw2) := by
  unfold storeParams
  rw [settable_congr s kw1 kw2 hk]
  split
  · exact ⟨h.1, fun k => by simp [pget_pupdate, h.2 k, hk k]⟩
  · rfl

private theorem dictSetState_equiv (s : Sig) (t : Bool) {o1 o2 : Obj σ} (h : Equiv o1 o2) (b : Blob σ) :
    EquivE (dictSetState s t o1 b) (dictSetState s t o2 b) := by
  cases b with
  | none => exact h
  | some pl =>
    simp only [dictSetState]
    split
    · rfl
    · cases pl with
      | whole p st =>
        exact storeParams_equiv s (o1 := { o1 with params := p, state := st }) (o2 := { o2 with params := p, state := st })
          ⟨rfl, fun _ => rfl⟩ _ _ (reported_congr s h)
      | value x => rfl

/-- **Equivalent objects behave identically** under every flavour: `apply` gives the same result
(or the same error) for every input, they report the same hyper-parameters, and `train`,
`set_params` and `set_state` (of any state) keep them equivalent. -/
theorem C13_equiv_behaves (u : User σ) (fs : FlavourSpec) (o1 o2 : Obj σ) (h : Equiv o1 o2) :
    (∀ x, (fs.toFlavour u).apply o1 x = (fs.toFlavour u).apply o2 x) ∧
    (∀ x y, EquivE ((fs.toFlavour u).train o1 x y) ((fs.toFlavour u).train o2 x y)) ∧
    (∀ kw, EquivE ((fs.toFlavour u).setParams o1 kw) ((fs.toFlavour u).setParams o2 kw)) ∧
    (∀ k, pget ((fs.toFlavour u).getParams o1) k = pget ((fs.toFlavour u).getParams o2) k) ∧
    (∀ b, EquivE ((fs.toFlavour u).setState o1 b) ((fs.toFlavour u).setState o2 b)) := by
  have hf := equiv_fun h
  have hs := h.1
  cases fs with
  | native s t =>
    refine ⟨fun x => ?_, fun x y => ?_, fun kw => storeParams_equiv s h kw kw (fun _ => rfl), reported_congr s h,
      dictSetState_equiv s t h⟩
    · simp only [FlavourSpec.toFlavour, native, classApply, hf, hs]
    · simp only [FlavourSpec.toFlavour, native]
      cases t
      · simp [EquivE]
      · simp [EquivE, Equiv, hf, hs]
  | custom s =>
    refine ⟨fun x => ?_, fun x y => ?_, fun kw => storeParams_equiv s h kw kw (fun _ => rfl), reported_congr s h, fun b => ?_⟩
    · simp only [FlavourSpec.toFlavour, nativeCustom, classApply, hf, hs]
    · simp [FlavourSpec.toFlavour, nativeCustom, EquivE, Equiv, hf, hs]
    · simp only [FlavourSpec.toFlavour, nativeCustom]
      cases b with
      | none => exact h
      | some pl => cases pl <;> simp [EquivE, Equiv]
  | decorated s p =>
    have ha := accepts_congr s o1.params o2.params h.2
    refine ⟨fun x => ?_, fun x y => ?_, fun kw => ?_, h.2, fun b => ?_⟩
    · simp only [FlavourSpec.toFlavour, decorated, hf, hs, ha]
    · simp only [FlavourSpec.toFlavour, decorated, ha]
      cases p
      · simp [EquivE]
      · cases hacc : accepts s o2.params
        · simp [EquivE]
        · simp [EquivE, Equiv, hf, hs]
    · simp only [FlavourSpec.toFlavour, decorated, EquivE, Equiv, hs, true_and]
      intro k; simp [pget_pupdate, h.2 k]
    · simp only [FlavourSpec.toFlavour, decorated]
      cases p
      · cases b <;> simp [EquivE]; exact h
      · cases b with
        | none => exact h
        | some pl => cases pl <;> simp [EquivE, Equiv, h.2]
  | wrapped s tm =>
    refine ⟨fun x => ?_, fun x y => ?_, fun kw => storeParams_equiv s h kw kw (fun _ => rfl), reported_congr s h,
      dictSetState_equiv s tm.stateful h⟩
    · simp only [FlavourSpec.toFlavour, wrapped, classApply, hf, hs]
    · simp only [FlavourSpec.toFlavour, wrapped]
      cases tm <;> simp [EquivE, Equiv, hf, hs]

/-! ### empty state -/

/-- **An empty state leaves the actor as it is** (all flavours; directly and through the
`SetState` preset of the platform). -/
theorem C13_empty (u : User σ) (fs : FlavourSpec) (o : Obj σ) :
    (fs.toFlavour u).setState o none = .ok o ∧ presetState (fs.toFlavour u) o none = .ok o := by
  refine ⟨?_, rfl⟩
  cases fs with
  | native s t => rfl
  | custom s => rfl
  | decorated s p => cases p <;> rfl
  | wrapped s tm => rfl

private theorem build_state_none (u : User σ) (fs : FlavourSpec) (args : List Int) (kw : PMap) (o : Obj σ)
    (hb : (fs.toFlavour u).build args kw = .ok o) : o.state = none := by
  cases fs with
  | native s t =>
    simp only [FlavourSpec.toFlavour, native, ctorStore] at hb
    split at hb <;> cases hb; rfl
  | custom s =>
    simp only [FlavourSpec.toFlavour, nativeCustom, ctorStore] at hb
    split at hb <;> cases hb; rfl
  | decorated s p =>
    simp only [FlavourSpec.toFlavour, decorated] at hb
    split at hb
    · cases hb
    · split at hb <;> cases hb; rfl
  | wrapped s tm =>
    obtain ⟨o1, h1, rfl⟩ := wrappedBuild_ok s args kw o hb
    simp only [ctorStore] at h1
    split at h1 <;> cases h1; rfl

/-- A freshly built actor with a training implementation is untrained: `apply` raises; and it
stays so after an empty state.  A fresh decorated pair exports the empty state. -/
theorem C13_untrained (u : User σ) (fs : FlavourSpec) (hst : (fs.toFlavour u).hasTrain = true)
    (args : List Int) (kw : PMap) (o : Obj σ) (hb : (fs.toFlavour u).build args kw = .ok o) :
    (∀ x, (fs.toFlavour u).apply o x = .error .runtimeError) ∧
    (∀ o', (fs.toFlavour u).setState o none = .ok o' → ∀ x, (fs.toFlavour u).apply o' x = .error .runtimeError) ∧
    (∀ s p, fs = .decorated s p → (fs.toFlavour u).getState o = none) := by
  have hnone : o.state = none := build_state_none u fs args kw o hb
  have happ : ∀ x, (fs.toFlavour u).apply o x = .error .runtimeError := by
    intro x
    cases fs with
    | native s t => simp only [FlavourSpec.toFlavour, native] at hst; subst hst; simp [FlavourSpec.toFlavour, native, classApply, hnone]
    | custom s => simp [FlavourSpec.toFlavour, nativeCustom, classApply, hnone]
    | decorated s p => simp only [FlavourSpec.toFlavour, decorated] at hst; subst hst; simp [FlavourSpec.toFlavour, decorated, hnone]
    | wrapped s tm => simp only [FlavourSpec.toFlavour, wrapped] at hst; simp [FlavourSpec.toFlavour, wrapped, classApply, hst, hnone]
  refine ⟨happ, ?_, ?_⟩
  · intro o' ho'
    rw [(C13_empty u fs o).1] at ho'
    cases ho'; exact happ
  · intro s p hfs
    subst hfs
    simp only [FlavourSpec.toFlavour, decorated] at hst
    subst hst
    simp [FlavourSpec.toFlavour, decorated, hnone]

/-! ### hyper-parameters of the receiving actor win -/

/-- the state methods are forml's own (`flow.Actor.get_state/set_state`, `Stateful.Actor`'s), not
user-written ones -/
def FlavourSpec.formlState : FlavourSpec → Bool
  | .custom _ => false
  | _ => true

private theorem storeParams_win (s : Sig) (o o' : Obj σ) (kw : PMap) (h : storeParams s o kw = .ok o')
    (k : Key) (v : Int) (hk : pget kw k = some v) : pget (reported s o') k = some v := by
  unfold storeParams at h
  split at h
  · rename_i hset
    cases h
    have hvis : s.visible k = true := by
      cases hv : s.visible k with
      | true => rfl
      | false => have := settable_hidden s kw hset k hv; rw [this] at hk; cases hk
    simp [pget_reported, hvis, pget_pupdate, por_some hk]
  · cases h

/-- **Precedence**: whatever state is given to an actor (`set_state` of *any* bytes that forml's
state methods accept), every hyper-parameter the actor had keeps its value. -/
theorem C13_params_win (u : User σ) (fs : FlavourSpec) (hown : fs.formlState = true) (o o' : Obj σ) (b : Blob σ)
    (h : (fs.toFlavour u).setState o b = .ok o') (k : Key) (v : Int)
    (hk : pget ((fs.toFlavour u).getParams o) k = some v) :
    pget ((fs.toFlavour u).getParams o') k = some v := by
  have hdict : ∀ (s : Sig) (t : Bool), dictSetState s t o b = .ok o' → pget (reported s o) k = some v →
      pget (reported s o') k = some v := by
    intro s t h hk
    cases b with
    | none => cases h; exact hk
    | some pl =>
      simp only [dictSetState] at h
      split at h
      · cases h
      · cases pl with
        | whole p st => exact storeParams_win s _ o' _ h k v hk
        | value x => cases h
  cases fs with
  | native s t => exact hdict s t h hk
  | custom s => cases hown
  | decorated s p =>
    simp only [FlavourSpec.toFlavour, decorated] at h hk ⊢
    cases p
    · cases b <;> simp at h; cases h; exact hk
    · cases b with
      | none => simp at h; cases h; exact hk
      | some pl => cases pl <;> simp at h; cases h; exact hk
  | wrapped s tm => exact hdict s tm.stateful h hk

/-- The same through the platform's `SetState.set` (`get_params`, `set_state`, `set_params`), for
every flavour -- including actors whose own `set_state` overwrites everything. -/
theorem C13_params_win_preset (u : User σ) (fs : FlavourSpec) (o o' : Obj σ) (b : Blob σ)
    (h : presetState (fs.toFlavour u) o b = .ok o') (k : Key) (v : Int)
    (hk : pget ((fs.toFlavour u).getParams o) k = some v) :
    pget ((fs.toFlavour u).getParams o') k = some v := by
  cases b with
  | none => cases h; exact hk
  | some pl =>
    simp only [presetState] at h
    split at h
    · cases h
    · rename_i o1 _
      cases fs with
      | native s t => exact storeParams_win s o1 o' _ h k v hk
      | custom s => exact storeParams_win s o1 o' _ h k v hk
      | decorated s p =>
        simp only [FlavourSpec.toFlavour, decorated] at h hk ⊢
        cases h; simp [pget_pupdate, por_some hk]
      | wrapped s tm => exact storeParams_win s o1 o' _ h k v hk

/-! ### state transfer -/

private theorem storeParams_reported (s : Sig) (X r0 : Obj σ) (hacc : accepts s r0.params = true) :
    storeParams s X (reported s r0) = .ok { X with params := pupdate X.params (reported s r0) } := by
  simp [storeParams, settable_reported s r0 hacc]

private theorem dict_raw (s : Sig) (r0 : Obj σ) (tp : PMap) (ts : Option σ) (hacc : accepts s r0.params = true) :
    dictSetState s true r0 (some (.whole tp ts))
      = .ok { r0 with params := pupdate tp (reported s r0), state := ts } := by
  simp only [dictSetState, Bool.not_true, Bool.false_eq_true, if_false]
  exact storeParams_reported s _ r0 hacc

private theorem por_por_self (a b : Option Int) : por a (por a b) = por a b := by cases a <;> rfl

/-- the constructor of a class flavour yields an object whose attributes are all constructor names -/
private theorem build_accepts (u : User σ) (fs : FlavourSpec) (hwf : fs.sig.wf = true)
    (args : List Int) (kw : PMap) (r0 : Obj σ) (hb : (fs.toFlavour u).build args kw = .ok r0)
    (hnd : ∀ s p, fs ≠ .decorated s p) : accepts fs.sig r0.params = true := by
  cases fs with
  | native s t => exact (ctorStore_ok s hwf args kw r0 hb).2.1
  | custom s => exact (ctorStore_ok s hwf args kw r0 hb).2.1
  | decorated s p => exact absurd rfl (hnd s p)
  | wrapped s tm =>
    obtain ⟨o1, h1, rfl⟩ := wrappedBuild_ok s args kw r0 hb
    exact (ctorStore_ok s hwf args kw o1 h1).2.1

/-- the attribute values that travel inside an exported state: the whole attribute dict for the
class flavours; nothing for a decorated pair (the receiver keeps its own keyword arguments) -/
def carried (fs : FlavourSpec) (twin r0 : Obj σ) : PMap :=
  match fs with
  | .decorated _ _ => r0.params
  | _ => twin.params

/-- **State transfer**: an actor `r0` rebuilt from a builder accepts the state exported by *any*
twin of the same flavour (trained on whatever history, with whatever parameter updates) -- directly
through `set_state` (forml's state methods) or through the platform's `SetState` preset (every
flavour).  The result has the twin's internal state; every hyper-parameter the rebuilt actor reports
keeps the builder's value; only the attributes the builder's actor does not report as
hyper-parameters are taken from the state. -/
theorem C13_transfer (u : User σ) (fs : FlavourSpec) (hwf : fs.sig.wf = true)
    (hst : (fs.toFlavour u).isStateful = true) (preset : Bool) (hpath : fs.formlState = false → preset = true)
    (args : List Int) (kw : PMap) (r0 : Obj σ) (hb : (fs.toFlavour u).build args kw = .ok r0) (twin : Obj σ) :
    ∃ r, giveState preset (fs.toFlavour u) r0 ((fs.toFlavour u).getState twin) = .ok r ∧
      r.state = twin.state ∧ r.ctor = r0.ctor ∧
      ∀ k, pget r.params k = por (pget ((fs.toFlavour u).getParams r0) k) (pget (carried fs twin r0) k) := by
  have hdict : ∀ (f : Flavour σ) (s : Sig), accepts s r0.params = true →
      f.setState = dictSetState s true → f.getState twin = some (.whole twin.params twin.state) →
      f.setParams = storeParams s → f.getParams = reported s →
      ∃ r : Obj σ, giveState preset f r0 (f.getState twin) = .ok r ∧
        r.state = twin.state ∧ r.ctor = r0.ctor ∧
        ∀ k, pget r.params k = por (pget (f.getParams r0) k) (pget twin.params k) := by
    intro f s hacc hset hget hsp hgp
    cases preset
    · refine ⟨{ r0 with params := pupdate twin.params (reported s r0), state := twin.state }, ?_, rfl, rfl, fun k => ?_⟩
      · simp only [giveState, Bool.false_eq_true, if_false, hget, hset]; exact dict_raw s r0 _ _ hacc
      · simp [hgp, pget_pupdate]
    · refine ⟨{ r0 with params := pupdate (pupdate twin.params (reported s r0)) (reported s r0), state := twin.state },
        ?_, rfl, rfl, fun k => ?_⟩
      · simp only [giveState, if_true, presetState, hget, hset, hsp, hgp, dict_raw s r0 _ _ hacc]
        exact storeParams_reported s _ r0 hacc
      · simp [hgp, pget_pupdate, por_por_self]
  cases fs with
  | native s t =>
    simp only [FlavourSpec.toFlavour, native] at hst
    subst hst
    have hacc := build_accepts u (.native s true) hwf args kw r0 hb (by intro _ _ h; cases h)
    exact hdict (native u s true) s hacc rfl (by simp [native, dictGetState]) rfl rfl
  | custom s =>
    have hacc := build_accepts u (.custom s) hwf args kw r0 hb (by intro _ _ h; cases h)
    have hp : preset = true := hpath rfl
    subst hp
    refine ⟨{ r0 with params := pupdate twin.params (reported s r0), state := twin.state }, ?_, rfl, rfl, fun k => ?_⟩
    · simp only [FlavourSpec.toFlavour, nativeCustom, giveState, presetState, if_true]
      exact storeParams_reported s _ r0 hacc
    · simp [FlavourSpec.toFlavour, nativeCustom, carried, pget_pupdate]
  | decorated s p =>
    simp only [FlavourSpec.toFlavour, decorated] at hst
    subst hst
    have hnone : r0.state = none := build_state_none u _ args kw r0 hb
    cases hts : twin.state with
    | none =>
      refine ⟨r0, ?_, hnone, rfl, fun k => ?_⟩
      · cases preset <;> simp [FlavourSpec.toFlavour, decorated, giveState, presetState, hts]
      · simp [FlavourSpec.toFlavour, decorated, carried, por_self]
    | some st =>
      cases preset
      · refine ⟨{ r0 with state := some st }, ?_, rfl, rfl, fun k => ?_⟩
        · simp [FlavourSpec.toFlavour, decorated, giveState, hts]
        · simp [FlavourSpec.toFlavour, decorated, carried, por_self]
      · refine ⟨{ r0 with state := some st, params := pupdate r0.params r0.params }, ?_, rfl, rfl, fun k => ?_⟩
        · simp [FlavourSpec.toFlavour, decorated, giveState, presetState, hts]
        · simp [FlavourSpec.toFlavour, decorated, carried, pget_pupdate]
  | wrapped s tm =>
    simp only [FlavourSpec.toFlavour, wrapped] at hst
    have hacc := build_accepts u (.wrapped s tm) hwf args kw r0 hb (by intro _ _ h; cases h)
    exact hdict (wrapped u s tm) s hacc (by simp [wrapped, hst]) (by simp [wrapped, dictGetState, hst]) rfl rfl

/-- **Transfer equivalence**: if moreover the twin's attributes are the builder's (it was built
from the same builder and only trained, or its `set_params` were followed by the builder -- see
`C13_update_transfer`), the rebuilt actor is observationally equal to the twin -- hence
(`C13_equiv_behaves`) applies, trains, reports and is re-parameterised identically, for every input
and every continuation. -/
theorem C13_transfer_equiv (u : User σ) (fs : FlavourSpec) (hwf : fs.sig.wf = true)
    (hst : (fs.toFlavour u).isStateful = true) (preset : Bool) (hpath : fs.formlState = false → preset = true)
    (args : List Int) (kw : PMap) (r0 : Obj σ) (hb : (fs.toFlavour u).build args kw = .ok r0) (twin : Obj σ)
    (hp : ∀ k, pget twin.params k = pget r0.params k) :
    ∃ r, giveState preset (fs.toFlavour u) r0 ((fs.toFlavour u).getState twin) = .ok r ∧ Equiv r twin ∧ r.ctor = r0.ctor := by
  obtain ⟨r, hr, hs, hc, hk⟩ := C13_transfer u fs hwf hst preset hpath args kw r0 hb twin
  refine ⟨r, hr, ⟨hs, fun k => ?_⟩, hc⟩
  rw [hk k]
  have hrep : ∀ s : Sig, por (pget (reported s r0) k) (pget twin.params k) = pget twin.params k := by
    intro s
    rw [pget_reported, hp k]
    cases s.visible k
    · simp only [Bool.false_eq_true, if_false]; rfl
    · simp only [if_true]; exact por_self _
  cases fs with
  | native s t => exact hrep s
  | custom s => exact hrep s
  | decorated s p => simp [FlavourSpec.toFlavour, decorated, carried, por_self, hp k]
  | wrapped s tm => exact hrep s

/-! ### training histories -/

/-- training never changes the attributes that came through the constructor / `set_params` -/
private theorem train_params (u : User σ) (fs : FlavourSpec) (o o' : Obj σ) (x y : Int)
    (h : (fs.toFlavour u).train o x y = .ok o') : o'.params = o.params := by
  cases fs with
  | native s t =>
    simp only [FlavourSpec.toFlavour, native] at h
    split at h <;> cases h; rfl
  | custom s =>
    simp only [FlavourSpec.toFlavour, nativeCustom] at h
    cases h; rfl
  | decorated s p =>
    simp only [FlavourSpec.toFlavour, decorated] at h
    split at h
    · split at h <;> cases h; rfl
    · cases h
  | wrapped s tm =>
    simp only [FlavourSpec.toFlavour, wrapped] at h
    cases tm <;> simp at h <;> cases h <;> rfl

private theorem trainAll_params (u : User σ) (fs : FlavourSpec) (h : List (Int × Int)) (o o' : Obj σ)
    (ht : trainAll (fs.toFlavour u) o h = .ok o') : o'.params = o.params := by
  induction h generalizing o with
  | nil => simp [trainAll] at ht; cases ht; rfl
  | cons xy r ih =>
    obtain ⟨x, y⟩ := xy
    simp only [trainAll] at ht
    split at ht
    · cases ht
    · rename_i o1 h1
      rw [ih o1 ht, train_params u fs o o1 x y h1]

private theorem trainAll_equiv (u : User σ) (fs : FlavourSpec) (h : List (Int × Int)) (o1 o2 : Obj σ)
    (he : Equiv o1 o2) : EquivE (trainAll (fs.toFlavour u) o1 h) (trainAll (fs.toFlavour u) o2 h) := by
  induction h generalizing o1 o2 with
  | nil => exact he
  | cons xy r ih =>
    obtain ⟨x, y⟩ := xy
    have hstep := (C13_equiv_behaves u fs o1 o2 he).2.1 x y
    simp only [trainAll]
    cases h1 : (fs.toFlavour u).train o1 x y <;> cases h2 : (fs.toFlavour u).train o2 x y <;>
      simp only [h1, h2, EquivE] at hstep ⊢
    · exact hstep
    · exact ih _ _ hstep

private theorem trainAll_append (f : Flavour σ) (h1 h2 : List (Int × Int)) (o : Obj σ) :
    trainAll f o (h1 ++ h2) = match trainAll f o h1 with
      | .error e => .error e
      | .ok o' => trainAll f o' h2 := by
  induction h1 generalizing o with
  | nil => simp [trainAll]
  | cons xy r ih =>
    obtain ⟨x, y⟩ := xy
    simp only [List.cons_append, trainAll]
    cases f.train o x y with
    | error e => rfl
    | ok o1 => exact ih o1

/-- **Incremental training with state transfer, for every history** (induction over the
histories): train a twin from a builder on `h1`, export its state, give it (directly or through the
platform's preset) to an actor rebuilt from the same builder and continue training that one on
`h2`: the result is observationally equal to one actor trained on `h1 ++ h2` (same outputs for every
input, by `C13_equiv_behaves`), and a failure of the one is the same failure of the other. -/
theorem C13_incremental (u : User σ) (fs : FlavourSpec) (hwf : fs.sig.wf = true)
    (hst : (fs.toFlavour u).isStateful = true) (preset : Bool) (hpath : fs.formlState = false → preset = true)
    (args : List Int) (kw : PMap) (o0 : Obj σ) (hb : (fs.toFlavour u).build args kw = .ok o0)
    (h1 h2 : List (Int × Int)) (twin : Obj σ) (ht : trainAll (fs.toFlavour u) o0 h1 = .ok twin) :
    ∃ r, giveState preset (fs.toFlavour u) o0 ((fs.toFlavour u).getState twin) = .ok r ∧
      EquivE (trainAll (fs.toFlavour u) r h2) (trainAll (fs.toFlavour u) o0 (h1 ++ h2)) := by
  have hp : ∀ k, pget twin.params k = pget o0.params k := by
    intro k; rw [trainAll_params u fs h1 o0 twin ht]
  obtain ⟨r, hr, he, _⟩ := C13_transfer_equiv u fs hwf hst preset hpath args kw o0 hb twin hp
  refine ⟨r, hr, ?_⟩
  rw [trainAll_append, ht]
  exact trainAll_equiv u fs h2 r twin he

/-! ### hyper-parameter updates interleaved with training -/

/-- attributes a constructor derives from the positional arguments and the defaults -/
def baseAttrs (fs : FlavourSpec) (args : List Int) : PMap :=
  match fs with
  | .decorated _ _ => []
  | .native s _ | .custom s | .wrapped s _ => pupdate s.defaults (zipPos s.pos (args.drop s.anon))

private theorem build_lookup (u : User σ) (fs : FlavourSpec) (args : List Int) (kw : PMap) (o : Obj σ)
    (hb : (fs.toFlavour u).build args kw = .ok o) (k : Key) :
    pget o.params k = por (pget kw k) (pget (baseAttrs fs args) k) := by
  cases fs with
  | native s t => exact ctorStore_lookup s args kw o hb k
  | custom s => exact ctorStore_lookup s args kw o hb k
  | decorated s p =>
    simp only [FlavourSpec.toFlavour, decorated] at hb
    split at hb
    · cases hb
    · split at hb <;> cases hb
      simp [baseAttrs, pget, por_none_right]
  | wrapped s tm =>
    obtain ⟨o1, h1, rfl⟩ := wrappedBuild_ok s args kw o hb
    exact ctorStore_lookup s args kw o1 h1 k

private theorem setParams_lookup (u : User σ) (fs : FlavourSpec) (o o' : Obj σ) (q : PMap)
    (h : (fs.toFlavour u).setParams o q = .ok o') (k : Key) :
    pget o'.params k = por (pget q k) (pget o.params k) := by
  have hstore : ∀ s : Sig, storeParams s o q = .ok o' → pget o'.params k = por (pget q k) (pget o.params k) := by
    intro s h
    unfold storeParams at h
    split at h <;> cases h
    exact pget_pupdate _ _ _
  cases fs with
  | native s t => exact hstore s h
  | custom s => exact hstore s h
  | decorated s p =>
    simp only [FlavourSpec.toFlavour, decorated] at h
    cases h; exact pget_pupdate _ _ _
  | wrapped s tm => exact hstore s h

/-- **Hyper-parameter updates interleaved with training, then state transfer** (induction over
the op sequence): a twin is built from a builder and lives through *any* sequence of training steps
and `set_params` calls; the builder follows the same updates (`Builder.update(**kw)`); an actor
rebuilt from the updated builder and given the twin's exported state is observationally equal to
the twin. -/
theorem C13_update_transfer (u : User σ) (fs : FlavourSpec) (hwf : fs.sig.wf = true)
    (hst : (fs.toFlavour u).isStateful = true) (preset : Bool) (hpath : fs.formlState = false → preset = true)
    (sp sp' : Spec) (ops : List Op) (o0 twin r0 : Obj σ)
    (hb0 : sp.call (fs.toFlavour u) [] [] = .ok o0) (hrun : runOps (fs.toFlavour u) o0 ops = .ok twin)
    (hfol : sp.follow (fs.toFlavour u) ops = .ok sp') (hb : sp'.call (fs.toFlavour u) [] [] = .ok r0) :
    ∃ r, giveState preset (fs.toFlavour u) r0 ((fs.toFlavour u).getState twin) = .ok r ∧ Equiv r twin := by
  have hinv : ∀ (ops : List Op) (sp : Spec) (o : Obj σ),
      (∀ k, pget o.params k = por (pget sp.kwargs k) (pget (baseAttrs fs sp.args) k)) →
      runOps (fs.toFlavour u) o ops = .ok twin → sp.follow (fs.toFlavour u) ops = .ok sp' →
      ∀ k, pget twin.params k = por (pget sp'.kwargs k) (pget (baseAttrs fs sp'.args) k) := by
    intro ops
    induction ops with
    | nil =>
      intro sp o hi hr hf k
      simp only [runOps] at hr; simp only [Spec.follow] at hf
      cases hr; cases hf; exact hi k
    | cons op rest ih =>
      intro sp o hi hr hf
      simp only [runOps] at hr
      split at hr
      · cases hr
      · rename_i o1 h1
        cases op with
        | train x y =>
          simp only [runOp] at h1
          simp only [Spec.follow] at hf
          exact ih sp o1 (by intro k; rw [train_params u fs o o1 x y h1]; exact hi k) hr hf
        | setParams q =>
          simp only [runOp] at h1
          simp only [Spec.follow, Spec.update, mkSpec] at hf
          split at hf
          · cases hf
          · rename_i sp1 hsp1
            split at hsp1
            · cases hsp1
            · cases hsp1
              refine ih _ o1 (fun k => ?_) hr hf
              rw [setParams_lookup u fs o o1 q h1 k, hi k]
              simp [pget_pupdate, por_assoc]
  have h0 := hinv ops sp o0 (build_lookup u fs sp.args sp.kwargs o0 hb0) hrun hfol
  have hp : ∀ k, pget twin.params k = pget r0.params k := by
    intro k; rw [h0 k, build_lookup u fs sp'.args sp'.kwargs r0 hb k]
  obtain ⟨r, hr, he, _⟩ := C13_transfer_equiv u fs hwf hst preset hpath sp'.args sp'.kwargs r0 hb twin hp
  exact ⟨r, hr, he⟩

/-! ### pickling -/

/-- Native (with forml's or their own state methods) and decorated actors are pickled by their
attribute dict: the copy is the object. -/
theorem C13_pickle_plain (u : User σ) (s : Sig) (b : Bool) (o : Obj σ) :
    (native u s b).repickle o = .ok o ∧ (nativeCustom u s).repickle o = .ok o ∧ (decorated u s b).repickle o = .ok o :=
  ⟨rfl, rfl, rfl⟩

/-- A builder survives pickling (`__getnewargs_ex__` re-runs `Spec.__new__` on the same values). -/
theorem C13_pickle_builder (f : Flavour σ) (args : List Int) (kw : PMap) (sp : Spec)
    (h : mkSpec f args kw = .ok sp) : sp.repickle f = .ok sp := by
  unfold mkSpec at h
  cases hb : bindPartial f.specSig args kw with
  | error e => simp [hb] at h
  | ok b => simp only [hb] at h; cases h; simp [Spec.repickle, mkSpec, hb]

/-- what the reachable wrapped objects satisfy (see `C13_wrapped_invariant`): the remembered
constructor arguments construct; every attribute is a constructor name; the hyper-parameters the
constructor stored are still there; without a training implementation there is no state and the
attributes that are not hyper-parameters are still the constructor's. -/
def WrappedInv (s : Sig) (tm : TrainMap) (o : Obj σ) : Prop :=
  ∃ o0 : Obj σ, ctorStore s o.ctor.1 o.ctor.2 = .ok o0 ∧
    accepts s o.params = true ∧
    (∀ k, s.visible k = true → (pget o0.params k).isSome = true → (pget o.params k).isSome = true) ∧
    (tm.stateful = false → o.state = none ∧ ∀ k, s.visible k = false → pget o.params k = pget o0.params k)

private theorem wrappedInv_congr (s : Sig) (tm : TrainMap) (o o' : Obj σ) (he : Equiv o' o) (hc : o'.ctor = o.ctor)
    (hi : WrappedInv s tm o) : WrappedInv s tm o' := by
  obtain ⟨o0, h0, hacc, hcov, hsl⟩ := hi
  refine ⟨o0, by rw [hc]; exact h0, ?_, ?_, ?_⟩
  · rw [accepts_congr s o'.params o.params he.2]; exact hacc
  · intro k hv hk; rw [he.2 k]; exact hcov k hv hk
  · intro hs
    obtain ⟨h1, h2⟩ := hsl hs
    exact ⟨by rw [he.1]; exact h1, fun k hv => by rw [he.2 k]; exact h2 k hv⟩

private theorem por_cover (a b : Option Int) (h : b.isSome = true → a.isSome = true) : por a b = a := by
  cases a with
  | some v => rfl
  | none => cases b with
    | none => rfl
    | some w => simp at h

/-- **Pickling of a wrapped actor** (the `copyreg` reducer: re-create from the remembered
constructor arguments, `set_state`, `set_params`) yields an observationally equal actor that can be
pickled again -- for every reachable wrapped actor, trained or not, with or without a training
implementation, whatever the origin's constructor demands. -/
theorem C13_pickle_wrapped (u : User σ) (s : Sig) (tm : TrainMap) (o : Obj σ) (hwf : s.wf = true)
    (hinv : WrappedInv s tm o) :
    ∃ o', (wrapped u s tm).repickle o = .ok o' ∧ Equiv o' o ∧ o'.ctor = o.ctor ∧ WrappedInv s tm o' := by
  have hinv' := hinv
  obtain ⟨o0, h0, hacc, hcov, hsl⟩ := hinv
  obtain ⟨hst0, hacc0, _⟩ := ctorStore_ok s hwf _ _ o0 h0
  have hfresh := wrappedBuild_of s o.ctor.1 o.ctor.2 o0 h0
  have hmain : ∃ o', wrappedRepickle s tm.stateful o = .ok o' ∧ Equiv o' o ∧ o'.ctor = o.ctor := by
    cases hs : tm.stateful
    · obtain ⟨hst, hhid⟩ := hsl hs
      refine ⟨Obj.mk (pupdate o0.params (reported s o)) o0.state o.ctor, ?_, ⟨hst0.trans hst.symm, fun k => ?_⟩, rfl⟩
      · simp only [wrappedRepickle, hfresh, dictGetState, Bool.false_eq_true, if_false, dictSetState]
        exact storeParams_reported s _ o hacc
      · simp only [pget_pupdate, pget_reported]
        cases hv : s.visible k
        · simp only [Bool.false_eq_true, if_false]; exact (hhid k hv).symm
        · simp only [if_true]; exact por_cover _ _ (hcov k hv)
    · refine ⟨Obj.mk (pupdate (pupdate o.params (reported s (Obj.mk o0.params o0.state o.ctor))) (reported s o)) o.state o.ctor,
        ?_, ⟨rfl, fun k => ?_⟩, rfl⟩
      · simp only [wrappedRepickle, hfresh, dictGetState, if_true]
        rw [dict_raw s (Obj.mk o0.params o0.state (o.ctor.1, o.ctor.2)) o.params o.state hacc0]
        exact storeParams_reported s _ o hacc
      · simp only [pget_pupdate, pget_reported]
        cases hv : s.visible k
        · simp only [Bool.false_eq_true, if_false]; rfl
        · simp only [if_true]
          cases hk : pget o.params k with
          | some v => rfl
          | none =>
            have := hcov k hv
            cases h0k : pget o0.params k with
            | none => rfl
            | some w => simp [h0k, hk] at this
  obtain ⟨o', h1, h2, h3⟩ := hmain
  exact ⟨o', h1, h2, h3, wrappedInv_congr s tm o o' h2 h3 hinv'⟩

/-- The invariant holds for every wrapped actor that comes out of its constructor and is kept by
training, `set_params` and `set_state` of a reachable twin's exported state. -/
theorem C13_wrapped_invariant (u : User σ) (s : Sig) (tm : TrainMap) (hwf : s.wf = true) :
    (∀ args kw o, (wrapped u s tm).build args kw = .ok o → WrappedInv s tm o) ∧
    (∀ o o' x y, WrappedInv s tm o → (wrapped u s tm).train o x y = .ok o' → WrappedInv s tm o') ∧
    (∀ o o' kw, WrappedInv s tm o → (wrapped u s tm).setParams o kw = .ok o' → WrappedInv s tm o') ∧
    (∀ o o' twin, WrappedInv s tm o → WrappedInv s tm twin →
      (wrapped u s tm).setState o ((wrapped u s tm).getState twin) = .ok o' → WrappedInv s tm o') := by
  refine ⟨?_, ?_, ?_, ?_⟩
  · intro args kw o h
    obtain ⟨o1, h1, rfl⟩ := wrappedBuild_ok s args kw o h
    obtain ⟨hst, hacc, _⟩ := ctorStore_ok s hwf args kw o1 h1
    exact ⟨o1, h1, hacc, fun _ _ hk => hk, fun _ => ⟨hst, fun _ _ => rfl⟩⟩
  · intro o o' x y hi h
    obtain ⟨o0, h0, hacc, hcov, _⟩ := hi
    simp only [wrapped] at h
    cases tm <;> simp at h <;> cases h <;> exact ⟨o0, h0, hacc, hcov, by simp [TrainMap.stateful]⟩
  · intro o o' kw hi h
    obtain ⟨o0, h0, hacc, hcov, hsl⟩ := hi
    simp only [wrapped, storeParams] at h
    split at h
    · rename_i hset
      cases h
      refine ⟨o0, h0, accepts_pupdate s _ _ hacc (settable_accepts s kw hset), fun k hv hk => ?_, fun hs => ?_⟩
      · simp only [pget_pupdate]
        have := hcov k hv hk
        cases pget kw k <;> simp [por, this]
      · obtain ⟨h1, h2⟩ := hsl hs
        refine ⟨h1, fun k hv => ?_⟩
        simp only [pget_pupdate, settable_hidden s kw hset k hv]
        exact h2 k hv
    · cases h
  · intro o o' twin hi ht h
    have hi' := hi
    obtain ⟨o0, h0, hacc, hcov, hsl⟩ := hi
    simp only [wrapped, dictGetState] at h
    cases hs : tm.stateful
    · simp only [hs, Bool.false_eq_true, if_false, dictSetState] at h; cases h; exact hi'
    · simp only [hs, if_true] at h
      rw [dict_raw s o _ _ hacc] at h
      cases h
      obtain ⟨_, _, htacc, _, _⟩ := ht
      refine ⟨o0, h0, accepts_pupdate s _ _ htacc (settable_accepts s _ (settable_reported s o hacc)), fun k hv hk => ?_,
        fun hs' => by simp [hs] at hs'⟩
      simp only [pget_pupdate, pget_reported, hv, if_true]
      have := hcov k hv hk
      cases hok : pget o.params k with
      | none => simp [hok] at this
      | some v => simp [por]

/-- the reducer before the repair (`actor()`): full statement, refuted below -/
def C13_pickle_wrapped_legacy_full : Prop :=
  ∀ (σ : Type) (s : Sig) (tm : TrainMap) (o : Obj σ), s.wf = true → WrappedInv s tm o →
    ∃ o', wrappedRepickleLegacy s tm.stateful o = .ok o' ∧ Equiv o' o

/-- D21 / C13-F1: with the unrepaired reducer an origin class with a mandatory constructor argument
cannot be unpickled. -/
theorem C13_pickle_wrapped_legacy_counterexample : ¬ C13_pickle_wrapped_legacy_full := by
  intro h
  let s : Sig := { pos := [0, 1], mandatory := [0], defaults := [(1, 0)] }
  let o : Obj Int := { params := [(0, 2), (1, 0)], state := some 5, ctor := ([], [(0, 2)]) }
  have hinv : WrappedInv s .method o := by
    refine ⟨{ params := [(1, 0), (0, 2)], state := none }, rfl, by decide, ?_, fun h => absurd h (by decide)⟩
    intro k _ hk
    by_cases h1 : k = 1
    · subst h1; decide
    · by_cases h0 : k = 0
      · subst h0; decide
      · simp [pget, Ne.symm h1, Ne.symm h0] at hk
  obtain ⟨o', ho', _⟩ := h Int s .method o (by decide) hinv
  have : wrappedRepickleLegacy s (TrainMap.stateful .method) o = .error .typeError := by rfl
  rw [this] at ho'
  cases ho'

/-- even restricted to origins that can be constructed without arguments -/
def C13_pickle_wrapped_legacy_constructible_full : Prop :=
  ∀ (σ : Type) (s : Sig) (tm : TrainMap) (o : Obj σ), s.wf = true → s.mandatory = [] → WrappedInv s tm o →
    ∃ o', wrappedRepickleLegacy s tm.stateful o = .ok o' ∧ Equiv o' o

/-- C13-F1, silent form: with the unrepaired reducer an actor *without* a training implementation
whose origin has a constructor argument that is not a hyper-parameter comes back from pickling with
the default value of that argument (no error, different behaviour). -/
theorem C13_pickle_wrapped_legacy_constructible_counterexample : ¬ C13_pickle_wrapped_legacy_constructible_full := by
  intro h
  let s : Sig := { pos := [0, 2], defaults := [(0, 1), (2, 0)], hidden := [2] }
  let o : Obj Int := { params := [(0, 1), (2, 7)], state := none, ctor := ([], [(2, 7)]) }
  have hinv : WrappedInv s .absent o := by
    refine ⟨{ params := [(0, 1), (2, 7)], state := none }, rfl, by decide, fun k _ hk => hk, fun _ => ⟨rfl, fun _ _ => rfl⟩⟩
  obtain ⟨o', ho', he⟩ := h Int s .absent o (by decide) rfl hinv
  have : wrappedRepickleLegacy s (TrainMap.stateful .absent) o
      = .ok { params := [(0, 1), (2, 0)], state := none, ctor := ([], []) } := by rfl
  rw [this] at ho'
  cases ho'
  have := he.2 2
  simp [o, pget] at this

/-! ### is_stateful -/

/-- **An actor reports itself stateful exactly when it has a training implementation** (native:
overridden `train`; decorated: the pair; wrapped: mapped callable or callable origin attribute). -/
theorem C13_stateful_iff (u : User σ) (fs : FlavourSpec) :
    (fs.toFlavour u).isStateful = (fs.toFlavour u).hasTrain := by
  cases fs with
  | native s t => rfl
  | custom s => rfl
  | decorated s p => rfl
  | wrapped s tm => cases tm <;> rfl

/-- the same statement for `Class.Actor.is_stateful` as it was before the repair (`hasattr`) -/
def C13_stateful_legacy_full : Prop := ∀ tm : TrainMap, tm.statefulLegacy = tm.trains

theorem C13_stateful_legacy_counterexample : ¬ C13_stateful_legacy_full := by
  intro h; exact absurd (h .noncallable) (by decide)

/-! ### is_stateful over class hierarchies: the answer does not depend on the query history -/

/-- **`is_stateful` of an actor class derived from other actor classes depends only on that class'
own resolved definition** (does it, or an ancestor, define `train`), not on which classes of the
family were asked before, in whatever order and from whatever class state: it is the
`hasTrain`/`isStateful` of the flavour the class resolves to (`classFlavour`), so every theorem
above applies to derived actors unchanged. -/
theorem C13_stateful_history_free (u : User σ) (sig : Sig) (tbl : Classes) (attrs : ClassAttrs) (hist : List Nat) (c : Nat) :
    (statefulPure tbl (runQueries statefulPure tbl attrs hist).1 c).2 = resolvesTrain tbl c ∧
    ((classFlavour sig tbl c).toFlavour u).hasTrain = resolvesTrain tbl c ∧
    ((classFlavour sig tbl c).toFlavour u).isStateful = resolvesTrain tbl c := by
  refine ⟨rfl, ?_, ?_⟩ <;>
    (unfold classFlavour; cases resolvesTrain tbl c <;> cases resolvesState tbl c <;> rfl)

/-- the same for an implementation that memoises the answer by plain attribute access -/
def C13_stateful_cached_inherited_full : Prop :=
  ∀ (tbl : Classes) (hist : List Nat) (c : Nat), answerAfter statefulCachedInherited tbl hist c = resolvesTrain tbl c

/-- a stateless base asked first, then its subclass that adds `train`: the subclass inherits the
cached `False` (the class of defects the family scripts of the check look for) -/
theorem C13_stateful_cached_inherited_counterexample : ¬ C13_stateful_cached_inherited_full := by
  intro h
  have := h [⟨none, false, false⟩, ⟨some 0, true, false⟩] [0] 1
  revert this
  decide

private theorem ownAttr_setAttr (attrs : ClassAttrs) (c c' : Nat) (v : Bool) :
    ownAttr (setAttr attrs c v) c' = if c' = c then some v else ownAttr attrs c' := by
  unfold ownAttr setAttr
  rw [List.getElem?_set]
  by_cases h : c = c'
  · subst h
    have : c < attrs.length + (c + 1 - attrs.length) := by omega
    simp [this]
  · have h' : ¬ c' = c := fun e => h e.symm
    simp only [h, h', if_false]
    by_cases hl : c' < attrs.length
    · rw [List.getElem?_append_left hl]
    · have hge : attrs.length ≤ c' := Nat.le_of_not_lt hl
      rw [List.getElem?_append_right hge, List.getElem?_eq_none_iff.2 hge]
      cases hr : (List.replicate (c + 1 - attrs.length) (none : Option Bool))[c' - attrs.length]? with
      | none => rfl
      | some x =>
        have := List.mem_of_getElem? hr
        rw [List.mem_replicate] at this
        rw [this.2]; rfl

/-- every cached value is the right one -/
private def GoodCache (tbl : Classes) (attrs : ClassAttrs) : Prop :=
  ∀ c v, ownAttr attrs c = some v → v = resolvesTrain tbl c

private theorem cachedOwn_step (tbl : Classes) (attrs : ClassAttrs) (hg : GoodCache tbl attrs) (c : Nat) :
    (statefulCachedOwn tbl attrs c).2 = resolvesTrain tbl c ∧ GoodCache tbl (statefulCachedOwn tbl attrs c).1 := by
  unfold statefulCachedOwn
  cases ho : ownAttr attrs c with
  | some v => exact ⟨hg c v ho, hg⟩
  | none =>
    refine ⟨rfl, fun c' v hv => ?_⟩
    simp only [ownAttr_setAttr] at hv
    by_cases h : c' = c
    · subst h; simp at hv; exact hv.symm
    · simp only [h, if_false] at hv; exact hg c' v hv

private theorem cachedOwn_run (tbl : Classes) (hist : List Nat) (attrs : ClassAttrs) (hg : GoodCache tbl attrs) :
    GoodCache tbl (runQueries statefulCachedOwn tbl attrs hist).1 := by
  induction hist generalizing attrs with
  | nil => exact hg
  | cons c rest ih =>
    simp only [runQueries]
    exact ih _ (cachedOwn_step tbl attrs hg c).2

/-- A memoising `is_stateful` that keeps its cache in the class' *own* `__dict__` is history-free
too (induction over the query history with the invariant "every cached value is right"): such a
refactoring is harmless and the check stays quiet on it. -/
theorem C13_stateful_cached_own_history_free (tbl : Classes) (hist : List Nat) (c : Nat) :
    answerAfter statefulCachedOwn tbl hist c = resolvesTrain tbl c := by
  have hg : GoodCache tbl (runQueries statefulCachedOwn tbl [] hist).1 :=
    cachedOwn_run tbl hist [] (fun c v h => by simp [ownAttr] at h)
  exact (cachedOwn_step tbl _ hg c).1

/-! ### builders -/

/-- `Builder.update` merges the keywords (new values win) and replaces the positionals only if new
ones are given; `reset` replaces both; `__call__` without overrides builds from exactly the stored
values. -/
theorem C13_builder (f : Flavour σ) (sp sp' : Spec) (args : List Int) (kw : PMap) :
    (sp.update f args kw = .ok sp' →
      sp'.args = (if args.isEmpty then sp.args else args) ∧ ∀ k, pget sp'.kwargs k = por (pget kw k) (pget sp.kwargs k)) ∧
    (sp.reset f args kw = .ok sp' → sp' = { args := args, kwargs := kw }) ∧
    sp.call f [] [] = f.build sp.args sp.kwargs := by
  refine ⟨fun h => ?_, fun h => ?_, rfl⟩
  · simp only [Spec.update, mkSpec] at h
    split at h
    · cases h
    · cases h; exact ⟨rfl, fun k => pget_pupdate _ _ k⟩
  · simp only [Spec.reset, mkSpec] at h
    split at h
    · cases h
    · cases h; rfl

/-! ### non-vacuity (tests, not theorems): concrete objects satisfy the hypotheses -/

/-- the signatures of the toy actors are well-formed -/
example : Sig.wf { pos := [0, 1], defaults := [(0, 1), (1, 0)] } = true ∧
    Sig.wf { pos := [0, 1, 2], defaults := [(0, 1), (1, 0), (2, 0)], hidden := [2] } = true ∧
    Sig.wf { pos := [0, 1], mandatory := [0], defaults := [(1, 0)] } = true := by decide

def exSig : Sig := { pos := [0, 1], defaults := [(0, 1), (1, 0)] }
def exNative : Flavour Int := native toyUser exSig true
def exCustom : Flavour Int := nativeCustom toyUser exSig
def exMand : Flavour Int := wrapped toyUser { pos := [0, 1], mandatory := [0], defaults := [(1, 0)] } .method

/-- a builder `(a=2, b=3)`, trained twice, state transferred to a fresh actor: same output -/
example :
    (do let o ← exNative.build [] [(0, 2), (1, 3)]
        let t ← trainAll exNative o [(1, 2), (3, 4)]
        let r ← exNative.setState o (exNative.getState t)
        pure (← exNative.apply r 10, ← exNative.apply t 10) : Except Err (Int × Int)) = .ok (122, 122) := by rfl

/-- the hypotheses of `C13_update_transfer` are satisfiable by a non-trivial run: train, `set_params(b=5)`,
train on the twin; `update(b=5)` on the builder; both builds succeed -/
example :
    (do let sp ← mkSpec exNative [] [(0, 2)]
        let o0 ← sp.call exNative [] []
        let twin ← runOps exNative o0 [.train 1 2, .setParams [(1, 5)], .train 3 4]
        let sp' ← sp.follow exNative [.train 1 2, .setParams [(1, 5)], .train 3 4]
        let r0 ← sp'.call exNative [] []
        let r ← giveState true exNative r0 (exNative.getState twin)
        pure (← exNative.apply r 10, ← exNative.apply twin 10, pget (exNative.getParams r) 1)
      : Except Err (Int × Int × Option Int)) = .ok (124, 124, some 5) := by rfl

/-- the hypothesis `formlState` of `C13_params_win` is needed: an actor whose own `set_state`
overwrites everything loses the builder's `a=2` to the state's `a=9` on a direct `set_state` … -/
example :
    (do let o ← exCustom.build [] [(0, 2)]
        let t ← exCustom.build [] [(0, 9)]
        let r ← exCustom.setState o (exCustom.getState t)
        pure (pget (exCustom.getParams r) 0) : Except Err (Option Int)) = .ok (some 9) := by rfl

/-- … and keeps it through the platform's preset (`C13_params_win_preset`) -/
example :
    (do let o ← exCustom.build [] [(0, 2)]
        let t ← exCustom.build [] [(0, 9)]
        let r ← presetState exCustom o (exCustom.getState t)
        pure (pget (exCustom.getParams r) 0) : Except Err (Option Int)) = .ok (some 2) := by rfl

/-- a trained wrapped actor with a mandatory constructor argument is pickled (repaired reducer) -/
example :
    (do let o ← exMand.build [] [(0, 2)]
        let t ← trainAll exMand o [(1, 2)]
        let t' ← exMand.repickle t
        pure (← exMand.apply t' 10, ← exMand.apply t 10) : Except Err (Int × Int)) = .ok (53, 53) := by rfl

/-- a wrapped actor with a constructor argument that is not a hyper-parameter satisfies the invariant -/
example : WrappedInv (σ := Int) { pos := [0, 2], defaults := [(0, 1), (2, 0)], hidden := [2] } .absent
    { params := [(0, 1), (2, 7)], state := none, ctor := ([], [(2, 7)]) } :=
  ⟨{ params := [(0, 1), (2, 7)], state := none }, rfl, by decide, fun _ _ hk => hk, fun _ => ⟨rfl, fun _ _ => rfl⟩⟩

/-- a family: stateless base, subclass adding `train`, sub-subclass with its own state methods, an
unrelated stateful class and its subclass: resolution per class -/
example : let tbl : Classes := [⟨none, false, false⟩, ⟨some 0, true, false⟩, ⟨some 1, false, true⟩, ⟨none, true, false⟩, ⟨some 3, false, false⟩]
    (List.range 5).map (resolvesTrain tbl) = [false, true, true, true, true] ∧
    (List.range 5).map (classFlavour exSig tbl) =
      [.native exSig false, .native exSig true, .custom exSig, .native exSig true, .native exSig true] := by decide

end ForML.Actor
