/-
C20 — Configuration layering and provider lookup are deterministic.  Property theorems only
(helper lemmas: ForML/Lemmas/C20Conf.lean, ForML/Lemmas/C20Bank.lean).

Reading of the statement in the models
  * a stack of sources is `stack base cs = cs.foldl merge base` (Config.__init__/update/read); what is visible at a key
    path `p` is `obs c p` (the scalar, the list, or "a table").  `untouched c p` = source `c` says nothing about `p`.
  * `layered` is the spec-shaped, newest-first reading of a stack (the newest source saying something about `p`
    decides; lists accumulate new-first without repeats; a source replacing a prefix of `p` hides everything older).
  * one bank: `addAll Bank.empty cs` registers the class definitions `cs` in list order (import/registration order);
    the process-level model (`get`) takes the iteration order of the path set as the parameter `order` and — like the
    repaired `Bank.get` — sorts it (`C20_lookup_order_free`: the parameter does not matter).
-/
import ForML.Lemmas.C20Conf
import ForML.Lemmas.C20Bank
import ForML.Lemmas.C20Comm
import ForML.Lemmas.C20Mono

namespace ForML.Conf

/-! ## configuration layering -/

/-- One more source, path by path: key by key at any depth (the statement is about every path `p`). -/
theorem C20_merge_step (acc c : Cfg) (p : Path) :
    obs (merge acc c) p = stepLeaf (obs acc p) (obs c p) (untouched c p) := obs_merge acc c p

/-- Every stack, every path: the real left fold of `merge` shows exactly the newest-first layered reading. -/
theorem C20_override (base : Cfg) (cs : List Cfg) (p : Path) :
    obs (stack base cs) p = layered (obs base p) cs.reverse p := obs_stack base cs p

private theorem layered_untouched (b : Option Leaf) (post rest : List Cfg) (p : Path)
    (h : ∀ d ∈ post, untouched d p = true) : layered b (post ++ rest) p = layered b rest p := by
  induction post with
  | nil => rfl
  | cons d post ih =>
    have hd := h d (by simp)
    simp only [List.cons_append, layered, untouched_obs_none d p hd, hd, stepLeaf]
    exact ih (fun x hx => h x (List.mem_cons_of_mem _ hx))

/-- Later sources override earlier ones: the last source defining `p` as a scalar decides, whatever was below. -/
theorem C20_override_scalar (base : Cfg) (pre post : List Cfg) (c : Cfg) (p : Path) (v : Nat)
    (hc : obs c p = some (.scalar v)) (hpost : ∀ d ∈ post, untouched d p = true) :
    obs (stack base (pre ++ c :: post)) p = some (.scalar v) := by
  rw [C20_override]
  simp only [List.reverse_append, List.reverse_cons, List.append_assoc, List.singleton_append]
  rw [layered_untouched _ _ _ _ (by simpa using hpost)]
  simp [layered, hc, stepLeaf]

/-- Unrelated keys survive: sources that do not mention `p` leave what is visible at `p` unchanged. -/
theorem C20_unrelated_survive (base : Cfg) (pre post : List Cfg) (p : Path)
    (hpost : ∀ d ∈ post, untouched d p = true) :
    obs (stack base (pre ++ post)) p = obs (stack base pre) p := by
  rw [C20_override, C20_override, List.reverse_append]
  exact layered_untouched _ _ _ _ (by simpa using hpost)

/-- Lists are merged new-first without repeating an element of the newer list. -/
theorem C20_list_merge (acc c : Cfg) (p : Path) (xs ys : List Nat)
    (ha : obs acc p = some (.list xs)) (hc : obs c p = some (.list ys)) :
    obs (merge acc c) p = some (.list (ys ++ xs.filter (fun v => !ys.contains v))) := by
  rw [C20_merge_step, ha, hc]; rfl

/-- The merged list has exactly the elements of both, and no duplicates if neither had any. -/
theorem C20_mergeList_spec (old new : List Nat) :
    (∀ v, v ∈ mergeList old new ↔ v ∈ new ∨ v ∈ old) ∧ (old.Nodup → new.Nodup → (mergeList old new).Nodup) :=
  ⟨mem_mergeList old new, nodup_mergeList old new⟩

private def ListsOk (c : Cfg) : Prop := ∀ p xs, obs c p = some (.list xs) → xs.Nodup

private theorem listsOk_merge (a c : Cfg) (ha : ListsOk a) (hc : ListsOk c) : ListsOk (merge a c) := by
  intro p xs h
  rw [obs_merge] at h
  cases hoc : obs c p with
  | none =>
    rw [hoc] at h
    by_cases hu : untouched c p = true
    · simp [stepLeaf, hu] at h; exact ha p xs h
    · simp [stepLeaf, hu] at h
  | some l =>
    rw [hoc] at h
    cases l with
    | scalar v => simp [stepLeaf] at h
    | table => simp [stepLeaf] at h
    | list ys =>
      cases hoa : obs a p with
      | none => rw [hoa] at h; simp [stepLeaf] at h; subst h; exact hc p ys hoc
      | some la =>
        rw [hoa] at h
        cases la with
        | scalar v => simp [stepLeaf] at h; subst h; exact hc p ys hoc
        | table => simp [stepLeaf] at h; subst h; exact hc p ys hoc
        | list xs' =>
          simp [stepLeaf] at h; subst h
          exact nodup_mergeList xs' ys (ha p xs' hoa) (hc p ys hoc)

/-- For every stack of sources whose lists are duplicate-free, every list of the layered configuration is. -/
theorem C20_list_nodup (base : Cfg) (cs : List Cfg) (hb : allLists nodupB base = true)
    (hcs : ∀ c ∈ cs, allLists nodupB c = true) (p : Path) (xs : List Nat)
    (h : obs (stack base cs) p = some (.list xs)) : xs.Nodup := by
  have conv : ∀ c, allLists nodupB c = true → ListsOk c := fun c hc p xs ho =>
    (nodupB_iff xs).1 (allLists_obs nodupB c p xs hc ho)
  have : ∀ (cs : List Cfg) (base : Cfg), ListsOk base → (∀ c ∈ cs, ListsOk c) → ListsOk (stack base cs) := by
    intro cs
    induction cs with
    | nil => intro base hb _; simpa [stack] using hb
    | cons c cs ih =>
      intro base hb hcs
      have : stack base (c :: cs) = stack (merge base c) cs := by simp [stack]
      rw [this]
      exact ih _ (listsOk_merge base c hb (hcs c (by simp))) (fun d hd => hcs d (List.mem_cons_of_mem _ hd))
  exact this cs base (conv base hb) (fun c hc => conv c (hcs c hc)) p xs h

/-- Override-associativity at full strength: grouping of the sources does not matter. -/
def C20_assoc_full : Prop :=
  ∀ (a b c : Cfg) (p : Path), obs (merge (merge a b) c) p = obs (merge a (merge b c)) p

/-- …which the code that exists does not satisfy when a key changes kind in the middle source
(`{x:{y:1}}`, `{x:5}`, `{x:{z:2}}`: left-grouped the scalar wipes `y`, right-grouped `y` survives). -/
theorem C20_assoc_counterexample : ¬ C20_assoc_full := by
  intro h
  have := h (.table [(0, .table [(1, .scalar 1)])]) (.table [(0, .scalar 5)]) (.table [(0, .table [(2, .scalar 2)])]) [0, 1]
  revert this
  decide

private theorem merge_tables (l r : Tbl) :
    ∃ x, merge (.table l) (.table r) = .table x ∧ ∀ k, lookup k x = combine (lookup k l) (lookup k r) := by
  refine ⟨mergeL l r ++ r.filter (fun e => (lookup e.1 l).isNone), by simp [merge], ?_⟩
  intro k
  have := child_merge_tables l r k
  simpa [merge, child] using this

/-- Associativity holds for all sources that agree on the kind of every common key (any depth, any size). -/
theorem C20_assoc_partial (a b c : Cfg) (hab : compat a b = true) (hbc : compat b c = true)
    (hac : compat a c = true) (p : Path) :
    obs (merge (merge a b) c) p = obs (merge a (merge b c)) p := by
  induction p generalizing a b c with
  | nil =>
    cases a <;> cases b <;> cases c <;> simp [compat] at hab hbc hac <;>
      simp [obs_nil, merge, leaf, mergeList_assoc]
  | cons k p ih =>
    cases a with
    | scalar va =>
      cases b <;> cases c <;> simp [compat] at hab hbc hac
      simp [obs_cons, merge, child]
    | list xa =>
      cases b <;> cases c <;> simp [compat] at hab hbc hac
      simp [obs_cons, merge, child]
    | table la =>
      cases b with
      | scalar _ => simp [compat] at hab
      | list _ => simp [compat] at hab
      | table lb =>
      cases c with
      | scalar _ => simp [compat] at hbc
      | list _ => simp [compat] at hbc
      | table lc =>
      simp only [compat] at hab hbc hac
      obtain ⟨xab, hxab, hlab⟩ := merge_tables la lb
      obtain ⟨xbc, hxbc, hlbc⟩ := merge_tables lb lc
      obtain ⟨x1, hx1, hl1⟩ := merge_tables xab lc
      obtain ⟨x2, hx2, hl2⟩ := merge_tables la xbc
      rw [hxab, hx1, hxbc, hx2, obs_cons, obs_cons]
      simp only [child, hl1, hl2, hlab, hlbc]
      cases ha : lookup k la <;> cases hb : lookup k lb <;> cases hc : lookup k lc <;> simp only [combine]
      rename_i va vb vc
      exact ih va vb vc (compatL_lookup la lb k va vb hab ha hb) (compatL_lookup lb lc k vb vc hbc hb hc)
        (compatL_lookup la lc k va vc hac ha hc)

/-- non-vacuity: three nested, kind-consistent sources with overlapping keys satisfy the hypotheses -/
example :
    let a : Cfg := .table [(0, .table [(1, .scalar 1), (3, .list [1, 2])]), (4, .scalar 0)]
    let b : Cfg := .table [(0, .table [(1, .scalar 7), (2, .scalar 2)])]
    let c : Cfg := .table [(0, .table [(3, .list [2, 5])]), (4, .scalar 9)]
    compat a b = true ∧ compat b c = true ∧ compat a c = true ∧
      obs (merge (merge a b) c) [0, 3] = some (.list [2, 5, 1]) := by decide

/-- non-vacuity of `C20_list_nodup` / `C20_override_scalar`: a three-source stack with a type flip -/
example :
    let s1 : Cfg := .table [(0, .list [1, 2]), (1, .table [(2, .scalar 3)])]
    let s2 : Cfg := .table [(0, .list [2, 3]), (1, .scalar 4)]
    let s3 : Cfg := .table [(5, .scalar 6)]
    allLists nodupB s1 = true ∧ allLists nodupB s2 = true ∧ untouched s3 [1] = true ∧
      obs (stack (.table []) [s1, s2, s3]) [0] = some (.list [2, 3, 1]) ∧
      obs (stack (.table []) [s1, s2, s3]) [1] = some (.scalar 4) ∧
      obs (stack (.table []) [s1, s2, s3]) [1, 2] = none := by decide

/-- A reference to a section that the layered configuration does not contain is the missing-section error. -/
theorem C20_section_missing (cfg : Cfg) (g r kp kq : Nat) (h : get cfg [g, r] = none)
    (hg : ∀ v, child cfg g = some v → ∃ t, v = .table t) :
    resolveSection cfg g r kp kq = .error .missing := by
  cases hc : child cfg g with
  | none => simp [resolveSection, hc]
  | some v =>
    obtain ⟨t, ht⟩ := hg v hc
    subst ht
    simp only [get] at h
    rw [hc] at h
    simp only [child] at h
    cases hl : lookup r t with
    | none => simp [resolveSection, hc, hl]
    | some w => simp [hl] at h

end ForML.Conf

namespace ForML.Bank

/-! ## provider bank -/

/-- Order independence of registration: for every collision-free set of class definitions and every two
registration (import) orders, both succeed and bind every reference to the same class. -/
theorem C20_bank_order (cs cs' : List ClassDef) (hp : cs.Perm cs') (hcf : collisionFree cs = true) :
    ∃ b b', addAll Bank.empty cs = .ok b ∧ addAll Bank.empty cs' = .ok b' ∧
      ∀ r, lookupRef r b.provider = lookupRef r b'.provider := by
  obtain ⟨b, hb, hr⟩ := addAll_char cs [] Bank.empty (by intro r; simp [Bank.empty, lookupRef, regs]) (by simpa using hcf)
  obtain ⟨b', hb', hr'⟩ := addAll_char cs' [] Bank.empty (by intro r; simp [Bank.empty, lookupRef, regs])
    (by simpa using collisionFree_perm hp hcf)
  refine ⟨b, b', hb, hb', ?_⟩
  intro r
  have h1 := hr r
  have h2 := hr' r
  simp only [List.nil_append] at h1 h2
  rw [h1, h2]
  exact regs_perm hp hcf r

/-- Colliding references are rejected at registration: two concrete classes of different identity sharing a
reference make the registration fail with the collision error — in whatever order the list is. -/
theorem C20_collision_rejected (cs : List ClassDef) (c d : ClassDef) (hc : c ∈ cs) (hd : d ∈ cs)
    (hca : c.abstract = false) (hda : d.abstract = false) (r : Ref) (hrc : r ∈ refs c) (hrd : r ∈ refs d)
    (hne : c.id ≠ d.id) : addAll Bank.empty cs = .error .collision := by
  cases h : addAll Bank.empty cs with
  | error e => rw [addAll_error_collision cs _ e h]
  | ok b =>
    have hb := addAll_bound cs [] Bank.empty b (by intro c hc; simp at hc) h
    have h1 := hb c (by simpa using hc) hca r hrc
    have h2 := hb d (by simpa using hd) hda r hrd
    rw [h1] at h2
    exact absurd (Option.some.inj h2) hne

/-- Abstract providers are never bound: every binding comes from a concrete class of the list carrying it. -/
theorem C20_abstract_never_registered (cs : List ClassDef) (b : Bank) (h : addAll Bank.empty cs = .ok b)
    (r : Ref) (i : ClassId) (hl : lookupRef r b.provider = some i) :
    ∃ c ∈ cs, c.abstract = false ∧ r ∈ refs c ∧ c.id = i := by
  obtain ⟨c, hc, ha, hr, hi⟩ := addAll_sound (U := fun c => c ∈ cs) cs (fun c hc => hc) Bank.empty b
    (bankSound_empty _) h r i (lookupRef_mem hl)
  exact ⟨c, hc, ha, hr, hi⟩

/-- …where "abstract" is the module's own extended predicate: a registered class has neither unimplemented abstract
methods / properties (own, inherited, from a mixin) nor an abstract inner class among its own attributes. -/
theorem C20_abstract_extended (cs : List ClassDef) (b : Bank) (h : addAll Bank.empty cs = .ok b)
    (r : Ref) (i : ClassId) (hl : lookupRef r b.provider = some i) :
    ∃ c ∈ cs, c.unimpl = false ∧ c.inner = false ∧ r ∈ refs c ∧ c.id = i := by
  obtain ⟨c, hc, ha, hr, hi⟩ := C20_abstract_never_registered cs b h r i hl
  simp only [ClassDef.abstract, Bool.or_eq_false_iff] at ha
  exact ⟨c, hc, ha.1, ha.2, hr, hi⟩

/-- `Bank.add` with the registration skip decided by the standard library's `inspect.isabstract` alone -/
def addStdlib (b : Bank) (c : ClassDef) : Except Err Bank :=
  if collides b c then .error .collision
  else
    let paths := addPaths b.paths (c.paths.map (fun m => ⟨m, true⟩))
    if c.unimpl then .ok ⟨b.provider, paths⟩
    else .ok ⟨register b.provider c, paths⟩

def C20_abstract_stdlib_full : Prop :=
  ∀ (c : ClassDef) (b : Bank), addStdlib Bank.empty c = .ok b → ∀ r i, lookupRef r b.provider = some i → c.abstract = false

/-- Why both sites must use the extended predicate: a class whose methods are all implemented but which carries an
abstract inner class would be registered (and returned by its qualified name). -/
theorem C20_abstract_stdlib_counterexample : ¬ C20_abstract_stdlib_full := by
  intro h
  have := h ⟨⟨⟨1, some 5⟩, 1⟩, none, false, true, [⟨⟨0, none⟩, 0⟩], []⟩ _ rfl (.qual ⟨⟨1, some 5⟩, 1⟩) ⟨⟨1, some 5⟩, 1⟩
    (by decide)
  revert this
  decide

/-- An alias on an abstract class is rejected by `__init_subclass__` before any bank is touched. -/
theorem C20_abstract_alias_rejected (st : St) (c : ClassDef) (a : Nat) (ha : c.alias = some a)
    (hab : c.abstract = true) : initSubclass st c = (st, some .abstractAlias) := by
  simp [initSubclass, ha, hab]

/-- Whatever the pop order of the path set: `Service[reference]` only ever returns a concrete class of the world
that carries the reference (never an abstract one, never some other provider), and the state stays sound. -/
theorem C20_lookup_sound (w : World) (st : St) (iface : ClassId) (r : Ref) (order : List Mod)
    (hs : StSound (InWorld w) st) :
    StSound (InWorld w) (get w st iface r order).1 ∧
      ∀ i, (get w st iface r order).2 = .ok i → ∃ c, InWorld w c ∧ c.abstract = false ∧ r ∈ refs c ∧ c.id = i :=
  get_sound w st iface r order hs

/-- An unknown reference (carried by no concrete class of the world) is an error for every pop order — the
missing-provider error unless an import on the way raised first — and never yields some other provider. -/
theorem C20_missing (w : World) (st : St) (iface : ClassId) (r : Ref) (order : List Mod)
    (hs : StSound (InWorld w) st) (hun : ∀ c, InWorld w c → c.abstract = false → r ∉ refs c) :
    ∃ e, (get w st iface r order).2 = .error e := by
  cases h : (get w st iface r order).2 with
  | error e => exact ⟨e, rfl⟩
  | ok i =>
    obtain ⟨c, hw, ha, hr, _⟩ := (get_sound w st iface r order hs).2 i h
    exact absurd hr (hun c hw ha)

/-- …and with nothing to import (no search paths registered for the interface, alias reference) it is exactly
the missing-provider error. -/
theorem C20_missing_exact (w : World) (st : St) (iface : ClassId) (a : Nat)
    (hp : (getBank iface st.banks).paths = []) (hl : lookupRef (.alias a) (getBank iface st.banks).provider = none) :
    (get w st iface (.alias a) []).2 = .error .missing := by
  simp [get, hl, todoPaths, arrange, refPaths, hp, getLoop, finish, sortPaths]

/-- In a world without registration defects (`worldClean`: no alias on an abstract class, no reference shared by two
class identities) whose registered search paths exist, an unknown reference raises exactly the missing-provider error —
from every sound state (any import history) and under every pop order. -/
theorem C20_missing_clean (w : World) (st : St) (iface : ClassId) (r : Ref) (order : List Mod)
    (hw : worldClean w = true) (hs : StSound (InWorld w) st)
    (hp : (getBank iface st.banks).paths.all (fun p => importable w p.mod) = true)
    (hun : ∀ c, InWorld w c → c.abstract = false → r ∉ refs c) :
    (get w st iface r order).2 = .error .missing := by
  have hunk : ∀ (st' : St), StSound (InWorld w) st' → lookupRef r (getBank iface st'.banks).provider = none := by
    intro st' hs'
    cases hl : lookupRef r (getBank iface st'.banks).provider with
    | none => rfl
    | some i =>
      obtain ⟨c, hc, ha, hr, _⟩ := getBank_sound hs' iface r i (lookupRef_mem hl)
      exact absurd hr (hun c hc ha)
  unfold get
  rw [hunk st hs]
  simp only
  have hexp : ∀ p ∈ todoPaths (getBank iface st.banks) r order, p.explicit = true → importable w p.mod = true := by
    intro p hm he
    exact (List.all_eq_true.1 hp) p (mem_todoPaths hm he)
  have h1 := getLoop_sound w iface r (todoPaths (getBank iface st.banks) r order) st hs
  have h2 := getLoop_clean hw iface r (todoPaths (getBank iface st.banks) r order) st hs hexp
  cases hl : getLoop w iface r st (todoPaths (getBank iface st.banks) r order) with
  | mk st' e =>
    rw [hl] at h1 h2
    simp only at h2
    subst h2
    simp only [finish, hunk st' h1]

/-- non-vacuity of `C20_missing_clean`: a clean two-package world, the state after importing the interface, an unknown
alias and an unknown qualified name -/
example :
    let w : World :=
      [ (⟨0, none⟩, ⟨[], [⟨⟨⟨0, none⟩, 0⟩, none, true, false, [], [⟨1, none⟩, ⟨2, none⟩]⟩]⟩),
        (⟨1, none⟩, ⟨[5], []⟩), (⟨2, none⟩, ⟨[], []⟩),
        (⟨1, some 5⟩, ⟨[], [⟨⟨⟨1, some 5⟩, 1⟩, some 5, false, false, [⟨⟨0, none⟩, 0⟩], []⟩]⟩),
        (⟨2, some 6⟩, ⟨[], [⟨⟨⟨2, some 6⟩, 1⟩, some 6, false, false, [⟨⟨0, none⟩, 0⟩], []⟩]⟩) ]
    let st := runImports w St.empty [⟨0, none⟩]
    worldClean w = true ∧ (getBank ⟨⟨0, none⟩, 0⟩ st.banks).paths.all (fun p => importable w p.mod) = true ∧
      (get w st ⟨⟨0, none⟩, 0⟩ (.alias 7) [⟨1, none⟩, ⟨2, none⟩]).2 = .error .missing ∧
      (get w st ⟨⟨0, none⟩, 0⟩ (.qual ⟨⟨1, some 5⟩, 9⟩) [⟨2, none⟩, ⟨1, none⟩]).2 = .error .missing ∧
      (get w st ⟨⟨0, none⟩, 0⟩ (.alias 6) [⟨2, none⟩, ⟨1, none⟩]).2 = .ok ⟨⟨2, some 6⟩, 1⟩ := by decide

/-- Lazy lookup at full strength (repaired code, fix C20-sorted-search-paths): outcome and resulting state do not
depend on the iteration order of the path set (string hashing, PYTHONHASHSEED, insertion history). -/
theorem C20_lookup_order_free (w : World) (st : St) (iface : ClassId) (r : Ref) (o1 o2 : List Mod)
    (h1 : validOrder (getBank iface st.banks).paths o1 = true) (h2 : validOrder (getBank iface st.banks).paths o2 = true) :
    get w st iface r o1 = get w st iface r o2 := by
  simp only [get, todoPaths_order_free _ r o1 o2 h1 h2]

/-- the world of the (fixed) finding C20-F1: interface `Base(path=[pk1, pk2])` in module 0, `pk1/dup.py` and
`pk2/dup.py` each defining a concrete class with alias `dup` (= 5) -/
def witnessWorld : World :=
  [ (⟨0, none⟩, ⟨[], [⟨⟨⟨0, none⟩, 0⟩, none, true, false, [], [⟨1, none⟩, ⟨2, none⟩]⟩]⟩),
    (⟨1, none⟩, ⟨[], []⟩), (⟨2, none⟩, ⟨[], []⟩),
    (⟨1, some 5⟩, ⟨[], [⟨⟨⟨1, some 5⟩, 1⟩, some 5, false, false, [⟨⟨0, none⟩, 0⟩], []⟩]⟩),
    (⟨2, some 5⟩, ⟨[], [⟨⟨⟨2, some 5⟩, 1⟩, some 5, false, false, [⟨⟨0, none⟩, 0⟩], []⟩]⟩) ]

def witnessState : St :=
  match importMod witnessWorld St.empty ⟨0, none⟩ with
  | some (st, _) => st
  | none => St.empty

/-- `Bank.get` as it was before the fix: the search list is the set in its iteration order, unsorted -/
def getUnsorted (w : World) (st : St) (iface : ClassId) (r : Ref) (order : List Mod) : St × Res :=
  match lookupRef r (getBank iface st.banks).provider with
  | some c => (st, .ok c)
  | none =>
    let base := arrange (getBank iface st.banks).paths order
    finish iface r (getLoop w iface r st (base ++ refPaths r base).reverse)

def C20_lookup_unsorted_full : Prop :=
  ∀ (w : World) (st : St) (iface : ClassId) (r : Ref) (o1 o2 : List Mod),
    validOrder (getBank iface st.banks).paths o1 = true → validOrder (getBank iface st.banks).paths o2 = true →
    (getUnsorted w st iface r o1).2 = (getUnsorted w st iface r o2).2

/-- Why the fix was needed: without the `sorted`, the same alias in two discoverable modules resolves to
`pk2.dup:Impl` under one iteration order and to `pk1.dup:Impl` under the other (finding C20-F1, now fixed). -/
theorem C20_lookup_unsorted_counterexample : ¬ C20_lookup_unsorted_full := by
  intro h
  have := h witnessWorld witnessState ⟨⟨0, none⟩, 0⟩ (.alias 5) [⟨1, none⟩, ⟨2, none⟩] [⟨2, none⟩, ⟨1, none⟩]
    (by decide) (by decide)
  revert this
  decide

/-- the reference is carried by at most one class identity among the concrete classes of the world (decidable) -/
def uniqueRef (w : World) (r : Ref) : Bool :=
  let cs := (w.flatMap (fun e => e.2.classes)).filter (fun c => !c.abstract && (refs c).contains r)
  cs.all fun c => cs.all fun d => c.id == d.id

/-- The same single class whatever was imported before, in whatever order: for every world in which the reference is
carried by one class identity, any two lookups — from any two (sound) process states, i.e. after any two import
histories, and under any pop orders — that return a class return the same class. -/
theorem C20_lookup_single_class (w : World) (st st' : St) (iface iface' : ClassId) (r : Ref) (o1 o2 : List Mod)
    (hs : StSound (InWorld w) st) (hs' : StSound (InWorld w) st') (hu : uniqueRef w r = true) (i j : ClassId)
    (h1 : (get w st iface r o1).2 = .ok i) (h2 : (get w st' iface' r o2).2 = .ok j) : i = j := by
  obtain ⟨c, ⟨mc, dc, hmc, hcc⟩, hca, hcr, hci⟩ := (get_sound w st iface r o1 hs).2 i h1
  obtain ⟨d, ⟨md, dd, hmd, hdd⟩, hda, hdr, hdi⟩ := (get_sound w st' iface' r o2 hs').2 j h2
  simp only [uniqueRef, List.all_eq_true, List.mem_filter, List.mem_flatMap, beq_iff_eq, Bool.and_eq_true,
    Bool.not_eq_true', List.contains_eq_mem, decide_eq_true_eq] at hu
  rw [← hci, ← hdi]
  exact hu c ⟨⟨(mc, dc), hmc, hcc⟩, hca, hcr⟩ d ⟨⟨(md, dd), hmd, hdd⟩, hda, hdr⟩

/-- …in particular after any two import histories (any modules, any order, failing imports included) from a fresh
process: the reference resolves to one and the same class or not at all. -/
theorem C20_lookup_import_order (w : World) (ms ms' : List Mod) (iface iface' : ClassId) (r : Ref) (o1 o2 : List Mod)
    (hu : uniqueRef w r = true) (i j : ClassId)
    (h1 : (get w (runImports w St.empty ms) iface r o1).2 = .ok i)
    (h2 : (get w (runImports w St.empty ms') iface' r o2).2 = .ok j) : i = j :=
  C20_lookup_single_class w _ _ iface iface' r o1 o2 (runImports_sound w ms _ (stSound_empty _))
    (runImports_sound w ms' _ (stSound_empty _)) hu i j h1 h2

/-- Lookup cannot tell apart two process states with the same bindings, the same *sets* of search paths and the same
set of imported modules (`StEq`), however they were built up: same outcome — class or error — and again
indistinguishable states (so this extends to any sequence of lookups). -/
theorem C20_lookup_state_equiv (w : World) (st st' : St) (iface : ClassId) (r : Ref) (o o' : List Mod)
    (h : StEq st st') (ho : validOrder (getBank iface st.banks).paths o = true)
    (ho' : validOrder (getBank iface st'.banks).paths o' = true) :
    (get w st iface r o).2 = (get w st' iface r o').2 ∧ StEq (get w st iface r o).1 (get w st' iface r o').1 :=
  get_congr w iface r h ho ho'

/-- Whatever the import order, at full strength (repaired code): if a list of `import` statements succeeds from a
fresh process, then so does every permutation of it, and every later `Service[reference]` — by alias or by qualified
name, known or unknown, under any iteration orders of the path sets — has the same outcome (the same class or the same
error) after both. -/
theorem C20_import_order_free (w : World) (ms ms' : List Mod) (hp : ms.Perm ms') (s : St)
    (hs : importAll w St.empty ms = some s) :
    ∃ s', importAll w St.empty ms' = some s' ∧ StEq s s' ∧
      ∀ (iface : ClassId) (r : Ref) (o o' : List Mod), validOrder (getBank iface s.banks).paths o = true →
        validOrder (getBank iface s'.banks).paths o' = true → (get w s iface r o).2 = (get w s' iface r o').2 := by
  obtain ⟨s', hs', hE⟩ := importAll_perm w hp St.empty St.empty s (StEq.refl _) hs
  exact ⟨s', hs', hE, fun iface r o o' ho ho' => (get_congr w iface r hE ho ho').1⟩

/-- non-vacuity of `C20_import_order_free`: three modules of two packages (an abstract intermediate in one of them)
imported in two orders from a fresh process — both succeed, and the representations of the two states differ -/
example :
    let w : World :=
      [ (⟨0, none⟩, ⟨[], [⟨⟨⟨0, none⟩, 0⟩, none, true, false, [], [⟨1, none⟩, ⟨2, none⟩]⟩]⟩),
        (⟨1, none⟩, ⟨[5], []⟩), (⟨2, none⟩, ⟨[], []⟩),
        (⟨1, some 5⟩, ⟨[], [⟨⟨⟨1, some 5⟩, 1⟩, some 5, false, false, [⟨⟨0, none⟩, 0⟩], []⟩]⟩),
        (⟨1, some 7⟩, ⟨[], [⟨⟨⟨1, some 7⟩, 2⟩, none, true, false, [⟨⟨0, none⟩, 0⟩], [⟨3, none⟩]⟩,
                            ⟨⟨⟨1, some 7⟩, 1⟩, some 7, false, false, [⟨⟨1, some 7⟩, 2⟩, ⟨⟨0, none⟩, 0⟩], []⟩]⟩),
        (⟨2, some 6⟩, ⟨[], [⟨⟨⟨2, some 6⟩, 1⟩, some 6, false, false, [⟨⟨0, none⟩, 0⟩], []⟩]⟩) ]
    let ms : List Mod := [⟨0, none⟩, ⟨1, some 5⟩, ⟨1, some 7⟩, ⟨2, some 6⟩]
    let ms' : List Mod := [⟨0, none⟩, ⟨2, some 6⟩, ⟨1, some 7⟩, ⟨1, some 5⟩]
    ms.Perm ms' ∧ (importAll w St.empty ms).isSome = true ∧ (importAll w St.empty ms').isSome = true ∧
      importAll w St.empty ms ≠ importAll w St.empty ms' := by decide

/-- Nothing is ever consumed: a lookup keeps every binding, every search path of every bank (the path sets never
shrink) and every `sys.modules` entry — whatever it was asked and however it ended. -/
theorem C20_lookup_keeps_state (w : World) (st : St) (iface : ClassId) (r : Ref) (order : List Mod) :
    StLe st (get w st iface r order).1 := get_le w st iface r order

/-- Lookup-sequence independence for hits: once `Service[reference]` has returned a class, every later lookup of that
reference returns the same class, whatever imports (failing ones included) and lookups (hits and misses, of any
interface) happen in between. Together with `C20_lookup_single_class` (any two hits agree) the answer does not depend
on the position in a sequence. -/
theorem C20_lookup_stable (w : World) (st : St) (iface : ClassId) (r : Ref) (o o' : List Mod) (c : ClassId)
    (ops : List HOp) (h : (get w st iface r o).2 = .ok c) :
    (get w (runHist w (get w st iface r o).1 ops) iface r o').2 = .ok c := by
  apply get_of_bound
  exact ((runHist_le w ops _).1 iface).1 r c (get_ok_bound w st iface r o c h)

/-- …and a hit anywhere in any history from a fresh process is the unique carrier of the reference. -/
theorem C20_lookup_history (w : World) (ops ops' : List HOp) (iface iface' : ClassId) (r : Ref) (o o' : List Mod)
    (hu : uniqueRef w r = true) (i j : ClassId)
    (h1 : (get w (runHist w St.empty ops) iface r o).2 = .ok i)
    (h2 : (get w (runHist w St.empty ops') iface' r o').2 = .ok j) : i = j :=
  C20_lookup_single_class w _ _ iface iface' r o o' (runHist_sound w ops _ (stSound_empty _))
    (runHist_sound w ops' _ (stSound_empty _)) hu i j h1 h2

/-- non-vacuity: in the witness world the qualified reference of `pk1.dup:Impl` is unique, the state after importing
the interface is sound-by-construction input, both orders return that class; the alias `dup` is not unique and now
resolves to the same class (`pk2.dup:Impl`, the later name in sorted order is popped first) under both orders -/
example :
    uniqueRef witnessWorld (.qual ⟨⟨1, some 5⟩, 1⟩) = true ∧
      (get witnessWorld witnessState ⟨⟨0, none⟩, 0⟩ (.qual ⟨⟨1, some 5⟩, 1⟩) [⟨1, none⟩, ⟨2, none⟩]).2
        = .ok ⟨⟨1, some 5⟩, 1⟩ ∧
      (get witnessWorld witnessState ⟨⟨0, none⟩, 0⟩ (.qual ⟨⟨1, some 5⟩, 1⟩) [⟨2, none⟩, ⟨1, none⟩]).2
        = .ok ⟨⟨1, some 5⟩, 1⟩ ∧
      uniqueRef witnessWorld (.alias 5) = false ∧
      validOrder (getBank ⟨⟨0, none⟩, 0⟩ witnessState.banks).paths [⟨2, none⟩, ⟨1, none⟩] = true ∧
      (get witnessWorld witnessState ⟨⟨0, none⟩, 0⟩ (.alias 5) [⟨1, none⟩, ⟨2, none⟩]).2 = .ok ⟨⟨2, some 5⟩, 1⟩ ∧
      (get witnessWorld witnessState ⟨⟨0, none⟩, 0⟩ (.alias 5) [⟨2, none⟩, ⟨1, none⟩]).2 = .ok ⟨⟨2, some 5⟩, 1⟩ := by
  decide

/-- non-vacuity of `C20_bank_order` / `C20_collision_rejected`: an abstract intermediate, two aliased concrete classes -/
example :
    let mid : ClassDef := ⟨⟨⟨0, none⟩, 1⟩, none, true, false, [⟨⟨0, none⟩, 0⟩], []⟩
    let a : ClassDef := ⟨⟨⟨1, some 5⟩, 1⟩, some 5, false, false, [⟨⟨0, none⟩, 1⟩, ⟨⟨0, none⟩, 0⟩], []⟩
    let b : ClassDef := ⟨⟨⟨2, some 6⟩, 1⟩, some 6, false, false, [⟨⟨0, none⟩, 0⟩], []⟩
    let b' : ClassDef := ⟨⟨⟨2, some 6⟩, 1⟩, some 5, false, false, [⟨⟨0, none⟩, 0⟩], []⟩
    collisionFree [mid, a, b] = true ∧ collisionFree [mid, a, b'] = false ∧
      (match addAll Bank.empty [b', mid, a] with
        | .error .collision => true
        | _ => false) = true := by decide

end ForML.Bank
