/-
C20 — Configuration layering and provider lookup are deterministic.  Property theorems only
(helper lemmas: ForML/Lemmas/C20Conf.lean, ForML/Lemmas/C20Bank.lean).

Reading of the statement in the models
  * a stack of sources is `stack base cs = cs.foldl merge base` (Config.__init__/update/read); what is visible at a key
    path `p` is `obs c p` (the scalar, the list, or "a table").  `untouched c p` = source `c` says nothing about `p`.
  * `layered` is the spec-shaped, newest-first reading of a stack (the newest source saying something about `p`
    decides; lists accumulate new-first without repeats; a source replacing a prefix of `p` hides everything older).
  * one bank: `addAll Bank.empty cs` registers the class definitions `cs` in list order (import/registration order);
    the process-level model (`get`) takes the iteration order of the path set as the parameter `order` and — like the
    repaired `Bank.get` — sorts it (`C20_lookup_order_free`: the parameter does not matter).
-/
import ForML.Lemmas.C20Conf
import ForML.Lemmas.C20Bank
import ForML.Lemmas.C20Comm
import ForML.Lemmas.C20Mono
import ForML.Lemmas.C20Abc
import ForML.Lemmas.C20Hist
import ForML.Lemmas.C20Section

namespace ForML.Conf

/-! ## configuration layering -/

/-- One more source, path by path: key by key at any depth (the statement is about every path `p`). -/
theorem C20_merge_step (acc c : Cfg) (p : Path) :
    obs (merge acc c) p = stepLeaf (obs acc p) (obs c p) (untouched c p) := obs_merge acc c p

/-- Every stack, every path: the real left fold of `merge` shows exactly the newest-first layered reading. -/
theorem C20_override (base : Cfg) (cs : List Cfg) (p : Path) :
    obs (stack base cs) p = layered (obs base p) cs.reverse p := obs_stack base cs p

private theorem layered_untouched (b : Option Leaf) (post rest : List Cfg) (p : Path)
    (h : ∀ d ∈ post, untouched d p = true) : layered b (post ++ rest) p = layered b rest p := by
  induction post with
  | nil => rfl
  | cons d post ih =>
    have hd := h d (by simp)
    simp only [List.cons_append, layered, untouched_obs_none d p hd, hd, stepLeaf]
    exact ih (fun x hx => h x (List.mem_cons_of_mem _ hx))

/-- Later sources override earlier ones: the last source defining `p` as a scalar decides, whatever was below. -/
theorem C20_override_scalar (base : Cfg) (pre post : List Cfg) (c : Cfg) (p : Path) (v : Nat)
    (hc : obs c p = some (.scalar v)) (hpost : ∀ d ∈ post, untouched d p = true) :
    obs (stack base (pre ++ c :: post)) p = some (.scalar v) := by
  rw [C20_override]
  simp only [List.reverse_append, List.reverse_cons, List.append_assoc, List.singleton_append]
  rw [layered_untouched _ _ _ _ (by simpa using hpost)]
  simp [layered, hc, stepLeaf]

/-- Unrelated keys survive: sources that do not mention `p` leave what is visible at `p` unchanged. -/
theorem C20_unrelated_survive (base : Cfg) (pre post : List Cfg) (p : Path)
    (hpost : ∀ d ∈ post, untouched d p = true) :
    obs (stack base (pre ++ post)) p = obs (stack base pre) p := by
  rw [C20_override, C20_override, List.reverse_append]
  exact layered_untouched _ _ _ _ (by simpa using hpost)

/-- Lists are merged new-first without repeating an element of the newer list. -/
theorem C20_list_merge (acc c : Cfg) (p : Path) (xs ys : List Nat)
    (ha : obs acc p = some (.list xs)) (hc : obs c p = some (.list ys)) :
    obs (merge acc c) p = some (.list (ys ++ xs.filter (fun v => !ys.contains v))) := by
  rw [C20_merge_step, ha, hc]; rfl

/-- The merged list has exactly the elements of both, and no duplicates if neither had any. -/
theorem C20_mergeList_spec (old new : List Nat) :
    (∀ v, v ∈ mergeList old new ↔ v ∈ new ∨ v ∈ old) ∧ (old.Nodup → new.Nodup → (mergeList old new).Nodup) :=
  ⟨mem_mergeList old new, nodup_mergeList old new⟩

private def ListsOk (c : Cfg) : Prop := ∀ p xs, obs c p = some (.list xs) → xs.Nodup

private theorem listsOk_merge (a c : Cfg) (ha : ListsOk a) (hc : ListsOk c) : ListsOk (merge a c) := by
  intro p xs h
  rw [obs_merge] at h
  cases hoc : obs c p with
  | none =>
    rw [hoc] at h
    by_cases hu : untouched c p = true
    · simp [stepLeaf, hu] at h; exact ha p xs h
    · simp [stepLeaf, hu] at h
  | some l =>
    rw [hoc] at h
    cases l with
    | scalar v => simp [stepLeaf] at h
    | table => simp [stepLeaf] at h
    | list ys =>
      cases hoa : obs a p with
      | none => rw [hoa] at h; simp [stepLeaf] at h; subst h; exact hc p ys hoc
      | some la =>
        rw [hoa] at h
        cases la with
        | scalar v => simp [stepLeaf] at h; subst h; exact hc p ys hoc
        | table => simp [stepLeaf] at h; subst h; exact hc p ys hoc
        | list xs' =>
          simp [stepLeaf] at h; subst h
          exact nodup_mergeList xs' ys (ha p xs' hoa) (hc p ys hoc)

/-- For every stack of sources whose lists are duplicate-free, every list of the layered configuration is. -/
theorem C20_list_nodup (base : Cfg) (cs : List Cfg) (hb : allLists nodupB base = true)
    (hcs : ∀ c ∈ cs, allLists nodupB c = true) (p : Path) (xs : List Nat)
    (h : obs (stack base cs) p = some (.list xs)) : xs.Nodup := by
  have conv : ∀ c, allLists nodupB c = true → ListsOk c := fun c hc p xs ho =>
    (nodupB_iff xs).1 (allLists_obs nodupB c p xs hc ho)
  have : ∀ (cs : List Cfg) (base : Cfg), ListsOk base → (∀ c ∈ cs, ListsOk c) → ListsOk (stack base cs) := by
    intro cs
    induction cs with
    | nil => intro base hb _; simpa [stack] using hb
    | cons c cs ih =>
      intro base hb hcs
      have : stack base (c :: cs) = stack (merge base c) cs := by simp [stack]
      rw [this]
      exact ih _ (listsOk_merge base c hb (hcs c (by simp))) (fun d hd => hcs d (List.mem_cons_of_mem _ hd))
  exact this cs base (conv base hb) (fun c hc => conv c (hcs c hc)) p xs h

/-- Override-associativity at full strength: grouping of the sources does not matter. -/
def C20_assoc_full : Prop :=
  ∀ (a b c : Cfg) (p : Path), obs (merge (merge a b) c) p = obs (merge a (merge b c)) p

/-- …which the code that exists does not satisfy when a key changes kind in the middle source
(`{x:{y:1}}`, `{x:5}`, `{x:{z:2}}`: left-grouped the scalar wipes `y`, right-grouped `y` survives). -/
theorem C20_assoc_counterexample : ¬ C20_assoc_full := by
  intro h
  have := h (.table [(0, .table [(1, .scalar 1)])]) (.table [(0, .scalar 5)]) (.table [(0, .table [(2, .scalar 2)])]) [0, 1]
  revert this
  decide

private theorem merge_tables (l r : Tbl) :
    ∃ x, merge (.table l) (.table r) = .table x ∧ ∀ k, lookup k x = combine (lookup k l) (lookup k r) := by
  refine ⟨mergeL l r ++ r.filter (fun e => (lookup e.1 l).isNone), by simp [merge], ?_⟩
  intro k
  have := child_merge_tables l r k
  simpa [merge, child] using this

/-- Associativity holds for all sources that agree on the kind of every common key (any depth, any size). -/
theorem C20_assoc_partial (a b c : Cfg) (hab : compat a b = true) (hbc : compat b c = true)
    (hac : compat a c = true) (p : Path) :
    obs (merge (merge a b) c) p = obs (merge a (merge b c)) p := by
  induction p generalizing a b c with
  | nil =>
    cases a <;> cases b <;> cases c <;> simp [compat] at hab hbc hac <;>
      simp [obs_nil, merge, leaf, mergeList_assoc]
  | cons k p ih =>
    cases a with
    | scalar va =>
      cases b <;> cases c <;> simp [compat] at hab hbc hac
      simp [obs_cons, merge, child]
    | list xa =>
      cases b <;> cases c <;> simp [compat] at hab hbc hac
      simp [obs_cons, merge, child]
    | table la =>
      cases b with
      | scalar _ => simp [compat] at hab
      | list _ => simp [compat] at hab
      | table lb =>
      cases c with
      | scalar _ => simp [compat] at hbc
      | list _ => simp [compat] at hbc
      | table lc =>
      simp only [compat] at hab hbc hac
      obtain ⟨xab, hxab, hlab⟩ := merge_tables la lb
      obtain ⟨xbc, hxbc, hlbc⟩ := merge_tables lb lc
      obtain ⟨x1, hx1, hl1⟩ := merge_tables xab lc
      obtain ⟨x2, hx2, hl2⟩ := merge_tables la xbc
      rw [hxab, hx1, hxbc, hx2, obs_cons, obs_cons]
      simp only [child, hl1, hl2, hlab, hlbc]
      cases ha : lookup k la <;> cases hb : lookup k lb <;> cases hc : lookup k lc <;> simp only [combine]
      rename_i va vb vc
      exact ih va vb vc (compatL_lookup la lb k va vb hab ha hb) (compatL_lookup lb lc k vb vc hbc hb hc)
        (compatL_lookup la lc k va vc hac ha hc)

/-- non-vacuity: three nested, kind-consistent sources with overlapping keys satisfy the hypotheses -/
example :
    let a : Cfg := .table [(0, .table [(1, .scalar 1), (3, .list [1, 2])]), (4, .scalar 0)]
    let b : Cfg := .table [(0, .table [(1, .scalar 7), (2, .scalar 2)])]
    let c : Cfg := .table [(0, .table [(3, .list [2, 5])]), (4, .scalar 9)]
    compat a b = true ∧ compat b c = true ∧ compat a c = true ∧
      obs (merge (merge a b) c) [0, 3] = some (.list [2, 5, 1]) := by decide

/-- non-vacuity of `C20_list_nodup` / `C20_override_scalar`: a three-source stack with a type flip -/
example :
    let s1 : Cfg := .table [(0, .list [1, 2]), (1, .table [(2, .scalar 3)])]
    let s2 : Cfg := .table [(0, .list [2, 3]), (1, .scalar 4)]
    let s3 : Cfg := .table [(5, .scalar 6)]
    allLists nodupB s1 = true ∧ allLists nodupB s2 = true ∧ untouched s3 [1] = true ∧
      obs (stack (.table []) [s1, s2, s3]) [0] = some (.list [2, 3, 1]) ∧
      obs (stack (.table []) [s1, s2, s3]) [1] = some (.scalar 4) ∧
      obs (stack (.table []) [s1, s2, s3]) [1, 2] = none := by decide

/-- A reference to a section that the layered configuration does not contain is the missing-section error. -/
theorem C20_section_missing (cfg : Cfg) (g r kp kq : Nat) (h : get cfg [g, r] = none)
    (hg : ∀ v, child cfg g = some v → ∃ t, v = .table t) :
    resolveSection cfg g r kp kq = .error .missing := by
  cases hc : child cfg g with
  | none => simp [resolveSection, hc]
  | some v =>
    obtain ⟨t, ht⟩ := hg v hc
    subst ht
    simp only [get] at h
    rw [hc] at h
    simp only [child] at h
    cases hl : lookup r t with
    | none => simp [resolveSection, hc, hl]
    | some w => simp [hl] at h

end ForML.Conf

namespace ForML.Bank

/-! ## provider bank -/

/-- Order independence of registration: for every collision-free set of class definitions and every two
registration (import) orders, both succeed and bind every reference to the same class. -/
theorem C20_bank_order (cs cs' : List ClassDef) (hp : cs.Perm cs') (hcf : collisionFree cs = true) :
    ∃ b b', addAll Bank.empty cs = .ok b ∧ addAll Bank.empty cs' = .ok b' ∧
      ∀ r, lookupRef r b.provider = lookupRef r b'.provider := by
  obtain ⟨b, hb, hr⟩ := addAll_char cs [] Bank.empty (by intro r; simp [Bank.empty, lookupRef, regs]) (by simpa using hcf)
  obtain ⟨b', hb', hr'⟩ := addAll_char cs' [] Bank.empty (by intro r; simp [Bank.empty, lookupRef, regs])
    (by simpa using collisionFree_perm hp hcf)
  refine ⟨b, b', hb, hb', ?_⟩
  intro r
  have h1 := hr r
  have h2 := hr' r
  simp only [List.nil_append] at h1 h2
  rw [h1, h2]
  exact regs_perm hp hcf r

/-- Colliding references are rejected at registration: two concrete classes that `Meta.__eq__` tells apart (another
module or another qualified name — two nested classes with the same bare name are different classes) and that share a
reference make the registration fail with the collision error — in whatever order the list is. -/
theorem C20_collision_rejected (cs : List ClassDef) (c d : ClassDef) (hc : c ∈ cs) (hd : d ∈ cs)
    (hca : c.abstract = false) (hda : d.abstract = false) (r : Ref) (hrc : r ∈ refs c) (hrd : r ∈ refs d)
    (hmeta : metaEq c.id d.id = false) : addAll Bank.empty cs = .error .collision := by
  have hne : c.id ≠ d.id := fun h => by rw [(metaEq_iff c.id d.id).2 h] at hmeta; cases hmeta
  cases h : addAll Bank.empty cs with
  | error e => rw [addAll_error_collision cs _ e h]
  | ok b =>
    have hb := addAll_bound cs [] Bank.empty b (by intro c hc; simp at hc) h
    have h1 := hb c (by simpa using hc) hca r hrc
    have h2 := hb d (by simpa using hd) hda r hrd
    rw [h1] at h2
    exact absurd (Option.some.inj h2) hne

/-- What `Meta.__eq__` takes for the same class (same module, same qualname: a factory function called twice, a class
statement executed again) is no collision: the statement re-registers the provider and every binding stays as it was. -/
theorem C20_same_class_reregisters (b b1 : Bank) (c : ClassDef) (h : b.add c = .ok b1) :
    ∃ b2, b1.add c = .ok b2 ∧ ∀ r, lookupRef r b2.provider = lookupRef r b1.provider := add_again h

/-- `Meta.__eq__` / `Meta.__hash__` are consistent: it is an equivalence that implies equal hashes (the `BANK` dictionary
keyed by interface classes finds the bank of a re-created interface class). -/
theorem C20_meta_eq_hash (hashOf : Nat → Nat) (a b c : ClassId) :
    metaEq a a = true ∧ (metaEq a b = true → metaEq b a = true) ∧
      (metaEq a b = true → metaEq b c = true → metaEq a c = true) ∧
      (metaEq a b = true → metaHash hashOf a = metaHash hashOf b) := by
  refine ⟨(metaEq_iff a a).2 rfl, ?_, ?_, metaHash_of_eq hashOf a b⟩
  · intro h; exact (metaEq_iff b a).2 ((metaEq_iff a b).1 h).symm
  · intro h1 h2; exact (metaEq_iff a c).2 (((metaEq_iff a b).1 h1).trans ((metaEq_iff b c).1 h2))

/-- `Meta.__eq__` comparing the bare class name (`__name__`) instead of the qualified name: `bare` maps a qualname to its
last component -/
def metaEqName (bare : Nat → Nat) (a b : ClassId) : Bool := a.mod == b.mod && bare a.qn == bare b.qn

/-- `Bank.add` with that equality -/
def addByName (bare : Nat → Nat) (b : Bank) (c : ClassDef) : Except Err Bank :=
  if (refs c).any (fun r => match lookupRef r b.provider with
      | some d => !metaEqName bare d c.id
      | none => false) then .error .collision
  else
    let paths := addPaths b.paths (c.paths.map (fun m => ⟨m, true⟩))
    if c.abstract then .ok ⟨b.provider, paths⟩ else .ok ⟨register b.provider c, paths⟩

def C20_collision_by_name_full : Prop :=
  ∀ (bare : Nat → Nat) (c d : ClassDef) (b1 : Bank), c.abstract = false → d.abstract = false → c.id ≠ d.id →
    (∃ r, r ∈ refs c ∧ r ∈ refs d) → addByName bare Bank.empty c = .ok b1 →
    (match addByName bare b1 d with
      | .error .collision => true
      | _ => false) = true

/-- Why the qualified name has to be compared: by the bare name two different classes of one module (`Production.Sink`
= 11, `Development.Sink` = 21, both `Sink` = 1) claiming the same alias are taken for one class — the second is not
rejected and takes the alias over. -/
theorem C20_collision_by_name_counterexample : ¬ C20_collision_by_name_full := by
  intro h
  have := h (fun n => n % 10) ⟨⟨⟨1, some 3⟩, 11⟩, some 5, false, false, [⟨⟨0, none⟩, 0⟩], []⟩
    ⟨⟨⟨1, some 3⟩, 21⟩, some 5, false, false, [⟨⟨0, none⟩, 0⟩], []⟩ _ rfl rfl (by decide) ⟨.alias 5, by decide, by decide⟩ rfl
  revert this
  decide

/-- …while `Bank.add` as it is rejects exactly that pair (non-vacuity of `C20_collision_rejected` for nested classes
with equal bare names), and accepts the same class statement executed twice -/
example :
    let c : ClassDef := ⟨⟨⟨1, some 3⟩, 11⟩, some 5, false, false, [⟨⟨0, none⟩, 0⟩], []⟩
    let d : ClassDef := ⟨⟨⟨1, some 3⟩, 21⟩, some 5, false, false, [⟨⟨0, none⟩, 0⟩], []⟩
    metaEq c.id d.id = false ∧
      (match addAll Bank.empty [c, d] with
        | .error .collision => true
        | _ => false) = true ∧
      (match addAll Bank.empty [c, c] with
        | .ok b => lookupRef (.alias 5) b.provider == some c.id
        | _ => false) = true := by decide

/-- `importlib.reload`: whatever it re-executes and however it ends, it removes nothing (bindings, search paths,
`sys.modules` entries) and binds nothing but concrete classes of the world carrying the reference.  (Whether a
re-executed class statement counts as the same class depends on the identity of its `__qualname__` string — `reloadClasses`:
interned names re-register, dotted qualnames raise the collision error — which the correspondence check compares.) -/
theorem C20_reload_sound (w : World) (interned : List Nat) (st : St) (m : Mod) (res : St × Option Err)
    (hs : StSound (InWorld w) st) (h : reloadMod w interned st m = some res) :
    StLe st res.1 ∧ StSound (InWorld w) res.1 := by
  unfold reloadMod at h
  cases hf : findMod m w with
  | none => simp [hf] at h
  | some d =>
    simp only [hf] at h
    split at h
    · cases h
      exact ⟨reloadClasses_le interned d.classes st,
        reloadClasses_sound interned d.classes (fun c hc => ⟨m, d, findMod_mem hf, hc⟩) st hs⟩
    · cases h

/-- Abstract providers are never bound: every binding comes from a concrete class of the list carrying it. -/
theorem C20_abstract_never_registered (cs : List ClassDef) (b : Bank) (h : addAll Bank.empty cs = .ok b)
    (r : Ref) (i : ClassId) (hl : lookupRef r b.provider = some i) :
    ∃ c ∈ cs, c.abstract = false ∧ r ∈ refs c ∧ c.id = i := by
  obtain ⟨c, hc, ha, hr, hi⟩ := addAll_sound (U := fun c => c ∈ cs) cs (fun c hc => hc) Bank.empty b
    (bankSound_empty _) h r i (lookupRef_mem hl)
  exact ⟨c, hc, ha, hr, hi⟩

/-- …where "abstract" is the module's own extended predicate: a registered class has neither unimplemented abstract
methods / properties (own, inherited, from a mixin) nor an abstract inner class among its own attributes. -/
theorem C20_abstract_extended (cs : List ClassDef) (b : Bank) (h : addAll Bank.empty cs = .ok b)
    (r : Ref) (i : ClassId) (hl : lookupRef r b.provider = some i) :
    ∃ c ∈ cs, c.unimpl = false ∧ c.inner = false ∧ r ∈ refs c ∧ c.id = i := by
  obtain ⟨c, hc, ha, hr, hi⟩ := C20_abstract_never_registered cs b h r i hl
  simp only [ClassDef.abstract, Bool.or_eq_false_iff] at ha
  exact ⟨c, hc, ha.1, ha.2, hr, hi⟩

/-- `Bank.add` with the registration skip decided by the standard library's `inspect.isabstract` alone -/
def addStdlib (b : Bank) (c : ClassDef) : Except Err Bank :=
  if collides b c then .error .collision
  else
    let paths := addPaths b.paths (c.paths.map (fun m => ⟨m, true⟩))
    if c.unimpl then .ok ⟨b.provider, paths⟩
    else .ok ⟨register b.provider c, paths⟩

def C20_abstract_stdlib_full : Prop :=
  ∀ (c : ClassDef) (b : Bank), addStdlib Bank.empty c = .ok b → ∀ r i, lookupRef r b.provider = some i → c.abstract = false

/-- Why both sites must use the extended predicate: a class whose methods are all implemented but which carries an
abstract inner class would be registered (and returned by its qualified name). -/
theorem C20_abstract_stdlib_counterexample : ¬ C20_abstract_stdlib_full := by
  intro h
  have := h ⟨⟨⟨1, some 5⟩, 1⟩, none, false, true, [⟨⟨0, none⟩, 0⟩], []⟩ _ rfl (.qual ⟨⟨1, some 5⟩, 1⟩) ⟨⟨1, some 5⟩, 1⟩
    (by decide)
  revert this
  decide

/-- An alias on an abstract class is rejected by `__init_subclass__` before any bank is touched. -/
theorem C20_abstract_alias_rejected (st : St) (c : ClassDef) (a : Nat) (ha : c.alias = some a)
    (hab : c.abstract = true) : initSubclass st c = (st, some .abstractAlias) := by
  simp [initSubclass, ha, hab]

/-- `Service[reference]` only ever returns a concrete class of the world that carries the reference (never an abstract
one, never some other provider), and the state stays sound. -/
theorem C20_lookup_sound (w : World) (st : St) (iface : ClassId) (r : Ref)
    (hs : StSound (InWorld w) st) :
    StSound (InWorld w) (get w st iface r).1 ∧
      ∀ i, (get w st iface r).2 = .ok i → ∃ c, InWorld w c ∧ c.abstract = false ∧ r ∈ refs c ∧ c.id = i :=
  get_sound w st iface r hs

/-- An unknown reference (carried by no concrete class of the world) is an error — the missing-provider error unless an
import on the way raised first — and never yields some other provider. -/
theorem C20_missing (w : World) (st : St) (iface : ClassId) (r : Ref)
    (hs : StSound (InWorld w) st) (hun : ∀ c, InWorld w c → c.abstract = false → r ∉ refs c) :
    ∃ e, (get w st iface r).2 = .error e := by
  cases h : (get w st iface r).2 with
  | error e => exact ⟨e, rfl⟩
  | ok i =>
    obtain ⟨c, hw, ha, hr, _⟩ := (get_sound w st iface r hs).2 i h
    exact absurd hr (hun c hw ha)

/-- …and with nothing to import (no search paths registered for the interface, alias reference) it is exactly
the missing-provider error. -/
theorem C20_missing_exact (w : World) (st : St) (iface : ClassId) (a : Nat)
    (hp : (getBank iface st.banks).paths = []) (hl : lookupRef (.alias a) (getBank iface st.banks).provider = none) :
    (get w st iface (.alias a)).2 = .error .missing := by
  simp [get, searchFuel, getLoop, hl, nextPath, searchList, refPaths, hp, finish, sortPaths]

/-- In a world without registration defects (`worldClean`: no alias on an abstract class, no reference shared by two
class identities) whose declared search paths exist, an unknown reference raises exactly the missing-provider error —
from every state reached by imports and lookups (`Inv`, `C20_history_invariant`). -/
theorem C20_missing_clean (w : World) (st : St) (iface : ClassId) (r : Ref)
    (hw : worldClean w = true) (hpo : pathsOk w = true) (hI : Inv w st)
    (hun : ∀ c, InWorld w c → c.abstract = false → r ∉ refs c) :
    (get w st iface r).2 = .error .missing := by
  obtain ⟨_, hend⟩ := get_end hw hpo hI iface r
  rcases hend with ⟨c, hc, _⟩ | ⟨hm, _, _⟩
  · obtain ⟨d, hd, ha, hr, _⟩ := (get_sound w st iface r hI.sound).2 c hc
    exact absurd hr (hun d hd ha)
  · exact hm

/-- non-vacuity of `C20_missing_clean`: a clean two-package world, the state after importing the interface, an unknown
alias and an unknown qualified name -/
example :
    let w : World :=
      [ (⟨0, none⟩, ⟨[], [⟨⟨⟨0, none⟩, 0⟩, none, true, false, [], [⟨1, none⟩, ⟨2, none⟩]⟩]⟩),
        (⟨1, none⟩, ⟨[5], []⟩), (⟨2, none⟩, ⟨[], []⟩),
        (⟨1, some 5⟩, ⟨[], [⟨⟨⟨1, some 5⟩, 1⟩, some 5, false, false, [⟨⟨0, none⟩, 0⟩], []⟩]⟩),
        (⟨2, some 6⟩, ⟨[], [⟨⟨⟨2, some 6⟩, 1⟩, some 6, false, false, [⟨⟨0, none⟩, 0⟩], []⟩]⟩) ]
    let st := runImports w St.empty [⟨0, none⟩]
    worldClean w = true ∧ pathsOk w = true ∧
      (get w st ⟨⟨0, none⟩, 0⟩ (.alias 7)).2 = .error .missing ∧
      (get w st ⟨⟨0, none⟩, 0⟩ (.qual ⟨⟨1, some 5⟩, 9⟩)).2 = .error .missing ∧
      (get w st ⟨⟨0, none⟩, 0⟩ (.alias 6)).2 = .ok ⟨⟨2, some 6⟩, 1⟩ := by decide

/-- Lazy lookup (since fix C20-sorted-search-paths): whatever order the set `self.paths` hands out its elements in
(string hashing, PYTHONHASHSEED, insertion history), `sorted(self.paths)` and with it the search list are the same;
with `C20_lookup_state_equiv` so are outcome and resulting state of the lookup. -/
theorem C20_lookup_order_free (b : Bank) (r : Ref) (ps : List PathE) (hp : ps.Perm b.paths) :
    searchList ⟨b.provider, ps⟩ r = searchList b r ∧
      ∀ searched, nextPath ⟨b.provider, ps⟩ r searched = nextPath b r searched := by
  have h : searchList ⟨b.provider, ps⟩ r = searchList b r := by simp only [searchList, sortPaths_perm hp]
  exact ⟨h, fun _ => by simp only [nextPath, h]⟩

/-- the world of the (fixed) finding C20-F1: interface `Base(path=[pk1, pk2])` in module 0, `pk1/dup.py` and
`pk2/dup.py` each defining a concrete class with alias `dup` (= 5) -/
def witnessWorld : World :=
  [ (⟨0, none⟩, ⟨[], [⟨⟨⟨0, none⟩, 0⟩, none, true, false, [], [⟨1, none⟩, ⟨2, none⟩]⟩]⟩),
    (⟨1, none⟩, ⟨[], []⟩), (⟨2, none⟩, ⟨[], []⟩),
    (⟨1, some 5⟩, ⟨[], [⟨⟨⟨1, some 5⟩, 1⟩, some 5, false, false, [⟨⟨0, none⟩, 0⟩], []⟩]⟩),
    (⟨2, some 5⟩, ⟨[], [⟨⟨⟨2, some 5⟩, 1⟩, some 5, false, false, [⟨⟨0, none⟩, 0⟩], []⟩]⟩) ]

def witnessState : St :=
  match importMod witnessWorld St.empty ⟨0, none⟩ with
  | some (st, _) => st
  | none => St.empty

/-- `Bank.get` as it was before the fix C20-F1: the search list is the set in its iteration order, unsorted (and built
once) -/
def getUnsorted (w : World) (st : St) (iface : ClassId) (r : Ref) (order : List Mod) : St × Res :=
  match lookupRef r (getBank iface st.banks).provider with
  | some c => (st, .ok c)
  | none =>
    let base := arrange (getBank iface st.banks).paths order
    finish iface r (getLoopOnce w iface r st (base ++ refPaths r base).reverse)

def C20_lookup_unsorted_full : Prop :=
  ∀ (w : World) (st : St) (iface : ClassId) (r : Ref) (o1 o2 : List Mod),
    validOrder (getBank iface st.banks).paths o1 = true → validOrder (getBank iface st.banks).paths o2 = true →
    (getUnsorted w st iface r o1).2 = (getUnsorted w st iface r o2).2

/-- Why the fix was needed: without the `sorted`, the same alias in two discoverable modules resolves to
`pk2.dup:Impl` under one iteration order and to `pk1.dup:Impl` under the other (finding C20-F1, now fixed). -/
theorem C20_lookup_unsorted_counterexample : ¬ C20_lookup_unsorted_full := by
  intro h
  have := h witnessWorld witnessState ⟨⟨0, none⟩, 0⟩ (.alias 5) [⟨1, none⟩, ⟨2, none⟩] [⟨2, none⟩, ⟨1, none⟩]
    (by decide) (by decide)
  revert this
  decide

/-- the reference is carried by at most one class identity among the concrete classes of the world (decidable) -/
def uniqueRef (w : World) (r : Ref) : Bool :=
  let cs := (w.flatMap (fun e => e.2.classes)).filter (fun c => !c.abstract && (refs c).contains r)
  cs.all fun c => cs.all fun d => c.id == d.id

/-- The same single class whatever was imported before, in whatever order: for every world in which the reference is
carried by one class identity, any two lookups — from any two (sound) process states, i.e. after any two import
histories — that return a class return the same class. -/
theorem C20_lookup_single_class (w : World) (st st' : St) (iface iface' : ClassId) (r : Ref)
    (hs : StSound (InWorld w) st) (hs' : StSound (InWorld w) st') (hu : uniqueRef w r = true) (i j : ClassId)
    (h1 : (get w st iface r).2 = .ok i) (h2 : (get w st' iface' r).2 = .ok j) : i = j := by
  obtain ⟨c, ⟨mc, dc, hmc, hcc⟩, hca, hcr, hci⟩ := (get_sound w st iface r hs).2 i h1
  obtain ⟨d, ⟨md, dd, hmd, hdd⟩, hda, hdr, hdi⟩ := (get_sound w st' iface' r hs').2 j h2
  simp only [uniqueRef, List.all_eq_true, List.mem_filter, List.mem_flatMap, beq_iff_eq, Bool.and_eq_true,
    Bool.not_eq_true', List.contains_eq_mem, decide_eq_true_eq] at hu
  rw [← hci, ← hdi]
  exact hu c ⟨⟨(mc, dc), hmc, hcc⟩, hca, hcr⟩ d ⟨⟨(md, dd), hmd, hdd⟩, hda, hdr⟩

/-- …in particular after any two import histories (any modules, any order, failing imports included) from a fresh
process: the reference resolves to one and the same class or not at all. -/
theorem C20_lookup_import_order (w : World) (ms ms' : List Mod) (iface iface' : ClassId) (r : Ref)
    (hu : uniqueRef w r = true) (i j : ClassId)
    (h1 : (get w (runImports w St.empty ms) iface r).2 = .ok i)
    (h2 : (get w (runImports w St.empty ms') iface' r).2 = .ok j) : i = j :=
  C20_lookup_single_class w _ _ iface iface' r (runImports_sound w ms _ (stSound_empty _))
    (runImports_sound w ms' _ (stSound_empty _)) hu i j h1 h2

/-- Lookup cannot tell apart two process states with the same bindings, the same *sets* of search paths and the same
set of imported modules (`StEq`), however they were built up: same outcome — class or error — and again
indistinguishable states (so this extends to any sequence of lookups). -/
theorem C20_lookup_state_equiv (w : World) (st st' : St) (iface : ClassId) (r : Ref) (h : StEq st st') :
    (get w st iface r).2 = (get w st' iface r).2 ∧ StEq (get w st iface r).1 (get w st' iface r).1 :=
  get_congr w iface r h

/-- Whatever the import order, at full strength: if a list of `import` statements succeeds from a fresh process, then
so does every permutation of it, and every later `Service[reference]` — by alias or by qualified name, known or
unknown — has the same outcome (the same class or the same error) after both. -/
theorem C20_import_order_free (w : World) (ms ms' : List Mod) (hp : ms.Perm ms') (s : St)
    (hs : importAll w St.empty ms = some s) :
    ∃ s', importAll w St.empty ms' = some s' ∧ StEq s s' ∧
      ∀ (iface : ClassId) (r : Ref), (get w s iface r).2 = (get w s' iface r).2 := by
  obtain ⟨s', hs', hE⟩ := importAll_perm w hp St.empty St.empty s (StEq.refl _) hs
  exact ⟨s', hs', hE, fun iface r => (get_congr w iface r hE).1⟩

/-- non-vacuity of `C20_import_order_free`: three modules of two packages (an abstract intermediate in one of them)
imported in two orders from a fresh process — both succeed, and the representations of the two states differ -/
example :
    let w : World :=
      [ (⟨0, none⟩, ⟨[], [⟨⟨⟨0, none⟩, 0⟩, none, true, false, [], [⟨1, none⟩, ⟨2, none⟩]⟩]⟩),
        (⟨1, none⟩, ⟨[5], []⟩), (⟨2, none⟩, ⟨[], []⟩),
        (⟨1, some 5⟩, ⟨[], [⟨⟨⟨1, some 5⟩, 1⟩, some 5, false, false, [⟨⟨0, none⟩, 0⟩], []⟩]⟩),
        (⟨1, some 7⟩, ⟨[], [⟨⟨⟨1, some 7⟩, 2⟩, none, true, false, [⟨⟨0, none⟩, 0⟩], [⟨3, none⟩]⟩,
                            ⟨⟨⟨1, some 7⟩, 1⟩, some 7, false, false, [⟨⟨1, some 7⟩, 2⟩, ⟨⟨0, none⟩, 0⟩], []⟩]⟩),
        (⟨2, some 6⟩, ⟨[], [⟨⟨⟨2, some 6⟩, 1⟩, some 6, false, false, [⟨⟨0, none⟩, 0⟩], []⟩]⟩) ]
    let ms : List Mod := [⟨0, none⟩, ⟨1, some 5⟩, ⟨1, some 7⟩, ⟨2, some 6⟩]
    let ms' : List Mod := [⟨0, none⟩, ⟨2, some 6⟩, ⟨1, some 7⟩, ⟨1, some 5⟩]
    ms.Perm ms' ∧ (importAll w St.empty ms).isSome = true ∧ (importAll w St.empty ms').isSome = true ∧
      importAll w St.empty ms ≠ importAll w St.empty ms' := by decide

/-- Nothing is ever consumed: a lookup keeps every binding, every search path of every bank (the path sets never
shrink) and every `sys.modules` entry — whatever it was asked and however it ended. -/
theorem C20_lookup_keeps_state (w : World) (st : St) (iface : ClassId) (r : Ref) :
    StLe st (get w st iface r).1 := get_le w st iface r

/-- Lookup-sequence independence for hits: once `Service[reference]` has returned a class, every later lookup of that
reference returns the same class, whatever imports (failing ones included) and lookups (hits and misses, of any
interface) happen in between. Together with `C20_lookup_single_class` (any two hits agree) the answer does not depend
on the position in a sequence. -/
theorem C20_lookup_stable (w : World) (st : St) (iface : ClassId) (r : Ref) (c : ClassId)
    (ops : List HOp) (h : (get w st iface r).2 = .ok c) :
    (get w (runHist w (get w st iface r).1 ops) iface r).2 = .ok c := by
  rw [get_of_bound w _ iface r c (((runHist_le w ops _).1 iface).1 r c (get_ok_bound w st iface r c h))]

/-- …and a hit anywhere in any history from a fresh process is the unique carrier of the reference. -/
theorem C20_lookup_history (w : World) (ops ops' : List HOp) (iface iface' : ClassId) (r : Ref)
    (hu : uniqueRef w r = true) (i j : ClassId)
    (h1 : (get w (runHist w St.empty ops) iface r).2 = .ok i)
    (h2 : (get w (runHist w St.empty ops') iface' r).2 = .ok j) : i = j :=
  C20_lookup_single_class w _ _ iface iface' r (runHist_sound w ops _ (stSound_empty _))
    (runHist_sound w ops' _ (stSound_empty _)) hu i j h1 h2

/-- non-vacuity: in the witness world the qualified reference of `pk1.dup:Impl` is unique and resolves to that class
from the state after importing the interface; the alias `dup` is not unique and resolves to `pk2.dup:Impl` (the later
name in sorted order is searched first) -/
example :
    uniqueRef witnessWorld (.qual ⟨⟨1, some 5⟩, 1⟩) = true ∧
      (get witnessWorld witnessState ⟨⟨0, none⟩, 0⟩ (.qual ⟨⟨1, some 5⟩, 1⟩)).2 = .ok ⟨⟨1, some 5⟩, 1⟩ ∧
      uniqueRef witnessWorld (.alias 5) = false ∧
      (get witnessWorld witnessState ⟨⟨0, none⟩, 0⟩ (.alias 5)).2 = .ok ⟨⟨2, some 5⟩, 1⟩ := by
  decide

/-- non-vacuity of `C20_bank_order` / `C20_collision_rejected`: an abstract intermediate, two aliased concrete classes -/
example :
    let mid : ClassDef := ⟨⟨⟨0, none⟩, 1⟩, none, true, false, [⟨⟨0, none⟩, 0⟩], []⟩
    let a : ClassDef := ⟨⟨⟨1, some 5⟩, 1⟩, some 5, false, false, [⟨⟨0, none⟩, 1⟩, ⟨⟨0, none⟩, 0⟩], []⟩
    let b : ClassDef := ⟨⟨⟨2, some 6⟩, 1⟩, some 6, false, false, [⟨⟨0, none⟩, 0⟩], []⟩
    let b' : ClassDef := ⟨⟨⟨2, some 6⟩, 1⟩, some 5, false, false, [⟨⟨0, none⟩, 0⟩], []⟩
    collisionFree [mid, a, b] = true ∧ collisionFree [mid, a, b'] = false ∧
      (match addAll Bank.empty [b', mid, a] with
        | .error .collision => true
        | _ => false) = true := by decide

end ForML.Bank

namespace ForML.Bank

/-! ## what makes a provider abstract (`forml.provider.isabstract`, class by class) -/

/-- Way 1, an abstract method / property of its own: the class is abstract. -/
theorem C20_isabstract_own_method (tab : Tab) (s : ClsStmt) (habc : stmtAbc tab s = true) (e : Nat × Attr)
    (he : e ∈ s.ns) (hab : e.2 = .func true) : isabstract (tab ++ [mkCls tab s]) tab.length = true := by
  have : inspectAbstract (tab ++ [mkCls tab s]) tab.length = true :=
    (inspectAbstract_new_iff tab s).2 ⟨habc, Or.inl ⟨e, he, by rw [hab]; rfl⟩⟩
  simp [isabstract, this]

/-- Way 2, an abstract method inherited from a direct base (its own or one it inherited in turn — the base's
`__abstractmethods__` accumulates them) that the class does not resolve to an implementation: abstract. -/
theorem C20_isabstract_inherited_method (tab : Tab) (s : ClsStmt) (habc : stmtAbc tab s = true) (b : Nat) (hb : b ∈ s.bases)
    (cb : Cls) (hcb : tab[b]? = some cb) (n : Nat) (hn : n ∈ cb.abstracts)
    (hres : isAbsAttr (getattrNs tab s.ns s.mro n) = true) : isabstract (tab ++ [mkCls tab s]) tab.length = true := by
  have : inspectAbstract (tab ++ [mkCls tab s]) tab.length = true :=
    (inspectAbstract_new_iff tab s).2 ⟨habc, Or.inr ⟨b, hb, cb, hcb, n, hn, hres⟩⟩
  simp [isabstract, this]

/-- …and those are the only ways for `inspect.isabstract`: a class none of whose own attributes is abstract and which
resolves every abstract name of its direct bases to something concrete (overridden here or by a class earlier in the
MRO) is not abstract in the standard library's sense. -/
theorem C20_isabstract_implemented (tab : Tab) (s : ClsStmt) (hown : ∀ e ∈ s.ns, isAbsAttr (some e.2) = false)
    (hinh : ∀ b ∈ s.bases, ∀ cb, tab[b]? = some cb → ∀ n ∈ cb.abstracts, isAbsAttr (getattrNs tab s.ns s.mro n) = false) :
    inspectAbstract (tab ++ [mkCls tab s]) tab.length = false := by
  cases h : inspectAbstract (tab ++ [mkCls tab s]) tab.length with
  | false => rfl
  | true =>
    obtain ⟨_, h1 | h1⟩ := (inspectAbstract_new_iff tab s).1 h
    · obtain ⟨e, he, hab⟩ := h1
      rw [hown e he] at hab; cases hab
    · obtain ⟨b, hb, cb, hcb, n, hn, hab⟩ := h1
      rw [hinh b hb cb hcb n hn] at hab; cases hab

/-- Way 3, an abstract class among the class' own attributes (an inner class statement, `Writer = some.Abstract`, or
an override of the parent's inner class that is still abstract): abstract in forml's extended sense, although
`inspect.isabstract` may say no. -/
theorem C20_isabstract_own_inner (tab : Tab) (s : ClsStmt) (hwf : ∀ e ∈ s.ns, ∀ j, e.2 = .cls j → j < tab.length)
    (e : Nat × Attr) (he : e ∈ s.ns) (j : Nat) (hj : e.2 = .cls j) (hab : inspectAbstract tab j = true) :
    isabstract (tab ++ [mkCls tab s]) tab.length = true := by
  have : innerAbstract (tab ++ [mkCls tab s]) tab.length = true := by
    rw [innerAbstract_new tab s hwf, List.any_eq_true]
    exact ⟨e, he, by rw [hj]; exact hab⟩
  simp [isabstract, this]

/-- Ways out: a class that implements its methods (`C20_isabstract_implemented`) and none of whose OWN attributes is an
abstract class is concrete — whatever its bases hold: an abstract inner class that is merely inherited does not make
it abstract (a `Sink` subclass may override `consumer` instead of `Writer`), and overriding the inner class by a
concrete one removes the abstractness. -/
theorem C20_isabstract_concrete (tab : Tab) (s : ClsStmt) (hwf : ∀ e ∈ s.ns, ∀ j, e.2 = .cls j → j < tab.length)
    (hown : ∀ e ∈ s.ns, isAbsAttr (some e.2) = false)
    (hinh : ∀ b ∈ s.bases, ∀ cb, tab[b]? = some cb → ∀ n ∈ cb.abstracts, isAbsAttr (getattrNs tab s.ns s.mro n) = false)
    (hinner : ∀ e ∈ s.ns, attrAbstract tab e.2 = false) : isabstract (tab ++ [mkCls tab s]) tab.length = false := by
  have h1 := C20_isabstract_implemented tab s hown hinh
  have h2 : innerAbstract (tab ++ [mkCls tab s]) tab.length = false := by
    rw [innerAbstract_new tab s hwf, List.any_eq_false]
    intro e he
    rw [hinner e he]
    simp
  simp [isabstract, h1, h2]

/-- Class statements executed later never change what an existing class is. -/
theorem C20_isabstract_stable (tab : Tab) (c : Cls) (j : Nat) (hj : j < tab.length) :
    inspectAbstract (tab ++ [c]) j = inspectAbstract tab j := inspectAbstract_old tab c hj

/-- non-vacuity, every shape at once.  Names: 1 = `run`, 10 = `work`, 20 = `Part`/`Writer`.
  0 `Part` (abstract `work`) · 1 `Base` (abstract `run`) · 2 `Iface` (no abstract method, `Part = <0>`: abstract only
  in the extended sense, like `forml.io.Sink`) · 3 `class A(Iface)` inheriting the abstract inner class: concrete ·
  4 `PartImpl(Part)` implementing `work` · 5 `class B(Iface)` with `Part = <4>`: concrete · 6 `PartStill(Part)` ·
  7 `class C(Iface)` with `Part = <6>`: abstract (override still abstract) · 8 `Impl(Base)` implementing `run` ·
  9 `Helper(Base)`: abstract (inherited) · 10 `Re(Impl)` declaring `run` abstract again · 11 `Deep(Helper)`
  implementing `run`: concrete · 12 a plain (non-ABC) class with an `abstractmethod`-decorated function: not abstract ·
  13 `class D(Iface)` with `Part = <12>`: concrete -/
def shapeStmts : List ClsStmt :=
  [ ⟨true, [(10, .func true)], [], []⟩, ⟨true, [(1, .func true)], [], []⟩, ⟨true, [(20, .cls 0), (2, .func false)], [], []⟩,
    ⟨false, [], [2], [2]⟩, ⟨false, [(10, .func false)], [0], [0]⟩, ⟨false, [(20, .cls 4)], [2], [2]⟩,
    ⟨false, [(3, .other)], [0], [0]⟩, ⟨false, [(20, .cls 6)], [2], [2]⟩, ⟨false, [(1, .func false)], [1], [1]⟩,
    ⟨false, [], [1], [1]⟩, ⟨false, [(1, .func true)], [8], [8, 1]⟩, ⟨false, [(1, .func false)], [9], [9, 1]⟩,
    ⟨false, [(10, .func true)], [], []⟩, ⟨false, [(20, .cls 12)], [2], [2]⟩ ]

example :
    (List.range 14).map (inspectAbstract (build shapeStmts)) =
      [true, true, false, false, false, false, true, false, false, true, true, false, false, false] ∧
    (List.range 14).map (isabstract (build shapeStmts)) =
      [true, true, true, false, false, false, true, true, false, true, true, false, false, false] := by decide

/-- Abstract providers are never bound, with "abstract" computed from the class statements themselves: for every
class table, every list of provider class statements in whatever registration order, a reference only ever maps to a
class that is not abstract in forml's extended sense (no unimplemented abstract method, own or inherited, and no
abstract class among its own attributes). -/
theorem C20_abstract_never_bound (tab : Tab) (ps : List ProvStmt) (b : Bank)
    (h : addAll Bank.empty (ps.map (·.toDef tab)) = .ok b) (r : Ref) (i : ClassId)
    (hl : lookupRef r b.provider = some i) :
    ∃ s ∈ ps, s.id = i ∧ r ∈ refs (s.toDef tab) ∧ isabstract tab s.k = false := by
  obtain ⟨c, hc, ha, hr, hi⟩ := C20_abstract_never_registered _ b h r i hl
  obtain ⟨s, hs, rfl⟩ := List.mem_map.1 hc
  exact ⟨s, hs, hi, hr, ha⟩

/-- …for every registration order: the same holds after registering any permutation of the statements, and (no
colliding references) all orders bind every reference to the same concrete class. -/
theorem C20_abstract_never_bound_any_order (tab : Tab) (ps ps' : List ProvStmt) (hp : ps.Perm ps')
    (hcf : collisionFree (ps.map (·.toDef tab)) = true) :
    ∃ b b', addAll Bank.empty (ps.map (·.toDef tab)) = .ok b ∧ addAll Bank.empty (ps'.map (·.toDef tab)) = .ok b' ∧
      ∀ r, lookupRef r b.provider = lookupRef r b'.provider ∧
        ∀ i, lookupRef r b'.provider = some i → ∃ s ∈ ps, s.id = i ∧ r ∈ refs (s.toDef tab) ∧ isabstract tab s.k = false := by
  obtain ⟨b, b', hb, hb', hr⟩ := C20_bank_order _ _ (hp.map (·.toDef tab)) hcf
  refine ⟨b, b', hb, hb', fun r => ⟨hr r, ?_⟩⟩
  intro i hi
  rw [← hr r] at hi
  exact C20_abstract_never_bound tab ps b hb r i hi

/-- `Service.__init_subclass__` registers a provider in the bank of EVERY Service ancestor of its MRO — whatever stands
between them (mixins: plain classes, ABCs, `typing.Generic`; several interfaces) and at whatever position of the bases the
interface is named: after a class statement that did not raise, the class is bound under all its references in its own bank
and in the bank of every MRO entry that is a Service subclass. -/
theorem C20_registered_in_every_ancestor (tab : Tab) (s : ProvStmt) (st : St) (hc : isabstract tab s.k = false)
    (h : (initSubclass st (s.toDef tab)).2 = none) (i : ClassId) (hi : i = s.id ∨ (i, true) ∈ s.mro) (r : Ref)
    (hr : r ∈ refs (s.toDef tab)) :
    lookupRef r (getBank i (initSubclass st (s.toDef tab)).1.banks).provider = some s.id := by
  apply initSubclass_registers (s.toDef tab) hc st h i _ r hr
  rcases hi with hi | hi
  · subst hi; exact List.mem_cons_self
  · refine List.mem_cons_of_mem _ ?_
    simp only [ProvStmt.toDef, serviceParents, List.mem_map, List.mem_filter]
    exact ⟨(i, true), ⟨hi, rfl⟩, rfl⟩

/-- the MRO filter that stops at the first entry that is no Service subclass -/
def serviceParentsPrefix (mro : List (ClassId × Bool)) : List ClassId := (mro.takeWhile (·.2)).map (·.1)

def C20_registered_prefix_full : Prop :=
  ∀ (mro : List (ClassId × Bool)) (i : ClassId), (i, true) ∈ mro → i ∈ serviceParentsPrefix mro

/-- Why the whole MRO has to be filtered: a loop that `break`s at the first non-Service entry loses the interface of
`class Impl(Mixin, Interface)` — the provider would be bound in its own bank only. -/
theorem C20_registered_prefix_counterexample : ¬ C20_registered_prefix_full := by
  intro h
  have := h [(⟨⟨9, none⟩, 9⟩, false), (⟨⟨0, none⟩, 0⟩, true)] ⟨⟨0, none⟩, 0⟩ (by decide)
  revert this
  decide

/-- non-vacuity: `class Impl(Mixin, Base, Side)` — a plain mixin ahead of two interfaces — is bound by alias and by
qualified name in its own bank and in the banks of both interfaces -/
example :
    let base : ClassId := ⟨⟨0, none⟩, 0⟩
    let side : ClassId := ⟨⟨0, none⟩, 3⟩
    let s : ProvStmt := ⟨⟨⟨1, some 5⟩, 1⟩, some 5, 1, [(⟨⟨0, none⟩, 9⟩, false), (base, true), (side, true), (⟨⟨8, none⟩, 8⟩, false)], []⟩
    let tab := build [⟨true, [(1, .func true)], [], []⟩, ⟨false, [(1, .func false)], [0], [0]⟩]
    let st := (initSubclass St.empty (s.toDef tab)).1
    isabstract tab s.k = false ∧ (initSubclass St.empty (s.toDef tab)).2 = none ∧
      [s.id, base, side].all (fun i => lookupRef (.alias 5) (getBank i st.banks).provider == some s.id
        && lookupRef (.qual s.id) (getBank i st.banks).provider == some s.id) = true := by decide

/-- …and at the level of the process: whatever was imported or looked up before, by alias or by qualified name,
`Service[reference]` never returns a class that is abstract in that sense. -/
theorem C20_lookup_never_abstract (tab : Tab) (wt : WorldT) (st : St) (iface : ClassId) (r : Ref)
    (hs : StSound (InWorld (wt.toWorld tab)) st) (i : ClassId) (h : (get (wt.toWorld tab) st iface r).2 = .ok i) :
    ∃ m mt, (m, mt) ∈ wt ∧ ∃ s ∈ mt.classes, s.id = i ∧ r ∈ refs (s.toDef tab) ∧ isabstract tab s.k = false := by
  obtain ⟨c, ⟨m, d, hmd, hc⟩, ha, hr, hi⟩ := (get_sound _ st iface r hs).2 i h
  simp only [WorldT.toWorld, List.mem_map] at hmd
  obtain ⟨⟨m', mt⟩, hmt, heq⟩ := hmd
  cases heq
  obtain ⟨s, hs', rfl⟩ := List.mem_map.1 hc
  exact ⟨m', mt, hmt, s, hs', hi, hr, ha⟩

/-- non-vacuity: the shapes above as providers of `Iface` (bank of class 2) in both orders — the concrete ones (3, 5,
13) are bound by qualified name and alias, the abstract ones (2 itself, 7) are not -/
example :
    let tab := build shapeStmts
    let ifc : ClassId := ⟨⟨0, none⟩, 2⟩
    let ps : List ProvStmt :=
      [ ⟨ifc, none, 2, [], [⟨1, none⟩]⟩, ⟨⟨⟨1, some 3⟩, 3⟩, some 3, 3, [(ifc, true)], []⟩,
        ⟨⟨⟨1, some 5⟩, 5⟩, some 5, 5, [(⟨⟨9, none⟩, 9⟩, false), (ifc, true)], []⟩,
        ⟨⟨⟨1, some 7⟩, 7⟩, none, 7, [(ifc, true)], []⟩, ⟨⟨⟨1, some 13⟩, 13⟩, none, 13, [(ifc, true), (⟨⟨9, none⟩, 8⟩, false)], []⟩ ]
    collisionFree (ps.map (·.toDef tab)) = true ∧
      (match addAll Bank.empty (ps.map (·.toDef tab)) with
       | .ok b => some ([Ref.qual ifc, .alias 3, .qual ⟨⟨1, some 5⟩, 5⟩, .qual ⟨⟨1, some 7⟩, 7⟩,
           .qual ⟨⟨1, some 13⟩, 13⟩].map (fun r => lookupRef r b.provider))
       | .error _ => none) =
        some [none, some ⟨⟨1, some 3⟩, 3⟩, some ⟨⟨1, some 5⟩, 5⟩, none, some ⟨⟨1, some 13⟩, 13⟩] ∧
      (match addAll Bank.empty (ps.reverse.map (·.toDef tab)) with
       | .ok b => some ([Ref.qual ifc, .alias 3, .qual ⟨⟨1, some 7⟩, 7⟩].map (fun r => lookupRef r b.provider))
       | .error _ => none) = some [none, some ⟨⟨1, some 3⟩, 3⟩, none] := by decide

/-! ## lookup histories on lazily searched provider packages -/

/-- Every history from a fresh process in a defect-free world — imports in any order (failing ones too), lookups of
any interface, hits and misses — reaches a state in which the classes and the search paths of every imported module are
registered and every binding and every search path comes from an imported module. -/
theorem C20_history_invariant (w : World) (hw : worldClean w = true) (ops : List HOp) :
    Inv w (runHist w St.empty ops) := inv_runHist hw ops _ (inv_empty w)

/-- How a single lookup ends (repaired `Bank.get`), in terms of the bank's lazy search state only: with the class bound,
or with exactly the missing-provider error in a state whose search is exhausted — every module covered by an entry of
the final search list (the registered paths, those registered on the way included, and the candidates the reference
derives from them) is imported and none of them defines the reference below the interface.  A reference that the
registered search paths let the lookup find (`found`) is answered with a class.  The number of iterations is bounded
(`searchFuel`: every iteration searches a new module name). -/
theorem C20_lookup_single_shot (w : World) (hw : worldClean w = true) (hpo : pathsOk w = true) (hpk : pkgsExist w = true)
    (st : St) (hI : Inv w st) (iface : ClassId) (r : Ref) :
    ((∃ c, (get w st iface r).2 = .ok c ∧ lookupRef r (getBank iface (get w st iface r).1.banks).provider = some c) ∨
       ((get w st iface r).2 = .error .missing ∧ Closed w iface r (get w st iface r).1)) ∧
    (found w iface r (searchList (getBank iface st.banks) r) = true → ∃ c, (get w st iface r).2 = .ok c) := by
  refine ⟨?_, get_found_hit hw hpo hpk hI iface r⟩
  rcases (get_end hw hpo hI iface r).2 with h | ⟨h1, _, h3⟩
  · exact Or.inl h
  · exact Or.inr ⟨h1, h3⟩

/-- A reference that resolves single-shot resolves — to the same class — after every history: whatever imports (failing
ones included) and lookups (misses, hits, repeated ones, other references, other interfaces) happen after any
pre-history, the later answer is the answer the process would have given at once.  (The search state is never
consumed: `C20_lookup_keeps_state`.) -/
theorem C20_history_hit_stable (w : World) (hw : worldClean w = true) (hpo : pathsOk w = true) (hpk : pkgsExist w = true)
    (pre ops : List HOp) (iface : ClassId) (r : Ref) (c : ClassId)
    (h : (get w (runHist w St.empty pre) iface r).2 = .ok c) :
    (get w (runHist w (runHist w St.empty pre) ops) iface r).2 = .ok c :=
  get_hit_mono hw hpo hpk (C20_history_invariant w hw pre)
    (inv_runHist hw ops _ (C20_history_invariant w hw pre)) (runHist_le w ops _).2 iface r c h

/-- History independence at full strength for discoverable provider packages (the layout of `forml.provider.*`:
every provider in a sub-module named after its alias or listed in `__all__` of a package on the interface's search
path): for every history of lookups and imports the answer for a reference — class or missing-provider error, alias
or qualified name, known or unknown — equals the single-shot answer. -/
theorem C20_history_independent (w : World) (hw : worldClean w = true) (hpo : pathsOk w = true) (hpk : pkgsExist w = true)
    (pre ops : List HOp) (iface : ClassId) (hd : discoverable w (runHist w St.empty pre) iface = true) (r : Ref) :
    (get w (runHist w (runHist w St.empty pre) ops) iface r).2 = (get w (runHist w St.empty pre) iface r).2 :=
  get_history_free hw hpo hpk (C20_history_invariant w hw pre) iface hd ops r

/-- Without discoverability the only thing a history can change is to turn a miss into the hit (a module imported
explicitly or by another lookup registers its providers): after any two histories the answers to one reference are
never two different classes, and never an error other than the missing-provider error. -/
theorem C20_history_answers (w : World) (hw : worldClean w = true) (hpo : pathsOk w = true)
    (ops : List HOp) (iface : ClassId) (r : Ref) :
    (get w (runHist w St.empty ops) iface r).2 = .error .missing ∨
      ∃ c, (get w (runHist w St.empty ops) iface r).2 = .ok c ∧
        ∀ ops' iface' c', (get w (runHist w St.empty ops') iface' r).2 = .ok c' → c' = c := by
  have hI := C20_history_invariant w hw ops
  rcases (get_end hw hpo hI iface r).2 with ⟨c, hc, _⟩ | ⟨hm, _, _⟩
  · exact Or.inr ⟨c, hc, fun ops' iface' c' hc' =>
      (get_unique hw hI.sound (C20_history_invariant w hw ops').sound iface iface' r c c' hc hc').symm⟩
  · exact Or.inl hm

/-- Asking twice gives the same answer, at full strength (repaired `Bank.get`, fix
C20-search-paths-registered-during-lookup; the former `C20_lookup_repeat_full`): after any history in a defect-free world a
lookup that is repeated at once answers as it did the first time — class or missing-provider error, also when classes
discovered on the way declare further search paths. -/
theorem C20_lookup_repeat (w : World) (hw : worldClean w = true) (hpo : pathsOk w = true) (hpk : pkgsExist w = true)
    (pre : List HOp) (iface : ClassId) (r : Ref) :
    (get w (get w (runHist w St.empty pre) iface r).1 iface r).2 = (get w (runHist w St.empty pre) iface r).2 :=
  get_repeat hw hpo hpk (C20_history_invariant w hw pre) iface r

/-- the lazily searched package of the history examples: `ifc.py` (module 0) with `Base(path=[pk1])`; `pk1/__init__.py`
with `__all__ = [m7]`; `pk1/foo.py` (5) = `Impl(Base, alias=foo)`; `pk1/m7.py` = `Impl(Base, alias=baz)` (alias 8 ≠
module name, found through `__all__`); `pk1/m9.py` = `Other(Base, alias=qux)` (alias 6, neither named after it nor
listed: not discoverable) -/
def lazyWorld : World :=
  [ (⟨0, none⟩, ⟨[], [⟨⟨⟨0, none⟩, 0⟩, none, true, false, [], [⟨1, none⟩]⟩]⟩),
    (⟨1, none⟩, ⟨[7], []⟩),
    (⟨1, some 5⟩, ⟨[], [⟨⟨⟨1, some 5⟩, 1⟩, some 5, false, false, [⟨⟨0, none⟩, 0⟩], []⟩]⟩),
    (⟨1, some 7⟩, ⟨[], [⟨⟨⟨1, some 7⟩, 1⟩, some 8, false, false, [⟨⟨0, none⟩, 0⟩], []⟩]⟩),
    (⟨1, some 9⟩, ⟨[], [⟨⟨⟨1, some 9⟩, 2⟩, some 6, false, false, [⟨⟨0, none⟩, 0⟩], []⟩]⟩) ]

/-- the world of the (fixed) finding C20-F2: `ifc.py` (module 0) with `Base(path=[pk1])`; `pk1/__init__.py` with
`__all__ = [m5]`; `pk1/m5.py` = abstract `Mid2(Base, path=[pk2])`; `pk2/bar.py` (bar = 7) = `Impl(Base, alias=bar)` -/
def nestedWorld : World :=
  [ (⟨0, none⟩, ⟨[], [⟨⟨⟨0, none⟩, 0⟩, none, true, false, [], [⟨1, none⟩]⟩]⟩),
    (⟨1, none⟩, ⟨[5], []⟩), (⟨2, none⟩, ⟨[], []⟩),
    (⟨1, some 5⟩, ⟨[], [⟨⟨⟨1, some 5⟩, 1⟩, none, true, false, [⟨⟨0, none⟩, 0⟩], [⟨2, none⟩]⟩]⟩),
    (⟨2, some 7⟩, ⟨[], [⟨⟨⟨2, some 7⟩, 2⟩, some 7, false, false, [⟨⟨0, none⟩, 0⟩], []⟩]⟩) ]

/-- non-vacuity of the history theorems: the worlds are defect-free; after `import ifc` everything but `pk1.m9` is
discoverable; a history of two misses, a hit of another reference and a repeated miss leaves `Base['foo']`,
`Base['baz']` and the unknown `Base['nosuch']` (4) as they were; the undiscoverable alias `qux` is the case
`C20_history_answers` is about: a miss at once, the class after `Base['pk1.m9:Other']` was looked up; in the nested world
the very first `Base['bar']` finds the provider behind the search path that `pk1.m5:Mid2` registers on the way -/
example :
    let ifc : ClassId := ⟨⟨0, none⟩, 0⟩
    let pre : List HOp := [.imp ⟨0, none⟩]
    let hist : List HOp := [.get ifc (.alias 4), .get ifc (.qual ⟨⟨1, some 5⟩, 9⟩), .get ifc (.alias 8),
      .get ifc (.alias 4), .imp ⟨3, some 3⟩]
    let st := runHist lazyWorld St.empty pre
    worldClean lazyWorld = true ∧ pathsOk lazyWorld = true ∧ pkgsExist lazyWorld = true ∧
      worldClean nestedWorld = true ∧ pathsOk nestedWorld = true ∧ pkgsExist nestedWorld = true ∧
      discoverable lazyWorld st ifc = false ∧
      discoverable (lazyWorld.filter (fun e => e.1 != ⟨1, some 9⟩)) (runHist (lazyWorld.filter (fun e => e.1 != ⟨1, some 9⟩)) St.empty pre) ifc = true ∧
      (get lazyWorld st ifc (.alias 5)).2 = .ok ⟨⟨1, some 5⟩, 1⟩ ∧
      (get lazyWorld (runHist lazyWorld st hist) ifc (.alias 5)).2 = .ok ⟨⟨1, some 5⟩, 1⟩ ∧
      (get lazyWorld (runHist lazyWorld st hist) ifc (.alias 8)).2 = .ok ⟨⟨1, some 7⟩, 1⟩ ∧
      (get lazyWorld (runHist lazyWorld st hist) ifc (.alias 4)).2 = .error .missing ∧
      (get lazyWorld st ifc (.alias 6)).2 = .error .missing ∧
      (get lazyWorld (runHist lazyWorld st [.get ifc (.qual ⟨⟨1, some 9⟩, 2⟩)]) ifc (.alias 6)).2 = .ok ⟨⟨1, some 9⟩, 2⟩ ∧
      (get nestedWorld (runHist nestedWorld St.empty pre) ifc (.alias 7)).2 = .ok ⟨⟨2, some 7⟩, 2⟩ := by decide

/-- `Bank.get` with the "optimisation" of dropping every search path it has imported from the bank's set (what the
lazy search state must NOT do): the base paths are also the prefixes the alias candidates are derived from -/
def getDiscarding (w : World) (st : St) (iface : ClassId) (r : Ref) : St × Res :=
  let res := get w st iface r
  match lookupRef r (getBank iface st.banks).provider with
  | some _ => res
  | none =>
    let b := getBank iface res.1.banks
    ({ res.1 with banks := setBank iface ⟨b.provider, []⟩ res.1.banks }, res.2)

def C20_history_discarding_full : Prop :=
  ∀ (w : World) (st : St) (iface : ClassId) (r r' : Ref) (c : ClassId),
    (get w st iface r).2 = .ok c → (get w (getDiscarding w st iface r').1 iface r).2 = .ok c

/-- Why the search paths have to stay: with a consumed search state a valid alias raises the missing-provider error
after an earlier miss. -/
theorem C20_history_discarding_counterexample : ¬ C20_history_discarding_full := by
  intro h
  have := h lazyWorld (runHist lazyWorld St.empty [.imp ⟨0, none⟩]) ⟨⟨0, none⟩, 0⟩ (.alias 5) (.alias 4)
    ⟨⟨1, some 5⟩, 1⟩ (by decide)
  revert this
  decide

/-- Idempotence of a lookup for `Bank.get` as it was before the repair (`getOnce`: the search list built once). -/
def C20_lookup_repeat_legacy_full : Prop :=
  ∀ (w : World) (st : St) (iface : ClassId) (r : Ref) (o o' : List Mod),
    worldClean w = true → pathsOk w = true → pkgsExist w = true → Inv w st →
    validOrder (getBank iface st.banks).paths o = true →
    validOrder (getBank iface (getOnce w st iface r o).1.banks).paths o' = true →
    (getOnce w (getOnce w st iface r o).1 iface r o').2 = (getOnce w st iface r o).2

/-- Why the repair was needed (finding C20-F2, fixed): with the search list built once, a search path that a class
discovered by this very lookup declares (`path=`) is not searched by it — `Base['bar']` raises the missing-provider
error the first time and returns `pk2.bar:Impl` the second time. -/
theorem C20_lookup_repeat_legacy_counterexample : ¬ C20_lookup_repeat_legacy_full := by
  intro h
  have := h nestedWorld (runHist nestedWorld St.empty [.imp ⟨0, none⟩]) ⟨⟨0, none⟩, 0⟩ (.alias 7) [⟨1, none⟩]
    [⟨1, none⟩, ⟨2, none⟩] (by decide) (by decide) (by decide)
    (C20_history_invariant nestedWorld (by decide) [.imp ⟨0, none⟩]) (by decide) (by decide)
  revert this
  decide

end ForML.Bank

namespace ForML.Conf

/-! ## section resolution: single, multi-instance (feeds) and per-mode (sinks) -/

/-- `Section.resolve`: an explicit reference is looked up as given, whatever the `[INDEX] default` says; without one the
default decides; without either it is the missing error. -/
theorem C20_section_reference_choice (cfg : Cfg) (index sel : Nat) (r : Cfg) :
    chooseRef cfg index sel (some r) = .ok r ∧
      (defaultRef cfg index sel = .ok none → chooseRef cfg index sel none = .error .missing) := by
  refine ⟨rfl, ?_⟩
  intro h
  simp [chooseRef, h]

/-- The feeds a multi-instance section resolves to are exactly the resolved references (nothing dropped, nothing
invented), in `Feed.__lt__` order: by priority, equal priorities by provider reference. -/
theorem C20_section_multi_sorted (cfg : Cfg) (index group sel kp kq kr prio0 : Nat) (rs : List Nat) (out : List Entry)
    (h : resolveMulti cfg index group sel kp kq kr prio0 (some (.list rs)) = .ok out) :
    ∃ xs, entries cfg group kp kq kr prio0 rs = .ok xs ∧ out.Perm xs ∧ out.Pairwise (fun a b => b.lt a = false) := by
  simp only [resolveMulti, chooseRef] at h
  cases he : entries cfg group kp kq kr prio0 rs with
  | error e => simp [he, Except.map] at h
  | ok xs =>
    simp only [he, Except.map, Except.ok.injEq] at h
    subst h
    refine ⟨xs, rfl, sortE_perm xs, ?_⟩
    have := sortE_sorted xs
    simp only [SortedE, Entry.le, Bool.not_eq_true'] at this
    exact this

/-- Deterministic whatever the order in which the references are listed (in the `[FEED] default` list or by the
caller): the same sections with pairwise distinct (priority, provider) keys resolve to the same sequence. -/
theorem C20_section_multi_order_free (cfg : Cfg) (group kp kq kr prio0 : Nat) (rs rs' : List Nat) (hp : rs.Perm rs')
    (xs : List Entry) (h : entries cfg group kp kq kr prio0 rs = .ok xs) (hk : KeysDistinct xs) :
    ∃ xs', entries cfg group kp kq kr prio0 rs' = .ok xs' ∧ sortE xs' = sortE xs := by
  obtain ⟨xs', hxs', hperm⟩ := entries_perm cfg group kp kq kr prio0 hp xs h
  exact ⟨xs', hxs', (sortE_perm_eq hperm hk).symm⟩

/-- A reference to a section that does not exist (or is ill-formed) anywhere in the list makes the resolution fail; it
never yields the remaining sections only. -/
theorem C20_section_multi_missing (cfg : Cfg) (index group sel kp kq kr prio0 : Nat) (rs : List Nat) (r : Nat) (hr : r ∈ rs)
    (e : SecErr) (h : feedEntry cfg group r kp kq kr prio0 = .error e) :
    ∃ e', resolveMulti cfg index group sel kp kq kr prio0 (some (.list rs)) = .error e' := by
  obtain ⟨e', he'⟩ := entries_error cfg group kp kq kr prio0 rs r hr e h
  exact ⟨e', by simp [resolveMulti, chooseRef, he', Except.map]⟩

/-- `Sink.Mode.resolve`: `apply` and `eval` each fall back to `default`; an explicit reference serves both modes. -/
theorem C20_section_mode_fallback (cfg : Cfg) (index group kd ka ke kp kq : Nat) (t : Tbl) (d : Cfg)
    (hi : child cfg index = some (.table t)) (hd : lookup kd t = some d) (ha : lookup ka t = none)
    (he : lookup ke t = none) :
    resolveMode cfg index group kd ka ke kp kq none = resolveMode cfg index group kd ka ke kp kq (some d) := by
  simp only [resolveMode, hi, hd, ha, he, Option.orElse]
  cases resolveSingle cfg index group kd kp kq (some d) <;> rfl

/-- non-vacuity: `[FEED] default = [r2, r0, r1]`, priorities 5 / default 0 / 5, providers `b` / (own name) / `a` (numbers
in string order: a=10 < b=11 < r0=20 < r1=21 < r2=22; priorities 0 ↦ 30, 5 ↦ 31); a `priority` inside `params` stays a
generic option; a missing reference fails; `[SINK] default = r0, eval = r1` -/
example :
    let cfg : Cfg := .table [
      (1, .table [(2, .list [22, 20, 21]),
        (20, .table [(4, .table [(5, .scalar 31)])]),
        (21, .table [(3, .scalar 10), (5, .scalar 31)]),
        (22, .table [(3, .scalar 11), (5, .scalar 31), (6, .scalar 7)])]),
      (8, .table [(2, .scalar 20), (9, .scalar 21), (20, .table []), (21, .table [(3, .scalar 10)])])]
    ((resolveMulti cfg 1 1 2 3 4 5 30 none).toOption.map (fun es => es.map (fun e => (e.ref, e.prio)))) =
        some [(20, 30), (10, 31), (11, 31)] ∧
      ((resolveMulti cfg 1 1 2 3 4 5 30 (some (.list [21, 22, 20]))).toOption.map (fun es => es.map (fun e => (e.ref, e.prio)))) =
        some [(20, 30), (10, 31), (11, 31)] ∧
      ((resolveMulti cfg 1 1 2 3 4 5 30 (some (.scalar 20))).toOption.map (fun es => es.map (fun e => e.params.map (·.1)))) =
        some [[5]] ∧
      (match resolveMulti cfg 1 1 2 3 4 5 30 (some (.list [20, 23])) with
        | .error .missing => true
        | _ => false) = true ∧
      ((resolveMode cfg 8 8 2 7 9 3 4 none).toOption.map (fun p => (p.1.1.isSome, p.2.1.isSome))) = some (false, true) := by
  decide

/-! ## R5: the same source once more; what `Provider._extract` leaves at every key -/

/-- Reading the same source twice in a row — the same file reached through two of the configuration directories
(`FORML_HOME` = `~/.forml` = the working directory), `read` called again — shows at every key path exactly what reading it
once shows, anywhere in the stack (older sources below, newer sources on top): lists do not grow, nothing reappears. -/
theorem C20_reread_idempotent (base : Cfg) (older newer : List Cfg) (c : Cfg) (p : Path) :
    obs (stack base (older ++ c :: c :: newer)) p = obs (stack base (older ++ c :: newer)) p := by
  have h2 : stack base (older ++ c :: c :: newer) = stack (merge (merge (stack base older) c) c) newer := by
    simp [stack, List.foldl_append]
  have h1 : stack base (older ++ c :: newer) = stack (merge (stack base older) c) newer := by
    simp [stack, List.foldl_append]
  rw [h2, h1, obs_stack, obs_stack (merge (stack base older) c)]
  congr 1
  rw [obs_merge, obs_merge, stepLeaf_idem]

/-- The idempotence is one of the right argument only, and of adjacent sources only: a source repeated with another one
in between is NOT the same as reading it once (the source in between is overridden again). -/
def C20_reread_apart_full : Prop :=
  ∀ (base c d : Cfg) (p : Path), obs (stack base [c, d, c]) p = obs (stack base [c, d]) p

theorem C20_reread_apart_counterexample : ¬ C20_reread_apart_full := by
  intro h
  have := h (.table []) (.table [(0, .scalar 1)]) (.table [(0, .scalar 2)]) [0]
  revert this
  decide

/-- `Provider._extract`, every key of the resolved section (`provider` ≠ `params` as keys): the provider option is
exactly what the section says under `provider`; the generic options are the entries of the `params` table first
(`dict.update`: they win over the section's own option of the same name), then the section's own options without
`provider` and `params`; a `params` that is not a table fails the resolution. -/
theorem C20_section_extract (kw : Tbl) (kp kq : Nat) (hne : kq ≠ kp) :
    (lookup kq kw = none →
      ∃ out, extractKw kw kp kq = .ok (lookup kp kw, out) ∧ ∀ k, lookup k out = restKw kw kp kq k) ∧
    (∀ ps, lookup kq kw = some (.table ps) →
      ∃ out, extractKw kw kp kq = .ok (lookup kp kw, out) ∧
        ∀ k, lookup k out = match lookup k ps with
          | some v => some v
          | none => restKw kw kp kq k) ∧
    (∀ v, lookup kq kw = some v → (∀ ps, v ≠ .table ps) → extractKw kw kp kq = .error .malformed) :=
  ⟨extractKw_plain kw kp kq hne, fun ps h => extractKw_params kw kp kq ps hne h,
   fun v h hv => extractKw_malformed kw kp kq v hne h hv⟩

/-- non-vacuity: a list grows by nothing when its source is read again; `params = {x: 9, provider: 8}` over the section
`{provider: 5, x: 1, y: 2, params: …}` (keys provider=3, params=4, x=6, y=7) -/
example :
    obs (stack (.table [(0, .list [1, 2])]) [.table [(0, .list [3, 1])], .table [(0, .list [3, 1])]]) [0]
        = some (.list [3, 1, 2]) ∧
      obs (stack (.table [(0, .list [1, 2])]) [.table [(0, .list [3, 1])]]) [0] = some (.list [3, 1, 2]) ∧
      ((extractKw [(3, .scalar 5), (6, .scalar 1), (7, .scalar 2), (4, .table [(6, .scalar 9), (3, .scalar 8)])] 3 4).toOption.map
          (fun r => (r.1.map leaf, (lookup 6 r.2).map leaf, (lookup 7 r.2).map leaf, (lookup 3 r.2).map leaf,
            (lookup 4 r.2).isNone)))
        = some (some (.scalar 5), some (.scalar 9), some (.scalar 2), some (.scalar 8), true) := by
  decide

end ForML.Conf
