/-
C15 — Served entries reach the pipeline in the query's schema.
Property theorems only; the helper lemmas are in ForML/Lemmas/C15Match.lean (the `_match_entry` loops)
and ForML/Lemmas/C15Matrix.lean (positional selection, transposition), small ones are `private` here.

Reading guide (statement ↔ theorem):
* "for every entry whose columns are any permutation or superset of the query schema the data entering
  the pipeline has exactly the query's columns in the query's order, each value cast to the declared
  kind"                        → `C15_served` (total: such an entry with cast-able values IS served, and
                                  what is served is `Delivered`), `C15_cast`, `C15_match_*`
* "an entry lacking a required column is refused rather than padded or misaligned"
                               → `C15_refusal` (iff), `C15_match_refused_iff`
* un-castable values           → `C15_cast_error_sound`, `C15_uncastable_refused` (refused, never delivered)
* "row and column views and row/column selections agree with plain matrix semantics in both tabular
  implementations"             → `C15_matrix_views`, `C15_matrix_shape`, `C15_take_rows`, `C15_take_columns`,
                                  `C15_take_error`
* label/feature slicing        → `C15_slicer`, `C15_slicer_positions`
* the defect repaired in /repo 8698b70 (D16) → `C15_cast_legacy*` (characterisation, partial, counterexample)
* the kind match relation is a parameter `km` (any reflexive relation); `C15_kind_table` re-proves reflexivity of the
  relation extracted from the live classes, `C15_served_live` instantiates the headline theorem with it
* "each value cast to the declared kind", for the REAL lattice and the REAL `kind.cast` (Model/EntryKind.lean, tables
  generated from the live classes): `C15_kind_lattice` (match = class-hierarchy membership), `C15_kind_match_sound` /
  `C15_kind_match_direction` (the direction of `match`), `C15_cast_to_kind`, `C15_cast_shortcut`, `C15_cast_fails_iff`,
  `C15_cast_denotes_*`, `C15_reflect_*`, and on the reader: `C15_delivered_kind`, `C15_served_real`,
  `C15_delivered_kind_swapped_counterexample`
* histories (one reader instance / one process): `C15_reader_history`, `C15_reader_history_last`,
  `C15_reader_history_key_matters`, `C15_schema_cache_*`, `C15_decoded_entry`
* chained selections: `C15_take_rows_twice`, `C15_take_columns_twice`; reader + slicer: `C15_train_path`
-/
import ForML.Model.Entry
import ForML.Generated.C15Kinds
import ForML.Generated.C15Lattice
import ForML.Lemmas.C15Match
import ForML.Lemmas.C15Matrix
import ForML.Lemmas.C15Kind
import ForML.Lemmas.C15Memo

namespace ForML.Entry

/-! ### C15_match — `_match_entry` -/

/-- **refusal** — the entry is reported incomplete exactly when some query name is absent from it
(for *all* name lists: duplicates, extras, any order, any lengths). -/
theorem C15_match_refused_iff (q e : List Name) :
    (matchEntry q e).1 = false ↔ ∃ c ∈ q, c ∉ e := by
  rcases matchEntry_cases q e with ⟨h, hc⟩ | ⟨h, rfl⟩ | ⟨idx, h, _, hlen, hidx⟩
  · simp [h, hc]
  · simp [h]
  · simp only [h, Bool.true_eq_false, false_iff]
    rintro ⟨c, hc, hne⟩
    obtain ⟨j, hj⟩ := List.getElem?_of_mem hc
    have hj' : j < idx.length := by
      rw [hlen]; exact (List.getElem?_eq_some_iff.mp hj).1
    obtain ⟨c', hc', hl⟩ := hidx j idx[j] (by simp [hj'])
    rw [hj] at hc'; cases hc'
    rw [(lastIdx_none c e 0).mpr hne] at hl; cases hl

/-- every permutation or superset of the query names (in particular with duplicates, extras, in any
order) is accepted. -/
theorem C15_match_complete (q e : List Name) (h : ∀ c ∈ q, c ∈ e) : (matchEntry q e).1 = true := by
  cases hm : (matchEntry q e).1 with
  | true => rfl
  | false =>
    obtain ⟨c, hc, hne⟩ := (C15_match_refused_iff q e).mp hm
    exact absurd (h c hc) hne

/-- the `identical` shortcut: no index list is returned exactly when the entry names *are* the
query names in the query's order. -/
theorem C15_match_identical_iff (q e : List Name) : matchEntry q e = (true, none) ↔ e = q := by
  rcases matchEntry_cases q e with ⟨h, c, hc, hn⟩ | ⟨h, rfl⟩ | ⟨idx, h, hne, _⟩
  · simp [h]; rintro rfl; exact hn hc
  · simp [h]
  · simp [h]; exact fun h' => hne h'.symm

/-- **index derivation** — when an index list is returned it has the query's length and position `j`
points at an entry column carrying the `j`-th query name: `idx.map e.get = q`. -/
theorem C15_match_spec (q e : List Name) (idx : List Nat) (h : matchEntry q e = (true, some idx)) :
    idx.map (e[·]?) = q.map some := by
  rcases matchEntry_cases q e with ⟨h', _⟩ | ⟨h', _⟩ | ⟨idx', h', _, hlen, hidx⟩
  · rw [h'] at h; cases h
  · rw [h'] at h; cases h
  · rw [h'] at h; cases h
    apply List.ext_getElem?
    intro j
    simp only [List.getElem?_map]
    cases hj : idx[j]? with
    | none =>
      have : q[j]? = none := by
        rw [List.getElem?_eq_none_iff] at hj ⊢; omega
      simp [this]
    | some k =>
      obtain ⟨c, hc, hl⟩ := hidx j k hj
      obtain ⟨_, h2, _⟩ := lastIdx_some c e 0 k hl
      simp at h2
      simp [hc, h2]

/-- **duplicate names** — position `j` of the index list points at the **last** entry column carrying
the `j`-th query name (dict assignment overwrites): no later entry column has that name. For an entry
without duplicate names this is *the* column of that name. -/
theorem C15_duplicates (q e : List Name) (idx : List Nat) (h : matchEntry q e = (true, some idx))
    (j k : Nat) (hj : idx[j]? = some k) :
    ∃ c, q[j]? = some c ∧ e[k]? = some c ∧ ∀ k', k < k' → e[k']? ≠ some c := by
  rcases matchEntry_cases q e with ⟨h', _⟩ | ⟨h', _⟩ | ⟨idx', h', _, hlen, hidx⟩
  · rw [h'] at h; cases h
  · rw [h'] at h; cases h
  · rw [h'] at h; cases h
    obtain ⟨c, hc, hl⟩ := hidx j k hj
    obtain ⟨_, h2, h3⟩ := lastIdx_some c e 0 k hl
    exact ⟨c, hc, by simpa using h2, fun k' hk' => h3 k' (by omega)⟩

/-! ### C15_matrix — Dense and Frame agree with plain matrix semantics -/

section tabular
variable {α : Type}

/-- **views** — for both implementations `to_rows()[i][j]` and `to_columns()[j][i]` are the matrix
cell `(i, j)`: `to_columns = transpose ∘ to_rows`; and the views have `nrows` resp. `ncols` items. -/
theorem C15_matrix_views (t : Tab α) (h : t.WF) (i j : Nat) :
    t.toRows[i]?.bind (·[j]?) = t.get i j ∧ t.toColumns[j]?.bind (·[i]?) = t.get i j := by
  cases t with
  | dense d => exact ⟨rfl, Mat.toMinor_cell d h i j⟩
  | frame f => exact ⟨Mat.toMinor_cell f h j i, rfl⟩

/-- **shape of the views** — `to_rows()` has `nrows` items of `ncols` cells each, `to_columns()` has `ncols`
items of `nrows` cells each, in both implementations (so together with `C15_matrix_views`:
`to_columns = transpose ∘ to_rows`, exactly). -/
theorem C15_matrix_shape (t : Tab α) (h : t.WF) :
    t.toRows.length = t.nrows ∧ t.toColumns.length = t.ncols ∧
    (∀ r ∈ t.toRows, r.length = t.ncols) ∧ (∀ c ∈ t.toColumns, c.length = t.nrows) := by
  cases t with
  | dense d =>
    exact ⟨rfl, transposeN_length _ _, h, transposeN_wf d.minor d.major h⟩
  | frame f =>
    exact ⟨transposeN_length _ _, rfl, transposeN_wf f.minor f.major h, h⟩

/-- **take_rows** — the result is rectangular with one row per index and row `k` is row
`is[k]` (negative indices counted from the end) of the original, in both implementations. -/
theorem C15_take_rows (t r : Tab α) (h : t.WF) (is : List Int) (hr : t.takeRows is = some r) :
    r.WF ∧ r.nrows = is.length ∧ r.ncols = t.ncols ∧
    ∀ (k : Nat) (ι : Int) (i : Nat), is[k]? = some ι → normIdx t.nrows ι = some i →
      ∀ j, r.get k j = t.get i j := by
  cases t with
  | dense d =>
    simp only [Tab.takeRows] at hr
    cases hm : d.takeMajor is with
    | none => simp [hm] at hr
    | some m =>
      simp [hm] at hr; subst hr
      obtain ⟨h1, h2, h3, h4⟩ := Mat.takeMajor_spec d h is m hm
      exact ⟨h1, h3, h2, h4⟩
  | frame f =>
    simp only [Tab.takeRows] at hr
    cases hm : f.takeMinor is with
    | none => simp [hm] at hr
    | some m =>
      simp [hm] at hr; subst hr
      obtain ⟨h1, h2, h3, h4⟩ := Mat.takeMinor_spec f h is m hm
      exact ⟨h1, h2, h3, fun k ι i hk hi j => h4 k ι i hk hi j⟩

/-- **take_columns** — dually: column `k` of the result is column `js[k]` of the original. -/
theorem C15_take_columns (t r : Tab α) (h : t.WF) (js : List Int) (hr : t.takeColumns js = some r) :
    r.WF ∧ r.ncols = js.length ∧ r.nrows = t.nrows ∧
    ∀ (k : Nat) (ι : Int) (j : Nat), js[k]? = some ι → normIdx t.ncols ι = some j →
      ∀ i, r.get i k = t.get i j := by
  cases t with
  | dense d =>
    simp only [Tab.takeColumns] at hr
    cases hm : d.takeMinor js with
    | none => simp [hm] at hr
    | some m =>
      simp [hm] at hr; subst hr
      obtain ⟨h1, h2, h3, h4⟩ := Mat.takeMinor_spec d h js m hm
      exact ⟨h1, h2, h3, h4⟩
  | frame f =>
    simp only [Tab.takeColumns] at hr
    cases hm : f.takeMajor js with
    | none => simp [hm] at hr
    | some m =>
      simp [hm] at hr; subst hr
      obtain ⟨h1, h2, h3, h4⟩ := Mat.takeMajor_spec f h js m hm
      exact ⟨h1, h3, h2, fun k ι j hk hj i => h4 k ι j hk hj i⟩

/-- **IndexError** — a selection fails exactly when some index is outside `[-n, n)`. -/
theorem C15_take_error (t : Tab α) (is : List Int) :
    (t.takeRows is = none ↔ ∃ ι ∈ is, normIdx t.nrows ι = none) ∧
    (t.takeColumns is = none ↔ ∃ ι ∈ is, normIdx t.ncols ι = none) := by
  cases t with
  | dense d =>
    simp only [Tab.takeRows, Tab.takeColumns, Mat.takeMajor, Mat.takeMinor, Option.map_eq_none_iff,
      Tab.nrows, Tab.ncols]
    exact ⟨takeIdx_none _ _, by rw [takeIdx_none, transposeN_length]⟩
  | frame f =>
    simp only [Tab.takeRows, Tab.takeColumns, Mat.takeMajor, Mat.takeMinor, Option.map_eq_none_iff,
      Tab.nrows, Tab.ncols]
    exact ⟨by rw [takeIdx_none, transposeN_length], takeIdx_none _ _⟩

private theorem normIdx_ofNat (n k : Nat) (h : k < n) : normIdx n (Int.ofNat k) = some k := by
  simp [normIdx, h]

private theorem Tab.toColumns_length (t : Tab α) : t.toColumns.length = t.ncols := by
  cases t with
  | dense d => simp [Tab.toColumns, Tab.ncols, Mat.toMinor, transposeN_length]
  | frame f => rfl

/-! ### C15_slicer -/

/-- **Slicer.apply** — with the positions it was built with (any index lists), the first output is the
rows of the feature columns and the second the label column (scalar) or the rows of the label
columns (vector): cell `(i, k)` of an output is cell `(i, positions[k])` of the dataset. -/
theorem C15_slicer (t : Tab α) (h : t.WF) (fs : List Int) (ls : Int ⊕ List Int)
    (f : List (List α)) (lab : List α ⊕ List (List α)) (hs : slicer fs ls t = some (f, lab)) :
    (∀ (k : Nat) (ι : Int) (j : Nat), fs[k]? = some ι → normIdx t.ncols ι = some j →
        ∀ i, f[i]?.bind (·[k]?) = t.get i j) ∧
    (match ls, lab with
     | .inl l, .inl c => ∀ j, normIdx t.ncols l = some j → ∀ i : Nat, c[i]? = t.get i j
     | .inr js, .inr rows => ∀ (k : Nat) (ι : Int) (j : Nat), js[k]? = some ι →
          normIdx t.ncols ι = some j → ∀ i, rows[i]?.bind (·[k]?) = t.get i j
     | _, _ => False) := by
  unfold slicer at hs
  cases hf : t.takeColumns fs with
  | none => simp [hf] at hs
  | some ft =>
    simp only [hf] at hs
    obtain ⟨fwf, _, _, fcell⟩ := C15_take_columns t ft h fs hf
    have hfeat : ∀ (k : Nat) (ι : Int) (j : Nat), fs[k]? = some ι → normIdx t.ncols ι = some j →
        ∀ i, ft.toRows[i]?.bind (·[k]?) = t.get i j := by
      intro k ι j hk hj i
      rw [(C15_matrix_views ft fwf i k).1]; exact fcell k ι j hk hj i
    cases ls with
    | inl l =>
      simp only at hs
      cases hc : (normIdx t.toColumns.length l).bind (t.toColumns[·]?) with
      | none => simp [hc] at hs
      | some c =>
        simp [hc] at hs
        obtain ⟨rfl, rfl⟩ := hs
        refine ⟨hfeat, ?_⟩
        intro j hj i
        rw [Tab.toColumns_length, hj] at hc
        simp only [Option.bind_some] at hc
        have := (C15_matrix_views t h i j).2
        rw [hc] at this; simpa using this
    | inr js =>
      simp only at hs
      cases hl : t.takeColumns js with
      | none => simp [hl] at hs
      | some lt =>
        simp [hl] at hs
        obtain ⟨rfl, rfl⟩ := hs
        obtain ⟨lwf, _, _, lcell⟩ := C15_take_columns t lt h js hl
        refine ⟨hfeat, ?_⟩
        intro k ι j hk hj i
        rw [(C15_matrix_views lt lwf i k).1]; exact lcell k ι j hk hj i

/-- **Slicer.from_columns** — the positions are `0 … n-1` for the features and `n` (scalar label) or
`n … n+k-1` (label vector): the combined column list `(*features, *labels)` is split back exactly. -/
theorem C15_slicer_positions (nf : Nat) (nl : Option Nat) :
    (∀ k, k < nf → (slicerPositions nf nl).1[k]? = some (Int.ofNat k)) ∧
    (slicerPositions nf nl).1.length = nf ∧
    (match nl with
     | none => (slicerPositions nf nl).2 = .inl (Int.ofNat nf)
     | some n => ∃ js, (slicerPositions nf nl).2 = .inr js ∧ js.length = n ∧
          ∀ k, k < n → js[k]? = some (Int.ofNat (nf + k))) := by
  refine ⟨?_, by simp [slicerPositions], ?_⟩
  · intro k hk; simp [slicerPositions, hk]
  · cases nl with
    | none => rfl
    | some n => exact ⟨_, rfl, by simp, by intro k hk; simp [hk]⟩
/-! ### C15_cast — `Reader.__call__` / `Reader._cast` -/

/-- what `_cast` does to one cell of a column declared `qk` by the query whose (paired) entry field
declares `ek`: left as is when `ek` is of kind `qk`, otherwise cast to `qk` (`none` = `CastError`). -/
def castCell (km : Kind → Kind → Bool) (cast : Kind → α → Option α) (qk ek : Kind) (v : α) : Option α :=
  if km qk ek then some v else cast qk v

/-- What the pipeline must receive: exactly the query's columns in the query's order; column `j` is
an entry column `k` carrying the `j`-th query name, every cell cast to the query's kind unless the
(paired) entry kind already is of that kind, no cell lost or invented. (Cell-level, i.e. plain matrix
semantics of the delivered payload; `none = none` beyond the last row.) `pair j k` is the position of the
entry field whose kind decides about the cast: `k` itself is what the property demands. -/
def Delivered (km : Kind → Kind → Bool) (cast : Kind → α → Option α) (pair : Nat → Nat → Nat) (q e : List Field) (data out : Tab α) : Prop :=
  out.ncols = q.length ∧
  ∀ (j : Nat) (qf : Field), q[j]? = some qf →
    ∃ (k : Nat) (ef pf : Field), e[k]? = some ef ∧ ef.name = qf.name ∧ e[pair j k]? = some pf ∧
      ∀ i, out.get i j = (data.get i k).bind (castCell km cast qf.kind pf.kind) ∧
        ((data.get i k).isSome → (out.get i j).isSome)

/-- every value of a required column that needs a cast can be cast -/
def Castable (km : Kind → Kind → Bool) (cast : Kind → α → Option α) (q e : List Field) (data : Tab α) : Prop :=
  ∀ (j k : Nat) (qf ef : Field) (i : Nat) (v : α), q[j]? = some qf → e[k]? = some ef → ef.name = qf.name →
    km qf.kind ef.kind = false → data.get i k = some v → (cast qf.kind v).isSome

private theorem castColumn_some (km : Kind → Kind → Bool) (cast : Kind → α → Option α) (e a : Field) (c c' : List α)
    (h : castColumn km cast e a c = some c') :
    c'.length = c.length ∧ ∀ i : Nat, c'[i]? = c[i]?.bind (castCell km cast e.kind a.kind) := by
  unfold castColumn at h
  split at h
  · rename_i hk
    cases h
    refine ⟨rfl, fun i => ?_⟩
    have : castCell km cast e.kind a.kind = some := by funext v; simp [castCell, hk]
    rw [this]; simp
  · rename_i hk
    obtain ⟨h1, h2⟩ := mapOpt_some c c' h
    refine ⟨h1, fun i => ?_⟩
    have : castCell km cast e.kind a.kind = cast e.kind := by funext v; simp [castCell, hk]
    rw [h2 i, this]

private theorem castColumn_none (km : Kind → Kind → Bool) (cast : Kind → α → Option α) (e a : Field) (c : List α)
    (h : castColumn km cast e a c = none) :
    km e.kind a.kind = false ∧ ∃ v ∈ c, cast e.kind v = none := by
  unfold castColumn at h
  split at h
  · cases h
  · rename_i hk; exact ⟨by simpa using hk, (mapOpt_none c).mp h⟩

private theorem castColumns_some (km : Kind → Kind → Bool) (cast : Kind → α → Option α) (es as : List Field) (cs : List (List α))
    (cols : List (Name × List α)) (h : castColumns km cast es as cs = some cols) :
    cols.length = min es.length (min as.length cs.length) ∧
    ∀ (j : Nat) (e a : Field) (c : List α), es[j]? = some e → as[j]? = some a → cs[j]? = some c →
      ∃ c', cols[j]? = some (e.name, c') ∧ castColumn km cast e a c = some c' := by
  induction es generalizing as cs cols with
  | nil => simp [castColumns] at h; subst h; simp
  | cons e es ih =>
    cases as with
    | nil => simp [castColumns] at h; subst h; simp
    | cons a as =>
      cases cs with
      | nil => simp [castColumns] at h; subst h; simp
      | cons c cs =>
        simp only [castColumns] at h
        cases hc : castColumn km cast e a c with
        | none => simp [hc] at h
        | some c' =>
          cases hr : castColumns km cast es as cs with
          | none => simp [hc, hr] at h
          | some rest =>
            simp only [hc, hr, Option.some.injEq] at h; subst h
            obtain ⟨h1, h2⟩ := ih as cs rest hr
            refine ⟨by simp only [List.length_cons, h1]; omega, ?_⟩
            intro j e' a' c'' he ha hcs
            cases j with
            | zero =>
              simp only [List.getElem?_cons_zero, Option.some.injEq] at he ha hcs
              subst he ha hcs
              exact ⟨c', by simp, hc⟩
            | succ j =>
              simp only [List.getElem?_cons_succ] at he ha hcs ⊢
              exact h2 j e' a' c'' he ha hcs

private theorem castColumns_none (km : Kind → Kind → Bool) (cast : Kind → α → Option α) (es as : List Field) (cs : List (List α))
    (h : castColumns km cast es as cs = none) :
    ∃ (j : Nat) (e a : Field) (c : List α), es[j]? = some e ∧ as[j]? = some a ∧ cs[j]? = some c ∧
      castColumn km cast e a c = none := by
  induction es generalizing as cs with
  | nil => simp [castColumns] at h
  | cons e es ih =>
    cases as with
    | nil => simp [castColumns] at h
    | cons a as =>
      cases cs with
      | nil => simp [castColumns] at h
      | cons c cs =>
        simp only [castColumns] at h
        cases hc : castColumn km cast e a c with
        | none => exact ⟨0, e, a, c, rfl, rfl, rfl, hc⟩
        | some c' =>
          cases hr : castColumns km cast es as cs with
          | none =>
            obtain ⟨j, e', a', c'', h1, h2, h3, h4⟩ := ih as cs hr
            exact ⟨j + 1, e', a', c'', by simpa using h1, by simpa using h2, by simpa using h3, h4⟩
          | some rest => simp [hc, hr] at h

private theorem frameOf_get (cols : List (Name × List α)) (i j : Nat) :
    (frameOf cols).get i j = (cols[j]?).bind (·.2[i]?) := by
  simp [frameOf, Tab.get, Mat.cell, List.getElem?_map]
  cases cols[j]? <;> rfl

private theorem frameOf_ncols (cols : List (Name × List α)) : (frameOf cols).ncols = cols.length := by
  simp [frameOf, Tab.ncols]

/-- the cells of `_cast`'s result (the non-shortcut path): column `j` is column `j` of the payload it
was handed, cast as decided by the `j`-th expected and `j`-th actual field -/
private theorem castStep_cells (km : Kind → Kind → Bool) (cast : Kind → α → Option α) (q actual : List Field) (d out : Tab α)
    (dwf : d.WF) (h : castStep km cast false q actual d = some out)
    (hal : q.length ≤ actual.length) (hdn : q.length ≤ d.ncols) :
    out.ncols = q.length ∧
    ∀ (j : Nat) (qf pf : Field), q[j]? = some qf → actual[j]? = some pf →
      ∀ i, out.get i j = (d.get i j).bind (castCell km cast qf.kind pf.kind) ∧
        ((d.get i j).isSome → (out.get i j).isSome) := by
  simp only [castStep, Bool.false_eq_true, if_false] at h
  cases hc : castColumns km cast q actual d.toColumns with
  | none => simp [hc] at h
  | some cols =>
    simp only [hc, Option.map_some, Option.some.injEq] at h; subst h
    obtain ⟨h1, h2⟩ := castColumns_some km cast q actual d.toColumns cols hc
    refine ⟨by rw [frameOf_ncols, h1, Tab.toColumns_length]; omega, ?_⟩
    intro j qf pf hj hp i
    have hjq : j < q.length := (List.getElem?_eq_some_iff.mp hj).1
    have hjd : j < d.toColumns.length := by rw [Tab.toColumns_length]; omega
    obtain ⟨c, hcj⟩ : ∃ c, d.toColumns[j]? = some c := ⟨_, List.getElem?_eq_getElem hjd⟩
    obtain ⟨c', hc', hcc⟩ := h2 j qf pf c hj hp hcj
    obtain ⟨hl, hcell⟩ := castColumn_some km cast qf pf c c' hcc
    have hv := (C15_matrix_views d dwf i j).2
    rw [hcj] at hv; simp only [Option.bind_some] at hv
    rw [frameOf_get, hc']; simp only [Option.bind_some]
    refine ⟨by rw [hcell i, hv], ?_⟩
    intro hs
    rw [← hv] at hs
    have hi : i < c.length := by
      cases hci : c[i]? with
      | none => rw [hci] at hs; cases hs
      | some v => exact (List.getElem?_eq_some_iff.mp hci).1
    have : i < c'.length := by omega
    simp [List.getElem?_eq_getElem this]

/-- when `_cast` raises, some cell of a delivered column that needs a cast cannot be cast -/
private theorem castStep_none (km : Kind → Kind → Bool) (cast : Kind → α → Option α) (b : Bool) (q actual : List Field) (d : Tab α)
    (dwf : d.WF) (h : castStep km cast b q actual d = none) :
    ∃ (j : Nat) (qf pf : Field) (i : Nat) (v : α), q[j]? = some qf ∧ actual[j]? = some pf ∧
      km qf.kind pf.kind = false ∧ d.get i j = some v ∧ cast qf.kind v = none := by
  unfold castStep at h
  split at h
  · cases h
  · cases hc : castColumns km cast q actual d.toColumns with
    | some cols => simp [hc] at h
    | none =>
      obtain ⟨j, qf, pf, c, hj, hp, hcj, hcc⟩ := castColumns_none km cast q actual d.toColumns hc
      obtain ⟨hk, v, hv, hn⟩ := castColumn_none km cast qf pf c hcc
      obtain ⟨i, hi⟩ := List.getElem?_of_mem hv
      have hview := (C15_matrix_views d dwf i j).2
      rw [hcj] at hview; simp only [Option.bind_some] at hview
      exact ⟨j, qf, pf, i, v, hj, hp, hk, by rw [← hview]; exact hi, hn⟩

/-- names agree position by position -/
private theorem names_pointwise (q e : List Field) (hn : e.map (·.name) = q.map (·.name)) :
    e.length = q.length ∧
    ∀ (j : Nat) (qf : Field), q[j]? = some qf → ∃ ef, e[j]? = some ef ∧ ef.name = qf.name := by
  refine ⟨by simpa using congrArg List.length hn, ?_⟩
  intro j qf hj
  have := congrArg (·[j]?) hn
  simp only [List.getElem?_map, hj, Option.map_some] at this
  cases he : e[j]? with
  | none => simp [he] at this
  | some ef => simp [he] at this; exact ⟨ef, rfl, this⟩

/-- the non-permuted branch (`indices` is `None` or `()`): names agree position by position -/
private theorem deliver_identity (km : Kind → Kind → Bool) (hkm : ∀ k, km k k = true)
    (cast : Kind → α → Option α) (pair : Nat → Nat → Nat) (hp : ∀ j, pair j j = j)
    (q e : List Field) (data out : Tab α)
    (hwf : data.WF) (hlen : data.ncols = e.length) (hn : e.map (·.name) = q.map (·.name))
    (h : castStep km cast (decide (e = q)) q e data = some out) :
    Delivered km cast pair q e data out := by
  obtain ⟨hl, hname⟩ := names_pointwise q e hn
  by_cases heq : e = q
  · subst heq
    simp only [castStep, decide_true, if_true, Option.some.injEq] at h; subst h
    refine ⟨hlen, ?_⟩
    intro j qf hj
    refine ⟨j, qf, qf, hj, rfl, by rw [hp]; exact hj, fun i => ⟨?_, id⟩⟩
    have : castCell km cast qf.kind qf.kind = some := by funext v; simp [castCell, hkm]
    rw [this]; simp
  · simp only [heq, decide_false] at h
    obtain ⟨h1, h2⟩ := castStep_cells km cast q e data out hwf h (by omega) (by omega)
    refine ⟨h1, ?_⟩
    intro j qf hj
    obtain ⟨ef, he, hnm⟩ := hname j qf hj
    exact ⟨j, ef, ef, he, hnm, by rw [hp]; exact he, h2 j qf ef hj he⟩

/-- what the index list returned by `_match_entry` gives, per query position -/
private theorem idx_pointwise (q e : List Field) (idx : List Nat)
    (hidx : idx.map ((e.map (·.name))[·]?) = (q.map (·.name)).map some) :
    idx.length = q.length ∧
    ∀ (j : Nat) (qf : Field), q[j]? = some qf →
      ∃ k ef, idx[j]? = some k ∧ e[k]? = some ef ∧ ef.name = qf.name := by
  refine ⟨by simpa using congrArg List.length hidx, ?_⟩
  intro j qf hj
  have := congrArg (·[j]?) hidx
  simp only [List.getElem?_map, hj, Option.map_some] at this
  cases hi : idx[j]? with
  | none => simp [hi] at this
  | some k =>
    simp [hi] at this
    obtain ⟨ef, he, hnm⟩ := this
    exact ⟨k, ef, rfl, he, hnm⟩

private theorem idx_in_range (q e : List Field) (idx : List Nat)
    (hidx : idx.map ((e.map (·.name))[·]?) = (q.map (·.name)).map some) :
    ∀ k ∈ idx, k < e.length := by
  intro k hk
  obtain ⟨j, hj⟩ := List.getElem?_of_mem hk
  have hjl : j < q.length := by
    rw [← (idx_pointwise q e idx hidx).1]; exact (List.getElem?_eq_some_iff.mp hj).1
  obtain ⟨k', ef, hk', he, _⟩ := (idx_pointwise q e idx hidx).2 j q[j] (List.getElem?_eq_getElem hjl)
  rw [hj] at hk'; cases hk'
  exact (List.getElem?_eq_some_iff.mp he).1

/-- the permuted branch; `actual` is the field list handed to `_cast` next to the re-ordered data and
`pair j k` says which entry field sits at its position `j` -/
private theorem deliver_permuted (km : Kind → Kind → Bool) (cast : Kind → α → Option α) (pair : Nat → Nat → Nat) (q e actual : List Field)
    (data d out : Tab α) (idx : List Nat)
    (hwf : data.WF) (hlen : data.ncols = e.length)
    (hidx : idx.map ((e.map (·.name))[·]?) = (q.map (·.name)).map some)
    (hd : data.takeColumns (idx.map Int.ofNat) = some d)
    (hal : q.length ≤ actual.length)
    (hap : ∀ (j k : Nat), idx[j]? = some k → actual[j]? = e[pair j k]?)
    (h : castStep km cast false q actual d = some out) :
    Delivered km cast pair q e data out := by
  obtain ⟨hl, hk⟩ := idx_pointwise q e idx hidx
  obtain ⟨dwf, dnc, _, dcell⟩ := C15_take_columns data d hwf _ hd
  obtain ⟨h1, h2⟩ := castStep_cells km cast q actual d out dwf h hal (by rw [dnc, List.length_map]; omega)
  refine ⟨h1, ?_⟩
  intro j qf hj
  obtain ⟨k, ef, hi, he, hnm⟩ := hk j qf hj
  have hjl : j < actual.length := by
    have := (List.getElem?_eq_some_iff.mp hj).1; omega
  obtain ⟨pf, hpf⟩ : ∃ pf, actual[j]? = some pf := ⟨actual[j], by simp [hjl]⟩
  refine ⟨k, ef, pf, he, hnm, by rw [← hap j k hi]; exact hpf, ?_⟩
  intro i
  have hkl : k < data.ncols := by rw [hlen]; exact (List.getElem?_eq_some_iff.mp he).1
  have hcell := dcell j (Int.ofNat k) k (by simp [List.getElem?_map, hi]) (normIdx_ofNat _ _ hkl) i
  rw [← hcell]
  exact h2 j qf pf hj hpf i

private theorem take_ok (e : List Field) (data : Tab α) (idx : List Nat) (hlen : data.ncols = e.length)
    (hin : ∀ k ∈ idx, k < e.length) : (data.takeColumns (idx.map Int.ofNat)).isSome := by
  cases hd : data.takeColumns (idx.map Int.ofNat) with
  | some d => rfl
  | none =>
    obtain ⟨ι, hι, hn⟩ := (C15_take_error data _).2.mp hd
    obtain ⟨k, hk, rfl⟩ := List.mem_map.mp hι
    rw [normIdx_ofNat _ _ (by rw [hlen]; exact hin k hk)] at hn; cases hn

/-- **refusal** — `Reader.__call__` raises `MissingError` exactly when the entry lacks a query column
(both for the released and the repaired code; nothing is padded). -/
theorem C15_refusal (km : Kind → Kind → Bool) (cast : Kind → α → Option α) (legacy : Bool) (q e : List Field) (data : Tab α) :
    readerCall km cast legacy q e data = .missing ↔ ∃ c ∈ q.map (·.name), c ∉ e.map (·.name) := by
  rw [← C15_match_refused_iff]
  unfold readerCall readerCallWith
  cases hm : matchEntry (q.map (·.name)) (e.map (·.name)) with
  | mk b o =>
    cases b with
    | false => simp
    | true =>
      cases o with
      | none => simp only; split <;> simp
      | some idx =>
        cases idx with
        | nil => simp only; split <;> simp
        | cons i is =>
          simp only
          cases data.takeColumns ((i :: is).map Int.ofNat) with
          | none => simp
          | some d => simp only; split <;> simp

/-- `take_columns(indices)` never raises on a payload as wide as its schema. -/
theorem C15_no_index_error (km : Kind → Kind → Bool) (cast : Kind → α → Option α) (legacy : Bool) (q e : List Field) (data : Tab α)
    (hlen : data.ncols = e.length) : readerCall km cast legacy q e data ≠ .indexError := by
  unfold readerCall readerCallWith
  cases hm : matchEntry (q.map (·.name)) (e.map (·.name)) with
  | mk b o =>
    cases b with
    | false => simp
    | true =>
      cases o with
      | none => simp only; split <;> simp
      | some idx =>
        cases idx with
        | nil => simp only; split <;> simp
        | cons i is =>
          simp only
          have := take_ok e data (i :: is) hlen (idx_in_range q e _ (C15_match_spec _ _ _ hm))
          cases hd : data.takeColumns ((i :: is).map Int.ofNat) with
          | none => rw [hd] at this; cases this
          | some d => simp only; split <;> simp

/-- what `readerCall` does, branch by branch (pure case analysis of its definition) -/
private theorem readerCall_branches (km : Kind → Kind → Bool) (cast : Kind → α → Option α) (legacy : Bool) (q e : List Field)
    (data : Tab α) (hlen : data.ncols = e.length) :
    (readerCall km cast legacy q e data = .missing) ∨
    (e.map (·.name) = q.map (·.name) ∧
      readerCall km cast legacy q e data =
        match castStep km cast (decide (e = q)) q e data with | none => .castError | some o => .data o) ∨
    (q = [] ∧ readerCall km cast legacy q e data =
        match castStep km cast (decide (e = q)) q e data with | none => .castError | some o => .data o) ∨
    (∃ idx d, idx.map ((e.map (·.name))[·]?) = (q.map (·.name)).map some ∧
      data.takeColumns (idx.map Int.ofNat) = some d ∧
      readerCall km cast legacy q e data =
        match castStep km cast false q (actualFields legacy e idx) d with | none => .castError | some o => .data o) := by
  unfold readerCall readerCallWith
  cases hm : matchEntry (q.map (·.name)) (e.map (·.name)) with
  | mk b o =>
    cases b with
    | false => exact Or.inl rfl
    | true =>
      cases o with
      | none => exact Or.inr (Or.inl ⟨(C15_match_identical_iff _ _).mp hm, rfl⟩)
      | some idx =>
        have hspec := C15_match_spec _ _ _ hm
        cases idx with
        | nil =>
          have hq : q = [] := by
            have := congrArg List.length hspec; simp at this; exact List.eq_nil_of_length_eq_zero this.symm
          exact Or.inr (Or.inr (Or.inl ⟨hq, rfl⟩))
        | cons i is =>
          have hok := take_ok e data (i :: is) hlen (idx_in_range q e _ hspec)
          cases hd : data.takeColumns ((i :: is).map Int.ofNat) with
          | none => rw [hd] at hok; cases hok
          | some d => exact Or.inr (Or.inr (Or.inr ⟨i :: is, d, hspec, hd, by simp only [hd]; rfl⟩))

/-- common skeleton of the two `Delivered` theorems -/
private theorem reader_delivers (km : Kind → Kind → Bool) (hkm : ∀ k, km k k = true)
    (cast : Kind → α → Option α) (legacy : Bool) (pair : Nat → Nat → Nat)
    (hp : ∀ j, pair j j = j) (q e : List Field) (data out : Tab α)
    (hwf : data.WF) (hlen : data.ncols = e.length)
    (hal : ∀ idx : List Nat, idx.length = q.length → (∀ k ∈ idx, k < e.length) →
      q.length ≤ (actualFields legacy e idx).length)
    (hap : ∀ (idx : List Nat), (∀ k ∈ idx, k < e.length) → ∀ (j k : Nat), idx[j]? = some k →
      (actualFields legacy e idx)[j]? = e[pair j k]?)
    (h : readerCall km cast legacy q e data = .data out) : Delivered km cast pair q e data out := by
  rcases readerCall_branches km cast legacy q e data hlen with hb | ⟨hn, hb⟩ | ⟨hq, hb⟩ | ⟨idx, d, hspec, hd, hb⟩
  · rw [hb] at h; cases h
  · rw [hb] at h
    cases hcs : castStep km cast (decide (e = q)) q e data with
    | none => rw [hcs] at h; cases h
    | some o =>
      rw [hcs] at h; simp only [Outcome.data.injEq] at h; subst h
      exact deliver_identity km hkm cast pair hp q e data o hwf hlen hn hcs
  · rw [hb] at h; subst hq
    cases hcs : castStep km cast (decide (e = [])) [] e data with
    | none => rw [hcs] at h; cases h
    | some o =>
      rw [hcs] at h; simp only [Outcome.data.injEq] at h; subst h
      refine ⟨?_, by intro j qf hj; simp at hj⟩
      unfold castStep at hcs
      split at hcs
      · rename_i he; simp at he; subst he; cases hcs; simpa using hlen
      · simp [castColumns] at hcs; subst hcs; simp [frameOf_ncols]
  · rw [hb] at h
    cases hcs : castStep km cast false q (actualFields legacy e idx) d with
    | none => rw [hcs] at h; cases h
    | some o =>
      rw [hcs] at h; simp only [Outcome.data.injEq] at h; subst h
      have hin := idx_in_range q e idx hspec
      have hl := (idx_pointwise q e idx hspec).1
      exact deliver_permuted km cast pair q e _ data d o idx hwf hlen hspec hd (hal idx hl hin) (hap idx hin) hcs

private theorem actualFields_fixed (e : List Field) (idx : List Nat) (hin : ∀ k ∈ idx, k < e.length) :
    (actualFields false e idx).length = idx.length ∧
    ∀ (j k : Nat), idx[j]? = some k → (actualFields false e idx)[j]? = e[k]? := by
  have := filterMap_total (e[·]?) idx (fun k hk => by simp [hin k hk])
  simp only [actualFields, Bool.false_eq_true, if_false]
  refine ⟨this.1, ?_⟩
  intro j k hj
  rw [this.2 j, hj]; rfl

/-- **C15_cast** (the code in /repo, repaired by 8698b70) — for every query schema, entry schema and
rectangular payload of the entry's width, in both tabular implementations: if data is delivered it has
exactly the query's columns in the query's order, column `j` is an entry column `k` named like query
field `j`, and its cells are cast to the query kind exactly when that kind does not match the kind of
**that entry column** (`pair j k = k`); no row is lost or invented. -/
theorem C15_cast (km : Kind → Kind → Bool) (hkm : ∀ k, km k k = true)
    (cast : Kind → α → Option α) (q e : List Field) (data out : Tab α)
    (hwf : data.WF) (hlen : data.ncols = e.length)
    (h : readerCall km cast false q e data = .data out) :
    Delivered km cast (fun _ k => k) q e data out := by
  refine reader_delivers km hkm cast false (fun _ k => k) (fun _ => rfl) q e data out hwf hlen ?_ ?_ h
  · intro idx hl hin; rw [(actualFields_fixed e idx hin).1]; omega
  · intro idx hin j k hj; exact (actualFields_fixed e idx hin).2 j k hj

/-- **a `CastError` is always justified** — when the reader refuses a complete entry with `CastError`,
some value of a required column that needs a cast (its entry kind is not of the query kind) cannot be
cast to the declared kind. -/
theorem C15_cast_error_sound (km : Kind → Kind → Bool) (cast : Kind → α → Option α) (q e : List Field) (data : Tab α)
    (hwf : data.WF) (hlen : data.ncols = e.length)
    (h : readerCall km cast false q e data = .castError) :
    ∃ (j k : Nat) (qf ef : Field) (i : Nat) (v : α), q[j]? = some qf ∧ e[k]? = some ef ∧ ef.name = qf.name ∧
      km qf.kind ef.kind = false ∧ data.get i k = some v ∧ cast qf.kind v = none := by
  rcases readerCall_branches km cast false q e data hlen with hb | ⟨hn, hb⟩ | ⟨hq, hb⟩ | ⟨idx, d, hspec, hd, hb⟩
  · rw [hb] at h; cases h
  · rw [hb] at h
    cases hcs : castStep km cast (decide (e = q)) q e data with
    | some o => rw [hcs] at h; cases h
    | none =>
      obtain ⟨j, qf, pf, i, v, hj, hp, hk, hg, hc⟩ := castStep_none km cast _ q e data hwf hcs
      obtain ⟨ef, he, hnm⟩ := (names_pointwise q e hn).2 j qf hj
      rw [he] at hp; simp only [Option.some.injEq] at hp; subst hp
      exact ⟨j, j, qf, ef, i, v, hj, he, hnm, hk, hg, hc⟩
  · rw [hb] at h; subst hq
    cases hcs : castStep km cast (decide (e = [])) [] e data with
    | some o => rw [hcs] at h; cases h
    | none =>
      obtain ⟨j, qf, _, _, _, hj, _⟩ := castStep_none km cast _ [] e data hwf hcs
      simp at hj
  · rw [hb] at h
    cases hcs : castStep km cast false q (actualFields false e idx) d with
    | some o => rw [hcs] at h; cases h
    | none =>
      obtain ⟨dwf, _, _, dcell⟩ := C15_take_columns data d hwf _ hd
      obtain ⟨j, qf, pf, i, v, hj, hp, hk, hg, hc⟩ := castStep_none km cast _ q _ d dwf hcs
      obtain ⟨k, ef, hi, he, hnm⟩ := (idx_pointwise q e idx hspec).2 j qf hj
      have hin := idx_in_range q e idx hspec
      rw [(actualFields_fixed e idx hin).2 j k hi, he] at hp; simp only [Option.some.injEq] at hp; subst hp
      have hkl : k < data.ncols := by rw [hlen]; exact (List.getElem?_eq_some_iff.mp he).1
      have hcell := dcell j (Int.ofNat k) k (by simp [List.getElem?_map, hi]) (normIdx_ofNat _ _ hkl) i
      exact ⟨j, k, qf, ef, i, v, hj, he, hnm, hk, by rw [← hcell]; exact hg, hc⟩

/-- **C15_served** (the property, first sentence, as a total statement about the code in /repo) — for
every query schema, every entry schema containing all the query's names (any order, any extra
columns) and every rectangular payload of the entry's width whose required values can be cast, in both
tabular implementations: the reader does deliver, and what it delivers is `Delivered` — exactly the
query's columns, in the query's order, each from an entry column of that name, each value cast to the
declared kind (or left when the entry already declares that kind). -/
theorem C15_served (km : Kind → Kind → Bool) (hkm : ∀ k, km k k = true)
    (cast : Kind → α → Option α) (q e : List Field) (data : Tab α)
    (hwf : data.WF) (hlen : data.ncols = e.length)
    (hsub : ∀ c ∈ q.map (·.name), c ∈ e.map (·.name)) (hcast : Castable km cast q e data) :
    ∃ out, readerCall km cast false q e data = .data out ∧ Delivered km cast (fun _ k => k) q e data out := by
  cases h : readerCall km cast false q e data with
  | missing =>
    obtain ⟨c, hc, hn⟩ := (C15_refusal km cast false q e data).mp h
    exact absurd (hsub c hc) hn
  | indexError => exact absurd h (C15_no_index_error km cast false q e data hlen)
  | castError =>
    obtain ⟨j, k, qf, ef, i, v, hj, he, hnm, hk, hg, hc⟩ := C15_cast_error_sound km cast q e data hwf hlen h
    have := hcast j k qf ef i v hj he hnm hk hg
    rw [hc] at this; cases this
  | data out => exact ⟨out, rfl, C15_cast km hkm cast q e data out hwf hlen h⟩

/-- entry field names are pairwise distinct (what `dsl.Schema` enforces) -/
def DistinctNames (e : List Field) : Prop :=
  ∀ (k k' : Nat) (ef ef' : Field), e[k]? = some ef → e[k']? = some ef' → ef.name = ef'.name → k = k'

/-- `List.Nodup` on the names gives `DistinctNames` -/
theorem C15_distinct_of_nodup (e : List Field) (h : (e.map (·.name)).Nodup) : DistinctNames e := by
  intro k k' ef ef' hk hk' hn
  have hkl := (List.getElem?_eq_some_iff.mp hk)
  have hkl' := (List.getElem?_eq_some_iff.mp hk')
  rw [List.nodup_iff_pairwise_ne, List.pairwise_iff_getElem] at h
  rcases Nat.lt_trichotomy k k' with hlt | heq | hgt
  · have := h k k' (by simpa using hkl.1) (by simpa using hkl'.1) hlt
    simp only [List.getElem_map, hkl.2, hkl'.2] at this
    exact absurd hn this
  · exact heq
  · have := h k' k (by simpa using hkl'.1) (by simpa using hkl.1) hgt
    simp only [List.getElem_map, hkl.2, hkl'.2] at this
    exact absurd hn.symm this

/-- **un-castable values are refused, never delivered** — for an entry with distinct names: if some
value of a required column that needs a cast cannot be cast, no data is delivered (the outcome is
`CastError`, or `MissingError` if a column is lacking as well). -/
theorem C15_uncastable_refused (km : Kind → Kind → Bool) (hkm : ∀ k, km k k = true)
    (cast : Kind → α → Option α) (q e : List Field) (data : Tab α)
    (hwf : data.WF) (hlen : data.ncols = e.length) (hd : DistinctNames e)
    (j k : Nat) (qf ef : Field) (i : Nat) (v : α) (hj : q[j]? = some qf) (he : e[k]? = some ef)
    (hnm : ef.name = qf.name) (hk : km qf.kind ef.kind = false) (hg : data.get i k = some v)
    (hc : cast qf.kind v = none) :
    ∀ out, readerCall km cast false q e data ≠ .data out := by
  intro out h
  obtain ⟨_, h2⟩ := C15_cast km hkm cast q e data out hwf hlen h
  obtain ⟨k', ef', pf, he', hnm', hp, hcell⟩ := h2 j qf hj
  have hkk : k' = k := hd k' k ef' ef he' he (by rw [hnm', hnm])
  subst hkk
  rw [he] at he' hp; cases he'; cases hp
  obtain ⟨h3, h4⟩ := hcell i
  rw [hg] at h3 h4
  simp only [Option.bind_some, castCell, hk, Bool.false_eq_true, if_false, hc] at h3
  have := h4 rfl
  rw [h3] at this; cases this

/-- **C15_cast_legacy** (the code as released before 8698b70, defect D16 characterised) — the same as
`C15_cast`, except that the kind deciding the cast of delivered column `j` is the kind of entry field
**`j`** (`pair j k = j`), not of the entry column `k` that was delivered. -/
theorem C15_cast_legacy (km : Kind → Kind → Bool) (hkm : ∀ k, km k k = true)
    (cast : Kind → α → Option α) (q e : List Field) (data out : Tab α)
    (hwf : data.WF) (hlen : data.ncols = e.length) (hq : q.length ≤ e.length)
    (h : readerCall km cast true q e data = .data out) :
    Delivered km cast (fun j _ => j) q e data out := by
  refine reader_delivers km hkm cast true (fun j _ => j) (fun _ => rfl) q e data out hwf hlen ?_ ?_ h
  · intro idx _ _; simpa [actualFields] using hq
  · intro idx _ j k _; simp [actualFields]

/-- the statement at full strength for the released code -/
def C15_cast_legacy_full : Prop :=
  ∀ (α : Type) (km : Kind → Kind → Bool) (cast : Kind → α → Option α) (q e : List Field) (data out : Tab α),
    (∀ k, km k k = true) → data.WF → data.ncols = e.length → readerCall km cast true q e data = .data out →
    Delivered km cast (fun _ k => k) q e data out

/-- kinds of the entry are all the same -/
def homogeneous (e : List Field) : Bool :=
  e.all (fun f => f.kind == ((e.head?).map (·.kind)).getD .integer)

/-- **partial** — the released code is right whenever all entry columns have one kind … -/
theorem C15_cast_legacy_partial (km : Kind → Kind → Bool) (hkm : ∀ k, km k k = true)
    (cast : Kind → α → Option α) (q e : List Field) (data out : Tab α)
    (hwf : data.WF) (hlen : data.ncols = e.length) (hq : q.length ≤ e.length)
    (hyp : homogeneous e = true)
    (h : readerCall km cast true q e data = .data out) :
    Delivered km cast (fun _ k => k) q e data out := by
  obtain ⟨h1, h2⟩ := C15_cast_legacy km hkm cast q e data out hwf hlen hq h
  refine ⟨h1, ?_⟩
  intro j qf hj
  obtain ⟨k, ef, pf, he, hn, hp, hc⟩ := h2 j qf hj
  refine ⟨k, ef, ef, he, hn, he, ?_⟩
  have hk : pf.kind = ef.kind := by
    simp only [homogeneous, List.all_eq_true, beq_iff_eq] at hyp
    rw [hyp pf (List.mem_of_getElem? hp), hyp ef (List.mem_of_getElem? he)]
  intro i; rw [← hk]; exact hc i

/-- … or the entry columns come in the query's order (names agree position by position). -/
theorem C15_cast_legacy_partial_identity (km : Kind → Kind → Bool) (hkm : ∀ k, km k k = true)
    (cast : Kind → α → Option α) (q e : List Field) (data out : Tab α)
    (hwf : data.WF) (hlen : data.ncols = e.length) (hyp : e.map (·.name) = q.map (·.name))
    (h : readerCall km cast true q e data = .data out) :
    Delivered km cast (fun _ k => k) q e data out := by
  have hm := (C15_match_identical_iff (q.map (·.name)) (e.map (·.name))).mpr hyp
  unfold readerCall readerCallWith at h
  rw [hm] at h
  simp only at h
  cases hcs : castStep km cast (decide (e = q)) q e data with
  | none => rw [hcs] at h; cases h
  | some o =>
    rw [hcs] at h; simp only [Outcome.data.injEq] at h; subst h
    exact deliver_identity km hkm cast _ (fun _ => rfl) q e data o hwf hlen hyp hcs

/-- **counterexample (D16)** — query `(a : string)`, entry `(b : string, a : integer)`, one row
`b = 5, a = 7`: the released code delivers `7` as is (the cast is decided by `b`'s kind) where the
query declares a string. Values are naturals, "cast" is `+ 100` to make it visible. -/
theorem C15_cast_legacy_counterexample : ¬ C15_cast_legacy_full := by
  intro hfull
  have h := hfull Nat kmatch (fun _ v => some (v + 100)) [⟨0, .string⟩] [⟨1, .string⟩, ⟨0, .integer⟩]
    (.dense ⟨[[5, 7]], 2⟩) (.frame ⟨[[7]], 1⟩) (by intro k; cases k <;> rfl)
    (by intro r hr; simp at hr; subst hr; rfl) rfl (by decide)
  obtain ⟨_, h2⟩ := h
  obtain ⟨k, ef, pf, he, hn, hp, hc⟩ := h2 0 ⟨0, .string⟩ rfl
  match k, he, hp with
  | 0, he, _ => simp at he; subst he; simp at hn
  | 1, he, hp =>
    simp at hp; subst hp
    have := (hc 0).1
    simp [Tab.get, Mat.cell, kmatch, castCell] at this
  | k + 2, he, _ => simp at he

/-! ### the kind lattice, re-extracted from the live classes on every run -/

/-- The match relation the code has **now** (`X().match(Y())` evaluated on the imported kind classes,
`ForML.Generated.C15Kinds.liveMatch`, which is what the driver runs the model with) is reflexive — the only
fact about it the theorems above need (`hkm`); they therefore apply to the live relation as it is. -/
theorem C15_kind_table : ∀ k : Kind, ForML.Generated.C15Kinds.liveMatch k k = true := by
  intro k; cases k <;> rfl

/-- `C15_served` instantiated with the live relation. -/
theorem C15_served_live (cast : Kind → α → Option α) (q e : List Field) (data : Tab α)
    (hwf : data.WF) (hlen : data.ncols = e.length)
    (hsub : ∀ c ∈ q.map (·.name), c ∈ e.map (·.name))
    (hcast : Castable ForML.Generated.C15Kinds.liveMatch cast q e data) :
    ∃ out, readerCall ForML.Generated.C15Kinds.liveMatch cast false q e data = .data out ∧
      Delivered ForML.Generated.C15Kinds.liveMatch cast (fun _ k => k) q e data out :=
  C15_served _ C15_kind_table cast q e data hwf hlen hsub hcast

end tabular

/-! ### the real kind lattice and the real `kind.cast` (tables re-extracted from the live classes on every run) -/

section real
open ForML.Generated.C15Lattice ForML.Generated.C15Kinds

/-- the value cast the code has: `Primitive.cast` with the live native-type table -/
abbrev realCast : Kind → PyVal → Option PyVal := pcast liveIsInstance
/-- `isinstance(value, kind.__type__)` with the live table -/
abbrev ofKind (k : Kind) (v : PyVal) : Bool := hasKind liveIsInstance k v

/-- **`match` follows the class hierarchy** — whenever `X().match(Y())` holds on the live singletons, the class of `X`
occurs in the MRO of the class of `Y` (both tables are read off the imported classes): kinds unrelated in the hierarchy
never match. -/
theorem C15_kind_lattice (e a : Kind) (h : liveMatch e a = true) : classMatch liveClass liveMro e a = true := by
  cases e <;> cases a <;> revert h <;> decide

/-- the lattice is a pre-order (reflexive: `C15_kind_table`; transitive) -/
theorem C15_kind_match_trans (a b c : Kind) (h1 : liveMatch a b = true) (h2 : liveMatch b c = true) :
    liveMatch a c = true := by
  cases a <;> cases b <;> cases c <;> revert h1 h2 <;> decide

/-- what every constructor returns is an instance of its kind's native type (live table) -/
theorem C15_type_table : TypeTable liveIsInstance := by
  intro k; cases k <;> rfl

/-- **the direction of `match`** — when the *declared* kind matches the *entry* kind (`declared.match(entry)`, i.e.
the entry kind's class derives from the declared kind's class) every value of the entry kind is a value of the
declared kind: leaving such a column uncast is sound. -/
theorem C15_kind_match_sound (qk ek : Kind) (v : PyVal) (hm : liveMatch qk ek = true) (hv : ofKind ek v = true) :
    ofKind qk v = true := by
  have hc : ∀ c : VClass, liveMatch qk ek = true → liveIsInstance ek c = true → liveIsInstance qk c = true := by
    intro c; cases qk <;> cases ek <;> cases c <;> decide
  exact hc (classOf v) hm hv

/-- … and the other direction is not (released lattice: `Timestamp` derives from `Date`): a `Date` entry matches under
`entry.match(declared)` for a declared `Timestamp`, but a date is no timestamp. -/
theorem C15_kind_match_direction :
    ¬ ∀ (qk ek : Kind) (v : PyVal), kmatch ek qk = true → hasKind snapIsInstance ek v = true →
        hasKind snapIsInstance qk v = true := by
  intro h
  exact absurd (h .timestamp .date (.date 5) rfl rfl) (by decide)

/-- **each value cast to the declared kind** — whatever `kind.cast` returns is an instance of the declared kind's
native type. -/
theorem C15_cast_to_kind (k : Kind) (v w : PyVal) (h : realCast k v = some w) : ofKind k w = true :=
  pcast_hasKind liveIsInstance C15_type_table k v w h

/-- a value that already is of the declared kind is returned untouched -/
theorem C15_cast_shortcut (k : Kind) (v : PyVal) (h : ofKind k v = true) : realCast k v = some v :=
  pcast_shortcut liveIsInstance k v h

/-- **failure on un-castable values** — the cast raises exactly when the value is no instance of the native type
and the kind's constructor refuses it. -/
theorem C15_cast_fails_iff (k : Kind) (v : PyVal) :
    realCast k v = none ↔ ofKind k v = false ∧ rawCast k v = none :=
  pcast_none liveIsInstance k v

/-- the cast keeps what the value denotes, as far as the declared kind can express it — at full strength (whatever the
native-type table) -/
def C15_cast_denotes_full : Prop :=
  ∀ (isinst : Kind → VClass → Bool) (k : Kind) (v w : PyVal) (x : Den), TypeTable isinst →
    denAs k (den v) = some x → pcast isinst k v = some w → denAs k (den w) = some x

/-- **partial** — it does for every kind but `Boolean` (numbers stay the number, ISO texts / dates / timestamps
the day resp. the moment, `str(…)` denotes what the value did) -/
theorem C15_cast_denotes_partial (isinst : Kind → VClass → Bool) (k : Kind) (hk : k ≠ .boolean) (v w : PyVal) (x : Den)
    (hd : denAs k (den v) = some x) (h : pcast isinst k v = some w) : denAs k (den w) = some x :=
  pcast_den isinst k hk v w x hd h

/-- **counterexample** — `Boolean.cast('False')` is `bool('False')` = `True` -/
theorem C15_cast_denotes_counterexample : ¬ C15_cast_denotes_full := by
  intro h
  exact absurd (h snapIsInstance .boolean (.str (.boolLit false)) (.bool true) (.truth false)
    (by intro k; cases k <;> rfl) rfl rfl) (by decide)

/-- `kind.reflect` (what the decoder labels a column with) answers a kind the value is an instance of … -/
theorem C15_reflect_sound (c : VClass) (k : Kind) (h : reflectClass liveIsInstance liveRank c = some k) :
    liveIsInstance k c = true := by
  cases c <;> simp [reflectClass, Kind.all, liveIsInstance, liveRank] at h <;> subst h <;> rfl

/-- … the one of the least rank … -/
theorem C15_reflect_minimal (c : VClass) (k k' : Kind) (h : reflectClass liveIsInstance liveRank c = some k)
    (h' : liveIsInstance k' c = true) : liveRank k ≤ liveRank k' := by
  cases c <;> simp [reflectClass, Kind.all, liveIsInstance, liveRank] at h <;> subst h <;>
    cases k' <;> revert h' <;> decide

/-- … and the set-iteration order Python breaks rank ties with does not matter: accepting kinds never tie. -/
theorem C15_reflect_unambiguous (c : VClass) (k k' : Kind) (h : liveIsInstance k c = true)
    (h' : liveIsInstance k' c = true) (hr : liveRank k = liveRank k') : k = k' := by
  cases c <;> cases k <;> cases k' <;> revert h h' hr <;> decide

/-- every cell of the entry payload is a value of the kind its entry column declares -/
def EntryTyped (e : List Field) (data : Tab PyVal) : Prop :=
  ∀ (k : Nat) (ef : Field) (i : Nat) (v : PyVal), e[k]? = some ef → data.get i k = some v → ofKind ef.kind v = true

/-- **C15_delivered_kind** (the property's "each value cast to the declared kind", for the real lattice and the real
cast) — for every query schema, entry schema and rectangular payload whose cells are of their entry kinds, in both
tabular implementations: every cell the reader delivers in column `j` is an instance of the native type of the kind
the query declares for column `j`. -/
theorem C15_delivered_kind (q e : List Field) (data out : Tab PyVal)
    (hwf : data.WF) (hlen : data.ncols = e.length) (ht : EntryTyped e data)
    (h : readerCall liveMatch realCast false q e data = .data out) :
    ∀ (j : Nat) (qf : Field) (i : Nat) (w : PyVal), q[j]? = some qf → out.get i j = some w → ofKind qf.kind w = true := by
  intro j qf i w hj hw
  obtain ⟨_, h2⟩ := C15_cast liveMatch C15_kind_table realCast q e data out hwf hlen h
  obtain ⟨k, ef, pf, he, _, hp, hc⟩ := h2 j qf hj
  rw [he] at hp; cases hp
  have h3 := (hc i).1
  rw [hw] at h3
  cases hg : data.get i k with
  | none => rw [hg] at h3; cases h3
  | some v =>
    rw [hg] at h3
    simp only [Option.bind_some, castCell] at h3
    split at h3
    · rename_i hm
      have hwv : w = v := Option.some.inj h3
      subst hwv
      exact C15_kind_match_sound qf.kind ef.kind w hm (ht k ef i w he hg)
    · exact C15_cast_to_kind qf.kind v w h3.symm

/-- the same reader with the operands of `match` swapped (released lattice) delivers a `datetime.date` where a
`Timestamp` is declared -/
theorem C15_delivered_kind_swapped_counterexample :
    ¬ ∀ (q e : List Field) (data out : Tab PyVal), data.WF → data.ncols = e.length →
        (∀ (k : Nat) (ef : Field) (i : Nat) (v : PyVal), e[k]? = some ef → data.get i k = some v →
          hasKind snapIsInstance ef.kind v = true) →
        readerCall (fun a b => kmatch b a) (pcast snapIsInstance) false q e data = .data out →
        ∀ (j : Nat) (qf : Field) (i : Nat) (w : PyVal), q[j]? = some qf → out.get i j = some w →
          hasKind snapIsInstance qf.kind w = true := by
  intro h
  have := h [⟨0, .timestamp⟩] [⟨0, .date⟩] (.dense ⟨[[.date 5]], 1⟩) (.frame ⟨[[.date 5]], 1⟩)
    (by intro r hr; simp at hr; subst hr; rfl) rfl
    (by
      intro k ef i v he hg
      match k, he with
      | 0, he =>
        simp at he; subst he
        match i, hg with
        | 0, hg => simp [Tab.get, Mat.cell] at hg; subst hg; rfl
        | i + 1, hg => simp [Tab.get, Mat.cell] at hg
      | k + 1, he => simp at he)
    (by decide) 0 ⟨0, .timestamp⟩ 0 (.date 5) rfl rfl
  exact absurd this (by decide)

/-- **C15_served_real** — the first sentence of the property for the code as it is, lattice and cast included: a
complete entry (any order, any extras) whose cells are of their entry kinds and whose required values the real cast
accepts is served; what is served has exactly the query's columns in the query's order (`Delivered`), and every
delivered value is of the kind the query declares. -/
theorem C15_served_real (q e : List Field) (data : Tab PyVal)
    (hwf : data.WF) (hlen : data.ncols = e.length)
    (hsub : ∀ c ∈ q.map (·.name), c ∈ e.map (·.name))
    (hcast : Castable liveMatch realCast q e data) (ht : EntryTyped e data) :
    ∃ out, readerCall liveMatch realCast false q e data = .data out ∧
      Delivered liveMatch realCast (fun _ k => k) q e data out ∧
      ∀ (j : Nat) (qf : Field) (i : Nat) (w : PyVal), q[j]? = some qf → out.get i j = some w → ofKind qf.kind w = true := by
  obtain ⟨out, h1, h2⟩ := C15_served liveMatch C15_kind_table realCast q e data hwf hlen hsub hcast
  exact ⟨out, h1, h2, C15_delivered_kind q e data out hwf hlen ht h1⟩

end real

/-! ### histories: one reader instance, one process -/

section histories
open ForML.Generated.C15Lattice ForML.Generated.C15Kinds
variable {α : Type}

/-- **C15_reader_history** (`_match_entry` under `functools.lru_cache`) — over every history of requests through one
reader instance, whatever the capacity of the cache: every request is answered exactly as `Reader.__call__` answers it
with nothing cached. -/
theorem C15_reader_history (km : Kind → Kind → Bool) (cast : Kind → α → Option α) (legacy : Bool) (cap : Option Nat)
    (reqs : List (Req α)) :
    readerRun km cast legacy cap exactKey [] reqs = reqs.map (fun r => readerCall km cast legacy r.q r.e r.data) :=
  readerRun_eq km cast legacy cap reqs [] (MemoInv.nil _ _ _)

/-- the result for an entry is independent of the entries served before it -/
theorem C15_reader_history_last (km : Kind → Kind → Bool) (cast : Kind → α → Option α) (legacy : Bool) (cap : Option Nat)
    (earlier : List (Req α)) (r : Req α) :
    (readerRun km cast legacy cap exactKey [] (earlier ++ [r])).getLast? = some (readerCall km cast legacy r.q r.e r.data) := by
  rw [C15_reader_history]; simp

/-- **the key matters** — memoised under an order-insensitive key (what hashing the two schemas gives) the same reader
answers a re-ordered entry with the indices of the arrangement it saw first. -/
theorem C15_reader_history_key_matters :
    ¬ ∀ (reqs : List (Req Nat)), readerRun kmatch (fun _ v => some v) false none weakKey [] reqs =
        reqs.map (fun r => readerCall kmatch (fun _ v => some v) false r.q r.e r.data) := by
  intro h
  have := h [⟨[⟨0, .integer⟩, ⟨1, .integer⟩], [⟨0, .integer⟩, ⟨1, .integer⟩], .dense ⟨[[5, 7]], 2⟩⟩,
             ⟨[⟨0, .integer⟩, ⟨1, .integer⟩], [⟨1, .integer⟩, ⟨0, .integer⟩], .dense ⟨[[7, 5]], 2⟩⟩]
  exact absurd this (by decide)

/-- `Pandas.Schema.from_frame` over the requests of one process: every frame is labelled as a fresh inference would
label it — at full strength (whatever the native-type table and the ranks) -/
def C15_schema_cache_full : Prop :=
  ∀ (isinst : Kind → VClass → Bool) (rank : Kind → Nat) (frames : List DFrame),
    (fromFrameRun isinst rank [] frames).1 = frames.map (inferSchema isinst rank)

/-- **partial** — it is for frames with rows whose dtypes determine the classes of their values (no `object`
column): the key `(label, dtype)…` then determines the schema. In particular frames of the same dtypes with other
labels or another column order never share a cache slot. -/
theorem C15_schema_cache_partial (isinst : Kind → VClass → Bool) (rank : Kind → Nat) (frames : List DFrame)
    (h : ∀ fr ∈ frames, Determined fr) :
    (fromFrameRun isinst rank [] frames).1 = frames.map (inferSchema isinst rank) :=
  memoRun_eq none frameKey _ Option.isSome Determined (frameKey_sound isinst rank) frames h []
    (MemoInv.nil _ _ _)

/-- **counterexample** — an `object` column hides what it holds: after a frame whose column `0` holds dates, a frame
whose column `0` holds decimals is labelled `Date` (finding C15-F2; on the serving path the same happens with
list-valued and dict-valued columns). -/
theorem C15_schema_cache_counterexample : ¬ C15_schema_cache_full := by
  intro h
  have := h snapIsInstance snapRank [⟨[⟨0, .object, some .date⟩], 1⟩, ⟨[⟨0, .object, some .decimal⟩], 1⟩]
  exact absurd this (by decide)

/-- labels differ ⇒ keys differ: frames of the same dtypes under other labels / in another order are never confused -/
theorem C15_schema_cache_key_labels (a b : DFrame) (h : frameKey a = frameKey b) :
    a.cols.map (·.name) = b.cols.map (·.name) ∧ a.cols.map (·.dtype) = b.cols.map (·.dtype) := by
  unfold frameKey at h
  have h1 := congrArg (List.map Prod.fst) h
  have h2 := congrArg (List.map Prod.snd) h
  simp only [List.map_map] at h1 h2
  exact ⟨h1, h2⟩

/-- **C15_decoded_entry** (`Pandas.Decoder.loads`: `Entry(Schema.from_frame(frame), Frame(frame))`) — the schema a
fresh inference gives a frame has one field per column, named like the column, in the column order, and of a kind
every value of the column's class is an instance of: the entry is as wide as its schema and its cells are of their
entry kinds (the hypotheses `hlen` and `EntryTyped` of the reader theorems). -/
theorem C15_decoded_entry (fr : DFrame) (fields : List Field)
    (h : inferSchema liveIsInstance liveRank fr = some fields) :
    fields.map (·.name) = fr.cols.map (·.name) ∧
    ∀ (j : Nat) (f : Field), fields[j]? = some f → ∃ c v, fr.cols[j]? = some c ∧ c.cls = some v ∧ liveIsInstance f.kind v = true := by
  unfold inferSchema at h
  split at h
  · cases h
  · obtain ⟨hl, hc⟩ := mapOpt_some fr.cols fields h
    constructor
    · apply List.ext_getElem?
      intro j
      simp only [List.getElem?_map]
      rw [hc j]
      cases hcj : fr.cols[j]? with
      | none => rfl
      | some c =>
        have hjl : j < fields.length := by rw [hl]; exact (List.getElem?_eq_some_iff.mp hcj).1
        have hfj := hc j
        rw [List.getElem?_eq_getElem hjl, hcj] at hfj
        simp only [Option.bind_some] at hfj
        cases hcc : c.cls.bind (reflectClass liveIsInstance liveRank) with
        | none => rw [hcc] at hfj; cases hfj
        | some k =>
          show Option.map (fun x => x.name) (Option.map (fun k => (⟨c.name, k⟩ : Field))
            (c.cls.bind (reflectClass liveIsInstance liveRank))) = some c.name
          rw [hcc]; rfl
    · intro j f hf
      have := hc j
      rw [hf] at this
      cases hcj : fr.cols[j]? with
      | none => simp [hcj] at this
      | some c =>
        simp only [hcj, Option.bind_some] at this
        cases hv : c.cls with
        | none => simp [hv] at this
        | some v =>
          simp only [hv, Option.bind_some] at this
          cases hk : reflectClass liveIsInstance liveRank v with
          | none => simp [hk] at this
          | some k =>
            simp [hk] at this; subst this
            exact ⟨c, v, rfl, hv, C15_reflect_sound v k hk⟩

end histories

/-! ### chained selections, and the reader followed by the slicer -/

section chained
variable {α : Type}

/-- **take_rows twice** — selecting from a selection is selecting with the composed indices: row `k` of
`t.take_rows(is).take_rows(js)` is row `is[js[k]]` of `t` (negatives from the end at both levels). -/
theorem C15_take_rows_twice (t r r' : Tab α) (h : t.WF) (is js : List Int)
    (hr : t.takeRows is = some r) (hr' : r.takeRows js = some r')
    (k : Nat) (ι : Int) (m : Nat) (ι' : Int) (i : Nat)
    (hk : js[k]? = some ι) (hm : normIdx is.length ι = some m) (hm' : is[m]? = some ι') (hi : normIdx t.nrows ι' = some i) :
    ∀ j, r'.get k j = t.get i j := by
  obtain ⟨rwf, rn, _, rcell⟩ := C15_take_rows t r h is hr
  obtain ⟨_, _, _, rcell'⟩ := C15_take_rows r r' rwf js hr'
  intro j
  rw [rcell' k ι m hk (by rw [rn]; exact hm) j, rcell m ι' i hm' hi j]

/-- **take_columns twice** — dually -/
theorem C15_take_columns_twice (t r r' : Tab α) (h : t.WF) (is js : List Int)
    (hr : t.takeColumns is = some r) (hr' : r.takeColumns js = some r')
    (k : Nat) (ι : Int) (m : Nat) (ι' : Int) (j : Nat)
    (hk : js[k]? = some ι) (hm : normIdx is.length ι = some m) (hm' : is[m]? = some ι') (hj : normIdx t.ncols ι' = some j) :
    ∀ i, r'.get i k = t.get i j := by
  obtain ⟨rwf, rn, _, rcell⟩ := C15_take_columns t r h is hr
  obtain ⟨_, _, _, rcell'⟩ := C15_take_columns r r' rwf js hr'
  intro i
  rw [rcell' k ι m hk (by rw [rn]; exact hm) i, rcell m ι' j hm' hj i]

/-- rows then columns = the sub-matrix -/
theorem C15_take_rows_columns (t r r' : Tab α) (h : t.WF) (is js : List Int)
    (hr : t.takeRows is = some r) (hr' : r.takeColumns js = some r')
    (a b : Nat) (ι κ : Int) (i j : Nat)
    (ha : is[a]? = some ι) (hi : normIdx t.nrows ι = some i) (hb : js[b]? = some κ) (hj : normIdx t.ncols κ = some j) :
    r'.get a b = t.get i j := by
  obtain ⟨rwf, _, rc, rcell⟩ := C15_take_rows t r h is hr
  obtain ⟨_, _, _, rcell'⟩ := C15_take_columns r r' rwf js hr'
  rw [rcell' b κ j hb (by rw [rc]; exact hj) a, rcell a ι i ha hi j]

/-- **C15_train_path** (`Slicer.from_columns` → `TableDriver` → `Slicer.apply`) — the statement's columns are
`(*features, *labels)`; when the reader delivers `out` for it and the slicer built by `from_columns(nf features,
labels)` is applied, feature cell `(i, k)` is delivered cell `(i, k)` and label cell `(i, k)` is delivered cell
`(i, nf + k)` — i.e. by `C15_cast` the (cast) entry cell of the column named like the `k`-th feature resp. label. -/
theorem C15_train_path (out : Tab α) (h : out.WF) (nf : Nat) (nl : Option Nat)
    (hw : nf + (nl.getD 1) ≤ out.ncols)
    (f : List (List α)) (lab : List α ⊕ List (List α))
    (hs : slicer (slicerPositions nf nl).1 (slicerPositions nf nl).2 out = some (f, lab)) :
    (∀ k, k < nf → ∀ i, f[i]?.bind (·[k]?) = out.get i k) ∧
    (match nl, lab with
     | none, .inl c => ∀ i : Nat, c[i]? = out.get i nf
     | some n, .inr rows => ∀ k, k < n → ∀ i, rows[i]?.bind (·[k]?) = out.get i (nf + k)
     | _, _ => False) := by
  cases nl with
  | none =>
    have hs' : slicer ((List.range nf).map Int.ofNat) (.inl (Int.ofNat nf)) out = some (f, lab) := hs
    obtain ⟨hf, hl⟩ := C15_slicer out h _ _ f lab hs'
    refine ⟨?_, ?_⟩
    · intro k hk i
      exact hf k (Int.ofNat k) k (by simp [hk]) (normIdx_ofNat _ _ (by simp at hw; omega)) i
    · cases lab with
      | inl c =>
        simp only at hl ⊢
        intro i
        exact hl nf (normIdx_ofNat _ _ (by simp at hw; omega)) i
      | inr rows => exact hl
  | some n =>
    have hs' : slicer ((List.range nf).map Int.ofNat) (.inr ((List.range n).map (fun i => Int.ofNat (nf + i)))) out
        = some (f, lab) := hs
    obtain ⟨hf, hl⟩ := C15_slicer out h _ _ f lab hs'
    refine ⟨?_, ?_⟩
    · intro k hk i
      exact hf k (Int.ofNat k) k (by simp [hk]) (normIdx_ofNat _ _ (by simp at hw; omega)) i
    · cases lab with
      | inl c => exact hl
      | inr rows =>
        simp only at hl ⊢
        intro k hk i
        exact hl k (Int.ofNat (nf + k)) (nf + k) (by simp [hk]) (normIdx_ofNat _ _ (by simp at hw; omega)) i

end chained

/-! ### non-vacuity (tests on concrete objects, not part of the claim) -/

example : matchEntry [1, 2, 3] [3, 9, 1, 2] = (true, some [2, 3, 0]) := by decide
example : matchEntry [1, 2] [1, 2] = (true, none) := by decide
example : matchEntry [1, 2] [2, 1, 2, 1] = (true, some [3, 2]) := by decide   -- duplicates: last wins
example : matchEntry [1, 2] [1] = (false, none) := by decide                  -- early refusal
example : matchEntry [1, 2] [1, 3] = (false, none) := by decide               -- refusal in the 2nd loop
example : (Tab.dense ⟨[[11, 12, 13], [21, 22, 23]], 3⟩).takeColumns [-1, 0, 0] =
    some (.dense ⟨[[13, 11, 11], [23, 21, 21]], 3⟩) := by decide
example : (Tab.frame ⟨[[11, 21], [12, 22], [13, 23]], 2⟩).takeRows [1, 1, -2] =
    some (.frame ⟨[[21, 21, 11], [22, 22, 12], [23, 23, 13]], 3⟩) := by decide
example : (Tab.frame ⟨[[11, 21], [12, 22], [13, 23]], 2⟩).takeRows [2] = none := by decide
example : readerCall kmatch (fun _ v => some (v + 100)) false [⟨0, .string⟩] [⟨1, .string⟩, ⟨0, .integer⟩]
    (.dense ⟨[[5, 7]], 2⟩) = .data (.frame ⟨[[107]], 1⟩) := by decide
example : readerCall kmatch (fun _ v => some (v + 100)) true [⟨0, .string⟩] [⟨1, .string⟩, ⟨0, .integer⟩]
    (.dense ⟨[[5, 7]], 2⟩) = .data (.frame ⟨[[7]], 1⟩) := by decide
-- a value that cannot be cast: refused, in the identical and in a re-ordered arrangement
example : readerCall kmatch (fun _ v => if v < 10 then some (v + 100) else none) false [⟨0, .string⟩, ⟨1, .integer⟩]
    [⟨1, .integer⟩, ⟨0, .integer⟩] (.frame ⟨[[1, 2], [3, 44]], 2⟩) = .castError := by decide
example : readerCall kmatch (fun _ v => if v < 10 then some (v + 100) else none) false [⟨0, .string⟩]
    [⟨0, .integer⟩] (.dense ⟨[[3], [44]], 1⟩) = .castError := by decide
-- an empty payload (no rows) keeps the query's columns
example : readerCall kmatch (fun _ v => some (v + 100)) false [⟨0, .string⟩] [⟨1, .string⟩, ⟨0, .integer⟩]
    (.dense ⟨[], 2⟩) = .data (.frame ⟨[[]], 0⟩) := by decide
-- the hypotheses of `C15_served` are satisfiable by a non-trivial object (superset, re-ordered, casts needed)
example : Castable kmatch (fun _ v => if v < 10 then some (v + 100) else none) [⟨0, .string⟩, ⟨1, .integer⟩]
    [⟨1, .integer⟩, ⟨2, .float⟩, ⟨0, .integer⟩] (.frame ⟨[[1, 2], [50, 60], [3, 4]], 2⟩) := by
  intro j k qf ef i v hj he hnm hk hg
  match j, hj with
  | 0, hj =>
    simp at hj; subst hj
    match k, he with
    | 0, he => simp at he; subst he; simp at hnm
    | 1, he => simp at he; subst he; simp at hnm
    | 2, he =>
      match i, hg with
      | 0, hg => simp [Tab.get, Mat.cell] at hg; subst hg; rfl
      | 1, hg => simp [Tab.get, Mat.cell] at hg; subst hg; rfl
      | i + 2, hg => simp [Tab.get, Mat.cell] at hg
    | k + 3, he => simp at he
  | 1, hj =>
    simp at hj; subst hj
    match k, he with
    | 0, he => simp at he; subst he; simp [kmatch] at hk
    | 1, he => simp at he; subst he; simp at hnm
    | 2, he => simp at he; subst he; simp at hnm
    | k + 3, he => simp at he
  | j + 2, hj => simp at hj
example : DistinctNames [⟨1, .integer⟩, ⟨2, .float⟩, ⟨0, .integer⟩] :=
  C15_distinct_of_nodup _ (by decide)
example : homogeneous [⟨1, .float⟩, ⟨0, .float⟩] = true := by decide
example : slicer (slicerPositions 2 none).1 (slicerPositions 2 none).2
    (Tab.dense ⟨[[11, 12, 13], [21, 22, 23]], 3⟩) = some ([[11, 12], [21, 22]], .inl [13, 23]) := by decide
-- the value level (released lattice / native types, so that a harmless change of the live tables breaks no example)
example : pcast snapIsInstance .integer (.str (.intLit 12)) = some (.int 12) := by decide
example : pcast snapIsInstance .integer (.str (.floatLit 12)) = none := by decide          -- int("12.0")
example : pcast snapIsInstance .float (.int 5) = some (.int 5) := by decide                -- an int is a Real
example : pcast snapIsInstance .timestamp (.date 5) = some (.ts 5 0) := by decide          -- midnight
example : pcast snapIsInstance .date (.ts 5 77) = some (.ts 5 77) := by decide             -- a timestamp is a date
example : pcast snapIsInstance .date (.int (-5)) = some (.date (-1)) := by decide          -- ns since the epoch
example : pcast snapIsInstance .decimal (.npint 5) = none := by decide                     -- Decimal(numpy.int64)
example : pcast snapIsInstance .string (.ts 5 77) = some (.str (.tsLit 5 77)) := by decide
example : pcast snapIsInstance .integer (.date 5) = none := by decide
example : reflectClass snapIsInstance snapRank .datetime = some .timestamp := by decide
example : reflectClass snapIsInstance snapRank .bool = some .boolean := by decide
example : reflectClass snapIsInstance snapRank .npbool = none := by decide
-- the reader with the real cast: re-ordered superset, casts in both directions, a date entry for a timestamp query
example : readerCall kmatch (pcast snapIsInstance) false [⟨0, .string⟩, ⟨1, .timestamp⟩, ⟨2, .integer⟩]
    [⟨2, .string⟩, ⟨3, .float⟩, ⟨1, .date⟩, ⟨0, .integer⟩]
    (.dense ⟨[[.str (.intLit 4), .float 9, .date 5, .int 7]], 4⟩) =
    .data (.frame ⟨[[.str (.intLit 7)], [.ts 5 0], [.int 4]], 1⟩) := by decide
example : readerCall kmatch (pcast snapIsInstance) false [⟨0, .integer⟩] [⟨1, .integer⟩, ⟨0, .string⟩]
    (.frame ⟨[[.int 1], [.str (.word 3)]], 1⟩) = .castError := by decide
-- histories: the second arrangement of the same fields is answered with its own indices …
example : readerRun kmatch (fun _ (v : Nat) => some v) false (some 1) exactKey []
    [⟨[⟨0, .integer⟩, ⟨1, .integer⟩], [⟨0, .integer⟩, ⟨1, .integer⟩], .dense ⟨[[5, 7]], 2⟩⟩,
     ⟨[⟨0, .integer⟩, ⟨1, .integer⟩], [⟨1, .integer⟩, ⟨0, .integer⟩], .dense ⟨[[7, 5]], 2⟩⟩] =
    [.data (.dense ⟨[[5, 7]], 2⟩), .data (.frame ⟨[[5], [7]], 1⟩)] := by decide
-- … where an order-insensitive key hands it the first one's (identity) answer
example : readerRun kmatch (fun _ (v : Nat) => some v) false none weakKey []
    [⟨[⟨0, .integer⟩, ⟨1, .integer⟩], [⟨0, .integer⟩, ⟨1, .integer⟩], .dense ⟨[[5, 7]], 2⟩⟩,
     ⟨[⟨0, .integer⟩, ⟨1, .integer⟩], [⟨1, .integer⟩, ⟨0, .integer⟩], .dense ⟨[[7, 5]], 2⟩⟩] =
    [.data (.dense ⟨[[5, 7]], 2⟩), .data (.frame ⟨[[7], [5]], 1⟩)] := by decide
-- frames of the same dtypes under other labels / in another order: each gets its own schema
example : (fromFrameRun snapIsInstance snapRank []
    [⟨[⟨0, .int64, some .int⟩, ⟨1, .int64, some .int⟩], 2⟩, ⟨[⟨1, .int64, some .int⟩, ⟨0, .int64, some .int⟩], 1⟩,
     ⟨[⟨4, .int64, some .int⟩, ⟨5, .int64, some .int⟩], 1⟩]).1 =
    [some [⟨0, .integer⟩, ⟨1, .integer⟩], some [⟨1, .integer⟩, ⟨0, .integer⟩], some [⟨4, .integer⟩, ⟨5, .integer⟩]] := by decide
example : Determined ⟨[⟨0, .int64, some .int⟩, ⟨1, .str, some .str⟩], 2⟩ := by
  refine ⟨by decide, ?_⟩
  intro c hc
  simp at hc
  rcases hc with rfl | rfl
  · exact ⟨by decide, .int, rfl, rfl, by decide, by decide, by decide⟩
  · exact ⟨by decide, .str, rfl, rfl, by decide, by decide, by decide⟩
-- an empty frame is refused on a cold cache and labelled from the cache on a warm one (why `Determined` asks for rows)
example : (fromFrameRun snapIsInstance snapRank [] [⟨[⟨0, .float64, some .float⟩], 0⟩]).1 = [none] := by decide
example : (fromFrameRun snapIsInstance snapRank [] [⟨[⟨0, .float64, some .float⟩], 2⟩, ⟨[⟨0, .float64, some .float⟩], 0⟩]).1 =
    [some [⟨0, .float⟩], some [⟨0, .float⟩]] := by decide
example : (Tab.frame ⟨[[11, 21, 31], [12, 22, 32]], 3⟩).takeRows [2, 0] >>= (·.takeRows [0]) =
    some (.frame ⟨[[31], [32]], 1⟩) := by decide

/-! ### Round 5 — the pass-through branches of `Reader.__call__` / `Reader._cast`

`if indices:` is skipped for `None` (identical names) and `_cast` returns `data` itself when
`actual == expected`; with identical names and different kinds the dict comprehension runs over the
entry as it came (no `take_columns`), and leaves every column whose declared kind matches untouched. -/
section passthrough
variable {α : Type}

/-- **pass-through** — an entry that already carries the query's schema is handed over as it is: no
selection, no cast, no copy; whatever the payload (not even rectangular), the match relation, the cast,
released or repaired code. -/
theorem C15_passthrough (km : Kind → Kind → Bool) (cast : Kind → α → Option α) (legacy : Bool) (q : List Field)
    (data : Tab α) : readerCall km cast legacy q q data = .data data := by
  have hm := (C15_match_identical_iff (q.map (·.name)) (q.map (·.name))).mpr rfl
  unfold readerCall readerCallWith
  rw [hm]
  simp [castStep]

/-- **re-reading is idempotent** — what the reader delivered, labelled with the query's schema and read
again under the same query, comes back unchanged (the reader is a projection onto the query's schema). -/
theorem C15_reread (km : Kind → Kind → Bool) (cast : Kind → α → Option α) (legacy : Bool) (q e : List Field)
    (data out : Tab α) (_h : readerCall km cast legacy q e data = .data out) :
    readerCall km cast legacy q q out = .data out :=
  C15_passthrough km cast legacy q out

/-- **same names, same order** — `take_columns` is not called and the entry schema reaches `_cast`
un-permuted: the outcome is that of `_cast(expected, actual, entry.data)` alone. -/
theorem C15_same_names (km : Kind → Kind → Bool) (cast : Kind → α → Option α) (legacy : Bool) (q e : List Field)
    (data : Tab α) (hyp : e.map (·.name) = q.map (·.name)) :
    readerCall km cast legacy q e data =
      match castStep km cast (decide (e = q)) q e data with
      | none => .castError
      | some out => .data out := by
  have hm := (C15_match_identical_iff (q.map (·.name)) (e.map (·.name))).mpr hyp
  unfold readerCall readerCallWith
  rw [hm]
  rfl

/-- on that path the released and the repaired reader are the same function (the defect D16 needs a
re-ordering), for every payload and without any assumption on the outcome. -/
theorem C15_same_names_legacy_irrelevant (km : Kind → Kind → Bool) (cast : Kind → α → Option α) (q e : List Field)
    (data : Tab α) (hyp : e.map (·.name) = q.map (·.name)) :
    readerCall km cast true q e data = readerCall km cast false q e data := by
  rw [C15_same_names km cast true q e data hyp, C15_same_names km cast false q e data hyp]

/-- **no needless cast** — when every declared kind matches the kind of the entry field zipped with it,
the dict comprehension of `_cast` never calls `kind.cast` and never raises: the columns are re-labelled
with the query's names and otherwise the very lists they were. -/
theorem C15_kinds_match_untouched (km : Kind → Kind → Bool) (cast : Kind → α → Option α) (q e : List Field)
    (cols : List (List α))
    (hk : ∀ (j : Nat) (qf ef : Field), q[j]? = some qf → e[j]? = some ef → km qf.kind ef.kind = true) :
    castColumns km cast q e cols =
      some (List.zipWith (fun (p : Field × Field) c => (p.1.name, c)) (q.zip e) cols) := by
  induction q generalizing e cols with
  | nil => cases e <;> cases cols <;> simp [castColumns]
  | cons f fs ih =>
    cases e with
    | nil => simp [castColumns]
    | cons a as =>
      cases cols with
      | nil => simp [castColumns]
      | cons c cs =>
        have h0 : km f.kind a.kind = true := hk 0 f a rfl rfl
        have ih' := ih as cs (fun j qf ef h1 h2 => hk (j + 1) qf ef (by simpa using h1) (by simpa using h2))
        simp [castColumns, castColumn, h0, ih']

/-- … hence a request whose columns come in the query's order under kinds that all match is always
served (no `CastError`, no `MissingError`, whatever the cast would do), and the delivered columns are the
entry's own column lists. -/
theorem C15_kinds_match_served (km : Kind → Kind → Bool) (cast : Kind → α → Option α) (legacy : Bool) (q e : List Field)
    (data : Tab α) (hyp : e.map (·.name) = q.map (·.name))
    (hk : ∀ (j : Nat) (qf ef : Field), q[j]? = some qf → e[j]? = some ef → km qf.kind ef.kind = true) :
    ∃ out, readerCall km cast legacy q e data = .data out ∧
      (e = q → out = data) ∧
      (e ≠ q → out.toColumns =
        (List.zipWith (fun (p : Field × Field) c => (p.1.name, c)) (q.zip e) data.toColumns).map (·.2)) := by
  rw [C15_same_names km cast legacy q e data hyp]
  by_cases heq : e = q
  · exact ⟨data, by simp [castStep, heq], fun _ => rfl, fun h => absurd heq h⟩
  · refine ⟨frameOf (List.zipWith (fun (p : Field × Field) c => (p.1.name, c)) (q.zip e) data.toColumns), ?_,
      fun h => absurd h heq, fun _ => ?_⟩
    · simp [castStep, heq, C15_kinds_match_untouched km cast q e data.toColumns hk]
    · simp [frameOf, Tab.toColumns, Mat.toMajor]

end passthrough

example : readerCall kmatch (fun _ (v : Nat) => some (v + 100)) false [⟨1, .string⟩, ⟨2, .integer⟩] [⟨1, .string⟩, ⟨2, .integer⟩]
    (.dense ⟨[[5, 7], [6]], 2⟩) = .data (.dense ⟨[[5, 7], [6]], 2⟩) := by decide    -- untouched, even ragged
example : readerCall kmatch (fun _ (v : Nat) => some (v + 100)) false [⟨1, .string⟩, ⟨2, .integer⟩] [⟨1, .integer⟩, ⟨2, .integer⟩]
    (.dense ⟨[[5, 7]], 2⟩) = .data (.frame ⟨[[105], [7]], 1⟩) := by decide          -- same names, one kind differs: only it is cast
example : readerCall kmatch (fun _ (v : Nat) => some (v + 100)) false [⟨1, .date⟩, ⟨2, .integer⟩] [⟨1, .timestamp⟩, ⟨2, .integer⟩]
    (.dense ⟨[[5, 7]], 2⟩) = .data (.frame ⟨[[5], [7]], 1⟩) := by decide            -- every kind matches: no cell cast
example : castColumns kmatch (fun _ (_ : Nat) => none) [⟨1, .date⟩, ⟨2, .integer⟩] [⟨8, .timestamp⟩, ⟨9, .integer⟩] [[5], [7]] =
    some [(1, [5]), (2, [7])] := by decide                                          -- … even under a cast that always raises

end ForML.Entry
