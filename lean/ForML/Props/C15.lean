/-
C15 — Served entries reach the pipeline in the query's schema.
Property theorems only (small helper lemmas are `private theorem`s).
-/
import ForML.Model.Entry
import ForML.Generated.C15Kinds

namespace ForML.Entry

/-! ### helper: the last occurrence of a name -/

/-- position (offset by `i`) of the last occurrence of `c` in `e` -/
def lastIdx (c : Name) : List Name → Nat → Option Nat
  | [], _ => none
  | x :: r, i =>
    match lastIdx c r (i + 1) with
    | some k => some k
    | none => if x = c then some i else none

private theorem lastIdx_none (c : Name) (e : List Name) (i : Nat) : lastIdx c e i = none ↔ c ∉ e := by
  induction e generalizing i with
  | nil => simp [lastIdx]
  | cons x r ih =>
    simp only [lastIdx]
    cases h : lastIdx c r (i + 1) with
    | some k =>
      have : ¬ c ∉ r := fun hn => by rw [(ih (i + 1)).mpr hn] at h; cases h
      constructor
      · intro h'; cases h'
      · intro hn; exact absurd (fun hm => hn (List.mem_cons_of_mem _ hm)) this
    | none =>
      have hr := (ih (i + 1)).mp h
      by_cases hx : x = c
      · simp [hx]
      · simp [hx, hr]; exact fun h' => hx h'.symm

private theorem lastIdx_some (c : Name) (e : List Name) (i k : Nat) (h : lastIdx c e i = some k) :
    i ≤ k ∧ e[k - i]? = some c ∧ ∀ j, k - i < j → e[j]? ≠ some c := by
  induction e generalizing i with
  | nil => simp [lastIdx] at h
  | cons x r ih =>
    simp only [lastIdx] at h
    cases hr : lastIdx c r (i + 1) with
    | some k' =>
      rw [hr] at h; cases h
      obtain ⟨h1, h2, h3⟩ := ih (i + 1) hr
      refine ⟨by omega, ?_, ?_⟩
      · have : k - i = (k - (i + 1)) + 1 := by omega
        rw [this]; simpa using h2
      · intro j hj
        have : j = (j - 1) + 1 := by omega
        rw [this]; simp only [List.getElem?_cons_succ]
        exact h3 (j - 1) (by omega)
    | none =>
      rw [hr] at h
      by_cases hx : x = c
      · simp [hx] at h; subst h
        have hnot := (lastIdx_none c r (i + 1)).mp hr
        refine ⟨Nat.le_refl _, by simp [hx], ?_⟩
        intro j hj
        have : j = (j - 1) + 1 := by omega
        rw [this]; simp only [List.getElem?_cons_succ]
        intro hc
        exact hnot (List.mem_of_getElem? hc)
      · simp [hx] at h

/-! ### helper: the scanning loop of `_match_entry` -/

private theorem lookup_cons_none (d : Name) (i : Nat) (src : Source) :
    List.lookup (some d) ((none, i) :: src) = List.lookup (some d) src := by simp [List.lookup]

private theorem lookup_cons_some (d b : Name) (i : Nat) (src : Source) :
    List.lookup (some d) ((some b, i) :: src) = if d = b then some i else List.lookup (some d) src := by
  by_cases h : d = b
  · simp [List.lookup, h]
  · have : (d == b) = false := by simp [h]
    simp [List.lookup, h, this]

private theorem scan_some_nil (e : List Name) (i : Nat) (src : Source) (ident : Bool) (src' : Source)
    (ident' : Bool)
    (h : scan (e.map (fun b => ((none : Option Name), some b))) i src ident = some (src', ident')) :
    (∀ c, src'.lookup (some c) =
      match lastIdx c e i with | some k => some k | none => src.lookup (some c))
    ∧ ident' = (ident && decide (([] : List Name) = e)) := by
  induction e generalizing i src ident with
  | nil => simp [scan] at h; obtain ⟨rfl, rfl⟩ := h; simp [lastIdx]
  | cons b bs ih =>
    simp only [List.map_cons, scan] at h
    split at h
    · rename_i hc; simp at hc
    · obtain ⟨h1, h2⟩ := ih _ _ _ h
      refine ⟨?_, by simp [h2]⟩
      intro c; rw [h1 c]; simp only [lastIdx]
      cases lastIdx c bs (i + 1) with
      | some k => rfl
      | none =>
        by_cases hb : b = c
        · subst hb; simp [List.lookup]
        · have : (some c == some b) = false := by simp; exact fun h => hb h.symm
          simp [hb, List.lookup, this]

private theorem scan_none_nil (e : List Name) (i : Nat) (src : Source) (ident : Bool) :
    scan (e.map (fun b => ((none : Option Name), some b))) i src ident ≠ none := by
  induction e generalizing i src ident with
  | nil => simp [scan]
  | cons b bs ih =>
    simp only [List.map_cons, scan]
    split
    · rename_i hc; simp at hc
    · exact ih _ _ _

private theorem scan_some (q e : List Name) (i : Nat) (src : Source) (ident : Bool) (src' : Source)
    (ident' : Bool) (h : scan (zipLongest q e) i src ident = some (src', ident')) :
    (∀ c, src'.lookup (some c) =
      match lastIdx c e i with | some k => some k | none => src.lookup (some c))
    ∧ ident' = (ident && decide (q = e)) := by
  fun_induction zipLongest q e generalizing i src ident with
  | case1 bs => exact scan_some_nil bs i src ident src' ident' h
  | case2 a as ih =>
    simp only [scan] at h
    split at h
    · cases h
    · obtain ⟨h1, h2⟩ := ih _ _ _ h
      refine ⟨?_, by simp [h2]⟩
      intro c; rw [h1 c]; simp [lastIdx, List.lookup]
  | case3 a as b bs ih =>
    simp only [scan] at h
    split at h
    · rename_i hc; simp at hc
    · obtain ⟨h1, h2⟩ := ih _ _ _ h
      refine ⟨?_, ?_⟩
      · intro c; rw [h1 c]; simp only [lastIdx]
        cases lastIdx c bs (i + 1) with
        | some k => rfl
        | none =>
          by_cases hb : b = c
          · subst hb; simp [List.lookup]
          · have : (some c == some b) = false := by simp; exact fun h => hb h.symm
            simp [hb, List.lookup, this]
      · rw [h2]
        by_cases hab : a = b
        · subst hab; simp
        · have : ¬ b = a := fun h => hab h.symm
          simp [hab, this]

private theorem scan_none (q e : List Name) (i : Nat) (src : Source) (ident : Bool)
    (h : scan (zipLongest q e) i src ident = none) :
    ∃ d ∈ q, d ∉ e ∧ src.lookup (some d) = none := by
  fun_induction zipLongest q e generalizing i src ident with
  | case1 bs => exact absurd h (scan_none_nil bs i src ident)
  | case2 a as ih =>
    simp only [scan] at h
    split at h
    · rename_i hc
      simp only [Option.isNone_none, Bool.true_and, lookup_cons_none, Option.isNone_iff_eq_none] at hc
      exact ⟨a, by simp, by simp, hc⟩
    · obtain ⟨d, hd, _, hl⟩ := ih _ _ _ h
      rw [lookup_cons_none] at hl
      exact ⟨d, by simp [hd], by simp, hl⟩
  | case3 a as b bs ih =>
    simp only [scan] at h
    split at h
    · rename_i hc; simp at hc
    · obtain ⟨d, hd, hne, hl⟩ := ih _ _ _ h
      rw [lookup_cons_some] at hl
      split at hl
      · cases hl
      · rename_i hdb
        exact ⟨d, by simp [hd], by simp [hdb, hne], hl⟩

private theorem collect_some (src : Source) (e : List Name)
    (hsrc : ∀ c, src.lookup (some c) = lastIdx c e 0) (q : List Name) (idx : List Nat)
    (h : collect src q = some idx) :
    idx.length = q.length ∧ ∀ (j k : Nat), idx[j]? = some k → ∃ c, q[j]? = some c ∧ lastIdx c e 0 = some k := by
  induction q generalizing idx with
  | nil => simp [collect] at h; subst h; simp
  | cons c cs ih =>
    simp only [collect] at h
    split at h
    · cases h
    · rename_i i hi
      cases hc : collect src cs with
      | none => simp [hc] at h
      | some r =>
        simp [hc] at h; subst h
        obtain ⟨h1, h2⟩ := ih r hc
        refine ⟨by simp [h1], ?_⟩
        intro j k hj
        cases j with
        | zero => simp at hj; subst hj; exact ⟨c, by simp, by rw [← hsrc c]; exact hi⟩
        | succ j => simp at hj; simpa using h2 j k hj

private theorem collect_none (src : Source) (q : List Name) (h : collect src q = none) :
    ∃ c ∈ q, src.lookup (some c) = none := by
  induction q with
  | nil => simp [collect] at h
  | cons c cs ih =>
    simp only [collect] at h
    split at h
    · rename_i hn; exact ⟨c, by simp, hn⟩
    · cases hc : collect src cs with
      | none => obtain ⟨d, hd, hl⟩ := ih hc; exact ⟨d, by simp [hd], hl⟩
      | some r => simp [hc] at h

private theorem collect_isSome (src : Source) (q : List Name)
    (h : ∀ c ∈ q, (src.lookup (some c)).isSome) : (collect src q).isSome := by
  induction q with
  | nil => simp [collect]
  | cons c cs ih =>
    simp only [collect]
    have hc := h c (by simp)
    cases hl : src.lookup (some c) with
    | none => simp [hl] at hc
    | some i =>
      have := ih (fun d hd => h d (by simp [hd]))
      cases hr : collect src cs with
      | none => simp [hr] at this
      | some r => simp

/-- what `matchEntry` returns, in one place (used by the theorems below) -/
private theorem matchEntry_cases (q e : List Name) :
    (matchEntry q e = (false, none) ∧ ∃ c ∈ q, c ∉ e) ∨
    (matchEntry q e = (true, none) ∧ q = e) ∨
    (∃ idx, matchEntry q e = (true, some idx) ∧ q ≠ e ∧ idx.length = q.length ∧
      ∀ (j k : Nat), idx[j]? = some k → ∃ c, q[j]? = some c ∧ lastIdx c e 0 = some k) := by
  unfold matchEntry
  cases hs : scan (zipLongest q e) 0 [] true with
  | none =>
    obtain ⟨d, hd, hne, _⟩ := scan_none q e 0 [] true hs
    exact Or.inl ⟨rfl, d, hd, hne⟩
  | some p =>
    obtain ⟨src, ident⟩ := p
    obtain ⟨h1, h2⟩ := scan_some q e 0 [] true src ident hs
    have hsrc : ∀ c, src.lookup (some c) = lastIdx c e 0 := by
      intro c; rw [h1 c]; cases lastIdx c e 0 <;> simp [List.lookup]
    simp only [Bool.true_and] at h2
    by_cases hqe : q = e
    · simp [h2, hqe]
    · simp only [h2, hqe, decide_false, Bool.false_eq_true, if_false]
      cases hc : collect src q with
      | none =>
        obtain ⟨c, hc1, hc2⟩ := collect_none src q hc
        rw [hsrc c] at hc2
        exact Or.inl ⟨rfl, c, hc1, (lastIdx_none c e 0).mp hc2⟩
      | some idx =>
        obtain ⟨h3, h4⟩ := collect_some src e hsrc q idx hc
        exact Or.inr (Or.inr ⟨idx, rfl, hqe, h3, h4⟩)

/-! ### C15_match — `_match_entry` -/

/-- **refusal** — the entry is reported incomplete exactly when some query name is absent from it
(for *all* name lists: duplicates, extras, any order, any lengths). -/
theorem C15_match_refused_iff (q e : List Name) :
    (matchEntry q e).1 = false ↔ ∃ c ∈ q, c ∉ e := by
  rcases matchEntry_cases q e with ⟨h, hc⟩ | ⟨h, rfl⟩ | ⟨idx, h, _, hlen, hidx⟩
  · simp [h, hc]
  · simp [h]
  · simp only [h, Bool.true_eq_false, false_iff]
    rintro ⟨c, hc, hne⟩
    obtain ⟨j, hj⟩ := List.getElem?_of_mem hc
    have hj' : j < idx.length := by
      rw [hlen]; exact (List.getElem?_eq_some_iff.mp hj).1
    obtain ⟨c', hc', hl⟩ := hidx j idx[j] (by simp [hj'])
    rw [hj] at hc'; cases hc'
    rw [(lastIdx_none c e 0).mpr hne] at hl; cases hl

/-- every permutation or superset of the query names (in particular with duplicates, extras, in any
order) is accepted. -/
theorem C15_match_complete (q e : List Name) (h : ∀ c ∈ q, c ∈ e) : (matchEntry q e).1 = true := by
  cases hm : (matchEntry q e).1 with
  | true => rfl
  | false =>
    obtain ⟨c, hc, hne⟩ := (C15_match_refused_iff q e).mp hm
    exact absurd (h c hc) hne

/-- the `identical` shortcut: no index list is returned exactly when the entry names *are* the
query names in the query's order. -/
theorem C15_match_identical_iff (q e : List Name) : matchEntry q e = (true, none) ↔ e = q := by
  rcases matchEntry_cases q e with ⟨h, c, hc, hn⟩ | ⟨h, rfl⟩ | ⟨idx, h, hne, _⟩
  · simp [h]; rintro rfl; exact hn hc
  · simp [h]
  · simp [h]; exact fun h' => hne h'.symm

/-- **index derivation** — when an index list is returned it has the query's length and position `j`
points at an entry column carrying the `j`-th query name: `idx.map e.get = q`. -/
theorem C15_match_spec (q e : List Name) (idx : List Nat) (h : matchEntry q e = (true, some idx)) :
    idx.map (e[·]?) = q.map some := by
  rcases matchEntry_cases q e with ⟨h', _⟩ | ⟨h', _⟩ | ⟨idx', h', _, hlen, hidx⟩
  · rw [h'] at h; cases h
  · rw [h'] at h; cases h
  · rw [h'] at h; cases h
    apply List.ext_getElem?
    intro j
    simp only [List.getElem?_map]
    cases hj : idx[j]? with
    | none =>
      have : q[j]? = none := by
        rw [List.getElem?_eq_none_iff] at hj ⊢; omega
      simp [this]
    | some k =>
      obtain ⟨c, hc, hl⟩ := hidx j k hj
      obtain ⟨_, h2, _⟩ := lastIdx_some c e 0 k hl
      simp at h2
      simp [hc, h2]

/-- **duplicate names** — position `j` of the index list points at the **last** entry column carrying
the `j`-th query name (dict assignment overwrites): no later entry column has that name. For an entry
without duplicate names this is *the* column of that name. -/
theorem C15_duplicates (q e : List Name) (idx : List Nat) (h : matchEntry q e = (true, some idx))
    (j k : Nat) (hj : idx[j]? = some k) :
    ∃ c, q[j]? = some c ∧ e[k]? = some c ∧ ∀ k', k < k' → e[k']? ≠ some c := by
  rcases matchEntry_cases q e with ⟨h', _⟩ | ⟨h', _⟩ | ⟨idx', h', _, hlen, hidx⟩
  · rw [h'] at h; cases h
  · rw [h'] at h; cases h
  · rw [h'] at h; cases h
    obtain ⟨c, hc, hl⟩ := hidx j k hj
    obtain ⟨_, h2, h3⟩ := lastIdx_some c e 0 k hl
    exact ⟨c, hc, by simpa using h2, fun k' hk' => h3 k' (by omega)⟩

/-! ### helper lemmas: positional selection and transposition -/

section matrix
variable {α β : Type}

private theorem mapOpt_some {f : α → Option β} (xs : List α) (ys : List β) (h : mapOpt f xs = some ys) :
    ys.length = xs.length ∧ ∀ k : Nat, ys[k]? = xs[k]?.bind f := by
  induction xs generalizing ys with
  | nil => simp [mapOpt] at h; subst h; simp
  | cons x r ih =>
    simp only [mapOpt] at h
    split at h
    · rename_i b bs hb hbs
      cases h
      obtain ⟨h1, h2⟩ := ih bs hbs
      refine ⟨by simp [h1], ?_⟩
      intro k; cases k with
      | zero => simp [hb]
      | succ k => simpa using h2 k
    · cases h

private theorem mapOpt_none {f : α → Option β} (xs : List α) :
    mapOpt f xs = none ↔ ∃ x ∈ xs, f x = none := by
  induction xs with
  | nil => simp [mapOpt]
  | cons x r ih =>
    simp only [mapOpt]
    cases hx : f x with
    | none => simp [hx]
    | some b =>
      cases hr : mapOpt f r with
      | none => simp [hx]; exact ih.mp hr
      | some bs =>
        simp [hx]
        intro y hy hn
        have := ih.mpr ⟨y, hy, hn⟩
        rw [hr] at this; cases this

private theorem normIdx_lt (n : Nat) (i : Int) (k : Nat) (h : normIdx n i = some k) : k < n := by
  unfold normIdx at h
  split at h
  · split at h
    · cases h; assumption
    · cases h
  · split at h
    · cases h; omega
    · cases h

private theorem takeIdx_some (xs : List α) (is : List Int) (ys : List α) (h : takeIdx xs is = some ys) :
    ys.length = is.length ∧
    ∀ k : Nat, ys[k]? = is[k]?.bind (fun i => (normIdx xs.length i).bind (xs[·]?)) :=
  mapOpt_some is ys h

private theorem takeIdx_none (xs : List α) (is : List Int) :
    takeIdx xs is = none ↔ ∃ i ∈ is, normIdx xs.length i = none := by
  unfold takeIdx
  rw [mapOpt_none]
  constructor
  · rintro ⟨i, hi, hn⟩
    refine ⟨i, hi, ?_⟩
    cases hk : normIdx xs.length i with
    | none => rfl
    | some k =>
      have := normIdx_lt _ _ _ hk
      simp [hk, this] at hn
  · rintro ⟨i, hi, hn⟩
    exact ⟨i, hi, by simp [hn]⟩

private theorem takeIdx_mem (xs : List α) (is : List Int) (ys : List α) (h : takeIdx xs is = some ys) :
    ∀ y ∈ ys, y ∈ xs := by
  intro y hy
  obtain ⟨k, hk⟩ := List.getElem?_of_mem hy
  rw [(takeIdx_some xs is ys h).2 k] at hk
  cases hi : is[k]? with
  | none => simp [hi] at hk
  | some i =>
    simp only [hi, Option.bind_some] at hk
    cases hn : normIdx xs.length i with
    | none => simp [hn] at hk
    | some a => simp only [hn, Option.bind_some] at hk; exact List.mem_of_getElem? hk

private theorem column_spec (xs : List (List α)) (n j : Nat) (hwf : ∀ r ∈ xs, r.length = n) (hj : j < n) :
    (xs.filterMap (·[j]?)).length = xs.length ∧
    ∀ i : Nat, (xs.filterMap (·[j]?))[i]? = xs[i]?.bind (·[j]?) := by
  induction xs with
  | nil => simp
  | cons r rs ih =>
    have hr : r.length = n := hwf r (by simp)
    have hlt : j < r.length := by omega
    obtain ⟨h1, h2⟩ := ih (fun x hx => hwf x (by simp [hx]))
    have e : (r :: rs).filterMap (·[j]?) = r[j] :: rs.filterMap (·[j]?) := by
      simp [List.getElem?_eq_getElem hlt]
    rw [e]
    refine ⟨by simp [h1], ?_⟩
    intro i; cases i with
    | zero => simp [List.getElem?_eq_getElem hlt]
    | succ i => simpa using h2 i

private theorem transposeN_get (n : Nat) (xs : List (List α)) (j : Nat) :
    (transposeN n xs)[j]? = if j < n then some (xs.filterMap (·[j]?)) else none := by
  unfold transposeN
  by_cases h : j < n
  · simp [h]
  · simp [h]

private theorem transposeN_length (n : Nat) (xs : List (List α)) : (transposeN n xs).length = n := by
  simp [transposeN]

private theorem transposeN_wf (n : Nat) (xs : List (List α)) (hwf : ∀ r ∈ xs, r.length = n) :
    ∀ c ∈ transposeN n xs, c.length = xs.length := by
  intro c hc
  obtain ⟨j, hj⟩ := List.getElem?_of_mem hc
  rw [transposeN_get] at hj
  split at hj
  · rename_i hlt; cases hj; exact (column_spec xs n j hwf hlt).1
  · cases hj

/-- cell `(i, j)` of the matrix is cell `(j, i)` of its transpose -/
private theorem transposeN_cell (n : Nat) (xs : List (List α)) (hwf : ∀ r ∈ xs, r.length = n) (i j : Nat) :
    (transposeN n xs)[j]?.bind (·[i]?) = xs[i]?.bind (·[j]?) := by
  rw [transposeN_get]
  split
  · rename_i hlt; simp only [Option.bind_some]; exact (column_spec xs n j hwf hlt).2 i
  · rename_i hge
    cases hi : xs[i]? with
    | none => simp
    | some r =>
      have := hwf r (List.mem_of_getElem? hi)
      simp only [Option.bind_none, Option.bind_some]
      symm; rw [List.getElem?_eq_none_iff]; omega

end matrix

/-! ### C15_matrix — Dense and Frame agree with plain matrix semantics -/

section tabular
variable {α : Type}

private theorem Mat.toMinor_cell (m : Mat α) (h : m.WF) (a b : Nat) :
    m.toMinor[b]?.bind (·[a]?) = m.cell a b := transposeN_cell m.minor m.major h a b

private theorem Mat.takeMajor_spec (m : Mat α) (h : m.WF) (is : List Int) (t : Mat α)
    (ht : m.takeMajor is = some t) :
    t.WF ∧ t.minor = m.minor ∧ t.major.length = is.length ∧
    ∀ (k : Nat) (ι : Int) (a : Nat), is[k]? = some ι → normIdx m.major.length ι = some a →
      ∀ b, t.cell k b = m.cell a b := by
  unfold Mat.takeMajor at ht
  cases hx : takeIdx m.major is with
  | none => simp [hx] at ht
  | some xs =>
    simp [hx] at ht; subst ht
    obtain ⟨h1, h2⟩ := takeIdx_some m.major is xs hx
    refine ⟨fun r hr => h r (takeIdx_mem _ _ _ hx r hr), rfl, h1, ?_⟩
    intro k ι a hk ha b
    simp only [Mat.cell]
    rw [h2 k, hk]; simp [ha]

private theorem Mat.takeMinor_spec (m : Mat α) (h : m.WF) (js : List Int) (t : Mat α)
    (ht : m.takeMinor js = some t) :
    t.WF ∧ t.minor = js.length ∧ t.major.length = m.major.length ∧
    ∀ (k : Nat) (ι : Int) (b : Nat), js[k]? = some ι → normIdx m.minor ι = some b →
      ∀ a, t.cell a k = m.cell a b := by
  unfold Mat.takeMinor at ht
  cases hx : takeIdx (transposeN m.minor m.major) js with
  | none => simp [hx] at ht
  | some cs =>
    simp [hx] at ht; subst ht
    obtain ⟨h1, h2⟩ := takeIdx_some _ js cs hx
    have hcs : ∀ c ∈ cs, c.length = m.major.length := fun c hc =>
      transposeN_wf m.minor m.major h c (takeIdx_mem _ _ _ hx c hc)
    refine ⟨?_, rfl, transposeN_length _ _, ?_⟩
    · intro r hr
      have := transposeN_wf m.major.length cs hcs r hr
      simp only; omega
    · intro k ι b hk hb a
      simp only [Mat.cell]
      rw [transposeN_cell m.major.length cs hcs k a, h2 k, hk]
      simp only [Option.bind_some, transposeN_length, hb]
      exact transposeN_cell m.minor m.major h a b

/-- **views** — for both implementations `to_rows()[i][j]` and `to_columns()[j][i]` are the matrix
cell `(i, j)`: `to_columns = transpose ∘ to_rows`; and the views have `nrows` resp. `ncols` items. -/
theorem C15_matrix_views (t : Tab α) (h : t.WF) (i j : Nat) :
    t.toRows[i]?.bind (·[j]?) = t.get i j ∧ t.toColumns[j]?.bind (·[i]?) = t.get i j := by
  cases t with
  | dense d => exact ⟨rfl, Mat.toMinor_cell d h i j⟩
  | frame f => exact ⟨Mat.toMinor_cell f h j i, rfl⟩

/-- **take_rows** — the result is rectangular with one row per index and row `k` is row
`is[k]` (negative indices counted from the end) of the original, in both implementations. -/
theorem C15_take_rows (t r : Tab α) (h : t.WF) (is : List Int) (hr : t.takeRows is = some r) :
    r.WF ∧ r.nrows = is.length ∧ r.ncols = t.ncols ∧
    ∀ (k : Nat) (ι : Int) (i : Nat), is[k]? = some ι → normIdx t.nrows ι = some i →
      ∀ j, r.get k j = t.get i j := by
  cases t with
  | dense d =>
    simp only [Tab.takeRows] at hr
    cases hm : d.takeMajor is with
    | none => simp [hm] at hr
    | some m =>
      simp [hm] at hr; subst hr
      obtain ⟨h1, h2, h3, h4⟩ := Mat.takeMajor_spec d h is m hm
      exact ⟨h1, h3, h2, h4⟩
  | frame f =>
    simp only [Tab.takeRows] at hr
    cases hm : f.takeMinor is with
    | none => simp [hm] at hr
    | some m =>
      simp [hm] at hr; subst hr
      obtain ⟨h1, h2, h3, h4⟩ := Mat.takeMinor_spec f h is m hm
      exact ⟨h1, h2, h3, fun k ι i hk hi j => h4 k ι i hk hi j⟩

/-- **take_columns** — dually: column `k` of the result is column `js[k]` of the original. -/
theorem C15_take_columns (t r : Tab α) (h : t.WF) (js : List Int) (hr : t.takeColumns js = some r) :
    r.WF ∧ r.ncols = js.length ∧ r.nrows = t.nrows ∧
    ∀ (k : Nat) (ι : Int) (j : Nat), js[k]? = some ι → normIdx t.ncols ι = some j →
      ∀ i, r.get i k = t.get i j := by
  cases t with
  | dense d =>
    simp only [Tab.takeColumns] at hr
    cases hm : d.takeMinor js with
    | none => simp [hm] at hr
    | some m =>
      simp [hm] at hr; subst hr
      obtain ⟨h1, h2, h3, h4⟩ := Mat.takeMinor_spec d h js m hm
      exact ⟨h1, h2, h3, h4⟩
  | frame f =>
    simp only [Tab.takeColumns] at hr
    cases hm : f.takeMajor js with
    | none => simp [hm] at hr
    | some m =>
      simp [hm] at hr; subst hr
      obtain ⟨h1, h2, h3, h4⟩ := Mat.takeMajor_spec f h js m hm
      exact ⟨h1, h3, h2, fun k ι j hk hj i => h4 k ι j hk hj i⟩

/-- **IndexError** — a selection fails exactly when some index is outside `[-n, n)`. -/
theorem C15_take_error (t : Tab α) (is : List Int) :
    (t.takeRows is = none ↔ ∃ ι ∈ is, normIdx t.nrows ι = none) ∧
    (t.takeColumns is = none ↔ ∃ ι ∈ is, normIdx t.ncols ι = none) := by
  cases t with
  | dense d =>
    simp only [Tab.takeRows, Tab.takeColumns, Mat.takeMajor, Mat.takeMinor, Option.map_eq_none_iff,
      Tab.nrows, Tab.ncols]
    exact ⟨takeIdx_none _ _, by rw [takeIdx_none, transposeN_length]⟩
  | frame f =>
    simp only [Tab.takeRows, Tab.takeColumns, Mat.takeMajor, Mat.takeMinor, Option.map_eq_none_iff,
      Tab.nrows, Tab.ncols]
    exact ⟨by rw [takeIdx_none, transposeN_length], takeIdx_none _ _⟩

private theorem normIdx_ofNat (n k : Nat) (h : k < n) : normIdx n (Int.ofNat k) = some k := by
  simp [normIdx, h]

private theorem Tab.toColumns_length (t : Tab α) : t.toColumns.length = t.ncols := by
  cases t with
  | dense d => simp [Tab.toColumns, Tab.ncols, Mat.toMinor, transposeN_length]
  | frame f => rfl

/-! ### C15_slicer -/

/-- **Slicer.apply** — with the positions it was built with (any index lists), the first output is the
rows of the feature columns and the second the label column (scalar) or the rows of the label
columns (vector): cell `(i, k)` of an output is cell `(i, positions[k])` of the dataset. -/
theorem C15_slicer (t : Tab α) (h : t.WF) (fs : List Int) (ls : Int ⊕ List Int)
    (f : List (List α)) (lab : List α ⊕ List (List α)) (hs : slicer fs ls t = some (f, lab)) :
    (∀ (k : Nat) (ι : Int) (j : Nat), fs[k]? = some ι → normIdx t.ncols ι = some j →
        ∀ i, f[i]?.bind (·[k]?) = t.get i j) ∧
    (match ls, lab with
     | .inl l, .inl c => ∀ j, normIdx t.ncols l = some j → ∀ i : Nat, c[i]? = t.get i j
     | .inr js, .inr rows => ∀ (k : Nat) (ι : Int) (j : Nat), js[k]? = some ι →
          normIdx t.ncols ι = some j → ∀ i, rows[i]?.bind (·[k]?) = t.get i j
     | _, _ => False) := by
  unfold slicer at hs
  cases hf : t.takeColumns fs with
  | none => simp [hf] at hs
  | some ft =>
    simp only [hf] at hs
    obtain ⟨fwf, _, _, fcell⟩ := C15_take_columns t ft h fs hf
    have hfeat : ∀ (k : Nat) (ι : Int) (j : Nat), fs[k]? = some ι → normIdx t.ncols ι = some j →
        ∀ i, ft.toRows[i]?.bind (·[k]?) = t.get i j := by
      intro k ι j hk hj i
      rw [(C15_matrix_views ft fwf i k).1]; exact fcell k ι j hk hj i
    cases ls with
    | inl l =>
      simp only at hs
      cases hc : (normIdx t.toColumns.length l).bind (t.toColumns[·]?) with
      | none => simp [hc] at hs
      | some c =>
        simp [hc] at hs
        obtain ⟨rfl, rfl⟩ := hs
        refine ⟨hfeat, ?_⟩
        intro j hj i
        rw [Tab.toColumns_length, hj] at hc
        simp only [Option.bind_some] at hc
        have := (C15_matrix_views t h i j).2
        rw [hc] at this; simpa using this
    | inr js =>
      simp only at hs
      cases hl : t.takeColumns js with
      | none => simp [hl] at hs
      | some lt =>
        simp [hl] at hs
        obtain ⟨rfl, rfl⟩ := hs
        obtain ⟨lwf, _, _, lcell⟩ := C15_take_columns t lt h js hl
        refine ⟨hfeat, ?_⟩
        intro k ι j hk hj i
        rw [(C15_matrix_views lt lwf i k).1]; exact lcell k ι j hk hj i

/-- **Slicer.from_columns** — the positions are `0 … n-1` for the features and `n` (scalar label) or
`n … n+k-1` (label vector): the combined column list `(*features, *labels)` is split back exactly. -/
theorem C15_slicer_positions (nf : Nat) (nl : Option Nat) :
    (∀ k, k < nf → (slicerPositions nf nl).1[k]? = some (Int.ofNat k)) ∧
    (slicerPositions nf nl).1.length = nf ∧
    (match nl with
     | none => (slicerPositions nf nl).2 = .inl (Int.ofNat nf)
     | some n => ∃ js, (slicerPositions nf nl).2 = .inr js ∧ js.length = n ∧
          ∀ k, k < n → js[k]? = some (Int.ofNat (nf + k))) := by
  refine ⟨?_, by simp [slicerPositions], ?_⟩
  · intro k hk; simp [slicerPositions, hk]
  · cases nl with
    | none => rfl
    | some n => exact ⟨_, rfl, by simp, by intro k hk; simp [hk]⟩

/-! ### C15_cast — `Reader.__call__` / `Reader._cast` -/

private theorem castColumns_get (cast : Kind → α → α) (es as : List Field) (cs : List (List α)) (j : Nat) :
    (castColumns cast es as cs)[j]? =
      (es[j]?).bind fun e => (as[j]?).bind fun a => (cs[j]?).map fun c =>
        (e.name, if kmatch e.kind a.kind then c else c.map (cast e.kind)) := by
  induction es generalizing as cs j with
  | nil => simp [castColumns]
  | cons e es ih =>
    cases as with
    | nil => simp [castColumns]
    | cons a as =>
      cases cs with
      | nil => simp [castColumns]
      | cons c cs =>
        cases j with
        | zero => simp [castColumns]
        | succ j => simp [castColumns, ih]

private theorem castColumns_length (cast : Kind → α → α) (es as : List Field) (cs : List (List α)) :
    (castColumns cast es as cs).length = min es.length (min as.length cs.length) := by
  induction es generalizing as cs with
  | nil => simp [castColumns]
  | cons e es ih =>
    cases as with
    | nil => simp [castColumns]
    | cons a as =>
      cases cs with
      | nil => simp [castColumns]
      | cons c cs => simp [castColumns, ih]

private theorem filterMap_total {β γ : Type} (f : β → Option γ) (xs : List β)
    (h : ∀ x ∈ xs, (f x).isSome) :
    (xs.filterMap f).length = xs.length ∧ ∀ j : Nat, (xs.filterMap f)[j]? = xs[j]?.bind f := by
  induction xs with
  | nil => simp
  | cons x r ih =>
    obtain ⟨h1, h2⟩ := ih (fun y hy => h y (by simp [hy]))
    have hx := h x (by simp)
    cases hf : f x with
    | none => simp [hf] at hx
    | some b =>
      rw [List.filterMap_cons_some hf]
      refine ⟨by simp [h1], ?_⟩
      intro j; cases j with
      | zero => simp [hf]
      | succ j => simpa using h2 j

private theorem kmatch_refl (k : Kind) : kmatch k k = true := by cases k <;> rfl

/-- What the pipeline must receive: exactly the query's columns in the query's order; column `j` is
an entry column `k` carrying the `j`-th query name, every cell cast to the query's kind unless the
entry kind already is of that kind. (Cell-level, i.e. plain matrix semantics of the delivered
payload; `none = none` beyond the last row.) -/
def Delivered (cast : Kind → α → α) (pair : Nat → Nat → Nat) (q e : List Field) (data out : Tab α) : Prop :=
  out.ncols = q.length ∧
  ∀ (j : Nat) (qf : Field), q[j]? = some qf →
    ∃ (k : Nat) (ef pf : Field), e[k]? = some ef ∧ ef.name = qf.name ∧ e[pair j k]? = some pf ∧
      ∀ i, out.get i j =
        (data.get i k).map (fun v => if kmatch qf.kind pf.kind then v else cast qf.kind v)

private theorem frameOf_get (cols : List (Name × List α)) (i j : Nat) :
    (frameOf cols).get i j = (cols[j]?).bind (·.2[i]?) := by
  simp [frameOf, Tab.get, Mat.cell, List.getElem?_map]
  cases cols[j]? <;> rfl

private theorem frameOf_ncols (cols : List (Name × List α)) : (frameOf cols).ncols = cols.length := by
  simp [frameOf, Tab.ncols]

/-- the non-permuted branch (`indices` is `None` or `()`): names agree position by position -/
private theorem deliver_identity (cast : Kind → α → α) (pair : Nat → Nat → Nat) (hp : ∀ j, pair j j = j)
    (q e : List Field) (data : Tab α)
    (hwf : data.WF) (hlen : data.ncols = e.length) (hn : e.map (·.name) = q.map (·.name)) :
    Delivered cast pair q e data (castStep cast (decide (e = q)) q e data) := by
  have hl : e.length = q.length := by simpa using congrArg List.length hn
  have hname : ∀ (j : Nat) (qf : Field), q[j]? = some qf → ∃ ef, e[j]? = some ef ∧ ef.name = qf.name := by
    intro j qf hj
    have := congrArg (·[j]?) hn
    simp only [List.getElem?_map, hj, Option.map_some] at this
    cases he : e[j]? with
    | none => simp [he] at this
    | some ef => simp [he] at this; exact ⟨ef, rfl, this⟩
  unfold castStep
  by_cases heq : e = q
  · subst heq
    simp only [decide_true, if_true]
    refine ⟨hlen, ?_⟩
    intro j qf hj
    refine ⟨j, qf, qf, hj, rfl, by rw [hp]; exact hj, ?_⟩
    intro i; simp [kmatch_refl]
  · simp only [heq, decide_false, Bool.false_eq_true, if_false]
    refine ⟨?_, ?_⟩
    · rw [frameOf_ncols, castColumns_length, Tab.toColumns_length, hlen, hl]; simp
    · intro j qf hj
      obtain ⟨ef, he, hnm⟩ := hname j qf hj
      refine ⟨j, ef, ef, he, hnm, by rw [hp]; exact he, ?_⟩
      intro i
      rw [frameOf_get, castColumns_get, hj, he]
      simp only [Option.bind_some]
      have hv := (C15_matrix_views data hwf i j).2
      cases hc : data.toColumns[j]? with
      | none => rw [hc] at hv; simp at hv; simp [← hv]
      | some c =>
        rw [hc] at hv; simp only [Option.bind_some] at hv
        simp only [Option.map_some, Option.bind_some]
        rw [← hv]
        split <;> simp

/-- the permuted branch; `actual` is the field list handed to `_cast` next to the re-ordered data and
`pair j k` says which entry field sits at its position `j` -/
private theorem deliver_permuted (cast : Kind → α → α) (pair : Nat → Nat → Nat) (q e actual : List Field)
    (data d : Tab α) (idx : List Nat)
    (hwf : data.WF) (hlen : data.ncols = e.length)
    (hidx : idx.map ((e.map (·.name))[·]?) = (q.map (·.name)).map some)
    (hd : data.takeColumns (idx.map Int.ofNat) = some d)
    (hal : q.length ≤ actual.length)
    (hap : ∀ (j k : Nat), idx[j]? = some k → actual[j]? = e[pair j k]?) :
    Delivered cast pair q e data (castStep cast false q actual d) := by
  have hl : idx.length = q.length := by simpa using congrArg List.length hidx
  have hk : ∀ (j : Nat) (qf : Field), q[j]? = some qf →
      ∃ k ef, idx[j]? = some k ∧ e[k]? = some ef ∧ ef.name = qf.name := by
    intro j qf hj
    have := congrArg (·[j]?) hidx
    simp only [List.getElem?_map, hj, Option.map_some] at this
    cases hi : idx[j]? with
    | none => simp [hi] at this
    | some k =>
      simp [hi] at this
      obtain ⟨ef, he, hnm⟩ := this
      exact ⟨k, ef, rfl, he, hnm⟩
  obtain ⟨dwf, dnc, _, dcell⟩ := C15_take_columns data d hwf _ hd
  simp only [castStep, Bool.false_eq_true, if_false]
  refine ⟨?_, ?_⟩
  · rw [frameOf_ncols, castColumns_length, Tab.toColumns_length, dnc, List.length_map, hl]; omega
  · intro j qf hj
    obtain ⟨k, ef, hi, he, hnm⟩ := hk j qf hj
    have hjl : j < actual.length := by
      have := (List.getElem?_eq_some_iff.mp hj).1; omega
    obtain ⟨pf, hpf⟩ : ∃ pf, actual[j]? = some pf := ⟨actual[j], by simp [hjl]⟩
    refine ⟨k, ef, pf, he, hnm, by rw [← hap j k hi]; exact hpf, ?_⟩
    intro i
    have hkl : k < data.ncols := by rw [hlen]; exact (List.getElem?_eq_some_iff.mp he).1
    have hcell := dcell j (Int.ofNat k) k (by simp [List.getElem?_map, hi]) (normIdx_ofNat _ _ hkl) i
    rw [frameOf_get, castColumns_get, hj, hpf]
    simp only [Option.bind_some]
    have hv := (C15_matrix_views d dwf i j).2
    rw [hcell] at hv
    cases hc : d.toColumns[j]? with
    | none => rw [hc] at hv; simp at hv; simp [← hv]
    | some c =>
      rw [hc] at hv; simp only [Option.bind_some] at hv
      simp only [Option.map_some, Option.bind_some]
      rw [← hv]
      split <;> simp

/-- indices returned by `_match_entry` are valid positions of the entry -/
private theorem idx_in_range (q e : List Field) (idx : List Nat)
    (hidx : idx.map ((e.map (·.name))[·]?) = (q.map (·.name)).map some) :
    ∀ k ∈ idx, k < e.length := by
  intro k hk
  obtain ⟨j, hj⟩ := List.getElem?_of_mem hk
  have := congrArg (·[j]?) hidx
  simp only [List.getElem?_map, hj, Option.map_some] at this
  cases he : e[k]? with
  | none =>
    simp [he] at this
    cases hq : q[j]? with
    | none => simp [hq] at this
    | some qf => simp [hq] at this
  | some ef => exact (List.getElem?_eq_some_iff.mp he).1

private theorem take_ok (e : List Field) (data : Tab α) (idx : List Nat) (hlen : data.ncols = e.length)
    (hin : ∀ k ∈ idx, k < e.length) : (data.takeColumns (idx.map Int.ofNat)).isSome := by
  cases hd : data.takeColumns (idx.map Int.ofNat) with
  | some d => rfl
  | none =>
    obtain ⟨ι, hι, hn⟩ := (C15_take_error data _).2.mp hd
    obtain ⟨k, hk, rfl⟩ := List.mem_map.mp hι
    rw [normIdx_ofNat _ _ (by rw [hlen]; exact hin k hk)] at hn; cases hn

/-- **refusal** — `Reader.__call__` raises `MissingError` exactly when the entry lacks a query column
(both for the released and the repaired code; nothing is padded). -/
theorem C15_refusal (cast : Kind → α → α) (legacy : Bool) (q e : List Field) (data : Tab α) :
    readerCall cast legacy q e data = .missing ↔ ∃ c ∈ q.map (·.name), c ∉ e.map (·.name) := by
  rw [← C15_match_refused_iff]
  unfold readerCall
  cases hm : matchEntry (q.map (·.name)) (e.map (·.name)) with
  | mk b o =>
    cases b with
    | false => simp
    | true =>
      cases o with
      | none => simp
      | some idx =>
        cases idx with
        | nil => simp
        | cons i is =>
          simp only
          cases data.takeColumns ((i :: is).map Int.ofNat) <;> simp

/-- `take_columns(indices)` never raises on a payload as wide as its schema. -/
theorem C15_no_index_error (cast : Kind → α → α) (legacy : Bool) (q e : List Field) (data : Tab α)
    (hlen : data.ncols = e.length) : readerCall cast legacy q e data ≠ .indexError := by
  unfold readerCall
  cases hm : matchEntry (q.map (·.name)) (e.map (·.name)) with
  | mk b o =>
    cases b with
    | false => simp
    | true =>
      cases o with
      | none => simp
      | some idx =>
        cases idx with
        | nil => simp
        | cons i is =>
          simp only
          have := take_ok e data (i :: is) hlen (idx_in_range q e _ (C15_match_spec _ _ _ hm))
          cases hd : data.takeColumns ((i :: is).map Int.ofNat) with
          | none => rw [hd] at this; cases this
          | some d => simp

/-- common skeleton of the two `Delivered` theorems -/
private theorem reader_delivers (cast : Kind → α → α) (legacy : Bool) (pair : Nat → Nat → Nat)
    (hp : ∀ j, pair j j = j) (q e : List Field) (data out : Tab α)
    (hwf : data.WF) (hlen : data.ncols = e.length)
    (hal : ∀ idx, q.length ≤ (actualFields legacy e idx).length ∨ idx.length ≠ q.length ∨ ∃ k ∈ idx, ¬ k < e.length)
    (hap : ∀ (idx : List Nat) (j k : Nat), idx[j]? = some k → k < e.length →
      (actualFields legacy e idx)[j]? = e[pair j k]? ∨ ∃ k ∈ idx, ¬ k < e.length)
    (h : readerCall cast legacy q e data = .data out) : Delivered cast pair q e data out := by
  unfold readerCall at h
  cases hm : matchEntry (q.map (·.name)) (e.map (·.name)) with
  | mk b o =>
    rw [hm] at h
    cases b with
    | false => simp at h
    | true =>
      cases o with
      | none =>
        simp only [Outcome.data.injEq] at h; subst h
        exact deliver_identity cast pair hp q e data hwf hlen ((C15_match_identical_iff _ _).mp hm)
      | some idx =>
        have hspec := C15_match_spec _ _ _ hm
        cases idx with
        | nil =>
          simp only [Outcome.data.injEq] at h; subst h
          have hq : q = [] := by
            have := congrArg List.length hspec; simp at this; exact List.eq_nil_of_length_eq_zero this.symm
          subst hq
          refine ⟨?_, by intro j qf hj; simp at hj⟩
          unfold castStep
          split
          · rename_i he; simp at he; subst he; simpa using hlen
          · simp [frameOf_ncols, castColumns]
        | cons i is =>
          simp only at h
          have hin := idx_in_range q e _ hspec
          cases hd : data.takeColumns ((i :: is).map Int.ofNat) with
          | none => rw [hd] at h; cases h
          | some d =>
            rw [hd] at h; simp only [Outcome.data.injEq] at h; subst h
            have hl : (i :: is).length = q.length := by simpa using congrArg List.length hspec
            refine deliver_permuted cast pair q e _ data d (i :: is) hwf hlen hspec hd ?_ ?_
            · rcases hal (i :: is) with h1 | h2 | ⟨k, hk, hn⟩
              · exact h1
              · exact absurd hl h2
              · exact absurd (hin k hk) hn
            · intro j k hj
              have hkl : k < e.length := hin k (List.mem_of_getElem? hj)
              rcases hap (i :: is) j k hj hkl with h1 | ⟨k', hk', hn⟩
              · exact h1
              · exact absurd (hin k' hk') hn

/-- **C15_cast** (repaired code, fixes/C15-cast-permuted-schema.diff) — for every query schema, entry
schema and rectangular payload of the entry's width, in both tabular implementations: if data is
delivered it has exactly the query's columns in the query's order, column `j` is an entry column `k`
named like query field `j`, and its cells are cast to the query kind exactly when that kind does not
match the kind of **that entry column** (`pair j k = k`). -/
theorem C15_cast (cast : Kind → α → α) (q e : List Field) (data out : Tab α)
    (hwf : data.WF) (hlen : data.ncols = e.length)
    (h : readerCall cast false q e data = .data out) :
    Delivered cast (fun _ k => k) q e data out := by
  refine reader_delivers cast false (fun _ k => k) (fun _ => rfl) q e data out hwf hlen ?_ ?_ h
  · intro idx
    by_cases hin : ∀ k ∈ idx, k < e.length
    · by_cases hl : idx.length = q.length
      · left
        have := (filterMap_total (e[·]?) idx (fun k hk => by simp [hin k hk])).1
        simp only [actualFields, Bool.false_eq_true, if_false]; omega
      · exact Or.inr (Or.inl hl)
    · right; right
      have : ∃ k, k ∈ idx ∧ ¬ k < e.length := by
        apply Classical.byContradiction; intro hc; apply hin; intro k hk
        apply Classical.byContradiction; intro hk'; exact hc ⟨k, hk, hk'⟩
      exact this
  · intro idx j k hj hk
    by_cases hin : ∀ k ∈ idx, k < e.length
    · left
      have := (filterMap_total (e[·]?) idx (fun k hk => by simp [hin k hk])).2 j
      simp only [actualFields, Bool.false_eq_true, if_false]
      rw [this, hj]; rfl
    · right
      apply Classical.byContradiction; intro hc; apply hin; intro k hk
      apply Classical.byContradiction; intro hk'; exact hc ⟨k, hk, hk'⟩

/-- **C15_cast_legacy** (the code as released, defect D16 characterised) — the same, except that the
kind deciding the cast of delivered column `j` is the kind of entry field **`j`** (`pair j k = j`),
not of the entry column `k` that was delivered. -/
theorem C15_cast_legacy (cast : Kind → α → α) (q e : List Field) (data out : Tab α)
    (hwf : data.WF) (hlen : data.ncols = e.length) (hq : q.length ≤ e.length)
    (h : readerCall cast true q e data = .data out) :
    Delivered cast (fun j _ => j) q e data out := by
  refine reader_delivers cast true (fun j _ => j) (fun _ => rfl) q e data out hwf hlen ?_ ?_ h
  · intro idx; left; simpa [actualFields] using hq
  · intro idx j k _ _; left; simp [actualFields]

/-- the statement at full strength for the released code -/
def C15_cast_legacy_full : Prop :=
  ∀ (α : Type) (cast : Kind → α → α) (q e : List Field) (data out : Tab α),
    data.WF → data.ncols = e.length → readerCall cast true q e data = .data out →
    Delivered cast (fun _ k => k) q e data out

/-- kinds of the entry are all the same -/
def homogeneous (e : List Field) : Bool :=
  e.all (fun f => f.kind == ((e.head?).map (·.kind)).getD .integer)

/-- **partial** — the released code is right whenever the entry columns come in the query's order
(names agree position by position) or all entry columns have one kind. -/
theorem C15_cast_legacy_partial (cast : Kind → α → α) (q e : List Field) (data out : Tab α)
    (hwf : data.WF) (hlen : data.ncols = e.length) (hq : q.length ≤ e.length)
    (hyp : homogeneous e = true)
    (h : readerCall cast true q e data = .data out) :
    Delivered cast (fun _ k => k) q e data out := by
  obtain ⟨h1, h2⟩ := C15_cast_legacy cast q e data out hwf hlen hq h
  refine ⟨h1, ?_⟩
  intro j qf hj
  obtain ⟨k, ef, pf, he, hn, hp, hc⟩ := h2 j qf hj
  refine ⟨k, ef, ef, he, hn, he, ?_⟩
  have hk : pf.kind = ef.kind := by
    simp only [homogeneous, List.all_eq_true, beq_iff_eq] at hyp
    rw [hyp pf (List.mem_of_getElem? hp), hyp ef (List.mem_of_getElem? he)]
  intro i; rw [hc i, hk]

theorem C15_cast_legacy_partial_identity (cast : Kind → α → α) (q e : List Field) (data out : Tab α)
    (hwf : data.WF) (hlen : data.ncols = e.length) (hyp : e.map (·.name) = q.map (·.name))
    (h : readerCall cast true q e data = .data out) :
    Delivered cast (fun _ k => k) q e data out := by
  have hm := (C15_match_identical_iff (q.map (·.name)) (e.map (·.name))).mpr hyp
  unfold readerCall at h
  rw [hm] at h
  simp only [Outcome.data.injEq] at h; subst h
  exact deliver_identity cast _ (fun _ => rfl) q e data hwf hlen hyp

/-- **counterexample (D16)** — query `(a : string)`, entry `(b : string, a : integer)`, one row
`b = 5, a = 7`: the released code delivers `7` as is (the cast is decided by `b`'s kind) where the
query declares a string. Values are naturals, "cast" is `+ 100` to make it visible. -/
theorem C15_cast_legacy_counterexample : ¬ C15_cast_legacy_full := by
  intro hfull
  have h := hfull Nat (fun _ v => v + 100) [⟨0, .string⟩] [⟨1, .string⟩, ⟨0, .integer⟩]
    (.dense ⟨[[5, 7]], 2⟩) (.frame ⟨[[7]], 1⟩)
    (by intro r hr; simp at hr; subst hr; rfl) rfl (by decide)
  obtain ⟨_, h2⟩ := h
  obtain ⟨k, ef, pf, he, hn, hp, hc⟩ := h2 0 ⟨0, .string⟩ rfl
  match k, he, hp with
  | 0, he, _ => simp at he; subst he; simp at hn
  | 1, he, hp =>
    simp at hp; subst hp
    have := hc 0
    simp [Tab.get, Mat.cell, kmatch] at this
  | k + 2, he, _ => simp at he

/-! ### the kind lattice, re-checked against the live classes -/

/-- `kmatch` of the model is the `match` relation extracted from the imported kind classes. -/
theorem C15_kind_table : ∀ a b : Kind, kmatch a b = ForML.Generated.C15Kinds.liveMatch a b := by
  intro a b; cases a <;> cases b <;> rfl

/-- the primitive kinds the model knows are the ones the module defines -/
theorem C15_kind_names : ForML.Generated.C15Kinds.primitiveKinds =
    ["Boolean", "Date", "Decimal", "Float", "Integer", "String", "Timestamp"] := by decide

end tabular

/-! ### non-vacuity (tests on concrete objects, not part of the claim) -/

example : matchEntry [1, 2, 3] [3, 9, 1, 2] = (true, some [2, 3, 0]) := by decide
example : matchEntry [1, 2] [1, 2] = (true, none) := by decide
example : matchEntry [1, 2] [2, 1, 2, 1] = (true, some [3, 2]) := by decide   -- duplicates: last wins
example : matchEntry [1, 2] [1] = (false, none) := by decide                  -- early refusal
example : matchEntry [1, 2] [1, 3] = (false, none) := by decide               -- refusal in the 2nd loop
example : (Tab.dense ⟨[[11, 12, 13], [21, 22, 23]], 3⟩).takeColumns [-1, 0, 0] =
    some (.dense ⟨[[13, 11, 11], [23, 21, 21]], 3⟩) := by decide
example : (Tab.frame ⟨[[11, 21], [12, 22], [13, 23]], 2⟩).takeRows [1, 1, -2] =
    some (.frame ⟨[[21, 21, 11], [22, 22, 12], [23, 23, 13]], 3⟩) := by decide
example : (Tab.frame ⟨[[11, 21], [12, 22], [13, 23]], 2⟩).takeRows [2] = none := by decide
example : readerCall (fun _ v => v + 100) false [⟨0, .string⟩] [⟨1, .string⟩, ⟨0, .integer⟩]
    (.dense ⟨[[5, 7]], 2⟩) = .data (.frame ⟨[[107]], 1⟩) := by decide
example : readerCall (fun _ v => v + 100) true [⟨0, .string⟩] [⟨1, .string⟩, ⟨0, .integer⟩]
    (.dense ⟨[[5, 7]], 2⟩) = .data (.frame ⟨[[7]], 1⟩) := by decide
example : homogeneous [⟨1, .float⟩, ⟨0, .float⟩] = true := by decide
example : slicer (slicerPositions 2 none).1 (slicerPositions 2 none).2
    (Tab.dense ⟨[[11, 12, 13], [21, 22, 23]], 3⟩) = some ([[11, 12], [21, 22]], .inl [13, 23]) := by decide

end ForML.Entry
