/-
C09 — A feed is selected exactly when it can resolve the statement.

Models: `ForML.Model.Matcher` (`Importer.Matcher`, `Importer.__init__/match`, the source skeleton of the parser),
`ForML.Model.MatcherConf` (pools built from `[FEED.x]` configuration sections: `Section/Provider/Feed._extract`,
`Multi._lookup`, `Slot`), `ForML.Model.MatcherParser` (the parser as a stack machine: `Container`, `bypass`, `visit_*`,
`resolve_source`, `fetch`; generic in the concrete parser).  All theorems are for every statement, every advertised
set, every pool, every configuration section and every concrete parser (unbounded); `example`s are non-vacuity tests.

  C09_covers_spec          the matcher visitor computes exactly the coverage relation of the property text
  C09_covers_mono          advertising more never loses coverage
  C09_select               `match` returns feed i  ⇔  i covers and every other covering feed has lower priority, or the
                           same priority and a later position (highest priority, ties in construction order)
  C09_order_complete / C09_order_sorted   the importer's pool: every feed once, descending priority, ties in construction order
  C09_select_none / C09_missing_error     no feed / the missing-source error  ⇔  no feed of the pool covers
  C09_select_explicit      an explicit instance that covers always beats the lazily configured feeds
  C09_match_history_independent   a sequence of match() calls on ONE importer (lru_cache state) answers every request with
                           the single-shot answer: selection is a function of (pool, statement) only
  C09_memo_transparent / C09_memo_by_statement / C09_match_cache_is_memo   the match cache is a memo; keyed by the statement
                           itself it is transparent for every history; C09_memo_coarse_key_counterexample: keyed by `repr` it is not
  C09_lru_transparent / C09_lru_by_statement / C09_match_lru_history_independent / C09_lru_eq_unbounded /
  C09_fault_lru_history_independent / C09_lru_bounded   (round 5) the cache WITH the eviction of functools.lru_cache (128 entries,
                           least recently used dropped): any capacity, any history - single-shot answers; never more than
                           `n` entries; C09_lru_coarse_key_counterexample: eviction does not rescue a coarse key
  C09_fault_selected / _raised / _missing / _healthy / _touched / _history_independent   pools whose lazily configured members may
                           fail to come up: only the members up to the first decisive one matter, nothing below it is touched
  C09_resolves_iff_tables / C09_parse_error / C09_resolves_covers   the source skeleton of the parser
  C09_parser_ok / C09_parser_reports / C09_parser_no_report         the parser machine, any parser: it gets through only if every
                           table read is advertised; the unprovisioned source it reports is the first unadvertised table read;
                           none is reported when all are advertised
  C09_passed_over          ¬ covers → no parser gets through   (a feed passed over could not have parsed the statement)
  C09_passed_over_pool / C09_missing_nobody_parses   … every feed iterated before the selected one / everybody on MissingError
  C09_agreement_full       any parser: parsesOk → covers, covers → no unprovisioned source — stated, FALSE for the code that exists:
  C09_agreement_counterexample / C09_agreement_ref_counterexample   advertised join / reference: matcher accepts, parser raises
  C09_agreement_partial / C09_agreement_iff / C09_agreement_tables_only   … for feeds whose advertised sub-statements have
                           their tables advertised too
  C09_selected_resolves_full / _counterexample / _partial   the pool form
  C09_extract_priority / C09_extract_params / C09_params_subtable_untouched / C09_reserved_consumed   `Feed._extract`: what
                           becomes the slot priority, what reaches the feed constructor
  C09_conf_pool / C09_conf_match / C09_conf_missing / C09_conf_error   `io.Importer(setup.Feed(a), feed, …)`: the first covering
                           member in descending CONFIGURED priority
  C09_multi_pool / C09_multi_match / C09_multi_missing   `io.Importer(*instances, *setup.Feed.resolve([refs]))`
  C09_reference_string_full   a member given by its reference string is the descriptor resolved from that section (repaired
                           code, finding C09-F3 fixed); C09_reference_string_legacy_counterexample: the behaviour before
-/
import ForML.Model.Matcher
import ForML.Model.MatcherConf
import ForML.Lemmas.C09
import ForML.Lemmas.C09Conf
import ForML.Model.MatcherParser
import ForML.Lemmas.C09Parser
import ForML.Lemmas.C09Memo
import ForML.Lemmas.C09Lru

namespace ForML.Matcher

open ForML.Dsl

deriving instance DecidableEq for Except

/-! ### the matcher is the coverage relation of the property text -/

/-- `Importer.Matcher` accepts a statement exactly when the advertised sources cover everything it reads, directly
or through an advertised sub-statement. -/
theorem C09_covers_spec (S : Sources) (s : Source) : covers S s = coversSpec S s := by
  simp [covers, visit_eq_spec]

/-- once the flag is down it stays down (`if self and …`) -/
theorem C09_visit_false (S : Sources) (s : Source) : visit S s false = false := by
  simp [visit_eq_spec]

/-- a feed advertising more covers at least as much -/
theorem C09_covers_mono {S S' : Sources} (h : ∀ x, x ∈ S → x ∈ S') (s : Source) (hc : covers S s = true) :
    covers S' s = true := by
  rw [C09_covers_spec] at *
  exact coversSpec_mono h s hc

/-! ### selection -/

/-- Feed `i` is the highest-priority feed of the pool that covers `s`, ties broken by construction order. -/
def isFirstCovering (pool : Pool) (s : Source) (i : Nat) : Prop :=
  ∃ f, pool[i]? = some f ∧ covers f.sources s = true ∧
    ∀ j g, pool[j]? = some g → covers g.sources s = true → j ≠ i →
      g.prio.lt f.prio = true ∨ (g.prio = f.prio ∧ i < j)

/-- `Importer.match` returns feed `i` iff `i` is the first feed in priority order (descending priority, equal
priorities in construction order) whose advertised sources cover the statement. -/
theorem C09_select (pool : Pool) (s : Source) (i : Nat) : select pool s = some i ↔ isFirstCovering pool s i := by
  rw [select_eq_some]
  constructor
  · rintro ⟨f, h⟩
    obtain ⟨hm, hp, hall⟩ := (find?_sorted before before_asymm _ (pairwise_order pool) _ _).mp h
    refine ⟨f, (mem_order pool (i, f)).mp hm, hp, ?_⟩
    intro j g hj hg hne
    rcases hall (j, g) ((mem_order pool (j, g)).mpr hj) hg with heq | hb
    · exact absurd (congrArg Prod.fst heq) hne
    · rcases hb with hb | ⟨he, hl⟩
      · exact Or.inl hb
      · exact Or.inr ⟨he.symm, hl⟩
  · rintro ⟨f, hf, hc, hall⟩
    refine ⟨f, (find?_sorted before before_asymm _ (pairwise_order pool) _ _).mpr
      ⟨(mem_order pool (i, f)).mpr hf, hc, ?_⟩⟩
    rintro ⟨j, g⟩ hw hg
    have hj := (mem_order pool (j, g)).mp hw
    by_cases hne : j = i
    · subst hne
      simp only at hj
      rw [hf] at hj
      cases hj
      exact Or.inl rfl
    · rcases hall j g hj hg hne with hb | ⟨he, hl⟩
      · exact Or.inr (Or.inl hb)
      · exact Or.inr (Or.inr ⟨he.symm, hl⟩)

/-- `Importer._feeds` holds every feed of the pool exactly once … -/
theorem C09_order_complete (pool : Pool) :
    (order pool).length = pool.length ∧ ∀ z : Nat × Slot, z ∈ order pool ↔ pool[z.1]? = some z.2 :=
  ⟨length_order pool, mem_order pool⟩

/-- … sorted by descending priority, feeds of equal priority in construction order (`sorted(…, reverse=True)`). -/
theorem C09_order_sorted (pool : Pool) :
    (order pool).Pairwise (fun x y => y.2.prio.lt x.2.prio = true ∨ (x.2.prio = y.2.prio ∧ x.1 < y.1)) :=
  pairwise_order pool

/-- no feed is returned iff no feed of the pool covers the statement -/
theorem C09_select_none (pool : Pool) (s : Source) :
    select pool s = none ↔ ∀ f ∈ pool, covers f.sources s = false := by
  simp only [select, Option.map_eq_none_iff, List.find?_eq_none]
  constructor
  · intro h f hf
    obtain ⟨k, hk, hkf⟩ := List.mem_iff_getElem.mp hf
    have hm : (k, f) ∈ order pool := (mem_order pool (k, f)).mpr (by simp [List.getElem?_eq_getElem hk, hkf])
    simpa using h (k, f) hm
  · intro h z hz
    have hm := (mem_order pool z).mp hz
    have := h z.2 (List.mem_of_getElem? hm)
    simp [this]

/-- `Importer.match` raises the missing-source error exactly when no feed of the pool covers the statement
(and returns a feed otherwise). -/
theorem C09_missing_error (pool : Pool) (s : Source) :
    importerMatch pool s = .error .missing ↔ ∀ f ∈ pool, covers f.sources s = false := by
  rw [← C09_select_none]
  unfold importerMatch
  cases select pool s <;> simp

theorem C09_match_ok (pool : Pool) (s : Source) (i : Nat) :
    importerMatch pool s = .ok i ↔ isFirstCovering pool s i := by
  rw [← C09_select]
  unfold importerMatch
  cases select pool s <;> simp

/-- an explicit instance (infinite priority) that covers is never beaten by a lazily configured feed -/
theorem C09_select_explicit (pool : Pool) (s : Source) (i j : Nat) (f g : Slot)
    (hsel : select pool s = some i) (hi : pool[i]? = some f) (hj : pool[j]? = some g) (hg : g.prio = .inf)
    (hc : covers g.sources s = true) : f.prio = .inf := by
  obtain ⟨f', hf', _, hall⟩ := (C09_select pool s i).mp hsel
  rw [hi] at hf'
  cases hf'
  by_cases hne : j = i
  · subst hne
    rw [hi] at hj
    cases hj
    exact hg
  · rcases hall j g hj hc hne with h | ⟨h, _⟩
    · rw [hg, Prio.inf_not_lt] at h
      cases h
    · rw [← h, hg]

/-! ### request histories: selection is a function of (pool, statement) only -/

/-- every cached answer is the single-shot answer -/
def cacheSound (pool : Pool) (c : Cache) : Prop := ∀ p ∈ c, importerMatch pool p.1 = .ok p.2

theorem C09_matchStep_single_shot (pool : Pool) (c : Cache) (s : Source) (h : cacheSound pool c) :
    (matchStep pool c s).1 = importerMatch pool s ∧ cacheSound pool (matchStep pool c s).2 := by
  unfold matchStep
  cases hg : c.get s with
  | some i =>
    simp only [Cache.get, Option.map_eq_some_iff] at hg
    obtain ⟨p, hp, rfl⟩ := hg
    have hm := List.mem_of_find?_eq_some hp
    have hk : p.1 = s := by simpa using List.find?_some hp
    exact ⟨by rw [← hk]; exact (h p hm).symm, h⟩
  | none =>
    cases hr : importerMatch pool s with
    | ok i =>
      refine ⟨rfl, ?_⟩
      intro p hp
      rcases List.mem_cons.mp hp with rfl | hp
      · exact hr
      · exact h p hp
    | error e => exact ⟨rfl, h⟩

theorem C09_matchSeqFrom_single_shot (pool : Pool) :
    ∀ (ss : List Source) (c : Cache), cacheSound pool c → matchSeqFrom pool c ss = ss.map (importerMatch pool)
  | [], _, _ => rfl
  | s :: ss, c, h => by
    have hs := C09_matchStep_single_shot pool c s h
    simp only [matchSeqFrom, List.map_cons, hs.1, C09_matchSeqFrom_single_shot pool ss _ hs.2]

/-- History independence: whatever an `Importer` was asked before (covered or uncovered statements, repetitions), every
answer is the single-shot answer `importerMatch pool s` — to which `C09_select` / `C09_missing_error` apply. -/
theorem C09_match_history_independent (pool : Pool) (ss : List Source) :
    matchSeq pool ss = ss.map (importerMatch pool) :=
  C09_matchSeqFrom_single_shot pool ss [] (fun _ h => by cases h)

/-- … in particular the answer to the last request of any history -/
theorem C09_match_after_history (pool : Pool) (before : List Source) (s : Source) :
    (matchSeq pool (before ++ [s])).getLast? = some (importerMatch pool s) := by
  rw [C09_match_history_independent]
  simp

/-! ### the source skeleton of the parser (`parseSkeleton`: which tables are resolved, in which order, where the
override replaces a symbol) -/

/-- The skeleton gets through exactly when every table the statement reads is advertised: whatever else the feed
advertises (joins, sets, sub-queries, references) makes no difference, because `bypass` runs the wrapped `visit_*`
before it looks the override up and `visit_reference` has no override. -/
theorem C09_resolves_iff_tables (S : Sources) : ∀ s, resolvesSkeleton S s = (tables s).all (adv S)
  | .table n fs => by simp [resolves_table, tables]
  | .ref inst n => by simp [resolves_ref, tables, C09_resolves_iff_tables S inst]
  | .join l r k c => by
    simp [resolves_join, tables, C09_resolves_iff_tables S l, C09_resolves_iff_tables S r, List.all_append]
  | .set l r k => by
    simp [resolves_set, tables, C09_resolves_iff_tables S l, C09_resolves_iff_tables S r, List.all_append]
  | .query src sel pre grp post ord rows => by simp [resolves_query, tables, C09_resolves_iff_tables S src]

/-- the error names a table the statement reads that the feed does not advertise -/
theorem C09_parse_error (S : Sources) : ∀ s t, parseSkeleton S s = .error t → t ∈ tables s ∧ adv S t = false
  | .table n fs, t => by
    rw [parseSkeleton]
    cases h : adv S (.table n fs) <;> simp [tables]
    rintro rfl
    exact ⟨rfl, h⟩
  | .ref inst n, t => by
    have ih := C09_parse_error S inst t
    rw [parseSkeleton]
    cases h : parseSkeleton S inst <;> simp [tables]
    rintro rfl
    simpa [tables] using ih h
  | .join l r k c, t => by
    have ihl := C09_parse_error S l t
    have ihr := C09_parse_error S r t
    rw [parseSkeleton]
    cases hl : parseSkeleton S l <;> cases hr : parseSkeleton S r <;> simp [tables]
    all_goals rintro rfl
    · exact ⟨Or.inl (ihl hl).1, (ihl hl).2⟩
    · exact ⟨Or.inl (ihl hl).1, (ihl hl).2⟩
    · exact ⟨Or.inr (ihr hr).1, (ihr hr).2⟩
  | .set l r k, t => by
    have ihl := C09_parse_error S l t
    have ihr := C09_parse_error S r t
    rw [parseSkeleton]
    cases hl : parseSkeleton S l <;> cases hr : parseSkeleton S r <;> simp [tables]
    all_goals rintro rfl
    · exact ⟨Or.inl (ihl hl).1, (ihl hl).2⟩
    · exact ⟨Or.inl (ihl hl).1, (ihl hl).2⟩
    · exact ⟨Or.inr (ihr hr).1, (ihr hr).2⟩
  | .query src sel pre grp post ord rows, t => by
    have ih := C09_parse_error S src t
    rw [parseSkeleton]
    cases h : parseSkeleton S src <;> simp [tables]
    rintro rfl
    simpa [tables] using ih h

/-- a feed whose skeleton resolves the statement is accepted by the matcher -/
theorem C09_resolves_covers (S : Sources) (s : Source) (h : resolvesSkeleton S s = true) : covers S s = true := by
  rw [C09_covers_spec]
  rw [C09_resolves_iff_tables] at h
  exact coversSpec_of_tables S s h

/-! ### the feed's parser as it is (the stack machine of `Model/MatcherParser.lean`), for EVERY concrete parser

`Hooks σ τ` is everything a feed's `Reader.parser` supplies — its native symbols, every `generate_*`,
`resolve_feature`, the `Tables` registry, `Source.features`, each of which may raise.  The theorems below quantify
over all of them: they hold for the parser of any feed.  `parsesOk` = the parser gets through; `reportsUnprovisioned`
= it raises the unprovisioned-source error (and for which source); `otherFailure` = it fails for another reason. -/

section parser
variable {σ τ : Type}

/-- A parser that gets through has resolved every table the statement reads. -/
theorem C09_parser_ok (H : Hooks σ τ) (S : Sources) (s : Source) (x : σ) (h : parseFull H S s = .ok x) :
    (tables s).all (adv S) = true := by
  rw [← C09_resolves_iff_tables]
  exact (parseFull_sound H S s).1 x h

/-- The unprovisioned source a parser reports is a table the statement reads which the feed does not advertise: the
first one in visiting order (the one the source skeleton reports). -/
theorem C09_parser_reports (H : Hooks σ τ) (S : Sources) (s t : Source)
    (h : parseFull H S s = .error (.unprovisioned t)) :
    parseSkeleton S s = .error t ∧ t ∈ tables s ∧ adv S t = false := by
  have hp := (parseFull_sound H S s).2 t h
  exact ⟨hp, C09_parse_error S s t hp⟩

/-- If every table the statement reads is advertised, no parser reports an unprovisioned source (whatever else it may
fail on). -/
theorem C09_parser_no_report (H : Hooks σ τ) (S : Sources) (s : Source) (h : (tables s).all (adv S) = true) :
    reportsUnprovisioned H S s = none := by
  unfold reportsUnprovisioned
  split
  · rename_i t ht
    have := (C09_parser_reports H S s t ht).1
    rw [← C09_resolves_iff_tables] at h
    unfold resolvesSkeleton at h
    rw [this] at h
    cases h
  · rfl

/-! ### agreement of the matcher with the parser -/

/-- A feed passed over for lacking a source could not have parsed the statement — whatever its parser is. -/
theorem C09_passed_over (H : Hooks σ τ) (S : Sources) (s : Source) (h : covers S s = false) :
    parsesOk H S s = false := by
  unfold parsesOk
  split
  · rename_i x hx
    have hr := (parseFull_sound H S s).1 x hx
    rw [C09_resolves_covers S s hr] at h
    cases h
  · rfl

/-- … in the pool: every feed the importer iterates before the selected one (higher priority, or the same priority
and constructed earlier) does not cover and could not have parsed the statement. -/
theorem C09_passed_over_pool (H : Hooks σ τ) (pool : Pool) (s : Source) (i j : Nat) (f g : Slot)
    (hsel : select pool s = some i) (hi : pool[i]? = some f) (hj : pool[j]? = some g)
    (hb : before (j, g) (i, f)) : covers g.sources s = false ∧ parsesOk H g.sources s = false := by
  obtain ⟨f', hf', _, hall⟩ := (C09_select pool s i).mp hsel
  rw [hi] at hf'
  cases hf'
  have hc : covers g.sources s = false := by
    cases hc : covers g.sources s
    · rfl
    · exfalso
      have hne : j ≠ i := by
        rintro rfl
        rw [hi] at hj
        cases hj
        exact before_irrefl _ hb
      have hb' : before (i, f) (j, g) := by
        rcases hall j g hj hc hne with h | ⟨h, hl⟩
        · exact Or.inl h
        · exact Or.inr ⟨h.symm, hl⟩
      exact before_asymm hb hb'
  exact ⟨hc, C09_passed_over H _ _ hc⟩

/-- nobody covers ⇒ nobody could have parsed it -/
theorem C09_missing_nobody_parses (H : Hooks σ τ) (pool : Pool) (s : Source)
    (h : importerMatch pool s = .error .missing) : ∀ f ∈ pool, parsesOk H f.sources s = false :=
  fun f hf => C09_passed_over H _ _ ((C09_missing_error pool s).mp h f hf)

end parser

/-- The property at full strength, for every parser: a feed whose parser gets through is accepted by the matcher, and
the parser of an accepted feed does not report an unprovisioned source. -/
def C09_agreement_full : Prop :=
  ∀ (σ τ : Type) (H : Hooks σ τ) (S : Sources) (s : Source),
    (parsesOk H S s = true → covers S s = true) ∧ (covers S s = true → reportsUnprovisioned H S s = none)

/-- … and its pool form: the selected feed's parser does not report an unprovisioned source. -/
def C09_selected_resolves_full : Prop :=
  ∀ (σ τ : Type) (H : Hooks σ τ) (pool : Pool) (s : Source) (i : Nat) (f : Slot),
    select pool s = some i → pool[i]? = some f → reportsUnprovisioned H f.sources s = none

/-- the free parser (what the harness' tuple parser builds) over a `Tables` registry that registers nothing -/
def nullParser : Hooks Term Unit :=
  freeHooks (fun _ => .ok []) () (fun _ _ => .ok ()) (fun _ _ => .ok ()) (fun _ _ => .ok []) (fun _ _ => .ok none)

private def tA : Source := .table "A" [("id", .integer)]
private def tB : Source := .table "B" [("id", .integer)]
private def jAB : Source := .join tA tB .cross .none
private def rA : Source := .ref tA "r"

/-- DESIGN §7 D10 (finding C09-F1): a feed advertising only the denormalised join `A × B` is accepted by the matcher
for that join, its parser raises `UnprovisionedError` for `A` — the wrapped `visit_join` runs before the override. -/
theorem C09_agreement_counterexample : ¬ C09_agreement_full := by
  intro h
  have h1 : covers [jAB] jAB = true := by decide
  have h2 : reportsUnprovisioned nullParser [jAB] jAB = some tA := by decide
  rw [(h _ _ nullParser [jAB] jAB).2 h1] at h2
  cases h2

/-- finding C09-F2: the same for an advertised reference (`visit_reference` has no override at all) -/
theorem C09_agreement_ref_counterexample :
    covers [rA] (.query rA .nil .none .nil .none .nil none) = true ∧
    reportsUnprovisioned nullParser [rA] (.query rA .nil .none .nil .none .nil none) = some tA := by decide

theorem C09_selected_resolves_counterexample : ¬ C09_selected_resolves_full := by
  intro h
  have h2 : reportsUnprovisioned nullParser [jAB] jAB = some tA := by decide
  rw [h _ _ nullParser [⟨.inf, [jAB]⟩] jAB 0 ⟨.inf, [jAB]⟩ (by decide) rfl] at h2
  cases h2

section parser
variable {σ τ : Type}

/-- What holds for the code that exists, for every parser: on a feed whose advertised sub-statements (the places where
the matcher cuts its descent) have all their tables advertised as well, a parser that gets through implies the matcher
accepts, and the parser of an accepted feed does not report an unprovisioned source. -/
theorem C09_agreement_partial (H : Hooks σ τ) (S : Sources) (s : Source) (hc : cutsProvisioned S s = true) :
    (parsesOk H S s = true → covers S s = true) ∧ (covers S s = true → reportsUnprovisioned H S s = none) := by
  constructor
  · intro hp
    cases hcv : covers S s
    · rw [C09_passed_over H S s hcv] at hp
      cases hp
    · rfl
  · intro h
    apply C09_parser_no_report
    rw [C09_covers_spec] at h
    exact tables_of_cuts S s hc h

/-- … and when the parser fails for no other reason (no unsupported construct, no failing `generate_*`, every column
in scope), the matcher accepts exactly the statements the parser gets through. -/
theorem C09_agreement_iff (H : Hooks σ τ) (S : Sources) (s : Source) (hc : cutsProvisioned S s = true)
    (ho : otherFailure H S s = false) : covers S s = true ↔ parsesOk H S s = true := by
  constructor
  · intro h
    have hr := (C09_agreement_partial H S s hc).2 h
    unfold reportsUnprovisioned at hr
    unfold otherFailure at ho
    unfold parsesOk
    cases hp : parseFull H S s with
    | ok x => rfl
    | error e =>
      cases e <;> simp_all
  · exact (C09_agreement_partial H S s hc).1

/-- feeds that advertise tables only (every feed shipped with forml): matcher and parser agree on every statement -/
theorem C09_agreement_tables_only (H : Hooks σ τ) (S : Sources) (s : Source) (h : tablesOnly S = true) :
    (parsesOk H S s = true → covers S s = true) ∧ (covers S s = true → reportsUnprovisioned H S s = none) :=
  C09_agreement_partial H S s (cuts_of_tablesOnly h s)

/-- the selected feed's parser does not report an unprovisioned source, provided the selected feed's cuts are
provisioned -/
theorem C09_selected_resolves_partial (H : Hooks σ τ) (pool : Pool) (s : Source) (i : Nat) (f : Slot)
    (hsel : select pool s = some i) (hi : pool[i]? = some f) (h : cutsProvisioned f.sources s = true) :
    reportsUnprovisioned H f.sources s = none := by
  obtain ⟨f', hf', hc, _⟩ := (C09_select pool s i).mp hsel
  rw [hi] at hf'
  cases hf'
  exact (C09_agreement_partial H _ _ h).2 hc

end parser

/-! ### pools built from the configuration (`setup.Feed` descriptors resolved from `[FEED.x]` sections) -/

/-- `Feed._extract`: the pool priority of a configured feed is the section's own `priority` option (0 when there is
none) — whatever the `params` sub-table carries. -/
theorem C09_extract_priority (ref : String) (kw : Options) (d : Descriptor) (h : feedExtract ref kw = .ok d) :
    configuredPriority kw = .scalar (.num d.priority) :=
  feedExtract_priority h

/-- `Feed._extract`: the keyword arguments of the feed constructor, as a mapping, are the `params` sub-table first
and the section's own generic options (everything but `priority`, `provider`, `params`) otherwise. -/
theorem C09_extract_params (ref : String) (kw : Options) (d : Descriptor) (h : feedExtract ref kw = .ok d)
    (k : String) : d.params.lookup k = ctorSpec kw k :=
  feedExtract_params h k

/-- … in particular every option of the `params` sub-table reaches the constructor untouched, whatever it is called
(`priority`, `provider` and `params` included: that is what the sub-table is for). -/
theorem C09_params_subtable_untouched (ref : String) (kw : Options) (d : Descriptor) (ps : List (String × Scalar))
    (k : String) (v : Scalar) (h : feedExtract ref kw = .ok d) (hp : kw.lookup "params" = some (.table ps))
    (hk : ps.lookup k = some v) : d.params.lookup k = some (.scalar v) := by
  rw [C09_extract_params ref kw d h k]
  simp [ctorSpec, hp, hk]

/-- … and the options the config parser consumes itself never reach the constructor from the section's top level. -/
theorem C09_reserved_consumed (ref : String) (kw : Options) (d : Descriptor) (k : String)
    (h : feedExtract ref kw = .ok d) (hk : k ∈ reserved) (hp : ∀ ps, kw.lookup "params" = some (.table ps) → ps.lookup k = none) :
    d.params.lookup k = none := by
  rw [C09_extract_params ref kw d h k]
  have hc : reserved.contains k = true := by simpa using hk
  unfold ctorSpec
  cases hq : kw.lookup "params" with
  | none => simp only [if_pos hc]
  | some v =>
    cases v with
    | scalar sv => simp only [if_pos hc]
    | table ps => simp only [hp ps hq, if_pos hc]

/-- The slots `io.Importer` builds from the members are the slots of their property-shaped reading: ∞ for an instance,
the configured priority and the feed constructed from the generic options for a descriptor. -/
theorem C09_conf_pool (members : List Member) (pool : Pool) (h : poolSingle members = .ok pool) (i : Nat) :
    (members[i]?).bind Member.slotSpec = pool[i]? :=
  poolSingle_get h i

/-- Member `i` is the first covering one in descending *configured* priority (ties in argument order). -/
def isFirstCoveringConf (members : List Member) (s : Source) (i : Nat) : Prop :=
  ∃ f, (members[i]?).bind Member.slotSpec = some f ∧ covers f.sources s = true ∧
    ∀ (j : Nat) (g : Slot), (members[j]?).bind Member.slotSpec = some g → covers g.sources s = true → j ≠ i →
      g.prio.lt f.prio = true ∨ (g.prio = f.prio ∧ i < j)

/-- `io.Importer(setup.Feed(a), feed, …).match(s)` returns member `i` iff `i` is the first covering member in
descending configured priority. -/
theorem C09_conf_match (members : List Member) (pool : Pool) (s : Source) (i : Nat)
    (h : poolSingle members = .ok pool) : matchConf members s = .ok (.ok i) ↔ isFirstCoveringConf members s i := by
  have hm : matchConf members s = .ok (importerMatch pool s) := by simp [matchConf, h]
  rw [hm]
  have : (Except.ok (importerMatch pool s) : Except ConfErr (Except MatchError Nat)) = .ok (.ok i) ↔
      importerMatch pool s = .ok i := by simp
  rw [this, C09_match_ok]
  unfold isFirstCovering isFirstCoveringConf
  simp only [poolSingle_get h]

/-- … and raises the missing-source error iff no member covers. -/
theorem C09_conf_missing (members : List Member) (pool : Pool) (s : Source) (h : poolSingle members = .ok pool) :
    matchConf members s = .ok (.error .missing) ↔
      ∀ (j : Nat) (g : Slot), (members[j]?).bind Member.slotSpec = some g → covers g.sources s = false := by
  have hm : matchConf members s = .ok (importerMatch pool s) := by simp [matchConf, h]
  rw [hm]
  have : (Except.ok (importerMatch pool s) : Except ConfErr (Except MatchError Nat)) = .ok (.error .missing) ↔
      importerMatch pool s = .error .missing := by simp
  rw [this, C09_missing_error]
  simp only [poolSingle_get h]
  constructor
  · intro hall j g hj
    exact hall g (List.mem_of_getElem? hj)
  · intro hall f hf
    obtain ⟨k, hk, hkf⟩ := List.mem_iff_getElem.mp hf
    exact hall k f (by simp [List.getElem?_eq_getElem hk, hkf])

/-- a pool cannot be built iff some section is missing or malformed (and the error is that section's) -/
theorem C09_conf_error (members : List Member) (s : Source) (e : ConfErr) (h : matchConf members s = .error e) :
    ∃ m ∈ members, slotOf m = .error e := by
  unfold matchConf at h
  cases hp : poolSingle members with
  | ok pool => simp [hp] at h
  | error e' =>
    simp only [hp, Except.error.injEq] at h
    subst h
    exact poolSingle_error hp

/-- A pool member given by its reference string (`io.Importer` documents `Union[setup.Feed, str, io.Feed]`) stands for
the descriptor resolved from that section of the configuration: to which `C09_conf_match` / `C09_conf_missing` /
`C09_conf_error` apply.  (For the code as repaired by fixes/C09-slot-reference-string.diff, finding C09-F3.) -/
theorem C09_reference_string_full (args : List Arg) (s : Source) :
    matchArgs args s = matchConf (args.map Arg.toMember) s :=
  matchArgs_eq args s

/-- Before the repair this was false: `Slot.__init__` kept the 1-tuple `setup.Feed.resolve(str)` returns as the slot's
instance, and `match` raised `AttributeError` when it reached it. -/
theorem C09_reference_string_legacy_counterexample :
    ¬ ∀ (args : List Arg) (s : Source), matchArgsLegacy args s = liftMatch (matchConf (args.map Arg.toMember) s) := by
  intro h
  have h1 := h [.reference "a" (some [("priority", .scalar (.num 2))]) (fun _ => [.table "A" [("id", .integer)]])]
    (.table "A" [("id", .integer)])
  revert h1
  decide

/-- `io.Importer(*instances, *setup.Feed.resolve([refs]))`: the pool holds every member exactly as its
property-shaped reading says (`Multi._lookup` only re-orders the descriptors). -/
theorem C09_multi_pool (members : List Member) (tagged : List (Nat × Slot)) (h : poolMulti members = .ok tagged)
    (z : Nat × Slot) : z ∈ tagged ↔ (members[z.1]?).bind Member.slotSpec = some z.2 :=
  mem_poolMulti h z

/-- … so the member returned covers the statement and no covering member has a higher configured priority … -/
theorem C09_multi_match (members : List Member) (tagged : List (Nat × Slot)) (s : Source) (i : Nat)
    (h : poolMulti members = .ok tagged) (hs : selectMulti members s = .ok (some i)) :
    ∃ f, (members[i]?).bind Member.slotSpec = some f ∧ covers f.sources s = true ∧
      ∀ (j : Nat) (g : Slot), (members[j]?).bind Member.slotSpec = some g → covers g.sources s = true → f.prio.lt g.prio = false := by
  simp only [selectMulti, h, Except.ok.injEq] at hs
  cases hk : select (tagged.map (·.2)) s with
  | none => simp [hk] at hs
  | some k =>
    simp only [hk, Option.bind_some, Option.map_eq_some_iff] at hs
    obtain ⟨⟨i', f⟩, htk, rfl⟩ := hs
    obtain ⟨f', hf', hc, hall⟩ := (C09_select _ s k).mp hk
    have hff : f' = f := by
      simp only [List.getElem?_map, htk, Option.map_some, Option.some.injEq] at hf'
      exact hf'.symm
    subst hff
    refine ⟨f', (mem_poolMulti h (i', f')).mp (List.mem_of_getElem? htk), hc, ?_⟩
    intro j g hj hg
    have hmem : (j, g) ∈ tagged := (mem_poolMulti h (j, g)).mpr hj
    obtain ⟨p, hp, hpe⟩ := List.mem_iff_getElem.mp hmem
    have hpool : (tagged.map (·.2))[p]? = some g := by
      simp [List.getElem?_map, List.getElem?_eq_getElem hp, hpe]
    by_cases hpk : p = k
    · subst hpk
      rw [hf'] at hpool
      cases hpool
      exact Prio.lt_irrefl _
    · rcases hall p g hpool hg hpk with hlt | ⟨he, _⟩
      · exact Prio.lt_asymm hlt
      · rw [he]; exact Prio.lt_irrefl _

/-- … and the missing-source error is raised iff no member covers. -/
theorem C09_multi_missing (members : List Member) (tagged : List (Nat × Slot)) (s : Source)
    (h : poolMulti members = .ok tagged) :
    selectMulti members s = .ok none ↔
      ∀ (j : Nat) (g : Slot), (members[j]?).bind Member.slotSpec = some g → covers g.sources s = false := by
  simp only [selectMulti, h, Except.ok.injEq]
  constructor
  · intro hs j g hj
    have hmem : (j, g) ∈ tagged := (mem_poolMulti h (j, g)).mpr hj
    cases hk : select (tagged.map (·.2)) s with
    | none =>
      exact (C09_select_none _ s).mp hk g (List.mem_map.mpr ⟨(j, g), hmem, rfl⟩)
    | some k =>
      exfalso
      obtain ⟨f', hf', _, _⟩ := (C09_select _ s k).mp hk
      simp only [hk, Option.bind_some, Option.map_eq_none_iff] at hs
      simp [List.getElem?_map, hs] at hf'
  · intro hall
    have : select (tagged.map (·.2)) s = none := by
      rw [C09_select_none]
      intro f hf
      obtain ⟨⟨j, g⟩, hz, rfl⟩ := List.mem_map.mp hf
      exact hall j g ((mem_poolMulti h (j, g)).mp hz)
    simp [this]

/-! ### the match cache is a transparent memo — as long as it is keyed by the statement itself -/

/-- A memo keyed by `key statement` answers every history on which `key` is injective exactly like the function it
memoises (an exception is not remembered, hence recomputed). -/
theorem C09_memo_transparent {κ ε α : Type} [DecidableEq κ] (key : Source → κ) (f : Source → Except ε α)
    (ss : List Source) (hinj : ∀ a ∈ ss, ∀ b ∈ ss, key a = key b → a = b) : memoSeq key f ss = ss.map f :=
  memoSeqFrom_transparent key f ss [] hinj (fun _ h => by cases h)

/-- forml's key is the statement itself (`functools.lru_cache`): transparent for EVERY history, whatever is memoised -/
theorem C09_memo_by_statement {ε α : Type} (f : Source → Except ε α) (ss : List Source) :
    memoSeq id f ss = ss.map f :=
  C09_memo_transparent id f ss (fun _ _ _ _ h => h)

/-- the importer's cache (`matchSeq`) is that memo -/
theorem C09_match_cache_is_memo (pool : Pool) (ss : List Source) :
    matchSeq pool ss = memoSeq id (importerMatch pool) ss := by
  rw [C09_match_history_independent, C09_memo_by_statement]

/-- A key as coarse as `repr(statement)` (a table shows as its name, not its schema) is NOT transparent: two catalog
versions of `Customer`, each served by its own feed — the second request gets the feed of the first. -/
theorem C09_memo_coarse_key_counterexample :
    ¬ ∀ (key : Source → String) (pool : Pool) (ss : List Source),
        memoSeq key (importerMatch pool) ss = ss.map (importerMatch pool) := by
  intro h
  have h1 := h nameKey
    [⟨.fin 2, [.table "Customer" [("id", .integer)]]⟩, ⟨.fin 2, [.table "Customer" [("id", .integer), ("segment", .string)]]⟩]
    [.table "Customer" [("id", .integer)], .table "Customer" [("id", .integer), ("segment", .string)]]
  revert h1
  decide

/-! ### pools whose lazily configured members may fail to come up: only the members up to the first decisive one matter -/

theorem outcomeOf_selected (fails : Nat → Option String) (o : Option (Nat × Slot)) (i : Nat) :
    outcomeOf fails o = .selected i ↔ ∃ x, o = some (i, x) ∧ fails i = none := by
  cases o with
  | none => simp [outcomeOf]
  | some p =>
    obtain ⟨j, x⟩ := p
    cases hf : fails j with
    | some e =>
      simp only [outcomeOf, hf]
      constructor
      · intro h; cases h
      · rintro ⟨y, hy, hi⟩
        simp only [Option.some.injEq, Prod.mk.injEq] at hy
        rw [← hy.1, hf] at hi
        cases hi
    | none =>
      simp only [outcomeOf, hf, Outcome.selected.injEq]
      constructor
      · rintro rfl; exact ⟨x, rfl, hf⟩
      · rintro ⟨y, hy, _⟩
        simp only [Option.some.injEq, Prod.mk.injEq] at hy
        exact hy.1

theorem outcomeOf_raised (fails : Nat → Option String) (o : Option (Nat × Slot)) (e : String) :
    outcomeOf fails o = .raised e ↔ ∃ i x, o = some (i, x) ∧ fails i = some e := by
  cases o with
  | none => simp [outcomeOf]
  | some p =>
    obtain ⟨j, x⟩ := p
    cases hf : fails j with
    | some e' =>
      simp only [outcomeOf, hf, Outcome.raised.injEq]
      constructor
      · rintro rfl; exact ⟨j, x, rfl, hf⟩
      · rintro ⟨i, y, hy, h⟩
        simp only [Option.some.injEq, Prod.mk.injEq] at hy
        rw [← hy.1, hf] at h
        exact Option.some.inj h
    | none =>
      simp only [outcomeOf, hf]
      constructor
      · intro h; cases h
      · rintro ⟨i, y, hy, h⟩
        simp only [Option.some.injEq, Prod.mk.injEq] at hy
        rw [← hy.1, hf] at h
        cases h

/-- the pool as `Importer.__init__` sees it (priorities are known without bringing a feed up) -/
def FPool.slots (pool : FPool) : Pool := pool.map FSlot.slot

/-- member `j` ends the scan: it fails to come up, or it covers -/
abbrev FPool.ends (pool : FPool) (s : Source) (j : Nat) (y : Slot) : Bool := ForML.Matcher.decisive pool.fails s (j, y)

/-- `match` returns member `i` iff `i` comes up and covers, and every other member that fails to come up or covers is
iterated AFTER `i` (lower priority, or the same priority and constructed later).  Nothing is said — nothing matters —
about what the members after `i` are. -/
theorem C09_fault_selected (pool : FPool) (s : Source) (i : Nat) :
    (matchFault pool s).1 = .selected i ↔
      ∃ x, pool.slots[i]? = some x ∧ pool.fails i = none ∧ covers x.sources s = true ∧
        ∀ (j : Nat) (y : Slot), pool.slots[j]? = some y → pool.ends s j y = true → j = i ∨ before (i, x) (j, y) := by
  unfold matchFault
  rw [scan_eq_find, outcomeOf_selected]
  constructor
  · rintro ⟨x, hfind, hfail⟩
    obtain ⟨hm, hd, hall⟩ := (find?_sorted before before_asymm _ (pairwise_order _) _ _).mp hfind
    refine ⟨x, (mem_order _ (i, x)).mp hm, hfail, ?_, ?_⟩
    · simpa [decisive, hfail] using hd
    · intro j y hj hdj
      rcases hall (j, y) ((mem_order _ (j, y)).mpr hj) hdj with h | h
      · exact Or.inl (congrArg Prod.fst h)
      · exact Or.inr h
  · rintro ⟨x, hx, hfail, hc, hall⟩
    refine ⟨x, (find?_sorted before before_asymm _ (pairwise_order _) _ _).mpr
      ⟨(mem_order _ (i, x)).mpr hx, by simp [decisive, hc], ?_⟩, hfail⟩
    rintro ⟨j, y⟩ hw hd
    have hj := (mem_order _ (j, y)).mp hw
    rcases hall j y hj hd with rfl | h
    · simp only at hj
      have : pool.slots[j]? = some y := hj
      rw [hx] at this
      cases this
      exact Or.inl rfl
    · exact Or.inr h

/-- `match` raises what bringing member `i` up raises iff every other member that fails or covers is iterated after
`i`: a fault ABOVE the first covering feed surfaces, a fault below it never does. -/
theorem C09_fault_raised (pool : FPool) (s : Source) (e : String) :
    (matchFault pool s).1 = .raised e ↔
      ∃ i x, pool.slots[i]? = some x ∧ pool.fails i = some e ∧
        ∀ (j : Nat) (y : Slot), pool.slots[j]? = some y → pool.ends s j y = true → j = i ∨ before (i, x) (j, y) := by
  unfold matchFault
  rw [scan_eq_find, outcomeOf_raised]
  constructor
  · rintro ⟨i, x, hfind, hfail⟩
    obtain ⟨hm, _, hall⟩ := (find?_sorted before before_asymm _ (pairwise_order _) _ _).mp hfind
    refine ⟨i, x, (mem_order _ (i, x)).mp hm, hfail, ?_⟩
    intro j y hj hdj
    rcases hall (j, y) ((mem_order _ (j, y)).mpr hj) hdj with h | h
    · exact Or.inl (congrArg Prod.fst h)
    · exact Or.inr h
  · rintro ⟨i, x, hx, hfail, hall⟩
    refine ⟨i, x, (find?_sorted before before_asymm _ (pairwise_order _) _ _).mpr
      ⟨(mem_order _ (i, x)).mpr hx, by simp [decisive, hfail], ?_⟩, hfail⟩
    rintro ⟨j, y⟩ hw hd
    have hj := (mem_order _ (j, y)).mp hw
    rcases hall j y hj hd with rfl | h
    · simp only at hj
      have : pool.slots[j]? = some y := hj
      rw [hx] at this
      cases this
      exact Or.inl rfl
    · exact Or.inr h

/-- the missing-source error iff every member comes up and none covers -/
theorem C09_fault_missing (pool : FPool) (s : Source) :
    (matchFault pool s).1 = .missing ↔
      ∀ (j : Nat) (y : Slot), pool.slots[j]? = some y → pool.ends s j y = false := by
  unfold matchFault
  rw [scan_eq_find]
  constructor
  · intro h j y hj
    cases hf : (order (pool.map FSlot.slot)).find? (decisive pool.fails s) with
    | none =>
      have := List.find?_eq_none.mp hf (j, y) ((mem_order _ (j, y)).mpr hj)
      simpa [FPool.ends] using this
    | some p =>
      rw [hf] at h
      unfold outcomeOf at h
      cases hp : pool.fails p.1 <;> simp [hp] at h
  · intro h
    have : (order (pool.map FSlot.slot)).find? (decisive pool.fails s) = none := by
      rw [List.find?_eq_none]
      intro z hz
      have := h z.1 z.2 ((mem_order _ z).mp hz)
      simpa [FPool.ends] using this
    rw [this]; rfl

/-- with every member healthy this is `Importer.match` of the plain pool (to which `C09_select` etc. apply) -/
theorem C09_fault_healthy (pool : FPool) (s : Source) (h : ∀ i, pool.fails i = none) :
    (matchFault pool s).1 = match importerMatch pool.slots s with
      | .ok i => .selected i
      | .error _ => .missing := by
  unfold matchFault
  rw [scan_healthy _ _ _ (fun x _ => h x.1)]
  unfold importerMatch select FPool.slots
  cases (order (pool.map FSlot.slot)).find? (fun p => covers p.2.sources s) <;> rfl

/-- Laziness: every member `match` touches (brings up) is the one that ends the scan or is iterated before every
member that could end it — a member below the selected feed (or below the fault that surfaced) is never touched. -/
theorem C09_fault_touched (pool : FPool) (s : Source) (j : Nat) (hj : j ∈ (matchFault pool s).2) :
    ∃ x, pool.slots[j]? = some x ∧
      ∀ (k : Nat) (y : Slot), pool.slots[k]? = some y → pool.ends s k y = true → k = j ∨ before (j, x) (k, y) := by
  unfold matchFault at hj
  obtain ⟨pre, ⟨j', x⟩, post, hl, hx, hpre⟩ := scan_touched _ _ _ _ hj
  simp only at hx
  subst hx
  have hmem : (j', x) ∈ order (pool.map FSlot.slot) := by rw [hl]; simp
  refine ⟨x, (mem_order _ (j', x)).mp hmem, ?_⟩
  intro k y hk hd
  have hk' : (k, y) ∈ order (pool.map FSlot.slot) := (mem_order _ (k, y)).mpr hk
  rw [hl] at hk'
  rcases List.mem_append.mp hk' with h | h
  · have := hpre (k, y) h
    simp [FPool.ends] at hd
    simp [hd] at this
  · rcases List.mem_cons.mp h with h | h
    · exact Or.inl (congrArg Prod.fst h)
    · right
      have hp := pairwise_order (pool.map FSlot.slot)
      rw [hl] at hp
      exact (List.pairwise_cons.mp (List.pairwise_append.mp hp).2.1).1 (k, y) h

/-- … and a history of requests on such a pool is answered request by request (memo by the statement itself; a raised
exception is not remembered; bringing a feed up is deterministic) -/
theorem C09_fault_history_independent (pool : FPool) (ss : List Source) :
    memoSeq id (fun s => (matchFault pool s).1.toExcept) ss = ss.map (fun s => (matchFault pool s).1.toExcept) :=
  C09_memo_by_statement _ ss

/-! ### round 5: the eviction of `functools.lru_cache` (`maxsize = 128`, least recently used entry dropped) -/

/-- A bounded LRU table of ANY capacity `n` (hits refresh their entry, a full table drops its least recently used entry,
exceptions are not remembered) is transparent for every memoised function and every history on which the key is
injective: eviction only ever forgets, it never makes an answer stale. -/
theorem C09_lru_transparent {κ ε α : Type} [DecidableEq κ] (n : Nat) (key : Source → κ) (f : Source → Except ε α)
    (ss : List Source) (hinj : ∀ a ∈ ss, ∀ b ∈ ss, key a = key b → a = b) : lruSeq n key f ss = ss.map f :=
  lruSeqFrom_transparent n key f ss [] hinj (fun _ h => by cases h)

/-- keyed by the statement itself: every capacity, every history, every memoised function -/
theorem C09_lru_by_statement {ε α : Type} (n : Nat) (f : Source → Except ε α) (ss : List Source) :
    lruSeq n id f ss = ss.map f :=
  C09_lru_transparent n id f ss (fun _ _ _ _ h => h)

/-- `Importer.match` as decorated in the code (`@functools.lru_cache`, 128 entries): every answer of one importer
instance to ANY request history - however long, however many distinct statements, whatever got evicted in between -
is the single-shot answer, so `C09_select` / `C09_missing_error` apply to it. -/
theorem C09_match_lru_history_independent (pool : Pool) (ss : List Source) :
    matchLru pool ss = ss.map (importerMatch pool) :=
  C09_lru_by_statement _ _ ss

/-- the bounded cache answers exactly as the unbounded one of `C09_match_history_independent`, whatever the capacity -/
theorem C09_lru_eq_unbounded (n : Nat) (pool : Pool) (ss : List Source) :
    lruSeq n id (importerMatch pool) ss = matchSeq pool ss := by
  rw [C09_lru_by_statement, C09_match_history_independent]

/-- … the same on pools whose lazily configured members may fail to come up -/
theorem C09_fault_lru_history_independent (n : Nat) (pool : FPool) (ss : List Source) :
    lruSeq n id (fun s => (matchFault pool s).1.toExcept) ss = ss.map (fun s => (matchFault pool s).1.toExcept) :=
  C09_lru_by_statement n _ ss

/-- the table never outgrows its capacity: after any history a fresh `lru_cache(maxsize = n)` holds at most `n` answers -/
theorem C09_lru_bounded {κ ε α : Type} [DecidableEq κ] (n : Nat) (key : Source → κ) (f : Source → Except ε α)
    (ss : List Source) : (lruStateFrom n key f [] ss).length ≤ n :=
  lruStateFrom_bounded n key f ss [] (Nat.zero_le n)

/-- eviction does not rescue a coarse key: with the code's capacity a cache keyed by `repr` still hands the second
catalog version of `Customer` the feed of the first -/
theorem C09_lru_coarse_key_counterexample :
    ¬ ∀ (key : Source → String) (pool : Pool) (ss : List Source),
        lruSeq lruDefaultSize key (importerMatch pool) ss = ss.map (importerMatch pool) := by
  intro h
  have h1 := h nameKey
    [⟨.fin 2, [.table "Customer" [("id", .integer)]]⟩, ⟨.fin 2, [.table "Customer" [("id", .integer), ("segment", .string)]]⟩]
    [.table "Customer" [("id", .integer)], .table "Customer" [("id", .integer), ("segment", .string)]]
  revert h1
  decide

/-! ### non-vacuity (tests on concrete objects, not part of the claim) -/

-- eviction really happens in the model: capacity 1, requests A B A - after B the entry of A is gone, after the hit on
-- B (A B B) it is B's that stays; a hit moves its entry to the front (capacity 2: A B A leaves A in front of B); an
-- uncovered statement (MissingError) is not remembered; capacity 0 keeps nothing; the answers are the single-shot ones
example : (lruStateFrom 1 id (importerMatch [⟨.fin 1, [.table "A" [], .table "B" []]⟩]) []
    [.table "A" [], .table "B" []]).map (·.1) = [.table "B" []] := by decide
example : (lruStateFrom 2 id (importerMatch [⟨.fin 1, [.table "A" [], .table "B" []]⟩]) []
    [.table "A" [], .table "B" [], .table "A" []]).map (·.1) = [.table "A" [], .table "B" []] := by decide
example : (lruStateFrom 2 id (importerMatch [⟨.fin 1, [.table "A" []]⟩]) []
    [.table "A" [], .table "B" []]).map (·.1) = [.table "A" []] := by decide
example : (lruStateFrom 0 id (importerMatch [⟨.fin 1, [.table "A" []]⟩]) [] [.table "A" []]).length = 0 := by decide
example : lruSeq 1 id (importerMatch [⟨.fin 1, [.table "A" []]⟩, ⟨.fin 2, [.table "B" []]⟩])
    [.table "A" [], .table "B" [], .table "A" [], .table "C" []] = [.ok 0, .ok 1, .ok 0, .error .missing] := by decide

private def qAB : Source := .query jAB .nil .none .nil .none .nil none

-- the hypothesis of the partial theorem is satisfiable by a feed that does advertise a join, in both outcomes
example : cutsProvisioned [jAB, tA, tB] qAB = true ∧ covers [jAB, tA, tB] qAB = true := by decide
example : cutsProvisioned [tA] qAB = true ∧ covers [tA] qAB = false := by decide
example : cutsProvisioned [jAB] qAB = false := by decide
example : tablesOnly [tA, tB] = true ∧ covers [tA, tB] qAB = true ∧ resolvesSkeleton [tA, tB] qAB = true ∧
    parsesOk nullParser [tA, tB] qAB = true := by decide
-- the hypotheses of `C09_agreement_iff` hold in both outcomes
example : cutsProvisioned [jAB, tA, tB] qAB = true ∧ otherFailure nullParser [jAB, tA, tB] qAB = false ∧
    parsesOk nullParser [jAB, tA, tB] qAB = true := by decide
example : cutsProvisioned [tA] qAB = true ∧ otherFailure nullParser [tA] qAB = false ∧ parsesOk nullParser [tA] qAB = false ∧
    reportsUnprovisioned nullParser [tA] qAB = some tB := by decide
-- selection: priorities 3 / inf / 3 / 7, ties in construction order, explicit instance first, nobody covers
example : select [⟨.fin 3, [tA]⟩, ⟨.fin 3, [tA, tB]⟩, ⟨.fin 3, [jAB]⟩] qAB = some 1 := by decide
example : select [⟨.fin 3, [tA, tB]⟩, ⟨.fin 7, [jAB]⟩, ⟨.inf, [tB]⟩] qAB = some 1 := by decide
example : select [⟨.fin 9, [tA, tB]⟩, ⟨.inf, [qAB]⟩] qAB = some 1 := by decide
example : importerMatch [⟨.fin 9, [tA]⟩, ⟨.inf, [tB]⟩] qAB = .error .missing := by decide
example : matchSeq [⟨.fin 9, [tA]⟩, ⟨.fin 1, [tA, tB]⟩] [qAB, tA, qAB, tB, tA] = [.ok 1, .ok 0, .ok 1, .ok 1, .ok 0] := by decide
example : (order [⟨.fin 3, []⟩, ⟨.inf, []⟩, ⟨.fin 3, []⟩, ⟨.fin 7, []⟩]).map (·.1) = [1, 3, 0, 2] := by decide
-- the parser's result skeleton: the override replaces the join only after both tables were resolved
example : parseSkeleton [jAB, tA, tB] qAB = .ok (.query (.native jAB)) := by decide
example : parseSkeleton [jAB, tB] qAB = .error tA := by decide
-- the parser machine: the override replaces the symbol after the wrapped visit; columns resolve through the origins registry
example : parseFull nullParser [jAB, tA, tB] jAB = .ok (.native jAB) := by decide
example : parseFull nullParser [tA, tB] (.query jAB (.cons (.elem tA "id") .nil) .none .nil .none .nil none)
    = .ok (.query (.join (.native tA) (.native tB) .cross)) := by decide
example : parseFull nullParser [tA] (.query rA (.cons (.elem rA "id") .nil) .none .nil .none .nil none)
    = .ok (.query (.ref (.native tA) "r")) := by decide
-- a nested query has a context of its own: a column of its table is not in scope outside (`KeyError`, no unprovisioned source)
example : parseFull nullParser [tA] (.query (.query tA (.cons (.elem tA "id") .nil) .none .nil .none .nil none)
    (.cons (.elem tA "id") .nil) .none .nil .none .nil none) = .error (.keyError tA) := by decide
example : otherFailure nullParser [tA, tB] (.query tA (.cons (.elem tB "id") .nil) .none .nil .none .nil none) = true := by
  decide

-- configured pools: a `priority` inside `params` is a constructor option, not the pool priority
private def secA : Options :=
  [("provider", .scalar (.text "p")), ("priority", .scalar (.num 2)),
   ("params", .table [("identity", .text "alpha"), ("priority", .num 100)])]
private def secB : Options := [("provider", .scalar (.text "p")), ("priority", .scalar (.num 20)), ("region", .scalar (.text "eu"))]
private def secC : Options := [("params", .table [("priority", .num 100)])]
example : (feedExtract "a" secA).toOption.map (fun d => (d.reference, d.priority, d.params.lookup "priority", d.params.lookup "identity"))
    = some ("p", 2, some (.scalar (.num 100)), some (.scalar (.text "alpha"))) := by decide
example : (feedExtract "c" secC).toOption.map (fun d => (d.reference, d.priority, d.params.lookup "priority")) =
    some ("c", 0, some (.scalar (.num 100))) := by decide
example : matchConf [.conf "a" (some secA) (fun _ => [tA, tB]), .conf "b" (some secB) (fun _ => [tA, tB])] qAB = .ok (.ok 1) := by
  decide
example : matchConf [.conf "c" (some secC) (fun _ => [tA, tB]), .inst [tA], .conf "b" (some secB) (fun _ => [tA, tB])] qAB
    = .ok (.ok 2) := by decide
example : matchConf [.conf "a" (some secA) (fun _ => [tA, tB]), .conf "z" none (fun _ => [])] qAB = .error .missing := by decide
example : feedExtract "x" [("priority", .scalar (.text "high"))] = .error .valueError := by decide
-- the feed constructed depends on the options it receives
example : matchConf [.conf "a" (some secA) (fun kw => if kw "priority" = some (.scalar (.num 100)) then [tA, tB] else [])] qAB
    = .ok (.ok 0) := by decide
-- a member given by its reference string is the configured feed (priority 1 here, against 10 and ∞) …
example : matchArgs [.reference "a" (some secA) (fun _ => [tA, tB])] qAB = .ok (.ok 0) := by decide
example : matchArgs [.reference "a" (some secA) (fun _ => [tA, tB]), .member (.conf "b" (some secB) (fun _ => [tA, tB]))] qAB
    = .ok (.ok 1) := by decide
example : matchArgs [.member (.inst [tA]), .reference "a" (some secA) (fun _ => [tA, tB])] qAB = .ok (.ok 1) := by decide
example : matchArgs [.reference "z" none (fun _ => [tA, tB])] qAB = .error .missing := by decide
-- … before the repair: `AttributeError` when reached
example : matchArgsLegacy [.reference "a" (some secA) (fun _ => [tA, tB])] qAB = .ok (.error .attributeError) := by decide
-- through `setup.Feed.resolve`: equal priorities are ordered by the provider reference
example : selectMulti [.conf "a" (some [("provider", .scalar (.text "zeta"))]) (fun _ => [tA, tB]),
    .conf "b" (some [("provider", .scalar (.text "alpha"))]) (fun _ => [tA, tB])] qAB = .ok (some 1) := by decide

-- memo: keyed by the statement two catalog versions of a table are told apart, keyed by the name they are not
private def cV1 : Source := .table "Customer" [("id", .integer)]
private def cV2 : Source := .table "Customer" [("id", .integer), ("segment", .string)]
example : memoSeq id (importerMatch [⟨.fin 2, [cV1]⟩, ⟨.fin 2, [cV2]⟩]) [cV1, cV2, cV1] = [.ok 0, .ok 1, .ok 0] := by decide
example : memoSeq nameKey (importerMatch [⟨.fin 2, [cV1]⟩, ⟨.fin 2, [cV2]⟩]) [cV1, cV2, cV1] = [.ok 0, .ok 0, .ok 0] := by decide
-- faults: below the covering feed they do not exist, above it they surface; only what was needed is touched
example : matchFault [⟨.fin 9, .feed [tA, tB]⟩, ⟨.fin 1, .fails "ConnectionRefusedError"⟩, ⟨.fin 5, .feed [tA]⟩] qAB
    = (.selected 0, [0]) := by decide
example : matchFault [⟨.fin 1, .feed [tA, tB]⟩, ⟨.fin 9, .fails "ConnectionRefusedError"⟩] qAB
    = (.raised "ConnectionRefusedError", [1]) := by decide
example : matchFault [⟨.fin 1, .feed [tA, tB]⟩, ⟨.fin 9, .feed [tA]⟩, ⟨.inf, .feed []⟩, ⟨.fin 0, .fails "x"⟩] qAB
    = (.selected 0, [2, 1, 0]) := by decide
example : matchFault [⟨.fin 1, .feed [tA]⟩, ⟨.fin 9, .feed [tB]⟩] qAB = (.missing, [1, 0]) := by decide

end ForML.Matcher
