/-
C09 — A feed is selected exactly when it can resolve the statement.

Model: `ForML.Model.Matcher` (`Importer.Matcher`, `Importer.__init__/match`, `parser.bypass/visit_table/
visit_reference/resolve_source`).  All theorems are for every statement, every advertised set and every pool
(unbounded); `example`s are non-vacuity tests only.

  C09_covers_spec          the matcher visitor computes exactly the coverage relation of the property text
  C09_covers_mono          advertising more never loses coverage
  C09_select               `match` returns feed i  ⇔  i covers and every other covering feed has lower priority, or the
                           same priority and a later position (highest priority, ties in construction order)
  C09_order_complete / C09_order_sorted   the importer's pool: every feed once, descending priority, ties in construction order
  C09_select_none          no feed is returned  ⇔  no feed of the pool covers
  C09_missing_error        `match` raises the missing-source error  ⇔  no feed of the pool covers
  C09_select_explicit      an explicit instance that covers always beats the lazily configured feeds
  C09_match_history_independent   a sequence of match() calls on ONE importer (lru_cache state) answers every request with
                           the single-shot answer: selection is a function of (pool, statement) only
  C09_resolves_iff_tables  the parser reports no unprovisioned source  ⇔  every table read is advertised
                           (advertised joins / sets / queries / references do not help it)
  C09_resolves_covers      resolves → covers            (the ← half of the agreement)
  C09_passed_over          ¬ covers → ¬ resolves        (a feed passed over could not have parsed the statement)
  C09_passed_over_pool     … for every feed iterated before the selected one
  C09_agreement_full       covers ↔ resolves            — stated, FALSE for the code that exists:
  C09_agreement_counterexample   a feed advertising only the (denormalised) join: matcher accepts, parser raises
  C09_agreement_ref_counterexample   … the same for an advertised reference (`visit_reference` has no override)
  C09_agreement_partial    covers ↔ resolves for feeds whose advertised sub-statements have their tables advertised too
  C09_agreement_tables_only   … in particular for feeds advertising tables only
  C09_selected_resolves_full     the selected feed's parser resolves the statement — stated, FALSE likewise:
  C09_selected_resolves_counterexample / C09_selected_resolves_partial
-/
import ForML.Model.Matcher
import ForML.Lemmas.C09

namespace ForML.Matcher

open ForML.Dsl

/-! ### the matcher is the coverage relation of the property text -/

/-- `Importer.Matcher` accepts a statement exactly when the advertised sources cover everything it reads, directly
or through an advertised sub-statement. -/
theorem C09_covers_spec (S : Sources) (s : Source) : covers S s = coversSpec S s := by
  simp [covers, visit_eq_spec]

/-- once the flag is down it stays down (`if self and …`) -/
theorem C09_visit_false (S : Sources) (s : Source) : visit S s false = false := by
  simp [visit_eq_spec]

/-- a feed advertising more covers at least as much -/
theorem C09_covers_mono {S S' : Sources} (h : ∀ x, x ∈ S → x ∈ S') (s : Source) (hc : covers S s = true) :
    covers S' s = true := by
  rw [C09_covers_spec] at *
  exact coversSpec_mono h s hc

/-! ### selection -/

/-- Feed `i` is the highest-priority feed of the pool that covers `s`, ties broken by construction order. -/
def isFirstCovering (pool : Pool) (s : Source) (i : Nat) : Prop :=
  ∃ f, pool[i]? = some f ∧ covers f.sources s = true ∧
    ∀ j g, pool[j]? = some g → covers g.sources s = true → j ≠ i →
      g.prio.lt f.prio = true ∨ (g.prio = f.prio ∧ i < j)

/-- `Importer.match` returns feed `i` iff `i` is the first feed in priority order (descending priority, equal
priorities in construction order) whose advertised sources cover the statement. -/
theorem C09_select (pool : Pool) (s : Source) (i : Nat) : select pool s = some i ↔ isFirstCovering pool s i := by
  rw [select_eq_some]
  constructor
  · rintro ⟨f, h⟩
    obtain ⟨hm, hp, hall⟩ := (find?_sorted before before_asymm _ (pairwise_order pool) _ _).mp h
    refine ⟨f, (mem_order pool (i, f)).mp hm, hp, ?_⟩
    intro j g hj hg hne
    rcases hall (j, g) ((mem_order pool (j, g)).mpr hj) hg with heq | hb
    · exact absurd (congrArg Prod.fst heq) hne
    · rcases hb with hb | ⟨he, hl⟩
      · exact Or.inl hb
      · exact Or.inr ⟨he.symm, hl⟩
  · rintro ⟨f, hf, hc, hall⟩
    refine ⟨f, (find?_sorted before before_asymm _ (pairwise_order pool) _ _).mpr
      ⟨(mem_order pool (i, f)).mpr hf, hc, ?_⟩⟩
    rintro ⟨j, g⟩ hw hg
    have hj := (mem_order pool (j, g)).mp hw
    by_cases hne : j = i
    · subst hne
      simp only at hj
      rw [hf] at hj
      cases hj
      exact Or.inl rfl
    · rcases hall j g hj hg hne with hb | ⟨he, hl⟩
      · exact Or.inr (Or.inl hb)
      · exact Or.inr (Or.inr ⟨he.symm, hl⟩)

/-- `Importer._feeds` holds every feed of the pool exactly once … -/
theorem C09_order_complete (pool : Pool) :
    (order pool).length = pool.length ∧ ∀ z : Nat × Slot, z ∈ order pool ↔ pool[z.1]? = some z.2 :=
  ⟨length_order pool, mem_order pool⟩

/-- … sorted by descending priority, feeds of equal priority in construction order (`sorted(…, reverse=True)`). -/
theorem C09_order_sorted (pool : Pool) :
    (order pool).Pairwise (fun x y => y.2.prio.lt x.2.prio = true ∨ (x.2.prio = y.2.prio ∧ x.1 < y.1)) :=
  pairwise_order pool

/-- no feed is returned iff no feed of the pool covers the statement -/
theorem C09_select_none (pool : Pool) (s : Source) :
    select pool s = none ↔ ∀ f ∈ pool, covers f.sources s = false := by
  simp only [select, Option.map_eq_none_iff, List.find?_eq_none]
  constructor
  · intro h f hf
    obtain ⟨k, hk, hkf⟩ := List.mem_iff_getElem.mp hf
    have hm : (k, f) ∈ order pool := (mem_order pool (k, f)).mpr (by simp [List.getElem?_eq_getElem hk, hkf])
    simpa using h (k, f) hm
  · intro h z hz
    have hm := (mem_order pool z).mp hz
    have := h z.2 (List.mem_of_getElem? hm)
    simp [this]

/-- `Importer.match` raises the missing-source error exactly when no feed of the pool covers the statement
(and returns a feed otherwise). -/
theorem C09_missing_error (pool : Pool) (s : Source) :
    importerMatch pool s = .error .missing ↔ ∀ f ∈ pool, covers f.sources s = false := by
  rw [← C09_select_none]
  unfold importerMatch
  cases select pool s <;> simp

theorem C09_match_ok (pool : Pool) (s : Source) (i : Nat) :
    importerMatch pool s = .ok i ↔ isFirstCovering pool s i := by
  rw [← C09_select]
  unfold importerMatch
  cases select pool s <;> simp

/-- an explicit instance (infinite priority) that covers is never beaten by a lazily configured feed -/
theorem C09_select_explicit (pool : Pool) (s : Source) (i j : Nat) (f g : Slot)
    (hsel : select pool s = some i) (hi : pool[i]? = some f) (hj : pool[j]? = some g) (hg : g.prio = .inf)
    (hc : covers g.sources s = true) : f.prio = .inf := by
  obtain ⟨f', hf', _, hall⟩ := (C09_select pool s i).mp hsel
  rw [hi] at hf'
  cases hf'
  by_cases hne : j = i
  · subst hne
    rw [hi] at hj
    cases hj
    exact hg
  · rcases hall j g hj hc hne with h | ⟨h, _⟩
    · rw [hg, Prio.inf_not_lt] at h
      cases h
    · rw [← h, hg]

/-! ### request histories: selection is a function of (pool, statement) only -/

/-- every cached answer is the single-shot answer -/
def cacheSound (pool : Pool) (c : Cache) : Prop := ∀ p ∈ c, importerMatch pool p.1 = .ok p.2

theorem C09_matchStep_single_shot (pool : Pool) (c : Cache) (s : Source) (h : cacheSound pool c) :
    (matchStep pool c s).1 = importerMatch pool s ∧ cacheSound pool (matchStep pool c s).2 := by
  unfold matchStep
  cases hg : c.get s with
  | some i =>
    simp only [Cache.get, Option.map_eq_some_iff] at hg
    obtain ⟨p, hp, rfl⟩ := hg
    have hm := List.mem_of_find?_eq_some hp
    have hk : p.1 = s := by simpa using List.find?_some hp
    exact ⟨by rw [← hk]; exact (h p hm).symm, h⟩
  | none =>
    cases hr : importerMatch pool s with
    | ok i =>
      refine ⟨rfl, ?_⟩
      intro p hp
      rcases List.mem_cons.mp hp with rfl | hp
      · exact hr
      · exact h p hp
    | error e => exact ⟨rfl, h⟩

theorem C09_matchSeqFrom_single_shot (pool : Pool) :
    ∀ (ss : List Source) (c : Cache), cacheSound pool c → matchSeqFrom pool c ss = ss.map (importerMatch pool)
  | [], _, _ => rfl
  | s :: ss, c, h => by
    have hs := C09_matchStep_single_shot pool c s h
    simp only [matchSeqFrom, List.map_cons, hs.1, C09_matchSeqFrom_single_shot pool ss _ hs.2]

/-- History independence: whatever an `Importer` was asked before (covered or uncovered statements, repetitions), every
answer is the single-shot answer `importerMatch pool s` — to which `C09_select` / `C09_missing_error` apply. -/
theorem C09_match_history_independent (pool : Pool) (ss : List Source) :
    matchSeq pool ss = ss.map (importerMatch pool) :=
  C09_matchSeqFrom_single_shot pool ss [] (fun _ h => by cases h)

/-- … in particular the answer to the last request of any history -/
theorem C09_match_after_history (pool : Pool) (before : List Source) (s : Source) :
    (matchSeq pool (before ++ [s])).getLast? = some (importerMatch pool s) := by
  rw [C09_match_history_independent]
  simp

/-! ### the parser's source resolution -/

/-- The parser gets through without an `UnprovisionedError` exactly when every table the statement reads is
advertised: whatever else the feed advertises (joins, sets, sub-queries, references) makes no difference, because
`bypass` runs the wrapped `visit_*` before it looks the override up and `visit_reference` has no override. -/
theorem C09_resolves_iff_tables (S : Sources) : ∀ s, resolves S s = (tables s).all (adv S)
  | .table n fs => by simp [resolves_table, tables]
  | .ref inst n => by simp [resolves_ref, tables, C09_resolves_iff_tables S inst]
  | .join l r k c => by
    simp [resolves_join, tables, C09_resolves_iff_tables S l, C09_resolves_iff_tables S r, List.all_append]
  | .set l r k => by
    simp [resolves_set, tables, C09_resolves_iff_tables S l, C09_resolves_iff_tables S r, List.all_append]
  | .query src sel pre grp post ord rows => by simp [resolves_query, tables, C09_resolves_iff_tables S src]

/-- the error names a table the statement reads that the feed does not advertise -/
theorem C09_parse_error (S : Sources) : ∀ s t, parse S s = .error t → t ∈ tables s ∧ adv S t = false
  | .table n fs, t => by
    rw [parse]
    cases h : adv S (.table n fs) <;> simp [tables]
    rintro rfl
    exact ⟨rfl, h⟩
  | .ref inst n, t => by
    have ih := C09_parse_error S inst t
    rw [parse]
    cases h : parse S inst <;> simp [tables]
    rintro rfl
    simpa [tables] using ih h
  | .join l r k c, t => by
    have ihl := C09_parse_error S l t
    have ihr := C09_parse_error S r t
    rw [parse]
    cases hl : parse S l <;> cases hr : parse S r <;> simp [tables]
    all_goals rintro rfl
    · exact ⟨Or.inl (ihl hl).1, (ihl hl).2⟩
    · exact ⟨Or.inl (ihl hl).1, (ihl hl).2⟩
    · exact ⟨Or.inr (ihr hr).1, (ihr hr).2⟩
  | .set l r k, t => by
    have ihl := C09_parse_error S l t
    have ihr := C09_parse_error S r t
    rw [parse]
    cases hl : parse S l <;> cases hr : parse S r <;> simp [tables]
    all_goals rintro rfl
    · exact ⟨Or.inl (ihl hl).1, (ihl hl).2⟩
    · exact ⟨Or.inl (ihl hl).1, (ihl hl).2⟩
    · exact ⟨Or.inr (ihr hr).1, (ihr hr).2⟩
  | .query src sel pre grp post ord rows, t => by
    have ih := C09_parse_error S src t
    rw [parse]
    cases h : parse S src <;> simp [tables]
    rintro rfl
    simpa [tables] using ih h

/-! ### agreement of the matcher with the parser -/

/-- a feed whose parser resolves the statement is accepted by the matcher -/
theorem C09_resolves_covers (S : Sources) (s : Source) (h : resolves S s = true) : covers S s = true := by
  rw [C09_covers_spec]
  rw [C09_resolves_iff_tables] at h
  exact coversSpec_of_tables S s h

/-- A feed passed over for lacking a source could not have parsed the statement. -/
theorem C09_passed_over (S : Sources) (s : Source) (h : covers S s = false) : resolves S s = false := by
  cases hr : resolves S s
  · rfl
  · rw [C09_resolves_covers S s hr] at h
    cases h

/-- … in the pool: every feed the importer iterates before the selected one (higher priority, or the same priority
and constructed earlier) could not have parsed the statement. -/
theorem C09_passed_over_pool (pool : Pool) (s : Source) (i j : Nat) (f g : Slot)
    (hsel : select pool s = some i) (hi : pool[i]? = some f) (hj : pool[j]? = some g)
    (hb : before (j, g) (i, f)) : covers g.sources s = false ∧ resolves g.sources s = false := by
  obtain ⟨f', hf', _, hall⟩ := (C09_select pool s i).mp hsel
  rw [hi] at hf'
  cases hf'
  have hc : covers g.sources s = false := by
    cases hc : covers g.sources s
    · rfl
    · exfalso
      have hne : j ≠ i := by
        rintro rfl
        rw [hi] at hj
        cases hj
        exact before_irrefl _ hb
      have hb' : before (i, f) (j, g) := by
        rcases hall j g hj hc hne with h | ⟨h, hl⟩
        · exact Or.inl h
        · exact Or.inr ⟨h.symm, hl⟩
      exact before_asymm hb hb'
  exact ⟨hc, C09_passed_over _ _ hc⟩

/-- nobody covers ⇒ nobody could have parsed it -/
theorem C09_missing_nobody_parses (pool : Pool) (s : Source) (h : importerMatch pool s = .error .missing) :
    ∀ f ∈ pool, resolves f.sources s = false :=
  fun f hf => C09_passed_over _ _ ((C09_missing_error pool s).mp h f hf)

/-- The property at full strength: the matcher accepts exactly the statements the feed's parser resolves. -/
def C09_agreement_full : Prop := ∀ (S : Sources) (s : Source), covers S s = true ↔ resolves S s = true

/-- … and its pool form: the selected feed's parser resolves the statement. -/
def C09_selected_resolves_full : Prop :=
  ∀ (pool : Pool) (s : Source) (i : Nat) (f : Slot), select pool s = some i → pool[i]? = some f →
    resolves f.sources s = true

private def tA : Source := .table "A" [("id", .integer)]
private def tB : Source := .table "B" [("id", .integer)]
private def jAB : Source := .join tA tB .cross .none
private def rA : Source := .ref tA "r"

/-- DESIGN §7 D10 (finding C09-F1): a feed advertising only the denormalised join `A × B` is accepted by the matcher
for that join, its parser raises `UnprovisionedError` for `A` — the wrapped `visit_join` runs before the override. -/
theorem C09_agreement_counterexample : ¬ C09_agreement_full := by
  intro h
  have h1 : covers [jAB] jAB = true := by decide
  have h2 : resolves [jAB] jAB = false := by decide
  rw [(h [jAB] jAB).mp h1] at h2
  cases h2

/-- finding C09-F2: the same for an advertised reference (`visit_reference` has no override at all) -/
theorem C09_agreement_ref_counterexample :
    covers [rA] (.query rA .nil .none .nil .none .nil none) = true ∧
    resolves [rA] (.query rA .nil .none .nil .none .nil none) = false := by decide

theorem C09_selected_resolves_counterexample : ¬ C09_selected_resolves_full := by
  intro h
  have h2 : resolves [jAB] jAB = false := by decide
  rw [h [⟨.inf, [jAB]⟩] jAB 0 ⟨.inf, [jAB]⟩ (by decide) rfl] at h2
  cases h2

/-- What holds for the code that exists: matcher and parser agree on every feed whose advertised sub-statements
(the places where the matcher cuts its descent) have all their tables advertised as well. -/
theorem C09_agreement_partial (S : Sources) (s : Source) (h : cutsProvisioned S s = true) :
    covers S s = true ↔ resolves S s = true := by
  constructor
  · intro hc
    rw [C09_covers_spec] at hc
    rw [C09_resolves_iff_tables]
    exact tables_of_cuts S s h hc
  · exact C09_resolves_covers S s

/-- feeds that advertise tables only (every feed shipped with forml): matcher and parser agree on every statement -/
theorem C09_agreement_tables_only (S : Sources) (s : Source) (h : tablesOnly S = true) :
    covers S s = true ↔ resolves S s = true :=
  C09_agreement_partial S s (cuts_of_tablesOnly h s)

/-- the selected feed's parser resolves the statement, provided the selected feed's cuts are provisioned -/
theorem C09_selected_resolves_partial (pool : Pool) (s : Source) (i : Nat) (f : Slot)
    (hsel : select pool s = some i) (hi : pool[i]? = some f) (h : cutsProvisioned f.sources s = true) :
    resolves f.sources s = true := by
  obtain ⟨f', hf', hc, _⟩ := (C09_select pool s i).mp hsel
  rw [hi] at hf'
  cases hf'
  exact (C09_agreement_partial _ _ h).mp hc

/-! ### non-vacuity (tests on concrete objects, not part of the claim) -/

deriving instance DecidableEq for Except

private def qAB : Source := .query jAB .nil .none .nil .none .nil none

-- the hypothesis of the partial theorem is satisfiable by a feed that does advertise a join, in both outcomes
example : cutsProvisioned [jAB, tA, tB] qAB = true ∧ covers [jAB, tA, tB] qAB = true := by decide
example : cutsProvisioned [tA] qAB = true ∧ covers [tA] qAB = false := by decide
example : cutsProvisioned [jAB] qAB = false := by decide
example : tablesOnly [tA, tB] = true ∧ covers [tA, tB] qAB = true ∧ resolves [tA, tB] qAB = true := by decide
-- selection: priorities 3 / inf / 3 / 7, ties in construction order, explicit instance first, nobody covers
example : select [⟨.fin 3, [tA]⟩, ⟨.fin 3, [tA, tB]⟩, ⟨.fin 3, [jAB]⟩] qAB = some 1 := by decide
example : select [⟨.fin 3, [tA, tB]⟩, ⟨.fin 7, [jAB]⟩, ⟨.inf, [tB]⟩] qAB = some 1 := by decide
example : select [⟨.fin 9, [tA, tB]⟩, ⟨.inf, [qAB]⟩] qAB = some 1 := by decide
example : importerMatch [⟨.fin 9, [tA]⟩, ⟨.inf, [tB]⟩] qAB = .error .missing := by decide
example : matchSeq [⟨.fin 9, [tA]⟩, ⟨.fin 1, [tA, tB]⟩] [qAB, tA, qAB, tB, tA] = [.ok 1, .ok 0, .ok 1, .ok 1, .ok 0] := by decide
example : (order [⟨.fin 3, []⟩, ⟨.inf, []⟩, ⟨.fin 3, []⟩, ⟨.fin 7, []⟩]).map (·.1) = [1, 3, 0, 2] := by decide
-- the parser's result skeleton: the override replaces the join only after both tables were resolved
example : parse [jAB, tA, tB] qAB = .ok (.query (.native jAB)) := by decide
example : parse [jAB, tB] qAB = .error tA := by decide

end ForML.Matcher
