/-
C03 — Operator composition realises train/apply coherence for every expression.

Reading of the statement in the model (`Model/Compose.lean` = the compose methods of the operator library over the
graph-with-holes API, `Model/Denote.lean` = the documentation's coherence rule):

  for every expression `e` the library accepts, expanding `e` from the empty graph succeeds, and evaluating the
  three tails of the resulting trunk (holes = the source's outputs) and the inputs of every trainer yields exactly
  `⟦e⟧`: train-mode output, apply-mode output, label output and the list of `(actor, state)` trained — where a
  state is `state a _ features labels` with `features`/`labels` the values of the train/label path preceding the
  actor, the train-mode output applies the freshly trained actor and the apply-mode output applies the same actors
  (same groups, hence those very states) in the same order.

Proof architecture (Lemmas/C03*.lean): a *certified valuation* (`World`, `Inv`) assigns a value and a rank to every
evaluable node such that each node's local constraint holds; the fuel-indexed evaluator agrees with it
(`eval_live`); every construction step extends the valuation (`Spec`), a hole is bound by adding the constraint of
that hole only; `Spec` quantifies over the start graph, so a scope may be expanded any number of times.

What is proved:  `C03_coherence : C03_coherence_full` — structural induction over **every** expression the library
accepts: `wrap` operators (label / apply / train / mapper slots in every combination, builders shared between slots,
stateful or not), `payload.MapReduce`, `payload.Dump`/`Sniff`, `ensemble.FullStack` (any number of bases and folds;
scope expanded once per fold, every base copied once per fold with `Segment.copy`, stacker/reducer forks shared per
group) and `>>` in every nesting and parenthesisation — including a `FullStack` inside the bases or the scope of another
`FullStack`, to any depth.  The induction hypothesis is `Spec True`: the graph an expression composes is certified *and*
its apply path is a copyable region (`reg`/`regTail`/`sep`/`closed` of `TrunkOk`: closed under inputs, separated from
the train and label paths, evaluable), which is what `Segment.copy` of an enclosing ensemble consumes; `spec_stack`
re-establishes it for the ensemble's own graph (`Lemmas/C03Areg.lean`: the apply side of the graph under construction —
fold expansions, base expansions, reducer forks, apply collector — is tracked through the three loops of the ensemble;
the held-out copies, stackers and the train/label collectors stay off it).
-/
import ForML.Lemmas.C03WrapSpec
import ForML.Lemmas.C03MapReduce
import ForML.Lemmas.C03Stack
import ForML.Lemmas.C03Api

namespace ForML.Compose

mutual
  /-- an expression the operator library accepts: `payload.Dump`'s train-mode actor is trained, hence stateful
  (`Worker.train` refuses a stateless actor with a TopologyError — see `C03_debug_stateless_refused`),
  `payload.MapReduce` has at least one mapper (its constructor raises `ValueError('Mappers required')` otherwise) and
  `ensemble.FullStack` has at least one base (`ValueError('Base models required')`), at least two folds
  (`ValueError('At least 2 splits required')`) and acceptable bases -/
  def Expr.trainable : Expr → Bool
    | .seq l r => l.trainable && r.trainable
    | .debug _ t => t.stateful
    | .wrap .. => true
    | .mapreduce ms _ => !ms.isEmpty
    | .stack bases n _ _ _ _ => !bases.isEmpty && decide (2 ≤ n) && Expr.trainableAll bases
    | .api (.monitor a) => a.stateful
    | .api _ => true

  def Expr.trainableAll : List Expr → Bool
    | [] => true
    | b :: bs => b.trainable && Expr.trainableAll bs
end

/-- no stacking ensemble at all -/
def Expr.stackFree : Expr → Bool
  | .seq l r => l.stackFree && r.stackFree
  | .stack .. => false
  | .debug .. => true
  | .wrap .. => true
  | .mapreduce .. => true
  | .api .. => true

def Expr.isStack : Expr → Bool
  | .stack .. => true
  | _ => false

/-- the fragment the induction covered before `spec_stack` re-established the region certificate: no stacking ensemble
inside the bases or the scope of another one (kept to state `C03_coherence_partial`, now a corollary of `C03_coherence`).
(The scope handed to `r` by `l >> r` is `l`, unless `r` is itself a `>>`, which expands its own left side.) -/
def Expr.shallow : Expr → Bool
  | .seq l r => l.shallow && r.shallow && (l.stackFree || !r.isStack)
  | .stack bases .. => bases.all Expr.stackFree
  | .debug .. => true
  | .wrap .. => true
  | .mapreduce .. => true
  | .api .. => true

/-- the graphs composed for `e` evaluate to the denotation of `e` -/
def Coherent (e : Expr) : Prop :=
  ∃ o, run e = .ok o ∧
    o.train = some (denote e (.input 0) (.input 1) (.input 2)).train ∧
    o.apply = some (denote e (.input 0) (.input 1) (.input 2)).apply ∧
    o.label = some (denote e (.input 0) (.input 1) (.input 2)).label ∧
    o.states = some (denote e (.input 0) (.input 1) (.input 2)).states

/-- **C03 at full strength**: every expression (any nesting, any scoping, every operator family). -/
def C03_coherence_full : Prop := ∀ e : Expr, e.trainable = true → Coherent e

/-! ### helper lemmas -/

private theorem mapM_some {α β} {f : α → Option β} {v : α → β} (l : List α) (h : ∀ x ∈ l, f x = some (v x)) :
    l.mapM f = some (l.map v) := by
  induction l with
  | nil => rfl
  | cons x xs ih =>
    rw [List.mapM_cons, h x List.mem_cons_self, ih (fun k hk => h k (List.mem_cons_of_mem _ hk))]
    rfl

private theorem inv_empty : Inv {} World.empty := by
  refine ⟨Bounded.empty.nodesLt, Bounded.empty.gidsLt, Bounded.empty.edgesLt, Bounded.empty.trainsLt, ?_, ?_⟩
  · intro n h; exact absurd h id
  · intro n h; exact absurd h id

private theorem sem_eta (t : Sem) : (⟨t.apply, t.train, t.label, [] ++ t.states⟩ : Sem) = t := by
  cases t; simp

private theorem denoteC_seq_origin (l r : Expr) :
    denoteC (.seq l r) Scope.origin = denoteC r (denoteC l Scope.origin) := by
  funext xa xt xl
  rw [denoteC]
  exact sem_eta _

/-! ### the induction -/

/-- every stack-free expression realises its denotation: composed onto any scope (`compose`) and expanded on its own
(`expand`), at either certification level (`full = True`: the graph built is moreover a copyable region).
Structural induction; `>>` expands its right side with the left side as *its* scope. -/
private theorem realisesSF : ∀ (e : Expr), e.stackFree = true → e.trainable = true → ∀ (full : Prop),
    (∀ (scope : GraphM Trunk) (S : Scope), Spec full scope S → Spec full (compose e scope) (denoteC e S)) ∧
      Spec full (expand e) (denoteC e Scope.origin)
  | .wrap lab app trn, _, _, full => by
    refine ⟨fun scope S hs => ?_, ?_⟩
    · rw [compose, denoteC]; exact spec_wrap hs lab app trn
    · rw [expand, denoteC]; exact spec_wrap spec_new lab app trn
  | .mapreduce ms red, _, htr, full => by
    have hms : ms ≠ [] := by
      intro e; subst e; simp [Expr.trainable] at htr
    refine ⟨fun scope S hs => ?_, ?_⟩
    · rw [compose, denoteC]; exact spec_mapreduce hs ms hms red
    · rw [expand, denoteC]; exact spec_mapreduce spec_new ms hms red
  | .debug a t, _, ht, full => by
    have ht' : t.stateful = true := by simpa [Expr.trainable] using ht
    refine ⟨fun scope S hs => ?_, ?_⟩
    · rw [compose, denoteC]; exact spec_debug hs a t ht'
    · rw [expand, denoteC]; exact spec_debug spec_new a t ht'
  | .seq l r, hsf, htr, full => by
    have hsf' : l.stackFree = true ∧ r.stackFree = true := by simpa [Expr.stackFree] using hsf
    have htr' : l.trainable = true ∧ r.trainable = true := by simpa [Expr.trainable] using htr
    have ihl := realisesSF l hsf'.1 htr'.1 full
    have ihr := realisesSF r hsf'.2 htr'.2 full
    have hm : Spec full (compose r (expand l)) (denoteC r (denoteC l Scope.origin)) := ihr.1 _ _ ihl.2
    refine ⟨fun scope S hs => ?_, ?_⟩
    · rw [compose]
      have : denoteC (.seq l r) S = seqSem S (denoteC r (denoteC l Scope.origin)) := by
        rw [denoteC]; rfl
      rw [this]
      exact spec_seq hs hm
    · rw [expand, denoteC_seq_origin]
      exact hm
  | .api op, _, htr, full => by
    have hop : ∀ a, op = .monitor a → a.stateful = true := by
      intro a e; subst e; simpa [Expr.trainable] using htr
    refine ⟨fun scope S hs => ?_, ?_⟩
    · rw [compose, denoteC]; exact spec_api hs op hop
    · rw [expand, denoteC]; exact spec_api spec_new op hop
  | .stack .., hsf, _, _ => by simp [Expr.stackFree] at hsf

private theorem shallow_of_stackFree : ∀ (e : Expr), e.stackFree = true → e.shallow = true
  | .wrap .., _ => rfl
  | .mapreduce .., _ => rfl
  | .debug .., _ => rfl
  | .api .., _ => rfl
  | .stack .., h => by simp [Expr.stackFree] at h
  | .seq l r, h => by
    have h' : l.stackFree = true ∧ r.stackFree = true := by simpa [Expr.stackFree] using h
    simp [Expr.shallow, shallow_of_stackFree l h'.1, shallow_of_stackFree r h'.2, h'.1]

private theorem expandAll_ne_nil : ∀ (bases : List Expr), bases ≠ [] → expandAll bases ≠ []
  | [], h => absurd rfl h
  | b :: bs, _ => by simp [expandAll]

mutual
  /-- **every** accepted expression realises its denotation as a copyable region: composed onto any copyable,
  input-independent certified scope (`compose`; the scope may be expanded any number of times), and expanded on its own
  (`expand`).  Structural induction; `>>` expands its right side with the left side as *its* scope; the stacking
  ensemble consumes the region certificates of its scope and of its base models (`Segment.copy`) and re-establishes one
  for its own graph (`spec_stack`). -/
  private theorem realises : ∀ (e : Expr), e.trainable = true →
      (∀ (scope : GraphM Trunk) (S : Scope), Spec True scope S → S.Indep → Spec True (compose e scope) (denoteC e S)) ∧
        Spec True (expand e) (denoteC e Scope.origin)
    | .wrap lab app trn, htr => by
      have h := realisesSF (.wrap lab app trn) rfl htr True
      exact ⟨fun scope S hs _ => h.1 scope S hs, h.2⟩
    | .mapreduce ms red, htr => by
      have h := realisesSF (.mapreduce ms red) rfl htr True
      exact ⟨fun scope S hs _ => h.1 scope S hs, h.2⟩
    | .debug a t, htr => by
      have h := realisesSF (.debug a t) rfl htr True
      exact ⟨fun scope S hs _ => h.1 scope S hs, h.2⟩
    | .api op, htr => by
      have h := realisesSF (.api op) rfl htr True
      exact ⟨fun scope S hs _ => h.1 scope S hs, h.2⟩
    | .stack bases n sp ap st rd, htr => by
      have htr' : (bases ≠ [] ∧ 2 ≤ n) ∧ Expr.trainableAll bases = true := by
        simpa [Expr.trainable] using htr
      obtain ⟨pairs, h1, h2, h3⟩ := realisesAll bases htr'.2
      have hne : pairs ≠ [] := by
        intro e
        have := expandAll_ne_nil bases htr'.1.1
        rw [← h1, e] at this
        exact this rfl
      have hn : 0 < n := by have := htr'.1.2; omega
      refine ⟨fun scope S hs hS => ?_, ?_⟩
      · rw [compose, denoteC, ← h1, ← h2]; exact spec_stack hs hS pairs h3 hne n sp ap st rd hn
      · rw [expand, denoteC, ← h1, ← h2]; exact spec_stack spec_new indep_origin pairs h3 hne n sp ap st rd hn
    | .seq l r, htr => by
      have htr' : l.trainable = true ∧ r.trainable = true := by simpa [Expr.trainable] using htr
      have ihl := realises l htr'.1
      have ihr := realises r htr'.2
      have hm : Spec True (compose r (expand l)) (denoteC r (denoteC l Scope.origin)) :=
        ihr.1 _ _ ihl.2 (indep_denoteC l _ indep_origin)
      refine ⟨fun scope S hs _ => ?_, ?_⟩
      · rw [compose]
        have : denoteC (.seq l r) S = seqSem S (denoteC r (denoteC l Scope.origin)) := by
          rw [denoteC]; rfl
        rw [this]
        exact spec_seq hs hm
      · rw [expand, denoteC_seq_origin]
        exact hm

  /-- the bases of a stacking ensemble, paired with their meanings: each one a copyable, input-independent region -/
  private theorem realisesAll : ∀ (bases : List Expr), Expr.trainableAll bases = true →
      ∃ pairs : List (GraphM Trunk × Scope), pairs.map (·.1) = expandAll bases ∧ pairs.map (·.2) = denoteAll bases ∧
        ∀ p ∈ pairs, Spec True p.1 p.2 ∧ p.2.Indep
    | [], _ => ⟨[], by simp [expandAll], by simp [denoteAll], fun p hp => by cases hp⟩
    | b :: bs, htr => by
      have htr' : b.trainable = true ∧ Expr.trainableAll bs = true := by simpa [Expr.trainableAll] using htr
      obtain ⟨pairs, h1, h2, h3⟩ := realisesAll bs htr'.2
      refine ⟨(expand b, denoteC b Scope.origin) :: pairs, by simp [expandAll, h1], by simp [denoteAll, h2], ?_⟩
      intro p hp
      rcases List.mem_cons.mp hp with e | hp
      · subst e
        exact ⟨(realises b htr'.1).2, indep_denoteC b _ indep_origin⟩
      · exact h3 p hp
end

/-- a certified expansion from the empty graph evaluates to the denotation -/
private theorem coherent_of_spec {e : Expr} (hspec : Spec True (expand e) (denoteC e Scope.origin)) : Coherent e := by
  obtain ⟨t, g', W', hrun, hok⟩ := hspec {} World.empty (.input 0) (.input 1) (.input 2) 0
    inv_empty Wired.empty (Nat.le_refl _)
  have hexp : expand e {} = .ok (t, g') := hrun
  obtain ⟨d1, d2, d3⟩ := hok.distinct
  -- the environment of the run gives the three heads the source's outputs, as the valuation does
  have hρ : ∀ n, W'.live n → g'.isOpen n → ∀ i, W'.σ ⟨n, i⟩ = inputs t n := by
    intro n hl ho i
    rcases hok.opens n (Nat.zero_le _) hl ho with h | h | h
    · subst h; rw [hok.ha.val i]; simp [inputs]
    · subst h
      have : ¬ (t.train.head = t.apply.head) := fun e => d1 e.symm
      rw [hok.ht.val i]; simp [inputs, this]
    · subst h
      have h1 : ¬ (t.label.head = t.apply.head) := fun e => d2 e.symm
      have h2 : ¬ (t.label.head = t.train.head) := fun e => d3 e.symm
      rw [hok.hl.val i]; simp [inputs, h1, h2]
  have ev : ∀ p : PubRef, W'.live p.node → eval g' (inputs t) g'.fuel p = some (W'.σ p) :=
    fun p hp => eval_live hok.inv _ hρ p hp
  obtain ⟨ts, hts, hlive, hstates⟩ := hok.trains
  have hts' : g'.trains = ts := by rw [hts]; rfl
  have hst : trainedStates g' (inputs t) g'.fuel g'.trains = some (ts.map (trainedUnder W')) := by
    unfold trainedStates
    rw [hts']
    apply mapM_some
    intro x hx
    obtain ⟨l1, l2⟩ := hlive x hx
    rw [ev _ l1, ev _ l2]
    rfl
  refine ⟨_, by unfold run; rw [hexp], ?_, ?_, ?_, ?_⟩
  · show eval g' (inputs t) g'.fuel t.train.publisher = _
    rw [ev _ hok.tt.1]; exact congrArg some hok.tt.2
  · show eval g' (inputs t) g'.fuel t.apply.publisher = _
    rw [ev _ hok.ta.1]; exact congrArg some hok.ta.2
  · show eval g' (inputs t) g'.fuel t.label.publisher = _
    rw [ev _ hok.tl.1]; exact congrArg some hok.tl.2
  · show trainedStates g' (inputs t) g'.fuel g'.trains = _
    rw [hst, hstates]; rfl

/-! ### property theorems -/

/-- the evaluator agrees with any certified valuation on every live port (the tool all coherence proofs use) -/
theorem C03_eval_certified {g : Graph} {W : World} (hi : Inv g W) (ρ : Nat → Val)
    (hρ : ∀ n, W.live n → g.isOpen n → ∀ i, W.σ ⟨n, i⟩ = ρ n) (p : PubRef) (hl : W.live p.node) :
    eval g ρ g.fuel p = some (W.σ p) := eval_live hi ρ hρ p hl

/-- **C03, coherence at full strength**: for every expression the operator library accepts — `wrap` operators in every
slot combination, `MapReduce`, debug operators, the stacking ensemble (also nested in the bases or in the scope of another
one, to any depth) and `>>` in every nesting and explicit scoping — the composed train-mode graph trains each stateful
actor on exactly the features/labels the preceding path produces and passes on the output of the freshly trained actor;
the apply-mode graph applies the same actors with those states in the same order; i.e. `run e = ⟦e⟧`. -/
theorem C03_coherence : C03_coherence_full :=
  fun e htr => coherent_of_spec (realises e htr).2

/-- the shallow fragment of the previous rounds (no ensemble in the bases or scope of another one): a corollary -/
theorem C03_coherence_partial (e : Expr) (_hsh : e.shallow = true) (htr : e.trainable = true) : Coherent e :=
  C03_coherence e htr

/-- the same statement for an expression composed onto an arbitrary *certified* scope and start graph: whatever a
copyable, input-independent scope realises, `scope >> e`'s graphs realise `⟦e⟧` over it — and are a copyable region
again (this is the induction hypothesis made public: it is what lets a scope-wrapping operator expand its left side
several times, and what lets ensembles nest). -/
theorem C03_compose_realises (e : Expr) (htr : e.trainable = true)
    (scope : GraphM Trunk) (S : Scope) (hs : Spec True scope S) (hS : S.Indep) : Spec True (compose e scope) (denoteC e S) :=
  (realises e htr).1 scope S hs hS

/-- … and expanded on its own (`Operator.expand() = compose(Origin())`, `Compound.expand`): what `flow.Composition`
puts behind the source -/
theorem C03_expand_realises (e : Expr) (htr : e.trainable = true) : Spec True (expand e) (denote e) :=
  (realises e htr).2

/-- for a stack-free expression the scope is expanded exactly once and need not be input-independent -/
theorem C03_compose_realises_stackfree (e : Expr) (hsf : e.stackFree = true) (htr : e.trainable = true)
    (scope : GraphM Trunk) (S : Scope) (hs : Spec True scope S) : Spec True (compose e scope) (denoteC e S) :=
  (realisesSF e hsf htr True).1 scope S hs

/-- the induction case of the stacking ensemble made public: over **any** acceptable bases (ensembles included) and any
copyable, input-independent certified scope (in particular: every expression's expansion), from any certified start
graph, the graph `FullStack.compose` builds — scope expanded once per fold, every base copied once per fold, all
copies of a base's actor in one group per fold — evaluates to the documented cross-validated stacking semantics, and
its apply path is a closed, separated, evaluable region (`Spec True`), so that an enclosing ensemble can copy it. -/
theorem C03_stack_realises (bases : List Expr) (hne : bases ≠ []) (htr : Expr.trainableAll bases = true)
    (n splitter appender stacker reducer : Nat) (hn : 0 < n)
    (scope : GraphM Trunk) (S : Scope) (hs : Spec True scope S) (hS : S.Indep) :
    Spec True (compose (.stack bases n splitter appender stacker reducer) scope)
      (denoteC (.stack bases n splitter appender stacker reducer) S) := by
  obtain ⟨pairs, h1, h2, h3⟩ := realisesAll bases htr
  have hpne : pairs ≠ [] := by
    intro e
    have := expandAll_ne_nil bases hne
    rw [← h1, e] at this
    exact this rfl
  rw [compose, denoteC, ← h1, ← h2]
  exact spec_stack hs hS pairs h3 hpne n splitter appender stacker reducer hn

/-- scoping is semantic: `a >> (b >> c)` hands `c` the scope `b`, `(a >> b) >> c` hands it `a >> b` — both are inside
the theorem, and both graphs evaluate to their own denotation (for every accepted `a`, `b`, `c`, ensembles included) -/
theorem C03_scoping (a b c : Expr) (htr : (a.trainable && b.trainable && c.trainable) = true) :
    Coherent (.seq a (.seq b c)) ∧ Coherent (.seq (.seq a b) c) := by
  have h2 : a.trainable = true ∧ b.trainable = true ∧ c.trainable = true := by
    simp only [Bool.and_eq_true] at htr; exact ⟨htr.1.1, htr.1.2, htr.2⟩
  exact ⟨C03_coherence _ (by simp [Expr.trainable, h2]), C03_coherence _ (by simp [Expr.trainable, h2])⟩

/-- **Repeated expansion** (every accepted expression): expanding the same expression twice (as an ensembling operator does
with its scope) yields two independent graphs.  In the graph holding both expansions
* nothing the first expansion built is touched by the second (`Frame`: every node, subscription and trainer lookup
  below `g1.next` is unchanged), every node the second makes evaluable and every group such a node belongs to is
  new (no shared node, no shared group — hence no shared state);
* fed with *different* inputs, each trunk evaluates to `⟦e⟧` of its own inputs, and the states trained are those of
  `⟦e⟧` on the first inputs followed by those of `⟦e⟧` on the second inputs: no state of one depends on the other. -/
theorem C03_independent_expansions (e : Expr) (htr : e.trainable = true)
    (a1 t1 l1 a2 t2 l2 : Val) :
    ∃ (T1 : Trunk) (g1 : Graph) (T2 : Trunk) (g2 : Graph) (W2 : World), expand e {} = .ok (T1, g1) ∧ expand e g1 = .ok (T2, g2) ∧ Frame g1 g2 ∧
      (∀ n, g1.next ≤ n → W2.live n → ∀ gid a i o, g2.kindOf n = some (.worker gid a i o) → g1.next ≤ gid) ∧
      (∀ n gid a i o, g1.kindOf n = some (.worker gid a i o) → n < g1.next ∧ gid < g1.next) ∧
      ∀ ρ : Nat → Val,
        ρ T1.apply.head = a1 → ρ T1.train.head = t1 → ρ T1.label.head = l1 →
        ρ T2.apply.head = a2 → ρ T2.train.head = t2 → ρ T2.label.head = l2 →
        eval g2 ρ g2.fuel T1.train.publisher = some (denote e a1 t1 l1).train ∧
        eval g2 ρ g2.fuel T1.apply.publisher = some (denote e a1 t1 l1).apply ∧
        eval g2 ρ g2.fuel T1.label.publisher = some (denote e a1 t1 l1).label ∧
        eval g2 ρ g2.fuel T2.train.publisher = some (denote e a2 t2 l2).train ∧
        eval g2 ρ g2.fuel T2.apply.publisher = some (denote e a2 t2 l2).apply ∧
        eval g2 ρ g2.fuel T2.label.publisher = some (denote e a2 t2 l2).label ∧
        trainedStates g2 ρ g2.fuel g2.trains = some ((denote e a1 t1 l1).states ++ (denote e a2 t2 l2).states) := by
  have hspec := (realises e htr).2
  obtain ⟨T1, g1, W1, hrun1, ok1⟩ := hspec {} World.empty a1 t1 l1 0 inv_empty Wired.empty (Nat.le_refl _)
  obtain ⟨T2, g2, W2, hrun2, ok2⟩ := hspec g1 W1 a2 t2 l2 0 ok1.inv ok1.wired (Nat.zero_le _)
  have hlt1 : ∀ n, W1.live n → n < g1.next := fun n hn => (ok1.inv.liveLt n hn).1
  -- the first trunk seen from the final valuation
  have old : ∀ q : PubRef, W1.live q.node → W2.live q.node ∧ W2.σ q = W1.σ q := by
    intro q hq
    exact ⟨((ok2.agree _ (hlt1 _ hq)).1).mpr hq, ok2.agree.σ q (hlt1 _ hq)⟩
  refine ⟨T1, g1, T2, g2, W2, hrun1, hrun2, ok2.frame, ok2.fresh, ?_, ?_⟩
  · intro n gid a i o hk
    exact ⟨ok1.inv.bounded.uid_lt hk, ok1.inv.bounded.gid_lt hk⟩
  intro ρ e1 e2 e3 e4 e5 e6
  have hρ : ∀ n, W2.live n → g2.isOpen n → ∀ i, W2.σ ⟨n, i⟩ = ρ n := by
    intro n hl ho i
    by_cases hn : n < g1.next
    · have hl1 : W1.live n := ((ok2.agree n hn).1).mp hl
      have ho1 : g1.isOpen n := (ok2.frame.isOpen hn).mp ho
      rw [(ok2.agree n hn).2.2 i]
      rcases ok1.opens n (Nat.zero_le _) hl1 ho1 with h | h | h
      · subst h; rw [ok1.ha.val i, e1]
      · subst h; rw [ok1.ht.val i, e2]
      · subst h; rw [ok1.hl.val i, e3]
    · rcases ok2.opens n (by omega) hl ho with h | h | h
      · subst h; rw [ok2.ha.val i, e4]
      · subst h; rw [ok2.ht.val i, e5]
      · subst h; rw [ok2.hl.val i, e6]
  have ev : ∀ p : PubRef, W2.live p.node → eval g2 ρ g2.fuel p = some (W2.σ p) :=
    fun p hp => eval_live ok2.inv _ hρ p hp
  obtain ⟨ts1, hts1, hlive1, hst1⟩ := ok1.trains
  obtain ⟨ts2, hts2, hlive2, hst2⟩ := ok2.trains
  have hts : g2.trains = ts1 ++ ts2 := by rw [hts2, hts1]; rfl
  refine ⟨?_, ?_, ?_, ?_, ?_, ?_, ?_⟩
  · show eval g2 ρ g2.fuel ⟨T1.train.tail, 0⟩ = _
    rw [ev _ (old ⟨_, 0⟩ ok1.tt.1).1, (old ⟨_, 0⟩ ok1.tt.1).2]; exact congrArg some ok1.tt.2
  · show eval g2 ρ g2.fuel ⟨T1.apply.tail, 0⟩ = _
    rw [ev _ (old ⟨_, 0⟩ ok1.ta.1).1, (old ⟨_, 0⟩ ok1.ta.1).2]; exact congrArg some ok1.ta.2
  · show eval g2 ρ g2.fuel ⟨T1.label.tail, 0⟩ = _
    rw [ev _ (old ⟨_, 0⟩ ok1.tl.1).1, (old ⟨_, 0⟩ ok1.tl.1).2]; exact congrArg some ok1.tl.2
  · show eval g2 ρ g2.fuel ⟨T2.train.tail, 0⟩ = _
    rw [ev _ ok2.tt.1]; exact congrArg some ok2.tt.2
  · show eval g2 ρ g2.fuel ⟨T2.apply.tail, 0⟩ = _
    rw [ev _ ok2.ta.1]; exact congrArg some ok2.ta.2
  · show eval g2 ρ g2.fuel ⟨T2.label.tail, 0⟩ = _
    rw [ev _ ok2.tl.1]; exact congrArg some ok2.tl.2
  · have hm : trainedStates g2 ρ g2.fuel (ts1 ++ ts2) = some ((ts1 ++ ts2).map (trainedUnder W2)) := by
      unfold trainedStates
      apply mapM_some
      intro x hx
      rcases List.mem_append.mp hx with hx | hx
      · obtain ⟨l1', l2'⟩ := hlive1 x hx
        rw [ev _ (old _ l1').1, ev _ (old _ l2').1]; rfl
      · obtain ⟨l1', l2'⟩ := hlive2 x hx
        rw [ev _ l1', ev _ l2']; rfl
    rw [hts, hm, List.map_append, hst2]
    show some (_ ++ _) = some ((denoteC e Scope.origin a1 t1 l1).states ++ _)
    rw [← hst1]
    congr 2
    apply List.map_congr_left
    intro x hx
    obtain ⟨l1', l2'⟩ := hlive1 x hx
    unfold trainedUnder
    rw [(old _ l1').2, (old _ l2').2]

/-- **`Trunk.extend` keeps an omitted segment as it is** — head *and tail*: whatever has been subscribed to the tail of a
segment in the meantime (an untrained side branch tapping the train features, say), a segment the operator does not
supply to `left.extend(...)` is handed on unchanged (`Trunk.use` likewise, by definition: `Option.getD`). This is what
makes `C03_coherence` hold for operators written against the composition API that extend only some of the segments. -/
theorem C03_trunk_extend_omitted (t : Trunk) (a tr l : Option Segment) (g : Graph) (t' : Trunk) (g' : Graph)
    (h : Run (t.extend a tr l) g t' g') :
    (a = none → t'.apply = t.apply) ∧ (tr = none → t'.train = t.train) ∧ (l = none → t'.label = t.label) :=
  trunk_extend_omitted t a tr l g t' g' h

/-- the family of operators written against the composition API (`ApiOp`: `Trunk.extend` / `Trunk.use` with any subset of
segments supplied, labels rewritten from the train features through an untrained side branch, a trained side branch, an
untrained sink on the train tail) realises its hand-written denotation on any certified scope — and hands on a
copyable region -/
theorem C03_api_realises (op : ApiOp) (hop : ∀ a, op = .monitor a → a.stateful = true) (scope : GraphM Trunk) (S : Scope)
    (hs : Spec True scope S) : Spec True (composeApi op scope) (denoteApi op S) :=
  spec_api hs op hop

/-- refusal branch: a debug operator whose train-mode actor is stateless cannot be composed (`Worker.train` raises
`TopologyError('Stateless node training')`), whatever precedes it -/
theorem C03_debug_stateless_refused (a t : Actor) (ht : t.stateful = false) (scope : GraphM Trunk) (g : Graph)
    (left : Trunk) (g1 : Graph) (hs : scope g = .ok (left, g1)) :
    composeDebug a t scope g = .error .statelessTrain := by
  have h1 : newWorker a 1 1 g1 = .ok (_, _) := run_newWorker a 1 1 g1
  have h2 : newWorker t 1 1 (g1.bump.bump.pushNode ⟨g1.next, .worker (g1.next + 1) a 1 1⟩) = .ok (_, _) :=
    run_newWorker t 1 1 _
  unfold composeDebug
  rw [bind_apply, hs]
  simp only [bind_apply, h1, h2]
  simp [train, ht]

/-! ### non-vacuity: concrete expressions satisfying the hypotheses -/

example : (Expr.seq (.wrap (some ⟨1, true⟩) none none)
    (.seq (.wrap none (some ⟨2, true⟩) (some ⟨2, true⟩)) (.mapreduce [⟨3, true⟩, ⟨4, false⟩] 5))).stackFree = true := by decide

example : (Expr.seq (.debug ⟨1, false⟩ ⟨2, true⟩) (.wrap (some ⟨3, true⟩) (some ⟨3, true⟩) (some ⟨4, false⟩))).trainable = true := by
  decide

/-- the hypothesis of `C03_coherence` holds for a three-operator pipeline with a label operator, a shared
mapper and a map-reduce: it is coherent -/
example : Coherent (.seq (.wrap (some ⟨1, true⟩) none none)
    (.seq (.wrap none (some ⟨2, true⟩) (some ⟨2, true⟩)) (.mapreduce [⟨3, true⟩, ⟨4, false⟩] 5))) :=
  C03_coherence _ (by decide)

/-- ... and for `mapper >> FullStack(estimator, mapper >> estimator; 3 folds) >> estimator`: it is coherent -/
example : Coherent (.seq (.seq (.wrap none (some ⟨1, true⟩) (some ⟨1, true⟩))
    (.stack [.wrap none (some ⟨2, true⟩) (some ⟨2, true⟩),
      .seq (.wrap none (some ⟨3, true⟩) (some ⟨3, true⟩)) (.wrap none (some ⟨4, true⟩) (some ⟨4, true⟩))] 3 5 6 7 8))
    (.wrap none (some ⟨9, true⟩) (some ⟨9, true⟩))) :=
  C03_coherence _ (by decide)

/-- nested ensembles (outside the shallow fragment of the earlier rounds): an ensemble stacked on an ensemble ... -/
example : (Expr.seq (.stack [.wrap none none none] 2 0 0 0 0) (.stack [.wrap none none none] 2 0 0 0 0)).shallow = false := by
  decide

example : Coherent (.seq (.stack [.wrap none (some ⟨1, true⟩) (some ⟨1, true⟩)] 2 2 3 4 5)
    (.stack [.wrap none (some ⟨6, true⟩) (some ⟨6, true⟩)] 2 7 8 9 10)) :=
  C03_coherence _ (by decide)

/-- ... an ensemble whose base model is `ensemble >> debug >> estimator`, behind a label operator and a mapper ... -/
example : Coherent (.seq (.seq (.wrap (some ⟨1, true⟩) none none) (.wrap none (some ⟨2, true⟩) (some ⟨2, true⟩)))
    (.stack [.seq (.seq (.stack [.wrap none (some ⟨3, true⟩) (some ⟨3, true⟩), .mapreduce [⟨4, true⟩, ⟨5, false⟩] 6] 2 7 8 9 10)
        (.debug ⟨11, false⟩ ⟨12, true⟩)) (.wrap none (some ⟨13, true⟩) (some ⟨13, true⟩)),
      .wrap none (some ⟨14, false⟩) (some ⟨14, false⟩)] 3 15 16 17 18)) :=
  C03_coherence _ (by decide)

/-- ... and `(mapper >> ensemble) >> ensemble`: the scope of the second ensemble — expanded once per fold and copied —
contains the first one -/
example : Coherent (.seq (.seq (.wrap none (some ⟨1, true⟩) (some ⟨1, true⟩))
      (.stack [.wrap none (some ⟨2, true⟩) (some ⟨2, true⟩)] 2 3 4 5 6))
    (.stack [.stack [.wrap none (some ⟨7, true⟩) (some ⟨7, true⟩)] 2 8 9 10 11] 2 12 13 14 15)) :=
  C03_coherence _ (by decide)

/-- operators written against the composition API: `mapper >> labelMix >> mapper` (the labels of the second mapper are
rewritten from the first mapper's train output; its features are not), and a mixture with every form, also inside an
ensemble -/
example : Coherent (.seq (.wrap none (some ⟨1, true⟩) (some ⟨1, true⟩))
    (.seq (.api (.labelMix 2)) (.wrap none (some ⟨3, true⟩) (some ⟨3, true⟩)))) :=
  C03_coherence _ (by decide)

example : Coherent (.seq (.seq (.api (.extend (some 1) none (some 2) false)) (.api (.monitor ⟨3, true⟩)))
    (.stack [.seq (.api (.tee 4)) (.seq (.api (.extend none (some 5) none true)) (.wrap none (some ⟨6, true⟩) (some ⟨6, true⟩)))]
      2 7 8 9 10)) :=
  C03_coherence _ (by decide)

end ForML.Compose
