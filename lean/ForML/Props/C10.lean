/-
C10 — Ordinal windows deliver each record as the delivery semantic promises.

All window theorems are for *every* strictly increasing sequence of bounds `b₀ < b₁ < … < bₙ`
(unbounded lists, induction) and every record ordinal `x` over an *arbitrary linearly ordered
type* `α` (`Std.IsLinearOrder` + `Std.LawfulOrderLT`: integers, strings, dates, timestamps, floats
without NaN, …).  `deliveries sem b x` counts the consecutive windows `(b₀,b₁), (b₁,b₂), …` whose
predicate — built from the *generated* `onceTable` — accepts `x`; the `C10_history` / `C10_records`
theorems lift this to the record positions delivered by a history of launches
(`Prepared.__call__` per launch, bounds as given by the caller, cast to the column's kind) over
any data, and `C10_incremental_training` to the windows that `Runner.train` chains through the
training tag.
-/
import ForML.Model.Ordinal

set_option linter.unusedSectionVars false

namespace ForML.Ordinal
open Std

/-! ### table facts (re-proved against the regenerated table on every run) -/

theorem C10_table_exactly : onceTable .exactly = (.ge, .lt) := rfl
theorem C10_table_atmost : onceTable .atmost = (.gt, .le) := rfl
theorem C10_table_atleast : onceTable .atleast = (.ge, .le) := rfl

/-- the enum has exactly the three semantics the property names -/
theorem C10_table_members : ∀ s : Once, s ∈ Once.all := by
  intro s; cases s <;> decide

/-- every spelling of the alias table resolves to the member whose name it contains, the member
names themselves are spellings, and no spelling is listed twice -/
theorem C10_aliases_consistent :
    (∀ p ∈ aliasTable, parseOnce p.1 = .ok p.2) ∧
    (∀ s ∈ Once.all, parseOnce s.name = .ok s) ∧
    (aliasTable.map (·.1)).Nodup := by
  decide +kernel

/-- the documented spellings (docstring of `Source.query`) -/
theorem C10_aliases_documented :
    parseOnce "atleast" = .ok .atleast ∧ parseOnce "atmost" = .ok .atmost ∧
    parseOnce "exactly" = .ok .exactly ∧ parseOnce "At-Least-Once" = .ok .atleast ∧
    parseOnce "nonsense" = .error .valueError := by
  decide +kernel

section order
variable {α : Type} [LE α] [LT α] [DecidableLE α] [DecidableLT α] [DecidableEq α]
  [IsLinearOrder α] [LawfulOrderLT α]

/-! ### window predicate in closed form -/

private theorem inWindow_exactly (lo hi x : α) :
    inWindow .exactly (some lo) (some hi) x = (decide (lo ≤ x) && decide (x < hi)) := rfl
private theorem inWindow_atmost (lo hi x : α) :
    inWindow .atmost (some lo) (some hi) x = (decide (lo < x) && decide (x ≤ hi)) := rfl
private theorem inWindow_atleast (lo hi x : α) :
    inWindow .atleast (some lo) (some hi) x = (decide (lo ≤ x) && decide (x ≤ hi)) := rfl

private theorem le_last (a : α) (r : List α) (h : StrictInc (a :: r)) : a ≤ last a r := by
  induction r generalizing a with
  | nil => simp only [last]; grind
  | cons b r ih =>
    have := ih b h.2
    simp only [last]
    have := h.1
    grind

/-! ### C10_exactly -/

/-- **C10_exactly**: under exactly-once a record is delivered exactly once if `b₀ ≤ x < bₙ` and not
at all otherwise. -/
theorem C10_exactly (b0 : α) (r : List α) (h : StrictInc (b0 :: r)) (x : α) :
    deliveries .exactly (b0 :: r) x = if b0 ≤ x ∧ x < last b0 r then 1 else 0 := by
  induction r generalizing b0 with
  | nil =>
    have : ¬ (b0 ≤ x ∧ x < b0) := by grind
    simp [deliveries, last, this]
  | cons b1 r ih =>
    have h1 := h.1
    have hl := le_last b1 r h.2
    simp only [deliveries, last, ih b1 h.2, inWindow_exactly, Bool.and_eq_true, decide_eq_true_eq]
    grind

/-! ### C10_atmost -/

/-- **C10_atmost** (closed form): delivered exactly once if `b₀ < x ≤ bₙ`, not at all otherwise. -/
theorem C10_atmost (b0 : α) (r : List α) (h : StrictInc (b0 :: r)) (x : α) :
    deliveries .atmost (b0 :: r) x = if b0 < x ∧ x ≤ last b0 r then 1 else 0 := by
  induction r generalizing b0 with
  | nil =>
    have : ¬ (b0 < x ∧ x ≤ b0) := by grind
    simp [deliveries, last, this]
  | cons b1 r ih =>
    have h1 := h.1
    have hl := le_last b1 r h.2
    simp only [deliveries, last, ih b1 h.2, inWindow_atmost, Bool.and_eq_true, decide_eq_true_eq]
    grind

/-- never twice under at-most-once -/
theorem C10_atmost_never_twice (b : List α) (h : StrictInc b) (x : α) :
    deliveries .atmost b x ≤ 1 := by
  cases b with
  | nil => simp [deliveries]
  | cons b0 r => rw [C10_atmost b0 r h x]; split <;> omega

/-! ### C10_atleast -/

private theorem interiorHits_zero_of_le (a : α) (r : List α) (h : StrictInc (a :: r)) (x : α)
    (hx : x ≤ a) : interiorHits (a :: r) x = 0 := by
  induction r generalizing a with
  | nil => simp [interiorHits]
  | cons b r ih =>
    cases r with
    | nil => simp [interiorHits]
    | cons c r' =>
      have h1 := h.1
      have := ih b h.2 (by grind)
      simp only [interiorHits, this]
      have : x ≠ b := by grind
      simp [this]

/-- **C10_atleast** (closed form, at least one window): one delivery for being inside
`[b₀, bₙ]` plus one for each interior bound equal to `x`. -/
theorem C10_atleast (b0 b1 : α) (r : List α) (h : StrictInc (b0 :: b1 :: r)) (x : α) :
    deliveries .atleast (b0 :: b1 :: r) x
      = (if b0 ≤ x ∧ x ≤ last b1 r then 1 else 0) + interiorHits (b0 :: b1 :: r) x := by
  induction r generalizing b0 b1 with
  | nil =>
    simp only [deliveries, last, interiorHits, inWindow_atleast, Bool.and_eq_true, decide_eq_true_eq]
    grind
  | cons b2 r ih =>
    have h1 := h.1
    have h2 := h.2.1
    have hl := le_last b2 r h.2.2
    have := ih b1 b2 h.2
    simp only [deliveries, last, interiorHits, inWindow_atleast, Bool.and_eq_true,
      decide_eq_true_eq] at this ⊢
    rw [this]
    grind

/-- an interior bound is hit at most once (bounds are distinct) -/
theorem C10_interior_le_one (b : List α) (h : StrictInc b) (x : α) : interiorHits b x ≤ 1 := by
  induction b with
  | nil => simp [interiorHits]
  | cons a r ih =>
    cases r with
    | nil => simp [interiorHits]
    | cons b r' =>
      cases r' with
      | nil => simp [interiorHits]
      | cons c r'' =>
        have := ih h.2
        simp only [interiorHits] at this ⊢
        split
        · rename_i hx
          have hz := interiorHits_zero_of_le b (c :: r'') h.2 x (by grind)
          omega
        · omega

/-- only a record whose ordinal *is* a bound (other than the first and the last one) is hit -/
theorem C10_interior_mem (b0 : α) (r : List α) (h : StrictInc (b0 :: r)) (x : α)
    (hx : 0 < interiorHits (b0 :: r) x) : x ∈ r ∧ b0 < x ∧ x < last b0 r := by
  induction r generalizing b0 with
  | nil => simp [interiorHits] at hx
  | cons b1 r ih =>
    cases r with
    | nil => simp [interiorHits] at hx
    | cons b2 r' =>
      have h1 := h.1
      have h2 := h.2.1
      have hl := le_last b2 r' h.2.2
      simp only [interiorHits] at hx
      by_cases hxb : x = b1
      · subst hxb
        refine ⟨by simp, h1, ?_⟩
        simp only [last]; grind
      · simp only [hxb, if_false, Nat.zero_add] at hx
        have := ih b1 h.2 (by simpa [interiorHits] using hx)
        refine ⟨by simp [this.1], by grind, ?_⟩
        simpa [last] using this.2.2

/-- conversely every interior bound is hit -/
theorem C10_interior_hit (b0 : α) (r : List α) (h : StrictInc (b0 :: r)) (x : α)
    (hm : x ∈ r) (hl : x < last b0 r) : interiorHits (b0 :: r) x = 1 := by
  induction r generalizing b0 with
  | nil => simp at hm
  | cons b1 r ih =>
    cases r with
    | nil =>
      simp at hm; subst hm
      simp only [last] at hl
      grind
    | cons b2 r' =>
      by_cases hxb : x = b1
      · subst hxb
        have hz := interiorHits_zero_of_le x (b2 :: r') h.2 x (by grind)
        simp only [interiorHits] at hz ⊢
        simp [hz]
      · have hm' : x ∈ b2 :: r' := by
          simp only [List.mem_cons] at hm ⊢
          rcases hm with h' | h'
          · exact absurd h' hxb
          · exact h'
        have := ih b1 h.2 hm' (by simpa [last] using hl)
        simp only [interiorHits] at this ⊢
        simp [hxb, this]

/-- never zero times under at-least-once for a record inside `[b₀, bₙ]`; never more than twice;
twice only for a record whose ordinal equals an interior bound -/
theorem C10_atleast_bounds (b0 b1 : α) (r : List α) (h : StrictInc (b0 :: b1 :: r)) (x : α) :
    (b0 ≤ x ∧ x ≤ last b1 r → 1 ≤ deliveries .atleast (b0 :: b1 :: r) x) ∧
    deliveries .atleast (b0 :: b1 :: r) x ≤ 2 ∧
    (2 ≤ deliveries .atleast (b0 :: b1 :: r) x → x ∈ b1 :: r ∧ b0 < x ∧ x < last b1 r) := by
  rw [C10_atleast b0 b1 r h x]
  have hle := C10_interior_le_one (b0 :: b1 :: r) h x
  refine ⟨?_, ?_, ?_⟩
  · intro hin; simp [hin]
  · split <;> omega
  · intro h2
    have hpos : 0 < interiorHits (b0 :: b1 :: r) x := by
      split at h2 <;> omega
    have := C10_interior_mem b0 (b1 :: r) h x hpos
    simpa [last] using this

/-! ### C10_only_bounds -/

/-- **C10_only_bounds**: a record strictly inside the covered range whose ordinal is not a bound is
delivered exactly once under all three semantics (only bound-valued records can be duplicated or
dropped). -/
theorem C10_only_bounds (sem : Once) (b0 b1 : α) (r : List α) (h : StrictInc (b0 :: b1 :: r))
    (x : α) (hlo : b0 < x) (hhi : x < last b1 r) (hn : x ∉ b0 :: b1 :: r) :
    deliveries sem (b0 :: b1 :: r) x = 1 := by
  cases sem with
  | exactly =>
    rw [C10_exactly b0 (b1 :: r) h x]
    have : b0 ≤ x ∧ x < last b0 (b1 :: r) := ⟨by grind, by simpa [last] using hhi⟩
    simp [this]
  | atmost =>
    rw [C10_atmost b0 (b1 :: r) h x]
    have : b0 < x ∧ x ≤ last b0 (b1 :: r) := ⟨hlo, by simp only [last]; grind⟩
    simp [this]
  | atleast =>
    rw [C10_atleast b0 b1 r h x]
    have hz : interiorHits (b0 :: b1 :: r) x = 0 := by
      cases hc : interiorHits (b0 :: b1 :: r) x with
      | zero => rfl
      | succ n =>
        have := (C10_interior_mem b0 (b1 :: r) h x (by omega)).1
        exact absurd (List.mem_cons_of_mem b0 this) hn
    have : b0 ≤ x ∧ x ≤ last b1 r := ⟨by grind, by grind⟩
    simp [this, hz]

/-- a record outside `[b₀, bₙ]` is never delivered, whatever the semantic -/
theorem C10_outside (sem : Once) (b0 : α) (r : List α) (h : StrictInc (b0 :: r)) (x : α)
    (hx : x < b0 ∨ last b0 r < x) : deliveries sem (b0 :: r) x = 0 := by
  have hl := le_last b0 r h
  cases sem with
  | exactly => rw [C10_exactly b0 r h x]; grind
  | atmost => rw [C10_atmost b0 r h x]; grind
  | atleast =>
    cases r with
    | nil => simp [deliveries]
    | cons b1 r' =>
      rw [C10_atleast b0 b1 r' h x]
      have hz : interiorHits (b0 :: b1 :: r') x = 0 := by
        cases hc : interiorHits (b0 :: b1 :: r') x with
        | zero => rfl
        | succ n =>
          have := C10_interior_mem b0 (b1 :: r') h x (by omega)
          grind
      simp only [last] at hx hl
      grind

/-- **only records whose ordinal equals a bound may be duplicated or dropped**: whenever a record
inside `[b₀, bₙ]` is not delivered exactly once, its ordinal is one of the bounds -/
theorem C10_anomaly_only_at_bounds (sem : Once) (b0 b1 : α) (r : List α)
    (h : StrictInc (b0 :: b1 :: r)) (x : α) (hlo : b0 ≤ x) (hhi : x ≤ last b1 r)
    (hne : deliveries sem (b0 :: b1 :: r) x ≠ 1) : x ∈ b0 :: b1 :: r := by
  apply Classical.byContradiction
  intro hn
  have h0 : x ≠ b0 := by intro e; exact hn (by simp [e])
  have hlast : ∀ (a : α) (l : List α), last a l ∈ a :: l := by
    intro a l
    induction l generalizing a with
    | nil => simp [last]
    | cons c l ih => simp only [last]; exact List.mem_cons_of_mem a (ih c)
  have h1 : x ≠ last b1 r := by
    intro e; exact hn (by rw [e]; exact List.mem_cons_of_mem b0 (hlast b1 r))
  exact hne (C10_only_bounds sem b0 b1 r h x (by grind) (by grind) hn)

/-! ### C10_open_side -/

/-- **C10_open_side**: a missing bound imposes no constraint on that side. -/
theorem C10_open_side (sem : Once) (b x : α) :
    inWindow sem none none x = true ∧
    inWindow sem (some b) none x = (onceTable sem).1.eval x b ∧
    inWindow sem none (some b) x = (onceTable sem).2.eval x b := by
  simp [inWindow]

/-- with an open first and an open last window the launches tile the whole axis: exactly-once and
at-most-once deliver *every* record exactly once, at-least-once delivers every record once plus
once more for each bound it equals -/
theorem C10_open_tiling (b0 : α) (r : List α) (h : StrictInc (b0 :: r)) (x : α) :
    deliveriesOpen .exactly b0 r x = 1 ∧ deliveriesOpen .atmost b0 r x = 1 ∧
    1 ≤ deliveriesOpen .atleast b0 r x := by
  have hl := le_last b0 r h
  refine ⟨?_, ?_, ?_⟩
  · simp only [deliveriesOpen, C10_exactly b0 r h x, inWindow, onceTable, Cmp.eval, Bool.true_and,
      Bool.and_true, decide_eq_true_eq]
    grind
  · simp only [deliveriesOpen, C10_atmost b0 r h x, inWindow, onceTable, Cmp.eval, Bool.true_and,
      Bool.and_true, decide_eq_true_eq]
    grind
  · cases r with
    | nil =>
      simp only [deliveriesOpen, deliveries, last, inWindow, onceTable, Cmp.eval, Bool.true_and,
        Bool.and_true, decide_eq_true_eq]
      grind
    | cons b1 r' =>
      simp only [deliveriesOpen, C10_atleast b0 b1 r' h x, last, inWindow, onceTable, Cmp.eval,
        Bool.true_and, Bool.and_true, decide_eq_true_eq]
      grind

end order

/-! ### `Ordinal.where` / `Prepared.__call__` agree with the window predicate -/

section prepared
variable {α : Type} [LE α] [LT α] [DecidableLE α] [DecidableLT α] [DecidableEq α]

/-- every bound that is given can be cast to the column's kind -/
def Castable (k : Kind) (b : Option (Raw α)) : Prop := ∀ r, b = some r → castRule k r.ty ≠ .err

private theorem cast_ok (k : Kind) (r : Raw α) (hr : castRule k r.ty ≠ .err) : cast k r = .ok r.pt := by
  unfold cast
  split
  · rename_i he; exact absurd he hr
  · rfl

/-- the statement produced by `Prepared.__call__` for an ordinal source selects exactly the
records of `inWindow` (bounds whose cast succeeds are interpreted as the point they denote) -/
theorem C10_prepared_window (sem : Once) (k : Kind) (lo hi : Option (Raw α))
    (hlo : Castable k lo) (hhi : Castable k hi) :
    ∃ ts, prepared (some (k, sem)) lo hi = .ok ts ∧
      ∀ x, evalTerms ts x = inWindow sem (lo.map (·.pt)) (hi.map (·.pt)) x := by
  cases lo with
  | none =>
    cases hi with
    | none => exact ⟨[], rfl, fun x => by simp [evalTerms, inWindow]⟩
    | some u =>
      refine ⟨[((onceTable sem).2, u.pt)], ?_, fun x => by simp [evalTerms, inWindow]⟩
      simp [prepared, whereTerms, whereTermsWith, cast_ok k u (hhi u rfl), bind, Except.bind, pure, Except.pure]
  | some l =>
    cases hi with
    | none =>
      refine ⟨[((onceTable sem).1, l.pt)], ?_, fun x => by simp [evalTerms, inWindow]⟩
      simp [prepared, whereTerms, whereTermsWith, cast_ok k l (hlo l rfl), bind, Except.bind, pure, Except.pure]
    | some u =>
      refine ⟨[((onceTable sem).1, l.pt), ((onceTable sem).2, u.pt)], ?_,
        fun x => by simp [evalTerms, inWindow]⟩
      simp [prepared, whereTerms, whereTermsWith, cast_ok k l (hlo l rfl), cast_ok k u (hhi u rfl), bind,
        Except.bind, pure, Except.pure]

/-- a bound that cannot be cast to the column's kind is refused (`CastError`), never ignored -/
theorem C10_uncastable_refused (sem : Once) (k : Kind) (lo hi : Option (Raw α))
    (h : (∃ r, lo = some r ∧ castRule k r.ty = .err) ∨ (∃ r, hi = some r ∧ castRule k r.ty = .err)) :
    prepared (some (k, sem)) lo hi = .error .castError := by
  have hc : ∀ r : Raw α, castRule k r.ty = .err → cast k r = .error .castError := by
    intro r hr; simp [cast, hr]
  have hc' : ∀ r : Raw α, cast k r = .error .castError ∨ cast k r = .ok r.pt := by
    intro r; unfold cast; split <;> simp
  rcases h with ⟨r, rfl, hr⟩ | ⟨r, rfl, hr⟩
  · cases hi <;> simp [prepared, whereTerms, whereTermsWith, hc r hr, bind, Except.bind]
  · cases lo with
    | none => simp [prepared, whereTerms, whereTermsWith, hc r hr, bind, Except.bind, pure, Except.pure]
    | some l =>
      rcases hc' l with hl | hl <;>
        simp [prepared, whereTerms, whereTermsWith, hc r hr, hl, bind, Except.bind, pure, Except.pure]

/-! ### both bounds are interpreted by the same cast -/

/-- **lower and upper are cast by the same function** (`self.column.kind.cast`): `Ordinal.where`
is the two-parameter construction instantiated with the column kind's cast on *both* sides -/
theorem C10_where_same_cast (sem : Once) (k : Kind) (lo hi : Option (Raw α)) :
    whereTerms sem k lo hi = whereTermsWith sem (cast k) (cast k) lo hi := rfl

/-- hence **consecutive windows share the cast bound**: whatever point `p` the cast makes of a
caller-given bound `r` (it may differ from the value as given: `int(2.5) = 2`), that same `p` is
what closes the window `(…, r)` and what opens the next window `(r, …)` -/
theorem C10_consecutive_share_bound (sem : Once) (k : Kind) (r : Raw α) (p : α)
    (h : cast k r = .ok p) :
    whereTerms sem k none (some r) = .ok [((onceTable sem).2, p)] ∧
    whereTerms sem k (some r) none = .ok [((onceTable sem).1, p)] := by
  simp [whereTerms, whereTermsWith, h, bind, Except.bind, pure, Except.pure]

/-- the term of a bound never depends on which side the *other* bound is or how it is spelt -/
theorem C10_where_sides_independent (sem : Once) (k : Kind) (a b : Raw α) (p q : α)
    (ha : cast k a = .ok p) (hb : cast k b = .ok q) :
    whereTerms sem k (some a) (some b) = .ok [((onceTable sem).1, p), ((onceTable sem).2, q)] := by
  simp [whereTerms, whereTermsWith, ha, hb, bind, Except.bind, pure, Except.pure]

/-! ### histories of launches over data -/

private theorem count_deliverIdx_aux (p : α → Bool) (data : List α) (n i : Nat) :
    (((data.zipIdx n).filter (fun q => p q.1)).map (·.2)).count i
      = if h : n ≤ i ∧ i - n < data.length then (if p (data[i - n]'h.2) then 1 else 0) else 0 := by
  induction data generalizing n with
  | nil => simp
  | cons a r ih =>
    simp only [List.zipIdx_cons, List.filter_cons]
    by_cases hi : i = n
    · subst hi
      have hz : (((r.zipIdx (i + 1)).filter (fun q => p q.1)).map (·.2)).count i = 0 := by
        rw [ih (i + 1), dif_neg (by omega)]
      by_cases hp : p a = true
      · simp [hp, hz]
      · simp [hp, hz]
    · have ih' := ih (n + 1)
      by_cases hp : p a = true
      · simp only [hp, if_true, List.map_cons, List.count_cons, ih']
        by_cases hlt : n + 1 ≤ i
        · have e : i - n = (i - (n + 1)) + 1 := by omega
          have hni : n ≤ i := by omega
          simp only [hlt, hni, true_and, e, List.length_cons, Nat.add_lt_add_iff_right,
            List.getElem_cons_succ]
          have : (n == i) = false := by simp; omega
          simp [this]
        · have hni : ¬ n ≤ i := by omega
          have : (n == i) = false := by simp; omega
          simp [hlt, hni, this]
      · simp only [hp, Bool.false_eq_true, if_false, ih']
        by_cases hlt : n + 1 ≤ i
        · have e : i - n = (i - (n + 1)) + 1 := by omega
          have hni : n ≤ i := by omega
          simp only [hlt, hni, true_and, e, List.length_cons, Nat.add_lt_add_iff_right,
            List.getElem_cons_succ]
        · have hni : ¬ n ≤ i := by omega
          simp [hlt, hni]

/-- one launch delivers position `i` once if the record there satisfies the terms, never twice,
and delivers no position outside the data -/
private theorem count_deliverIdx (ts : List (Term α)) (data : List α) (i : Nat) :
    (deliverIdx ts data).count i
      = if h : i < data.length then (if evalTerms ts data[i] then 1 else 0) else 0 := by
  have := count_deliverIdx_aux (fun x => evalTerms ts x) data 0 i
  simpa [deliverIdx] using this

/-- **C10_history**: a history of launches whose bounds can all be cast to the column's kind is
never refused, has one result per launch, delivers only positions of the data, and delivers the
record at position `i` exactly as many times as there are windows that accept its ordinal. -/
theorem C10_history (sem : Once) (k : Kind) (wins : List (Option (Raw α) × Option (Raw α)))
    (hc : ∀ w ∈ wins, Castable k w.1 ∧ Castable k w.2) (data : List α) :
    ∃ ls, launches (some (k, sem)) wins data = .ok ls ∧ ls.length = wins.length ∧
      (∀ i (h : i < data.length), timesDelivered ls i
        = hits sem (wins.map (fun w => (w.1.map (·.pt), w.2.map (·.pt)))) data[i]) ∧
      (∀ i, data.length ≤ i → timesDelivered ls i = 0) := by
  induction wins with
  | nil => exact ⟨[], rfl, rfl, fun i h => by simp [timesDelivered, hits], fun i h => by simp [timesDelivered]⟩
  | cons w r ih =>
    obtain ⟨ls, hls, hlen, hin, hout⟩ := ih (fun w' hw' => hc w' (List.mem_cons_of_mem w hw'))
    obtain ⟨ts, hts, hev⟩ := C10_prepared_window sem k w.1 w.2 (hc w (by simp)).1 (hc w (by simp)).2
    refine ⟨deliverIdx ts data :: ls, ?_, by simp [hlen], ?_, ?_⟩
    · simp [launches, launch, hts, hls, Except.map]
    · intro i h
      have := hin i h
      simp only [timesDelivered] at this
      simp only [timesDelivered, List.map_cons, List.sum_cons, this, hits, count_deliverIdx, h,
        dite_true, hev]
    · intro i h
      have := hout i h
      simp only [timesDelivered] at this
      have hn : ¬ i < data.length := by omega
      simp [timesDelivered, this, count_deliverIdx, hn]

/-- a history containing a bound that cannot be cast is refused as a whole (nothing is delivered
under a wrongly interpreted bound) -/
theorem C10_history_refused (sem : Once) (k : Kind) (wins : List (Option (Raw α) × Option (Raw α)))
    (w : Option (Raw α) × Option (Raw α)) (hw : w ∈ wins)
    (h : (∃ r, w.1 = some r ∧ castRule k r.ty = .err) ∨ (∃ r, w.2 = some r ∧ castRule k r.ty = .err))
    (data : List α) : ∃ e, launches (some (k, sem)) wins data = .error e := by
  induction wins with
  | nil => cases hw
  | cons v r ih =>
    simp only [launches]
    rcases List.mem_cons.mp hw with e | hm
    · subst e
      simp [launch, C10_uncastable_refused sem k w.1 w.2 h, Except.map]
    · cases hl : launch (some (k, sem)) v.1 v.2 data with
      | error e => exact ⟨e, rfl⟩
      | ok l =>
        obtain ⟨e, he⟩ := ih hm
        exact ⟨e, by simp [he]⟩

private theorem hits_consecutive (sem : Once) (b : List α) (x : α) :
    hits sem (consecutive b) x = deliveries sem b x := by
  induction b with
  | nil => simp [consecutive, hits, deliveries]
  | cons a r ih =>
    cases r with
    | nil => simp [consecutive, hits, deliveries]
    | cons c r' => simp only [consecutive, hits, deliveries, ih]

private theorem map_consecutive {β γ : Type} (f : β → γ) (b : List β) :
    (consecutive b).map (fun w => (w.1.map f, w.2.map f)) = consecutive (b.map f) := by
  induction b with
  | nil => simp [consecutive]
  | cons a r ih =>
    cases r with
    | nil => simp [consecutive]
    | cons c r' => simpa [consecutive] using ih

private theorem castable_consecutive (k : Kind) (bs : List (Raw α))
    (hc : ∀ r ∈ bs, castRule k r.ty ≠ .err) :
    ∀ w ∈ consecutive bs, Castable k w.1 ∧ Castable k w.2 := by
  induction bs with
  | nil => intro w hw; simp [consecutive] at hw
  | cons a r ih =>
    cases r with
    | nil => intro w hw; simp [consecutive] at hw
    | cons c r' =>
      intro w hw
      simp only [consecutive, List.mem_cons] at hw
      rcases hw with e | hw
      · subst e
        constructor
        · intro q hq; cases hq; exact hc a (by simp)
        · intro q hq; cases hq; exact hc c (by simp)
      · exact ih (fun q hq => hc q (List.mem_cons_of_mem a hq)) w hw

end prepared

section records
variable {α : Type} [LE α] [LT α] [DecidableLE α] [DecidableLT α] [DecidableEq α]
  [IsLinearOrder α] [LawfulOrderLT α]

/-- **C10_records** — the property statement per record.  For every delivery semantic, every
sequence of caller-given bounds `b₀, b₁, …, bₙ` (n ≥ 1) that can be cast to the column's kind and
whose denoted points are strictly increasing, and all data: the history of consecutive launches
`(b₀,b₁), (b₁,b₂), …` is not refused and the record at every position `i` (ordinal `x`) is
delivered `c` times where
* exactly-once: `c = 1` if `b₀ ≤ x < bₙ`, else `c = 0`;
* at-most-once: `c ≤ 1`, and `c = 1` if `b₀ < x ≤ bₙ`;
* at-least-once: `c ≥ 1` if `b₀ ≤ x ≤ bₙ`, `c ≤ 2`;
* any semantic: `c = 0` outside `[b₀, bₙ]`; `c = 1` strictly inside when `x` is not a bound; and
  inside `[b₀, bₙ]`, `c ≠ 1` only if `x` is one of the bounds. -/
theorem C10_records (sem : Once) (k : Kind) (b0 b1 : Raw α) (r : List (Raw α))
    (hc : ∀ q ∈ b0 :: b1 :: r, castRule k q.ty ≠ .err)
    (hinc : StrictInc ((b0 :: b1 :: r).map (·.pt))) (data : List α) :
    ∃ ls, launches (some (k, sem)) (consecutive (b0 :: b1 :: r)) data = .ok ls ∧
      ∀ i (h : i < data.length),
        let x := data[i]
        let c := timesDelivered ls i
        let lo := b0.pt
        let hi := last b1.pt (r.map (·.pt))
        let pts := (b0 :: b1 :: r).map (·.pt)
        (sem = .exactly → c = if lo ≤ x ∧ x < hi then 1 else 0) ∧
        (sem = .atmost → c ≤ 1 ∧ (lo < x ∧ x ≤ hi → c = 1)) ∧
        (sem = .atleast → (lo ≤ x ∧ x ≤ hi → 1 ≤ c) ∧ c ≤ 2) ∧
        (x < lo ∨ hi < x → c = 0) ∧
        (lo < x → x < hi → x ∉ pts → c = 1) ∧
        (lo ≤ x → x ≤ hi → c ≠ 1 → x ∈ pts) := by
  obtain ⟨ls, hls, _, hin, _⟩ :=
    C10_history sem k (consecutive (b0 :: b1 :: r)) (castable_consecutive k _ hc) data
  refine ⟨ls, hls, ?_⟩
  intro i h
  have hcount := hin i h
  rw [map_consecutive, hits_consecutive] at hcount
  simp only [List.map_cons] at hcount hinc ⊢
  simp only [hcount]
  refine ⟨?_, ?_, ?_, ?_, ?_, ?_⟩
  · intro hs; subst hs
    have := C10_exactly b0.pt (b1.pt :: r.map (·.pt)) hinc data[i]
    simp only [last] at this
    exact this
  · intro hs; subst hs
    refine ⟨C10_atmost_never_twice _ hinc _, ?_⟩
    intro hx
    rw [C10_atmost b0.pt (b1.pt :: r.map (·.pt)) hinc data[i]]
    simp only [last]; simp [hx]
  · intro hs; subst hs
    have := C10_atleast_bounds b0.pt b1.pt (r.map (·.pt)) hinc data[i]
    exact ⟨this.1, this.2.1⟩
  · intro hx
    exact C10_outside sem b0.pt (b1.pt :: r.map (·.pt)) hinc data[i] (by simpa [last] using hx)
  · intro h1 h2 h3
    exact C10_only_bounds sem b0.pt b1.pt (r.map (·.pt)) hinc data[i] h1 h2 (by simpa using h3)
  · intro h1 h2 h3
    simpa using C10_anomaly_only_at_bounds sem b0.pt b1.pt (r.map (·.pt)) hinc data[i] h1 h2 h3

end records

/-- why the symmetry matters: if the upper bound were interpreted differently from the lower one
(here: upper left as given, `2.5` standing one rank above `int(2.5) = 2`), two consecutive
exactly-once windows sharing that bound would deliver the record with ordinal `2` twice — the
construction with two different interpretations does *not* satisfy the exactly-once clause -/
theorem C10_asymmetric_cast_counterexample :
    ¬ (∀ (castHi : Raw Int → Except Err Int) (a b c : Raw Int) (x : Int) (ta tb : List (Term Int)),
        whereTermsWith .exactly (cast .integer) castHi (some a) (some b) = .ok ta →
        whereTermsWith .exactly (cast .integer) castHi (some b) (some c) = .ok tb →
        (if evalTerms ta x then 1 else 0) + (if evalTerms tb x then 1 else 0) ≤ 1) := by
  intro h
  have := h (fun r => .ok (r.pt + 1)) ⟨.int, 0, false⟩ ⟨.float, 2, true⟩ ⟨.int, 5, true⟩ 2
    [(.ge, 0), (.lt, 3)] [(.ge, 2), (.lt, 6)] (by decide) (by decide)
  revert this
  decide

/-- **bounds are interpreted in the column's kind**: whatever `kind.cast` hands to the bound
operator is an instance of the kind's Python type (decided over all kind × value-class pairs) -/
theorem C10_cast_in_kind : ∀ (k : Kind) (t t' : PyT), castType k t = some t' → isInstance k t' = true := by
  intro k t t'; cases k <;> cases t <;> cases t' <;> decide

/-! ### C10_refusal: bounds given to a source without an ordinal are refused -/

section refusal
variable {α : Type} [LE α] [LT α] [DecidableLE α] [DecidableLT α] [DecidableEq α]

/-- the statement at full strength, for a given implementation of `Prepared.__call__` -/
def C10_refusal_full
    (prep : Option (Kind × Once) → Option (Raw α) → Option (Raw α) → Except Err (List (Term α))) : Prop :=
  ∀ lo hi : Option (Raw α), (lo.isSome ∨ hi.isSome) → prep none lo hi = .error .unexpectedError

/-- **C10_refusal** holds for `Prepared.__call__` as it is now (`is not None`) -/
theorem C10_refusal : C10_refusal_full (α := α) prepared := by
  intro lo hi h
  cases lo <;> cases hi <;> simp_all [prepared]

/-- without bounds a source without ordinal is left alone (no false refusal) -/
theorem C10_refusal_only_bounds : prepared (α := α) none none none = .ok [] := rfl

/-- a history of launches on a source without ordinal is refused as soon as any bound is given -/
theorem C10_refusal_history (w : Option (Raw α) × Option (Raw α)) (h : w.1.isSome ∨ w.2.isSome)
    (r : List (Option (Raw α) × Option (Raw α))) (data : List α) :
    launches none (w :: r) data = .error .unexpectedError := by
  simp [launches, launch, C10_refusal w.1 w.2 h, Except.map]

/-- what the code before the repair (`elif lower or upper`) does guarantee: truthy bounds are refused -/
theorem C10_refusal_legacy_partial (lo hi : Option (Raw α)) (h : truthyOpt lo = true ∨ truthyOpt hi = true) :
    preparedLegacy none lo hi = .error .unexpectedError := by
  rcases h with h | h <;> simp [preparedLegacy, h]

end refusal

/-- the code before the repair silently ignores a falsy bound such as `0`: witness lower = integer 0 -/
theorem C10_refusal_legacy_counterexample : ¬ C10_refusal_full (α := Int) preparedLegacy := by
  intro h
  have := h (some ⟨.int, 0, false⟩) none (by simp)
  revert this
  decide

/-! ### C10_train_lower: an explicit lower bound is never replaced by the tag's ordinal -/

section train
variable {α : Type}

def C10_train_lower_full (f : Option (Raw α) → Option (Raw α) → Option (Raw α)) : Prop :=
  (∀ (l : Raw α) (tag : Option (Raw α)), f (some l) tag = some l) ∧ (∀ tag, f none tag = tag)

/-- holds for `Runner.train` as it is now -/
theorem C10_train_lower : C10_train_lower_full (α := α) trainLower := ⟨fun _ _ => rfl, fun _ => rfl⟩

theorem C10_train_lower_legacy_partial (l : Raw α) (tag : Option (Raw α)) (h : l.truthy = true) :
    trainLowerLegacy (some l) tag = some l := by
  simp [trainLowerLegacy, truthyOpt, h]

/-- **window chaining**: trainings launched without explicit lower bound extract consecutive
windows — from a tag without ordinal the first window is open below, then each training starts
where the previous one ended -/
theorem C10_train_chain (u : Raw α) (us : List (Raw α)) :
    trainChain none (u :: us) = (none, some u) :: consecutive (u :: us) ∧
    ∀ t : Raw α, trainChain (some t) (u :: us) = consecutive (t :: u :: us) := by
  have key : ∀ (us : List (Raw α)) (t : Raw α), trainChain (some t) us = consecutive (t :: us) := by
    intro us
    induction us with
    | nil => intro t; rfl
    | cons v r ih => intro t; simp only [trainChain, trainLower, consecutive, ih]
  exact ⟨by simp only [trainChain, trainLower, key], fun t => key _ t⟩

end train

/-- `lower or tag.training.ordinal` replaces an explicit `0` by the tag's ordinal -/
theorem C10_train_lower_legacy_counterexample : ¬ C10_train_lower_full (α := Int) trainLowerLegacy := by
  intro h
  have := h.1 ⟨.int, 0, false⟩ (some ⟨.int, 5, true⟩)
  revert this
  decide

section incremental
variable {α : Type} [LE α] [LT α] [DecidableLE α] [DecidableLT α] [DecidableEq α]
  [IsLinearOrder α] [LawfulOrderLT α]

/-- **C10_incremental_training**: a model trained incrementally from scratch (first tag without
ordinal) with increasing upper bounds `u₀ < u₁ < … < uₙ` and no explicit lower bounds sees, over
the whole history of trainings and any data, every record
* exactly-once: exactly once if `x < uₙ`, not (yet) otherwise;
* at-most-once: exactly once if `x ≤ uₙ`, not (yet) otherwise;
* at-least-once: at least once if `x ≤ uₙ`, at most twice, and twice only if `x` is one of the
  earlier upper bounds. -/
theorem C10_incremental_training (sem : Once) (k : Kind) (u0 : Raw α) (us : List (Raw α))
    (hc : ∀ q ∈ u0 :: us, castRule k q.ty ≠ .err)
    (hinc : StrictInc ((u0 :: us).map (·.pt))) (data : List α) :
    ∃ ls, launches (some (k, sem)) (trainChain none (u0 :: us)) data = .ok ls ∧
      ls.length = (u0 :: us).length ∧
      ∀ i (h : i < data.length),
        let x := data[i]
        let c := timesDelivered ls i
        let hi := last u0.pt (us.map (·.pt))
        (sem = .exactly → c = if x < hi then 1 else 0) ∧
        (sem = .atmost → c = if x ≤ hi then 1 else 0) ∧
        (sem = .atleast → (x ≤ hi → 1 ≤ c) ∧ (hi < x → c = 0) ∧ c ≤ 2 ∧
          (2 ≤ c → x ∈ (u0 :: us).map (·.pt) ∧ x < hi)) := by
  have hwins : ∀ w ∈ trainChain none (u0 :: us), Castable k w.1 ∧ Castable k w.2 := by
    rw [(C10_train_chain u0 us).1]
    intro w hw
    rcases List.mem_cons.mp hw with e | hw
    · subst e
      exact ⟨fun q hq => (by cases hq), fun q hq => (by cases hq; exact hc u0 (by simp))⟩
    · exact castable_consecutive k _ hc w hw
  obtain ⟨ls, hls, hlen, hin, _⟩ := C10_history sem k _ hwins data
  refine ⟨ls, hls, ?_, ?_⟩
  · rw [hlen, (C10_train_chain u0 us).1]
    have : ∀ (β : Type) (l : List β), (consecutive l).length = l.length - 1 := by
      intro β l
      induction l with
      | nil => rfl
      | cons a r ih =>
        cases r with
        | nil => rfl
        | cons c r' => simp only [consecutive, List.length_cons, ih]; simp
    simp [this]
  intro i h
  have hcount := hin i h
  rw [(C10_train_chain u0 us).1] at hcount
  simp only [List.map_cons, hits, Option.map_none, Option.map_some, map_consecutive,
    hits_consecutive] at hcount
  simp only [List.map_cons] at hinc
  have hl := le_last u0.pt (us.map (·.pt)) hinc
  simp only [hcount]
  refine ⟨?_, ?_, ?_⟩
  · intro hs; subst hs
    rw [C10_exactly u0.pt (us.map (·.pt)) hinc data[i]]
    simp only [inWindow, onceTable, Cmp.eval, Bool.true_and, decide_eq_true_eq]
    grind
  · intro hs; subst hs
    rw [C10_atmost u0.pt (us.map (·.pt)) hinc data[i]]
    simp only [inWindow, onceTable, Cmp.eval, Bool.true_and, decide_eq_true_eq]
    grind
  · intro hs; subst hs
    cases hus : us.map (·.pt) with
    | nil =>
      simp only [hus, last] at hl ⊢
      simp only [deliveries, inWindow, onceTable, Cmp.eval, Bool.true_and, decide_eq_true_eq]
      grind
    | cons u1 r =>
      rw [hus] at hinc hl
      have hb := C10_atleast_bounds u0.pt u1 r hinc data[i]
      have hcf := C10_atleast u0.pt u1 r hinc data[i]
      have hle := C10_interior_le_one (u0.pt :: u1 :: r) hinc data[i]
      have hout := C10_outside .atleast u0.pt (u1 :: r) hinc data[i]
      simp only [last] at hl hout ⊢
      simp only [inWindow, onceTable, Cmp.eval, Bool.true_and, decide_eq_true_eq] at hcf ⊢
      refine ⟨?_, ?_, ?_, ?_⟩
      · intro hx
        by_cases hlo : data[i] ≤ u0.pt
        · simp [hlo]
        · have := hb.1 ⟨by grind, hx⟩
          omega
      · intro hx
        have h0 : ¬ data[i] ≤ u0.pt := by grind
        simp [h0, hout (Or.inr hx)]
      · by_cases hlo : data[i] ≤ u0.pt
        · have hz := interiorHits_zero_of_le u0.pt (u1 :: r) hinc data[i] hlo
          rw [hcf, hz]
          simp only [hlo, if_true]
          split <;> omega
        · simp only [hlo, if_false]
          have := hb.2.1
          omega
      · intro h2
        by_cases hlo : data[i] ≤ u0.pt
        · have hz := interiorHits_zero_of_le u0.pt (u1 :: r) hinc data[i] hlo
          rw [hcf, hz] at h2
          simp only [hlo, if_true] at h2
          have hin2 : u0.pt ≤ data[i] ∧ data[i] ≤ last u1 r := by
            apply Classical.byContradiction
            intro hn
            simp only [hn, if_false] at h2
            omega
          have he : data[i] = u0.pt := by grind
          refine ⟨by simp [he], ?_⟩
          have := hinc.1
          have := le_last u1 r hinc.2
          grind
        · simp only [hlo, if_false, Nat.zero_add] at h2
          have := hb.2.2 h2
          exact ⟨List.mem_cons_of_mem _ (by rw [hus]; exact this.1), this.2.2⟩

end incremental

/-! ### `Extract.__new__` -/

/-- a delivery semantic without an ordinal column is refused; with an ordinal the default is
exactly-once -/
theorem C10_extract_once (s : String) (hs : s ≠ "") :
    extractOrdinal false (some s) = .error .invalidError ∧
    extractOrdinal true none = .ok (some .exactly) ∧ extractOrdinal false none = .ok none := by
  simp [extractOrdinal, hs, ordinalOnce, Except.map]

/-! ### non-vacuity (tests, not theorems) -/

example : StrictInc ([-3, 0, 2, 7] : List Int) := by decide
example : deliveries .exactly ([-3, 0, 2, 7] : List Int) 0 = 1 := by decide
example : deliveries .atmost ([-3, 0, 2, 7] : List Int) (-3) = 0 := by decide
example : deliveries .atleast ([-3, 0, 2, 7] : List Int) 2 = 2 := by decide
example : deliveries .atleast ([-3, 0, 2, 7] : List Int) 7 = 1 := by decide
example : interiorHits ([-3, 0, 2, 7] : List Int) 2 = 1 := by decide
example : deliveriesOpen .atleast (-3 : Int) [0, 2, 7] 7 = 2 := by decide
example : deliveriesOpen .atmost (-3 : Int) [0, 2, 7] 100 = 1 := by decide
example : launch (some (.integer, .atleast)) (some ⟨.strGood, (0 : Int), true⟩) (some ⟨.int, 2, true⟩) [5, 0, 1, 2, -1]
    = .ok [1, 2, 3] := by decide
example : launch none (some ⟨.int, (0 : Int), false⟩) none [1] = .error .unexpectedError := by decide
example : launch (some (.integer, .exactly)) (some ⟨.date, (0 : Int), true⟩) none [1] = .error .castError := by decide
example : castRule .timestamp .date = .conv ∧ castRule .date .datetime = .same := by decide
-- the hypotheses of C10_records / C10_incremental_training are satisfiable by non-trivial objects,
-- and the histories they talk about deliver what the theorems say (two records with ordinal 2)
example : launches (some (.integer, .atleast))
    (consecutive [(⟨.int, (0 : Int), false⟩ : Raw Int), ⟨.strGood, 2, true⟩, ⟨.float, 5, true⟩]) [2, 7, 0, 2, 5]
    = .ok [[0, 2, 3], [0, 3, 4]] := by decide
example : launches (some (.integer, .exactly))
    (trainChain none [(⟨.int, (0 : Int), false⟩ : Raw Int), ⟨.int, 2, true⟩, ⟨.int, 5, true⟩]) [2, 7, 0, 2, 5, -4]
    = .ok [[5], [2], [0, 3]] := by decide
example : timesDelivered [[0, 2, 3], [0, 3, 4]] 3 = 2 := by decide
-- the linear-order hypotheses hold for the types standing for the ordinal kinds
example : IsLinearOrder Int ∧ LawfulOrderLT Int := ⟨inferInstance, inferInstance⟩
example : IsLinearOrder String ∧ LawfulOrderLT String := ⟨inferInstance, inferInstance⟩
example : IsLinearOrder Nat ∧ LawfulOrderLT Nat := ⟨inferInstance, inferInstance⟩

end ForML.Ordinal
