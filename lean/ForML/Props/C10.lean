/-
C10 — Ordinal windows deliver each record as the delivery semantic promises.

All window theorems are for *every* strictly increasing sequence of bounds `b₀ < b₁ < … < bₙ`
(unbounded lists, induction) and every record ordinal `x` over `Int` (the harness maps each
ordinal kind's domain to ranks).  `deliveries sem b x` counts the consecutive windows
`(b₀,b₁), (b₁,b₂), …` whose predicate — built from the *generated* `onceTable` — accepts `x`.
-/
import ForML.Model.Ordinal

namespace ForML.Ordinal

/-! ### table facts (re-proved against the regenerated table on every run) -/

theorem C10_table_exactly : onceTable .exactly = (.ge, .lt) := rfl
theorem C10_table_atmost : onceTable .atmost = (.gt, .le) := rfl
theorem C10_table_atleast : onceTable .atleast = (.ge, .le) := rfl

/-- the enum has exactly the three semantics the property names -/
theorem C10_table_members : ∀ s : Once, s ∈ Once.all := by
  intro s; cases s <;> decide

/-- every spelling of the alias table resolves to the member whose name it contains, the member
names themselves are spellings, and no spelling is listed twice -/
theorem C10_aliases_consistent :
    (∀ p ∈ aliasTable, parseOnce p.1 = .ok p.2) ∧
    (∀ s ∈ Once.all, parseOnce s.name = .ok s) ∧
    (aliasTable.map (·.1)).Nodup := by
  decide +kernel

/-- the documented spellings (docstring of `Source.query`) -/
theorem C10_aliases_documented :
    parseOnce "atleast" = .ok .atleast ∧ parseOnce "atmost" = .ok .atmost ∧
    parseOnce "exactly" = .ok .exactly ∧ parseOnce "At-Least-Once" = .ok .atleast ∧
    parseOnce "nonsense" = .error .valueError := by
  decide +kernel

/-! ### window predicate in closed form -/

private theorem inWindow_exactly (lo hi x : Int) :
    inWindow .exactly (some lo) (some hi) x = (decide (lo ≤ x) && decide (x < hi)) := rfl
private theorem inWindow_atmost (lo hi x : Int) :
    inWindow .atmost (some lo) (some hi) x = (decide (lo < x) && decide (x ≤ hi)) := rfl
private theorem inWindow_atleast (lo hi x : Int) :
    inWindow .atleast (some lo) (some hi) x = (decide (lo ≤ x) && decide (x ≤ hi)) := rfl

private theorem le_last (a : Int) (r : List Int) (h : StrictInc (a :: r)) : a ≤ last a r := by
  induction r generalizing a with
  | nil => simp [last]
  | cons b r ih =>
    have := ih b h.2
    simp only [last]
    have := h.1
    omega

/-! ### C10_exactly -/

/-- **C10_exactly**: under exactly-once a record is delivered exactly once if `b₀ ≤ x < bₙ` and not
at all otherwise. -/
theorem C10_exactly (b0 : Int) (r : List Int) (h : StrictInc (b0 :: r)) (x : Int) :
    deliveries .exactly (b0 :: r) x = if b0 ≤ x ∧ x < last b0 r then 1 else 0 := by
  induction r generalizing b0 with
  | nil =>
    have : ¬ (b0 ≤ x ∧ x < b0) := by omega
    simp [deliveries, last, this]
  | cons b1 r ih =>
    have h1 := h.1
    have hl := le_last b1 r h.2
    simp only [deliveries, last, ih b1 h.2, inWindow_exactly, Bool.and_eq_true, decide_eq_true_eq]
    grind

/-! ### C10_atmost -/

/-- **C10_atmost** (closed form): delivered exactly once if `b₀ < x ≤ bₙ`, not at all otherwise. -/
theorem C10_atmost (b0 : Int) (r : List Int) (h : StrictInc (b0 :: r)) (x : Int) :
    deliveries .atmost (b0 :: r) x = if b0 < x ∧ x ≤ last b0 r then 1 else 0 := by
  induction r generalizing b0 with
  | nil =>
    have : ¬ (b0 < x ∧ x ≤ b0) := by omega
    simp [deliveries, last, this]
  | cons b1 r ih =>
    have h1 := h.1
    have hl := le_last b1 r h.2
    simp only [deliveries, last, ih b1 h.2, inWindow_atmost, Bool.and_eq_true, decide_eq_true_eq]
    grind

/-- never twice under at-most-once -/
theorem C10_atmost_never_twice (b : List Int) (h : StrictInc b) (x : Int) :
    deliveries .atmost b x ≤ 1 := by
  cases b with
  | nil => simp [deliveries]
  | cons b0 r => rw [C10_atmost b0 r h x]; split <;> omega

/-! ### C10_atleast -/

private theorem interiorHits_zero_of_le (a : Int) (r : List Int) (h : StrictInc (a :: r)) (x : Int)
    (hx : x ≤ a) : interiorHits (a :: r) x = 0 := by
  induction r generalizing a with
  | nil => simp [interiorHits]
  | cons b r ih =>
    cases r with
    | nil => simp [interiorHits]
    | cons c r' =>
      have h1 := h.1
      have := ih b h.2 (by omega)
      simp only [interiorHits, this]
      have : x ≠ b := by omega
      simp [this]

/-- **C10_atleast** (closed form, at least one window): one delivery for being inside
`[b₀, bₙ]` plus one for each interior bound equal to `x`. -/
theorem C10_atleast (b0 b1 : Int) (r : List Int) (h : StrictInc (b0 :: b1 :: r)) (x : Int) :
    deliveries .atleast (b0 :: b1 :: r) x
      = (if b0 ≤ x ∧ x ≤ last b1 r then 1 else 0) + interiorHits (b0 :: b1 :: r) x := by
  induction r generalizing b0 b1 with
  | nil =>
    simp only [deliveries, last, interiorHits, inWindow_atleast, Bool.and_eq_true, decide_eq_true_eq]
    grind
  | cons b2 r ih =>
    have h1 := h.1
    have h2 := h.2.1
    have hl := le_last b2 r h.2.2
    have := ih b1 b2 h.2
    simp only [deliveries, last, interiorHits, inWindow_atleast, Bool.and_eq_true,
      decide_eq_true_eq] at this ⊢
    rw [this]
    grind

/-- an interior bound is hit at most once (bounds are distinct) -/
theorem C10_interior_le_one (b : List Int) (h : StrictInc b) (x : Int) : interiorHits b x ≤ 1 := by
  induction b with
  | nil => simp [interiorHits]
  | cons a r ih =>
    cases r with
    | nil => simp [interiorHits]
    | cons b r' =>
      cases r' with
      | nil => simp [interiorHits]
      | cons c r'' =>
        have := ih h.2
        simp only [interiorHits] at this ⊢
        split
        · rename_i hx
          have hz := interiorHits_zero_of_le b (c :: r'') h.2 x (by omega)
          omega
        · omega

/-- only a record whose ordinal *is* a bound (other than the first and the last one) is hit -/
theorem C10_interior_mem (b0 : Int) (r : List Int) (h : StrictInc (b0 :: r)) (x : Int)
    (hx : 0 < interiorHits (b0 :: r) x) : x ∈ r ∧ b0 < x ∧ x < last b0 r := by
  induction r generalizing b0 with
  | nil => simp [interiorHits] at hx
  | cons b1 r ih =>
    cases r with
    | nil => simp [interiorHits] at hx
    | cons b2 r' =>
      have h1 := h.1
      have h2 := h.2.1
      have hl := le_last b2 r' h.2.2
      simp only [interiorHits] at hx
      by_cases hxb : x = b1
      · subst hxb
        refine ⟨by simp, h1, ?_⟩
        simp only [last]; omega
      · simp only [hxb, if_false, Nat.zero_add] at hx
        have := ih b1 h.2 (by simpa [interiorHits] using hx)
        refine ⟨by simp [this.1], by omega, ?_⟩
        simpa [last] using this.2.2

/-- conversely every interior bound is hit -/
theorem C10_interior_hit (b0 : Int) (r : List Int) (h : StrictInc (b0 :: r)) (x : Int)
    (hm : x ∈ r) (hl : x < last b0 r) : interiorHits (b0 :: r) x = 1 := by
  induction r generalizing b0 with
  | nil => simp at hm
  | cons b1 r ih =>
    cases r with
    | nil =>
      simp at hm; subst hm
      simp [last] at hl
    | cons b2 r' =>
      by_cases hxb : x = b1
      · subst hxb
        have hz := interiorHits_zero_of_le x (b2 :: r') h.2 x (by omega)
        simp only [interiorHits] at hz ⊢
        simp [hz]
      · have hm' : x ∈ b2 :: r' := by
          simp only [List.mem_cons] at hm ⊢
          rcases hm with h' | h'
          · exact absurd h' hxb
          · exact h'
        have := ih b1 h.2 hm' (by simpa [last] using hl)
        simp only [interiorHits] at this ⊢
        simp [hxb, this]

/-- never zero times under at-least-once for a record inside `[b₀, bₙ]`; never more than twice;
twice only for a record whose ordinal equals an interior bound -/
theorem C10_atleast_bounds (b0 b1 : Int) (r : List Int) (h : StrictInc (b0 :: b1 :: r)) (x : Int) :
    (b0 ≤ x ∧ x ≤ last b1 r → 1 ≤ deliveries .atleast (b0 :: b1 :: r) x) ∧
    deliveries .atleast (b0 :: b1 :: r) x ≤ 2 ∧
    (2 ≤ deliveries .atleast (b0 :: b1 :: r) x → x ∈ b1 :: r ∧ b0 < x ∧ x < last b1 r) := by
  rw [C10_atleast b0 b1 r h x]
  have hle := C10_interior_le_one (b0 :: b1 :: r) h x
  refine ⟨?_, ?_, ?_⟩
  · intro hin; simp [hin]
  · split <;> omega
  · intro h2
    have hpos : 0 < interiorHits (b0 :: b1 :: r) x := by
      split at h2 <;> omega
    have := C10_interior_mem b0 (b1 :: r) h x hpos
    simpa [last] using this

/-! ### C10_only_bounds -/

/-- **C10_only_bounds**: a record strictly inside the covered range whose ordinal is not a bound is
delivered exactly once under all three semantics (only bound-valued records can be duplicated or
dropped). -/
theorem C10_only_bounds (sem : Once) (b0 b1 : Int) (r : List Int) (h : StrictInc (b0 :: b1 :: r))
    (x : Int) (hlo : b0 < x) (hhi : x < last b1 r) (hn : x ∉ b0 :: b1 :: r) :
    deliveries sem (b0 :: b1 :: r) x = 1 := by
  cases sem with
  | exactly =>
    rw [C10_exactly b0 (b1 :: r) h x]
    have : b0 ≤ x ∧ x < last b0 (b1 :: r) := ⟨by omega, by simpa [last] using hhi⟩
    simp [this]
  | atmost =>
    rw [C10_atmost b0 (b1 :: r) h x]
    have : b0 < x ∧ x ≤ last b0 (b1 :: r) := ⟨hlo, by simp only [last]; omega⟩
    simp [this]
  | atleast =>
    rw [C10_atleast b0 b1 r h x]
    have hz : interiorHits (b0 :: b1 :: r) x = 0 := by
      cases hc : interiorHits (b0 :: b1 :: r) x with
      | zero => rfl
      | succ n =>
        have := (C10_interior_mem b0 (b1 :: r) h x (by omega)).1
        exact absurd (List.mem_cons_of_mem b0 this) hn
    have : b0 ≤ x ∧ x ≤ last b1 r := ⟨by omega, by omega⟩
    simp [this, hz]

/-! ### C10_open_side -/

/-- **C10_open_side**: a missing bound imposes no constraint on that side. -/
theorem C10_open_side (sem : Once) (b x : Int) :
    inWindow sem none none x = true ∧
    inWindow sem (some b) none x = (onceTable sem).1.eval x b ∧
    inWindow sem none (some b) x = (onceTable sem).2.eval x b := by
  simp [inWindow]

/-- with an open first and an open last window the launches tile the whole axis: exactly-once and
at-most-once deliver *every* record exactly once, at-least-once delivers every record once plus
once more for each bound it equals -/
theorem C10_open_tiling (b0 : Int) (r : List Int) (h : StrictInc (b0 :: r)) (x : Int) :
    deliveriesOpen .exactly b0 r x = 1 ∧ deliveriesOpen .atmost b0 r x = 1 ∧
    1 ≤ deliveriesOpen .atleast b0 r x := by
  have hl := le_last b0 r h
  refine ⟨?_, ?_, ?_⟩
  · simp only [deliveriesOpen, C10_exactly b0 r h x, inWindow, onceTable, Cmp.eval, Bool.true_and,
      Bool.and_true, decide_eq_true_eq]
    grind
  · simp only [deliveriesOpen, C10_atmost b0 r h x, inWindow, onceTable, Cmp.eval, Bool.true_and,
      Bool.and_true, decide_eq_true_eq]
    grind
  · cases r with
    | nil =>
      simp only [deliveriesOpen, deliveries, last, inWindow, onceTable, Cmp.eval, Bool.true_and,
        Bool.and_true, decide_eq_true_eq]
      grind
    | cons b1 r' =>
      simp only [deliveriesOpen, C10_atleast b0 b1 r' h x, last, inWindow, onceTable, Cmp.eval,
        Bool.true_and, Bool.and_true, decide_eq_true_eq]
      grind

/-! ### `Ordinal.where` / `Prepared.__call__` agree with the window predicate -/

private def native (p : Int) : Raw := ⟨.int, p, true⟩

/-- the statement produced by `Prepared.__call__` for an ordinal source selects exactly the
records of `inWindow` (bounds whose cast succeeds are interpreted as the point they denote) -/
theorem C10_prepared_window (sem : Once) (k : Kind) (lo hi : Option Raw)
    (hlo : ∀ r, lo = some r → castRule k r.ty ≠ .err) (hhi : ∀ r, hi = some r → castRule k r.ty ≠ .err) :
    ∃ ts, prepared (some (k, sem)) lo hi = .ok ts ∧
      ∀ x, evalTerms ts x = inWindow sem (lo.map (·.pt)) (hi.map (·.pt)) x := by
  have hc : ∀ r : Raw, castRule k r.ty ≠ .err → cast k r = .ok r.pt := by
    intro r hr
    unfold cast
    split
    · rename_i he; exact absurd he hr
    · rfl
  cases lo with
  | none =>
    cases hi with
    | none => exact ⟨[], rfl, fun x => by simp [evalTerms, inWindow]⟩
    | some u =>
      refine ⟨[((onceTable sem).2, u.pt)], ?_, fun x => by simp [evalTerms, inWindow]⟩
      simp [prepared, whereTerms, hc u (hhi u rfl), bind, Except.bind, pure, Except.pure]
  | some l =>
    cases hi with
    | none =>
      refine ⟨[((onceTable sem).1, l.pt)], ?_, fun x => by simp [evalTerms, inWindow]⟩
      simp [prepared, whereTerms, hc l (hlo l rfl), bind, Except.bind, pure, Except.pure]
    | some u =>
      refine ⟨[((onceTable sem).1, l.pt), ((onceTable sem).2, u.pt)], ?_,
        fun x => by simp [evalTerms, inWindow]⟩
      simp [prepared, whereTerms, hc l (hlo l rfl), hc u (hhi u rfl), bind, Except.bind, pure,
        Except.pure]

/-- a bound that cannot be cast to the column's kind is refused (`CastError`), never ignored -/
theorem C10_uncastable_refused (sem : Once) (k : Kind) (lo hi : Option Raw)
    (h : (∃ r, lo = some r ∧ castRule k r.ty = .err) ∨ (∃ r, hi = some r ∧ castRule k r.ty = .err)) :
    prepared (some (k, sem)) lo hi = .error .castError := by
  have hc : ∀ r : Raw, castRule k r.ty = .err → cast k r = .error .castError := by
    intro r hr; simp [cast, hr]
  have hc' : ∀ r : Raw, cast k r = .error .castError ∨ cast k r = .ok r.pt := by
    intro r; unfold cast; split <;> simp
  rcases h with ⟨r, rfl, hr⟩ | ⟨r, rfl, hr⟩
  · cases hi <;> simp [prepared, whereTerms, hc r hr, bind, Except.bind]
  · cases lo with
    | none => simp [prepared, whereTerms, hc r hr, bind, Except.bind, pure, Except.pure]
    | some l =>
      rcases hc' l with hl | hl <;>
        simp [prepared, whereTerms, hc r hr, hl, bind, Except.bind, pure, Except.pure]

/-- **bounds are interpreted in the column's kind**: whatever `kind.cast` hands to the bound
operator is an instance of the kind's Python type (decided over all kind × value-class pairs) -/
theorem C10_cast_in_kind : ∀ (k : Kind) (t t' : PyT), castType k t = some t' → isInstance k t' = true := by
  intro k t t'; cases k <;> cases t <;> cases t' <;> decide

/-! ### C10_refusal: bounds given to a source without an ordinal are refused -/

/-- the statement at full strength, for a given implementation of `Prepared.__call__` -/
def C10_refusal_full (prep : Option (Kind × Once) → Option Raw → Option Raw → Except Err (List Term)) : Prop :=
  ∀ lo hi : Option Raw, (lo.isSome ∨ hi.isSome) → prep none lo hi = .error .unexpectedError

/-- **C10_refusal** holds for the repaired `Prepared.__call__` (`is not None`) -/
theorem C10_refusal : C10_refusal_full prepared := by
  intro lo hi h
  cases lo <;> cases hi <;> simp_all [prepared]

/-- without bounds a source without ordinal is left alone (no false refusal) -/
theorem C10_refusal_only_bounds : prepared none none none = .ok [] := rfl

/-- the code before the repair (`elif lower or upper`) silently ignores a falsy bound such as `0`:
witness lower = integer 0 -/
theorem C10_refusal_legacy_counterexample : ¬ C10_refusal_full preparedLegacy := by
  intro h
  have := h (some ⟨.int, 0, false⟩) none (by simp)
  revert this
  decide

/-- what the unrepaired code does guarantee: truthy bounds are refused -/
theorem C10_refusal_legacy_partial (lo hi : Option Raw) (h : truthyOpt lo = true ∨ truthyOpt hi = true) :
    preparedLegacy none lo hi = .error .unexpectedError := by
  rcases h with h | h <;> simp [preparedLegacy, h]

/-! ### C10_train_lower: an explicit lower bound is never replaced by the tag's ordinal -/

def C10_train_lower_full (f : Option Raw → Option Raw → Option Raw) : Prop :=
  (∀ (l : Raw) (tag : Option Raw), f (some l) tag = some l) ∧ (∀ tag, f none tag = tag)

/-- holds for the repaired `Runner.train` -/
theorem C10_train_lower : C10_train_lower_full trainLower := ⟨fun _ _ => rfl, fun _ => rfl⟩

/-- `lower or tag.training.ordinal` replaces an explicit `0` by the tag's ordinal -/
theorem C10_train_lower_legacy_counterexample : ¬ C10_train_lower_full trainLowerLegacy := by
  intro h
  have := h.1 ⟨.int, 0, false⟩ (some ⟨.int, 5, true⟩)
  revert this
  decide

theorem C10_train_lower_legacy_partial (l : Raw) (tag : Option Raw) (h : l.truthy = true) :
    trainLowerLegacy (some l) tag = some l := by
  simp [trainLowerLegacy, truthyOpt, h]

/-! ### `Extract.__new__` -/

/-- a delivery semantic without an ordinal column is refused; with an ordinal the default is
exactly-once -/
theorem C10_extract_once (s : String) (hs : s ≠ "") :
    extractOrdinal false (some s) = .error .invalidError ∧
    extractOrdinal true none = .ok (some .exactly) ∧ extractOrdinal false none = .ok none := by
  simp [extractOrdinal, hs, ordinalOnce, Except.map]

/-! ### non-vacuity (tests, not theorems) -/

example : StrictInc [-3, 0, 2, 7] := by decide
example : deliveries .exactly [-3, 0, 2, 7] 0 = 1 := by decide
example : deliveries .atmost [-3, 0, 2, 7] (-3) = 0 := by decide
example : deliveries .atleast [-3, 0, 2, 7] 2 = 2 := by decide
example : deliveries .atleast [-3, 0, 2, 7] 7 = 1 := by decide
example : interiorHits [-3, 0, 2, 7] 2 = 1 := by decide
example : deliveriesOpen .atleast (-3) [0, 2, 7] 7 = 2 := by decide
example : deliveriesOpen .atmost (-3) [0, 2, 7] 100 = 1 := by decide
example : launch (some (.integer, .atleast)) (some ⟨.strGood, 0, true⟩) (some ⟨.int, 2, true⟩) [5, 0, 1, 2, -1]
    = .ok [1, 2, 3] := by decide
example : launch none (some ⟨.int, 0, false⟩) none [1] = .error .unexpectedError := by decide
example : launch (some (.integer, .exactly)) (some ⟨.date, 0, true⟩) none [1] = .error .castError := by decide
example : castRule .timestamp .date = .conv ∧ castRule .date .datetime = .same := by decide

end ForML.Ordinal
