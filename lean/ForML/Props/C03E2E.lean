/-
C03 ∘ C01 — end to end through the flow stack: composition, then compilation.

For a pipeline expression `e` behind a source, `flow.Composition(source, e)` (model: `Compose.composition`, whose graph
evaluates to `⟦e⟧` by C03) is cut into its train and apply segments (`toSegment`: bound futures collapsed, members =
what `Traversal.each` visits, C01's `Segment`), each segment is compiled by the compiler model in the order of
`Traversal.each` and the instruction table is executed by the reference interpreter (C01).  The theorem: the functor of
the segment's tail yields `⟦e⟧`'s train / apply output on the source's outputs, the functors of the trained forks yield
`⟦e⟧`'s states, where the apply run is given the store holding those very states at the list positions of
`Composition.persistent`.

Status: `C03_end_to_end_partial` — *validated* form.  The side condition `bridgeOK src e` is decidable and is evaluated
by the driver on every generated expression (it holds for every expression the generator produced that touches the
train path); it bundles C01's `wf` / `connected` / `assetsOK` of the two translated segments with bookkeeping facts on
the recorded trainings.  What is missing for the unconditional theorem is a proof that `bridgeOK` holds for every
trainable `e` that maps the train path; it fails — and with it the statement — exactly when `e` leaves the train path
untouched (`C03_end_to_end_counterexample`: the train segment then ends in the `Future` proxying the first output port
of the two-output label extractor, not a single-output tail worker).
-/
import ForML.Props.C03
import ForML.Lemmas.C03BridgeFinal

namespace ForML.Compose
open ForML

/-- **End to end, validated**: for every accepted expression whose two translated segments pass the decidable checks,
compiling the train segment (no asset accessor) and the apply segment (accessor = the states of the train run at the
positions of `Composition.persistent`) in the order of `Traversal.each` succeeds, and executing the tables yields
`⟦e⟧` of the source's outputs at the tails and `⟦e⟧`'s states at the trained forks. -/
theorem C03_end_to_end_partial (src : Source) (e : Expr) (htr : e.trainable = true) (hok : bridgeOK src e = true) :
    ∃ sg, segments src e = .ok sg ∧
      ∃ o t, sg.train.each = .ok o ∧ Flow.compile sg.train none o = .ok t ∧
        (Flow.run none t).get (.uid sg.train.tail) = some (conv (denoteOn src e).train) ∧
        sg.graph.trains.map (fun T => (Flow.run none t).get (.uid T.node)) =
          (denoteOn src e).states.map (fun s => some (conv s.2)) ∧
        ∃ o' t', sg.apply.each = .ok o' ∧
          Flow.compile sg.apply (some (applyAssets sg (Flow.run none t))) o' = .ok t' ∧
          (Flow.run (some (applyAssets sg (Flow.run none t))) t').get (.uid sg.apply.tail) =
            some (conv (denoteOn src e).apply) := by
  obtain ⟨tk, g, W, hrun, ck⟩ := composition_spec src (C03_expand_realises e htr)
  have hcomp : composition src e {} = .ok (tk, g) := hrun
  have hseg : segments src e = .ok ⟨toSegment g tk.train.head tk.train.publisher,
      toSegment g tk.apply.head tk.apply.publisher, g, tk⟩ := by
    unfold segments; rw [hcomp]
  unfold bridgeOK at hok
  rw [hseg] at hok
  unfold bridgeOKof at hok
  simp only [Bool.and_eq_true, List.all_eq_true] at hok
  obtain ⟨⟨⟨⟨⟨⟨⟨⟨⟨⟨⟨wfT, cT⟩, aT⟩, sT⟩, tkT⟩, allT⟩, wfA⟩, cA⟩, aA⟩, sA⟩, tkA⟩, noneA⟩ := hok
  refine ⟨_, hseg, ?_⟩
  -- notation
  obtain ⟨Mt, hMt⟩ : ∃ x, x = membersOf g tk.train.head (tailNode g tk.train.publisher) := ⟨_, rfl⟩
  obtain ⟨Ma, hMa⟩ : ∃ x, x = membersOf g tk.apply.head (tailNode g tk.apply.publisher) := ⟨_, rfl⟩
  obtain ⟨tlT, htlT⟩ : ∃ x, x = tailNode g tk.train.publisher := ⟨_, rfl⟩
  obtain ⟨tlA, htlA⟩ : ∃ x, x = tailNode g tk.apply.publisher := ⟨_, rfl⟩
  have eT : toSegment g tk.train.head tk.train.publisher = segmentOn g Mt tk.train.head tlT := by
    rw [hMt, htlT]; rfl
  have eA : toSegment g tk.apply.head tk.apply.publisher = segmentOn g Ma tk.apply.head tlA := by
    rw [hMa, htlA]; rfl
  simp only at wfT cT aT sT tkT allT wfA cA aA sA tkA noneA ⊢
  rw [← hMt] at tkT allT
  rw [← hMa] at tkA noneA
  rw [eT] at wfT cT aT sT ⊢
  rw [eA] at wfA cA aA sA ⊢
  have okT := trainsOK_spec tkT
  have okA := trainsOK_spec tkA
  have hb := ck.inv.bounded
  have allT' : ∀ T ∈ g.trains, T.node ∈ Mt := fun T hT => by simpa using allT T hT
  have noneA' : ∀ T ∈ g.trains, T.node ∉ Ma := fun T hT => by simpa using noneA T hT
  -- the train segment
  have HT : BridgeHyp g W Mt tk.train.head tlT none (segRank (segmentOn g Mt tk.train.head tlT)) :=
    { inv := ck.inv, wired := ck.wired, noOpen := ck.noOpen, wf := Flow.Segment.wf_WF wfT
      headSrc := by
        rw [ck.heads.2, ck.frame.kind 2 (by simp [sourceGraph])]
        exact ⟨_, _, _, source_kind2 src⟩
      trainLive := ck.trains.1, gidNodup := okT.gidNodup, trainKind := okT.trainKind, trainNoIn := okT.trainNoIn
      trainIn := okT.trainIn
      groupActor := fun n gid a i o T hk hT => okT.groupActor n gid a i o T (hb.uid_lt hk) hk hT
      tags := fun w hw => okT.tags w (mem_seg_workers.mp hw).1 (mem_seg_workers.mp hw).2
      stored1 := fun _ _ => rfl
      stored2 := fun gid T hT hn _ => absurd (allT' T (trainerOf_mem hT).1) hn }
  obtain ⟨o, t, heach, hcmp, hpres⟩ := Flow.C01_dataflow_traversal _ none _ wfT aT cT
  refine ⟨o, t, heach, hcmp, ?_, ?_, ?_⟩
  · -- the train tail
    obtain ⟨w, hw, hu⟩ := Flow.Segment.mem_uids.mp HT.wf.tail
    have hw? := Flow.Segment.worker?_of_mem HT.wf.nodup hw
    have hv := hpres.values w hw
    rw [hu] at hv hw?
    rw [hv]
    congr 1
    obtain ⟨F, hF1, hF2⟩ : ∃ F, (segmentOn g Mt tk.train.head tlT).evalFuel ≤ F ∧ 2 * g.next + 2 < F :=
      ⟨(segmentOn g Mt tk.train.head tlT).evalFuel + 2 * g.next + 3, by omega, by omega⟩
    have hfu := nodeVal_fuel wfT aT cT hw? hF1
    have htv := HT.tail_value tk.train.publisher ck.tt.1 htlT sT F hF2
    have e1 : (segmentOn g Mt tk.train.head tlT).tail = tlT := rfl
    rw [e1] at hfu ⊢
    rw [← hfu, htv]
    show conv (W.σ ⟨tk.train.tail, 0⟩) = _
    rw [ck.tt.2]; rfl
  · -- the trained forks
    have hval : ∀ T ∈ g.trains, (Flow.run none t).get (.uid T.node) = some (conv (trainedUnder W T).2) := by
      intro T hT
      obtain ⟨o', hk⟩ := okT.trainKind T hT
      obtain ⟨hw, hw?⟩ := HT.worker (allT' T hT) hk
      have hv := hpres.values _ hw
      simp only at hv
      rw [hv]
      congr 1
      obtain ⟨F, hF1, hF2⟩ : ∃ F, (segmentOn g Mt tk.train.head tlT).evalFuel ≤ F ∧ 2 * g.next + 1 < F :=
        ⟨(segmentOn g Mt tk.train.head tlT).evalFuel + 2 * g.next + 3, by omega, by omega⟩
      rw [← nodeVal_fuel wfT aT cT hw? hF1]
      exact HT.trainer_value hT (allT' T hT) F hF2
    show g.trains.map _ = _
    rw [List.map_congr_left hval]
    show g.trains.map _ = (denote e src.xa src.xt src.xl).states.map _
    rw [← ck.trains.2, List.map_map]
    rfl
  · -- the apply segment, with the states of the train run
    obtain ⟨sg, hsg⟩ : ∃ x : Segments, x = ⟨segmentOn g Mt tk.train.head tlT, segmentOn g Ma tk.apply.head tlA, g, tk⟩ :=
      ⟨_, rfl⟩
    rw [← hsg]
    have hval : ∀ T ∈ g.trains, ((Flow.run none t).get (.uid T.node)).getD .none = conv (trainedUnder W T).2 := by
      intro T hT
      obtain ⟨o', hk⟩ := okT.trainKind T hT
      obtain ⟨hw, hw?⟩ := HT.worker (allT' T hT) hk
      have hv := hpres.values _ hw
      simp only at hv
      rw [hv]
      simp only [Option.getD_some]
      obtain ⟨F, hF1, hF2⟩ : ∃ F, (segmentOn g Mt tk.train.head tlT).evalFuel ≤ F ∧ 2 * g.next + 1 < F :=
        ⟨(segmentOn g Mt tk.train.head tlT).evalFuel + 2 * g.next + 3, by omega, by omega⟩
      rw [← nodeVal_fuel wfT aT cT hw? hF1]
      exact HT.trainer_value hT (allT' T hT) F hF2
    obtain ⟨f, hf⟩ : ∃ f : Nat → Flow.Val, f = fun γ =>
        match g.trainerOf γ with
        | some T => ((Flow.run none t).get (.uid T.node)).getD .none
        | none => .none := ⟨_, rfl⟩
    have hAeq : applyAssets sg (Flow.run none t) =
        ⟨persistentOf (segmentOn g Ma tk.apply.head tlA), (persistentOf (segmentOn g Ma tk.apply.head tlA)).map f⟩ := by
      rw [hsg, hf]; rfl
    rw [hAeq]
    obtain ⟨P, hP⟩ : ∃ x, x = persistentOf (segmentOn g Ma tk.apply.head tlA) := ⟨_, rfl⟩
    rw [← hP] at aA ⊢
    have aA' : (segmentOn g Ma tk.apply.head tlA).assetsOK (some ⟨P, P.map f⟩) = true := by
      rw [← Flow.assetsOK_congr (A := some ⟨P, []⟩) (B := some ⟨P, P.map f⟩) _ rfl]; exact aA
    have HA : BridgeHyp g W Ma tk.apply.head tlA (some ⟨P, P.map f⟩) (segRank (segmentOn g Ma tk.apply.head tlA)) :=
      { inv := ck.inv, wired := ck.wired, noOpen := ck.noOpen, wf := Flow.Segment.wf_WF wfA
        headSrc := by
          rw [ck.heads.1, ck.frame.kind 0 (by simp [sourceGraph])]
          exact ⟨_, _, _, source_kind0 src⟩
        trainLive := ck.trains.1, gidNodup := okA.gidNodup, trainKind := okA.trainKind, trainNoIn := okA.trainNoIn
        trainIn := okA.trainIn
        groupActor := fun n gid a i o T hk hT => okA.groupActor n gid a i o T (hb.uid_lt hk) hk hT
        tags := fun w hw => okA.tags w (mem_seg_workers.mp hw).1 (mem_seg_workers.mp hw).2
        stored1 := by
          intro gid hall
          have hnone : g.trainerOf gid = none := by
            cases h : g.trainerOf gid with
            | none => rfl
            | some T => exact absurd (hall T h) (noneA' T (trainerOf_mem h).1)
          rw [storedState_map, hf]
          simp only [hnone]
          split <;> rfl
        stored2 := by
          intro gid T hT hn ⟨w, hw, hg, hst⟩
          obtain ⟨hTm, hTg⟩ := trainerOf_mem hT
          -- the group is trained elsewhere, hence persistent
          have hel : (segmentOn g Ma tk.apply.head tlA).trainedElsewhere.contains w.gid = true := by
            simp only [List.contains_iff_mem]
            show w.gid ∈ dedup _
            rw [mem_dedup]
            refine List.mem_map.mpr ⟨w, List.mem_filter.mpr ⟨hw, ?_⟩, rfl⟩
            simp only [hst, Bool.true_and, List.any_eq_true]
            refine ⟨T, hTm, ?_⟩
            simp [hTg, hg, hn]
          have hp := (Flow.Segment.assetsOK_AssetsOK aA').elsewhere w hw hst hel
          have hc : (Flow.indexOf gid P).isSome = true := by
            simp only [Flow.Segment.persistentW, hst, Bool.true_and] at hp
            rw [← hg]; exact hp
          rw [storedState_map, hf]
          simp only [hc, if_true, hT]
          rw [hval T hTm]
          -- a trained state is truthy
          obtain ⟨hwa, hwM⟩ := mem_seg_workers.mp hw
          have hk := (mem_allWorkers.mp hwa).2
          have hact := okA.groupActor w.uid w.gid _ _ _ T (mem_allWorkers.mp hwa).1 hk (by rw [hg]; exact hT)
          have hlt : T.actor.tag < 1000 := by rw [hact]; exact okA.tags w hwa hwM
          simp only [trainedUnder, conv, Flow.Val.asState, Flow.Val.truthy, Flow.Actor.falsyState, Flow.falsyBase]
          have : T.actor.tag / (2 * 1000) % 2 = 0 := by rw [Nat.div_eq_of_lt (by omega)]
          simp [this] }
    obtain ⟨o', t', heach', hcmp', hpres'⟩ := Flow.C01_dataflow_traversal _ (some ⟨P, P.map f⟩) _ wfA aA' cA
    refine ⟨o', t', heach', hcmp', ?_⟩
    obtain ⟨w, hw, hu⟩ := Flow.Segment.mem_uids.mp HA.wf.tail
    have hw? := Flow.Segment.worker?_of_mem HA.wf.nodup hw
    have hv := hpres'.values w hw
    rw [hu] at hv hw?
    rw [hv]
    congr 1
    obtain ⟨F, hF1, hF2⟩ : ∃ F, (segmentOn g Ma tk.apply.head tlA).evalFuel ≤ F ∧ 2 * g.next + 2 < F :=
      ⟨(segmentOn g Ma tk.apply.head tlA).evalFuel + 2 * g.next + 3, by omega, by omega⟩
    have hfu := nodeVal_fuel wfA aA' cA hw? hF1
    have htv := HA.tail_value tk.apply.publisher ck.ta.1 htlA sA F hF2
    have e1 : (segmentOn g Ma tk.apply.head tlA).tail = tlA := rfl
    rw [e1] at hfu ⊢
    rw [← hfu, htv]
    show conv (W.σ ⟨tk.apply.tail, 0⟩) = _
    rw [ck.ta.2]; rfl

/-! ### non-vacuity: the side condition holds for concrete pipelines -/

/-- the source used by the harness: apply reader 901, train reader 902, label extractor 903 -/
def demoSource : Source := ⟨901, 902, 903⟩

/-- a stateful mapper -/
example : bridgeOK demoSource (.wrap none (some ⟨1, true⟩) (some ⟨1, true⟩)) = true := by decide +kernel

/-- label operator, operator with three different builders, map-reduce -/
example : bridgeOK demoSource (.seq (.wrap (some ⟨1, true⟩) none none)
    (.seq (.wrap (some ⟨2, true⟩) (some ⟨3, true⟩) (some ⟨4, false⟩)) (.mapreduce [⟨5, true⟩, ⟨6, false⟩] 7))) = true := by
  decide +kernel

/-- `mapper >> FullStack(estimator, debug >> estimator; 2 folds) >> estimator` -/
example : bridgeOK demoSource (.seq (.seq (.wrap none (some ⟨1, true⟩) (some ⟨1, true⟩))
    (.stack [.wrap none (some ⟨2, true⟩) (some ⟨2, true⟩),
      .seq (.debug ⟨3, false⟩ ⟨4, true⟩) (.wrap none (some ⟨5, true⟩) (some ⟨5, true⟩))] 2 6 7 8 9))
    (.wrap none (some ⟨10, true⟩) (some ⟨10, true⟩))) = true := by
  decide +kernel

/-- the theorem instantiated -/
example : ∃ sg, segments demoSource (.wrap none (some ⟨1, true⟩) (some ⟨1, true⟩)) = .ok sg ∧
    ∃ o t, sg.train.each = .ok o ∧ Flow.compile sg.train none o = .ok t ∧
      (Flow.run none t).get (.uid sg.train.tail) =
        some (conv (denoteOn demoSource (.wrap none (some ⟨1, true⟩) (some ⟨1, true⟩))).train) :=
  let ⟨sg, h, o, t, h1, h2, h3, _⟩ := C03_end_to_end_partial demoSource _ (by decide) (by decide +kernel)
  ⟨sg, h, o, t, h1, h2, h3⟩

/-! ### the side condition is needed: an expression that leaves the train path untouched -/

/-- the statement without the side condition -/
def C03_end_to_end_full : Prop :=
  ∀ (src : Source) (e : Expr), e.trainable = true →
    ∃ sg, segments src e = .ok sg ∧
      ∃ o t, sg.train.each = .ok o ∧ Flow.compile sg.train none o = .ok t ∧
        (Flow.run none t).get (.uid sg.train.tail) = some (conv (denoteOn src e).train)

/-- a label operator alone: the train path of the pipeline is the source's; its segment ends in the `Future` proxying
output port 0 of the two-output label extractor, i.e. the tail worker is the extractor — C01's `wf` refuses it
(`szout ≤ 1`), and the functor of that worker yields the *pair* (features, labels), not the train features -/
example : bridgeOK demoSource (.wrap (some ⟨1, true⟩) none none) = false := by decide +kernel

def labelOnly : Expr := .wrap (some ⟨1, true⟩) none none

def labelOnlySegments : Segments :=
  match segments demoSource labelOnly with
  | .ok sg => sg
  | .error _ => ⟨default, default, {}, default⟩

def labelOnlyTable : Flow.Table :=
  match Flow.compile labelOnlySegments.train none labelOnlySegments.train.visitOrder with
  | .ok t => t
  | .error _ => []

def isProjVal : Flow.Val → Bool
  | .proj .. => true
  | _ => false


/-- **the side condition cannot be dropped**: for the label operator alone the compiled train table yields, at the
functor of the segment's tail worker (the two-output label extractor), a value that is not the train-mode output
`⟦e⟧.train` (= port 0 of it) -/
theorem C03_end_to_end_counterexample : ¬ C03_end_to_end_full := by
  intro h
  obtain ⟨sg, hs, o, t, he, hc, hv⟩ := h demoSource labelOnly rfl
  have e1 : labelOnlySegments = sg := by
    unfold labelOnlySegments
    rw [hs]
  subst e1
  have e2 : (Except.ok labelOnlySegments.train.visitOrder : Except Flow.Segment.TErr (List Nat)) = Except.ok o :=
    (Flow.C01_traversal_never_cyclic labelOnlySegments.train).symm.trans he
  injection e2 with e2
  subst e2
  have e3 : labelOnlyTable = t := by
    unfold labelOnlyTable
    rw [hc]
  subst e3
  have key : ((Flow.run none labelOnlyTable).get (.uid labelOnlySegments.train.tail)).map isProjVal = some false := by
    decide +kernel
  rw [hv] at key
  have hp : isProjVal (conv (denoteOn demoSource labelOnly).train) = true := by decide +kernel
  rw [Option.map_some, hp] at key
  cases key

end ForML.Compose
