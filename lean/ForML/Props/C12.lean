/-
C12 — Cross-validated evaluation and stacking never leak held-out data.

Reading of the statement in the model (ForML/Model/CrossVal.lean):

* a *pipeline* is a scope `S` (what an expanded trunk computes from its three inputs) that is provenance-`Local`
  (ForML/Lemmas/C12.lean); every expression of the operator library denotes such a scope
  (`C12_pipeline_local`, by induction over the expression, nested ensembles and evaluations included);
* *fold count* `n` and *splitter* are arbitrary: the cross-validator behind splitter `sp` is `E.dec sp`, any
  function from the splitter's training data to index lists (overlapping, non-covering, repeating alike);
* a *prediction for a record* is a row `r` of a provenance value: `r.key` the record, `r.deps` every record
  any model instance was trained on whose output went into the row;
* all data: `E.inp` is arbitrary, the features `X` / labels `L` handed to the evaluation or the ensemble are
  arbitrary terms (e.g. outputs of preceding operators).
-/
import ForML.Lemmas.C12
import ForML.Lemmas.C12Apply
import ForML.Lemmas.C12Reduce
import ForML.Model.CrossValActor

namespace ForML.CrossVal

/-! ### every pipeline -/

/-- every expression of the operator library — wrap operators, MapReduce, `>>`, and (nested) FullStack and
TrainTestScore — is provenance-local, for every data and every splitter decision -/
theorem C12_pipeline_local (E : Env) (p : Pipe) : Local E (denote p) :=
  denoteC_local E p _ (origin_local E)

/-- `pipeline >> TrainTestScore(metric, method)`: the train path ends in the score of the outcomes the method
produces from the *unexpanded* pipeline and the source's features and labels -/
theorem C12_evaluated_pipeline (p : Pipe) (n sp metric reducer : Nat) (xa xt xl : Val) :
    (denote (.seq p (.score n sp metric reducer)) xa xt xl).train
      = (score metric reducer (produce (denote p) n sp xt xl)).getD .none := by
  simp [denote, denoteC, trainTestScore, Scope.origin]

/-- `scope >> FullStack(bases...)`: the ensemble is built over the unexpanded scope and bases -/
theorem C12_stacked_pipeline (p : Pipe) (bases : List Pipe) (n sp appender stacker reducer : Nat) (xa xt xl : Val) :
    denote (.seq p (.stack bases n sp appender stacker reducer)) xa xt xl
      = build (bases.map denote) (folds (denote p) n sp xa xt xl) appender stacker reducer := by
  simp [denote, denoteC, fullStack, Scope.origin, denoteAll_eq_map]

/-! ### evaluation: fold wiring -/

/-- `CrossVal.produce` yields exactly `n` outcomes, outcome `fid` being fold `fid`: true = port `2 fid + 1` of the
label splitter, prediction = the pipeline trained on ports `2 fid` of the feature and label splitters applied to
port `2 fid + 1` of the feature splitter — all four ports of forks holding one and the same state -/
theorem C12_eval_folds (S : Scope) (n sp : Nat) (X L : Val) :
    (produce S n sp X L).length = n ∧
    ∀ fid, fid < n → (produce S n sp X L)[fid]? = some
      ⟨.part sp (.state sp .none X L) (2 * fid + 1) L,
       (S (.part sp (.state sp .none X L) (2 * fid + 1) X) (.part sp (.state sp .none X L) (2 * fid) X)
          (.part sp (.state sp .none X L) (2 * fid) L)).apply⟩ :=
  ⟨produce_length S n sp X L, fun _ h => produce_getElem? S n sp X L h⟩

/-- every fold contributes exactly once: with `n ≥ 2` folds the reducer has exactly `n` arguments, argument `fid`
being the metric of outcome `fid` -/
theorem C12_eval_once (S : Scope) (n sp metric reducer : Nat) (X L : Val) (hn : 2 ≤ n) :
    ∃ args, score metric reducer (produce S n sp X L) = some (.apply reducer .none args) ∧ args.length = n ∧
      ∀ fid, fid < n → args[fid]? = some (.apply metric .none
        [(foldOutcome S sp X L fid).true_, (foldOutcome S sp X L fid).pred]) := by
  refine ⟨(produce S n sp X L).map (metricOf metric), ?_, by simp [produce_length], ?_⟩
  · have hl := produce_length S n sp X L
    match h : produce S n sp X L, hl with
    | [], hl => simp at hl; omega
    | [o], hl => simp at hl; omega
    | o₁ :: o₂ :: rest, _ => simp [score]
  · intro fid hfid
    simp [List.getElem?_map, produce_getElem? S n sp X L hfid, metricOf]

/-- hold-out: exactly one outcome, scored by the metric alone -/
theorem C12_holdout_once (S : Scope) (sp metric reducer : Nat) (X L : Val) :
    score metric reducer (produce S 1 sp X L) = some (.apply metric .none
      [(foldOutcome S sp X L 0).true_, (foldOutcome S sp X L 0).pred]) := by
  simp [produce_eq, score, metricOf, List.range_succ]

/-- **Metric reducers**, for any method's outcomes: no outcome — refused (`assert outcomes`); one — the metric of that
(true, prediction) pair alone; `k ≥ 2` — the reducer over exactly `k` arguments, argument `i` the metric of outcome `i` and
of nothing else: every partition is scored exactly once -/
theorem C12_score_partitions (metric reducer : Nat) (os : List Outcome) :
    (os = [] → score metric reducer os = none) ∧
    (∀ o, os = [o] → score metric reducer os = some (.apply metric .none [o.true_, o.pred])) ∧
    (2 ≤ os.length → ∃ args, score metric reducer os = some (.apply reducer .none args) ∧ args.length = os.length ∧
      ∀ i (h : i < os.length), args[i]? = some (.apply metric .none [os[i].true_, os[i].pred])) := by
  refine ⟨by rintro rfl; rfl, by rintro o rfl; rfl, ?_⟩
  intro h
  refine ⟨os.map (metricOf metric), ?_, by simp, ?_⟩
  · match os, h with
    | o₁ :: o₂ :: rest, _ => simp [score]
  · intro i hi
    simp [List.getElem?_map, List.getElem?_eq_getElem hi, metricOf]

/-! ### performance tracking (`PerfTrackScore`): a previously trained pipeline scored on new data -/

/-- `pipeline >> PerfTrackScore(metric)`: the train path ends in the metric — alone, there is one partition — of (the tracked
labels, the pipeline with the states of the earlier generation applied to the tracked *features of the same data*);
apply and label pass through.  For every local pipeline every scored prediction describes a record of the tracked
features and depends only on what that row depended on and on what the earlier generation was trained on: nothing is
trained on the tracked data — in particular no prediction has seen the outcome it is scored against -/
theorem C12_perftrack (E : Env) (S : Scope) (hS : Local E S) (metric reducer : Nat) (T0 L0 xa xt xl : Val) :
    let out := perfTrackScore metric reducer (T0, L0) S xa xt xl
    let pred := (S xt T0 L0).apply
    out.train = .apply metric .none [xl, pred] ∧ out.apply = xa ∧ out.label = xl ∧
    (∀ r ∈ rows E pred, r.key ∈ (rows E xt).keys) ∧
    (∀ r ∈ rows E pred, ∀ x ∈ r.deps, x ∈ (rows E xt).deps ∨ x ∈ (rows E T0).atoms ∨ x ∈ (rows E L0).atoms) := by
  intro out pred
  refine ⟨rfl, rfl, rfl, hS.applyKeys _ _ _ _ (keysIn_self _), ?_⟩
  let P : Atom → Prop := fun x => x ∈ (rows E xt).deps ∨ x ∈ (rows E T0).atoms ∨ x ∈ (rows E L0).atoms
  exact hS.applyDeps _ _ _ P ((depsIn_self _).mono fun _ h => .inl h) ((atomsIn_self _).mono fun _ h => .inr (.inl h))
    ((atomsIn_self _).mono fun _ h => .inr (.inr h))

/-! ### evaluation: no leak -/

/-- **No leak in evaluation.**  For every local pipeline, fold count, splitter decision and fold `fid` with
decided positions `(tr, te)`: the true outcomes of outcome `fid` are exactly the held-out labels of fold `fid`;
every scored prediction describes a held-out record of fold `fid` and depends only on what that held-out feature
row depended on before the split and on records of the *training part of fold `fid`*. -/
theorem C12_eval_noleak (E : Env) (S : Scope) (hS : Local E S) (n sp : Nat) (X L : Val)
    (fid : Nat) (hfid : fid < n) (o : Outcome) (ho : (produce S n sp X L)[fid]? = some o)
    (tr te : List Nat) (hdec : (E.dec sp (rows E X) (rows E L))[fid]? = some (tr, te)) :
    rows E o.true_ = select te (rows E L) ∧
    (∀ r ∈ rows E o.pred, r.key ∈ (select te (rows E X)).keys) ∧
    (∀ r ∈ rows E o.pred, ∀ x ∈ r.deps,
      x ∈ (select te (rows E X)).deps ∨ x ∈ (select tr (rows E X)).atoms ∨ x ∈ (select tr (rows E L)).atoms) := by
  rw [produce_getElem? S n sp X L hfid] at ho
  cases ho
  have hH := rows_part_test E sp .none X L X fid tr te hdec
  have hT := rows_part_train E sp .none X L X fid tr te hdec
  have hTL := rows_part_train E sp .none X L L fid tr te hdec
  refine ⟨rows_part_test E sp .none X L L fid tr te hdec, ?_, ?_⟩
  · exact hS.applyKeys _ _ _ _ (hH ▸ keysIn_self _)
  · let P : Atom → Prop := fun x =>
      x ∈ (select te (rows E X)).deps ∨ x ∈ (select tr (rows E X)).atoms ∨ x ∈ (select tr (rows E L)).atoms
    have h1 : DepsIn (rows E (.part sp (.state sp .none X L) (2 * fid + 1) X)) P :=
      hH ▸ (depsIn_self _).mono fun _ h => .inl h
    have h2 : AtomsIn (rows E (.part sp (.state sp .none X L) (2 * fid) X)) P :=
      hT ▸ (atomsIn_self _).mono fun _ h => .inr (.inl h)
    have h3 : AtomsIn (rows E (.part sp (.state sp .none X L) (2 * fid) L)) P :=
      hTL ▸ (atomsIn_self _).mono fun _ h => .inr (.inr h)
    exact hS.applyDeps _ _ _ P h1 h2 h3

/-- …on source data (rows that do not depend on any trained model yet): every record a scored prediction depends
on is the feature or label record at a *train position of fold `fid`* -/
theorem C12_eval_trained_on_train_part (E : Env) (S : Scope) (hS : Local E S) (n sp : Nat) (X L : Val)
    (fid : Nat) (hfid : fid < n) (o : Outcome) (ho : (produce S n sp X L)[fid]? = some o)
    (tr te : List Nat) (hdec : (E.dec sp (rows E X) (rows E L))[fid]? = some (tr, te))
    (hX : ∀ r ∈ rows E X, r.deps = []) (hL : ∀ r ∈ rows E L, r.deps = []) :
    ∀ r ∈ rows E o.pred, ∀ x ∈ r.deps, ∃ p ∈ tr, ∃ q,
      ((rows E X)[p]? = some q ∨ (rows E L)[p]? = some q) ∧ x = q.key := by
  intro r hr x hx
  obtain ⟨_, _, h⟩ := C12_eval_noleak E S hS n sp X L fid hfid o ho tr te hdec
  rcases h r hr x hx with h | h | h
  · obtain ⟨q, hq, hxq⟩ := mem_deps.mp h
    rw [hX q (mem_select hq)] at hxq
    cases hxq
  · obtain ⟨q, hq, hxq⟩ := mem_atoms.mp h
    obtain ⟨p, hp, hpq⟩ := mem_select_iff.mp hq
    rcases hxq with rfl | hxq
    · exact ⟨p, hp, q, .inl hpq, rfl⟩
    · rw [hX q (mem_select hq)] at hxq; cases hxq
  · obtain ⟨q, hq, hxq⟩ := mem_atoms.mp h
    obtain ⟨p, hp, hpq⟩ := mem_select_iff.mp hq
    rcases hxq with rfl | hxq
    · exact ⟨p, hp, q, .inr hpq, rfl⟩
    · rw [hL q (mem_select hq)] at hxq; cases hxq

private theorem nodup_getElem?_inj {l : List Nat} (h : l.Nodup) {i j : Nat} {a : Nat}
    (hi : l[i]? = some a) (hj : l[j]? = some a) : i = j := by
  obtain ⟨hi', rfl⟩ := List.getElem?_eq_some_iff.mp hi
  obtain ⟨hj', hja⟩ := List.getElem?_eq_some_iff.mp hj
  have hp := List.pairwise_iff_getElem.mp h
  rcases Nat.lt_trichotomy i j with hlt | heq | hgt
  · exact absurd hja.symm (hp i j hi' hj' hlt)
  · exact heq
  · exact absurd hja (hp j i hj' hi' hgt)

private theorem rids_getElem? {d : Data} {p : Nat} {q : Row} (h : d[p]? = some q) : d.rids[p]? = some q.key.rid := by
  simp [Data.rids, List.getElem?_map, h]

/-- …and when the splitter is a genuine train/test split (no position both trained on and held out) over distinct
records with aligned labels: **no scored prediction depends on its own record** -/
theorem C12_eval_heldout_unseen (E : Env) (S : Scope) (hS : Local E S) (n sp : Nat) (X L : Val)
    (fid : Nat) (hfid : fid < n) (o : Outcome) (ho : (produce S n sp X L)[fid]? = some o)
    (tr te : List Nat) (hdec : (E.dec sp (rows E X) (rows E L))[fid]? = some (tr, te))
    (hX : ∀ r ∈ rows E X, r.deps = []) (hL : ∀ r ∈ rows E L, r.deps = [])
    (hdisj : ∀ p ∈ tr, p ∉ te) (hnodup : (rows E X).rids.Nodup) (halign : (rows E L).rids = (rows E X).rids) :
    ∀ r ∈ rows E o.pred, ∀ x ∈ r.deps, x.rid ≠ r.key.rid := by
  intro r hr x hx heq
  obtain ⟨_, hkeys, _⟩ := C12_eval_noleak E S hS n sp X L fid hfid o ho tr te hdec
  obtain ⟨q', hq', hk⟩ := mem_keys.mp (hkeys r hr)
  obtain ⟨p', hp', hpq'⟩ := mem_select_iff.mp hq'
  obtain ⟨p, hp, q, hq, rfl⟩ := C12_eval_trained_on_train_part E S hS n sp X L fid hfid o ho tr te hdec hX hL r hr x hx
  have h1 : (rows E X).rids[p]? = some q.key.rid := by
    rcases hq with hq | hq
    · exact rids_getElem? hq
    · rw [← halign]; exact rids_getElem? hq
  have h2 : (rows E X).rids[p']? = some q.key.rid := by
    rw [heq, ← hk]; exact rids_getElem? hpq'
  have := nodup_getElem?_inj hnodup h1 h2
  exact hdisj p hp (this ▸ hp')

/-! ### features and labels are split by the same fold indices -/

private theorem port_eq_select (o : Option Indices) (d : Data) (k : Nat) :
    port (cvApply o d) k = select (portPositions o k) d := by
  cases o with
  | none => simp [cvApply, port, portPositions, select]
  | some idx =>
    rw [port_cvApply]
    simp only [portPositions]
    rcases Nat.mod_two_eq_zero_or_one k with hk | hk
    · have : k = 2 * (k / 2) := by omega
      rw [this, cvSplit_even]
      have h2 : 2 * (k / 2) / 2 = k / 2 := by omega
      have h3 : 2 * (k / 2) % 2 = 0 := by omega
      rw [h2, h3]
      cases idx[k / 2]? <;> simp [select]
    · have : k = 2 * (k / 2) + 1 := by omega
      rw [this, cvSplit_odd]
      have h2 : (2 * (k / 2) + 1) / 2 = k / 2 := by omega
      have h3 : (2 * (k / 2) + 1) % 2 = 1 := by omega
      rw [h2, h3]
      cases idx[k / 2]? <;> simp [select]

private theorem rids_select (ps : List Nat) (d : Data) : (select ps d).rids = ps.filterMap fun p => d.rids[p]? := by
  simp [select, Data.rids, List.map_filterMap, List.getElem?_map]

/-- Whatever the state of the splitter (trained once, on whatever), port `k` of any of its forks selects the *same
positions* of whatever it is applied to: applied to row-aligned features and labels, it delivers the same records in
the same order -/
theorem C12_sync_ports (E : Env) (sp : Nat) (st : Val) (k : Nat) (X L : Val) :
    rows E (.part sp st k X) = select (portPositions (indices E st) k) (rows E X) ∧
    rows E (.part sp st k L) = select (portPositions (indices E st) k) (rows E L) ∧
    ((rows E X).rids = (rows E L).rids → (rows E (.part sp st k X)).rids = (rows E (.part sp st k L)).rids) := by
  refine ⟨by rw [rows_part, port_eq_select], by rw [rows_part, port_eq_select], ?_⟩
  intro h
  rw [rows_part, rows_part, port_eq_select, port_eq_select, rids_select, rids_select, h]

/-! ### the splitter actor: indices computed once in `train`, kept through every state transfer and `set_params` -/

/-- `set_params` replaces the cross-validator and nothing else: the fold indices survive -/
theorem C12_splitter_params_keep_indices (a : Splitter) (cv : Nat) :
    (a.setParams cv).indices = a.indices ∧ (a.setParams cv).getParams = cv := ⟨rfl, rfl⟩

/-- `set_state ∘ get_state` (either flavour) and the compiled code's `SetState.set` (which re-applies the receiver's
hyper-parameters on top) hand over exactly the trained indices and leave the receiver's own cross-validator in place
(pickled flavour and `SetState.set`) -/
theorem C12_splitter_state_transfer (t : Transfer) (a trained : Splitter) :
    (a.setState t trained.getState).indices = trained.indices ∧
    (a.preset t trained.getState).indices = trained.indices ∧
    (a.preset t trained.getState).getParams = a.getParams ∧
    ((a.setState .pickled trained.getState).getParams = a.getParams) := by
  cases t <;> simp [Splitter.setState, Splitter.preset, Splitter.getState, Splitter.setParams, Splitter.getParams]

/-- …through any chain of forks of forks -/
theorem C12_splitter_relay (hops : List (Transfer × Nat)) (st : Splitter) :
    (Splitter.relay hops st).indices = st.indices := by
  induction hops generalizing st with
  | nil => rfl
  | cons h hops ih =>
    obtain ⟨t, cv⟩ := h
    rw [Splitter.relay, ih]
    exact (C12_splitter_state_transfer t (Splitter.new cv) st).2.1

/-- `train` asks the cross-validator exactly once (its `w cv`-th call) and keeps the answer; `apply` never asks (it is a
function of the actor alone: `Splitter.apply` has no access to `Splits` / `Calls`) -/
theorem C12_splitter_train_once (sp : Splits) (w : Calls) (cv : Nat) (X L : Data) :
    ((Splitter.new cv).train sp w X L).1.indices = some (sp cv (w cv) X (some L)) ∧
    ((Splitter.new cv).train sp w X L).1.getParams = cv ∧
    ((Splitter.new cv).train sp w X L).2 cv = w cv + 1 ∧
    ∀ c, c ≠ cv → ((Splitter.new cv).train sp w X L).2 c = w c := by
  refine ⟨rfl, rfl, by simp [Splitter.train, Splitter.new, Calls.tick], ?_⟩
  intro c hc
  simp [Splitter.train, Splitter.new, Calls.tick, hc]

/-- **Sync, from the actor contract.**  For *every* cross-validator behaviour — also one that never answers twice alike
(`sp` is any function of the call number) — , every call history `w`, every transfer flavour and whatever
cross-validators the forks' builders carry: the trained worker's state reaches the features fork and the labels fork
(directly, or through any chain of further forks), and every port of both forks selects exactly the positions computed
in the one `train` call; on row-aligned inputs they deliver the same records in the same order; the cross-validator has
been asked exactly once. -/
theorem C12_splitter_forks (sp : Splits) (w : Calls) (cv cvF cvL : Nat) (tF tL : Transfer)
    (hopsF hopsL : List (Transfer × Nat)) (X L : Data) :
    let r := Splitter.runTrain sp cv w X L
    let idx := sp cv (w cv) X (some L)
    r.2 cv = w cv + 1 ∧
    ∀ (k : Nat) (x l : Data),
      port (Splitter.runApply tF cvF (Splitter.relay hopsF r.1) x) k = select (portPositions (some idx) k) x ∧
      port (Splitter.runApply tL cvL (Splitter.relay hopsL r.1) l) k = select (portPositions (some idx) k) l ∧
      (x.rids = l.rids →
        (port (Splitter.runApply tF cvF (Splitter.relay hopsF r.1) x) k).rids
          = (port (Splitter.runApply tL cvL (Splitter.relay hopsL r.1) l) k).rids) := by
  intro r idx
  have hidx : r.1.indices = some idx := rfl
  have hF : ((Splitter.new cvF).preset tF (Splitter.relay hopsF r.1)).indices = some idx := by
    rw [← hidx, ← C12_splitter_relay hopsF r.1]
    exact (C12_splitter_state_transfer tF (Splitter.new cvF) _).2.1
  have hL : ((Splitter.new cvL).preset tL (Splitter.relay hopsL r.1)).indices = some idx := by
    rw [← hidx, ← C12_splitter_relay hopsL r.1]
    exact (C12_splitter_state_transfer tL (Splitter.new cvL) _).2.1
  refine ⟨(C12_splitter_train_once sp w cv X L).2.2.1, ?_⟩
  intro k x l
  have h1 : port (Splitter.runApply tF cvF (Splitter.relay hopsF r.1) x) k = select (portPositions (some idx) k) x := by
    simp only [Splitter.runApply, Splitter.apply, hF, port_eq_select]
  have h2 : port (Splitter.runApply tL cvL (Splitter.relay hopsL r.1) l) k = select (portPositions (some idx) k) l := by
    simp only [Splitter.runApply, Splitter.apply, hL, port_eq_select]
  refine ⟨h1, h2, ?_⟩
  intro h
  rw [h1, h2, rids_select, rids_select, h]

/-- the graph-level meaning of a splitter port *is* that actor run: `part tag (state tag prev fx fy) k x` = port `k` of a
fresh instance of the fork's builder that took — by `SetState.set`, either flavour — the state of the worker trained on
`(fx, fy)`, applied to `x`; `E.dec tag` being what the cross-validator answered in that one call -/
theorem C12_part_is_fork_of_trained (E : Env) (sp : Splits) (w : Calls) (tag : Nat)
    (hdec : ∀ x l, E.dec tag x l = sp tag (w tag) x (some l)) (t : Transfer) (cvF : Nat) (prev fx fy x : Val) (k : Nat) :
    rows E (.part tag (.state tag prev fx fy) k x)
      = port (Splitter.runApply t cvF (Splitter.runTrain sp tag w (rows E fx) (rows E fy)).1 (rows E x)) k := by
  have h := (C12_splitter_forks sp w tag cvF cvF t t [] [] (rows E fx) (rows E fy)).2 k (rows E x) (rows E x)
  simp only [Splitter.relay] at h
  rw [h.1, rows_part, indices_state, port_eq_select, hdec]

/-- **Sync.**  Features and labels of every fold are split by the very indices computed in the one `train` call of the
splitter: whatever port `k` of the splitter trained on `(X, L)` is applied to — features `x` or labels `l`, in whichever
fork — it selects the positions `E.dec sp (rows X) (rows L)` decided then; row-aligned features and labels come out as the
same records in the same order -/
theorem C12_sync (E : Env) (sp : Nat) (prev X L : Val) (k : Nat) (x l : Val) :
    let idx := E.dec sp (rows E X) (rows E L)
    rows E (.part sp (.state sp prev X L) k x) = select (portPositions (some idx) k) (rows E x) ∧
    rows E (.part sp (.state sp prev X L) k l) = select (portPositions (some idx) k) (rows E l) ∧
    ((rows E x).rids = (rows E l).rids →
      (rows E (.part sp (.state sp prev X L) k x)).rids = (rows E (.part sp (.state sp prev X L) k l)).rids) := by
  have h := C12_sync_ports E sp (.state sp prev X L) k x l
  rw [indices_state] at h
  exact h

/-- in an evaluation, fold `fid` with decided positions `(tr, te)`: the pipeline is trained on `select tr` of the features
and `select tr` of the labels, predicts `select te` of the features and is scored against `select te` of the labels -/
theorem C12_eval_sync (E : Env) (S : Scope) (n sp : Nat) (X L : Val) (fid : Nat) (hfid : fid < n)
    (tr te : List Nat) (hdec : (E.dec sp (rows E X) (rows E L))[fid]? = some (tr, te)) :
    ∃ trainX trainL testX testL,
      (produce S n sp X L)[fid]? = some ⟨testL, (S testX trainX trainL).apply⟩ ∧
      rows E trainX = select tr (rows E X) ∧ rows E trainL = select tr (rows E L) ∧
      rows E testX = select te (rows E X) ∧ rows E testL = select te (rows E L) :=
  ⟨_, _, _, _, produce_getElem? S n sp X L hfid,
    rows_part_train E sp .none X L X fid tr te hdec, rows_part_train E sp .none X L L fid tr te hdec,
    rows_part_test E sp .none X L X fid tr te hdec, rows_part_test E sp .none X L L fid tr te hdec⟩

/-- …and in an ensemble: fold `fid`'s scope and bases are trained on `select tr` of features and labels, their copies map
`select te` of the features, and the stacked labels' block is `select te` of the labels -/
theorem C12_stack_sync (E : Env) (S : Scope) (sp : Nat) (xa xt xl : Val) (fid : Nat)
    (tr te : List Nat) (hdec : (E.dec sp (rows E xt) (rows E xl))[fid]? = some (tr, te)) :
    ∃ trainX trainL testX testL,
      foldOf S sp xa xt xl fid = ⟨(S xa trainX trainL).apply, (S xa trainX trainL).train, (S xa trainX trainL).label,
        (S testX trainX trainL).apply, testL⟩ ∧
      rows E trainX = select tr (rows E xt) ∧ rows E trainL = select tr (rows E xl) ∧
      rows E testX = select te (rows E xt) ∧ rows E testL = select te (rows E xl) :=
  ⟨_, _, _, _, rfl,
    rows_part_train E sp .none xt xl xt fid tr te hdec, rows_part_train E sp .none xt xl xl fid tr te hdec,
    rows_part_test E sp .none xt xl xt fid tr te hdec, rows_part_test E sp .none xt xl xl fid tr te hdec⟩

/-! ### every record is scored exactly once when the test parts partition the data -/

private theorem select_range (d : Data) (n : Nat) : select (List.range n) d = d.take n := by
  induction n with
  | zero => simp [select]
  | succ n ih =>
    simp only [select] at ih ⊢
    rw [List.range_succ, List.filterMap_append, ih, List.take_add_one]
    congr 1

private theorem rows_part_test' (E : Env) (sp : Nat) (prev fx fy x : Val) (i : Nat) :
    rows E (.part sp (.state sp prev fx fy) (2 * i + 1) x)
      = select ((E.dec sp (rows E fx) (rows E fy))[i]?.getD ([], [])).2 (rows E x) := by
  rw [rows_part, indices_state, port_cvApply, cvSplit_odd]
  cases (E.dec sp (rows E fx) (rows E fy))[i]? <;> simp [select]

/-- if the held-out positions of the `n` folds are a rearrangement of all positions (each record held out in
exactly one fold — what k-fold cross-validators decide), the true outcomes scored over all folds are a rearrangement
of the labels: every record is scored exactly once -/
theorem C12_eval_each_record_once (E : Env) (S : Scope) (n sp : Nat) (X L : Val)
    (hpart : ((List.range n).flatMap fun fid => ((E.dec sp (rows E X) (rows E L))[fid]?.getD ([], [])).2).Perm
      (List.range (rows E L).length)) :
    ((produce S n sp X L).flatMap fun o => rows E o.true_).Perm (rows E L) := by
  have h1 : ((produce S n sp X L).flatMap fun o => rows E o.true_)
      = select ((List.range n).flatMap fun fid => ((E.dec sp (rows E X) (rows E L))[fid]?.getD ([], [])).2) (rows E L) := by
    simp only [produce_eq, List.flatMap_map, foldOutcome, rows_part_test', select, List.filterMap_flatMap]
  rw [h1]
  have h2 := List.Perm.filterMap (fun p => (rows E L)[p]?) hpart
  have h3 := select_range (rows E L) (rows E L).length
  simp only [select, List.take_length] at h3
  simpa [select, h3] using h2

/-! ### predictions and true outcomes are row-aligned -/

/-- every well-formed expression of the operator library (MapReduce with mappers, ensembles with bases and folds —
what the constructors insist on) maps its apply input row by row -/
theorem C12_pipeline_rowpreserving (E : Env) (p : Pipe) (h : p.wf = true) : RowPreserving E (denote p) :=
  denoteC_rowPreserving E p _ h (origin_rowPreserving E)

private theorem rids_eq_keys (d : Data) : d.rids = d.keys.map (·.rid) := by
  simp [Data.rids, Data.keys]

/-- for a row-preserving pipeline over row-aligned features and labels, the predictions of fold `fid` describe the
same records, in the same order, as the true outcomes they are scored against -/
theorem C12_eval_aligned (E : Env) (S : Scope) (hR : RowPreserving E S) (n sp : Nat) (X L : Val)
    (fid : Nat) (hfid : fid < n) (o : Outcome) (ho : (produce S n sp X L)[fid]? = some o)
    (halign : (rows E X).rids = (rows E L).rids) :
    (rows E o.pred).rids = (rows E o.true_).rids := by
  rw [produce_getElem? S n sp X L hfid] at ho
  cases ho
  simp only [foldOutcome]
  rw [rids_eq_keys, hR, ← rids_eq_keys]
  exact (C12_sync_ports E sp _ (2 * fid + 1) X L).2.2 halign

/-- `pipeline >> PerfTrackScore(metric)` for every pipeline expression: the one scored pair is (the tracked labels, the
predictions for the tracked features), row-aligned; no prediction depends on anything but its input row and the earlier
generation's training data -/
theorem C12_perftrack_every_pipeline (E : Env) (p : Pipe) (hp : p.wf = true) (metric reducer : Nat) (T0 L0 xa xt xl : Val)
    (halign : (rows E xt).rids = (rows E xl).rids) :
    let pred := (denote p xt T0 L0).apply
    (perfTrackScore metric reducer (T0, L0) (denote p) xa xt xl).train = .apply metric .none [xl, pred] ∧
    (rows E pred).rids = (rows E xl).rids ∧
    (∀ r ∈ rows E pred, ∀ x ∈ r.deps, x ∈ (rows E xt).deps ∨ x ∈ (rows E T0).atoms ∨ x ∈ (rows E L0).atoms) := by
  intro pred
  refine ⟨rfl, ?_, (C12_perftrack E (denote p) (C12_pipeline_local E p) metric reducer T0 L0 xa xt xl).2.2.2.2⟩
  rw [rids_eq_keys, C12_pipeline_rowpreserving E p hp xt T0 L0, ← rids_eq_keys, halign]

/-! ### stacking: fold and base wiring -/

/-- `Ensembler.compose`: exactly `n` folds, fold `fid` made of ports `2 fid` / `2 fid + 1` of forks of one trained
splitter; the scope is trained per fold on the train part and its copy maps the held-out part -/
theorem C12_stack_folds (S : Scope) (n sp : Nat) (xa xt xl : Val) :
    (folds S n sp xa xt xl).length = n ∧
    ∀ fid, fid < n → (folds S n sp xa xt xl)[fid]? = some (foldOf S sp xa xt xl fid) :=
  ⟨folds_length S n sp xa xt xl, fun _ h => folds_getElem? S n sp xa xt xl h⟩

/-- the stacked train set: one column per base (in order), column `b` = the stacker over exactly `n` blocks, block
`fid` = base `b` trained on fold `fid`'s train part (through the scope) applied to fold `fid`'s held-out part -/
theorem C12_stack_train (bases : List Scope) (n sp appender stacker reducer : Nat) (S : Scope) (xa xt xl : Val) :
    ∃ cols, (fullStack bases n sp appender stacker reducer S xa xt xl).train = .apply appender .none cols ∧
      cols.length = bases.length ∧
      ∀ b (hb : b < bases.length), ∃ blocks, cols[b]? = some (.concat stacker blocks) ∧ blocks.length = n ∧
        ∀ fid, fid < n → blocks[fid]? = some
          (bases[b] (foldOf S sp xa xt xl fid).testTrain (foldOf S sp xa xt xl fid).trainTrain
            (foldOf S sp xa xt xl fid).trainLabel).apply := by
  refine ⟨_, rfl, by simp, ?_⟩
  intro b hb
  refine ⟨(folds S n sp xa xt xl).map fun f => (baseFold bases[b] f).1,
    by simp [List.getElem?_map, List.getElem?_eq_getElem hb], by simp [folds_length], ?_⟩
  intro fid hfid
  simp [List.getElem?_map, folds_getElem? S n sp xa xt xl hfid, baseFold]

/-- the stacked labels: exactly `n` blocks, block `fid` = the held-out labels of fold `fid` -/
theorem C12_stack_label (bases : List Scope) (n sp appender stacker reducer : Nat) (S : Scope) (xa xt xl : Val) :
    ∃ blocks, (fullStack bases n sp appender stacker reducer S xa xt xl).label = .concat stacker blocks ∧
      blocks.length = n ∧
      ∀ fid, fid < n → blocks[fid]? = some (.part sp (.state sp .none xt xl) (2 * fid + 1) xl) := by
  refine ⟨_, rfl, by simp [folds_length], ?_⟩
  intro fid hfid
  simp [List.getElem?_map, folds_getElem? S n sp xa xt xl hfid, foldOf]

/-- **Apply mode.**  One column per base; column `b` = the reducer over exactly `n` arguments, argument `fid` =
base `b`'s instance of fold `fid` (trained on that fold's train part) applied to the *same* live input `xa` (through
the scope instance of that fold): all fold models of each base learner are combined -/
theorem C12_stack_apply (bases : List Scope) (n sp appender stacker reducer : Nat) (S : Scope) (xa xt xl : Val) :
    ∃ cols, (fullStack bases n sp appender stacker reducer S xa xt xl).apply = .apply appender .none cols ∧
      cols.length = bases.length ∧
      ∀ b (hb : b < bases.length), ∃ args, cols[b]? = some (.apply reducer .none args) ∧ args.length = n ∧
        ∀ fid, fid < n → args[fid]? = some
          (bases[b] (S xa (.part sp (.state sp .none xt xl) (2 * fid) xt)
                         (.part sp (.state sp .none xt xl) (2 * fid) xl)).apply
            (foldOf S sp xa xt xl fid).trainTrain (foldOf S sp xa xt xl fid).trainLabel).apply := by
  refine ⟨_, rfl, by simp, ?_⟩
  intro b hb
  refine ⟨(folds S n sp xa xt xl).map fun f => (baseFold bases[b] f).2,
    by simp [List.getElem?_map, List.getElem?_eq_getElem hb], by simp [folds_length], ?_⟩
  intro fid hfid
  simp [List.getElem?_map, folds_getElem? S n sp xa xt xl hfid, baseFold, foldOf]

/-- **Apply mode, on data.**  For every local scope and base and every fold `fid` with decided positions `(tr, te)`:
argument `fid` of column `b`'s reducer describes records of the live input only, and depends only on what those input
rows depended on and on records of the *training part of fold `fid`*: it is the prediction of the fold-`fid` model -/
theorem C12_stack_apply_noleak (E : Env) (S : Scope) (hS : Local E S) (b : Scope) (hb : Local E b) (sp : Nat)
    (xa xt xl : Val) (fid : Nat) (tr te : List Nat)
    (hdec : (E.dec sp (rows E xt) (rows E xl))[fid]? = some (tr, te)) :
    let f := foldOf S sp xa xt xl fid
    let arg := (b f.trainApply f.trainTrain f.trainLabel).apply
    (∀ r ∈ rows E arg, r.key ∈ (rows E xa).keys) ∧
    (∀ r ∈ rows E arg, ∀ x ∈ r.deps,
      x ∈ (rows E xa).deps ∨ x ∈ (select tr (rows E xt)).atoms ∨ x ∈ (select tr (rows E xl)).atoms) := by
  intro f arg
  have hT := rows_part_train E sp .none xt xl xt fid tr te hdec
  have hTL := rows_part_train E sp .none xt xl xl fid tr te hdec
  refine ⟨?_, ?_⟩
  · exact hb.applyKeys _ _ _ _ (hS.applyKeys _ _ _ _ (keysIn_self _))
  · let P : Atom → Prop := fun x =>
      x ∈ (rows E xa).deps ∨ x ∈ (select tr (rows E xt)).atoms ∨ x ∈ (select tr (rows E xl)).atoms
    have h1 : DepsIn (rows E xa) P := (depsIn_self _).mono fun _ h => .inl h
    have h2 : AtomsIn (rows E (.part sp (.state sp .none xt xl) (2 * fid) xt)) P :=
      hT ▸ (atomsIn_self _).mono fun _ h => .inr (.inl h)
    have h3 : AtomsIn (rows E (.part sp (.state sp .none xt xl) (2 * fid) xl)) P :=
      hTL ▸ (atomsIn_self _).mono fun _ h => .inr (.inr h)
    exact hb.applyDeps _ _ _ P (hS.applyDeps _ _ _ P h1 h2 h3) (hS.train _ _ _ P h2 h3) (hS.label _ _ _ P h2 h3)

/-- …on the *same input*: for a row-preserving scope and base every fold model's prediction describes exactly the records
of the live input, in order — the reducer combines, row by row, `n` predictions for one and the same record -/
theorem C12_stack_apply_same_input (E : Env) (S b : Scope) (hS : RowPreserving E S) (hb : RowPreserving E b) (sp : Nat)
    (xa xt xl : Val) (fid : Nat) :
    let f := foldOf S sp xa xt xl fid
    (rows E (b f.trainApply f.trainTrain f.trainLabel).apply).keys = (rows E xa).keys := by
  intro f
  simp only [f, foldOf]
  rw [hb, hS]

/-- …and it combines *all* of them: with a trained model as base (a stateful mapper; the ensemble at the head of the
pipeline), every row of the reduced column depends on every record of the training part of *every* fold — the model
of each fold has contributed to each prediction -/
theorem C12_stack_apply_all_folds (E : Env) (a : Actor) (ha : a.stateful = true) (n sp reducer : Nat) (xa xt xl : Val)
    (fid : Nat) (hfid : fid < n) (tr te : List Nat)
    (hdec : (E.dec sp (rows E xt) (rows E xl))[fid]? = some (tr, te)) :
    let base := denote (.wrap none (some a) (some a))
    let col := Val.apply reducer .none ((folds Scope.origin n sp xa xt xl).map fun f => (baseFold base f).2)
    ∀ r ∈ rows E col, ∀ x,
      (x ∈ (select tr (rows E xt)).atoms ∨ x ∈ (select tr (rows E xl)).atoms) → x ∈ r.deps := by
  intro base col r hr x hx
  -- argument `g` of the reducer: the fold-`g` model applied to the live input, row by row
  let stOf : Nat → Val := fun g =>
    .state a.tag .none (.part sp (.state sp .none xt xl) (2 * g) xt) (.part sp (.state sp .none xt xl) (2 * g) xl)
  have harg : ∀ g, rows E (baseFold base (foldOf Scope.origin sp xa xt xl g)).2
      = (rows E xa).map fun q => { q with deps := union q.deps (seen E (stOf g)) } := by
    intro g
    simp only [baseFold, base, denote, denoteC, denoteWrap, Scope.origin, foldOf, trainedState, ha, if_true]
    exact rows_applied_stateful E a _ _
  simp only [col, rows_apply, folds_eq, List.map_map] at hr
  obtain ⟨_, i, ⟨d, hd, q0, hq0⟩, hall⟩ := hzip_sup hr
  -- some argument has a row at position `i`, hence the live input has, hence the fold-`fid` argument has
  obtain ⟨g, _, rfl⟩ := List.mem_map.mp hd
  simp only [Function.comp_apply, harg, List.getElem?_map] at hq0
  obtain ⟨p, hp, _⟩ := Option.map_eq_some_iff.mp hq0
  have hrow := hall (rows E (baseFold base (foldOf Scope.origin sp xa xt xl fid)).2)
    (List.mem_map.mpr ⟨fid, List.mem_range.mpr hfid, rfl⟩)
  rw [harg fid] at hrow
  refine hrow ⟨p.key, union p.deps (seen E (stOf fid))⟩ (by simp [List.getElem?_map, hp]) x ?_
  refine mem_union.mpr (.inr ?_)
  show x ∈ seen E (.state a.tag .none _ _)
  rw [seen_state]
  refine mem_union.mpr (.inr (mem_union.mpr ?_))
  rw [rows_part_train E sp .none xt xl xt fid tr te hdec, rows_part_train E sp .none xt xl xl fid tr te hdec]
  exact hx

/-! ### stacking: no leak -/

/-- **No leak in stacking.**  For every local scope and base, fold count, splitter decision and fold `fid` with
decided positions `(tr, te)`: block `fid` of base `b`'s stacked column describes held-out records of fold `fid` and
depends only on what those held-out rows depended on before the split and on records of the *training part of fold
`fid`*; the stacked labels' block `fid` is exactly the held-out labels of fold `fid`. -/
theorem C12_stack_noleak (E : Env) (S : Scope) (hS : Local E S) (b : Scope) (hb : Local E b) (sp : Nat)
    (xa xt xl : Val) (fid : Nat) (tr te : List Nat)
    (hdec : (E.dec sp (rows E xt) (rows E xl))[fid]? = some (tr, te)) :
    let f := foldOf S sp xa xt xl fid
    let block := (b f.testTrain f.trainTrain f.trainLabel).apply
    rows E f.testLabel = select te (rows E xl) ∧
    (∀ r ∈ rows E block, r.key ∈ (select te (rows E xt)).keys) ∧
    (∀ r ∈ rows E block, ∀ x ∈ r.deps,
      x ∈ (select te (rows E xt)).deps ∨ x ∈ (select tr (rows E xt)).atoms ∨ x ∈ (select tr (rows E xl)).atoms) := by
  intro f block
  have hH := rows_part_test E sp .none xt xl xt fid tr te hdec
  have hT := rows_part_train E sp .none xt xl xt fid tr te hdec
  have hTL := rows_part_train E sp .none xt xl xl fid tr te hdec
  refine ⟨rows_part_test E sp .none xt xl xl fid tr te hdec, ?_, ?_⟩
  · exact hb.applyKeys _ _ _ _ (hS.applyKeys _ _ _ _ (hH ▸ keysIn_self _))
  · let P : Atom → Prop := fun x =>
      x ∈ (select te (rows E xt)).deps ∨ x ∈ (select tr (rows E xt)).atoms ∨ x ∈ (select tr (rows E xl)).atoms
    have h1 : DepsIn (rows E (.part sp (.state sp .none xt xl) (2 * fid + 1) xt)) P :=
      hH ▸ (depsIn_self _).mono fun _ h => .inl h
    have h2 : AtomsIn (rows E (.part sp (.state sp .none xt xl) (2 * fid) xt)) P :=
      hT ▸ (atomsIn_self _).mono fun _ h => .inr (.inl h)
    have h3 : AtomsIn (rows E (.part sp (.state sp .none xt xl) (2 * fid) xl)) P :=
      hTL ▸ (atomsIn_self _).mono fun _ h => .inr (.inr h)
    exact hb.applyDeps _ _ _ P (hS.applyDeps _ _ _ P h1 h2 h3) (hS.train _ _ _ P h2 h3) (hS.label _ _ _ P h2 h3)

/-- every row of a stacked column belongs to the block of exactly the fold it was produced in: the rows of the
column are the rows of block 0, then block 1, … — each fold contributes its block exactly once -/
theorem C12_stack_blocks_once (E : Env) (b : Scope) (n sp stacker : Nat) (S : Scope) (xa xt xl : Val) :
    rows E (.concat stacker ((folds S n sp xa xt xl).map fun f => (baseFold b f).1))
      = (List.range n).flatMap fun fid =>
          rows E (b (foldOf S sp xa xt xl fid).testTrain (foldOf S sp xa xt xl fid).trainTrain
            (foldOf S sp xa xt xl fid).trainLabel).apply := by
  simp [rows_concat, folds_eq, List.flatMap_def, baseFold, Function.comp_def]

/-- on source data and a genuine train/test split over distinct records: **no stacked prediction depends on its own
record** (the final model is trained on out-of-fold predictions only) -/
theorem C12_stack_heldout_unseen (E : Env) (S : Scope) (hS : Local E S) (b : Scope) (hb : Local E b) (sp : Nat)
    (xa xt xl : Val) (fid : Nat) (tr te : List Nat)
    (hdec : (E.dec sp (rows E xt) (rows E xl))[fid]? = some (tr, te))
    (hX : ∀ r ∈ rows E xt, r.deps = []) (hL : ∀ r ∈ rows E xl, r.deps = [])
    (hdisj : ∀ p ∈ tr, p ∉ te) (hnodup : (rows E xt).rids.Nodup) (halign : (rows E xl).rids = (rows E xt).rids) :
    let f := foldOf S sp xa xt xl fid
    ∀ r ∈ rows E (b f.testTrain f.trainTrain f.trainLabel).apply, ∀ x ∈ r.deps, x.rid ≠ r.key.rid := by
  intro f r hr x hx heq
  obtain ⟨_, hkeys, hdeps⟩ := C12_stack_noleak E S hS b hb sp xa xt xl fid tr te hdec
  obtain ⟨q', hq', hk⟩ := mem_keys.mp (hkeys r hr)
  obtain ⟨p', hp', hpq'⟩ := mem_select_iff.mp hq'
  have hsrc : ∃ p ∈ tr, ∃ q, ((rows E xt)[p]? = some q ∨ (rows E xl)[p]? = some q) ∧ x = q.key := by
    rcases hdeps r hr x hx with h | h | h
    · obtain ⟨q, hq, hxq⟩ := mem_deps.mp h
      rw [hX q (mem_select hq)] at hxq
      cases hxq
    · obtain ⟨q, hq, hxq⟩ := mem_atoms.mp h
      obtain ⟨p, hp, hpq⟩ := mem_select_iff.mp hq
      rcases hxq with rfl | hxq
      · exact ⟨p, hp, q, .inl hpq, rfl⟩
      · rw [hX q (mem_select hq)] at hxq; cases hxq
    · obtain ⟨q, hq, hxq⟩ := mem_atoms.mp h
      obtain ⟨p, hp, hpq⟩ := mem_select_iff.mp hq
      rcases hxq with rfl | hxq
      · exact ⟨p, hp, q, .inr hpq, rfl⟩
      · rw [hL q (mem_select hq)] at hxq; cases hxq
  obtain ⟨p, hp, q, hq, rfl⟩ := hsrc
  have h1 : (rows E xt).rids[p]? = some q.key.rid := by
    rcases hq with hq | hq
    · exact rids_getElem? hq
    · rw [← halign]; exact rids_getElem? hq
  have h2 : (rows E xt).rids[p']? = some q.key.rid := by
    rw [heq, ← hk]; exact rids_getElem? hpq'
  have := nodup_getElem?_inj hnodup h1 h2
  exact hdisj p hp (this ▸ hp')

/-- for a row-preserving scope and base over row-aligned features and labels, block `fid` of the stacked column
describes the same records, in the same order, as block `fid` of the stacked labels -/
theorem C12_stack_aligned (E : Env) (S b : Scope) (hS : RowPreserving E S) (hb : RowPreserving E b) (sp : Nat)
    (xa xt xl : Val) (fid : Nat) (halign : (rows E xt).rids = (rows E xl).rids) :
    let f := foldOf S sp xa xt xl fid
    (rows E (b f.testTrain f.trainTrain f.trainLabel).apply).rids = (rows E f.testLabel).rids := by
  intro f
  simp only [f, foldOf]
  rw [rids_eq_keys, hb, hS, ← rids_eq_keys]
  exact (C12_sync_ports E sp _ (2 * fid + 1) xt xl).2.2 halign

/-- …hence the whole stacked column is row-aligned with the stacked labels: the final model is trained on
(prediction, true outcome) pairs of the same record -/
theorem C12_stack_column_aligned (E : Env) (S b : Scope) (hS : RowPreserving E S) (hb : RowPreserving E b)
    (n sp stacker : Nat) (xa xt xl : Val) (halign : (rows E xt).rids = (rows E xl).rids) :
    (rows E (.concat stacker ((folds S n sp xa xt xl).map fun f => (baseFold b f).1))).rids
      = (rows E (.concat stacker ((folds S n sp xa xt xl).map (·.testLabel)))).rids := by
  simp only [rows_concat, Data.rids, List.map_flatten, List.map_map, folds_eq]
  congr 1
  apply List.map_congr_left
  intro fid _
  have := C12_stack_aligned E S b hS hb sp xa xt xl fid halign
  simpa [Data.rids, baseFold] using this

/-- if the held-out positions of the `n` folds are a rearrangement of all positions, the stacked labels are a
rearrangement of the labels: every record enters the final model's training set exactly once -/
theorem C12_stack_each_record_once (E : Env) (bases : List Scope) (n sp appender stacker reducer : Nat) (S : Scope)
    (xa xt xl : Val)
    (hpart : ((List.range n).flatMap fun fid => ((E.dec sp (rows E xt) (rows E xl))[fid]?.getD ([], [])).2).Perm
      (List.range (rows E xl).length)) :
    (rows E (fullStack bases n sp appender stacker reducer S xa xt xl).label).Perm (rows E xl) := by
  have h1 : rows E (fullStack bases n sp appender stacker reducer S xa xt xl).label
      = select ((List.range n).flatMap fun fid => ((E.dec sp (rows E xt) (rows E xl))[fid]?.getD ([], [])).2) (rows E xl) := by
    show rows E (Val.concat stacker _) = _
    simp only [rows_concat, folds_eq, List.map_map, Function.comp_def, foldOf, rows_part_test', select]
    rw [← List.flatMap_def, List.filterMap_flatMap]
  rw [h1]
  have h2 := List.Perm.filterMap (fun p => (rows E xl)[p]?) hpart
  have h3 := select_range (rows E xl) (rows E xl).length
  simp only [select, List.take_length] at h3
  simpa [select, h3] using h2

/-! ### constructors -/

/-- `CrossVal(...)` wires at least two folds, `HoldOut(...)` exactly one (over a cross-validator generating at
least two splits), an ensemble at least two folds over at least one base -/
theorem C12_constructors :
    (∀ cv b ns n, crossValInit cv b ns = .ok n → 2 ≤ n) ∧
    (∀ sized cv b w c, holdOutInit sized cv b = .ok (w, c) → w = 1 ∧ 2 ≤ c) ∧
    (∀ m cv b ns n, ensemblerInit m cv b ns = .ok n → 0 < m ∧ 2 ≤ n) := by
  have h1 : ∀ cv b ns n, crossValInit cv b ns = .ok n → 2 ≤ n := by
    intro cv b ns n h
    cases b <;> cases cv <;> cases ns <;> simp [crossValInit] at h <;> split at h <;> cases h <;> omega
  refine ⟨h1, ?_, ?_⟩
  · intro sized cv b w c h
    unfold holdOutInit at h
    split at h
    · cases h
    · simp only at h
      split at h
      · cases h
      · rename_i c' hc
        cases h
        exact ⟨rfl, h1 _ _ _ _ hc⟩
  · intro m cv b ns n h
    unfold ensemblerInit at h
    split at h
    · cases h
    · exact ⟨by omega, h1 _ _ _ _ h⟩

/-! ### the property for every pipeline of the operator library -/

/-- **C12, evaluation**, for every pipeline expression `p`, fold count `n`, splitter `sp` deciding anything, fold
`fid`, and all data: in `p >> TrainTestScore(...)`, the prediction scored in fold `fid` describes held-out records of
fold `fid`, depends (beyond what the source rows depended on) only on the training part of fold `fid`, and is paired
with exactly the held-out labels of fold `fid` -/
theorem C12_noleak_every_pipeline (E : Env) (p : Pipe) (n sp : Nat) (X L : Val)
    (fid : Nat) (hfid : fid < n) (tr te : List Nat)
    (hdec : (E.dec sp (rows E X) (rows E L))[fid]? = some (tr, te)) :
    let o := foldOutcome (denote p) sp X L fid
    (produce (denote p) n sp X L)[fid]? = some o ∧
    rows E o.true_ = select te (rows E L) ∧
    (∀ r ∈ rows E o.pred, r.key ∈ (select te (rows E X)).keys) ∧
    (∀ r ∈ rows E o.pred, ∀ x ∈ r.deps,
      x ∈ (select te (rows E X)).deps ∨ x ∈ (select tr (rows E X)).atoms ∨ x ∈ (select tr (rows E L)).atoms) :=
  ⟨produce_getElem? _ n sp X L hfid,
   C12_eval_noleak E (denote p) (C12_pipeline_local E p) n sp X L fid hfid _ (produce_getElem? _ n sp X L hfid) tr te hdec⟩

/-- **C12, stacking**, for every scope expression `p`, every base expression `b`, fold count, splitter decision and
fold `fid`: see `C12_stack_noleak` -/
theorem C12_stack_noleak_every_pipeline (E : Env) (p b : Pipe) (sp : Nat) (xa xt xl : Val) (fid : Nat)
    (tr te : List Nat) (hdec : (E.dec sp (rows E xt) (rows E xl))[fid]? = some (tr, te)) :
    let f := foldOf (denote p) sp xa xt xl fid
    let block := (denote b f.testTrain f.trainTrain f.trainLabel).apply
    rows E f.testLabel = select te (rows E xl) ∧
    (∀ r ∈ rows E block, r.key ∈ (select te (rows E xt)).keys) ∧
    (∀ r ∈ rows E block, ∀ x ∈ r.deps,
      x ∈ (select te (rows E xt)).deps ∨ x ∈ (select tr (rows E xt)).atoms ∨ x ∈ (select tr (rows E xl)).atoms) :=
  C12_stack_noleak E (denote p) (C12_pipeline_local E p) (denote b) (C12_pipeline_local E b) sp xa xt xl fid tr te hdec

/-! ### the data-level default reducers: `evaluation._metric.mean` and `ensemble.pandas_mean` -/

/-- **Every fold contributes exactly once, with weight `1/n` — a zero score included.**  The default reducer of the per-fold
metric values `k / d` is the exact fraction `Σ k / (d · n)` over *all* `n` values; moving the score of any one fold by `δ`
moves `n ·` mean by exactly `δ`; the order of the folds does not matter; a fold scoring `0` is counted (`n` grows, the sum
stays) wherever it stands -/
theorem C12_mean_all_folds (d : Nat) (xs : List Int) (h : xs ≠ []) :
    meanReducer d xs = some ⟨xs.sum, d * xs.length⟩ ∧
    (∀ i (hi : i < xs.length) (δ : Int), meanReducer d (xs.set i (xs[i] + δ)) = some ⟨xs.sum + δ, d * xs.length⟩) ∧
    (∀ ys, xs.Perm ys → meanReducer d ys = meanReducer d xs) ∧
    meanReducer d (xs ++ [0]) = some ⟨xs.sum, d * (xs.length + 1)⟩ ∧
    meanReducer d (0 :: xs) = some ⟨xs.sum, d * (xs.length + 1)⟩ := by
  have hne : xs.isEmpty = false := by cases xs <;> simp_all
  refine ⟨by simp [meanReducer, hne], ?_, ?_, ?_, ?_⟩
  · intro i hi δ
    have : (xs.set i (xs[i] + δ)).isEmpty = false := by cases xs <;> simp_all
    simp [meanReducer, this, sum_set_add xs i hi δ]
  · intro ys hp
    have : ys.isEmpty = false := by
      cases ys with
      | nil => exact absurd (List.Perm.eq_nil hp) h
      | cons _ _ => rfl
    simp [meanReducer, hne, this, sum_perm hp, hp.length_eq]
  · simp [meanReducer]
  · simp [meanReducer]

/-- without a value the reducer refuses (`statistics.StatisticsError`) — and only then -/
theorem C12_mean_no_data (d : Nat) (xs : List Int) : meanReducer d xs = none ↔ xs = [] := by
  cases xs <;> simp [meanReducer]

/-- **Apply mode combines the fold models row by row, positionally.**  For fold predictions of one shape the default
reducer yields exactly one row per input row; row `i` is the exact mean `Σ_f fold_f[i] / (d · n)` of row `i` of *every* fold
model's prediction; and it is equivariant under any selection / reordering / repetition `ps` of the input rows: row `j` of the
result for the rows `ps` is row `ps[j]` of the result — nothing is sorted, grouped or merged (index labels play no role) -/
theorem C12_stack_reduce_positional (d : Nat) (f : List Int) (rest : List (List Int))
    (hshape : ∀ g ∈ rest, g.length = f.length) :
    ∃ out, stackReduce d (f :: rest) = .ok out ∧ out.length = f.length ∧
      (∀ i, i < f.length → out[i]? = some ⟨((f :: rest).map (·.getD i 0)).sum, d * (rest.length + 1)⟩) ∧
      ∀ ps : List Nat, (∀ p ∈ ps, p < f.length) → stackReduce d ((f :: rest).map (pick ps)) = .ok (pick ps out) := by
  have hall : rest.all (·.length == f.length) = true := by
    simp only [List.all_eq_true, beq_iff_eq]; exact hshape
  have hm : ∀ g ∈ f :: rest, g.length = f.length := by
    intro g hg
    rcases List.mem_cons.mp hg with rfl | hg
    · rfl
    · exact hshape g hg
  refine ⟨(List.range f.length).map fun i => ⟨(rowAcross i (f :: rest)).sum, d * (f :: rest).length⟩,
    by simp [stackReduce, hall], by simp, ?_, ?_⟩
  · intro i hi
    simp only [List.getElem?_map, List.getElem?_range hi, Option.map_some, List.length_cons]
    rw [rowAcross_eq_map (f :: rest) f.length i hm hi]
  · intro ps hps
    have hlen : ∀ g ∈ f :: rest, (pick ps g).length = ps.length := fun g hg =>
      pick_length ps g fun p hp => by rw [hm g hg]; exact hps p hp
    have hall' : (rest.map (pick ps)).all (·.length == ps.length) = true := by
      simp only [List.all_eq_true, beq_iff_eq, List.mem_map]
      rintro _ ⟨g, hg, rfl⟩
      exact hlen g (List.mem_cons_of_mem _ hg)
    simp only [List.map_cons, stackReduce, hlen f List.mem_cons_self, List.length_cons, List.length_map]
    rw [if_pos hall']
    congr 1
    apply List.ext_getElem?
    intro j
    rw [pick_getElem? ps _ (by simpa using hps) j]
    by_cases hj : j < ps.length
    · have h1 := rowAcross_pick (f :: rest) f.length hm ps hps j hj
      simp only [List.map_cons] at h1
      simp only [List.getElem?_map, List.getElem?_range hj, Option.map_some, h1, List.getElem?_eq_getElem hj,
        Option.bind_some, List.getElem?_range (hps ps[j] (List.getElem_mem hj))]
    · have hj' : ps.length ≤ j := Nat.le_of_not_lt hj
      simp [hj']

/-- no fold model, or fold predictions of different shapes: `ValueError('Folds must have same shape')` -/
theorem C12_stack_reduce_refuses (d : Nat) (f : List Int) (rest : List (List Int)) :
    stackReduce d [] = .error .valueError ∧
    ((∃ g ∈ rest, g.length ≠ f.length) → stackReduce d (f :: rest) = .error .valueError) := by
  refine ⟨rfl, ?_⟩
  rintro ⟨g, hg, hne⟩
  have : rest.all (·.length == f.length) = false := by
    rw [List.all_eq_false]
    exact ⟨g, hg, by simpa using hne⟩
  simp [stackReduce, this]

/-- three folds scoring 0, 7.5 and 15 (in eighths): the mean is 22.5 / 3 — the statement discriminates: dropping the fold
that scored zero (a truthiness filter) gives 22.5 / 2 -/
example : meanReducer 8 [0, 60, 120] = some ⟨180, 24⟩ ∧
    meanReducer 8 ([0, 60, 120].filter (· != 0)) = some ⟨180, 16⟩ := by decide

/-- two fold models on three live rows; picking the rows in the order 2, 0, 0 (an unsorted index with a repeated label)
yields the reduced rows 2, 0, 0 — three rows, not two merged and sorted ones -/
example : (stackReduce 8 [[60, 120, 180], [0, 60, 300]]).toOption = some [⟨60, 16⟩, ⟨180, 16⟩, ⟨480, 16⟩] ∧
    (stackReduce 8 ([[60, 120, 180], [0, 60, 300]].map (pick [2, 0, 0]))).toOption
      = some [⟨480, 16⟩, ⟨60, 16⟩, ⟨60, 16⟩] := by decide

/-! ### non-vacuity: a concrete pipeline, data and splitter satisfying the hypotheses, with non-trivial provenance -/

/-- four records per column; every splitter decides the 2-fold partition `p % 2` -/
def exampleEnv : Env :=
  { inp := fun c => (List.range 4).map fun r => ⟨⟨c, r⟩, []⟩
    dec := fun _ x _ => (Decision.kfold 0).indices 2 x.length }

/-- `mapper(1) >> (label(2) + mapper(3))` -/
def examplePipe : Pipe :=
  .seq (.wrap none (some ⟨1, true⟩) (some ⟨1, true⟩)) (.wrap (some ⟨2, true⟩) (some ⟨3, true⟩) (some ⟨3, true⟩))

example : (exampleEnv.dec 9 (rows exampleEnv (.input 1)) (rows exampleEnv (.input 2)))[1]? = some ([0, 2], [1, 3]) := by
  decide

example : examplePipe.wf = true := by decide

/-- the prediction scored in fold 1 describes the held-out records 1 and 3 and depends on records 0 and 2 only
(features and labels): the hypotheses of `C12_eval_noleak` … `C12_eval_heldout_unseen` hold and their conclusions
are not vacuous -/
example : rows exampleEnv (foldOutcome (denote examplePipe) 9 (.input 1) (.input 2) 1).pred
    = [⟨⟨1, 1⟩, [⟨1, 0⟩, ⟨1, 2⟩, ⟨2, 0⟩, ⟨2, 2⟩]⟩, ⟨⟨1, 3⟩, [⟨1, 0⟩, ⟨1, 2⟩, ⟨2, 0⟩, ⟨2, 2⟩]⟩] := by
  decide

example : rows exampleEnv (foldOutcome (denote examplePipe) 9 (.input 1) (.input 2) 1).true_
    = [⟨⟨2, 1⟩, []⟩, ⟨⟨2, 3⟩, []⟩] := by
  decide

example : (rows exampleEnv (.input 1)).rids.Nodup ∧ (rows exampleEnv (.input 2)).rids = (rows exampleEnv (.input 1)).rids := by
  decide

/-- the stacked column of `FullStack(mapper(5))` over `mapper(1)` in scope: block 0 = records 0, 2 predicted by
models trained on records 1, 3 -/
example : rows exampleEnv
    ((denote (.wrap none (some ⟨5, true⟩) (some ⟨5, true⟩))) (foldOf (denote (.wrap none (some ⟨1, true⟩) (some ⟨1, true⟩))) 9 (.input 0) (.input 1) (.input 2) 0).testTrain
      (foldOf (denote (.wrap none (some ⟨1, true⟩) (some ⟨1, true⟩))) 9 (.input 0) (.input 1) (.input 2) 0).trainTrain
      (foldOf (denote (.wrap none (some ⟨1, true⟩) (some ⟨1, true⟩))) 9 (.input 0) (.input 1) (.input 2) 0).trainLabel).apply
    = [⟨⟨1, 0⟩, [⟨1, 1⟩, ⟨1, 3⟩, ⟨2, 1⟩, ⟨2, 3⟩]⟩, ⟨⟨1, 2⟩, [⟨1, 1⟩, ⟨1, 3⟩, ⟨2, 1⟩, ⟨2, 3⟩]⟩] := by
  decide

/-- the statement discriminates: wiring the *held-out* labels into the training of fold 1 (port `2 fid + 1` instead of
`2 fid`) makes the prediction for record 1 depend on its own label -/
example : (⟨2, 1⟩ : Atom) ∈ (rows exampleEnv
    ((denote examplePipe) (.part 9 (.state 9 .none (.input 1) (.input 2)) 3 (.input 1))
      (.part 9 (.state 9 .none (.input 1) (.input 2)) 2 (.input 1))
      (.part 9 (.state 9 .none (.input 1) (.input 2)) 3 (.input 2))).apply).deps := by
  decide

/-- apply mode of `FullStack(mapper(5))` (2 folds) on the four live records: each reduced prediction describes its live
record and depends on all eight training records (features and labels) — fold 0's model saw records 1, 3, fold 1's model
records 0, 2: both have contributed (hypotheses and conclusion of `C12_stack_apply_all_folds` are not vacuous) -/
example : (rows exampleEnv (Val.apply 8 .none ((folds Scope.origin 2 9 (.input 0) (.input 1) (.input 2)).map fun f =>
      (baseFold (denote (.wrap none (some ⟨5, true⟩) (some ⟨5, true⟩))) f).2))).map (fun r => (r.key, r.deps.length))
    = [(⟨0, 0⟩, 8), (⟨0, 1⟩, 8), (⟨0, 2⟩, 8), (⟨0, 3⟩, 8)] := by
  decide

/-! ### non-vacuity of the actor contract: a cross-validator that never answers twice alike -/

/-- cross-validator 0: two folds, the rotation moves on with every call of `split` -/
def exampleSplits : Splits := specSplits [⟨2, .kfold 0, true⟩]

example : exampleSplits 0 0 (idRows 1 [7, 8, 9, 10]) none ≠ exampleSplits 0 1 (idRows 1 [7, 8, 9, 10]) none := by decide

/-- the compiled flow on it — train, the state to a features fork and to a labels fork (fresh instances, `SetState.set`) —
: both forks deliver the records at the positions decided in call 0 although a second call would have decided otherwise -/
example : (Machine.init.run exampleSplits .pickled
      [.new 0 0, .train 0 [7, 8, 9, 10], .getState 0 0, .new 1 0, .preset 1 0, .new 2 0, .preset 2 0,
       .apply 1 1 [7, 8, 9, 10], .apply 2 2 [7, 8, 9, 10]]).drop 7
    = [.parts [[8, 10], [7, 9], [7, 9], [8, 10]], .parts [[8, 10], [7, 9], [7, 9], [8, 10]]] := by decide

/-- the statement discriminates: forks that lost the indices and split lazily (each asking the cross-validator again, for
what it is just splitting) deliver different records for features and labels -/
example : (cvSplit (idRows 1 [7, 8, 9, 10]) (exampleSplits 0 1 (idRows 1 [7, 8, 9, 10]) none)).map (·.rids)
    ≠ (cvSplit (idRows 2 [7, 8, 9, 10]) (exampleSplits 0 2 (idRows 2 [7, 8, 9, 10]) none)).map (·.rids) := by decide

end ForML.CrossVal
