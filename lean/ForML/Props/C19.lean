/-
C19 — Content negotiation picks the client's most preferred supported encoding.
Property theorems only (helper lemmas: ForML/Lemmas/C19.lean). All statements quantify over every
header text / every pattern / every list of encodings; `example`s are non-vacuity tests.

Reading of the statement in the model (ForML/Model/Codec.lean):
* "parsed encodings are ordered by descending quality with ties kept in header order":
  `parse h` is `Range.enc` mapped over a permutation of the header's ranges `ranges h` that is
  pairwise `q`-non-increasing and, for every quality `k`, has the ranges of quality `k` in header order.
* "a pattern matches a concrete encoding exactly when its kind matches as a wildcard pattern and all
  of its options are present with equal values": `Encoding.matches` ⇔ no `*` in the concrete kind ∧
  `Matches (compile p.kind) c.kind` (declarative wildcard semantics) ∧ every option pair of `p` is
  found in `c`.
* "the chosen encoder is the first supported one in the client's preference order ... otherwise
  the unsupported-encoding error": `getEncoder` characterised by the first client range that
  matches any table entry (and the first table entry for it); `none` iff nothing matches.
* "the chosen decoder matches the declared content type": `getDecoder`.
* round trip ("encoding then decoding a table with a matching codec pair returns the same table"):
  proved on the unquoted `text/csv` token slice (`C19_codec_roundtrip_partial`); refuted at full
  strength for typed cells by two kernel-checked witnesses that the harness replays on the real
  code — a text cell that looks like a number through `text/csv` (`C19_codec_cell_roundtrip_*`,
  finding C19-F1) and a float cell with more than ten decimal places through any JSON encoder
  (`C19_codec_float_roundtrip_*`, finding C19-F2; `C19_codec_float_rounding_bound` says how far off).
-/
import ForML.Lemmas.C19
import ForML.Generated.C19Tables

namespace ForML.Codec

/-! ### header parsing -/

/-- For every header: a bad `q` anywhere raises; otherwise the result is the header's ranges
permuted, by non-increasing quality, ties (indeed every quality class) in header order. -/
theorem C19_parse_order (h : Str) :
    match ranges h with
    | .error e => parse h = .error e
    | .ok rs => ∃ out : List Range, parse h = .ok (out.map Range.enc) ∧ out.Perm rs ∧
        out.Pairwise (fun a b => a.q ≥ b.q) ∧
        ∀ k, out.filter (fun r => r.q == k) = rs.filter (fun r => r.q == k) := by
  unfold parse
  cases hr : ranges h with
  | error e => rfl
  | ok rs => exact ⟨sortDesc rs, rfl, sortDesc_perm rs, sortDesc_sorted rs, sortDesc_stable rs⟩

/-- ties in header order, stated on positions: of two ranges with the same quality the one written
first in the header comes first in the result (`l₁ ++ a :: l₂ ++ b :: l₃` = the header) -/
theorem C19_parse_ties (l₁ l₂ l₃ : List Range) (a b : Range) (hq : a.q = b.q) :
    ∃ m₁ m₂ m₃, (sortDesc (l₁ ++ a :: l₂ ++ b :: l₃)).filter (fun r => r.q == a.q) = m₁ ++ a :: m₂ ++ b :: m₃ := by
  rw [sortDesc_stable]
  refine ⟨l₁.filter (fun r => r.q == a.q), l₂.filter (fun r => r.q == a.q), l₃.filter (fun r => r.q == a.q), ?_⟩
  simp [List.filter_append, hq]

private theorem rangesOf_length (items : List Str) (rs : List Range) (h : rangesOf items = .ok rs) :
    rs.length = items.length := by
  induction items generalizing rs with
  | nil => simp [rangesOf] at h; cases h; rfl
  | cons i is ih =>
    simp only [rangesOf] at h
    split at h
    · cases h
    · split at h
      · cases h
      · rename_i rs' hrs; cases h; simp [ih rs' hrs]

/-- a header always yields at least one encoding (`Encoding.parse(content_type)[0]` in the REST
gateway cannot raise `IndexError`) -/
theorem C19_parse_nonempty (h : Str) (es : List Encoding) (hp : parse h = .ok es) : es ≠ [] := by
  unfold parse at hp
  cases hr : ranges h with
  | error e => simp [hr, Except.map] at hp
  | ok rs =>
    simp [hr, Except.map] at hp
    have hl := rangesOf_length _ _ hr
    have hne : (splitCsv h).length ≠ 0 := by
      simp only [splitCsv, List.length_map]
      intro h0
      exact splitOn_ne_nil ',' h (List.length_eq_zero_iff.mp h0)
    intro he
    subst hp
    have h1 := (sortDesc_perm rs).length_eq
    simp at he
    rw [he] at h1
    simp at h1
    omega

/-- the head of the result (what the REST gateway takes as *the* content type:
`Encoding.parse(content_type)[0]`) is a range of maximal quality, and the first written among those -/
theorem C19_parse_head (rs : List Range) (r : Range) (t : List Range) (h : sortDesc rs = r :: t) :
    r ∈ rs ∧ (∀ r' ∈ rs, r'.q ≤ r.q) ∧ (rs.filter (fun x => x.q == r.q)).head? = some r := by
  have hperm := sortDesc_perm rs
  have hsorted := sortDesc_sorted rs
  have hstable := sortDesc_stable rs r.q
  rw [h] at hperm hsorted hstable
  refine ⟨hperm.mem_iff.mp (by simp), ?_, ?_⟩
  · intro r' hr'
    have := hperm.mem_iff.mpr hr'
    rcases List.mem_cons.mp this with rfl | ht
    · exact Int.le_refl _
    · exact (List.pairwise_cons.mp hsorted).1 r' ht
  · rw [← hstable]; simp

/-! ### wildcard matching -/

/-- `fnmatch` as modelled decides the declarative wildcard semantics of the compiled pattern -/
theorem C19_glob (pat name : Str) : glob pat name = true ↔ Matches (compile pat) name :=
  globToks_iff _ _

/-- `*` stands for any run of characters, every other element for exactly one accepted character -/
theorem C19_glob_star (ts : List Tok) (s : Str) :
    Matches (.star :: ts) s ↔ ∃ pre suf, s = pre ++ suf ∧ Matches ts suf :=
  Matches_star_iff ts s

theorem C19_glob_one (t : Tok) (ht : t ≠ .star) (ts : List Tok) (s : Str) :
    Matches (t :: ts) s ↔ ∃ c r, s = c :: r ∧ t.Accepts c ∧ Matches ts r :=
  Matches_cons_iff t ht ts s

/-- a pattern without `*`, `?`, `[` matches exactly itself -/
theorem C19_glob_literal (pat name : Str) (hp : pat.all plain = true) : glob pat name = true ↔ name = pat := by
  unfold glob compile
  rw [compileAux_plain _ _ (Nat.le_refl _) hp]
  exact globToks_lits pat name

/-- `*/*` matches exactly the kinds that contain a `/` -/
theorem C19_glob_any (name : Str) : glob ['*', '/', '*'] name = true ↔ '/' ∈ name := by
  rw [C19_glob]
  have hc : compile ['*', '/', '*'] = [.star, .lit '/', .star] := by decide +kernel
  rw [hc, Matches_star_iff]
  constructor
  · rintro ⟨pre, suf, rfl, hm⟩
    obtain ⟨c, r, rfl, ha, _⟩ := (Matches_cons_iff (.lit '/') (by simp) _ _).mp hm
    simp only [Tok.Accepts] at ha
    subst ha
    simp
  · intro h
    obtain ⟨s, t, rfl⟩ := List.append_of_mem h
    refine ⟨s, '/' :: t, rfl, Matches.one _ _ _ _ rfl ?_⟩
    exact (Matches_star_iff [] t).mpr ⟨t, [], by simp, Matches.nil⟩

/-- `Encoding.match`: no `*` in the other kind, kind matches as a wildcard pattern, every option of
the pattern is found in the other with an equal value -/
theorem C19_match (p c : Encoding) :
    p.matches c = true ↔
      ('*' ∉ c.kind ∧ Matches (compile p.kind) c.kind ∧
        ∀ kv ∈ p.options, getOpt kv.1 c.options = some kv.2) := by
  simp only [Encoding.matches, Bool.and_eq_true, Bool.not_eq_true', List.all_eq_true, beq_iff_eq]
  rw [C19_glob]
  constructor
  · rintro ⟨⟨h1, h2⟩, h3⟩
    exact ⟨by simpa using h1, h2, h3⟩
  · rintro ⟨h1, h2, h3⟩
    exact ⟨⟨by simpa using h1, h2⟩, h3⟩

/-- the same with "is present with an equal value" as membership of the pair, for option
dictionaries (unique keys — what `parse` and the constructor produce) -/
theorem C19_match_mem (p c : Encoding) (hu : UniqueKeys c.options) :
    p.matches c = true ↔
      ('*' ∉ c.kind ∧ Matches (compile p.kind) c.kind ∧ ∀ kv ∈ p.options, kv ∈ c.options) := by
  rw [C19_match]
  constructor
  · rintro ⟨h1, h2, h3⟩
    exact ⟨h1, h2, fun kv hkv => (getOpt_iff_mem kv.1 kv.2 _ hu).mp (h3 kv hkv)⟩
  · rintro ⟨h1, h2, h3⟩
    exact ⟨h1, h2, fun kv hkv => (getOpt_iff_mem kv.1 kv.2 _ hu).mpr (h3 kv hkv)⟩

/-- the parameter dictionary of `cgi.parse_header` has unique keys, for every parameter list -/
theorem C19_params_unique (line : Str) : UniqueKeys (parseHeader line).2 := by
  unfold parseHeader
  split
  · simp [UniqueKeys]
  · exact paramDict_unique _

/-! ### decoder / encoder choice -/

/-- `get_decoder`: the chosen entry's pattern matches the declared content type and no earlier
entry does; `Unsupported` exactly when no entry matches -/
theorem C19_decoder (decoders : List Encoding) (source : Encoding) :
    match getDecoder decoders source with
    | some i => ∃ pat, decoders[i]? = some pat ∧ pat.matches source = true ∧
        ∀ j, j < i → ∀ q, decoders[j]? = some q → q.matches source = false
    | none => ∀ pat ∈ decoders, pat.matches source = false := by
  unfold getDecoder
  cases h : findIdx? (fun pat => pat.matches source) decoders with
  | none => exact (findIdx?_none_iff _ _).mp h
  | some i => exact findIdx?_some _ _ i h

/-- `get_encoder`, error branch: `Unsupported` exactly when no client range matches any supported encoding -/
theorem C19_encoder_none (encoders targets : List Encoding) :
    getEncoder encoders targets = none ↔ ∀ t ∈ targets, ∀ e ∈ encoders, t.matches e = false := by
  induction targets with
  | nil => simp [getEncoder]
  | cons t r ih =>
    simp only [getEncoder]
    cases h : findIdx? (fun e => t.matches e) encoders with
    | some i =>
      simp only [List.mem_cons, forall_eq_or_imp]
      constructor
      · intro h'; cases h'
      · rintro ⟨h0, _⟩
        rw [(findIdx?_none_iff _ _).mpr h0] at h; cases h
    | none =>
      simp only [List.mem_cons, forall_eq_or_imp]
      rw [ih]
      exact ⟨fun hr => ⟨(findIdx?_none_iff _ _).mp h, hr⟩, fun hr => hr.2⟩

/-- `get_encoder`, success branch: encoder `i` is chosen exactly when some client range `t` is the
first (in client order) that matches any supported encoding, and `i` is the first table entry `t` matches -/
theorem C19_encoder_first (encoders targets : List Encoding) (i : Nat) :
    getEncoder encoders targets = some i ↔
      ∃ pre t post e, targets = pre ++ t :: post ∧
        (∀ p ∈ pre, ∀ e' ∈ encoders, p.matches e' = false) ∧
        encoders[i]? = some e ∧ t.matches e = true ∧
        ∀ j, j < i → ∀ e', encoders[j]? = some e' → t.matches e' = false := by
  induction targets with
  | nil => simp [getEncoder]
  | cons t r ih =>
    simp only [getEncoder]
    cases h : findIdx? (fun e => t.matches e) encoders with
    | some i' =>
      constructor
      · intro hi
        cases hi
        obtain ⟨e, he, hm, hlt⟩ := findIdx?_some _ _ i h
        exact ⟨[], t, r, e, rfl, by simp, he, hm, hlt⟩
      · rintro ⟨pre, t', post, e, hsplit, hpre, he, hm, hlt⟩
        cases pre with
        | nil =>
          simp at hsplit
          obtain ⟨rfl, rfl⟩ := hsplit
          have := findIdx?_eq_of_first (fun e => t.matches e) encoders i e he hm hlt
          rw [h] at this; exact this
        | cons p pre' =>
          simp at hsplit
          obtain ⟨rfl, _⟩ := hsplit
          have := (findIdx?_none_iff _ _).mpr (hpre t (by simp))
          rw [h] at this; cases this
    | none =>
      rw [ih]
      have hnone := (findIdx?_none_iff _ _).mp h
      constructor
      · rintro ⟨pre, t', post, e, rfl, hpre, he, hm, hlt⟩
        refine ⟨t :: pre, t', post, e, rfl, ?_, he, hm, hlt⟩
        intro p hp
        rcases List.mem_cons.mp hp with rfl | hp'
        · exact hnone
        · exact hpre p hp'
      · rintro ⟨pre, t', post, e, hsplit, hpre, he, hm, hlt⟩
        cases pre with
        | nil =>
          simp at hsplit
          obtain ⟨rfl, rfl⟩ := hsplit
          have hmem : e ∈ encoders := List.mem_of_getElem? he
          rw [hnone e hmem] at hm; cases hm
        | cons p pre' =>
          simp at hsplit
          obtain ⟨rfl, rfl⟩ := hsplit
          exact ⟨pre', t', post, e, rfl, fun q hq => hpre q (List.mem_cons_of_mem _ hq), he, hm, hlt⟩

/-! ### facts about the live tables (re-proved against the generated file on every run) -/

/-- every supported encoding is concrete (no `*`) and has unique option keys, so the first
conjunct of `match` never rejects a table entry -/
theorem C19_tables_concrete :
    ∀ e ∈ Tables.encoders ++ Tables.decoders, (!e.kind.contains '*' && decide (UniqueKeys e.options)) = true := by
  decide +kernel

/-- whatever an encoder produces is decoded by the decoder registered for exactly that encoding
(the option-less `application/json` entry comes after the `format=pandas-*` ones) -/
theorem C19_tables_decoder_for_encoder :
    ∀ e ∈ Tables.encoders, (getDecoder Tables.decoders e).bind (Tables.decoders[·]?) = some e := by
  decide +kernel

/-- the tables are not empty and `*/*` selects the first encoder -/
theorem C19_tables_any :
    getEncoder Tables.encoders [⟨['*', '/', '*'], []⟩] = some 0 := by
  decide +kernel

/-! ### codec round trip (unquoted `text/csv` slice) -/

/-- cells free of separator and terminator, no row without a cell -/
def CsvSlice (rows : List (List Str)) : Prop :=
  ∀ r ∈ rows, r ≠ [] ∧ ∀ cell ∈ r, ',' ∉ cell ∧ '\n' ∉ cell

instance (rows : List (List Str)) : Decidable (CsvSlice rows) := by unfold CsvSlice; infer_instance

/-- `loads (dumps table) = table` on the slice, for every table (header row + data rows) -/
theorem C19_codec_roundtrip_partial (rows : List (List Str)) (h : CsvSlice rows) :
    csvLoads (csvDumps rows) = rows := by
  unfold csvLoads csvDumps
  have hl : ∀ l ∈ rows.map (joinWith ','), '\n' ∉ l := by
    intro l hl
    obtain ⟨r, hr, rfl⟩ := List.mem_map.mp hl
    exact joinWith_free ',' '\n' (by decide) r (fun c hc => ((h r hr).2 c hc).2)
  have : rows.flatMap (fun r => joinWith ',' r ++ ['\n']) =
      (rows.map (joinWith ',')).flatMap (fun l => l ++ ['\n']) := by
    simp [List.flatMap_map]
  rw [this, splitOn_lines _ hl]
  simp only [List.dropLast_concat, List.map_map]
  have : ∀ r ∈ rows, (splitOn ',' ∘ joinWith ',') r = r := by
    intro r hr
    exact splitOn_join ',' r (h r hr).1 (fun c hc => ((h r hr).2 c hc).1)
  rw [List.map_congr_left this]
  simp

/-! ### typed cells through `text/csv` (known finding C19-F1)

CSV carries no types: the reader infers them from the text, so a *text* cell that looks like a
number does not come back as the text it was. Single-cell model of that mechanism; integer cells
and whole-column inference are sampled by the correspondence only. -/

/-- the statement at full strength: every cell is read back as written -/
def C19_codec_cell_roundtrip_full : Prop := ∀ c : Cell, Cell.read c.render = c

/-- false: the text `007` is read back as the number 7 -/
theorem C19_codec_cell_roundtrip_counterexample : ¬ C19_codec_cell_roundtrip_full := by
  intro h
  exact absurd (h (.text ['0', '0', '7'])) (by decide +kernel)

/-- text cells that do not look like a number are read back as written -/
theorem C19_codec_cell_roundtrip_partial (s : Str) (h : looksNumeric s = false) :
    Cell.read (Cell.text s).render = .text s := by
  simp [Cell.read, Cell.render, h]

/-! ### float cells through the JSON encoders (known finding C19-F2)

`DataFrame.to_json` is used with its default `double_precision=10` by every JSON entry of
`ENCODERS`: decimal places beyond the tenth are rounded away by the *encoder*, whichever decoder
reads the text. -/

/-- the statement at full strength: the written number is the cell's number -/
def C19_codec_float_roundtrip_full : Prop := ∀ d : Dec, d.jsonRender.same d = true

/-- false: `1e-12` is written as `0.0` -/
theorem C19_codec_float_roundtrip_counterexample : ¬ C19_codec_float_roundtrip_full := by
  intro h
  exact absurd (h ⟨1, 12⟩) (by decide +kernel)

/-- cells with at most ten decimal places are written as they are -/
theorem C19_codec_float_roundtrip_partial (d : Dec) (h : d.scale ≤ jsonPrecision) :
    d.jsonRender = d ∧ d.jsonRender.same d = true := by
  simp [Dec.jsonRender, h, Dec.same]

/-- beyond ten places the written number is the cell's number rounded to ten places: it is off by
at most half a unit of the tenth place (`2·|written − cell| ≤ 10⁻¹⁰`, scaled by `10^scale`) -/
theorem C19_codec_float_rounding_bound (d : Dec) (h : jsonPrecision < d.scale) :
    d.jsonRender.scale = jsonPrecision ∧
    2 * (d.jsonRender.n * 10 ^ (d.scale - jsonPrecision)) ≤ 2 * d.n + 10 ^ (d.scale - jsonPrecision) ∧
    2 * d.n < 2 * (d.jsonRender.n * 10 ^ (d.scale - jsonPrecision)) + 10 ^ (d.scale - jsonPrecision) + 1 := by
  have hns : ¬ d.scale ≤ jsonPrecision := by omega
  have hm : 10 ^ (d.scale - jsonPrecision) = 2 * (5 * 10 ^ (d.scale - jsonPrecision - 1)) := by
    have : d.scale - jsonPrecision = (d.scale - jsonPrecision - 1) + 1 := by omega
    rw [this, Nat.pow_succ]; simp; omega
  have hb := roundDiv_bound d.n _ _ hm (Nat.pow_pos (by decide))
  simp only [Dec.jsonRender, hns, if_false]
  exact ⟨trivial, hb⟩

/-! ### non-vacuity (tests on concrete objects, not part of the claim) -/

example : (⟨12345, 4⟩ : Dec).jsonRender = ⟨12345, 4⟩ := by decide +kernel
example : (⟨123456789016, 12⟩ : Dec).jsonRender = ⟨1234567890, 10⟩ := by decide +kernel
example : (⟨123456789096, 12⟩ : Dec).jsonRender = ⟨1234567891, 10⟩ := by decide +kernel
example : glob "text/csv".toList "text/csv".toList = true :=
  (C19_glob_literal _ _ (by decide +kernel)).mpr rfl
example : glob "*/*".toList "text/csv".toList = true := (C19_glob_any _).mpr (by decide +kernel)
example : sortDesc [⟨"a".toList, [], 500⟩, ⟨"b".toList, [], 1000⟩, ⟨"c".toList, [], 1000⟩]
    = [⟨"b".toList, [], 1000⟩, ⟨"c".toList, [], 1000⟩, ⟨"a".toList, [], 500⟩] := by decide +kernel
-- a negative or > 1 quality is ordered like any number (`float` accepts it)
example : (parse "a;q=-1, b;q=2, c;q=+0.5, d;q=-0.0, e;q=0".toList).toOption.map (·.map (·.kind))
    = some ["b".toList, "c".toList, "d".toList, "e".toList, "a".toList] := by decide +kernel

example : looksNumeric "x7".toList = false := by decide +kernel
example : Cell.read (Cell.int 42).render = .int 42 := by decide +kernel

-- the docstring example of `Encoding.parse`
example : (parse "image/GIF; q=0.6; a=x, text/html; q=1.0".toList).toOption
    = some [⟨"text/html".toList, []⟩, ⟨"image/gif".toList, [("a".toList, "x".toList)]⟩] := by decide +kernel

-- ties keep header order, a missing q is 1, q is removed from the options, a bad q raises
example : (parse "a/b;q=0.5, c/d;q=.5, e/f;q=0.50;x=1, g/h".toList).toOption.map (·.map (·.kind))
    = some ["g/h".toList, "a/b".toList, "c/d".toList, "e/f".toList] := by decide +kernel
example : (match parse "a/b;q=abc".toList with | .error .badQ => true | .ok _ => false) = true := by decide +kernel

-- wildcard compilation and matching
example : compile "te?t/[!a-c]*".toList
    = [.lit 't', .lit 'e', .any, .lit 't', .lit '/', .set true [.rng 'a' 'c'], .star] := by decide +kernel
example : glob "te?t/[!a-c]*".toList "text/csv".toList = false := by decide +kernel
example : glob "te?t/[!a-b]*".toList "text/csv".toList = true := by decide +kernel
example : Matches [.star, .lit 'v'] "csv".toList := (C19_glob "*v".toList "csv".toList).mp (by decide +kernel)

-- the docstring example of `get_encoder`: foo/bar is skipped, application/* picks pandas-records (#0)
example : getEncoder Tables.encoders [⟨"foo/bar".toList, []⟩, ⟨"application/*".toList, []⟩] = some 0 := by
  decide +kernel
-- client order beats table order; an option narrows the choice; nothing supported -> Unsupported
example : getEncoder Tables.encoders [⟨"text/*".toList, []⟩, ⟨"application/json".toList, []⟩] = some 6 := by
  decide +kernel
example : getEncoder Tables.encoders [⟨"application/json".toList, [("format".toList, "pandas-split".toList)]⟩]
    = some 3 := by decide +kernel
example : getEncoder Tables.encoders [⟨"foo/bar".toList, []⟩] = none := by decide +kernel
example : getDecoder Tables.decoders ⟨"application/json".toList, [("charset".toList, "utf-8".toList)]⟩ = some 6 := by
  decide +kernel
example : getDecoder Tables.decoders ⟨"*/*".toList, []⟩ = none := by decide +kernel

-- a table of the slice
example : CsvSlice [["A".toList, "B".toList], ["1".toList, "x".toList]] := by decide +kernel
example : csvDumps [["A".toList, "B".toList], ["1".toList, "x".toList]] = "A,B\n1,x\n".toList := by decide +kernel

end ForML.Codec
