/-
C17 — Model-selection strategies honour their contract on every request history.
Property theorems only (helper lemmas are local `private theorem`s here because they are tiny).

Reading of the statement in the model: after `n` requests slot `i` (weight `w`, count `c`, all
weights summing to `W`) is "within one request of its share" iff
    w * n < (c + 1) * W   (c > share*n - 1)   and   c * W < w * n + W   (c < share*n + 1).
-/
import ForML.Model.Strategy
import ForML.Lemmas.C17Float
import ForML.Lemmas.C17LatestFresh
import ForML.Lemmas.C17Explicit
import ForML.Lemmas.C17Builder

namespace ForML.Strategy

/-! ### helper lemmas -/

private theorem hitFirst_sumW (W n : Nat) (sl sl' : List Slot) (h : hitFirst W n sl = some sl') :
    sumW sl' = sumW sl := by
  induction sl generalizing sl' with
  | nil => simp [hitFirst] at h
  | cons x r ih =>
    obtain ⟨w, c⟩ := x
    simp only [hitFirst] at h
    split at h
    · cases h; simp [sumW]
    · cases hr : hitFirst W n r with
      | none => simp [hr] at h
      | some r' => simp [hr] at h; subst h; simp [sumW, ih r' hr]

private theorem hitFirst_sumC (W n : Nat) (sl sl' : List Slot) (h : hitFirst W n sl = some sl') :
    sumC sl' = sumC sl + 1 := by
  induction sl generalizing sl' with
  | nil => simp [hitFirst] at h
  | cons x r ih =>
    obtain ⟨w, c⟩ := x
    simp only [hitFirst] at h
    split at h
    · cases h; simp [sumC]; omega
    · cases hr : hitFirst W n r with
      | none => simp [hr] at h
      | some r' => simp [hr] at h; subst h; simp [sumC, ih r' hr]; omega

/-- pigeonhole: if no slot is eligible, the counts weigh at least as much as the targets -/
private theorem none_eligible (W n : Nat) (sl : List Slot) (h : hitFirst W n sl = none) :
    sumW sl * n ≤ sumC sl * W := by
  induction sl with
  | nil => simp [sumW, sumC]
  | cons x r ih =>
    obtain ⟨w, c⟩ := x
    simp only [hitFirst] at h
    split at h
    · cases h
    · rename_i hlt
      have hr : hitFirst W n r = none := by
        cases hr : hitFirst W n r with
        | none => rfl
        | some _ => simp [hr] at h
      have := ih hr
      simp only [sumW, sumC, Nat.add_mul]
      omega

/-- Invariant of the run: counts sum to the number of requests, weights are unchanged. -/
structure Inv (ws : List Nat) (s : State) : Prop where
  weights : s.slots.map (·.1) = ws
  counts : sumC s.slots = s.total

private theorem hitFirst_weights (W n : Nat) (sl sl' : List Slot) (h : hitFirst W n sl = some sl') :
    sl'.map (·.1) = sl.map (·.1) := by
  induction sl generalizing sl' with
  | nil => simp [hitFirst] at h
  | cons x r ih =>
    obtain ⟨w, c⟩ := x
    simp only [hitFirst] at h
    split at h
    · cases h; simp
    · cases hr : hitFirst W n r with
      | none => simp [hr] at h
      | some r' => simp [hr] at h; subst h; simp [ih r' hr]

private theorem sumW_init (ws : List Nat) : sumW (ws.map (fun w => (w, 0))) = ws.sum := by
  induction ws with
  | nil => rfl
  | cons w r ih => simp [sumW, ih]

private theorem sumC_init (ws : List Nat) : sumC (ws.map (fun w => (w, 0))) = 0 := by
  induction ws with
  | nil => rfl
  | cons w r ih => simp [sumC, ih]

theorem inv_init (ws : List Nat) : Inv ws (init ws) :=
  ⟨by simp [init, Function.comp_def], by simp [init, sumC_init]⟩

theorem inv_step (ws : List Nat) (s s' : State) (hi : Inv ws s) (h : step s = some s') :
    Inv ws s' := by
  unfold step at h
  split at h
  · cases h
  · rename_i sl hsl
    cases h
    exact ⟨by rw [hitFirst_weights _ _ _ _ hsl]; exact hi.weights,
           by simp [hitFirst_sumC _ _ _ _ hsl, hi.counts]⟩

/-! ### C17 — never fails -/

/-- One step never fails when some weight is positive (all are, `Variant` refuses `target <= 0`). -/
theorem C17_step_never_fails (ws : List Nat) (s : State) (hi : Inv ws s) (hpos : 0 < sumW s.slots) :
    (step s).isSome := by
  unfold step
  cases hsl : hitFirst (sumW s.slots) (s.total + 1) s.slots with
  | some _ => simp
  | none =>
    exfalso
    have := none_eligible _ _ _ hsl
    rw [hi.counts] at this
    -- W*(t+1) ≤ t*W with W>0
    have h2 : sumW s.slots * (s.total + 1) = s.total * sumW s.slots + sumW s.slots := by
      rw [Nat.mul_add, Nat.mul_comm]; simp
    omega

private theorem step_sumW (s s' : State) (h : step s = some s') : sumW s'.slots = sumW s.slots := by
  unfold step at h
  split at h
  · cases h
  · rename_i sl hsl; cases h; exact hitFirst_sumW _ _ _ _ hsl

/-- **C17_never_fails**: for every weight vector with a positive sum and every `n`, `n` consecutive
`select` calls all succeed (`RuntimeError('No eligible slots')` is unreachable). -/
theorem C17_never_fails (ws : List Nat) (hpos : 0 < ws.sum) (n : Nat) :
    ∃ s, run (init ws) n = some s ∧ Inv ws s ∧ sumW s.slots = ws.sum ∧ s.total = n := by
  induction n with
  | zero => exact ⟨init ws, rfl, inv_init ws, by simp [init, sumW_init], rfl⟩
  | succ n ih =>
    obtain ⟨s, hr, hi, hw, ht⟩ := ih
    have hs := C17_step_never_fails ws s hi (by omega)
    obtain ⟨s', hs'⟩ := Option.isSome_iff_exists.mp hs
    refine ⟨s', by simp [run, hr, hs'], inv_step ws s s' hi hs', by rw [step_sumW s s' hs', hw], ?_⟩
    unfold step at hs'
    split at hs'
    · cases hs'
    · cases hs'; simp [ht]

/-! ### C17 — upper bound: no variant runs ahead of its share by a full request -/

/-- every slot satisfies `c * W < w * n + W` -/
def UpperOK (W n : Nat) (sl : List Slot) : Prop := ∀ x ∈ sl, x.2 * W < x.1 * n + W

private theorem hitFirst_upper (W n : Nat) (sl sl' : List Slot)
    (hu : UpperOK W n sl) (h : hitFirst W (n + 1) sl = some sl') : UpperOK W (n + 1) sl' := by
  induction sl generalizing sl' with
  | nil => simp [hitFirst] at h
  | cons x r ih =>
    obtain ⟨w, c⟩ := x
    have hx := hu (w, c) (by simp)
    have hr : UpperOK W n r := fun y hy => hu y (by simp [hy])
    have mono : ∀ y ∈ r, y.2 * W < y.1 * (n + 1) + W := by
      intro y hy
      have := hr y hy
      rw [Nat.mul_add]; omega
    simp only [hitFirst] at h
    split at h
    · rename_i hlt
      cases h
      intro y hy
      simp at hy
      rcases hy with rfl | hy
      · simp only; rw [Nat.add_mul]; omega
      · exact mono y hy
    · cases hr' : hitFirst W (n + 1) r with
      | none => simp [hr'] at h
      | some r' =>
        simp [hr'] at h; subst h
        intro y hy
        simp at hy
        rcases hy with rfl | hy
        · simp only at hx ⊢; rw [Nat.mul_add]; omega
        · exact ih r' hr hr' y hy

/-- **C17_upper**: after any number `n` of requests every variant's count `c` satisfies
`c * W < w * n + W`, i.e. `c < share * n + 1`. -/
theorem C17_upper (ws : List Nat) (hpos : 0 < ws.sum) (n : Nat) :
    ∀ s, run (init ws) n = some s → UpperOK ws.sum n s.slots := by
  induction n with
  | zero =>
    intro s h
    simp [run] at h; subst h
    intro x hx
    simp [init] at hx
    obtain ⟨w, _, rfl⟩ := hx
    simp; exact hpos
  | succ n ih =>
    intro s h
    simp only [run] at h
    split at h
    · cases h
    · rename_i s0 hs0
      have hu := ih s0 hs0
      obtain ⟨s1, hr1, _, hw1, ht1⟩ := C17_never_fails ws hpos n
      rw [hs0] at hr1; cases hr1
      unfold step at h
      split at h
      · cases h
      · rename_i sl hsl
        cases h
        rw [hw1, ht1] at hsl
        exact hitFirst_upper _ _ _ _ hu hsl

/-! ### C17 — lower bound -/

/-- every slot satisfies `w * n < (c + k) * W`, i.e. `c > share * n - k` -/
def LowerOK (W n k : Nat) (sl : List Slot) : Prop := ∀ x ∈ sl, x.1 * n < (x.2 + k) * W

private theorem upper_sum (W n : Nat) (sl : List Slot) (hu : UpperOK W n sl) :
    sumC sl * W + sl.length ≤ sumW sl * n + sl.length * W := by
  induction sl with
  | nil => simp [sumC, sumW]
  | cons x r ih =>
    obtain ⟨w, c⟩ := x
    have hx := hu (w, c) (by simp)
    have := ih (fun y hy => hu y (by simp [hy]))
    simp only [sumC, sumW, Nat.add_mul, List.length_cons] at *
    omega

/-- from the upper bounds of all *other* slots: a slot is at most `k-1` requests behind, where `k`
is the number of slots. Stated for a slot split out of the list. -/
private theorem lower_of_upper (W n : Nat) (pre post : List Slot) (w c : Nat)
    (hW : sumW (pre ++ (w, c) :: post) = W) (hC : sumC (pre ++ (w, c) :: post) = n)
    (hu : UpperOK W n (pre ++ (w, c) :: post)) (hpos : 0 < W) :
    w * n < (c + (pre.length + post.length)) * W + (if pre.length + post.length = 0 then W else 0) := by
  have hpre := upper_sum W n pre (fun y hy => hu y (by simp [hy]))
  have hpost := upper_sum W n post (fun y hy => hu y (by simp [hy]))
  have sW : ∀ a b : List Slot, sumW (a ++ b) = sumW a + sumW b := by
    intro a b; induction a with
    | nil => simp [sumW]
    | cons x r ih => obtain ⟨w, c⟩ := x; simp [sumW, ih]; omega
  have sC : ∀ a b : List Slot, sumC (a ++ b) = sumC a + sumC b := by
    intro a b; induction a with
    | nil => simp [sumC]
    | cons x r ih => obtain ⟨w, c⟩ := x; simp [sumC, ih]; omega
  rw [sW] at hW; rw [sC] at hC
  simp only [sumW, sumC] at hW hC
  -- W*n = (sumW pre + w + sumW post) * n ; n*W = (sumC pre + c + sumC post) * W
  have e1 : W * n = sumW pre * n + w * n + sumW post * n := by
    rw [← hW]; simp [Nat.add_mul]; omega
  have e2 : n * W = sumC pre * W + c * W + sumC post * W := by
    rw [← hC]; simp [Nat.add_mul]; omega
  have e3 : W * n = n * W := Nat.mul_comm _ _
  have e4 : (c + (pre.length + post.length)) * W = c * W + pre.length * W + post.length * W := by
    simp [Nat.add_mul]; omega
  rw [e4]
  split
  · rename_i h0
    have hp : pre.length = 0 := by omega
    have hq : post.length = 0 := by omega
    simp [hp, hq] at *
    omega
  · rename_i hne
    -- at least one other slot: its strict upper bound gives strictness
    rcases Nat.eq_zero_or_pos pre.length with hp | hp
    · have hq : 0 < post.length := by omega
      omega
    · omega

/-- **C17_lower_partial**: a variant is never `k - 1` or more requests behind its share, `k` the
number of variants:  `w * n < (c + (k - 1)) * W`, i.e. `c > share * n - (k - 1)`, for `k ≥ 2`.
(The full "within one request" lower bound is *false* for `k ≥ 3`, see the counterexample.) -/
theorem C17_lower_partial (ws : List Nat) (hpos : 0 < ws.sum) (hk : 2 ≤ ws.length) (n : Nat) :
    ∀ s, run (init ws) n = some s → LowerOK ws.sum n (ws.length - 1) s.slots := by
  intro s hs
  obtain ⟨s1, hr1, hi, hw, ht⟩ := C17_never_fails ws hpos n
  rw [hs] at hr1; cases hr1
  have hu := C17_upper ws hpos n s hs
  intro x hx
  obtain ⟨pre, post, hsplit⟩ := List.append_of_mem hx
  obtain ⟨w, c⟩ := x
  have hlen : s.slots.length = ws.length := by
    have := congrArg List.length hi.weights; simpa using this
  have hl : pre.length + post.length = ws.length - 1 := by
    have := congrArg List.length hsplit; simp at this; omega
  have hC : sumC (pre ++ (w, c) :: post) = n := by rw [← hsplit, hi.counts, ht]
  have hW : sumW (pre ++ (w, c) :: post) = ws.sum := by rw [← hsplit, hw]
  have := lower_of_upper ws.sum n pre post w c hW hC (hsplit ▸ hu) hpos
  rw [hl] at this
  have hne : ¬ (ws.length - 1 = 0) := by omega
  simp [hne] at this
  exact this

/-- **C17_two**: with exactly two variants both are within one request of their share, both ways. -/
theorem C17_two (w1 w2 : Nat) (hpos : 0 < w1 + w2) (n : Nat) :
    ∀ s, run (init [w1, w2]) n = some s →
      (∀ x ∈ s.slots, x.2 * (w1 + w2) < x.1 * n + (w1 + w2)) ∧
      (∀ x ∈ s.slots, x.1 * n < (x.2 + 1) * (w1 + w2)) := by
  intro s hs
  have hp : 0 < [w1, w2].sum := by simp; omega
  have hu := C17_upper [w1, w2] hp n s hs
  have hl := C17_lower_partial [w1, w2] hp (by simp) n s hs
  simp [UpperOK, LowerOK] at hu hl ⊢
  exact ⟨hu, hl⟩

/-! ### IEEE-754: the binary64 eligibility test selects exactly what the exact model selects -/

private theorem mem_le_sumW (sl : List Slot) : ∀ x ∈ sl, x.1 ≤ sumW sl := by
  induction sl with
  | nil => intro x hx; cases hx
  | cons y r ih =>
    obtain ⟨w, c⟩ := y
    intro x hx
    rcases List.mem_cons.mp hx with rfl | hx
    · simp [sumW]
    · have := ih x hx; simp only [sumW]; omega

private theorem mem_le_sumC (sl : List Slot) : ∀ x ∈ sl, x.2 ≤ sumC sl := by
  induction sl with
  | nil => intro x hx; cases hx
  | cons y r ih =>
    obtain ⟨w, c⟩ := y
    intro x hx
    rcases List.mem_cons.mp hx with rfl | hx
    · simp [sumC]
    · have := ih x hx; simp only [sumC]; omega

private theorem step_total (s s' : State) (h : step s = some s') : s'.total = s.total + 1 := by
  unfold step at h
  split at h
  · cases h
  · cases h; rfl

private theorem ftraceS_eq (ws : List Nat) (hpos : ∀ w ∈ ws, 0 < w) :
    ∀ k s, Inv ws s → sumW s.slots = ws.sum → (s.total + k) * ws.sum < 2 ^ 52 → ftraceS s k = trace s k := by
  intro k
  induction k with
  | zero => intro s _ _ _; rfl
  | succ k ih =>
    intro s hi hw hb
    have hok : SlotsOK (sumW s.slots) (s.total + 1) s.slots := by
      intro x hx
      have hx1 : x.1 ∈ ws := by rw [← hi.weights]; exact List.mem_map_of_mem hx
      have := mem_le_sumC s.slots x hx
      rw [hi.counts] at this
      exact ⟨hpos _ hx1, mem_le_sumW s.slots x hx, by omega⟩
    have hnW : (s.total + 1) * sumW s.slots < 2 ^ 52 := by
      rw [hw]
      have : (s.total + 1) * ws.sum ≤ (s.total + (k + 1)) * ws.sum := Nat.mul_le_mul_right _ (by omega)
      omega
    have hn1 : 0 < s.total + 1 := by omega
    have e1 := fPickIdx_eq hn1 hnW s.slots hok
    have e2 : fstep s = step s := by
      unfold fstep step
      rw [fHitFirst_eq hn1 hnW s.slots hok]
      cases hitFirst (sumW s.slots) (s.total + 1) s.slots <;> rfl
    simp only [ftraceS, trace, e1, e2]
    cases hp : pickIdx (sumW s.slots) (s.total + 1) s.slots with
    | none => rfl
    | some i =>
      cases hs : step s with
      | none => rfl
      | some s' =>
        simp only
        rw [ih s' (inv_step ws s s' hi hs) (by rw [step_sumW s s' hs, hw])
          (by rw [step_total s s' hs]; have : s.total + 1 + k = s.total + (k + 1) := by omega
              rw [this]; exact hb)]

/-- **C17_float_agrees**: for positive integer weights `ws` (the constructor's targets `w / W` are then correctly
rounded quotients of integers; integers and dyadic fractions scale to this) and any number of requests `n` with
`n * W < 2^52`, the selection sequence computed with the binary64 test `count / total < target` is the selection
sequence of the exact model – every theorem above about `run`/`trace` is a theorem about the float mechanism.
(A flip needs `n * W ≥ 2^52`: with `W ≤ 1000` more than `4.5 * 10^12` requests.) -/
theorem C17_float_agrees (ws : List Nat) (hpos : ∀ w ∈ ws, 0 < w) (n : Nat) (hb : n * ws.sum < 2 ^ 52) :
    ftrace ws n = trace (init ws) n := by
  apply ftraceS_eq ws hpos n (init ws) (inv_init ws) (by simp [init, sumW_init])
  simpa [init] using hb

/-- one eligibility test: binary64 = exact, including the boundary `count / total = w / W` -/
theorem C17_float_eligible (W n w c : Nat) (hn : 0 < n) (hcn : c ≤ n) (hw : 0 < w) (hwW : w ≤ W)
    (hnW : n * W < 2 ^ 52) : fEligible W n w c = true ↔ c * W < w * n :=
  fEligible_iff hn hcn hw hwW hnW

/-- the rounded quotient is a normal binary64 within half an ulp of the exact one -/
theorem C17_float_round (a b : Nat) (ha : 0 < a) (hab : a ≤ b) :
    2 ^ 52 ≤ (fdiv a b).1 ∧ (fdiv a b).1 < 2 ^ 53 ∧
      2 * (a * 2 ^ (fdiv a b).2) ≤ 2 * (fdiv a b).1 * b + b ∧
      2 * (fdiv a b).1 * b ≤ 2 * (a * 2 ^ (fdiv a b).2) + b ∧ 52 ≤ (fdiv a b).2 :=
  fdiv_spec ha hab

/-- equal ratios round alike -/
theorem C17_float_ratio (a b a' b' : Nat) (ha : 0 < a) (ha' : 0 < a') (hb : 0 < b) (hb' : 0 < b')
    (h : a * b' = a' * b) : fdiv a b = fdiv a' b' := fdiv_ratio ha ha' hb hb' h

/-! ### C17 — the full statement and its refutation for the code that exists -/

/-- The property as stated: every variant within one request of its share after every `n`. -/
def C17_within_one_full : Prop :=
  ∀ (ws : List Nat), 0 < ws.sum → 2 ≤ ws.length → ∀ n s, run (init ws) n = some s →
    ∀ x ∈ s.slots, x.2 * ws.sum < x.1 * n + ws.sum ∧ x.1 * n < (x.2 + 1) * ws.sum

/-- weights 12/5/5 (the constructor's slot order for 5/12/5), 15 requests: counts 9/4/2; the third
variant's share is 15*5/22 = 3.41 and it has been selected twice: 1.41 requests behind. -/
theorem C17_counterexample : ¬ C17_within_one_full := by
  intro h
  have := h [12, 5, 5] (by decide) (by decide) 15 ⟨[(12, 9), (5, 4), (5, 2)], 15⟩ (by decide)
    (5, 2) (by simp)
  revert this
  decide

/-! ### ABTest.__init__ : normalisation and slot order -/

/-- slot order is by non-increasing weight -/
def DescSorted : List (Nat × Nat) → Prop
  | [] => True
  | [_] => True
  | x :: y :: r => y.1 ≤ x.1 ∧ DescSorted (y :: r)

private theorem insert_sorted (x : Nat × Nat) (l : List (Nat × Nat)) (h : DescSorted l) :
    DescSorted (sortDesc.insertDescStable x l) := by
  induction l with
  | nil => simp [sortDesc.insertDescStable, DescSorted]
  | cons y r ih =>
    simp only [sortDesc.insertDescStable]
    split
    · rename_i hlt
      cases r with
      | nil => simp [sortDesc.insertDescStable, DescSorted]; omega
      | cons z r' =>
        have hz := h.1
        have := ih h.2
        simp only [sortDesc.insertDescStable] at this ⊢
        split
        · rename_i h2; simp only [h2, if_true] at this; exact ⟨hz, this⟩
        · rename_i h2; simp only [h2, if_false] at this; exact ⟨by omega, this⟩
    · rename_i hge
      exact ⟨by omega, h⟩

/-- **C17_slot_order**: the constructor's slot order is a permutation of the variants, sorted by
non-increasing target. -/
theorem C17_slot_order (ws : List Nat) :
    DescSorted (slotOrder ws) ∧ (slotOrder ws).Perm (indexed ws) := by
  unfold slotOrder
  generalize indexed ws = l
  induction l with
  | nil => exact ⟨trivial, List.Perm.refl _⟩
  | cons x r ih =>
    refine ⟨insert_sorted x _ ih.1, ?_⟩
    have hp : ∀ l : List (Nat × Nat), (sortDesc.insertDescStable x l).Perm (x :: l) := by
      intro l; induction l with
      | nil => exact List.Perm.refl _
      | cons y r ih =>
        simp only [sortDesc.insertDescStable]
        split
        · exact (List.Perm.cons y ih).trans (List.Perm.swap x y r)
        · exact List.Perm.refl _
    exact (hp _).trans (List.Perm.cons x ih.2)

/-- **C17_normalise_explicit**: when every target is given, shares are the targets over their sum
(weights unchanged). -/
theorem C17_normalise_explicit (ns : List Nat) (d : Nat) :
    weights (ns.map some) d = ns := by
  have hm : missingCount (ns.map some) = 0 := by
    induction ns with
    | nil => rfl
    | cons n r ih => simp [missingCount, ih]
  simp [weights, hm, Function.comp_def]

private theorem weights_sum_complement (ts : List (Option Nat)) (m : Nat) (e : Nat) :
    (ts.map (fillWith m e)).sum = explicitSum ts * m + missingCount ts * e := by
  induction ts with
  | nil => simp [explicitSum, missingCount]
  | cons t r ih =>
    cases t with
    | none => simp [explicitSum, missingCount, fillWith, ih, Nat.add_mul]; omega
    | some n => simp [explicitSum, missingCount, fillWith, ih, Nat.add_mul]; omega

/-- **C17_normalise_complement**: with targets missing and the explicit ones summing below 1, the
missing variants share the complement: the weights sum to `d * missing`, i.e. shares are the
explicit targets themselves and `(1 - explicit)/missing` for each missing one. -/
theorem C17_normalise_complement (ts : List (Option Nat)) (d : Nat)
    (hm : 0 < missingCount ts) (he : explicitSum ts < d) :
    (weights ts d).sum = d * missingCount ts := by
  have hm' : ¬ missingCount ts = 0 := by omega
  simp only [weights, hm', he, if_true, if_false]
  rw [weights_sum_complement]
  have : explicitSum ts * missingCount ts + missingCount ts * (d - explicitSum ts)
       = missingCount ts * (explicitSum ts + (d - explicitSum ts)) := by
    rw [Nat.mul_add, Nat.mul_comm]
  rw [this, Nat.mul_comm]
  congr 1; omega

private theorem map_getD_of_no_missing (ts : List (Option Nat)) (h : missingCount ts = 0) :
    ts.map (fun t => t.getD 0) = ts.map (fillWith 1 0) := by
  induction ts with
  | nil => rfl
  | cons t r ih =>
    cases t with
    | none => simp [missingCount] at h
    | some n => simp [missingCount] at h; simp [fillWith, ih h]

private theorem givenCount_pos (ts : List (Option Nat)) (h : 0 < explicitSum ts) : 0 < givenCount ts := by
  induction ts with
  | nil => simp [explicitSum] at h
  | cons t r ih =>
    cases t with
    | none => simp [explicitSum] at h; simp [givenCount, ih h]
    | some n => simp [givenCount]

/-- **C17_normalise_positions**: whatever rule fills the omitted targets, the weights are the declared targets
*position by position*: every explicit target scaled by one common positive factor, every omitted one replaced by
one common implicit weight – a weight never moves to another variant. -/
theorem C17_normalise_positions (ts : List (Option Nat)) (d : Nat) (hd : 0 < d) :
    ∃ scale implicit, 0 < scale ∧ weights ts d = ts.map (fillWith scale implicit) := by
  unfold weights
  split
  · rename_i h
    exact ⟨1, 0, by omega, map_getD_of_no_missing ts h⟩
  · rename_i h
    split
    · exact ⟨missingCount ts, d - explicitSum ts, by omega, rfl⟩
    · rename_i h2
      exact ⟨givenCount ts, explicitSum ts, givenCount_pos ts (by omega), rfl⟩

/-- the mean rule: with the explicit targets summing to at least 1, every omitted target weighs the mean of the
explicit ones (`explicit / given`), i.e. the weights sum to `explicit * (given + missing)` over the common scale. -/
theorem C17_normalise_mean (ts : List (Option Nat)) (d : Nat) (hm : 0 < missingCount ts) (he : d ≤ explicitSum ts) :
    (weights ts d).sum = explicitSum ts * (givenCount ts + missingCount ts) := by
  have hm' : ¬ missingCount ts = 0 := by omega
  have he' : ¬ explicitSum ts < d := by omega
  simp only [weights, hm', he', if_false]
  rw [weights_sum_complement, Nat.mul_add, Nat.mul_comm (missingCount ts)]

/-! ### ABTest.Builder: the variant set handed to the constructor is the declared one -/

/-- **C17_builder**: `compare(first).over(a₁)…against(aₙ)` builds, coordinate by coordinate, the declared variant
list: each variant has its own generation and target, and the project / release given last at or before it. -/
theorem C17_builder (first : Variant) (args : List VArg) : Builder.build first args = declared first args :=
  build_eq_declared first args

theorem C17_builder_length (first : Variant) (args : List VArg) :
    (Builder.build first args).length = args.length + 1 := by
  simp [build_eq_declared, declared, declaredFrom_length]

/-- the targets reach the constructor in declaration order (so every ABTest theorem above speaks about the declared
variants) -/
theorem C17_builder_targets (first : Variant) (args : List VArg) :
    (Builder.build first args).map (·.target) = first.target :: args.map (·.target) := by
  rw [build_eq_declared]
  simp only [declared, List.map_cons]
  congr 1
  generalize first.project = p
  generalize first.release = r
  induction args generalizing p r with
  | nil => rfl
  | cons a rest ih => simp [declaredFrom, ih]

/-- the closing variant (`against`) is the one configured: its generation and target, and the project / release it
names (a cross-project test ends on the named project, not on the preceding variant's). -/
theorem C17_builder_against (first : Variant) (overs : List VArg) (a : VArg) :
    ∃ v, (Builder.build first (overs ++ [a])).getLast? = some v ∧ v.generation = a.generation ∧ v.target = a.target ∧
      (∀ p, a.project = some p → v.project = p) ∧ (∀ r, a.release = some r → v.release = r) := by
  obtain ⟨p', r', h⟩ := declaredFrom_last first.project first.release overs a
  refine ⟨⟨a.project.getD p', a.release.getD r', a.generation, a.target⟩, ?_, rfl, rfl, ?_, ?_⟩
  · rw [build_eq_declared]
    simp only [declared]
    rw [List.getLast?_cons_of_ne_nil]
    · exact h
    · intro e
      have := congrArg List.length e
      rw [declaredFrom_length] at this
      simp at this
  · intro p hp; simp [hp]
  · intro r hr; simp [hr]

/-! ### Latest -/

/-- **C17_latest**: `pick` returns `(r, g)` iff `r` is the highest release having any generation and
`g` is its last (= maximal, listings are sorted, C18) generation; `none` iff no release has one. -/
theorem C17_latest_none (rels : List (Nat × List Nat)) :
    pickLatest rels = none ↔ ∀ x ∈ rels, x.2 = [] := by
  induction rels with
  | nil => simp [pickLatest]
  | cons x r ih =>
    obtain ⟨rk, gs⟩ := x
    simp only [pickLatest]
    cases hp : pickLatest r with
    | some y =>
      simp only [List.mem_cons, forall_eq_or_imp]
      constructor
      · intro h; cases h
      · intro h; have := ih.mpr h.2; rw [hp] at this; cases this
    | none =>
      have hall := ih.mp hp
      cases hg : gs.getLast? with
      | none =>
        have : gs = [] := List.getLast?_eq_none_iff.mp hg
        simp [this]; exact fun a b h => hall (a, b) h
      | some g =>
        have : gs ≠ [] := by intro h; simp [h] at hg
        simp; intro h; exact absurd h this

theorem C17_latest_some (rels : List (Nat × List Nat)) (r g : Nat)
    (h : pickLatest rels = some (r, g)) :
    ∃ pre post gs, rels = pre ++ (r, gs) :: post ∧ gs.getLast? = some g ∧ ∀ x ∈ post, x.2 = [] := by
  induction rels with
  | nil => simp [pickLatest] at h
  | cons x rest ih =>
    obtain ⟨rk, gs⟩ := x
    simp only [pickLatest] at h
    cases hp : pickLatest rest with
    | some y =>
      rw [hp] at h; cases h
      obtain ⟨pre, post, gs', e, hg, hall⟩ := ih hp
      exact ⟨(rk, gs) :: pre, post, gs', by simp [e], hg, hall⟩
    | none =>
      rw [hp] at h
      cases hg : gs.getLast? with
      | none => simp [hg] at h
      | some g' =>
        simp [hg] at h
        obtain ⟨rfl, rfl⟩ := h
        exact ⟨[], rest, gs, rfl, hg, (C17_latest_none rest).mp hp⟩

/-- after a commit appends generation `g` to release `r`'s listing, a refresh tick (= a new `pick`)
returns at least that release; if `r` is the highest release with generations it returns `(r, g)`. -/
theorem C17_latest_refresh (pre post : List (Nat × List Nat)) (r g : Nat) (gs : List Nat)
    (hpost : ∀ x ∈ post, x.2 = []) :
    pickLatest (pre ++ (r, gs ++ [g]) :: post) = some (r, g) := by
  induction pre with
  | nil =>
    simp only [List.nil_append, pickLatest]
    rw [(C17_latest_none post).mpr hpost]
    simp
  | cons x pre ih =>
    obtain ⟨rk, gs'⟩ := x
    simp only [List.cons_append, pickLatest, ih]

/-! ### Latest over registry histories `publish r | commit r | tick | select use | fault e`

`execL survive cfg (LState.init rels0) ops` is the state any history `ops` leads to from a registry `rels0`
(`survive = true`: `_refresh` as it is; `cfg`: the configured release or none; `fault e`: the next registry call of
the refresher raises `e`, once).  `Spec cfg rels r g` is the property
text: `g` is the newest generation of the highest release that has any (or of the configured release `r`).  The
request observed is `select` followed by a use of the instance (`Obs.served r g`). -/

/-- **C17_latest_first**: the first use of a registry – after any history – resolves to the newest generation of the
highest release having any, resp. of the configured release (both configurations, code as is or repaired). -/
theorem C17_latest_first (sv : Bool) (cfg : Option Nat) (rels0 : Rels) (hwf : WF rels0) (ops : List LOp) (r g : Nat) :
    (execL sv cfg (LState.init rels0) ops).cache = none →
    Spec cfg (execL sv cfg (LState.init rels0) ops).rels r g →
    (stepL sv cfg (execL sv cfg (LState.init rels0) ops) (.select true)).2 = .served r g :=
  fun hc hs => first_select (invL_exec ops (invL_init hwf)).wf hc hs

/-- … and raises (`Level.Listing.Empty` / `Level.Invalid`) exactly when there is no such generation. -/
theorem C17_latest_first_none (sv : Bool) (cfg : Option Nat) (rels0 : Rels) (hwf : WF rels0) (ops : List LOp) :
    (execL sv cfg (LState.init rels0) ops).cache = none →
    (∀ r g, ¬ Spec cfg (execL sv cfg (LState.init rels0) ops).rels r g) →
    ∃ e, (stepL sv cfg (execL sv cfg (LState.init rels0) ops) (.select true)).2 = .err e :=
  fun hc hs => first_select_none (invL_exec ops (invL_init hwf)).wf hc hs

/-- **C17_latest** (the code as it is since 0762d05: `except Exception` around one refresh round; both
configurations; *every* history of `publish | commit | tick | select use | fault e`, any number of transient registry
faults of any kind): once the selector has been used the refresher is alive; a refresh round with no fault pending
brings the newest generation of the highest release that has any (or of the configured release); and whatever is
pending, two rounds do – a round after the last fault and after a commit picks the commit up. -/
theorem C17_latest (cfg : Option Nat) (rels0 : Rels) (hwf : WF rels0) (ops : List LOp) (r g : Nat) :
    (execL true cfg (LState.init rels0) ops).cache ≠ none →
    Spec cfg (execL true cfg (LState.init rels0) ops).rels r g →
    (execL true cfg (LState.init rels0) ops).alive = true ∧
    ((execL true cfg (LState.init rels0) ops).pending = false →
      (stepL true cfg (stepL true cfg (execL true cfg (LState.init rels0) ops) .tick).1 (.select true)).2
        = .served r g) ∧
    (stepL true cfg (execL true cfg (LState.init rels0) (ops ++ [.tick, .tick])) (.select true)).2 = .served r g := by
  intro hc hs
  obtain ⟨hinv, halive⟩ := reach_repaired (cfg := cfg) hwf ops
  refine ⟨halive hc, ?_, ?_⟩
  · intro hpd
    obtain ⟨h1, _, h3⟩ := tick_fresh (sv := true) hinv (halive hc) hpd hc hs
    exact obs_select_served h3 h1
  · have hex : ∀ (s : LState) (xs ys : List LOp), execL true cfg s (xs ++ ys) = execL true cfg (execL true cfg s xs) ys := by
      intro s xs
      induction xs generalizing s with
      | nil => intro ys; rfl
      | cons x xs ih => intro ys; exact ih _ ys
    rw [hex]
    obtain ⟨h1, h3⟩ := tick_twice_fresh hinv (halive hc) hc hs
    exact obs_select_served h3 h1

/-- **C17_latest_repaired**: the same for one round, as it was stated for the repair of C17-F2. -/
theorem C17_latest_repaired (cfg : Option Nat) (rels0 : Rels) (hwf : WF rels0) (ops : List LOp) (r g : Nat) :
    (execL true cfg (LState.init rels0) ops).cache ≠ none →
    (execL true cfg (LState.init rels0) ops).pending = false →
    Spec cfg (execL true cfg (LState.init rels0) ops).rels r g →
    (stepL true cfg (stepL true cfg (execL true cfg (LState.init rels0) ops) .tick).1 (.select true)).2
      = .served r g :=
  fun hc hpd hs => (C17_latest cfg rels0 hwf ops r g hc hs).2.1 hpd

/-! #### the refresher that ends with its first exception (`survive = false`): C17-F2 as it was, and what any
narrowing of the handler brings back for the exceptions it lets through -/

/-- no release configured, no registry fault: that refresher too stays alive and every round brings the newest
generation of the highest release that has any. -/
theorem C17_latest_fragile_unconfigured (rels0 : Rels) (hwf : WF rels0) (ops : List LOp) (hnf : NoFault ops)
    (r g : Nat) :
    (execL false none (LState.init rels0) ops).cache ≠ none →
    Spec none (execL false none (LState.init rels0) ops).rels r g →
    (execL false none (LState.init rels0) ops).alive = true ∧
    (stepL false none (stepL false none (execL false none (LState.init rels0) ops) .tick).1 (.select true)).2
      = .served r g := by
  intro hc hs
  obtain ⟨hinv, halive, hpd⟩ := reach_unconfigured hwf ops hnf
  obtain ⟨h1, _, h3⟩ := tick_fresh (sv := false) hinv (halive hc) hpd hc hs
  exact ⟨halive hc, obs_select_served h3 h1⟩

/-- unconfigured, and something was cached: there always is something to resolve to -/
theorem C17_latest_spec_exists (sv : Bool) (rels0 : Rels) (hwf : WF rels0) (ops : List LOp) :
    (execL sv none (LState.init rels0) ops).cache ≠ none →
    ∃ r g, Spec none (execL sv none (LState.init rels0) ops).rels r g :=
  fun hc => cached_spec_none (invL_exec ops (invL_init hwf)) hc

/-- The statement for a configured release and fault-free histories at full strength: false for that refresher. -/
def C17_latest_configured_full : Prop :=
  ∀ (rels0 : Rels) (c : Nat) (ops : List LOp) (r g : Nat), WF rels0 → NoFault ops →
    (execL false (some c) (LState.init rels0) ops).cache ≠ none →
    Spec (some c) (execL false (some c) (LState.init rels0) ops).rels r g →
    (stepL false (some c) (stepL false (some c) (execL false (some c) (LState.init rels0) ops) .tick).1
      (.select true)).2 = .served r g

/-- decidable form of "the configured release has a generation" -/
def hasGenB (rels : Rels) (c : Nat) : Bool :=
  match gensOf rels c with
  | some (_ :: _) => true
  | _ => false

/-- **C17_latest_configured_partial**: when the configured release has a generation in the registry the selector
first meets, every fault-free history keeps that refresher alive and every refresh round brings the newest
generation of the configured release – commits to other (higher or lower) releases change nothing. -/
theorem C17_latest_configured_partial (rels0 : Rels) (c : Nat) (hwf : WF rels0) (hgen : hasGenB rels0 c = true)
    (ops : List LOp) (hnf : NoFault ops) (r g : Nat) :
    (execL false (some c) (LState.init rels0) ops).cache ≠ none →
    Spec (some c) (execL false (some c) (LState.init rels0) ops).rels r g →
    (execL false (some c) (LState.init rels0) ops).alive = true ∧
    (stepL false (some c) (stepL false (some c) (execL false (some c) (LState.init rels0) ops) .tick).1
      (.select true)).2 = .served r g := by
  intro hc hs
  have hg : HasGen rels0 c := by
    unfold hasGenB at hgen
    split at hgen
    · rename_i a l h; exact ⟨a :: l, h, by simp⟩
    · cases hgen
  obtain ⟨hinv, halive, _, hpd⟩ := reach_configured hwf hg ops hnf
  obtain ⟨h1, _, h3⟩ := tick_fresh (sv := false) hinv (halive hc) hpd hc hs
  exact ⟨halive hc, obs_select_served h3 h1⟩

/-- release 1 is published but empty when `Latest(project, release=1)` is first used: the first refresh round
raises `Listing.Empty` in `new != old` and ends the thread; generation 1 is committed and served (pinned);
generation 2 is committed – and never picked up (finding C17-F2, repaired in /repo 0762d05). -/
theorem C17_latest_configured_counterexample : ¬ C17_latest_configured_full := by
  intro h
  have hwf : WF [(1, [])] := by simp [WF]
  have hnf : NoFault [.select false, .tick, .commit 1, .select true, .commit 1] := by
    intro op hop e he; subst he; simp at hop
  have := h [(1, [])] 1 [.select false, .tick, .commit 1, .select true, .commit 1] 1 2 hwf hnf (by decide)
    ⟨rfl, [1, 2], by decide, by decide, by decide⟩
  revert this
  decide

/-- Liveness under transient faults for that refresher: false. -/
def C17_latest_fragile_faults_full : Prop :=
  ∀ (rels0 : Rels) (ops : List LOp) (r g : Nat), WF rels0 →
    (execL false none (LState.init rels0) ops).cache ≠ none →
    Spec none (execL false none (LState.init rels0) ops).rels r g →
    (stepL false none (execL false none (LState.init rels0) (ops ++ [.tick, .tick])) (.select true)).2 = .served r g

/-- one transient fault (say `OSError: Stale file handle` out of a listing) ends it: generation 2, committed
afterwards, is never served however many rounds follow. -/
theorem C17_latest_fragile_faults_counterexample : ¬ C17_latest_fragile_faults_full := by
  intro h
  have hwf : WF [(1, [1])] := by simp [WF]
  have := h [(1, [1])] [.select true, .fault .os, .tick, .commit 1] 1 2 hwf (by decide)
    ⟨⟨[1, 2], by decide, by decide, by decide⟩, by decide⟩
  revert this
  decide

/-- every history keeps the listings as `Level.Listing` yields them and what is cached listed -/
theorem C17_latest_invariant (sv : Bool) (cfg : Option Nat) (rels0 : Rels) (hwf : WF rels0) (ops : List LOp) :
    InvL cfg (execL sv cfg (LState.init rels0) ops) := invL_exec ops (invL_init hwf)

/-- what `Spec` names is unique -/
theorem C17_latest_spec_unique (cfg : Option Nat) (rels : Rels) (hwf : WF rels) (r g r' g' : Nat) :
    Spec cfg rels r g → Spec cfg rels r' g' → r = r' ∧ g = g' := spec_unique hwf

/-! ### `asset.Instance` equality and hash (what `_refresh` decides on) -/

/-- **C17_instance_eq**: `a == b` is `True` exactly for the same project, the same release and the same resolved
generation (a comparison by generation number alone would keep a refresher on an older release) … -/
theorem C17_instance_eq (rels : Rels) (a b a' b' : Inst) (v : Bool) (h : instEq rels a b = .ok (v, a', b')) :
    v = true ↔ a.project = b.project ∧ a.release = b.release ∧ genKey rels a = genKey rels b :=
  instEq_true_iff h

/-- … and equal instances hash alike. -/
theorem C17_instance_hash (rels : Rels) (a b a' b' : Inst) (h : instEq rels a b = .ok (true, a', b')) :
    instHash rels a = instHash rels b := instEq_hash h

/-! ### Explicit -/

/-- **C17_explicit**: over every history of the registry every `select` of the explicit strategy returns the
configured instance: a request is served by exactly `(r, g)` when that generation is listed and is refused
(`Level.Invalid`) otherwise – nothing else is ever observed. -/
theorem C17_explicit (r g : Nat) (rels0 : Rels) (ops : List EOp) :
    (stepE r g (execE r g ⟨rels0, none⟩ ops) .select).2 = explicitObs r g (execE r g ⟨rels0, none⟩ ops).rels ∧
    ∀ o ∈ (runE r g ⟨rels0, none⟩ ops).2, o = .quiet ∨ o = .served r g ∨ o = .err .invalid :=
  ⟨(stepE_select (invE_exec ops (Or.inl rfl))).1, runE_obs ops (Or.inl rfl)⟩

/-! ### pickling a strategy (Round 5): `__reduce__` = the constructor parameters, unpickling = the constructor -/

/-- constructor parameters of `Latest` (project, configured release, refresh interval in ms). -/
structure LatestParams where
  project : Nat
  release : Option Nat
  interval : Nat
deriving DecidableEq, Repr

/-- `Latest.__reduce__`: the argument tuple handed to the class on unpickling. -/
def LatestParams.reduce (p : LatestParams) : Nat × Option Nat × Nat := (p.project, p.release, p.interval)
/-- `Latest(*args)`. -/
def LatestParams.rebuild (a : Nat × Option Nat × Nat) : LatestParams := ⟨a.1, a.2.1, a.2.2⟩
/-- a reduce that leaves the interval to the constructor default (what the property excludes). -/
def LatestParams.reduceDefault (dflt : Nat) (p : LatestParams) : Nat × Option Nat × Nat := (p.project, p.release, dflt)

/-- **C17_reduce_rebuild**: a pickle round-trip is the identity on every constructor parameter. -/
theorem C17_reduce_rebuild (p : LatestParams) : LatestParams.rebuild p.reduce = p := by cases p; rfl

/-- **C17_latest_rebuilt**: the history theorem holds verbatim of the unpickled selector. -/
theorem C17_latest_rebuilt (p : LatestParams) (rels0 : Rels) (hwf : WF rels0) (ops : List LOp) (r g : Nat) :
    (LatestParams.rebuild p.reduce).interval = p.interval ∧
    ((execL true (LatestParams.rebuild p.reduce).release (LState.init rels0) ops).cache ≠ none →
     Spec p.release (execL true p.release (LState.init rels0) ops).rels r g →
     (stepL true (LatestParams.rebuild p.reduce).release
        (execL true (LatestParams.rebuild p.reduce).release (LState.init rels0) (ops ++ [.tick, .tick])) (.select true)).2
       = .served r g) := by
  rw [C17_reduce_rebuild]
  exact ⟨rfl, fun hc hs => (C17_latest p.release rels0 hwf ops r g hc hs).2.2⟩

/-- non-vacuity: dropping the interval is *not* a round trip (30 s default vs a 20 ms selector). -/
example : LatestParams.rebuild (LatestParams.reduceDefault 30000 ⟨0, some 1, 20⟩) ≠ ⟨0, some 1, 20⟩ := by decide
example : LatestParams.rebuild (LatestParams.reduce ⟨0, some 1, 20⟩) = ⟨0, some 1, 20⟩ := by decide

/-! ### non-vacuity -/


example : run (init [12, 5, 5]) 15 = some ⟨[(12, 9), (5, 4), (5, 2)], 15⟩ := by decide
example : trace (init [9, 1]) 10 = [0, 0, 0, 0, 0, 0, 0, 0, 0, 1] := by decide
example : weights [some 9, none] 10 = [9, 1] := by decide
example : weights [some 3, none, none] 1 = [3, 3, 3] := by decide
example : weights [some 1, none, none] 4 = [2, 3, 3] := by decide
example : weights [none, some 7] 8 = [1, 7] := by decide
example : weights [none, some 6, none, some 1] 8 = [1, 12, 1, 2] := by decide
example : ftrace [12, 5, 5] 15 = trace (init [12, 5, 5]) 15 := by decide
example : fdiv 1 3 = (6004799503160661, 54) := by decide
example : slotOrder [5, 12, 5] = [(12, 1), (5, 0), (5, 2)] := by decide
example : pickLatest [(1, [1, 2]), (2, []), (3, [1]), (4, [])] = some (3, 1) := by decide

-- histories: unconfigured picks up a commit to a higher release; configured (non-empty) ignores it and follows its own
example : (runL false none (LState.init [(1, [1]), (2, [])])
    [.select true, .commit 2, .tick, .select true, .commit 1, .tick, .select true]).2
    = [.served 1 1, .quiet, .quiet, .served 2 1, .quiet, .quiet, .served 2 1] := by decide
example : (runL false (some 1) (LState.init [(1, [1]), (2, [1])])
    [.select true, .commit 2, .commit 1, .select true, .tick, .select true]).2
    = [.served 1 1, .quiet, .quiet, .served 1 1, .quiet, .served 1 2] := by decide
-- the finding: configured release empty at first use (as is / repaired)
example : (runL false (some 1) (LState.init [(1, [])])
    [.select false, .tick, .commit 1, .select true, .commit 1, .tick, .select true]).2
    = [.picked 1, .quiet, .quiet, .served 1 1, .quiet, .quiet, .served 1 1] := by decide
example : (runL true (some 1) (LState.init [(1, [])])
    [.select false, .tick, .commit 1, .select true, .commit 1, .tick, .select true]).2
    = [.picked 1, .quiet, .quiet, .served 1 1, .quiet, .quiet, .served 1 2] := by decide
-- a transient fault costs one round, no more (as is); it ends the fragile refresher
example : (runL true none (LState.init [(1, [1])])
    [.select true, .fault .os, .commit 1, .tick, .select true, .tick, .select true]).2
    = [.served 1 1, .quiet, .quiet, .quiet, .served 1 1, .quiet, .served 1 2] := by decide
example : (runL false none (LState.init [(1, [1])])
    [.select true, .fault .os, .commit 1, .tick, .select true, .tick, .select true]).2
    = [.served 1 1, .quiet, .quiet, .quiet, .served 1 1, .quiet, .served 1 1] := by decide
example : NoFault [.select true, .commit 1, .tick] := by intro op hop e he; subst he; simp at hop
example : Builder.build ⟨0, 1, 1, some 3⟩ [⟨2, none, none, none⟩, ⟨1, some 2, some 1, some 1⟩, ⟨5, none, none, none⟩]
    = [⟨0, 1, 1, some 3⟩, ⟨0, 1, 2, none⟩, ⟨1, 2, 1, some 1⟩, ⟨1, 2, 5, none⟩] := by decide
example : exclusive (Builder.build ⟨0, 1, 1, none⟩ [⟨2, none, none, none⟩, ⟨1, none, some 1, none⟩]) = true := by decide
example : exclusive (Builder.build ⟨0, 1, 1, none⟩ [⟨2, none, none, none⟩, ⟨1, none, none, none⟩]) = false := by decide
example : WF [(1, [1, 2]), (3, []), (7, [1])] := by simp [WF]
example : Spec none [(1, [1, 2]), (3, []), (7, [4, 9]), (8, [])] 7 9 :=
  ⟨⟨[4, 9], by simp, by simp, by simp⟩, by simp⟩
example : hasGenB [(1, [1]), (2, [])] 1 = true := by decide
example : instEq [(1, [1]), (2, [1])] ⟨0, 1, some 1⟩ ⟨0, 2, some 1⟩ = .ok (false, ⟨0, 1, some 1⟩, ⟨0, 2, some 1⟩) := by rfl
example : instEq [(1, [1, 2])] ⟨0, 1, none⟩ ⟨0, 1, some 2⟩ = .ok (true, ⟨0, 1, some 2⟩, ⟨0, 1, some 2⟩) := by rfl
example : (runE 1 2 ⟨[(1, [1])], none⟩ [.select, .commit 1, .select, .commit 2, .select]).2
    = [.err .invalid, .quiet, .served 1 2, .quiet, .served 1 2] := by decide

end ForML.Strategy
