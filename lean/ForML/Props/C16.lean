/-
C16 — Concurrent serving never crosses, loses or duplicates responses.
Property theorems over the transition system `ForML.Model.Serving` (all schedules, any number of callers,
applications, instances and workers; induction over the schedule in `ForML.Lemmas.C16`).

Reading of the statement in the model
* "each caller receives exactly once the outcome computed from its own payload by the model instance its
  application selected" : in every reachable state the answer log holds at most one entry per caller and that
  entry is `expected cfg c` (`C16_correlation`, `C16_exact`); in every state where no step is enabled every
  arrived caller has exactly one entry (`C16_no_loss_*`); every schedule is finite (`C16_termination`: at most
  13 steps per caller) and can be continued to such a state (`C16_exactly_once`) — so there is no interleaving,
  however unfair, that keeps a caller waiting for ever or answers it twice.
* "a request that fails with a platform-level error fails alone" : `C16_isolation`.
* `Config.locked = true` is `Wrapper._get_descriptor` as it exists (critical section under `Wrapper._lock`,
  /repo 710a92e = fixes/C16-descriptor-lock.diff); `false` is the code before that repair, kept for the
  kernel-checked witness of the fixed defect C16-F1.
* `hasFatal cfg = false` : no request makes an actor raise a non-`forml.AnyError` exception — that is outside the
  property's fault class (unsupported encoding, unknown application, missing features) and does stop a pool.
* `Config.reset = .always` is `pyfunc.Expression.__call__` as it exists (`finally: <every fork>.reset()`): what a pool
  worker carries from one task to the next (`Exec.carry`: the replica deque of its long-lived `Expression`) is empty
  whenever a task starts, so the result a worker enqueues is `runModel` — the property's `f inst payload` — whatever
  that worker served before (`C16_worker_history_independent`, `C16_worker_clean`, `C16_finish_exact`).  The other
  reset policies are kept for the kernel-checked witnesses that the discipline is needed
  (`C16_worker_reset_counterexample`, `C16_reset_counterexample`): a request refused INSIDE a forking pipeline would
  otherwise hand its data / its error to the next request served by the same worker.
-/
import ForML.Lemmas.C16
import ForML.Lemmas.C16Term
import ForML.Model.ServingCold
import ForML.Model.ServingGateway

namespace ForML.Serving

/-! ### counting answers -/

private theorem filter_len_le_one (c : Nat) (l : List (Nat × Outcome)) (h : (l.map (·.1)).Nodup) :
    (l.filter (fun a => a.1 == c)).length ≤ 1 := by
  induction l with
  | nil => simp
  | cons x r ih =>
    simp only [List.map_cons, List.nodup_cons] at h
    by_cases hx : x.1 = c
    · have : r.filter (fun a => a.1 == c) = [] := by
        rw [List.filter_eq_nil_iff]
        intro a ha he
        exact h.1 (List.mem_map.2 ⟨a, ha, by simpa [hx] using he⟩)
      simp [hx, this]
    · simpa [List.filter_cons, hx] using ih h.2

private theorem filter_len_pos (c : Nat) (o : Outcome) (l : List (Nat × Outcome)) (h : (c, o) ∈ l) :
    1 ≤ (l.filter (fun a => a.1 == c)).length :=
  List.length_pos_of_mem (List.mem_filter.2 ⟨h, by simp⟩)

/-! ### correlation -/

/-- **Invariant of every schedule.** In every reachable state, for every executor: the ids in flight
(task queue ⊎ held by workers ⊎ result queue) are pairwise distinct, they are exactly the keys of `pending`,
the keys are distinct and all below the counter (ids are never reused); every caller has been answered at most
once; and every answer is the outcome of the caller's own payload on the instance its application selected
(or its own platform error) — except for the two refusals the code can produce outside the property's reach:
"application not found" through the unsynchronised descriptor cache (only when `locked = false`) and
"executor not running" (only when some request is fatal); with a reset policy other than the one of the code that exists
nothing is claimed about the content of an answer (`C16_reset_counterexample`). -/
theorem C16_correlation (cfg : Config) (sched : List Step) (s : State) (h : run cfg init sched = some s) :
    (∀ i, (inflight (s.execs i)).Nodup ∧ (keys (s.execs i)).Nodup
        ∧ (∀ id, id ∈ inflight (s.execs i) ↔ id ∈ keys (s.execs i))
        ∧ (∀ id, id ∈ keys (s.execs i) → id < (s.execs i).next))
    ∧ (∀ c, nAnswers s c ≤ 1)
    ∧ (∀ c o, (c, o) ∈ s.answers → o = expected cfg c
        ∨ (o = .error .missingApp ∧ cfg.locked = false)
        ∨ (o = .error .notRunning ∧ hasFatal cfg = true)
        ∨ cfg.reset ≠ .always) := by
  have inv := Inv.init.run sched h
  refine ⟨fun i => ⟨(inv.e i).fl_nodup, (inv.e i).keys_nodup, (inv.e i).fl_keys, (inv.e i).keys_lt⟩, ?_, inv.c.ans_ok⟩
  intro c
  exact filter_len_le_one c s.answers inv.c.ans_nodup

/-- The property's first sentence at full strength for the code that exists: under **every** schedule, whatever
a caller is answered is the outcome computed from its own payload by the instance its application selected (or
its own platform-level error). -/
def C16_exact_full : Prop :=
  ∀ (cfg : Config) (sched : List Step) (s : State), cfg.locked = true → cfg.reset = .always → hasFatal cfg = false →
    run cfg init sched = some s → ∀ c o, (c, o) ∈ s.answers → o = expected cfg c

theorem C16_exact : C16_exact_full := by
  intro cfg sched s hl hr hf h c o hm
  rcases (C16_correlation cfg sched s h).2.2 c o hm with e | ⟨_, e⟩ | ⟨_, e⟩ | e
  · exact e
  · simp [hl] at e
  · simp [hf] at e
  · exact absurd hr e

/-- The same statement without the descriptor lock, i.e. for `_get_descriptor` as it was before 710a92e. -/
def C16_exact_unlocked_full : Prop :=
  ∀ (cfg : Config) (sched : List Step) (s : State), cfg.reset = .always → hasFatal cfg = false →
    run cfg init sched = some s → ∀ c o, (c, o) ∈ s.answers → o = expected cfg c

/-- D17: two first requests for the same (known) application, `_get_descriptor` unsynchronised. -/
def raceCfg : Config :=
  { callers := [⟨0, false, false, ⟨.ok, 7⟩⟩, ⟨0, false, false, ⟨.ok, 8⟩⟩], inventory := [0], select := fun a => a,
    workers := 1, locked := false }

/-- thread 0: check; thread 1: check; thread 0: list, diff, update; thread 1: list, diff (now empty), update,
test → "application not found". -/
def raceSched : List Step :=
  [.arrive 0, .arrive 1, .desc 0, .desc 1, .desc 0, .desc 0, .desc 0, .desc 1, .desc 1, .desc 1, .desc 1]

theorem C16_descriptor_race_counterexample : ¬ C16_exact_unlocked_full := by
  intro h
  cases hr : run raceCfg init raceSched with
  | none => exact absurd hr (by decide)
  | some s =>
    have hans : s.answers = [(1, .error .missingApp)] := by
      have : (run raceCfg init raceSched).map (·.answers) = some [(1, .error .missingApp)] := by decide
      rw [hr] at this; simpa using this
    have := h raceCfg raceSched s (by decide) (by decide) hr 1 (.error .missingApp) (by simp [hans])
    exact absurd this (by decide)

/-- the same interleaving is not a schedule of the code that exists: thread 1 cannot pass the check while
thread 0 holds the lock -/
example : run { raceCfg with locked := true } init raceSched = none := by decide

/-! ### no loss -/

/-- Second half of "exactly once" at full strength: wherever a schedule can go no further, every caller that
arrived has exactly one answer. -/
def C16_no_loss_full : Prop :=
  ∀ (cfg : Config) (sched : List Step) (s : State), 1 ≤ cfg.workers → run cfg init sched = some s →
    stuck cfg s = true → ∀ c, s.phase c ≠ .fresh → nAnswers s c = 1

/-- It holds whenever no request raises a non-platform exception (the property's fault class):
every complete schedule answers every caller exactly once, for both variants of the descriptor code. -/
theorem C16_no_loss_partial (cfg : Config) (sched : List Step) (s : State) (hw : 1 ≤ cfg.workers)
    (hf : hasFatal cfg = false) (h : run cfg init sched = some s) (hst : stuck cfg s = true) :
    ∀ c, s.phase c ≠ .fresh → nAnswers s c = 1 := by
  intro c hc
  have inv := Inv.init.run sched h
  have hns : ∀ i, (s.execs i).stopped = false := by
    intro i
    cases hs : (s.execs i).stopped with
    | false => rfl
    | true => have := inv.c.stop_fatal i hs; simp [hf] at this
  have hd := inv.stuck_done hw hns hst c hc
  obtain ⟨o, ho⟩ := inv.c.done_ans c hd
  have h1 := filter_len_le_one c s.answers inv.c.ans_nodup
  have h2 := filter_len_pos c o s.answers ho
  simp only [nAnswers]; omega

/-- Residue outside the property's fault class: a request whose actor raises a non-`forml.AnyError` exception
stops the whole pool (`Pool.Worker.run`: `self._stopped.set()`), `Executor.run` leaves its loop, and every
caller still pending on that executor — here also the healthy caller 1 — is never answered. -/
def fatalCfg : Config :=
  { callers := [⟨0, false, false, ⟨.fatal, 1⟩⟩, ⟨0, false, false, ⟨.ok, 2⟩⟩], inventory := [0], select := fun a => a,
    workers := 1, locked := true }

def fatalSched : List Step :=
  [.arrive 0, .desc 0, .desc 0, .desc 0, .desc 0, .desc 0, .submit 0, .arrive 1, .desc 1, .submit 1,
   .take 0 0, .finish 0 0]

theorem C16_fatal_counterexample : ¬ C16_no_loss_full := by
  intro h
  cases hr : run fatalCfg init fatalSched with
  | none => exact absurd hr (by decide)
  | some s =>
    have hobs : (stuck fatalCfg s, s.phase 1, nAnswers s 1) = (true, .submitted 0 1, 0) := by
      have : (run fatalCfg init fatalSched).map (fun s => (stuck fatalCfg s, s.phase 1, nAnswers s 1))
          = some (true, .submitted 0 1, 0) := by decide
      rw [hr] at this; simpa using this
    simp only [Prod.mk.injEq] at hobs
    have := h fatalCfg fatalSched s (by decide) hr hobs.1 1 (by simp [hobs.2.1])
    omega

/-! ### termination and completion -/

/-- **Every schedule is finite**: no interleaving runs for more than 13 steps per caller (arrive, at most six
descriptor steps, submit / decode failure, take, finish, deliver, respond; a rank that every step strictly
decreases, `ForML.Lemmas.C16Term`).  Together with `C16_no_loss_partial` ("where nothing is enabled everybody is
answered") this is what makes "exactly once" hold without any fairness assumption: a schedule cannot avoid
answering a caller by going on for ever. -/
theorem C16_termination (cfg : Config) (sched : List Step) (s : State) (h : run cfg init sched = some s) :
    sched.length ≤ 13 * cfg.callers.length := by
  have := measure_run sched Inv.init h
  rw [measure_init] at this; omega

/-- The property's first sentence in one statement, for the code that exists and the property's fault class:
after **any** schedule, some continuation (every one of them is finite by `C16_termination`) reaches a state
where nothing is left to do, and there every caller that had arrived has been answered exactly once, with the
outcome computed from its own payload by the instance its application selected (or its own platform error). -/
def C16_exactly_once_full : Prop :=
  ∀ (cfg : Config) (sched : List Step) (s : State), cfg.locked = true → cfg.reset = .always → hasFatal cfg = false →
    1 ≤ cfg.workers →
    run cfg init sched = some s →
    ∃ ext s', run cfg init (sched ++ ext) = some s' ∧ stuck cfg s' = true ∧
      ∀ c, s.phase c ≠ .fresh → nAnswers s' c = 1 ∧ (c, expected cfg c) ∈ s'.answers

theorem C16_exactly_once : C16_exactly_once_full := by
  intro cfg sched s hl hrs hf hw h
  have hI := Inv.init.run sched h
  obtain ⟨ext, s', hr, hst⟩ := exists_completion (cfg := cfg) _ s hI (Nat.le_refl _)
  have hrun : run cfg init (sched ++ ext) = some s' := by rw [run_append, h]; exact hr
  refine ⟨ext, s', hrun, hst, fun c hc => ?_⟩
  have hc' : s'.phase c ≠ .fresh := by
    rw [← rank_lt_iff] at hc ⊢
    have := rank_run_le ext hI hr c
    omega
  have h1 := C16_no_loss_partial cfg (sched ++ ext) s' hw hf hrun hst c hc'
  refine ⟨h1, ?_⟩
  have hpos : 0 < (s'.answers.filter (fun a => a.1 == c)).length := by simp only [nAnswers] at h1; omega
  obtain ⟨a, ha⟩ := List.exists_mem_of_length_pos hpos
  obtain ⟨ham, hac⟩ := List.mem_filter.1 ha
  have hac' : a.1 = c := by simpa using hac
  have := C16_exact cfg (sched ++ ext) s' hl hrs hf hrun a.1 a.2 ham
  rw [hac'] at this
  rw [← this, ← hac']
  exact ham

/-! ### isolation -/

/-- **A platform-level failure fails alone.** Let `cfg'` differ from `cfg` at most in caller `c`'s request
(e.g. `c` healthy in `cfg`; unknown application, undecodable content type, unacceptable response encoding or
missing column in `cfg'` — anything but a fatal exception). Then under every schedule of `cfg'` every other caller is answered at most
once, only with the outcome the property prescribes for it in `cfg`, and exactly once wherever the schedule
is complete. -/
theorem C16_isolation (cfg cfg' : Config) (c : Nat)
    (hsame : ∀ d, d ≠ c → spec cfg' d = spec cfg d) (hinv : cfg'.inventory = cfg.inventory)
    (hsel : cfg'.select = cfg.select) (hfan : cfg'.fanout = cfg.fanout) (hl : cfg'.locked = true)
    (hr : cfg'.reset = .always) (hf : hasFatal cfg' = false)
    (hw : 1 ≤ cfg'.workers) (sched : List Step) (s : State) (h : run cfg' init sched = some s) :
    ∀ d, d ≠ c →
      (∀ o, (d, o) ∈ s.answers → o = expected cfg d) ∧ nAnswers s d ≤ 1
      ∧ (stuck cfg' s = true → s.phase d ≠ .fresh → nAnswers s d = 1) := by
  intro d hd
  refine ⟨fun o hm => ?_, (C16_correlation cfg' sched s h).2.1 d,
    fun hst hp => C16_no_loss_partial cfg' sched s hw hf h hst d hp⟩
  have := C16_exact cfg' sched s hl hr hf h d o hm
  rw [this]
  simp only [expected, runInst, entryOf, hsame d hd, hinv, hsel, hfan]
  split
  · split
    · rfl
    · cases runModel (cfg.fanout (cfg.select (spec cfg d).app)) (cfg.select (spec cfg d).app) (spec cfg d).entry <;>
        simp [finalOf, encode, hsame d hd]
  · rfl

/-! ### what a pool worker carries from one request to the next -/

/-- **A worker's answers do not depend on its history.**  A pool worker owns one `pyfunc.Expression` for its whole
life; with the reset of the code that exists (`finally: <every fork>.reset()` after every call) the outcomes of ANY
sequence of requests it serves — healthy ones, requests refused at the head, requests refused by any branch after the
fork — are, one by one, `runModel n inst e`: a function of the instance and of that request alone. -/
theorem C16_worker_history_independent (inst n : Nat) (hist : List Entry) :
    (serveAll .always inst n {} hist).1 = hist.map (runModel n inst) :=
  (serveAll_always inst n hist {} rfl).1

/-- the same in the words of the property: after whatever history, the next request `e` is answered `f inst payload` -/
theorem C16_worker_after_any_history (inst n : Nat) (hist : List Entry) (e : Entry) :
    (serveAll .always inst n (serveAll .always inst n {} hist).2 [e]).1 = [runModel n inst e] := by
  have h := (serveAll_always inst n hist {} rfl).2
  exact (serveAll_always inst n [e] _ h).1

/-- The statement without the reset discipline: every reset policy would do. -/
def C16_worker_anyreset_full : Prop :=
  ∀ (pol : ResetPolicy) (inst n : Nat) (hist : List Entry),
    (serveAll pol inst n {} hist).1 = hist.map (runModel n inst)

/-- It holds for every policy as long as no request is refused by a branch other than the last one of the fan-out
(refusals at the head — missing features — and in the last branch leave no replica behind) … -/
theorem C16_worker_anyreset_partial (pol : ResetPolicy) (inst n : Nat) (hist : List Entry)
    (h : tailRefusalsOnly n hist) : (serveAll pol inst n {} hist).1 = hist.map (runModel n inst) :=
  (serveAll_anyreset pol inst n hist {} rfl h).1

/-- … and for every policy on a linear pipeline (no fork, no replicas). -/
theorem C16_worker_anyreset_linear (pol : ResetPolicy) (inst n : Nat) (hn : n ≤ 1) (hist : List Entry) :
    (serveAll pol inst n {} hist).1 = hist.map (runModel n inst) := by
  have key : ∀ (hist : List Entry) (cr : Carry), cr.queue = [] →
      (serveAll pol inst n cr hist).1 = hist.map (runModel n inst) ∧ (serveAll pol inst n cr hist).2.queue = [] := by
    intro hist
    induction hist with
    | nil => intro cr h; exact ⟨rfl, h⟩
    | cons e es ih =>
      intro cr h
      have hq : (workerCall pol inst n cr e).2.queue = [] := by
        simp only [workerCall, h]
        split
        · rfl
        · rw [evalTerm_clean_residue]; split
          · rw [if_neg (by omega)]
          · rfl
      have := ih _ hq
      simp only [serveAll, List.map_cons]
      exact ⟨by rw [workerCall_clean _ _ _ _ _ h, this.1], this.2⟩
  exact (key hist {} rfl).1

/-- a healthy request, a request refused by the first branch of a two-way fan-out, a healthy request -/
def staleHist : List Entry := [⟨.ok, 1⟩, ⟨.refused 0, 2⟩, ⟨.ok, 3⟩]

/-- **The reset discipline is needed.**  A reset that only works in a worker's first call: the replica queued by the
refused request 2 survives, the healthy request 3 is handed request 2's data by the first branch and receives request
2's error. -/
theorem C16_worker_anyreset_counterexample : ¬ C16_worker_anyreset_full := by
  intro h
  exact absurd (h .firstCallOnly 0 2 staleHist) (by decide)

/-- what exactly happens there, and with a three-way fan-out (the two next requests are hit; a refusal in the middle
branch leaves a response mixed from two requests, and the mix-up then goes on for ever) -/
example : (serveAll .firstCallOnly 0 2 {} staleHist).1
    = [.value 0 1, .error (.invalid 2 0), .error (.invalid 2 0)] := by decide
example : (serveAll .firstCallOnly 0 3 {} [⟨.ok, 1⟩, ⟨.refused 0, 2⟩, ⟨.ok, 3⟩, ⟨.ok, 4⟩, ⟨.ok, 5⟩]).1
    = [.value 0 1, .error (.invalid 2 0), .error (.invalid 2 0), .error (.invalid 2 0), .value 0 5] := by decide
example : (serveAll .firstCallOnly 0 3 {} [⟨.ok, 1⟩, ⟨.refused 1, 2⟩, ⟨.ok, 3⟩, ⟨.ok, 4⟩]).1
    = [.value 0 1, .error (.invalid 2 1), .mixed 0 [2, 3, 3], .mixed 0 [3, 4, 4]] := by decide
/-- `else` instead of `finally` (reset after successful calls only) fails the same way, without any warm-up -/
example : (serveAll .onSuccessOnly 0 2 {} [⟨.refused 0, 2⟩, ⟨.ok, 3⟩]).1
    = [.error (.invalid 2 0), .error (.invalid 2 0)] := by decide
/-- the same histories under the code that exists -/
example : (serveAll .always 0 3 {} [⟨.ok, 1⟩, ⟨.refused 1, 2⟩, ⟨.ok, 3⟩, ⟨.ok, 4⟩]).1
    = [.value 0 1, .error (.invalid 2 1), .value 0 3, .value 0 4] := by decide

/-- **In the transition system**: under every schedule of the code that exists no worker of any executor carries a
replica from one task to the next … -/
theorem C16_worker_clean (cfg : Config) (sched : List Step) (s : State) (hr : cfg.reset = .always)
    (h : run cfg init sched = some s) : ∀ i w, ((s.execs i).carry w).queue = [] :=
  (Inv.init.run sched h).w hr

/-- … hence whichever worker finishes a task, after whatever it served before, the result it puts on the result queue
is `f inst payload` of that task's entry. -/
theorem C16_finish_exact (cfg : Config) (sched : List Step) (s s' : State) (i w : Nat) (hr : cfg.reset = .always)
    (h : run cfg init sched = some s) (hs : step cfg s (.finish i w) = some s') :
    ∃ t, (s.execs i).held.lookup w = some t
      ∧ (s'.execs i).resultQ = (s.execs i).resultQ ++ [⟨t.id, runInst cfg i t.entry⟩] := by
  obtain ⟨t, ht, rfl⟩ := step_finish hs
  refine ⟨t, ht, ?_⟩
  simp only [upd_same]
  rw [workerCall_clean _ _ _ _ _ (C16_worker_clean cfg sched s hr h i w)]
  rfl

/-- `C16_exact_full` without the hypothesis on the reset discipline. -/
def C16_exact_anyreset_full : Prop :=
  ∀ (cfg : Config) (sched : List Step) (s : State), cfg.locked = true → hasFatal cfg = false →
    run cfg init sched = some s → ∀ c o, (c, o) ∈ s.answers → o = expected cfg c

/-- one application whose pipeline fans out into two branches, one worker, a reset that works in a worker's first
call only; callers 0 and 2 healthy, caller 1 refused by the first branch -/
def staleCfg : Config :=
  { callers := [⟨0, false, false, ⟨.ok, 1⟩⟩, ⟨0, false, false, ⟨.refused 0, 2⟩⟩, ⟨0, false, false, ⟨.ok, 3⟩⟩],
    inventory := [0], select := fun a => a, workers := 1, locked := true, fanout := fun _ => 2,
    reset := .firstCallOnly }

/-- the three requests one after the other (no concurrency needed) -/
def staleSched : List Step :=
  [.arrive 0, .desc 0, .desc 0, .desc 0, .desc 0, .desc 0, .submit 0, .take 0 0, .finish 0 0, .deliver 0, .respond 0,
   .arrive 1, .desc 1, .submit 1, .take 0 0, .finish 0 0, .deliver 0,
   .arrive 2, .desc 2, .submit 2, .take 0 0, .finish 0 0, .deliver 0]

theorem C16_reset_counterexample : ¬ C16_exact_anyreset_full := by
  intro h
  cases hr : run staleCfg init staleSched with
  | none => exact absurd hr (by decide)
  | some s =>
    have hans : s.answers = [(2, .error (.invalid 2 0)), (1, .error (.invalid 2 0)), (0, .value 0 1)] := by
      have : (run staleCfg init staleSched).map (·.answers)
          = some [(2, .error (.invalid 2 0)), (1, .error (.invalid 2 0)), (0, .value 0 1)] := by decide
      rw [hr] at this; simpa using this
    have := h staleCfg staleSched s (by decide) (by decide) hr 2 (.error (.invalid 2 0)) (by simp [hans])
    exact absurd this (by decide)

/-- the same schedule under the code that exists: the healthy caller 2 gets its own outcome -/
example : (run { staleCfg with reset := .always } init (staleSched ++ [.respond 2])).map (·.answers)
    = some [(2, .value 0 3), (1, .error (.invalid 2 0)), (0, .value 0 1)] := by decide

/-! ### the event-loop thread and an executor created while another one is busy (finding C16-F2) -/

theorem baseSteps_cons (a : CStep) (as : List CStep) : baseSteps (a :: as) = baseSteps [a] ++ baseSteps as := by
  cases a <;> rfl

theorem lateWindow_false (cfg : Config) (s : CState) (c : Nat)
    (h : (s.base.execs (cfg.select (spec cfg c).app)).stopped = false) : lateWindow cfg s c = false := by
  simp [lateWindow, h]

theorem lateBlocked_false (cfg : Config) (s : CState) (a : Step) (h : ∀ i, (s.base.execs i).stopped = false) :
    lateBlocked cfg s a = false := by
  cases a <;> simp [lateBlocked, lateWindow_false cfg s _ (h _)]

/-- with transportable error values and an intact pool a step goes through the process pool exactly as the underlying
system performs it -/
theorem stepVia_eq (env : Env) (cfg : Config) (s : CState) (a : Step) (htr : ∀ e, env.transportable e = true)
    (hp : s.packBroken = false) :
    stepVia env cfg s a = match step cfg s.base a with
      | none => none
      | some b => some { s with base := b } := by
  cases a <;> try rfl
  rename_i c
  simp only [stepVia, respondStep, step, hp]
  cases s.base.phase c <;> try rfl
  rename_i o
  simp only [Bool.false_eq_true, if_false]
  cases (encode cfg c o).err? with
  | none => rfl
  | some e => simp [htr e]

/-- one step of the engine, no fatal request in the configuration, transportable error values: the underlying state
stays reachable (the step is a step of the underlying system or leaves it alone; the late-acceptance window does not
exist because no pool ever stops; the process pool stays intact), and without the hazard the loop thread is not lost -/
theorem cstep_inv (env : Env) (cfg : Config) (hf : hasFatal cfg = false) (htr : ∀ e, env.transportable e = true)
    (s s1 : CState) (a : CStep) (hI : Inv cfg s.base) (hp : s.packBroken = false) (hc : cstep env cfg s a = some s1) :
    Inv cfg s1.base ∧ run cfg s.base (baseSteps [a]) = some s1.base ∧ s1.packBroken = false
      ∧ (env.hazard = false → s1.blocked = s.blocked) := by
  have hns : ∀ i, (s.base.execs i).stopped = false := by
    intro i
    cases hs : (s.base.execs i).stopped with
    | false => rfl
    | true => have := hI.c.stop_fatal i hs; simp [hf] at this
  cases a with
  | step a =>
    simp only [cstep, lateBlocked_false cfg s a hns, stepVia_eq env cfg s a htr hp] at hc
    split at hc
    · cases hc
    · cases hb : step cfg s.base a with
      | none => simp [hb] at hc
      | some b =>
        simp only [hb, Bool.false_eq_true, if_false, Option.some.injEq] at hc
        subst hc
        exact ⟨hI.step a hb, by simp [baseSteps, run, hb], hp, fun _ => rfl⟩
  | wedge c =>
    simp only [cstep] at hc
    split at hc
    · rename_i hcond
      simp only [Option.some.injEq] at hc
      subst hc
      refine ⟨hI, rfl, hp, fun hh => ?_⟩
      simp [hh] at hcond
    · cases hc
  | exit i =>
    simp only [cstep] at hc
    split at hc
    · simp only [Option.some.injEq] at hc; subst hc; exact ⟨hI, rfl, hp, fun _ => rfl⟩
    · cases hc
  | lateSubmit c =>
    simp only [cstep] at hc
    split at hc
    · rename_i hcond
      rw [lateWindow_false cfg s c (hns _)] at hcond
      simp at hcond
    · cases hc

/-- every schedule of the engine (no fatal request, transportable error values) performs a schedule of the underlying
transition system, and the process pool of `respond` is never broken -/
theorem crun_inv (env : Env) (cfg : Config) (hf : hasFatal cfg = false) (htr : ∀ e, env.transportable e = true) :
    ∀ (sched : List CStep) (s s' : CState), Inv cfg s.base → s.packBroken = false → crun env cfg s sched = some s' →
    Inv cfg s'.base ∧ run cfg s.base (baseSteps sched) = some s'.base ∧ s'.packBroken = false
      ∧ (env.hazard = false → s'.blocked = s.blocked) := by
  intro sched
  induction sched with
  | nil => intro s s' hI hp hr; simp [crun] at hr; subst hr; exact ⟨hI, rfl, hp, fun _ => rfl⟩
  | cons a as ih =>
    intro s s' hI hp hr
    simp only [crun] at hr
    cases hc : cstep env cfg s a with
    | none => simp [hc] at hr
    | some s1 =>
      rw [hc] at hr
      obtain ⟨hI1, hr1, hp1, hb1⟩ := cstep_inv env cfg hf htr s s1 a hI hp hc
      obtain ⟨hI2, hr2, hp2, hb2⟩ := ih s1 s' hI1 hp1 hr
      refine ⟨hI2, ?_, hp2, fun hh => by rw [hb2 hh, hb1 hh]⟩
      rw [baseSteps_cons, run_append, hr1]
      exact hr2

theorem envOf_transportable (h : Bool) : ∀ e, (envOf h).transportable e = true := fun _ => rfl

/-- **Never crossed, never duplicated — with or without the hazard**: whatever the engine answers is the caller's own
outcome, at most once (the loss of the loop thread only ever takes answers away). -/
theorem C16_coldfork_exact (h : Bool) (cfg : Config) (sched : List CStep) (s : CState) (hl : cfg.locked = true)
    (hr : cfg.reset = .always) (hf : hasFatal cfg = false) (hrun : crun (envOf h) cfg cinit sched = some s) :
    (∀ c o, (c, o) ∈ s.base.answers → o = expected cfg c) ∧ ∀ c, nAnswers s.base c ≤ 1 := by
  have hb := (crun_inv (envOf h) cfg hf (envOf_transportable h) sched cinit s Inv.init rfl hrun).2.1
  exact ⟨C16_exact cfg _ s.base hl hr hf hb, (C16_correlation cfg _ s.base hb).2.1⟩

/-- "Exactly once" for the engine with its loop thread, whichever variant of the component loader. -/
def C16_coldfork_full : Prop :=
  ∀ (h : Bool) (cfg : Config) (sched : List CStep) (s : CState), cfg.locked = true → cfg.reset = .always →
    hasFatal cfg = false → 1 ≤ cfg.workers → crun (envOf h) cfg cinit sched = some s → cstuck (envOf h) cfg s = true →
    ∀ c, s.base.phase c ≠ .fresh → nAnswers s.base c = 1

/-- It holds for the repaired loader (`hazard = false`: `forml` stays in `sys.modules`, nobody re-imports it). -/
theorem C16_coldfork_partial (cfg : Config) (sched : List CStep) (s : CState)
    (hf : hasFatal cfg = false) (hw : 1 ≤ cfg.workers) (hrun : crun (envOf false) cfg cinit sched = some s)
    (hst : cstuck (envOf false) cfg s = true) : ∀ c, s.base.phase c ≠ .fresh → nAnswers s.base c = 1 := by
  obtain ⟨hI, hb, hpk, hnb⟩ := crun_inv (envOf false) cfg hf (envOf_transportable false) sched cinit s Inv.init rfl hrun
  have hnb : s.blocked = false := hnb rfl
  have hns : ∀ i, (s.base.execs i).stopped = false := by
    intro i
    cases hs : (s.base.execs i).stopped with
    | false => rfl
    | true => have := hI.c.stop_fatal i hs; simp [hf] at this
  have hstuck : stuck cfg s.base = true := by
    simp only [stuck, enabled, List.isEmpty_iff, List.filter_eq_nil_iff]
    intro a ha
    simp only [cstuck, ccandidates, List.all_eq_true, List.mem_append, List.mem_map] at hst
    have := hst (.step a) (Or.inl (Or.inl (Or.inl ⟨a, ha, rfl⟩)))
    simp only [cstep, hnb, Bool.false_and, lateBlocked_false cfg s a hns,
      stepVia_eq (envOf false) cfg s a (envOf_transportable false) hpk] at this
    cases hs : step cfg s.base a with
    | none => simp
    | some b => simp [hs] at this
  exact C16_no_loss_partial cfg _ s.base hw hf hb hstuck

/-- two applications over two instances, one worker each; both callers healthy -/
def coldCfg : Config :=
  { callers := [⟨0, false, false, ⟨.ok, 1⟩⟩, ⟨1, false, false, ⟨.ok, 2⟩⟩], inventory := [0, 1], select := fun a => a,
    workers := 1, locked := true }

/-- caller 0's task has been computed (its result waits for the executor thread of instance 0); caller 1 is the first
request of application 1: the loop thread creates that executor while the other executor's thread imports `forml`. -/
def coldSched : List CStep :=
  [.step (.arrive 0), .step (.desc 0), .step (.desc 0), .step (.desc 0), .step (.desc 0), .step (.desc 0),
   .step (.submit 0), .step (.take 0 0), .step (.finish 0 0),
   .step (.arrive 1), .step (.desc 1), .wedge 1]

/-- **Finding C16-F2**: with the component loader as it exists a legal schedule loses the event loop: nothing is enabled
any more and neither the first caller of the new executor nor the caller whose result is ready is ever answered. -/
theorem C16_coldfork_counterexample : ¬ C16_coldfork_full := by
  intro h
  cases hr : crun (envOf true) coldCfg cinit coldSched with
  | none => exact absurd hr (by decide)
  | some s =>
    have hobs : (cstuck (envOf true) coldCfg s, s.base.phase 0, nAnswers s.base 0, nAnswers s.base 1)
        = (true, .submitted 0 0, 0, 0) := by
      have : (crun (envOf true) coldCfg cinit coldSched).map
          (fun s => (cstuck (envOf true) coldCfg s, s.base.phase 0, nAnswers s.base 0, nAnswers s.base 1))
          = some (true, .submitted 0 0, 0, 0) := by decide
      rw [hr] at this; simpa using this
    simp only [Prod.mk.injEq] at hobs
    have := h true coldCfg coldSched s (by decide) (by decide) (by decide) (by decide) hr hobs.1 0 (by simp [hobs.2.1])
    omega

/-- the same list is not a schedule of the repaired loader (the hazardous step does not exist) … -/
example : crun (envOf false) coldCfg cinit coldSched = none := by decide
/-- … and there the same requests end answered: caller 1 is submitted instead, everything is computed and delivered -/
example : (crun (envOf false) coldCfg cinit (coldSched.dropLast ++
    [.step (.submit 1), .step (.deliver 0), .step (.respond 0), .step (.take 1 0), .step (.finish 1 0),
     .step (.deliver 1), .step (.respond 1)])).map
      (fun s => (cstuck (envOf false) coldCfg s, s.base.answers)) = some (true, [(1, .value 1 2), (0, .value 0 1)]) := by
  decide

/-! ### accepting a task after the pool has stopped (outside the property's fault class) -/

/-- A request dealt to a pool that has stopped is refused (`RuntimeError('Executor not running')`). -/
def C16_late_refusal_full : Prop :=
  ∀ (h : Bool) (cfg : Config) (sched : List CStep) (s : CState) (c : Nat), crun (envOf h) cfg cinit sched = some s →
    s.blocked = false → s.base.phase c = .resolved → (spec cfg c).badEncoding = false →
    (s.base.execs (cfg.select (spec cfg c).app)).stopped = true →
    ∃ s', cstep (envOf h) cfg s (.step (.submit c)) = some s' ∧ (c, .error .notRunning) ∈ s'.base.answers

/-- It is — once the executor thread has left its loop (`Executor.apply`: `if not self.is_alive(): raise`); the task
cannot be accepted any more then. -/
theorem C16_late_refusal_partial (h : Bool) (cfg : Config) (s : CState) (c : Nat) (hb : s.blocked = false)
    (hp : s.base.phase c = .resolved) (he : (spec cfg c).badEncoding = false)
    (hs : (s.base.execs (cfg.select (spec cfg c).app)).stopped = true)
    (hx : s.exited.contains (cfg.select (spec cfg c).app) = true) :
    (∃ s', cstep (envOf h) cfg s (.step (.submit c)) = some s' ∧ (c, .error .notRunning) ∈ s'.base.answers)
    ∧ cstep (envOf h) cfg s (.lateSubmit c) = none := by
  have hlw : lateWindow cfg s c = false := by
    have hm : cfg.select (spec cfg c).app ∈ s.exited := by simpa using hx
    simp [lateWindow, hm]
  refine ⟨⟨{ s with base := answer s.base c (.error .notRunning) }, ?_, by simp [answer]⟩, by simp [cstep, hlw]⟩
  simp [cstep, hb, lateBlocked, hlw, stepVia, step, hp, he, hs]

/-- the fatal request 0 has stopped the pool, the healthy caller 1 arrives afterwards, the executor thread has not
noticed the stop yet -/
def lateSched : List CStep :=
  [.step (.arrive 0), .step (.desc 0), .step (.desc 0), .step (.desc 0), .step (.desc 0), .step (.desc 0),
   .step (.submit 0), .step (.take 0 0), .step (.finish 0 0), .step (.arrive 1), .step (.desc 1)]

/-- Before that (at most the one second of `results.get(timeout=1)`) the task is accepted although no worker will ever
take it: the caller is neither answered nor refused.  Behaviour after a non-platform exception, outside the property's
fault class; recorded. -/
theorem C16_late_refusal_counterexample : ¬ C16_late_refusal_full := by
  intro h
  cases hr : crun (envOf true) fatalCfg cinit lateSched with
  | none => exact absurd hr (by decide)
  | some s =>
    have hobs : (s.blocked, s.base.phase 1, (s.base.execs 0).stopped, (cstep (envOf true) fatalCfg s (.step (.submit 1))).isNone)
        = (false, .resolved, true, true) := by
      have : (crun (envOf true) fatalCfg cinit lateSched).map
          (fun s => (s.blocked, s.base.phase 1, (s.base.execs 0).stopped, (cstep (envOf true) fatalCfg s (.step (.submit 1))).isNone))
          = some (false, .resolved, true, true) := by decide
      rw [hr] at this; simpa using this
    simp only [Prod.mk.injEq] at hobs
    obtain ⟨s', hs', _⟩ := h true fatalCfg lateSched s 1 hr hobs.1 hobs.2.1 (by decide) hobs.2.2.1
    rw [hs'] at hobs
    simp at hobs

/-- what happens instead: the task is accepted, nothing is enabled any more, caller 1 has no answer -/
example : (crun (envOf true) fatalCfg cinit (lateSched ++ [.lateSubmit 1, .exit 0])).map
    (fun s => (cstuck (envOf true) fatalCfg s, s.base.phase 1, nAnswers s.base 1)) = some (true, .submitted 0 1, 0) := by decide
/-- had the thread left its loop first, the caller would have been refused -/
example : (crun (envOf true) fatalCfg cinit (lateSched ++ [.exit 0, .step (.submit 1)])).map
    (fun s => (cstuck (envOf true) fatalCfg s, s.base.answers)) = some (true, [(1, .error .notRunning)]) := by decide

/-! ### the process pool of `Wrapper.respond`, shared by all applications -/

/-- "Whatever the engine answers is the caller's own outcome" without any assumption on what survives the way back
from the pool processes. -/
def C16_respond_pool_full : Prop :=
  ∀ (env : Env) (cfg : Config) (sched : List CStep) (s : CState), cfg.locked = true → cfg.reset = .always →
    hasFatal cfg = false → crun env cfg cinit sched = some s → ∀ c o, (c, o) ∈ s.base.answers → o = expected cfg c

/-- **A request with no acceptable response encoding fails alone** (and so does every other platform failure): when the
error values can be transported out of the pool processes — the code that exists: plain exceptions with a message —
the shared pool is never broken under any schedule, every answer is the caller's own, at most once. -/
theorem C16_respond_pool_isolation (env : Env) (cfg : Config) (sched : List CStep) (s : CState)
    (htr : ∀ e, env.transportable e = true) (hl : cfg.locked = true) (hr : cfg.reset = .always)
    (hf : hasFatal cfg = false) (hrun : crun env cfg cinit sched = some s) :
    s.packBroken = false ∧ (∀ c o, (c, o) ∈ s.base.answers → o = expected cfg c) ∧ ∀ c, nAnswers s.base c ≤ 1 := by
  obtain ⟨_, hb, hp, _⟩ := crun_inv env cfg hf htr sched cinit s Inv.init rfl hrun
  exact ⟨hp, C16_exact cfg _ s.base hl hr hf hb, (C16_correlation cfg _ s.base hb).2.1⟩

/-- one application, one worker: caller 0 healthy, caller 1 accepts no encoding there is, caller 2 healthy -/
def poisonCfg : Config :=
  { callers := [⟨0, false, false, ⟨.ok, 1⟩⟩, ⟨0, false, true, ⟨.ok, 2⟩⟩, ⟨0, false, false, ⟨.ok, 3⟩⟩], inventory := [0],
    select := fun a => a, workers := 1, locked := true }

/-- an `Encoding.Unsupported` that cannot be rebuilt from its `args` in the engine process -/
def poisonEnv : Env := { hazard := false, transportable := fun e => e != .unsupported }

/-- callers 0 and 1 have their predictions and are being packed; caller 1's `_pack` raises first; caller 2 comes later -/
def poisonSched : List CStep :=
  [.step (.arrive 0), .step (.desc 0), .step (.desc 0), .step (.desc 0), .step (.desc 0), .step (.desc 0),
   .step (.submit 0), .step (.take 0 0), .step (.finish 0 0), .step (.deliver 0),
   .step (.arrive 1), .step (.desc 1), .step (.submit 1), .step (.take 0 0), .step (.finish 0 0), .step (.deliver 0),
   .step (.respond 1), .step (.respond 0),
   .step (.arrive 2), .step (.desc 2), .step (.submit 2), .step (.take 0 0), .step (.finish 0 0), .step (.deliver 0),
   .step (.respond 2)]

/-- **A poisoning error does not fail alone**: with an error value that cannot come back from the pool process the pool
breaks — the in-flight healthy caller 0 and the later healthy caller 2 receive `BrokenProcessPool`. -/
theorem C16_respond_pool_counterexample : ¬ C16_respond_pool_full := by
  intro h
  cases hr : crun poisonEnv poisonCfg cinit poisonSched with
  | none => exact absurd hr (by decide)
  | some s =>
    have hans : s.base.answers = [(2, .error .brokenPool), (0, .error .brokenPool), (1, .error .brokenPool)] := by
      have : (crun poisonEnv poisonCfg cinit poisonSched).map (·.base.answers)
          = some [(2, .error .brokenPool), (0, .error .brokenPool), (1, .error .brokenPool)] := by decide
      rw [hr] at this; simpa using this
    have := h poisonEnv poisonCfg poisonSched s (by decide) (by decide) (by decide) hr 2 (.error .brokenPool) (by simp [hans])
    exact absurd this (by decide)

/-- the same schedule with the error values of the code that exists: the failing caller gets its own error, the others
their predictions -/
example : (crun (envOf false) poisonCfg cinit poisonSched).map (fun s => (s.packBroken, s.base.answers))
    = some (false, [(2, .value 0 3), (0, .value 0 1), (1, .error .unsupported)]) := by decide

/-! ### the REST gateway -/

/-- the gateway adds nothing and hides nothing: two outcomes that differ give HTTP responses that differ -/
theorem gateway_injective (o o' : Outcome) (h : gateway o = gateway o') : o = o' := by
  have := congrArg HttpResponse.body h
  simpa [gateway] using this

/-- **Through the REST route**: under every schedule, the HTTP response a caller receives is the one of its own
request — status 200 with the outcome of its own payload on the instance its application selected (and that instance in
`x-forml-instance`), or the status of its own platform error (415 unsupported content type / no acceptable response
encoding, 404 unknown application / missing features, 400 refused by the pipeline). -/
theorem C16_gateway (cfg : Config) (sched : List Step) (s : State) (hl : cfg.locked = true) (hr : cfg.reset = .always)
    (hf : hasFatal cfg = false) (h : run cfg init sched = some s) :
    ∀ c o, (c, o) ∈ s.answers → gateway o = gateway (expected cfg c)
      ∧ ((gateway o).status = 200 ↔ (expected cfg c).err? = none) := by
  intro c o hm
  have := C16_exact cfg sched s hl hr hf h c o hm
  subst this
  refine ⟨rfl, ?_⟩
  cases he : expected cfg c with
  | value i p => simp [gateway, httpStatus, Outcome.err?]
  | mixed i ps => simp [gateway, httpStatus, Outcome.err?]
  | error e => cases e <;> simp [gateway, httpStatus, Outcome.err?]

example : (gateway (.value 3 7)).status = 200 ∧ (gateway (.value 3 7)).served = some 3
    ∧ (gateway (.error (.invalid 7 1))).status = 400 ∧ (gateway (.error .missingApp)).status = 404
    ∧ (gateway (.error .missingFeatures)).status = 404 ∧ (gateway (.error .unsupported)).status = 415 := by decide

/-! ### non-vacuity (tests on concrete objects, not part of the claim) -/

/-- eight callers over two applications / instances (pipelines fanning out into 2 and 3 branches) and an unknown
application: healthy, healthy, undecodable content type, missing column, unknown application, no acceptable response
encoding, refused by branch 1 of 3, refused by branch 0 of 2; two workers; the code that exists -/
def demoCfg : Config :=
  { callers := [⟨0, false, false, ⟨.ok, 5⟩⟩, ⟨1, false, false, ⟨.ok, 6⟩⟩, ⟨0, true, false, ⟨.ok, 7⟩⟩,
                ⟨1, false, false, ⟨.missingColumn, 8⟩⟩, ⟨9, false, false, ⟨.ok, 9⟩⟩, ⟨0, false, true, ⟨.ok, 10⟩⟩,
                ⟨1, false, false, ⟨.refused 1, 11⟩⟩, ⟨0, false, false, ⟨.refused 0, 12⟩⟩],
    inventory := [0, 1], select := fun a => a + 10, workers := 2, locked := true,
    fanout := fun i => if i = 10 then 2 else 3 }

example : demoCfg.locked = true ∧ demoCfg.reset = .always ∧ hasFatal demoCfg = false ∧ 1 ≤ demoCfg.workers := by decide

/-- the bound of `C16_termination` is not far off: this complete schedule of the eight callers has 52 steps (≤ 104) -/
example : (randomRun demoCfg (instsOf demoCfg) 300 1 init []).2.length = 52 := by decide +kernel

/-- a complete pseudo-random schedule of `demoCfg` is a schedule (`run` accepts it), ends stuck, and all eight
callers are answered as prescribed -/
example : (run demoCfg init (randomRun demoCfg (instsOf demoCfg) 300 1 init []).2).map
    (fun s => (stuck demoCfg s, s.answers.length)) = some (true, 8) := by decide +kernel

example : (randomRun demoCfg (instsOf demoCfg) 300 1 init []).1.answers.length = 8
    ∧ stuck demoCfg (randomRun demoCfg (instsOf demoCfg) 300 1 init []).1 = true
    ∧ ∀ a ∈ (randomRun demoCfg (instsOf demoCfg) 300 1 init []).1.answers, a.2 = expected demoCfg a.1 := by
  decide +kernel

/-- what the prescribed outcomes are: the refusals carry the payload of the refused request and the refusing branch -/
example : (List.range 8).map (expected demoCfg) =
    [.value 10 5, .value 11 6, .error .unsupported, .error .missingFeatures, .error .missingApp, .error .unsupported,
     .error (.invalid 11 1), .error (.invalid 12 0)] := by decide

end ForML.Serving
