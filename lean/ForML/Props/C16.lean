/-
C16 — Concurrent serving never crosses, loses or duplicates responses.
Property theorems over the transition system `ForML.Model.Serving` (all schedules, any number of callers,
applications, instances and workers; induction over the schedule in `ForML.Lemmas.C16`).

Reading of the statement in the model
* "each caller receives exactly once the outcome computed from its own payload by the model instance its
  application selected" : in every reachable state the answer log holds at most one entry per caller and that
  entry is `expected cfg c` (`C16_correlation`, `C16_exact`); in every state where no step is enabled every
  arrived caller has exactly one entry (`C16_no_loss_*`); every schedule is finite (`C16_termination`: at most
  13 steps per caller) and can be continued to such a state (`C16_exactly_once`) — so there is no interleaving,
  however unfair, that keeps a caller waiting for ever or answers it twice.
* "a request that fails with a platform-level error fails alone" : `C16_isolation`.
* `Config.locked = true` is `Wrapper._get_descriptor` as it exists (critical section under `Wrapper._lock`,
  /repo 710a92e = fixes/C16-descriptor-lock.diff); `false` is the code before that repair, kept for the
  kernel-checked witness of the fixed defect C16-F1.
* `hasFatal cfg = false` : no request makes an actor raise a non-`forml.AnyError` exception — that is outside the
  property's fault class (unsupported encoding, unknown application, missing features) and does stop a pool.
-/
import ForML.Lemmas.C16
import ForML.Lemmas.C16Term

namespace ForML.Serving

/-! ### counting answers -/

private theorem filter_len_le_one (c : Nat) (l : List (Nat × Outcome)) (h : (l.map (·.1)).Nodup) :
    (l.filter (fun a => a.1 == c)).length ≤ 1 := by
  induction l with
  | nil => simp
  | cons x r ih =>
    simp only [List.map_cons, List.nodup_cons] at h
    by_cases hx : x.1 = c
    · have : r.filter (fun a => a.1 == c) = [] := by
        rw [List.filter_eq_nil_iff]
        intro a ha he
        exact h.1 (List.mem_map.2 ⟨a, ha, by simpa [hx] using he⟩)
      simp [hx, this]
    · simpa [List.filter_cons, hx] using ih h.2

private theorem filter_len_pos (c : Nat) (o : Outcome) (l : List (Nat × Outcome)) (h : (c, o) ∈ l) :
    1 ≤ (l.filter (fun a => a.1 == c)).length :=
  List.length_pos_of_mem (List.mem_filter.2 ⟨h, by simp⟩)

/-! ### correlation -/

/-- **Invariant of every schedule.** In every reachable state, for every executor: the ids in flight
(task queue ⊎ held by workers ⊎ result queue) are pairwise distinct, they are exactly the keys of `pending`,
the keys are distinct and all below the counter (ids are never reused); every caller has been answered at most
once; and every answer is the outcome of the caller's own payload on the instance its application selected
(or its own platform error) — except for the two refusals the code can produce outside the property's reach:
"application not found" through the unsynchronised descriptor cache (only when `locked = false`) and
"executor not running" (only when some request is fatal). -/
theorem C16_correlation (cfg : Config) (sched : List Step) (s : State) (h : run cfg init sched = some s) :
    (∀ i, (inflight (s.execs i)).Nodup ∧ (keys (s.execs i)).Nodup
        ∧ (∀ id, id ∈ inflight (s.execs i) ↔ id ∈ keys (s.execs i))
        ∧ (∀ id, id ∈ keys (s.execs i) → id < (s.execs i).next))
    ∧ (∀ c, nAnswers s c ≤ 1)
    ∧ (∀ c o, (c, o) ∈ s.answers → o = expected cfg c
        ∨ (o = .error .missingApp ∧ cfg.locked = false)
        ∨ (o = .error .notRunning ∧ hasFatal cfg = true)) := by
  have inv := Inv.init.run sched h
  refine ⟨fun i => ⟨(inv.e i).fl_nodup, (inv.e i).keys_nodup, (inv.e i).fl_keys, (inv.e i).keys_lt⟩, ?_, inv.c.ans_ok⟩
  intro c
  exact filter_len_le_one c s.answers inv.c.ans_nodup

/-- The property's first sentence at full strength for the code that exists: under **every** schedule, whatever
a caller is answered is the outcome computed from its own payload by the instance its application selected (or
its own platform-level error). -/
def C16_exact_full : Prop :=
  ∀ (cfg : Config) (sched : List Step) (s : State), cfg.locked = true → hasFatal cfg = false →
    run cfg init sched = some s → ∀ c o, (c, o) ∈ s.answers → o = expected cfg c

theorem C16_exact : C16_exact_full := by
  intro cfg sched s hl hf h c o hm
  rcases (C16_correlation cfg sched s h).2.2 c o hm with e | ⟨_, e⟩ | ⟨_, e⟩
  · exact e
  · simp [hl] at e
  · simp [hf] at e

/-- The same statement without the descriptor lock, i.e. for `_get_descriptor` as it was before 710a92e. -/
def C16_exact_unlocked_full : Prop :=
  ∀ (cfg : Config) (sched : List Step) (s : State), hasFatal cfg = false → run cfg init sched = some s →
    ∀ c o, (c, o) ∈ s.answers → o = expected cfg c

/-- D17: two first requests for the same (known) application, `_get_descriptor` unsynchronised. -/
def raceCfg : Config :=
  { callers := [⟨0, false, false, ⟨.ok, 7⟩⟩, ⟨0, false, false, ⟨.ok, 8⟩⟩], inventory := [0], select := fun a => a,
    workers := 1, locked := false }

/-- thread 0: check; thread 1: check; thread 0: list, diff, update; thread 1: list, diff (now empty), update,
test → "application not found". -/
def raceSched : List Step :=
  [.arrive 0, .arrive 1, .desc 0, .desc 1, .desc 0, .desc 0, .desc 0, .desc 1, .desc 1, .desc 1, .desc 1]

theorem C16_descriptor_race_counterexample : ¬ C16_exact_unlocked_full := by
  intro h
  cases hr : run raceCfg init raceSched with
  | none => exact absurd hr (by decide)
  | some s =>
    have hans : s.answers = [(1, .error .missingApp)] := by
      have : (run raceCfg init raceSched).map (·.answers) = some [(1, .error .missingApp)] := by decide
      rw [hr] at this; simpa using this
    have := h raceCfg raceSched s (by decide) hr 1 (.error .missingApp) (by simp [hans])
    exact absurd this (by decide)

/-- the same interleaving is not a schedule of the code that exists: thread 1 cannot pass the check while
thread 0 holds the lock -/
example : run { raceCfg with locked := true } init raceSched = none := by decide

/-! ### no loss -/

/-- Second half of "exactly once" at full strength: wherever a schedule can go no further, every caller that
arrived has exactly one answer. -/
def C16_no_loss_full : Prop :=
  ∀ (cfg : Config) (sched : List Step) (s : State), 1 ≤ cfg.workers → run cfg init sched = some s →
    stuck cfg s = true → ∀ c, s.phase c ≠ .fresh → nAnswers s c = 1

/-- It holds whenever no request raises a non-platform exception (the property's fault class):
every complete schedule answers every caller exactly once, for both variants of the descriptor code. -/
theorem C16_no_loss_partial (cfg : Config) (sched : List Step) (s : State) (hw : 1 ≤ cfg.workers)
    (hf : hasFatal cfg = false) (h : run cfg init sched = some s) (hst : stuck cfg s = true) :
    ∀ c, s.phase c ≠ .fresh → nAnswers s c = 1 := by
  intro c hc
  have inv := Inv.init.run sched h
  have hns : ∀ i, (s.execs i).stopped = false := by
    intro i
    cases hs : (s.execs i).stopped with
    | false => rfl
    | true => have := inv.c.stop_fatal i hs; simp [hf] at this
  have hd := inv.stuck_done hw hns hst c hc
  obtain ⟨o, ho⟩ := inv.c.done_ans c hd
  have h1 := filter_len_le_one c s.answers inv.c.ans_nodup
  have h2 := filter_len_pos c o s.answers ho
  simp only [nAnswers]; omega

/-- Residue outside the property's fault class: a request whose actor raises a non-`forml.AnyError` exception
stops the whole pool (`Pool.Worker.run`: `self._stopped.set()`), `Executor.run` leaves its loop, and every
caller still pending on that executor — here also the healthy caller 1 — is never answered. -/
def fatalCfg : Config :=
  { callers := [⟨0, false, false, ⟨.fatal, 1⟩⟩, ⟨0, false, false, ⟨.ok, 2⟩⟩], inventory := [0], select := fun a => a,
    workers := 1, locked := true }

def fatalSched : List Step :=
  [.arrive 0, .desc 0, .desc 0, .desc 0, .desc 0, .desc 0, .submit 0, .arrive 1, .desc 1, .submit 1,
   .take 0 0, .finish 0 0]

theorem C16_fatal_counterexample : ¬ C16_no_loss_full := by
  intro h
  cases hr : run fatalCfg init fatalSched with
  | none => exact absurd hr (by decide)
  | some s =>
    have hobs : (stuck fatalCfg s, s.phase 1, nAnswers s 1) = (true, .submitted 0 1, 0) := by
      have : (run fatalCfg init fatalSched).map (fun s => (stuck fatalCfg s, s.phase 1, nAnswers s 1))
          = some (true, .submitted 0 1, 0) := by decide
      rw [hr] at this; simpa using this
    simp only [Prod.mk.injEq] at hobs
    have := h fatalCfg fatalSched s (by decide) hr hobs.1 1 (by simp [hobs.2.1])
    omega

/-! ### termination and completion -/

/-- **Every schedule is finite**: no interleaving runs for more than 13 steps per caller (arrive, at most six
descriptor steps, submit / decode failure, take, finish, deliver, respond; a rank that every step strictly
decreases, `ForML.Lemmas.C16Term`).  Together with `C16_no_loss_partial` ("where nothing is enabled everybody is
answered") this is what makes "exactly once" hold without any fairness assumption: a schedule cannot avoid
answering a caller by going on for ever. -/
theorem C16_termination (cfg : Config) (sched : List Step) (s : State) (h : run cfg init sched = some s) :
    sched.length ≤ 13 * cfg.callers.length := by
  have := measure_run sched Inv.init h
  rw [measure_init] at this; omega

/-- The property's first sentence in one statement, for the code that exists and the property's fault class:
after **any** schedule, some continuation (every one of them is finite by `C16_termination`) reaches a state
where nothing is left to do, and there every caller that had arrived has been answered exactly once, with the
outcome computed from its own payload by the instance its application selected (or its own platform error). -/
def C16_exactly_once_full : Prop :=
  ∀ (cfg : Config) (sched : List Step) (s : State), cfg.locked = true → hasFatal cfg = false → 1 ≤ cfg.workers →
    run cfg init sched = some s →
    ∃ ext s', run cfg init (sched ++ ext) = some s' ∧ stuck cfg s' = true ∧
      ∀ c, s.phase c ≠ .fresh → nAnswers s' c = 1 ∧ (c, expected cfg c) ∈ s'.answers

theorem C16_exactly_once : C16_exactly_once_full := by
  intro cfg sched s hl hf hw h
  have hI := Inv.init.run sched h
  obtain ⟨ext, s', hr, hst⟩ := exists_completion (cfg := cfg) _ s hI (Nat.le_refl _)
  have hrun : run cfg init (sched ++ ext) = some s' := by rw [run_append, h]; exact hr
  refine ⟨ext, s', hrun, hst, fun c hc => ?_⟩
  have hc' : s'.phase c ≠ .fresh := by
    rw [← rank_lt_iff] at hc ⊢
    have := rank_run_le ext hI hr c
    omega
  have h1 := C16_no_loss_partial cfg (sched ++ ext) s' hw hf hrun hst c hc'
  refine ⟨h1, ?_⟩
  have hpos : 0 < (s'.answers.filter (fun a => a.1 == c)).length := by simp only [nAnswers] at h1; omega
  obtain ⟨a, ha⟩ := List.exists_mem_of_length_pos hpos
  obtain ⟨ham, hac⟩ := List.mem_filter.1 ha
  have hac' : a.1 = c := by simpa using hac
  have := C16_exact cfg (sched ++ ext) s' hl hf hrun a.1 a.2 ham
  rw [hac'] at this
  rw [← this, ← hac']
  exact ham

/-! ### isolation -/

/-- **A platform-level failure fails alone.** Let `cfg'` differ from `cfg` at most in caller `c`'s request
(e.g. `c` healthy in `cfg`; unknown application, undecodable content type, unacceptable response encoding or
missing column in `cfg'` — anything but a fatal exception). Then under every schedule of `cfg'` every other caller is answered at most
once, only with the outcome the property prescribes for it in `cfg`, and exactly once wherever the schedule
is complete. -/
theorem C16_isolation (cfg cfg' : Config) (c : Nat)
    (hsame : ∀ d, d ≠ c → spec cfg' d = spec cfg d) (hinv : cfg'.inventory = cfg.inventory)
    (hsel : cfg'.select = cfg.select) (hl : cfg'.locked = true) (hf : hasFatal cfg' = false)
    (hw : 1 ≤ cfg'.workers) (sched : List Step) (s : State) (h : run cfg' init sched = some s) :
    ∀ d, d ≠ c →
      (∀ o, (d, o) ∈ s.answers → o = expected cfg d) ∧ nAnswers s d ≤ 1
      ∧ (stuck cfg' s = true → s.phase d ≠ .fresh → nAnswers s d = 1) := by
  intro d hd
  refine ⟨fun o hm => ?_, (C16_correlation cfg' sched s h).2.1 d,
    fun hst hp => C16_no_loss_partial cfg' sched s hw hf h hst d hp⟩
  have := C16_exact cfg' sched s hl hf h d o hm
  rw [this]
  simp [expected, finalOf, encode, entryOf, hsame d hd, hinv, hsel]

/-! ### non-vacuity (tests on concrete objects, not part of the claim) -/

/-- six callers over two applications / instances and an unknown one: healthy, healthy, undecodable content type,
missing column, unknown application, no acceptable response encoding; two workers; the code that exists -/
def demoCfg : Config :=
  { callers := [⟨0, false, false, ⟨.ok, 5⟩⟩, ⟨1, false, false, ⟨.ok, 6⟩⟩, ⟨0, true, false, ⟨.ok, 7⟩⟩,
                ⟨1, false, false, ⟨.missingColumn, 8⟩⟩, ⟨9, false, false, ⟨.ok, 9⟩⟩, ⟨0, false, true, ⟨.ok, 10⟩⟩],
    inventory := [0, 1], select := fun a => a + 10, workers := 2, locked := true }

example : demoCfg.locked = true ∧ hasFatal demoCfg = false ∧ 1 ≤ demoCfg.workers := by decide

/-- the bound of `C16_termination` is not far off: this complete schedule of the six callers has 40 steps (≤ 78) -/
example : (randomRun demoCfg (instsOf demoCfg) 200 1 init []).2.length = 40 := by decide +kernel

/-- a complete pseudo-random schedule of `demoCfg` is a schedule (`run` accepts it), ends stuck, and all six
callers are answered as prescribed -/
example : (run demoCfg init (randomRun demoCfg (instsOf demoCfg) 200 1 init []).2).map
    (fun s => (stuck demoCfg s, s.answers.length)) = some (true, 6) := by decide +kernel

example : (randomRun demoCfg (instsOf demoCfg) 200 1 init []).1.answers.length = 6
    ∧ stuck demoCfg (randomRun demoCfg (instsOf demoCfg) 200 1 init []).1 = true
    ∧ ∀ a ∈ (randomRun demoCfg (instsOf demoCfg) 200 1 init []).1.answers, a.2 = expected demoCfg a.1 := by
  decide +kernel

end ForML.Serving
