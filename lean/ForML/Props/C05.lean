/-
C05 — Registry history is append-only, gap-free and crash-consistent.

Reading of the statement in the model (ForML.Model.Fs / ForML.Model.Registry):
* the reader's view of a tree is `vis fs : Path → Option Node` (what a fresh `asset.Directory` reaches through
  the listings); `ViewEq a b` = the two trees are indistinguishable for a fresh reader;
* a process death during a registry call = `run fs (crashOps ops k cut)`: `k` atomic micro-operations of the
  call completed, optionally `cut` bytes of the next write; inside a history step (guard + several calls)
  it is `crashIn impl fs step k cut`;
* a history is a list of events `Ev.step s` (the step runs to its end or raises), `Ev.crash s k cut` (the process
  dies inside the step and a new process carries on with what is on disk) and `Ev.fault s j` (a file-system call of the
  step raises a transient `OSError` once: the step raises, the process lives on); `play impl Fs.empty evs` is the tree
  after it.

`Impl.repaired` is the code in /repo (fix commits 3387543, dc51650), `Impl.original` the code before them: the
theorems named `…_original_…` are about the latter (counterexamples replayed by the harness, findings C05-F1..F4).

Part 1: single registry calls on arbitrary trees.  Part 2: whole histories, by induction over the events, the calls of
a step and the micro-operations of a call (lemmas in ForML/Lemmas/C05*.lean).  Part 3: several writers — interleaved
histories over any number of long-lived or fresh HANDLES (object chains with what they memoise) in any number of PROCESSES
(each with its tag cache), at the granularity of registry calls, with process deaths (ForML.Model.RegistryHandles).
Part 4: the volatile registry (ForML.Model.RegistryVolatile): listing in memory, generations in a temporary directory.
-/
import ForML.Lemmas.C05Volatile
import ForML.Lemmas.C05States
import ForML.Lemmas.C05Rmtree

namespace ForML.Registry
open ForML.Fs

/-! ## Part 1 — single calls, any tree -/

/-! ### crash consistency of a commit (`Registry.close` under `Release.put`) -/

/-- The statement for a commit: whenever the process dies, a fresh reader sees the previous content or the complete
new generation.  Hypotheses = what `Release.put` guarantees when it calls `close`: the release is listed (its
directories exist) and generation `g` has no tag yet. -/
def CommitCrashConsistent (impl : Impl) : Prop :=
  ∀ (fs c : Fs) (p v g : Nat) (t : Tag) (k : Nat) (cut : Option Nat),
    get fs (projectP p) ≠ none → get fs (releaseP p v) ≠ none → get fs (tagP p v g) = none →
    run fs (crashOps (closeOps impl fs p v g t) k cut) = some c →
    ViewEq c fs ∨ run fs (closeOps impl fs p v g t) = some c

/-- **C05_commit_crash**: with the tag written to a temporary sibling and renamed (the code that exists), a commit is
crash consistent at *every* crash point (between any two micro-operations and inside the tag write), for every tree,
release, generation number, tag and number of states. -/
theorem C05_commit_crash (kf : Bool) : CommitCrashConsistent ⟨true, kf⟩ := by
  intro fs c p v g t k cut hp hv ht hc
  rcases commit_crash_raw kf fs c p v g t k cut hp hv ht hc with hq | hfull
  · exact Or.inl (hq.viewEq ht)
  · exact Or.inr hfull

/-- **C05_commit_crash_original_partial**: the code before the fix (tag written in place) is crash consistent at every
crash point *except* the two after `open(tag, 'wb')`: `k = n + 1` where `n` = number of micro-operations before the
tag is created (tag empty, or partially written with `cut`). -/
theorem C05_commit_crash_original_partial (kf : Bool) (fs c : Fs) (p v g : Nat) (t : Tag) (k : Nat) (cut : Option Nat)
    (hp : get fs (projectP p) ≠ none) (hv : get fs (releaseP p v) ≠ none) (ht : get fs (tagP p v g) = none)
    (hk : k ≠ (mkdirP fs (generationP p v g)).length + t.sids.length + 1)
    (hc : run fs (crashOps (closeOps ⟨false, kf⟩ fs p v g t) k cut) = some c) :
    ViewEq c fs ∨ run fs (closeOps ⟨false, kf⟩ fs p v g t) = some c := by
  let A := mkdirP fs (generationP p v g)
      ++ t.sids.map (fun s => Op.rename (stagedStateP p v s) (stateP p v g s))
  let B := [Op.createEmpty (tagP p v g), Op.append (tagP p v g) (encodeTag t)]
  have hsplit : closeOps ⟨false, kf⟩ fs p v g t = A ++ B := by
    simp [closeOps, tagWriteOps, A, B]
  have hlen : A.length = (mkdirP fs (generationP p v g)).length + t.sids.length := by simp [A]
  by_cases hle : k ≤ A.length
  · left
    rw [hsplit, crashOps_append_le A B k cut hle (by intro p b h; simp [B] at h)] at hc
    refine commit_prefix_invisible ⟨false, kf⟩ fs c p v g t A k cut ?_ ?_ hp hv ht hc
    · intro op hop; rw [hsplit]; exact List.mem_append_left _ hop
    · have := closePrefix_not_tag fs p v g t.sids [] (by simp)
      simpa [A] using this
  · right
    have hge : (A ++ B).length ≤ k := by simp [B]; omega
    rw [hsplit] at hc ⊢
    unfold crashOps at hc
    rw [List.take_of_length_le hge, List.getElem?_eq_none hge] at hc
    cases cut <;> simpa using hc

/-- the tree after `publish 0/1 (file package)` and two staged states 0, 1 -/
def witnessTree : Fs :=
  (runSome Fs.empty (pushOps Impl.original Fs.empty 0 1 (.file [7, 7])
    ++ [.mkdir (stageP 0 1), .copyFile (stagedStateP 0 1 0) [1], .copyFile (stagedStateP 0 1 1) [2]])).1

/-- **C05_commit_crash_original_counterexample**: in the code before the fix a process death right after
`open(tag, 'wb')` (4 of 5 micro-operations done) leaves generation 1 *listed* with an unreadable (empty) tag: the view
is neither the old one (no generation) nor the new one.  (Finding C05-F1.) -/
theorem C05_commit_crash_original_counterexample : ¬ CommitCrashConsistent Impl.original := by
  intro h
  have := h witnessTree (runSome witnessTree (crashOps (closeOps Impl.original witnessTree 0 1 1 ⟨5, [0, 1]⟩) 4 none)).1
    0 1 1 ⟨5, [0, 1]⟩ 4 none (by decide) (by decide) (by decide) (by decide)
  rcases this with h1 | h1
  · have := h1 (tagP 0 1 1); revert this; decide
  · revert h1; decide

/-- the crashed tree of the counterexample shows generation 1 as listed and its tag does not decode -/
theorem C05_commit_crash_original_counterexample_corrupt :
    let c := (runSome witnessTree (crashOps (closeOps Impl.original witnessTree 0 1 1 ⟨5, [0, 1]⟩) 4 none)).1
    genListed c 0 1 1 = true ∧ tagOf c 0 1 1 = none := by decide

/-- ... and so does a tag cut short inside the write -/
theorem C05_commit_crash_original_counterexample_partial_write :
    let c := (runSome witnessTree (crashOps (closeOps Impl.original witnessTree 0 1 1 ⟨5, [0, 1]⟩) 4 (some 2))).1
    genListed c 0 1 1 = true ∧ tagOf c 0 1 1 = none := by decide

/-! ### a completed commit adds one generation and changes nothing else -/

/-- **C05_commit_append_only**: after a completed commit (either variant) every node a fresh reader could see
before is still seen, byte-identical (older generations, tags, states, packages of every project). -/
theorem C05_commit_append_only (impl : Impl) (fs fs' : Fs) (p v g : Nat) (t : Tag)
    (hp : get fs (projectP p) ≠ none) (hv : get fs (releaseP p v) ≠ none) (ht : get fs (tagP p v g) = none)
    (hr : run fs (closeOps impl fs p v g t) = some fs') :
    ∀ key n, vis fs key = some n → vis fs' key = some n := by
  intro key n hvis
  have hkey : ¬ generationP p v g <+: key := by
    intro h; rw [vis_hidden_gen fs p v g ht key h] at hvis; cases hvis
  rw [vis_frame_gen fs' fs p v g (close_frame impl fs fs' p v g t hp hv hr) key hkey]; exact hvis

/-- **C05_commit_content**: a completed commit leaves generation `g` with exactly the given tag, the tag's state ids
are pairwise distinct and each named state file holds what was staged under that id. -/
theorem C05_commit_content (kf : Bool) (fs fs' : Fs) (p v g : Nat) (t : Tag)
    (hr : run fs (closeOps ⟨true, kf⟩ fs p v g t) = some fs') :
    tagOf fs' p v g = some t ∧ t.sids.Nodup ∧
    ∀ s ∈ t.sids, get fs' (stateP p v g s) = get fs (stagedStateP p v s) := by
  obtain ⟨_, c2, c3, c4⟩ := close_content kf fs fs' p v g t hr
  exact ⟨by simp [tagOf, c2, decode_encode], c3, c4⟩

/-! ### generation numbering and the release guard (directory levels) -/

/-- **C05_next_generation**: `Release.put` numbers the new generation 1 for an empty listing and otherwise one
above *every* listed generation (so above the highest one), the number below being listed. -/
theorem C05_next_generation (fs : Fs) (p v : Nat) :
    (generationsOf fs p v = [] → nextGen fs p v = 1) ∧
    (∀ g ∈ generationsOf fs p v, g < nextGen fs p v) ∧
    (generationsOf fs p v ≠ [] → nextGen fs p v - 1 ∈ generationsOf fs p v) := nextGen_spec fs p v

/-- **C05_latest_is_highest**: an implicit generation / release key (`get(None)`) resolves to a listed key that is
at least every listed one; it is undefined (`Listing.Empty`) exactly for an empty listing. -/
theorem C05_latest_is_highest (fs : Fs) (p v : Nat) :
    (∀ m, latestGen fs p v = some m → m ∈ generationsOf fs p v ∧ ∀ g ∈ generationsOf fs p v, g ≤ m)
    ∧ (latestGen fs p v = none ↔ generationsOf fs p v = [])
    ∧ (∀ m, latestRel fs p = some m → m ∈ releasesOf fs p ∧ ∀ w ∈ releasesOf fs p, w ≤ m)
    ∧ (latestRel fs p = none ↔ releasesOf fs p = []) := by
  have key : ∀ l : List Nat, (∀ m, maxOf l = some m → m ∈ l ∧ ∀ g ∈ l, g ≤ m) ∧ (maxOf l = none ↔ l = []) := by
    intro l
    constructor
    · intro m hm
      have hne : l ≠ [] := by intro h; simp [h, maxOf] at hm
      obtain ⟨m', hm', hin⟩ := mem_maxOf l hne
      rw [hm] at hm'; cases hm'
      refine ⟨hin, fun g hg => ?_⟩
      obtain ⟨m'', hm'', hle⟩ := le_maxOf l g hg
      rw [hm] at hm''; cases hm''; exact hle
    · constructor
      · intro h
        cases l with
        | nil => rfl
        | cons x r => obtain ⟨m, hm, _⟩ := mem_maxOf (x :: r) (by simp); rw [h] at hm; cases hm
      · intro h; simp [h, maxOf]
  exact ⟨(key _).1, (key _).2, (key _).1, (key _).2⟩

/-- The statement for releases: `Project.put` accepts a package `(name, v)` only if `v` is greater than every
listed release of project `name`. -/
def ReleaseMonotonic (impl : Impl) : Prop :=
  ∀ (fs : Fs) (dirProj name v : Nat), publishGuard impl fs dirProj name v = none →
    ∀ w ∈ releasesOf fs name, w < v

/-- **C05_release_monotonic**: with the project key compared first (the code that exists), an accepted release is
greater than every listed release of the project it is pushed to. -/
theorem C05_release_monotonic (st : Bool) : ReleaseMonotonic ⟨st, true⟩ := by
  intro fs dp name v hg w hw
  simp only [publishGuard, Bool.true_and] at hg
  by_cases hn : name = dp
  · subst hn
    simp only [bne_self_eq_false, Bool.false_eq_true, if_false] at hg
    have hl : projListed fs name = true := by
      simp only [projListed, Bool.not_eq_true', List.isEmpty_eq_false_iff]
      intro h; rw [h] at hw; cases hw
    obtain ⟨m, hm, hle⟩ := le_maxOf _ w hw
    simp only [hl, if_true, hm] at hg
    split at hg
    · cases hg
    · split at hg
      · omega
      · cases hg
  · have : (name != dp) = true := by simp [hn]
    simp [this] at hg

/-- **C05_release_monotonic_original_partial**: the code before the fix guarantees it when the package is put through
its own project's key. -/
theorem C05_release_monotonic_original_partial (st : Bool) (fs : Fs) (name v : Nat)
    (hg : publishGuard ⟨st, false⟩ fs name name v = none) : ∀ w ∈ releasesOf fs name, w < v := by
  intro w hw
  simp only [publishGuard, Bool.false_and, Bool.false_eq_true, if_false] at hg
  have hl : projListed fs name = true := by
    simp only [projListed, Bool.not_eq_true', List.isEmpty_eq_false_iff]
    intro h; rw [h] at hw; cases hw
  obtain ⟨m, hm, hle⟩ := le_maxOf _ w hw
  simp only [hl, if_true, hm] at hg
  split at hg
  · cases hg
  · split at hg
    · omega
    · cases hg

/-- **C05_release_monotonic_original_counterexample**: release 3 of project 0 exists; putting the package `(0, 1)`
through the unlisted project key 2 was accepted by the code before the fix.  (Finding C05-F4.) -/
theorem C05_release_monotonic_original_counterexample : ¬ ReleaseMonotonic Impl.original := by
  intro h
  have := h (runSome Fs.empty (pushOps Impl.original Fs.empty 0 3 (.file [7]))).1 2 0 1 (by decide) 3 (by decide)
  revert this; decide

/-! ### crash consistency of a publish (`Registry.push` under `Project.put`) -/

/-- The statement for a publish: whenever the process dies, a fresh reader sees the previous content or the
complete new release. -/
def PublishCrashConsistent (impl : Impl) : Prop :=
  ∀ (fs c : Fs) (p v : Nat) (pkg : Pkg) (k : Nat) (cut : Option Nat),
    WF fs → relListed fs p v = false →
    run fs (crashOps (atomsAll (pushOps impl fs p v pkg)) k cut) = some c →
    ViewEq c fs ∨ run fs (atomsAll (pushOps impl fs p v pkg)) = some c

/-- **C05_publish_crash**: with the package (file or directory tree) written under a temporary sibling name and
renamed (the code that exists), a publish is crash consistent at every crash point, for every well-formed tree
(including leftovers of earlier interrupted publishes) and package. -/
theorem C05_publish_crash (kf : Bool) : PublishCrashConsistent ⟨true, kf⟩ := by
  intro fs c p v pkg k cut w hnl hc
  rcases push_crash_raw kf fs c p v pkg k cut hc with hq | hfull
  · exact Or.inl (hq.viewEq w (package_absent fs p v w hnl))
  · exact Or.inr hfull

/-- **C05_publish_crash_original_counterexample_file**: in the code before the fix a process death right after the
package file is opened leaves release 0/1 listed with an empty package.  (Finding C05-F2.) -/
theorem C05_publish_crash_original_counterexample_file : ¬ PublishCrashConsistent Impl.original := by
  intro h
  have := h Fs.empty (runSome Fs.empty (crashOps (atomsAll (pushOps Impl.original Fs.empty 0 1 (.file [7, 7]))) 3 none)).1
    0 1 (.file [7, 7]) 3 none (by decide) (by decide) (by decide)
  rcases this with h1 | h1
  · have := h1 (packageP 0 1); revert this; decide
  · revert h1; decide

/-- **C05_publish_crash_original_counterexample_tree**: the same for a directory package: after `mkdir package.4ml`
and one copied member the release is listed with an incomplete tree.  (Finding C05-F3.) -/
theorem C05_publish_crash_original_counterexample_tree :
    let ops := atomsAll (pushOps Impl.original Fs.empty 0 1 (.dir [(1, [4]), (0, [5, 6])]))
    let c := (runSome Fs.empty (crashOps ops 5 none)).1
    let full := (runSome Fs.empty ops).1
    relListed c 0 1 = true ∧ vis c (packageP 0 1 ++ [.member 0]) = none
      ∧ vis full (packageP 0 1 ++ [.member 0]) = some (.file [5, 6]) := by decide

/-! ## Part 2 — whole histories of the code that exists (`Impl.repaired`)

`evs` ranges over *all* lists of events: publishes and trainings with arbitrary arguments (valid or not), each either
run to its end or killed at an arbitrary micro-operation / inside an arbitrary write, after which the history goes on. -/

/-- **C05_history_crash_consistent**: after *any* history, for *any* next step and *any* crash point of it (after `k`
completed micro-operations of the step's registry calls, optionally inside the next write): a fresh reader sees
exactly the previous content, or the step had completed successfully and the reader sees its complete result. -/
theorem C05_history_crash_consistent (evs : List Ev) (s : Step) (k : Nat) (cut : Option Nat) :
    let fs := play Impl.repaired Fs.empty evs
    ViewEq (crashIn Impl.repaired fs s k cut) fs
      ∨ ((exec Impl.repaired fs s).err = none ∧ crashIn Impl.repaired fs s k cut = (exec Impl.repaired fs s).fs) :=
  (step_left _ (history_good evs) s _ (Or.inr ⟨k, cut, rfl⟩)).2

/-- **C05_history_never_corrupt**: after any history — in particular right after any process death — every generation
a fresh reader lists has a tag that decodes, and every state the tag names is there to be read: never a listed
generation whose metadata or states are missing or unreadable. -/
theorem C05_history_never_corrupt (evs : List Ev) (p v g : Nat)
    (h : genListed (play Impl.repaired Fs.empty evs) p v g = true) :
    ∃ t, tagOf (play Impl.repaired Fs.empty evs) p v g = some t
      ∧ ∀ s ∈ t.sids, ∃ b, vis (play Impl.repaired Fs.empty evs) (stateP p v g s) = some (.file b) := by
  have hv : genValid (play Impl.repaired Fs.empty evs) p v g = true := by
    simp only [genListed, Bool.and_eq_true] at h; exact h.2
  obtain ⟨t, ht, hs⟩ := (history_good evs).healthy p v g hv
  refine ⟨t, ht, fun s hsin => ?_⟩
  obtain ⟨b, hb⟩ := hs s hsin
  have hc : t.sids.contains s = true := by simp only [List.contains_iff_mem]; exact hsin
  exact ⟨b, by simp only [vis, stateP, h, ht, hc, Bool.and_self, if_true]; exact hb⟩

/-- **C05_history_release_has_package**: every listed release has its package (listing = package present). -/
theorem C05_history_release_has_package (evs : List Ev) (p v : Nat)
    (h : relListed (play Impl.repaired Fs.empty evs) p v = true) :
    ∃ n, vis (play Impl.repaired Fs.empty evs) (packageP p v) = some n := by
  have := h
  simp only [relListed, Bool.and_eq_true, Option.isSome_iff_exists] at this
  obtain ⟨n, hn⟩ := this.2
  exact ⟨n, by simp only [vis, packageP, h, if_true]; exact hn⟩

/-- **C05_history_gap_free**: after any history the generations a reader lists for a release are exactly `1 .. n`. -/
theorem C05_history_gap_free (evs : List Ev) (p v g : Nat)
    (h : g ∈ generationsOf (play Impl.repaired Fs.empty evs) p v) :
    1 ≤ g ∧ ∀ g', 1 ≤ g' → g' ≤ g → g' ∈ generationsOf (play Impl.repaired Fs.empty evs) p v := by
  rw [mem_generationsOf] at h
  refine ⟨?_, fun g' h1 h2 => ?_⟩
  · simp only [genValid, Bool.and_eq_true, decide_eq_true_eq] at h; exact h.1.1
  · rw [mem_generationsOf]; exact (history_good evs).gapfree p v g h g' h1 h2

/-- **C05_history_failed_step_invisible**: a step that raises (refused by a guard, or a failing system call half-way)
changes nothing a reader can see. -/
theorem C05_history_failed_step_invisible (evs : List Ev) (s : Step)
    (h : (exec Impl.repaired (play Impl.repaired Fs.empty evs) s).err ≠ none) :
    ViewEq (exec Impl.repaired (play Impl.repaired Fs.empty evs) s).fs (play Impl.repaired Fs.empty evs) := by
  rcases (step_left _ (history_good evs) s _ (Or.inl rfl)).2 with hv | ⟨he, _⟩
  · exact hv
  · exact absurd he h

/-- **C05_history_train**: after any history, a successful training of release `p/v` (i) requires the release to be
listed, (ii) adds generation `nextGen` — 1 for an empty listing, else above every listed number with the number below
listed, i.e. (with `C05_history_gap_free`) one above the highest — listed, with a
tag holding the run's ordinal and exactly the run's state ids in the run's (actor) order, (iii) each named state holds
that run's bytes, and (iv) every other path — every older generation, tag, state, every package of every project —
looks to a fresh reader byte-for-byte as before (so exactly one generation was added). -/
theorem C05_history_train (evs : List Ev) (p v ord : Nat) (sts : List (Nat × Bytes))
    (h : (exec Impl.repaired (play Impl.repaired Fs.empty evs) (.train p v ord sts)).err = none) :
    let fs := play Impl.repaired Fs.empty evs
    let fs' := (exec Impl.repaired fs (.train p v ord sts)).fs
    relListed fs p v = true
    ∧ ((generationsOf fs p v = [] → nextGen fs p v = 1)
        ∧ (∀ g ∈ generationsOf fs p v, g < nextGen fs p v)
        ∧ (generationsOf fs p v ≠ [] → nextGen fs p v - 1 ∈ generationsOf fs p v))
    ∧ genListed fs' p v (nextGen fs p v) = true
    ∧ tagOf fs' p v (nextGen fs p v) = some ⟨ord, sts.map (·.1)⟩
    ∧ (sts.map (·.1)).Nodup
    ∧ (∀ sb ∈ sts, vis fs' (stateP p v (nextGen fs p v) sb.1) = some (.file sb.2))
    ∧ (∀ key, ¬ (generationP p v (nextGen fs p v) <+: key) → vis fs' key = vis fs key) := by
  obtain ⟨h1, h2⟩ := train_ok _ (history_good evs) p v ord sts h
  exact ⟨h1, nextGen_spec _ p v, h2⟩

/-- **C05_history_publish**: after any history, a successful publish of package `(name, v)` through project key `dp`
(i) has `dp = name` and `v` greater than every listed release of `name`, (ii) lists the new release with exactly
that package at its place (a file with the package bytes, or a directory whose members — distinct names — hold their
bytes), and (iii) every path outside the new release directory looks byte-for-byte as before. -/
theorem C05_history_publish (evs : List Ev) (dp name v : Nat) (pkg : Pkg)
    (h : (exec Impl.repaired (play Impl.repaired Fs.empty evs) (.publish dp name v pkg)).err = none) :
    let fs := play Impl.repaired Fs.empty evs
    let fs' := (exec Impl.repaired fs (.publish dp name v pkg)).fs
    dp = name ∧ (∀ w ∈ releasesOf fs name, w < v)
    ∧ relListed fs' name v = true
    ∧ pkg.placedAs (vis fs' (packageP name v))
    ∧ (∀ ms, pkg = .dir ms → (ms.map (·.1)).Nodup → ∀ m ∈ ms,
        vis fs' (packageP name v ++ [.member m.1]) = some (.file m.2))
    ∧ (∀ key, ¬ (releaseP name v <+: key) → vis fs' key = vis fs key) :=
  publish_ok _ (history_good evs) dp name v pkg h

/-- **C05_history_fault_is_crash**: a transient I/O fault (an `OSError` raised once by the file-system call that would
have been the `j`-th atomic micro-operation of the step, or by a read before it; the process lives on) inside a training
leaves exactly the tree a process death at that point leaves — for every tree, every variant of the code: `write` and
`close` absorb nothing. -/
theorem C05_history_fault_is_crash (impl : Impl) (fs : Fs) (p v ord : Nat) (sts : List (Nat × Bytes)) (j : Nat) :
    faultIn impl fs (.train p v ord sts) j = crashIn impl fs (.train p v ord sts) j none :=
  faultIn_train impl fs p v ord sts j

/-- **C05_history_fault_publish**: … and inside a publish it is a process death at that point, or (a member copy failing
inside `shutil.copytree`, which collects the error and copies the other members before it raises) the tree differs from
the one before only below the invisible temporary package name and in newly created, still package-less directories. -/
theorem C05_history_fault_publish (evs : List Ev) (dp name v : Nat) (pkg : Pkg) (j : Nat) :
    let fs := play Impl.repaired Fs.empty evs
    faultIn Impl.repaired fs (.publish dp name v pkg) j = crashIn Impl.repaired fs (.publish dp name v pkg) j none
    ∨ (relListed fs name v = false ∧ QuietPub (faultIn Impl.repaired fs (.publish dp name v pkg) j) fs name v) :=
  fault_publish_cases _ (history_good evs) dp name v pkg j

/-- **C05_history_fault_invisible**: after any history (with process deaths and faults), a step hit by a transient I/O
fault is observationally a crashed one plus an error report: a fresh reader sees exactly the previous content — it never
renumbers, overwrites or accepts what the undisturbed step would have refused — unless the fault came after the last
micro-operation of a step that had completed without error: then the reader sees its complete, correct result. -/
theorem C05_history_fault_invisible (evs : List Ev) (s : Step) (j : Nat) :
    let fs := play Impl.repaired Fs.empty evs
    ViewEq (faultIn Impl.repaired fs s j) fs
      ∨ ((exec Impl.repaired fs s).err = none ∧ faultIn Impl.repaired fs s j = (exec Impl.repaired fs s).fs) :=
  (fault_left _ (history_good evs) s j).2

/-- **C05_history_append_only**: whatever a fresh reader can see after a history (a package, a package member, a
tag, a state) it sees byte-identical after *any* continuation of that history — completed steps, refused steps,
process deaths at any point.  (This is also why the process-wide `lru_cache`s `TAGS` / `STATES` / `ARTIFACTS` of a
long-lived reader never go stale: a cached item equals what a fresh reader would read.) -/
theorem C05_history_append_only (evs evs' : List Ev) (key : Path) (n : Node)
    (h : vis (play Impl.repaired Fs.empty evs) key = some n) :
    vis (play Impl.repaired Fs.empty (evs ++ evs')) key = some n := by
  rw [play_append]
  have gd := history_good evs
  generalize play Impl.repaired Fs.empty evs = fs at h gd
  induction evs' generalizing fs with
  | nil => exact h
  | cons e r ih =>
    simp only [play]
    obtain ⟨s, hs⟩ := apply_left fs gd e
    exact ih _ (apply_append_only fs gd e key n h) hs.1

/-! ### non-vacuity: two projects, two releases of the first, three trainings, two process deaths with recovery -/

def demoHistory : List Step :=
  [.publish 0 0 2 (.file [1, 2, 3]), .publish 1 1 1 (.dir [(0, [9]), (1, [8, 8])]),
   .train 0 2 1 [(0, [1, 2, 3])], .publish 0 0 3 (.file [4]), .train 0 3 2 [(1, [4]), (2, [5, 6])],
   .train 0 2 3 [(3, [7])]]

/-- the same with a training killed after the first state was moved, a directory publish killed while copying, and
both retried by a new process -/
def demoEvents : List Ev :=
  [.step (.publish 0 0 2 (.file [1, 2, 3])), .crash (.publish 1 1 1 (.dir [(0, [9]), (1, [8, 8])])) 6 (some 1),
   .step (.publish 1 1 1 (.dir [(0, [9]), (1, [8, 8])])), .step (.train 0 2 1 [(0, [1, 2, 3])]),
   .crash (.train 0 2 2 [(1, [4]), (2, [5, 6])]) 6 none, .step (.train 0 2 3 [(3, [7]), (4, [8])]),
   .step (.publish 0 0 1 (.file [4])), .step (.publish 0 0 3 (.file [4]))]

/-- every step of the demo history succeeds under both variants, generations are numbered 1, 2 / 1 and hold the
runs' states in order; the tree is well formed and satisfies the hypotheses of the commit theorems for the next
generation -/
example : ((execAll Impl.repaired Fs.empty demoHistory).2.all (fun o => o.err.isNone)) = true := by decide
example : ((execAll Impl.original Fs.empty demoHistory).2.all (fun o => o.err.isNone)) = true := by decide
example : let fs := (execAll Impl.repaired Fs.empty demoHistory).1
    generationsOf fs 0 2 = [2, 1] ∧ generationsOf fs 0 3 = [1] ∧ releasesOf fs 0 = [3, 2] ∧ releasesOf fs 1 = [1]
    ∧ tagOf fs 0 3 1 = some ⟨2, [1, 2]⟩ ∧ vis fs (stateP 0 3 1 2) = some (.file [5, 6]) ∧ nextGen fs 0 2 = 3
    ∧ WF fs ∧ get fs (projectP 0) ≠ none ∧ get fs (releaseP 0 2) ≠ none ∧ get fs (tagP 0 2 3) = none := by decide
example : (exec Impl.original (execAll Impl.original Fs.empty demoHistory).1 (.publish 0 0 2 (.file [1]))).err
    = some .invalid := by decide
example : (exec Impl.repaired Fs.empty (.publish 2 0 1 (.file [1]))).err = some .mismatch := by decide
/-- the crash-recovery history: the killed publish left a temporary tree that the retry removes (`rmtree`), the killed
training left generation directory 2 with one moved state and no tag, the retry reuses number 2; the refused publish
(version 1 < 2) changes nothing -/
example : let fs := play Impl.repaired Fs.empty demoEvents
    generationsOf fs 0 2 = [2, 1] ∧ releasesOf fs 0 = [3, 2] ∧ releasesOf fs 1 = [1]
    ∧ tagOf fs 0 2 2 = some ⟨3, [3, 4]⟩ ∧ vis fs (stateP 0 2 2 4) = some (.file [8])
    ∧ vis fs (stateP 0 2 2 1) = none ∧ get fs (stateP 0 2 2 1) = some (.file [4])
    ∧ vis fs (packageP 1 1 ++ [.member 1]) = some (.file [8, 8]) := by decide
example : let fs := play Impl.repaired Fs.empty (demoEvents.take 2)
    get fs (packageTmpP 1 1) = some .dir ∧ get fs (packageTmpP 1 1 ++ [.member 1]) = some (.file [8])
    ∧ releasesOf fs 1 = [] := by decide
example : ((exec Impl.repaired (play Impl.repaired Fs.empty (demoEvents.take 2))
    (.publish 1 1 1 (.dir [(0, [9]), (1, [8, 8])]))).calls.head?.bind List.head?)
    = some (.rmtree (packageTmpP 1 1)) := by decide

/-- non-vacuity of the fault model: a transient error at the copy of the first member of a tree publish — `copytree` still
copies the second member and raises before the rename: nothing is listed; the retry (another build of that version)
removes the left-over and publishes exactly its own members -/
example : let fs := faultIn Impl.repaired Fs.empty (.publish 0 0 1 (.dir [(0, [9]), (1, [8, 8])])) 3
    get fs (packageTmpP 0 1 ++ [.member 1]) = some (.file [8, 8]) ∧ get fs (packageTmpP 0 1 ++ [.member 0]) = none
    ∧ get fs (packageP 0 1) = none ∧ releasesOf fs 0 = []
    ∧ (let fs' := play Impl.repaired fs [.step (.publish 0 0 1 (.dir [(0, [7]), (2, [6])]))]
       releasesOf fs' 0 = [1] ∧ vis fs' (packageP 0 1 ++ [.member 1]) = none
       ∧ vis fs' (packageP 0 1 ++ [.member 2]) = some (.file [6])) := by decide +kernel
/-- a fault in the second move of a commit = the process death there; the retry by the same (living) process re-uses the
number -/
example : let evs := [Ev.step (.publish 0 0 1 (.file [1])), .step (.train 0 1 1 [(0, [1])]),
      .fault (.train 0 1 2 [(1, [2]), (2, [3])]) 6, .step (.train 0 1 3 [(3, [2]), (4, [3])])]
    generationsOf (play Impl.repaired Fs.empty evs) 0 1 = [2, 1]
    ∧ tagOf (play Impl.repaired Fs.empty evs) 0 1 2 = some ⟨3, [3, 4]⟩
    ∧ generationsOf (play Impl.repaired Fs.empty (evs.take 3)) 0 1 = [1] := by decide +kernel

/-! ## Part 3 — several writers: handles in processes (`Impl.repaired`)

`evs` ranges over *all* lists of handle events: any number of handles (each bound to a project and an explicit or
implicit release / generation key, each in some process), opened at any time and used for any number of operations —
publishes, `begin` / `dump` / `commit` of trainings whose registry calls interleave arbitrarily with those of the other
handles, reads — each operation run to its end or with its process killed at any micro-operation.  What a handle
remembers (`Level._key` of an implicit key) and what its process has cached (TAGS) is part of the state. -/

/-- the world after an interleaved history -/
abbrev worldAfter (evs : List HEv) : World := playH Impl.repaired World.empty evs

/-- **C05_handles_never_corrupt**: after any interleaved history of any number of writers — in particular right after
any process death — every generation a fresh reader lists has a tag that decodes and every state it names is there. -/
theorem C05_handles_never_corrupt (evs : List HEv) (p v g : Nat)
    (h : genListed (worldAfter evs).fs p v g = true) :
    ∃ t, tagOf (worldAfter evs).fs p v g = some t
      ∧ ∀ s ∈ t.sids, ∃ b, vis (worldAfter evs).fs (stateP p v g s) = some (.file b) := by
  have hv : genValid (worldAfter evs).fs p v g = true := by
    simp only [genListed, Bool.and_eq_true] at h; exact h.2
  obtain ⟨t, ht, hs⟩ := (playH_good2 evs).good.healthy p v g hv
  refine ⟨t, ht, fun s hsin => ?_⟩
  obtain ⟨b, hb⟩ := hs s hsin
  have hc : t.sids.contains s = true := by simp only [List.contains_iff_mem]; exact hsin
  exact ⟨b, by simp only [vis, stateP, h, ht, hc, Bool.and_self, if_true]; exact hb⟩

/-- **C05_handles_gap_free**: after any interleaved history the generations of every release are exactly `1 .. n`. -/
theorem C05_handles_gap_free (evs : List HEv) (p v g : Nat)
    (h : g ∈ generationsOf (worldAfter evs).fs p v) :
    1 ≤ g ∧ ∀ g', 1 ≤ g' → g' ≤ g → g' ∈ generationsOf (worldAfter evs).fs p v := by
  rw [mem_generationsOf] at h
  refine ⟨?_, fun g' h1 h2 => ?_⟩
  · simp only [genValid, Bool.and_eq_true, decide_eq_true_eq] at h; exact h.1.1
  · rw [mem_generationsOf]; exact (playH_good2 evs).good.gapfree p v g h g' h1 h2

/-- **C05_handles_crash_consistent**: after any interleaved history, whatever the next event — any operation through
any handle (long-lived, with whatever it has memoised, or fresh), run to its end, raising, or with its process killed
after any number of micro-operations / inside a write, or made to raise by a transient I/O fault at any of them — a fresh
reader sees exactly the previous content, or the operation has completed without error and the reader sees its complete
result. -/
theorem C05_handles_crash_consistent (evs : List HEv) (e : HEv) :
    let w := worldAfter evs
    ViewEq (applyH Impl.repaired w e).fs w.fs
      ∨ ∃ h op, (e = .run h op ∨ (∃ k cut, e = .die h op k cut) ∨ ∃ j, e = .fault h op j)
          ∧ (perform Impl.repaired w h op).err = none
          ∧ (applyH Impl.repaired w e).fs = (perform Impl.repaired w h op).w.fs := by
  intro w
  have g2 : Good2 w.fs := playH_good2 evs
  have key : ∀ h op x, LeftByActF w.fs (actOf w h op) x →
      ViewEq x w.fs ∨ ((perform Impl.repaired w h op).err = none ∧ x = (perform Impl.repaired w h op).w.fs) := by
    intro h op x hl
    rcases (act_left_F w.fs g2 _ (actOf_ok w h op) x hl).2 with hv | ⟨he, hx⟩
    · exact Or.inl hv
    · cases hpe : (perform Impl.repaired w h op).err with
      | none => exact Or.inr ⟨rfl, by rw [hx, (perform_act w h op).1]⟩
      | some e' =>
        rcases perform_fail w h op (by rw [hpe]; simp) with hne | hidle
        · exact absurd he hne
        · left
          rw [hidle] at hx; simp only [runAct] at hx; rw [hx]; exact ViewEq.refl _
  cases e with
  | run h op =>
    rcases key h op _ (Or.inl (Or.inl (perform_act w h op).1)) with hv | ⟨he, hx⟩
    · exact Or.inl hv
    · exact Or.inr ⟨h, op, Or.inl rfl, he, hx⟩
  | fault h op j =>
    cases hl : lookupH w.hs h with
    | none => left; simp only [applyH, hl]; exact ViewEq.refl _
    | some x =>
      have hfs : (applyH Impl.repaired w (.fault h op j)).fs = faultTree w.fs (actOf w h op) j := by
        simp only [applyH, hl, faultTree, (perform_act w h op).2]
      rcases key h op _ (Or.inr ⟨j, hfs⟩) with hv | ⟨he, hx⟩
      · exact Or.inl hv
      · exact Or.inr ⟨h, op, Or.inr (Or.inr ⟨j, rfl⟩), he, hx⟩
  | die h op k cut =>
    cases hl : lookupH w.hs h with
    | none => left; simp only [applyH, hl]; exact ViewEq.refl _
    | some x =>
      have hfs : (applyH Impl.repaired w (.die h op k cut)).fs
          = (runSome w.fs (crashOps (atomsAll (runAct Impl.repaired w.fs (actOf w h op)).calls.flatten) k cut)).1 := by
        simp only [applyH, hl, killProc_fs, (perform_act w h op).2]
      rcases key h op _ (Or.inl (Or.inr ⟨k, cut, hfs⟩)) with hv | ⟨he, hx⟩
      · exact Or.inl hv
      · exact Or.inr ⟨h, op, Or.inr (Or.inl ⟨k, cut, rfl⟩), he, hx⟩

/-- **C05_handles_fault**: in any interleaved history an operation through any handle that a transient I/O fault makes
raise leaves — outside a publish — exactly the tree the death of its process at that point would have left, but the
process, its handles (keys stay resolved, nothing is added to the dumps) and its caches live on; the handle table changes
at that handle only. -/
theorem C05_handles_fault (evs : List HEv) (h : Nat) (op : HOp) (j : Nat) (x : Handle)
    (hl : lookupH (worldAfter evs).hs h = some x) (hnp : ∀ name v pkg, op ≠ .publish name v pkg) :
    let w := worldAfter evs
    (applyH Impl.repaired w (.fault h op j)).fs = (applyH Impl.repaired w (.die h op j none)).fs
    ∧ (applyH Impl.repaired w (.fault h op j)).hs = setH w.hs h (faultHandle w.fs x op)
    ∧ (applyH Impl.repaired w (.fault h op j)).tags = w.tags := by
  intro w
  have hl' : lookupH w.hs h = some x := hl
  refine ⟨?_, by simp only [applyH, hl'], by simp only [applyH, hl']⟩
  simp only [applyH, hl', killProc_fs]
  have hne : ∀ dp name v pkg, actOf w h op ≠ .publish dp name v pkg := by
    intro dp name v pkg e'
    rcases actOf_shape w h op with h1 | ⟨_, name', v', pkg', _, h1⟩ | ⟨_, _, _, _, _, _, h1, _⟩ | ⟨_, _, _, _, _, h1, _⟩
    · rw [h1] at e'; cases e'
    · cases op with
      | publish n2 v2 p2 => exact hnp n2 v2 p2 rfl
      | «open» a b c d => simp [actOf] at h1
      | look => simp [actOf] at h1
      | begin a b =>
        rw [actOf_general w h _ (by intros; simp) (by simp), hl'] at h1
        simp [plan] at h1
      | dump a b =>
        rw [actOf_general w h _ (by intros; simp) (by simp), hl'] at h1
        dsimp only at h1
        cases hpe : (plan w.fs x (.dump a b)).err with
        | some e0 => simp [hpe] at h1
        | none =>
          obtain ⟨v0, _, hact⟩ := plan_dump_ok w.fs x a b hpe
          simp [hpe, hact] at h1
      | commit =>
        rw [actOf_general w h _ (by intros; simp) (by simp), hl'] at h1
        dsimp only at h1
        cases hpe : (plan w.fs x .commit).err with
        | some e0 => simp [hpe] at h1
        | none =>
          obtain ⟨o0, v0, _, _, hact⟩ := plan_commit_ok w.fs x hpe
          simp [hpe, hact] at h1
    · rw [h1] at e'; cases e'
    · rw [h1] at e'; cases e'
  have := faultTree_crash w.fs (actOf w h op) j hne
  simp only [faultTree] at this
  rw [← (perform_act w h op).2] at this
  exact this

/-- **C05_handles_commit**: after any interleaved history, a successful commit through ANY handle — long-lived or
fresh, whatever it has memoised, whoever committed since it was opened or since its states were dumped — (i) addresses a
listed release `v` of the handle's project, (ii) adds generation `nextGen` OF THE TREE AT COMMIT TIME — 1 for an empty
listing, else above every generation on disk with the number below listed, i.e. (with `C05_handles_gap_free`) one above
the highest existing one —, listed, (iii) tagged with the accessor's ordinal and exactly the state ids dumped through the
handle since `begin`, in order, as many as there are nodes, pairwise distinct, (iv) each state holding the bytes staged
under its id, and (v) every path outside that generation directory — every other generation, tag, state, package — looks
to a fresh reader byte-for-byte as before. -/
theorem C05_handles_commit (evs : List HEv) (h : Nat)
    (hok : (perform Impl.repaired (worldAfter evs) h .commit).err = none) :
    let w := worldAfter evs
    let fs' := (perform Impl.repaired w h .commit).w.fs
    ∃ x ord v, lookupH w.hs h = some x ∧ x.acc = some (ord, x.sids.length) ∧ (resolveRel w.fs x).2 = .ok v
      ∧ relListed w.fs x.proj v = true
      ∧ ((generationsOf w.fs x.proj v = [] → nextGen w.fs x.proj v = 1)
          ∧ (∀ g ∈ generationsOf w.fs x.proj v, g < nextGen w.fs x.proj v)
          ∧ (generationsOf w.fs x.proj v ≠ [] → nextGen w.fs x.proj v - 1 ∈ generationsOf w.fs x.proj v))
      ∧ genListed fs' x.proj v (nextGen w.fs x.proj v) = true
      ∧ tagOf fs' x.proj v (nextGen w.fs x.proj v) = some ⟨ord, x.sids⟩
      ∧ x.sids.Nodup
      ∧ (∀ s ∈ x.sids, ∃ b, get w.fs (stagedStateP x.proj v s) = some (.file b)
          ∧ vis fs' (stateP x.proj v (nextGen w.fs x.proj v) s) = some (.file b))
      ∧ (∀ key, ¬ (generationP x.proj v (nextGen w.fs x.proj v) <+: key) → vis fs' key = vis w.fs key) := by
  intro w fs'
  obtain ⟨x, hl, hpe, hrun, hfs⟩ := perform_ok_plan w h .commit (by intros; simp) (by simp) hok
  obtain ⟨ord, v, hacc, hres, hact⟩ := plan_commit_ok w.fs x hpe
  have hlst := (resolveRel_ok w.fs x v hres).1
  rw [hact] at hrun hfs
  obtain ⟨c1, c2, c3, c4, c5⟩ := close_ok w.fs (playH_good2 evs) x.proj v ord x.sids hlst hrun
  refine ⟨x, ord, v, hl, hacc, hres, hlst, nextGen_spec _ _ _, ?_, ?_, c3, ?_, ?_⟩
  · show genListed fs' _ _ _ = true; rw [show fs' = _ from hfs]; exact c1
  · show tagOf fs' _ _ _ = _; rw [show fs' = _ from hfs]; exact c2
  · intro s hs; rw [show fs' = _ from hfs]; exact c4 s hs
  · intro key hk; rw [show fs' = _ from hfs]; exact c5 key hk

/-- **C05_handles_dump**: a successful dump through any handle stages exactly the given bytes under the drawn id in the
stage directory of a listed release, leaves every other staged state alone, and changes nothing a reader can see
(nothing at all outside that stage directory). -/
theorem C05_handles_dump (evs : List HEv) (h sid : Nat) (b : Bytes)
    (hok : (perform Impl.repaired (worldAfter evs) h (.dump sid b)).err = none) :
    let w := worldAfter evs
    let fs' := (perform Impl.repaired w h (.dump sid b)).w.fs
    ∃ x v, lookupH w.hs h = some x ∧ (resolveRel w.fs x).2 = .ok v ∧ relListed w.fs x.proj v = true
      ∧ get fs' (stagedStateP x.proj v sid) = some (.file b)
      ∧ (∀ s, s ≠ sid → get fs' (stagedStateP x.proj v s) = get w.fs (stagedStateP x.proj v s))
      ∧ ViewEq fs' w.fs
      ∧ (∀ key, ¬ (stageP x.proj v <+: key) → get fs' key = get w.fs key) := by
  intro w fs'
  obtain ⟨x, hl, hpe, hrun, hfs⟩ := perform_ok_plan w h (.dump sid b) (by intros; simp) (by simp) hok
  obtain ⟨v, hres, hact⟩ := plan_dump_ok w.fs x sid b hpe
  have hlst := (resolveRel_ok w.fs x v hres).1
  rw [hact] at hrun hfs
  obtain ⟨d1, d2⟩ := write_ok w.fs x.proj v sid b hrun
  have htree := leftByAct_tree w.fs [fun f => writeOps f x.proj v sid b] _
    (Or.inl (rfl : (runAct Impl.repaired w.fs (.write x.proj v sid b)).fs = _))
  obtain ⟨_, hview, hframe⟩ := write_left w.fs _ (playH_good2 evs) x.proj v sid b hlst htree
  refine ⟨x, v, hl, hres, hlst, ?_, ?_, ?_, ?_⟩
  · rw [show fs' = _ from hfs]; exact d1
  · intro s hs; rw [show fs' = _ from hfs]; exact d2 s hs
  · rw [show fs' = _ from hfs]; exact hview
  · intro key hk; rw [show fs' = _ from hfs]; exact hframe key hk

/-- **C05_handles_publish**: a successful publish through any (long-lived) project handle: the package's name is the
handle's project, its version is above every release of that project ON DISK at that moment, the release is listed with
that package, and every path outside the new release directory looks as before. -/
theorem C05_handles_publish (evs : List HEv) (h name v : Nat) (pkg : Pkg)
    (hok : (perform Impl.repaired (worldAfter evs) h (.publish name v pkg)).err = none) :
    let w := worldAfter evs
    let fs' := (perform Impl.repaired w h (.publish name v pkg)).w.fs
    ∃ x, lookupH w.hs h = some x ∧ x.proj = name ∧ (∀ u ∈ releasesOf w.fs name, u < v)
      ∧ relListed fs' name v = true
      ∧ pkg.placedAs (vis fs' (packageP name v))
      ∧ (∀ key, ¬ (releaseP name v <+: key) → vis fs' key = vis w.fs key) := by
  intro w fs'
  obtain ⟨x, hl, _, hrun, hfs⟩ := perform_ok_plan w h (.publish name v pkg) (by intros; simp) (by simp) hok
  have hact : (plan w.fs x (.publish name v pkg)).act = .publish x.proj name v pkg := rfl
  rw [hact] at hrun hfs
  obtain ⟨p1, p2, p3, p4, _, p6⟩ := publish_ok w.fs (playH_good2 evs).good x.proj name v pkg hrun
  refine ⟨x, hl, p1, p2, ?_, ?_, ?_⟩
  · rw [show fs' = _ from hfs]; exact p3
  · rw [show fs' = _ from hfs]; exact p4
  · intro key hk; rw [show fs' = _ from hfs]; exact p6 key hk

/-- **C05_handles_append_only**: whatever a fresh reader can see after an interleaved history it sees byte-identical
after any continuation — operations of old and new handles, process deaths at any point. -/
theorem C05_handles_append_only (evs evs' : List HEv) (key : Path) (n : Node)
    (h : vis (worldAfter evs).fs key = some n) : vis (worldAfter (evs ++ evs')).fs key = some n := by
  show vis (playH Impl.repaired World.empty (evs ++ evs')).fs key = some n
  rw [playH_append]
  have g2 := playH_good2 evs
  have h' : vis (playH Impl.repaired World.empty evs).fs key = some n := h
  generalize playH Impl.repaired World.empty evs = w at h' g2
  induction evs' generalizing w with
  | nil => exact h'
  | cons e r ih =>
    simp only [playH]
    exact ih _ (applyH_append_only w g2 e key n h') (applyH_good2 w g2 e)

/-- **C05_handles_cache_coherent**: after any interleaved history every tag any process holds in its (never
invalidated) TAGS cache is the tag a fresh reader reads for that — still listed — generation. -/
theorem C05_handles_cache_coherent (evs : List HEv) :
    ∀ e ∈ (worldAfter evs).tags, genListed (worldAfter evs).fs e.2.1.1 e.2.1.2.1 e.2.1.2.2 = true
      ∧ tagOf (worldAfter evs).fs e.2.1.1 e.2.1.2.1 e.2.1.2.2 = some e.2.2 := by
  intro e he
  obtain ⟨b, hb, hd⟩ := playH_tagsOk evs e he
  exact tagOf_of_vis _ _ _ _ b _ hb hd

/-- **C05_handles_look**: what a handle reads (`Instance.tag`) — cached or not, however long the handle and its process
have lived — is the tag a fresh reader reads for the generation the handle is bound to (explicit, remembered, or the
latest at this moment), a listed generation of a listed release. -/
theorem C05_handles_look (evs : List HEv) (h : Nat) (t : Tag)
    (hlook : (perform Impl.repaired (worldAfter evs) h .look).look = some (some t)) :
    let w := worldAfter evs
    ∃ x v g, lookupH w.hs h = some x ∧ (resolveRel w.fs x).2 = .ok v
      ∧ (resolveGen w.fs x.proj v (resolveRel w.fs x).1).2 = .ok (some g)
      ∧ genListed w.fs x.proj v g = true ∧ tagOf w.fs x.proj v g = some t := by
  intro w
  simp only [perform] at hlook
  cases hl : lookupH w.hs h with
  | none => rw [hl] at hlook; simp at hlook
  | some x =>
    rw [hl] at hlook
    simp only at hlook
    rw [(lookOn_eq w h x).2.2.2.2.2] at hlook
    obtain ⟨v, g, _, h1, h2, h3, h4⟩ := lookTag_sound w (playH_tagsOk evs) h x t hlook
    exact ⟨x, v, g, rfl, h1, h2, h3, h4⟩

/-- **C05_handles_states_coherent**: after any interleaved history every state any process holds in its (never
invalidated) STATES cache is the state a fresh reader reads. -/
theorem C05_handles_states_coherent (evs : List HEv) :
    ∀ e ∈ (worldAfter evs).states,
      vis (worldAfter evs).fs (stateP e.2.1.1 e.2.1.2.1 e.2.1.2.2.1 e.2.1.2.2.2) = some (.file e.2.2) :=
  playH_statesOk evs

/-- **C05_handles_read_states**: the states a handle loads after the tag (`State.load` → `Generation.get` through the
STATES cache) are, in the tag's order, exactly the bytes a fresh reader reads for the generation the handle is bound to —
each of them a visible file. -/
theorem C05_handles_read_states (evs : List HEv) (h : Nat) (t : Tag)
    (hlook : (perform Impl.repaired (worldAfter evs) h .look).look = some (some t)) :
    let w := worldAfter evs
    ∃ x v g, lookupH w.hs h = some x ∧ boundGen w.fs x = some (v, g) ∧ tagOf w.fs x.proj v g = some t
      ∧ lookStates w h = t.sids.map (fun s => visBytes w.fs (stateP x.proj v g s))
      ∧ ∀ s ∈ t.sids, ∃ b, vis w.fs (stateP x.proj v g s) = some (.file b) := by
  intro w
  simp only [perform] at hlook
  cases hl : lookupH w.hs h with
  | none => rw [hl] at hlook; simp at hlook
  | some x =>
    rw [hl] at hlook
    simp only at hlook
    rw [(lookOn_eq w h x).2.2.2.2.2] at hlook
    obtain ⟨v, g, hb, _, _, hgl, htag⟩ := lookTag_sound w (playH_tagsOk evs) h x t hlook
    have hst := listed_states w.fs (playH_good2 evs).good x.proj v g t hgl htag
    refine ⟨x, v, g, rfl, hb, htag, ?_, fun s hs => (hst s hs).imp fun b hb' => hb'.1⟩
    simp only [lookStates, hl, hlook, hb]
    exact (readStates_ok w.fs x.proc x.proj v g t.sids w.states hst (playH_statesOk evs)).2

/-- **C05_handles_dumps_stay_staged**: along any interleaved history in which every dump draws a fresh state id (uuid4),
for every handle with a training in progress — states dumped since `begin`, not yet committed — every dumped state is
still staged, byte for byte, in the stage directory of the release the handle is bound to: whatever the other handles
did in between (dumps, commits, publishes, process deaths at any point). -/
theorem C05_handles_dumps_stay_staged (evs : List HEv) (nd : (dumpSids evs).Nodup) (h : Nat) (x : Handle)
    (hl : lookupH (worldAfter evs).hs h = some x) (hd : x.done = false) :
    ∀ sb ∈ x.dumped, ∃ v, x.rel = some v
      ∧ get (worldAfter evs).fs (stagedStateP x.proj v sb.1) = some (.file sb.2) :=
  (playH_owed evs nd).staged (h, x) (lookupH_mem _ _ _ hl) hd

/-- **C05_handles_training**: in any interleaved history with fresh state ids, the first successful commit after `begin`
through a handle adds — as generation `nextGen` of what is on disk at commit time (`C05_handles_commit`) — a generation
tagged with exactly the ids of the states dumped through THAT handle since `begin`, in dump (= actor) order, each state
holding exactly the bytes handed to that dump: no state of another writer, nothing lost, whatever interleaved. -/
theorem C05_handles_training (evs : List HEv) (nd : (dumpSids evs).Nodup) (h : Nat) (x : Handle)
    (hl : lookupH (worldAfter evs).hs h = some x) (hd : x.done = false)
    (hok : (perform Impl.repaired (worldAfter evs) h .commit).err = none) :
    let w := worldAfter evs
    let fs' := (perform Impl.repaired w h .commit).w.fs
    ∃ ord v, x.acc = some (ord, x.dumped.length) ∧ (resolveRel w.fs x).2 = .ok v
      ∧ genListed fs' x.proj v (nextGen w.fs x.proj v) = true
      ∧ tagOf fs' x.proj v (nextGen w.fs x.proj v) = some ⟨ord, x.dumped.map (·.1)⟩
      ∧ ∀ sb ∈ x.dumped, vis fs' (stateP x.proj v (nextGen w.fs x.proj v) sb.1) = some (.file sb.2) := by
  intro w fs'
  obtain ⟨x0, ord, v, hl0, hacc, hres, _, _, hgl, htag, _, hst, _⟩ := C05_handles_commit evs h hok
  have hx : x0 = x := by
    have : lookupH w.hs h = some x := hl
    rw [hl0] at this; cases this; rfl
  subst hx
  refine ⟨ord, v, by simpa [Handle.sids] using hacc, hres, hgl, htag, ?_⟩
  intro sb hsb
  obtain ⟨b, hb, hvis⟩ := hst sb.1 (mem_sids _ _ hsb)
  obtain ⟨v', hv', hg⟩ := C05_handles_dumps_stay_staged evs nd h x0 hl hd sb hsb
  have hvv : v = v' := resolveRel_same w.fs x0 v' v hv' hres
  subst hvv
  have : (Node.file b) = .file sb.2 := by
    have h1 : get w.fs (stagedStateP x0.proj v sb.1) = some (.file b) := hb
    rw [hg] at h1; cases h1; rfl
  rw [hvis, this]

/-- **C05_handles_generalise_train**: the handle model contains the single-writer model of Part 2 — a training step
`exec … (.train p v ord sts)` that succeeds on the shared tree of ANY world leaves exactly the tree that a fresh handle on
release `p/v` (in any process) leaves with `open`, `begin`, one `dump` per state and `commit`, run back to back. -/
theorem C05_handles_generalise_train (evs : List HEv) (h proc p v ord : Nat) (sts : List (Nat × Bytes))
    (hok : (exec Impl.repaired (worldAfter evs).fs (.train p v ord sts)).err = none) :
    (worldAfter (evs ++ .run h (.open proc p (some v) none) :: trainEvents h ord sts)).fs
      = (exec Impl.repaired (worldAfter evs).fs (.train p v ord sts)).fs := by
  show (playH Impl.repaired World.empty (evs ++ _)).fs = _
  rw [playH_append]
  exact train_simulates _ h proc p v ord sts hok

/-- **C05_handles_generalise_publish**: … and a publish through a handle of project `dp` is the publish step of Part 2
through project key `dp` — same tree, same refusals. -/
theorem C05_handles_generalise_publish (evs : List HEv) (h : Nat) (x : Handle) (name v : Nat) (pkg : Pkg)
    (hl : lookupH (worldAfter evs).hs h = some x) :
    let o := perform Impl.repaired (worldAfter evs) h (.publish name v pkg)
    let o' := exec Impl.repaired (worldAfter evs).fs (.publish x.proj name v pkg)
    o.w.fs = o'.fs ∧ o.calls = o'.calls ∧ (o.err = none ↔ o'.err = none) := by
  intro o o'
  have hperf := perform_general (worldAfter evs) h (.publish name v pkg) (by intros; simp) (by simp)
  rw [hl] at hperf
  have hplan : plan (worldAfter evs).fs x (.publish name v pkg) = ⟨x, .publish x.proj name v pkg, none⟩ := rfl
  simp only [hplan] at hperf
  refine ⟨by show (perform _ _ _ _).w.fs = _; rw [hperf]; rfl, by show (perform _ _ _ _).calls = _; rw [hperf]; rfl, ?_⟩
  show (perform _ _ _ _).err = none ↔ _
  rw [hperf]
  exact actErr_none _ _ _

/-! ### non-vacuity: a long-lived writer and writers that come and go, an interleaved training, a process death -/

/-- handle 0 publishes `0/1`; the long-lived handle 1 (process 1, implicit release) trains; handle 2 (process 2) trains;
handle 1 dumps its first state, handle 2 trains again in between, handle 1 dumps its second state and commits (number 4
= one above what is on disk AT THAT MOMENT); handle 3 dies after the first of two moves of its commit; handle 1, still
alive and bound to release 1 although release 2 was published meanwhile, commits once more and re-uses number 5 -/
def demoHandles : List HEv :=
  [.run 0 (.open 0 0 none none), .run 0 (.publish 0 1 (.file [7])),
   .run 1 (.open 1 0 none none), .run 1 (.begin 1 1), .run 1 (.dump 10 [1]), .run 1 .commit,
   .run 2 (.open 2 0 (some 1) none), .run 2 (.begin 2 1), .run 2 (.dump 20 [2]), .run 2 .commit,
   .run 1 (.begin 3 2), .run 1 (.dump 11 [3]),
   .run 2 (.begin 4 0), .run 2 .commit,
   .run 1 (.dump 12 [4, 4]), .run 1 .commit, .run 1 .look,
   .run 0 (.publish 0 2 (.file [8])),
   .run 3 (.open 3 0 (some 1) none), .run 3 (.begin 5 2), .run 3 (.dump 30 [5]), .run 3 (.dump 31 [6]),
   .die 3 .commit 2 none, .run 3 .look,
   .run 1 (.begin 6 1), .run 1 (.dump 13 [9]), .run 1 .commit]

example : let w := worldAfter demoHandles
    generationsOf w.fs 0 1 = [5, 4, 3, 2, 1] ∧ generationsOf w.fs 0 2 = []
    ∧ tagOf w.fs 0 1 4 = some ⟨3, [11, 12]⟩ ∧ vis w.fs (stateP 0 1 4 12) = some (.file [4, 4])
    ∧ tagOf w.fs 0 1 5 = some ⟨6, [13]⟩ ∧ get w.fs (stateP 0 1 5 30) = some (.file [5]) ∧ vis w.fs (stateP 0 1 5 30) = none
    ∧ (lookupH w.hs 1).map (·.rel) = some (some 1) ∧ (lookupH w.hs 1).map (·.gen) = some (some 4)
    ∧ lookupH w.hs 3 = none ∧ w.tags = [(1, (0, 1, 4), ⟨3, [11, 12]⟩)] := by decide +kernel

example : (perform Impl.repaired (worldAfter (demoHandles.take 15)) 1 .commit).err = none := by decide +kernel
/-- the hypotheses of `C05_handles_training` hold there: fresh ids, handle 1 has dumped two states and not committed -/
example : (dumpSids demoHandles).Nodup ∧ (dumpSids (demoHandles.take 15)).Nodup
    ∧ (lookupH (worldAfter (demoHandles.take 15)).hs 1).map (fun x => (x.dumped, x.done))
        = some ([(11, [3]), (12, [4, 4])], false) := by decide +kernel
example : (perform Impl.repaired (worldAfter (demoHandles.take 23)) 3 .look).err = some .dead := by decide +kernel
/-- a transient fault in the commit of handle 1 (after the first move): it raises, the handle lives on; another commit of it
finds the first state gone (`Level.Invalid`), a new `begin … commit` works and takes the number -/
example : let w := applyH Impl.repaired (worldAfter (demoHandles.take 15)) (.fault 1 .commit 2)
    generationsOf w.fs 0 1 = [3, 2, 1] ∧ (lookupH w.hs 1).map (·.done) = some true
    ∧ (perform Impl.repaired w 1 .commit).err = some .invalid
    ∧ generationsOf (playH Impl.repaired w [.run 1 (.begin 9 1), .run 1 (.dump 77 [1]), .run 1 .commit]).fs 0 1
        = [4, 3, 2, 1] := by decide +kernel
/-- a second commit of the same accessor finds nothing staged (`Level.Invalid`) after creating the generation directory -/
example : let o := perform Impl.repaired (worldAfter demoHandles) 1 .commit
    o.err = some .invalid ∧ get o.w.fs (generationP 0 1 6) = some .dir ∧ generationsOf o.w.fs 0 1 = [5, 4, 3, 2, 1] := by
  decide +kernel

/-! ## Part 4 — the volatile registry (`Impl.repaired`)

`volatile.Registry` keeps projects and releases in memory and inherits `write` / `close` / `generations` from the posix
registry on a temporary directory in which project and release directories appear only with the first dump or commit.
`steps` ranges over all lists of publishes and trainings with arbitrary arguments; a call may raise half-way (there is
no process death to survive: the registry is gone with its process). -/

/-- the volatile registry after a history -/
abbrev volatileAfter (steps : List Step) : VReg := vPlay Impl.repaired VReg.empty steps

/-- **C05_volatile_never_corrupt**: every generation a reader of the volatile registry lists has a tag that decodes and
every state it names is there to be read. -/
theorem C05_volatile_never_corrupt (steps : List Step) (p v g : Nat)
    (h : vGenListed (volatileAfter steps) p v g = true) :
    ∃ t, tagOf (volatileAfter steps).fs p v g = some t
      ∧ ∀ s ∈ t.sids, ∃ b, vVis (volatileAfter steps) (stateP p v g s) = some (.file b) := by
  have hv : genValid (volatileAfter steps).fs p v g = true := by
    simp only [vGenListed, Bool.and_eq_true] at h; exact h.2
  obtain ⟨t, ht, hs⟩ := (vPlay_good steps).g2.good.healthy p v g hv
  refine ⟨t, ht, fun s hsin => ?_⟩
  obtain ⟨b, hb⟩ := hs s hsin
  have hc : t.sids.contains s = true := by simp only [List.contains_iff_mem]; exact hsin
  exact ⟨b, by simp only [vVis, stateP, h, ht, hc, Bool.and_self, if_true]; exact hb⟩

/-- **C05_volatile_gap_free**: the generations of every release of the volatile registry are exactly `1 .. n`, and a
tagged generation directory exists only under a listed release. -/
theorem C05_volatile_gap_free (steps : List Step) (p v g : Nat)
    (h : g ∈ generationsOf (volatileAfter steps).fs p v) :
    vRelListed (volatileAfter steps) p v = true ∧ 1 ≤ g
      ∧ ∀ g', 1 ≤ g' → g' ≤ g → g' ∈ generationsOf (volatileAfter steps).fs p v := by
  rw [mem_generationsOf] at h
  refine ⟨(vPlay_good steps).listed p v g h, ?_, fun g' h1 h2 => ?_⟩
  · simp only [genValid, Bool.and_eq_true, decide_eq_true_eq] at h; exact h.1.1
  · rw [mem_generationsOf]; exact (vPlay_good steps).g2.good.gapfree p v g h g' h1 h2

/-- **C05_volatile_failed_step_invisible**: a step that raises — refused by a guard, or a registry call failing
half-way (directories created, states moved) — changes nothing a reader of the volatile registry can see. -/
theorem C05_volatile_failed_step_invisible (steps : List Step) (s : Step)
    (h : (vExec Impl.repaired (volatileAfter steps) s).err ≠ none) :
    VViewEq (vExec Impl.repaired (volatileAfter steps) s).st (volatileAfter steps)
      ∧ (vExec Impl.repaired (volatileAfter steps) s).st.arts = (volatileAfter steps).arts :=
  (vExec_view _ (vPlay_good steps) s).1 h

/-- **C05_volatile_train**: a successful training on the volatile registry: the release is listed; generation
`nextGen` (1, or one above every listed one with the number below listed) appears, listed, tagged with the run's ordinal
and state ids in order, each state holding the run's bytes; the in-memory listing is unchanged and every path outside
that generation looks as before. -/
theorem C05_volatile_train (steps : List Step) (p v ord : Nat) (sts : List (Nat × Bytes))
    (h : (vExec Impl.repaired (volatileAfter steps) (.train p v ord sts)).err = none) :
    let st := volatileAfter steps
    let st' := (vExec Impl.repaired st (.train p v ord sts)).st
    vRelListed st p v = true ∧ st'.arts = st.arts
    ∧ ((generationsOf st.fs p v = [] → nextGen st.fs p v = 1)
        ∧ (∀ g ∈ generationsOf st.fs p v, g < nextGen st.fs p v)
        ∧ (generationsOf st.fs p v ≠ [] → nextGen st.fs p v - 1 ∈ generationsOf st.fs p v))
    ∧ vGenListed st' p v (nextGen st.fs p v) = true
    ∧ tagOf st'.fs p v (nextGen st.fs p v) = some ⟨ord, sts.map (·.1)⟩
    ∧ (sts.map (·.1)).Nodup
    ∧ (∀ sb ∈ sts, vVis st' (stateP p v (nextGen st.fs p v) sb.1) = some (.file sb.2))
    ∧ (∀ key, ¬ (generationP p v (nextGen st.fs p v) <+: key) → vVis st' key = vVis st key) := by
  intro st st'
  obtain ⟨h1, h2, h3, h4, h5, h6, h7⟩ := (vExec_view st (vPlay_good steps) (.train p v ord sts)).2 h
  exact ⟨h1, h2, nextGen_spec _ _ _, h3, h4, h5, h6, h7⟩

/-- **C05_volatile_publish**: a successful publish on the volatile registry: the package's name is the project key it
was put through, its version is above every listed release of that project, the release becomes listed — with no
generation —, the temporary directory is untouched and nothing else a reader can see changes. -/
theorem C05_volatile_publish (steps : List Step) (dp name v : Nat) (pkg : Pkg)
    (h : (vExec Impl.repaired (volatileAfter steps) (.publish dp name v pkg)).err = none) :
    let st := volatileAfter steps
    let st' := (vExec Impl.repaired st (.publish dp name v pkg)).st
    dp = name ∧ (∀ w ∈ vReleasesOf st name, w < v) ∧ vRelListed st name v = false ∧ vRelListed st' name v = true
      ∧ st'.fs = st.fs ∧ (∀ p' v', (p', v') ≠ (name, v) → vRelListed st' p' v' = vRelListed st p' v')
      ∧ (∀ g, vGenListed st' name v g = false) ∧ VViewEq st' st :=
  (vExec_view _ (vPlay_good steps) (.publish dp name v pkg)).2 h

/-- **C05_volatile_append_only**: whatever a reader of the volatile registry can see after a history it sees
byte-identical after any continuation (so the never-invalidated tag / state caches stay right there too). -/
theorem C05_volatile_append_only (steps steps' : List Step) (key : Path) (n : Node)
    (h : vVis (volatileAfter steps) key = some n) : vVis (volatileAfter (steps ++ steps')) key = some n := by
  show vVis (vPlay Impl.repaired VReg.empty (steps ++ steps')) key = some n
  rw [vPlay_append]
  have gd := vPlay_good steps
  have h' : vVis (vPlay Impl.repaired VReg.empty steps) key = some n := h
  generalize vPlay Impl.repaired VReg.empty steps = st at h' gd
  induction steps' generalizing st with
  | nil => exact h'
  | cons s r ih =>
    simp only [vPlay]
    exact ih _ (vExec_append_only st gd s key n h') (vExec_good st gd s)

/-- non-vacuity: the demo history on the volatile registry — same generations, no package, project / release
directories created by the first dump -/
example : let st := vPlay Impl.repaired VReg.empty demoHistory
    st.arts = [(0, 2), (1, 1), (0, 3)] ∧ generationsOf st.fs 0 2 = [2, 1] ∧ generationsOf st.fs 0 3 = [1]
    ∧ tagOf st.fs 0 3 1 = some ⟨2, [1, 2]⟩ ∧ vVis st (stateP 0 3 1 2) = some (.file [5, 6])
    ∧ get st.fs (packageP 0 2) = none ∧ get st.fs (releaseP 1 1) = none ∧ get st.fs (releaseP 0 2) = some .dir := by
  decide +kernel
/-- a zero-state training right after the publish creates project, release and generation directory in the commit -/
example : let o := vExec Impl.repaired (vExec Impl.repaired VReg.empty (.publish 0 0 1 (.file [1]))).st (.train 0 1 7 [])
    o.err = none ∧ o.calls = [[.mkdir (projectP 0), .mkdir (releaseP 0 1), .mkdir (generationP 0 1 1),
      .createEmpty (tagTmpP 0 1 1), .append (tagTmpP 0 1 1) (encodeTag ⟨7, []⟩), .rename (tagTmpP 0 1 1) (tagP 0 1 1)]]
    ∧ vGenListed o.st 0 1 1 = true := by decide +kernel

/-! ### Round 5: crash points INSIDE `shutil.rmtree` of the left-over temporary package (`Fs.runUnlinks`) -/

/-- **C05_rmtree_partial_invisible**: `Registry.push` starts a directory publish with
`shutil.rmtree(staged, ignore_errors=True)`; split into its `os.unlink` / `os.rmdir` calls (files and empty
directories at or below the temporary package name, in any order) and killed after ANY number of them, it leaves a
well-formed tree that equals the previous one everywhere outside the temporary name and shows a fresh reader exactly
the previous view - for every tree, not only the reachable ones. -/
theorem C05_rmtree_partial_invisible (fs fs' : Fs) (p v : Nat) (ks : List Path)
    (h : runUnlinks fs (packageTmpP p v) ks = some fs') :
    ViewEq fs' fs ∧ (WF fs → WF fs') ∧ (∀ key, ¬ (packageTmpP p v <+: key) → get fs' key = get fs key) :=
  ⟨vis_frame_tmp fs' fs p v (fun key hk => runUnlinks_frame _ key hk ks fs fs' h),
   runUnlinks_wf _ ks fs fs' h,
   fun key hk => runUnlinks_frame _ key hk ks fs fs' h⟩

/-- **C05_rmtree_partial_resume**: the retried publish's `rmtree` of a partly removed left-over (the directory itself
still there) produces exactly the tree the undisturbed `rmtree` would have produced, so everything proved about the
one-step `rmtree` of `pushOps` (Parts 1-3) carries over to a retry after a death inside it; every entry of the
partly removed tree is an entry of the tree before (nothing is created, nothing is rewritten). -/
theorem C05_rmtree_partial_resume (fs fs' : Fs) (p v : Nat) (ks : List Path)
    (h : runUnlinks fs (packageTmpP p v) ks = some fs') :
    (get fs' (packageTmpP p v) = some .dir →
      step fs' (.rmtree (packageTmpP p v)) = step fs (.rmtree (packageTmpP p v)))
    ∧ (∀ key n, get fs' key = some n → get fs key = some n) :=
  ⟨fun hd => rmtree_resume fs fs' _ ks h (by simp [packageTmpP]) hd,
   fun key n hn => runUnlinks_sub _ key n ks fs fs' h hn⟩

/-- **C05_rmtree_walk_complete**: a walk that has removed the temporary directory itself (its last `rmdir`, accepted
only on an empty directory) has removed everything below it and nothing else: the tree IS the one of the one-step
`rmtree` of the model, and no further call of the walk is accepted.  With `C05_rmtree_partial_invisible` / `_resume`:
every crash point inside `shutil.rmtree` is either invisible and resumable or the completed `rmtree` step. -/
theorem C05_rmtree_walk_complete (fs fs' : Fs) (p v : Nat) (ks : List Path)
    (h : runUnlinks fs (packageTmpP p v) ks = some fs') (hd : get fs (packageTmpP p v) = some .dir)
    (hn : get fs' (packageTmpP p v) = none) :
    step fs (.rmtree (packageTmpP p v)) = some fs' ∧ ∀ k, unlinkStep fs' (packageTmpP p v) k = none := by
  have e := runUnlinks_done _ ks fs fs' h hd hn
  have hne : packageTmpP p v ≠ [] := by simp [packageTmpP]
  refine ⟨by simp only [step, hd, e]; rw [if_pos ⟨hne, trivial⟩], fun k => ?_⟩
  unfold unlinkStep
  split
  · rename_i c
    have := c.2.1
    rw [e, get_rmtree] at this
    simp [c.1] at this
  · rfl

/-- non-vacuity of the completed walk: all three calls, bottom-up -/
example : let fs : Fs := [(packageTmpP 0 1 ++ [.member 0], .file [1]), (packageTmpP 0 1, .dir), (packageP 0 1, .file [9]),
      (releaseP 0 1, .dir), (projectP 0, .dir), ([], .dir)]
    runUnlinks fs (packageTmpP 0 1) [packageTmpP 0 1 ++ [.member 0], packageTmpP 0 1] = step fs (.rmtree (packageTmpP 0 1))
    ∧ get fs (packageTmpP 0 1) = some .dir := by decide

/-- non-vacuity: a left-over with two members below a published release; two of its three unlinks done, the listed
package is untouched, the retry's `rmtree` gives the same tree as on the intact left-over; `rmdir` of the non-empty
directory and an unlink outside the temporary name are refused -/
example : let fs : Fs := [(packageTmpP 0 1 ++ [.member 1], .file [2]), (packageTmpP 0 1 ++ [.member 0], .file [1]),
      (packageTmpP 0 1, .dir), (packageP 0 1, .file [9]), (releaseP 0 1, .dir), (projectP 0, .dir), ([], .dir)]
    (∃ fs', runUnlinks fs (packageTmpP 0 1) [packageTmpP 0 1 ++ [.member 0], packageTmpP 0 1 ++ [.member 1]] = some fs'
      ∧ get fs' (packageTmpP 0 1) = some .dir ∧ get fs' (packageTmpP 0 1 ++ [.member 0]) = none
      ∧ vis fs' (packageP 0 1) = some (.file [9])
      ∧ step fs' (.rmtree (packageTmpP 0 1)) = step fs (.rmtree (packageTmpP 0 1)))
    ∧ runUnlinks fs (packageTmpP 0 1) [packageTmpP 0 1] = none
    ∧ runUnlinks fs (packageTmpP 0 1) [packageP 0 1] = none := by
  refine ⟨⟨_, rfl, ?_⟩, ?_⟩ <;> decide

end ForML.Registry
