/-
C05 — Registry history is append-only, gap-free and crash-consistent.

Reading of the statement in the model (ForML.Model.Fs / ForML.Model.Registry):
* the reader's view of a tree is `vis fs : Path → Option Node` (what a fresh `asset.Directory` reaches through
  the listings); `ViewEq a b` = the two trees are indistinguishable for a fresh reader;
* a process death during a registry call = `run fs (crashOps ops k cut)`: `k` atomic micro-operations of the
  call completed, optionally `cut` bytes of the next write;
* crash consistency of a call: every such tree is `ViewEq` to the tree before, or is the complete result.

`Impl.existing` is the code as it is in /repo (tag and package written in place; project key checked only for
listed projects), `Impl.repaired` the code with fixes/C05-*.diff applied.
-/
import ForML.Lemmas.C05

namespace ForML.Registry
open ForML.Fs

/-- indistinguishable for a fresh reader -/
def ViewEq (a b : Fs) : Prop := ∀ k, vis a k = vis b k

/-! ### helper lemmas (private) -/

private theorem mem_mkdirP (fs : Fs) (path : Path) (op : Op) (h : op ∈ mkdirP fs path) :
    ∃ q ∈ prefixes path, op = .mkdir q ∧ get fs q = none := by
  simp only [mkdirP, List.mem_filterMap] at h
  obtain ⟨q, hq, hop⟩ := h
  by_cases hn : get fs q = none
  · simp [hn] at hop; exact ⟨q, hq, hop.symm, hn⟩
  · simp [hn] at hop

/-- everything a commit touches lies below the new generation directory or below the stage directory -/
private theorem closeOps_touches (impl : Impl) (fs : Fs) (p v g : Nat) (t : Tag)
    (hp : get fs (projectP p) ≠ none) (hv : get fs (releaseP p v) ≠ none) :
    ∀ op ∈ closeOps impl fs p v g t, ∀ key, touches op key →
      (generationP p v g <+: key ∨ stageP p v <+: key) := by
  intro op hop key hk
  simp only [closeOps, List.mem_append, List.mem_map] at hop
  rcases hop with (hop | ⟨s, _, rfl⟩) | hop
  · obtain ⟨q, hq, rfl, hn⟩ := mem_mkdirP _ _ _ hop
    simp only [generationP, prefixes, List.map_cons, List.map_nil, List.mem_cons, List.not_mem_nil, or_false] at hq
    simp only [touches] at hk; subst hk
    rcases hq with rfl | rfl | rfl
    · exact absurd hn hp
    · exact absurd hn hv
    · exact Or.inl (List.prefix_refl _)
  · simp only [touches] at hk
    rcases hk with hk | hk
    · right
      exact List.IsPrefix.trans (by simp [stageP, stagedStateP]) hk
    · left
      exact List.IsPrefix.trans (by simp [generationP, stateP]) hk
  · left
    unfold tagWriteOps at hop
    split at hop
    · simp only [List.mem_cons, List.not_mem_nil, or_false] at hop
      rcases hop with rfl | rfl | rfl
      · simp only [touches] at hk; subst hk; simp [generationP, tagTmpP]
      · simp only [touches] at hk; subst hk; simp [generationP, tagTmpP]
      · simp only [touches] at hk
        rcases hk with hk | hk
        · exact List.IsPrefix.trans (by simp [generationP, tagTmpP]) hk
        · exact List.IsPrefix.trans (by simp [generationP, tagP]) hk
    · simp only [List.mem_cons, List.not_mem_nil, or_false] at hop
      rcases hop with rfl | rfl
      · simp only [touches] at hk; subst hk; simp [generationP, tagP]
      · simp only [touches] at hk; subst hk; simp [generationP, tagP]

/-- the part of a commit before the tag becomes visible never touches the tag path -/
private theorem closePrefix_not_tag (fs : Fs) (p v g : Nat) (sids : List Nat) (extra : List Op)
    (hx : ∀ op ∈ extra, ¬ touches op (tagP p v g)) :
    ∀ op ∈ mkdirP fs (generationP p v g)
        ++ sids.map (fun s => Op.rename (stagedStateP p v s) (stateP p v g s)) ++ extra,
      ¬ touches op (tagP p v g) := by
  intro op hop
  simp only [List.mem_append, List.mem_map] at hop
  rcases hop with (hop | ⟨s, _, rfl⟩) | hop
  · obtain ⟨q, hq, rfl, _⟩ := mem_mkdirP _ _ _ hop
    simp only [generationP, prefixes, List.map_cons, List.map_nil, List.mem_cons, List.not_mem_nil, or_false] at hq
    rcases hq with rfl | rfl | rfl <;> simp [touches, tagP]
  · simp [touches, tagP, stagedStateP, stateP]
  · exact hx op hop

/-- a reader never looks below the stage directory, and below a generation directory only through its tag -/
private theorem vis_frame_gen (a b : Fs) (p v g : Nat)
    (hf : ∀ key, ¬ (generationP p v g <+: key) → ¬ (stageP p v <+: key) → get a key = get b key) :
    ∀ key, ¬ (generationP p v g <+: key) → vis a key = vis b key := by
  have rl : ∀ p' v', relListed a p' v' = relListed b p' v' := by
    intro p' v'
    simp only [relListed, isDir]
    rw [hf (projectP p') (by simp [generationP, projectP]) (by simp [stageP, projectP]),
        hf (releaseP p' v') (by simp [generationP, releaseP]) (by simp [stageP, releaseP]),
        hf (packageP p' v') (by simp [generationP, packageP]) (by simp [stageP, packageP])]
  intro key hkey
  unfold vis
  split
  · rename_i p' v'
    rw [rl, hf (packageP p' v') (by simp [generationP, packageP]) (by simp [stageP, packageP])]
  · rename_i p' v' i
    have e := hf (packageP p' v' ++ [Seg.member i]) (by simp [generationP, packageP]) (by simp [stageP, packageP])
    rw [rl, e]
  · rename_i p' v' g'
    have hne : ¬ (p = p' ∧ v = v' ∧ g = g') := by
      intro ⟨h1, h2, h3⟩; subst h1 h2 h3; exact hkey (by simp [generationP])
    have e1 := hf (generationP p' v' g') (by simpa [generationP] using hne) (by simp [stageP, generationP])
    have e2 := hf (tagP p' v' g') (by simpa [generationP, tagP] using hne) (by simp [stageP, tagP])
    simp [genListed, genValid, isDir, rl, e1, e2]
  · rename_i p' v' g' s
    have hne : ¬ (p = p' ∧ v = v' ∧ g = g') := by
      intro ⟨h1, h2, h3⟩; subst h1 h2 h3; exact hkey (by simp [generationP])
    have e1 := hf (generationP p' v' g') (by simpa [generationP] using hne) (by simp [stageP, generationP])
    have e2 := hf (tagP p' v' g') (by simpa [generationP, tagP] using hne) (by simp [stageP, tagP])
    have e3 := hf (stateP p' v' g' s) (by simpa [generationP, stateP] using hne) (by simp [stageP, stateP])
    simp [genListed, genValid, isDir, tagOf, rl, e1, e2, e3]
  · rfl

/-- a generation directory without `tag.toml` is invisible, whatever else it holds -/
private theorem vis_hidden_gen (a : Fs) (p v g : Nat) (ht : get a (tagP p v g) = none) :
    ∀ key, generationP p v g <+: key → vis a key = none := by
  intro key hkey
  unfold vis
  split
  · simp [generationP] at hkey
  · simp [generationP] at hkey
  · rename_i p' v' g'
    simp [generationP] at hkey
    obtain ⟨rfl, rfl, rfl⟩ := hkey
    simp [genListed, genValid, ht]
  · rename_i p' v' g' s
    simp [generationP] at hkey
    obtain ⟨rfl, rfl, rfl⟩ := hkey
    simp [genListed, genValid, ht]
  · rfl

private theorem crashOps_append_le (A B : List Op) (k : Nat) (cut : Option Nat) (hk : k ≤ A.length)
    (hB : ∀ p b, B.head? ≠ some (.append p b)) : crashOps (A ++ B) k cut = crashOps A k cut := by
  unfold crashOps
  rw [List.take_append_of_le_length hk]
  by_cases h1 : k < A.length
  · rw [List.getElem?_append_left h1]
  · have h2 : k = A.length := by omega
    subst h2
    have e2 : A[A.length]? = none := by simp
    rw [e2]
    cases cut with
    | none => rfl
    | some c =>
      cases B with
      | nil => simp
      | cons o r =>
        have e1 : (A ++ o :: r)[A.length]? = some o := by simp
        rw [e1]
        cases o with
        | append p b => exact absurd rfl (hB p b)
        | mkdir p => rfl
        | createEmpty p => rfl
        | rename p q => rfl
        | copyFile p b => rfl

/-- core of the commit theorems: a crash inside the part `A` of a commit that does not touch the tag path leaves a
tree that a fresh reader cannot tell from the one before -/
private theorem commit_prefix_invisible (impl : Impl) (fs c : Fs) (p v g : Nat) (t : Tag) (A : List Op)
    (k : Nat) (cut : Option Nat)
    (hA : ∀ op ∈ A, op ∈ closeOps impl fs p v g t) (hAt : ∀ op ∈ A, ¬ touches op (tagP p v g))
    (hp : get fs (projectP p) ≠ none) (hv : get fs (releaseP p v) ≠ none)
    (ht : get fs (tagP p v g) = none) (hc : run fs (crashOps A k cut) = some c) : ViewEq c fs := by
  have htouch := crashOps_touches A k cut
  have hframe : ∀ key, ¬ (generationP p v g <+: key) → ¬ (stageP p v <+: key) → get c key = get fs key := by
    intro key h1 h2
    apply run_frame _ _ _ _ hc
    intro op hop htk
    obtain ⟨op', hop', himp⟩ := htouch op hop
    rcases closeOps_touches impl fs p v g t hp hv op' (hA op' hop') key (himp key htk) with h | h
    · exact h1 h
    · exact h2 h
  have htc : get c (tagP p v g) = none := by
    rw [← ht]
    apply run_frame _ _ _ _ hc
    intro op hop htk
    obtain ⟨op', hop', himp⟩ := htouch op hop
    exact hAt op' hop' (himp _ htk)
  intro key
  by_cases hkey : generationP p v g <+: key
  · rw [vis_hidden_gen c p v g htc key hkey, vis_hidden_gen fs p v g ht key hkey]
  · exact vis_frame_gen c fs p v g hframe key hkey

/-! ### C05 — crash consistency of a commit (`Registry.close` under `Release.put`) -/

/-- The statement for a commit, for either variant of the code: whenever the process dies, a fresh reader sees
the previous content or the complete new generation.  Hypotheses = what `Release.put` guarantees when it calls
`close`: the release is listed (its directories exist) and generation `g` has no tag yet. -/
def C05_commit_crash_full (impl : Impl) : Prop :=
  ∀ (fs c : Fs) (p v g : Nat) (t : Tag) (k : Nat) (cut : Option Nat),
    get fs (projectP p) ≠ none → get fs (releaseP p v) ≠ none → get fs (tagP p v g) = none →
    run fs (crashOps (closeOps impl fs p v g t) k cut) = some c →
    ViewEq c fs ∨ run fs (closeOps impl fs p v g t) = some c

/-- **C05_commit_crash_repaired**: with the tag written to a temporary sibling and renamed, a commit is crash
consistent at *every* crash point (between any two micro-operations and inside the tag write), for every tree,
release, generation number, tag and number of states. -/
theorem C05_commit_crash_repaired (kf : Bool) : C05_commit_crash_full ⟨true, kf⟩ := by
  intro fs c p v g t k cut hp hv ht hc
  let A := mkdirP fs (generationP p v g)
      ++ t.sids.map (fun s => Op.rename (stagedStateP p v s) (stateP p v g s))
      ++ [Op.createEmpty (tagTmpP p v g), Op.append (tagTmpP p v g) (encodeTag t)]
  have hsplit : closeOps ⟨true, kf⟩ fs p v g t = A ++ [Op.rename (tagTmpP p v g) (tagP p v g)] := by
    simp [closeOps, tagWriteOps, A]
  rw [hsplit, crashOps_snoc A _ (by intro p b h; cases h)] at hc
  split at hc
  · left
    refine commit_prefix_invisible ⟨true, kf⟩ fs c p v g t A k cut ?_ ?_ hp hv ht hc
    · intro op hop; rw [hsplit]; exact List.mem_append_left _ hop
    · apply closePrefix_not_tag
      intro op hop
      simp only [List.mem_cons, List.not_mem_nil, or_false] at hop
      rcases hop with rfl | rfl <;> simp [touches, tagP, tagTmpP]
  · right; rw [hsplit]; exact hc

/-- **C05_commit_crash_partial**: the code that exists (tag written in place) is crash consistent at every crash
point *except* the two after `open(tag, 'wb')`: `k = n + 1` where `n` = number of micro-operations before the
tag is created (tag empty, or partially written with `cut`). -/
theorem C05_commit_crash_partial (kf : Bool) (fs c : Fs) (p v g : Nat) (t : Tag) (k : Nat) (cut : Option Nat)
    (hp : get fs (projectP p) ≠ none) (hv : get fs (releaseP p v) ≠ none) (ht : get fs (tagP p v g) = none)
    (hk : k ≠ (mkdirP fs (generationP p v g)).length + t.sids.length + 1)
    (hc : run fs (crashOps (closeOps ⟨false, kf⟩ fs p v g t) k cut) = some c) :
    ViewEq c fs ∨ run fs (closeOps ⟨false, kf⟩ fs p v g t) = some c := by
  let A := mkdirP fs (generationP p v g)
      ++ t.sids.map (fun s => Op.rename (stagedStateP p v s) (stateP p v g s))
  let B := [Op.createEmpty (tagP p v g), Op.append (tagP p v g) (encodeTag t)]
  have hsplit : closeOps ⟨false, kf⟩ fs p v g t = A ++ B := by
    simp [closeOps, tagWriteOps, A, B]
  have hlen : A.length = (mkdirP fs (generationP p v g)).length + t.sids.length := by simp [A]
  by_cases hle : k ≤ A.length
  · left
    rw [hsplit, crashOps_append_le A B k cut hle (by intro p b h; simp [B] at h)] at hc
    refine commit_prefix_invisible ⟨false, kf⟩ fs c p v g t A k cut ?_ ?_ hp hv ht hc
    · intro op hop; rw [hsplit]; exact List.mem_append_left _ hop
    · have := closePrefix_not_tag fs p v g t.sids [] (by simp)
      simpa [A] using this
  · right
    have hge : (A ++ B).length ≤ k := by simp [B]; omega
    rw [hsplit] at hc ⊢
    unfold crashOps at hc
    rw [List.take_of_length_le hge, List.getElem?_eq_none hge] at hc
    cases cut <;> simpa using hc

/-- the tree after `publish 0/1 (file package)` and two staged states 0, 1 -/
def witnessTree : Fs :=
  (runSome Fs.empty (pushOps Impl.existing Fs.empty 0 1 (.file [7, 7])
    ++ [.mkdir (stageP 0 1), .copyFile (stagedStateP 0 1 0) [1], .copyFile (stagedStateP 0 1 1) [2]])).1

/-- **C05_commit_crash_counterexample**: in the code that exists a process death right after `open(tag, 'wb')`
(3 of 5 micro-operations done) leaves generation 1 *listed* with an unreadable (empty) tag: the view is neither
the old one (no generation) nor the new one. -/
theorem C05_commit_crash_counterexample : ¬ C05_commit_crash_full Impl.existing := by
  intro h
  have := h witnessTree (runSome witnessTree (crashOps (closeOps Impl.existing witnessTree 0 1 1 ⟨5, [0, 1]⟩) 4 none)).1
    0 1 1 ⟨5, [0, 1]⟩ 4 none (by decide) (by decide) (by decide) (by decide)
  rcases this with h1 | h1
  · have := h1 (tagP 0 1 1); revert this; decide
  · revert h1; decide

/-- the crashed tree of the counterexample shows generation 1 as listed and its tag does not decode -/
theorem C05_commit_crash_counterexample_corrupt :
    let c := (runSome witnessTree (crashOps (closeOps Impl.existing witnessTree 0 1 1 ⟨5, [0, 1]⟩) 4 none)).1
    genListed c 0 1 1 = true ∧ tagOf c 0 1 1 = none := by decide

/-- ... and so does a tag cut short inside the write -/
theorem C05_commit_crash_counterexample_partial_write :
    let c := (runSome witnessTree (crashOps (closeOps Impl.existing witnessTree 0 1 1 ⟨5, [0, 1]⟩) 4 (some 2))).1
    genListed c 0 1 1 = true ∧ tagOf c 0 1 1 = none := by decide

/-! ### C05 — append-only: a completed commit adds one generation and changes nothing that was visible -/

/-- **C05_commit_append_only**: after a completed commit (either variant) every node a fresh reader could see
before is still seen, byte-identical (older generations, tags, states, packages of every project). -/
theorem C05_commit_append_only (impl : Impl) (fs fs' : Fs) (p v g : Nat) (t : Tag)
    (hp : get fs (projectP p) ≠ none) (hv : get fs (releaseP p v) ≠ none) (ht : get fs (tagP p v g) = none)
    (hr : run fs (closeOps impl fs p v g t) = some fs') :
    ∀ key n, vis fs key = some n → vis fs' key = some n := by
  intro key n hvis
  have hkey : ¬ generationP p v g <+: key := by
    intro h; rw [vis_hidden_gen fs p v g ht key h] at hvis; cases hvis
  have hframe : ∀ key, ¬ (generationP p v g <+: key) → ¬ (stageP p v <+: key) → get fs' key = get fs key := by
    intro key h1 h2
    apply run_frame _ _ _ _ hr
    intro op hop htk
    rcases closeOps_touches impl fs p v g t hp hv op hop key htk with h | h
    · exact h1 h
    · exact h2 h
  rw [vis_frame_gen fs' fs p v g hframe key hkey]; exact hvis

/-! ### generation numbering and the release guard (directory levels) -/

private theorem le_maxOf (l : List Nat) (x : Nat) (hx : x ∈ l) : ∃ m, maxOf l = some m ∧ x ≤ m := by
  induction l with
  | nil => cases hx
  | cons y r ih =>
    simp only [maxOf]
    rcases List.mem_cons.mp hx with rfl | hx
    · cases maxOf r with
      | none => exact ⟨x, rfl, Nat.le_refl _⟩
      | some m => exact ⟨max x m, rfl, Nat.le_max_left _ _⟩
    · obtain ⟨m, hm, hle⟩ := ih hx
      rw [hm]
      exact ⟨max y m, rfl, Nat.le_trans hle (Nat.le_max_right _ _)⟩

/-- **C05_next_generation**: `Release.put` numbers the new generation 1 for an empty listing and otherwise one
above *every* listed generation (so above the highest one). -/
theorem C05_next_generation (fs : Fs) (p v : Nat) :
    (generationsOf fs p v = [] → nextGen fs p v = 1) ∧
    (∀ g ∈ generationsOf fs p v, g < nextGen fs p v) ∧
    (generationsOf fs p v ≠ [] → nextGen fs p v - 1 ∈ generationsOf fs p v) := by
  refine ⟨?_, ?_, ?_⟩
  · intro h; simp [nextGen, h, maxOf]
  · intro g hg
    obtain ⟨m, hm, hle⟩ := le_maxOf _ g hg
    simp [nextGen, hm]; omega
  · intro hne
    have hmem : ∀ l : List Nat, l ≠ [] → ∃ m, maxOf l = some m ∧ m ∈ l := by
      intro l
      induction l with
      | nil => intro h; exact absurd rfl h
      | cons y r ih =>
        intro _
        simp only [maxOf]
        cases hr : maxOf r with
        | none => exact ⟨y, rfl, by simp⟩
        | some m =>
          have : r ≠ [] := by intro h; simp [h, maxOf] at hr
          obtain ⟨m', hm', hin⟩ := ih this
          rw [hr] at hm'; cases hm'
          refine ⟨max y m, rfl, ?_⟩
          rcases Nat.le_total y m with h | h
          · rw [Nat.max_eq_right h]; exact List.mem_cons_of_mem _ hin
          · rw [Nat.max_eq_left h]; simp
    obtain ⟨m, hm, hin⟩ := hmem _ hne
    simp [nextGen, hm]; exact hin

/-- The statement for releases: `Project.put` accepts a package `(name, v)` only if `v` is greater than every
listed release of project `name`. -/
def C05_release_monotonic_full (impl : Impl) : Prop :=
  ∀ (fs : Fs) (dirProj name v : Nat), publishGuard impl fs dirProj name v = none →
    ∀ w ∈ releasesOf fs name, w < v

/-- **C05_release_monotonic_repaired**: with the project key compared first, an accepted release is greater than
every listed release of the project it is pushed to. -/
theorem C05_release_monotonic_repaired (st : Bool) : C05_release_monotonic_full ⟨st, true⟩ := by
  intro fs dp name v hg w hw
  simp only [publishGuard, Bool.true_and] at hg
  by_cases hn : name = dp
  · subst hn
    simp only [bne_self_eq_false, Bool.false_eq_true, if_false] at hg
    have hl : projListed fs name = true := by
      simp only [projListed, Bool.not_eq_true', List.isEmpty_eq_false_iff]
      intro h; rw [h] at hw; cases hw
    obtain ⟨m, hm, hle⟩ := le_maxOf _ w hw
    simp only [hl, if_true, hm] at hg
    split at hg
    · cases hg
    · split at hg
      · omega
      · cases hg
  · have : (name != dp) = true := by simp [hn]
    simp [this] at hg

/-- **C05_release_monotonic_partial**: the code that exists guarantees it when the package is put through its
own project's key. -/
theorem C05_release_monotonic_partial (st : Bool) (fs : Fs) (name v : Nat)
    (hg : publishGuard ⟨st, false⟩ fs name name v = none) : ∀ w ∈ releasesOf fs name, w < v := by
  intro w hw
  simp only [publishGuard, Bool.false_and, Bool.false_eq_true, if_false] at hg
  have hl : projListed fs name = true := by
    simp only [projListed, Bool.not_eq_true', List.isEmpty_eq_false_iff]
    intro h; rw [h] at hw; cases hw
  obtain ⟨m, hm, hle⟩ := le_maxOf _ w hw
  simp only [hl, if_true, hm] at hg
  split at hg
  · cases hg
  · split at hg
    · omega
    · cases hg

/-- **C05_release_monotonic_counterexample**: release 3 of project 0 exists; putting the package `(0, 1)` through the
unlisted project key 2 is accepted by the code that exists. -/
theorem C05_release_monotonic_counterexample : ¬ C05_release_monotonic_full Impl.existing := by
  intro h
  have := h (runSome Fs.empty (pushOps Impl.existing Fs.empty 0 3 (.file [7]))).1 2 0 1 (by decide) 3 (by decide)
  revert this; decide

/-! ### C05 — crash consistency of a publish (`Registry.push` under `Project.put`) -/

/-- The statement for a publish: whenever the process dies, a fresh reader sees the previous content or the
complete new release. -/
def C05_publish_crash_full (impl : Impl) : Prop :=
  ∀ (fs c : Fs) (p v : Nat) (pkg : Pkg) (k : Nat) (cut : Option Nat),
    WF fs → relListed fs p v = false →
    run fs (crashOps (atomsAll (pushOps impl fs p v pkg)) k cut) = some c →
    ViewEq c fs ∨ run fs (atomsAll (pushOps impl fs p v pkg)) = some c

private theorem atomsAll_append (X Y : List Op) : atomsAll (X ++ Y) = atomsAll X ++ atomsAll Y := by
  simp [atomsAll]

private theorem atoms_touches (op a : Op) (ha : a ∈ op.atoms) : ∀ key, touches a key → touches op key := by
  cases op <;> simp only [Op.atoms, List.mem_cons, List.not_mem_nil, or_false] at ha
  all_goals first
    | (subst ha; exact fun _ h => h)
    | (rcases ha with rfl | rfl <;> exact fun _ h => h)

private theorem atomsAll_touches (ops : List Op) (a : Op) (ha : a ∈ atomsAll ops) :
    ∃ op ∈ ops, ∀ key, touches a key → touches op key := by
  simp only [atomsAll, List.mem_flatMap] at ha
  obtain ⟨op, hop, hin⟩ := ha
  exact ⟨op, hop, atoms_touches op a hin⟩

/-- what the repaired `push` touches before its final rename -/
private theorem pushPrefix_touches (fs : Fs) (p v : Nat) (tmpOps : List Op)
    (htmp : ∀ op ∈ tmpOps, ∀ key, touches op key → packageTmpP p v <+: key) :
    ∀ op ∈ mkdirP fs (releaseP p v) ++ tmpOps, ∀ key, touches op key →
      (key = projectP p ∧ get fs key = none) ∨ (key = releaseP p v ∧ get fs key = none)
        ∨ packageTmpP p v <+: key := by
  intro op hop key hk
  rcases List.mem_append.mp hop with hop | hop
  · obtain ⟨q, hq, rfl, hn⟩ := mem_mkdirP _ _ _ hop
    simp only [releaseP, prefixes, List.map_cons, List.map_nil, List.mem_cons, List.not_mem_nil, or_false] at hq
    simp only [touches] at hk; subst hk
    rcases hq with rfl | rfl
    · exact Or.inl ⟨rfl, hn⟩
    · exact Or.inr (Or.inl ⟨rfl, hn⟩)
  · exact Or.inr (Or.inr (htmp op hop key hk))

/-- creating the (missing) project / release directories and anything below the temporary package name is
invisible as long as the release has no `package.4ml` -/
private theorem vis_frame_rel (a b : Fs) (p v : Nat) (w : WF b)
    (hf : ∀ key, key ≠ projectP p → key ≠ releaseP p v → ¬ (packageTmpP p v <+: key) → get a key = get b key)
    (h1 : get b (projectP p) ≠ none → get a (projectP p) = get b (projectP p))
    (hb : get b (packageP p v) = none) : ViewEq a b := by
  have ha : get a (packageP p v) = none := by
    rw [hf (packageP p v) (by simp [packageP, projectP]) (by simp [packageP, releaseP])
      (by simp [packageP, packageTmpP])]; exact hb
  have rl : ∀ p' v', relListed a p' v' = relListed b p' v' := by
    intro p' v'
    by_cases hpp : p' = p
    · subst hpp
      by_cases hvv : v' = v
      · subst hvv; simp [relListed, ha, hb]
      · have e2 := hf (releaseP p' v') (by simp [releaseP, projectP]) (by simp [releaseP, hvv])
          (by simp [releaseP, packageTmpP])
        have e3 := hf (packageP p' v') (by simp [packageP, projectP]) (by simp [packageP, releaseP])
          (by simp [packageP, packageTmpP])
        by_cases hn : get b (projectP p') = none
        · have hbn : get b (releaseP p' v') = none := by
            cases hr : get b (releaseP p' v') with
            | none => rfl
            | some n =>
              have := w.parent_dir (releaseP p' v') n hr (by simp [releaseP])
              simp [parent, releaseP, projectP] at this hn
              rw [hn] at this; cases this
          simp [relListed, isDir, e2, hbn]
        · simp [relListed, isDir, e2, e3, h1 hn]
    · have e1 := hf (projectP p') (by simp [projectP, hpp]) (by simp [releaseP, projectP])
        (by simp [projectP, packageTmpP])
      have e2 := hf (releaseP p' v') (by simp [releaseP, projectP]) (by simp [releaseP, hpp])
        (by simp [releaseP, packageTmpP])
      have e3 := hf (packageP p' v') (by simp [packageP, projectP]) (by simp [packageP, releaseP])
        (by simp [packageP, packageTmpP])
      simp [relListed, isDir, e1, e2, e3]
  intro key
  unfold vis
  split
  · rename_i p' v'
    by_cases hpv : p' = p ∧ v' = v
    · obtain ⟨rfl, rfl⟩ := hpv; rw [rl]; simp [ha, hb]
    · have e := hf (packageP p' v') (by simp [packageP, projectP]) (by simp [packageP, releaseP])
        (by simp [packageP, packageTmpP])
      rw [rl, e]
  · rename_i p' v' i
    have e := hf (packageP p' v' ++ [Seg.member i]) (by simp [packageP, projectP]) (by simp [packageP, releaseP])
      (by simp [packageP, packageTmpP])
    rw [rl, e]
  · rename_i p' v' g'
    have e1 := hf (generationP p' v' g') (by simp [generationP, projectP]) (by simp [generationP, releaseP])
      (by simp [generationP, packageTmpP])
    have e2 := hf (tagP p' v' g') (by simp [tagP, projectP]) (by simp [tagP, releaseP]) (by simp [tagP, packageTmpP])
    simp [genListed, genValid, isDir, rl, e1, e2]
  · rename_i p' v' g' s
    have e1 := hf (generationP p' v' g') (by simp [generationP, projectP]) (by simp [generationP, releaseP])
      (by simp [generationP, packageTmpP])
    have e2 := hf (tagP p' v' g') (by simp [tagP, projectP]) (by simp [tagP, releaseP]) (by simp [tagP, packageTmpP])
    have e3 := hf (stateP p' v' g' s) (by simp [stateP, projectP]) (by simp [stateP, releaseP])
      (by simp [stateP, packageTmpP])
    simp [genListed, genValid, isDir, tagOf, rl, e1, e2, e3]
  · rfl

/-- **C05_publish_crash_repaired**: with the package (file or directory tree) written under a temporary sibling
name and renamed, a publish is crash consistent at every crash point, for every well-formed tree and package. -/
theorem C05_publish_crash_repaired (kf : Bool) : C05_publish_crash_full ⟨true, kf⟩ := by
  intro fs c p v pkg k cut w hnl hc
  have hb : get fs (packageP p v) = none := by
    cases hr : get fs (packageP p v) with
    | none => rfl
    | some n =>
      exfalso
      have d2 := w.parent_dir (packageP p v) n hr (by simp [packageP])
      have d1 := w.parent_dir (releaseP p v) .dir (by simpa [parent, packageP, releaseP] using d2) (by simp [releaseP])
      simp [parent, packageP, releaseP] at d2 d1
      simp [relListed, isDir, projectP, releaseP, packageP, d1, d2] at hnl
      simp [packageP, hnl] at hr
  -- the temporary writes
  obtain ⟨tmpOps, hsplit, htmp⟩ : ∃ tmpOps : List Op,
      pushOps ⟨true, kf⟩ fs p v pkg = (mkdirP fs (releaseP p v) ++ tmpOps) ++ [Op.rename (packageTmpP p v) (packageP p v)]
      ∧ ∀ op ∈ tmpOps, ∀ key, touches op key → packageTmpP p v <+: key := by
    cases pkg with
    | file b =>
      refine ⟨[.createEmpty (packageTmpP p v), .append (packageTmpP p v) b], by simp [pushOps, packageWriteOps], ?_⟩
      intro op hop key hk
      simp only [List.mem_cons, List.not_mem_nil, or_false] at hop
      rcases hop with rfl | rfl <;> (simp only [touches] at hk; subst hk; exact List.prefix_refl _)
    | dir ms =>
      refine ⟨.mkdir (packageTmpP p v) :: ms.map (fun m => .copyFile (packageTmpP p v ++ [.member m.1]) m.2),
        by simp [pushOps, packageWriteOps], ?_⟩
      intro op hop key hk
      simp only [List.mem_cons, List.mem_map] at hop
      rcases hop with rfl | ⟨m, _, rfl⟩
      · simp only [touches] at hk; subst hk; exact List.prefix_refl _
      · simp only [touches] at hk; subst hk; exact List.prefix_append _ _
  rw [hsplit, atomsAll_append] at hc ⊢
  have hlast : atomsAll [Op.rename (packageTmpP p v) (packageP p v)] = [Op.rename (packageTmpP p v) (packageP p v)] := rfl
  rw [hlast] at hc ⊢
  rw [crashOps_snoc _ _ (by intro p b h; cases h)] at hc
  split at hc
  · left
    have htouch : ∀ op ∈ crashOps (atomsAll (mkdirP fs (releaseP p v) ++ tmpOps)) k cut, ∀ key, touches op key →
        (key = projectP p ∧ get fs key = none) ∨ (key = releaseP p v ∧ get fs key = none)
          ∨ packageTmpP p v <+: key := by
      intro op hop key hk
      obtain ⟨a, ha, h1⟩ := crashOps_touches _ k cut op hop
      obtain ⟨o, ho, h2⟩ := atomsAll_touches _ a ha
      exact pushPrefix_touches fs p v tmpOps htmp o ho key (h2 key (h1 key hk))
    apply vis_frame_rel c fs p v w
    · intro key k1 k2 k3
      apply run_frame _ _ _ _ hc
      intro op hop htk
      rcases htouch op hop key htk with h | h | h
      · exact k1 h.1
      · exact k2 h.1
      · exact k3 h
    · intro hne
      apply run_frame _ _ _ _ hc
      intro op hop htk
      rcases htouch op hop _ htk with h | h | h
      · exact hne h.2
      · simp [projectP, releaseP] at h
      · simp [projectP, packageTmpP] at h
    · exact hb
  · right; exact hc

/-- **C05_publish_crash_counterexample_file**: in the code that exists a process death right after the package file
is opened leaves release 0/1 listed with an empty package. -/
theorem C05_publish_crash_counterexample_file : ¬ C05_publish_crash_full Impl.existing := by
  intro h
  have := h Fs.empty (runSome Fs.empty (crashOps (atomsAll (pushOps Impl.existing Fs.empty 0 1 (.file [7, 7]))) 3 none)).1
    0 1 (.file [7, 7]) 3 none (by decide) (by decide) (by decide)
  rcases this with h1 | h1
  · have := h1 (packageP 0 1); revert this; decide
  · revert h1; decide

/-- **C05_publish_crash_counterexample_tree**: the same for a directory package: after `mkdir package.4ml` and one
copied member the release is listed with an incomplete tree. -/
theorem C05_publish_crash_counterexample_tree :
    let ops := atomsAll (pushOps Impl.existing Fs.empty 0 1 (.dir [(1, [4]), (0, [5, 6])]))
    let c := (runSome Fs.empty (crashOps ops 5 none)).1
    let full := (runSome Fs.empty ops).1
    relListed c 0 1 = true ∧ vis c (packageP 0 1 ++ [.member 0]) = none
      ∧ vis full (packageP 0 1 ++ [.member 0]) = some (.file [5, 6]) := by decide

/-! ### non-vacuity: two projects, two releases of the first, three trainings -/

def demoHistory : List Step :=
  [.publish 0 0 2 (.file [1, 2, 3]), .publish 1 1 1 (.dir [(0, [9]), (1, [8, 8])]),
   .train 0 2 1 [(0, [1, 2, 3])], .publish 0 0 3 (.file [4]), .train 0 3 2 [(1, [4]), (2, [5, 6])],
   .train 0 2 3 [(3, [7])]]

/-- every step of the demo history succeeds under both variants, generations are numbered 1, 2 / 1 and hold the
runs' states in order; the tree is well formed and satisfies the hypotheses of the commit theorems for the next
generation -/
example : ((execAll Impl.repaired Fs.empty demoHistory).2.all (fun o => o.err.isNone)) = true := by decide
example : ((execAll Impl.existing Fs.empty demoHistory).2.all (fun o => o.err.isNone)) = true := by decide
example : let fs := (execAll Impl.repaired Fs.empty demoHistory).1
    generationsOf fs 0 2 = [2, 1] ∧ generationsOf fs 0 3 = [1] ∧ releasesOf fs 0 = [3, 2] ∧ releasesOf fs 1 = [1]
    ∧ tagOf fs 0 3 1 = some ⟨2, [1, 2]⟩ ∧ vis fs (stateP 0 3 1 2) = some (.file [5, 6]) ∧ nextGen fs 0 2 = 3
    ∧ WF fs ∧ get fs (projectP 0) ≠ none ∧ get fs (releaseP 0 2) ≠ none ∧ get fs (tagP 0 2 3) = none := by decide
example : (execAll Impl.repaired Fs.empty demoHistory).1 = (execAll Impl.existing Fs.empty demoHistory).1 → True :=
  fun _ => trivial
example : (exec Impl.existing (execAll Impl.existing Fs.empty demoHistory).1 (.publish 0 0 2 (.file [1]))).err
    = some .invalid := by decide
example : (exec Impl.repaired Fs.empty (.publish 2 0 1 (.file [1]))).err = some .mismatch := by decide

end ForML.Registry
