/-
C05 — Registry history is append-only, gap-free and crash-consistent.

Reading of the statement in the model (ForML.Model.Fs / ForML.Model.Registry):
* the reader's view of a tree is `vis fs : Path → Option Node` (what a fresh `asset.Directory` reaches through
  the listings); `ViewEq a b` = the two trees are indistinguishable for a fresh reader;
* a process death during a registry call = `run fs (crashOps ops k cut)`: `k` atomic micro-operations of the
  call completed, optionally `cut` bytes of the next write; inside a history step (guard + several calls)
  it is `crashIn impl fs step k cut`;
* a history is a list of events `Ev.step s` (the step runs to its end or raises) and `Ev.crash s k cut` (the process
  dies inside the step and a new process carries on with what is on disk); `play impl Fs.empty evs` is the tree after it.

`Impl.repaired` is the code in /repo (fix commits 3387543, dc51650), `Impl.original` the code before them: the
theorems named `…_original_…` are about the latter (counterexamples replayed by the harness, findings C05-F1..F4).

Part 1: single registry calls on arbitrary trees.  Part 2: whole histories, by induction over the events, the calls of
a step and the micro-operations of a call (lemmas in ForML/Lemmas/C05*.lean).
-/
import ForML.Lemmas.C05Steps

namespace ForML.Registry
open ForML.Fs

/-! ## Part 1 — single calls, any tree -/

/-! ### crash consistency of a commit (`Registry.close` under `Release.put`) -/

/-- The statement for a commit: whenever the process dies, a fresh reader sees the previous content or the complete
new generation.  Hypotheses = what `Release.put` guarantees when it calls `close`: the release is listed (its
directories exist) and generation `g` has no tag yet. -/
def CommitCrashConsistent (impl : Impl) : Prop :=
  ∀ (fs c : Fs) (p v g : Nat) (t : Tag) (k : Nat) (cut : Option Nat),
    get fs (projectP p) ≠ none → get fs (releaseP p v) ≠ none → get fs (tagP p v g) = none →
    run fs (crashOps (closeOps impl fs p v g t) k cut) = some c →
    ViewEq c fs ∨ run fs (closeOps impl fs p v g t) = some c

/-- **C05_commit_crash**: with the tag written to a temporary sibling and renamed (the code that exists), a commit is
crash consistent at *every* crash point (between any two micro-operations and inside the tag write), for every tree,
release, generation number, tag and number of states. -/
theorem C05_commit_crash (kf : Bool) : CommitCrashConsistent ⟨true, kf⟩ := by
  intro fs c p v g t k cut hp hv ht hc
  rcases commit_crash_raw kf fs c p v g t k cut hp hv ht hc with hq | hfull
  · exact Or.inl (hq.viewEq ht)
  · exact Or.inr hfull

/-- **C05_commit_crash_original_partial**: the code before the fix (tag written in place) is crash consistent at every
crash point *except* the two after `open(tag, 'wb')`: `k = n + 1` where `n` = number of micro-operations before the
tag is created (tag empty, or partially written with `cut`). -/
theorem C05_commit_crash_original_partial (kf : Bool) (fs c : Fs) (p v g : Nat) (t : Tag) (k : Nat) (cut : Option Nat)
    (hp : get fs (projectP p) ≠ none) (hv : get fs (releaseP p v) ≠ none) (ht : get fs (tagP p v g) = none)
    (hk : k ≠ (mkdirP fs (generationP p v g)).length + t.sids.length + 1)
    (hc : run fs (crashOps (closeOps ⟨false, kf⟩ fs p v g t) k cut) = some c) :
    ViewEq c fs ∨ run fs (closeOps ⟨false, kf⟩ fs p v g t) = some c := by
  let A := mkdirP fs (generationP p v g)
      ++ t.sids.map (fun s => Op.rename (stagedStateP p v s) (stateP p v g s))
  let B := [Op.createEmpty (tagP p v g), Op.append (tagP p v g) (encodeTag t)]
  have hsplit : closeOps ⟨false, kf⟩ fs p v g t = A ++ B := by
    simp [closeOps, tagWriteOps, A, B]
  have hlen : A.length = (mkdirP fs (generationP p v g)).length + t.sids.length := by simp [A]
  by_cases hle : k ≤ A.length
  · left
    rw [hsplit, crashOps_append_le A B k cut hle (by intro p b h; simp [B] at h)] at hc
    refine commit_prefix_invisible ⟨false, kf⟩ fs c p v g t A k cut ?_ ?_ hp hv ht hc
    · intro op hop; rw [hsplit]; exact List.mem_append_left _ hop
    · have := closePrefix_not_tag fs p v g t.sids [] (by simp)
      simpa [A] using this
  · right
    have hge : (A ++ B).length ≤ k := by simp [B]; omega
    rw [hsplit] at hc ⊢
    unfold crashOps at hc
    rw [List.take_of_length_le hge, List.getElem?_eq_none hge] at hc
    cases cut <;> simpa using hc

/-- the tree after `publish 0/1 (file package)` and two staged states 0, 1 -/
def witnessTree : Fs :=
  (runSome Fs.empty (pushOps Impl.original Fs.empty 0 1 (.file [7, 7])
    ++ [.mkdir (stageP 0 1), .copyFile (stagedStateP 0 1 0) [1], .copyFile (stagedStateP 0 1 1) [2]])).1

/-- **C05_commit_crash_original_counterexample**: in the code before the fix a process death right after
`open(tag, 'wb')` (4 of 5 micro-operations done) leaves generation 1 *listed* with an unreadable (empty) tag: the view
is neither the old one (no generation) nor the new one.  (Finding C05-F1.) -/
theorem C05_commit_crash_original_counterexample : ¬ CommitCrashConsistent Impl.original := by
  intro h
  have := h witnessTree (runSome witnessTree (crashOps (closeOps Impl.original witnessTree 0 1 1 ⟨5, [0, 1]⟩) 4 none)).1
    0 1 1 ⟨5, [0, 1]⟩ 4 none (by decide) (by decide) (by decide) (by decide)
  rcases this with h1 | h1
  · have := h1 (tagP 0 1 1); revert this; decide
  · revert h1; decide

/-- the crashed tree of the counterexample shows generation 1 as listed and its tag does not decode -/
theorem C05_commit_crash_original_counterexample_corrupt :
    let c := (runSome witnessTree (crashOps (closeOps Impl.original witnessTree 0 1 1 ⟨5, [0, 1]⟩) 4 none)).1
    genListed c 0 1 1 = true ∧ tagOf c 0 1 1 = none := by decide

/-- ... and so does a tag cut short inside the write -/
theorem C05_commit_crash_original_counterexample_partial_write :
    let c := (runSome witnessTree (crashOps (closeOps Impl.original witnessTree 0 1 1 ⟨5, [0, 1]⟩) 4 (some 2))).1
    genListed c 0 1 1 = true ∧ tagOf c 0 1 1 = none := by decide

/-! ### a completed commit adds one generation and changes nothing else -/

/-- **C05_commit_append_only**: after a completed commit (either variant) every node a fresh reader could see
before is still seen, byte-identical (older generations, tags, states, packages of every project). -/
theorem C05_commit_append_only (impl : Impl) (fs fs' : Fs) (p v g : Nat) (t : Tag)
    (hp : get fs (projectP p) ≠ none) (hv : get fs (releaseP p v) ≠ none) (ht : get fs (tagP p v g) = none)
    (hr : run fs (closeOps impl fs p v g t) = some fs') :
    ∀ key n, vis fs key = some n → vis fs' key = some n := by
  intro key n hvis
  have hkey : ¬ generationP p v g <+: key := by
    intro h; rw [vis_hidden_gen fs p v g ht key h] at hvis; cases hvis
  rw [vis_frame_gen fs' fs p v g (close_frame impl fs fs' p v g t hp hv hr) key hkey]; exact hvis

/-- **C05_commit_content**: a completed commit leaves generation `g` with exactly the given tag, the tag's state ids
are pairwise distinct and each named state file holds what was staged under that id. -/
theorem C05_commit_content (kf : Bool) (fs fs' : Fs) (p v g : Nat) (t : Tag)
    (hr : run fs (closeOps ⟨true, kf⟩ fs p v g t) = some fs') :
    tagOf fs' p v g = some t ∧ t.sids.Nodup ∧
    ∀ s ∈ t.sids, get fs' (stateP p v g s) = get fs (stagedStateP p v s) := by
  obtain ⟨_, c2, c3, c4⟩ := close_content kf fs fs' p v g t hr
  exact ⟨by simp [tagOf, c2, decode_encode], c3, c4⟩

/-! ### generation numbering and the release guard (directory levels) -/

/-- **C05_next_generation**: `Release.put` numbers the new generation 1 for an empty listing and otherwise one
above *every* listed generation (so above the highest one), the number below being listed. -/
theorem C05_next_generation (fs : Fs) (p v : Nat) :
    (generationsOf fs p v = [] → nextGen fs p v = 1) ∧
    (∀ g ∈ generationsOf fs p v, g < nextGen fs p v) ∧
    (generationsOf fs p v ≠ [] → nextGen fs p v - 1 ∈ generationsOf fs p v) := nextGen_spec fs p v

/-- **C05_latest_is_highest**: an implicit generation / release key (`get(None)`) resolves to a listed key that is
at least every listed one; it is undefined (`Listing.Empty`) exactly for an empty listing. -/
theorem C05_latest_is_highest (fs : Fs) (p v : Nat) :
    (∀ m, latestGen fs p v = some m → m ∈ generationsOf fs p v ∧ ∀ g ∈ generationsOf fs p v, g ≤ m)
    ∧ (latestGen fs p v = none ↔ generationsOf fs p v = [])
    ∧ (∀ m, latestRel fs p = some m → m ∈ releasesOf fs p ∧ ∀ w ∈ releasesOf fs p, w ≤ m)
    ∧ (latestRel fs p = none ↔ releasesOf fs p = []) := by
  have key : ∀ l : List Nat, (∀ m, maxOf l = some m → m ∈ l ∧ ∀ g ∈ l, g ≤ m) ∧ (maxOf l = none ↔ l = []) := by
    intro l
    constructor
    · intro m hm
      have hne : l ≠ [] := by intro h; simp [h, maxOf] at hm
      obtain ⟨m', hm', hin⟩ := mem_maxOf l hne
      rw [hm] at hm'; cases hm'
      refine ⟨hin, fun g hg => ?_⟩
      obtain ⟨m'', hm'', hle⟩ := le_maxOf l g hg
      rw [hm] at hm''; cases hm''; exact hle
    · constructor
      · intro h
        cases l with
        | nil => rfl
        | cons x r => obtain ⟨m, hm, _⟩ := mem_maxOf (x :: r) (by simp); rw [h] at hm; cases hm
      · intro h; simp [h, maxOf]
  exact ⟨(key _).1, (key _).2, (key _).1, (key _).2⟩

/-- The statement for releases: `Project.put` accepts a package `(name, v)` only if `v` is greater than every
listed release of project `name`. -/
def ReleaseMonotonic (impl : Impl) : Prop :=
  ∀ (fs : Fs) (dirProj name v : Nat), publishGuard impl fs dirProj name v = none →
    ∀ w ∈ releasesOf fs name, w < v

/-- **C05_release_monotonic**: with the project key compared first (the code that exists), an accepted release is
greater than every listed release of the project it is pushed to. -/
theorem C05_release_monotonic (st : Bool) : ReleaseMonotonic ⟨st, true⟩ := by
  intro fs dp name v hg w hw
  simp only [publishGuard, Bool.true_and] at hg
  by_cases hn : name = dp
  · subst hn
    simp only [bne_self_eq_false, Bool.false_eq_true, if_false] at hg
    have hl : projListed fs name = true := by
      simp only [projListed, Bool.not_eq_true', List.isEmpty_eq_false_iff]
      intro h; rw [h] at hw; cases hw
    obtain ⟨m, hm, hle⟩ := le_maxOf _ w hw
    simp only [hl, if_true, hm] at hg
    split at hg
    · cases hg
    · split at hg
      · omega
      · cases hg
  · have : (name != dp) = true := by simp [hn]
    simp [this] at hg

/-- **C05_release_monotonic_original_partial**: the code before the fix guarantees it when the package is put through
its own project's key. -/
theorem C05_release_monotonic_original_partial (st : Bool) (fs : Fs) (name v : Nat)
    (hg : publishGuard ⟨st, false⟩ fs name name v = none) : ∀ w ∈ releasesOf fs name, w < v := by
  intro w hw
  simp only [publishGuard, Bool.false_and, Bool.false_eq_true, if_false] at hg
  have hl : projListed fs name = true := by
    simp only [projListed, Bool.not_eq_true', List.isEmpty_eq_false_iff]
    intro h; rw [h] at hw; cases hw
  obtain ⟨m, hm, hle⟩ := le_maxOf _ w hw
  simp only [hl, if_true, hm] at hg
  split at hg
  · cases hg
  · split at hg
    · omega
    · cases hg

/-- **C05_release_monotonic_original_counterexample**: release 3 of project 0 exists; putting the package `(0, 1)`
through the unlisted project key 2 was accepted by the code before the fix.  (Finding C05-F4.) -/
theorem C05_release_monotonic_original_counterexample : ¬ ReleaseMonotonic Impl.original := by
  intro h
  have := h (runSome Fs.empty (pushOps Impl.original Fs.empty 0 3 (.file [7]))).1 2 0 1 (by decide) 3 (by decide)
  revert this; decide

/-! ### crash consistency of a publish (`Registry.push` under `Project.put`) -/

/-- The statement for a publish: whenever the process dies, a fresh reader sees the previous content or the
complete new release. -/
def PublishCrashConsistent (impl : Impl) : Prop :=
  ∀ (fs c : Fs) (p v : Nat) (pkg : Pkg) (k : Nat) (cut : Option Nat),
    WF fs → relListed fs p v = false →
    run fs (crashOps (atomsAll (pushOps impl fs p v pkg)) k cut) = some c →
    ViewEq c fs ∨ run fs (atomsAll (pushOps impl fs p v pkg)) = some c

/-- **C05_publish_crash**: with the package (file or directory tree) written under a temporary sibling name and
renamed (the code that exists), a publish is crash consistent at every crash point, for every well-formed tree
(including leftovers of earlier interrupted publishes) and package. -/
theorem C05_publish_crash (kf : Bool) : PublishCrashConsistent ⟨true, kf⟩ := by
  intro fs c p v pkg k cut w hnl hc
  rcases push_crash_raw kf fs c p v pkg k cut hc with hq | hfull
  · exact Or.inl (hq.viewEq w (package_absent fs p v w hnl))
  · exact Or.inr hfull

/-- **C05_publish_crash_original_counterexample_file**: in the code before the fix a process death right after the
package file is opened leaves release 0/1 listed with an empty package.  (Finding C05-F2.) -/
theorem C05_publish_crash_original_counterexample_file : ¬ PublishCrashConsistent Impl.original := by
  intro h
  have := h Fs.empty (runSome Fs.empty (crashOps (atomsAll (pushOps Impl.original Fs.empty 0 1 (.file [7, 7]))) 3 none)).1
    0 1 (.file [7, 7]) 3 none (by decide) (by decide) (by decide)
  rcases this with h1 | h1
  · have := h1 (packageP 0 1); revert this; decide
  · revert h1; decide

/-- **C05_publish_crash_original_counterexample_tree**: the same for a directory package: after `mkdir package.4ml`
and one copied member the release is listed with an incomplete tree.  (Finding C05-F3.) -/
theorem C05_publish_crash_original_counterexample_tree :
    let ops := atomsAll (pushOps Impl.original Fs.empty 0 1 (.dir [(1, [4]), (0, [5, 6])]))
    let c := (runSome Fs.empty (crashOps ops 5 none)).1
    let full := (runSome Fs.empty ops).1
    relListed c 0 1 = true ∧ vis c (packageP 0 1 ++ [.member 0]) = none
      ∧ vis full (packageP 0 1 ++ [.member 0]) = some (.file [5, 6]) := by decide

/-! ## Part 2 — whole histories of the code that exists (`Impl.repaired`)

`evs` ranges over *all* lists of events: publishes and trainings with arbitrary arguments (valid or not), each either
run to its end or killed at an arbitrary micro-operation / inside an arbitrary write, after which the history goes on. -/

/-- **C05_history_crash_consistent**: after *any* history, for *any* next step and *any* crash point of it (after `k`
completed micro-operations of the step's registry calls, optionally inside the next write): a fresh reader sees
exactly the previous content, or the step had completed successfully and the reader sees its complete result. -/
theorem C05_history_crash_consistent (evs : List Ev) (s : Step) (k : Nat) (cut : Option Nat) :
    let fs := play Impl.repaired Fs.empty evs
    ViewEq (crashIn Impl.repaired fs s k cut) fs
      ∨ ((exec Impl.repaired fs s).err = none ∧ crashIn Impl.repaired fs s k cut = (exec Impl.repaired fs s).fs) :=
  (step_left _ (history_good evs) s _ (Or.inr ⟨k, cut, rfl⟩)).2

/-- **C05_history_never_corrupt**: after any history — in particular right after any process death — every generation
a fresh reader lists has a tag that decodes, and every state the tag names is there to be read: never a listed
generation whose metadata or states are missing or unreadable. -/
theorem C05_history_never_corrupt (evs : List Ev) (p v g : Nat)
    (h : genListed (play Impl.repaired Fs.empty evs) p v g = true) :
    ∃ t, tagOf (play Impl.repaired Fs.empty evs) p v g = some t
      ∧ ∀ s ∈ t.sids, ∃ b, vis (play Impl.repaired Fs.empty evs) (stateP p v g s) = some (.file b) := by
  have hv : genValid (play Impl.repaired Fs.empty evs) p v g = true := by
    simp only [genListed, Bool.and_eq_true] at h; exact h.2
  obtain ⟨t, ht, hs⟩ := (history_good evs).healthy p v g hv
  refine ⟨t, ht, fun s hsin => ?_⟩
  obtain ⟨b, hb⟩ := hs s hsin
  have hc : t.sids.contains s = true := by simp only [List.contains_iff_mem]; exact hsin
  exact ⟨b, by simp only [vis, stateP, h, ht, hc, Bool.and_self, if_true]; exact hb⟩

/-- **C05_history_release_has_package**: every listed release has its package (listing = package present). -/
theorem C05_history_release_has_package (evs : List Ev) (p v : Nat)
    (h : relListed (play Impl.repaired Fs.empty evs) p v = true) :
    ∃ n, vis (play Impl.repaired Fs.empty evs) (packageP p v) = some n := by
  have := h
  simp only [relListed, Bool.and_eq_true, Option.isSome_iff_exists] at this
  obtain ⟨n, hn⟩ := this.2
  exact ⟨n, by simp only [vis, packageP, h, if_true]; exact hn⟩

/-- **C05_history_gap_free**: after any history the generations a reader lists for a release are exactly `1 .. n`. -/
theorem C05_history_gap_free (evs : List Ev) (p v g : Nat)
    (h : g ∈ generationsOf (play Impl.repaired Fs.empty evs) p v) :
    1 ≤ g ∧ ∀ g', 1 ≤ g' → g' ≤ g → g' ∈ generationsOf (play Impl.repaired Fs.empty evs) p v := by
  rw [mem_generationsOf] at h
  refine ⟨?_, fun g' h1 h2 => ?_⟩
  · simp only [genValid, Bool.and_eq_true, decide_eq_true_eq] at h; exact h.1.1
  · rw [mem_generationsOf]; exact (history_good evs).gapfree p v g h g' h1 h2

/-- **C05_history_failed_step_invisible**: a step that raises (refused by a guard, or a failing system call half-way)
changes nothing a reader can see. -/
theorem C05_history_failed_step_invisible (evs : List Ev) (s : Step)
    (h : (exec Impl.repaired (play Impl.repaired Fs.empty evs) s).err ≠ none) :
    ViewEq (exec Impl.repaired (play Impl.repaired Fs.empty evs) s).fs (play Impl.repaired Fs.empty evs) := by
  rcases (step_left _ (history_good evs) s _ (Or.inl rfl)).2 with hv | ⟨he, _⟩
  · exact hv
  · exact absurd he h

/-- **C05_history_train**: after any history, a successful training of release `p/v` (i) requires the release to be
listed, (ii) adds generation `nextGen` — 1 for an empty listing, else above every listed number with the number below
listed, i.e. (with `C05_history_gap_free`) one above the highest — listed, with a
tag holding the run's ordinal and exactly the run's state ids in the run's (actor) order, (iii) each named state holds
that run's bytes, and (iv) every other path — every older generation, tag, state, every package of every project —
looks to a fresh reader byte-for-byte as before (so exactly one generation was added). -/
theorem C05_history_train (evs : List Ev) (p v ord : Nat) (sts : List (Nat × Bytes))
    (h : (exec Impl.repaired (play Impl.repaired Fs.empty evs) (.train p v ord sts)).err = none) :
    let fs := play Impl.repaired Fs.empty evs
    let fs' := (exec Impl.repaired fs (.train p v ord sts)).fs
    relListed fs p v = true
    ∧ ((generationsOf fs p v = [] → nextGen fs p v = 1)
        ∧ (∀ g ∈ generationsOf fs p v, g < nextGen fs p v)
        ∧ (generationsOf fs p v ≠ [] → nextGen fs p v - 1 ∈ generationsOf fs p v))
    ∧ genListed fs' p v (nextGen fs p v) = true
    ∧ tagOf fs' p v (nextGen fs p v) = some ⟨ord, sts.map (·.1)⟩
    ∧ (sts.map (·.1)).Nodup
    ∧ (∀ sb ∈ sts, vis fs' (stateP p v (nextGen fs p v) sb.1) = some (.file sb.2))
    ∧ (∀ key, ¬ (generationP p v (nextGen fs p v) <+: key) → vis fs' key = vis fs key) := by
  obtain ⟨h1, h2⟩ := train_ok _ (history_good evs) p v ord sts h
  exact ⟨h1, nextGen_spec _ p v, h2⟩

/-- **C05_history_publish**: after any history, a successful publish of package `(name, v)` through project key `dp`
(i) has `dp = name` and `v` greater than every listed release of `name`, (ii) lists the new release with exactly
that package at its place (a file with the package bytes, or a directory whose members — distinct names — hold their
bytes), and (iii) every path outside the new release directory looks byte-for-byte as before. -/
theorem C05_history_publish (evs : List Ev) (dp name v : Nat) (pkg : Pkg)
    (h : (exec Impl.repaired (play Impl.repaired Fs.empty evs) (.publish dp name v pkg)).err = none) :
    let fs := play Impl.repaired Fs.empty evs
    let fs' := (exec Impl.repaired fs (.publish dp name v pkg)).fs
    dp = name ∧ (∀ w ∈ releasesOf fs name, w < v)
    ∧ relListed fs' name v = true
    ∧ pkg.placedAs (vis fs' (packageP name v))
    ∧ (∀ ms, pkg = .dir ms → (ms.map (·.1)).Nodup → ∀ m ∈ ms,
        vis fs' (packageP name v ++ [.member m.1]) = some (.file m.2))
    ∧ (∀ key, ¬ (releaseP name v <+: key) → vis fs' key = vis fs key) :=
  publish_ok _ (history_good evs) dp name v pkg h

/-- **C05_history_append_only**: whatever a fresh reader can see after a history (a package, a package member, a
tag, a state) it sees byte-identical after *any* continuation of that history — completed steps, refused steps,
process deaths at any point.  (This is also why the process-wide `lru_cache`s `TAGS` / `STATES` / `ARTIFACTS` of a
long-lived reader never go stale: a cached item equals what a fresh reader would read.) -/
theorem C05_history_append_only (evs evs' : List Ev) (key : Path) (n : Node)
    (h : vis (play Impl.repaired Fs.empty evs) key = some n) :
    vis (play Impl.repaired Fs.empty (evs ++ evs')) key = some n := by
  rw [play_append]
  have gd := history_good evs
  generalize play Impl.repaired Fs.empty evs = fs at h gd
  induction evs' generalizing fs with
  | nil => exact h
  | cons e r ih =>
    simp only [play]
    obtain ⟨s, hs⟩ := apply_leftBy fs e
    exact ih _ (apply_append_only fs gd e key n h) (step_left fs gd s _ hs).1

/-! ### non-vacuity: two projects, two releases of the first, three trainings, two process deaths with recovery -/

def demoHistory : List Step :=
  [.publish 0 0 2 (.file [1, 2, 3]), .publish 1 1 1 (.dir [(0, [9]), (1, [8, 8])]),
   .train 0 2 1 [(0, [1, 2, 3])], .publish 0 0 3 (.file [4]), .train 0 3 2 [(1, [4]), (2, [5, 6])],
   .train 0 2 3 [(3, [7])]]

/-- the same with a training killed after the first state was moved, a directory publish killed while copying, and
both retried by a new process -/
def demoEvents : List Ev :=
  [.step (.publish 0 0 2 (.file [1, 2, 3])), .crash (.publish 1 1 1 (.dir [(0, [9]), (1, [8, 8])])) 6 (some 1),
   .step (.publish 1 1 1 (.dir [(0, [9]), (1, [8, 8])])), .step (.train 0 2 1 [(0, [1, 2, 3])]),
   .crash (.train 0 2 2 [(1, [4]), (2, [5, 6])]) 6 none, .step (.train 0 2 3 [(3, [7]), (4, [8])]),
   .step (.publish 0 0 1 (.file [4])), .step (.publish 0 0 3 (.file [4]))]

/-- every step of the demo history succeeds under both variants, generations are numbered 1, 2 / 1 and hold the
runs' states in order; the tree is well formed and satisfies the hypotheses of the commit theorems for the next
generation -/
example : ((execAll Impl.repaired Fs.empty demoHistory).2.all (fun o => o.err.isNone)) = true := by decide
example : ((execAll Impl.original Fs.empty demoHistory).2.all (fun o => o.err.isNone)) = true := by decide
example : let fs := (execAll Impl.repaired Fs.empty demoHistory).1
    generationsOf fs 0 2 = [2, 1] ∧ generationsOf fs 0 3 = [1] ∧ releasesOf fs 0 = [3, 2] ∧ releasesOf fs 1 = [1]
    ∧ tagOf fs 0 3 1 = some ⟨2, [1, 2]⟩ ∧ vis fs (stateP 0 3 1 2) = some (.file [5, 6]) ∧ nextGen fs 0 2 = 3
    ∧ WF fs ∧ get fs (projectP 0) ≠ none ∧ get fs (releaseP 0 2) ≠ none ∧ get fs (tagP 0 2 3) = none := by decide
example : (exec Impl.original (execAll Impl.original Fs.empty demoHistory).1 (.publish 0 0 2 (.file [1]))).err
    = some .invalid := by decide
example : (exec Impl.repaired Fs.empty (.publish 2 0 1 (.file [1]))).err = some .mismatch := by decide
/-- the crash-recovery history: the killed publish left a temporary tree that the retry removes (`rmtree`), the killed
training left generation directory 2 with one moved state and no tag, the retry reuses number 2; the refused publish
(version 1 < 2) changes nothing -/
example : let fs := play Impl.repaired Fs.empty demoEvents
    generationsOf fs 0 2 = [2, 1] ∧ releasesOf fs 0 = [3, 2] ∧ releasesOf fs 1 = [1]
    ∧ tagOf fs 0 2 2 = some ⟨3, [3, 4]⟩ ∧ vis fs (stateP 0 2 2 4) = some (.file [8])
    ∧ vis fs (stateP 0 2 2 1) = none ∧ get fs (stateP 0 2 2 1) = some (.file [4])
    ∧ vis fs (packageP 1 1 ++ [.member 1]) = some (.file [8, 8]) := by decide
example : let fs := play Impl.repaired Fs.empty (demoEvents.take 2)
    get fs (packageTmpP 1 1) = some .dir ∧ get fs (packageTmpP 1 1 ++ [.member 1]) = some (.file [8])
    ∧ releasesOf fs 1 = [] := by decide
example : ((exec Impl.repaired (play Impl.repaired Fs.empty (demoEvents.take 2))
    (.publish 1 1 1 (.dir [(0, [9]), (1, [8, 8])]))).calls.head?.bind List.head?)
    = some (.rmtree (packageTmpP 1 1)) := by decide

end ForML.Registry
