/-
C11 — Graph construction keeps topology invariants under any call sequence.

Property theorems over `ForML.Model.Graph` (the model of forml's construction API with
`fixes/C11-atomic-topology-errors.diff` applied); helper lemmas live in `ForML/Lemmas/C11*.lean`.
Reading of the statement:
  * `Wf`       = (I2) no self-loop, (I3) apply xor train, (I4) one trained member per group, (I5) trained workers
                 publish nothing, (I6) `_PORTS` = ports having an edge, (I7) publishers exist / subscribers are
                 workers, (I8) registrations sit on placeholders;  `Inv` = (I1) one publisher per input port ∧ `Wf`;
  * atomicity  = a call answering an error leaves the state exactly as it was;
  * transparency = what an output port holds is held by everything registered upstream of it (complete) and the
                 holders of one subscription form one chain of registrations (sound);
  * cycles     = a successfully auto-traced segment has no walk from the head that returns to a passed node;
  * placeholders: a validated segment contains no placeholder (but a placeholder tail).
`Wf` and atomicity hold for every call sequence, whatever the route (workers, placeholders, failed calls,
retries).  (I1) is false of the code that exists when two publishers are registered on one placeholder port
(finding C11-F1): `_full` + `_counterexample` + `_partial`.  The placeholder clause is false when the head
placeholder compares equal to the tail worker, i.e. the tail is its registered publisher (finding C11-F2): `_full` + `_counterexample` + `_partial`.
-/
import ForML.Lemmas.C11Closure
import ForML.Lemmas.C11Cycle

namespace ForML.Graph

/-! ### helper lemmas -/

private theorem worker_or_future (g : G) (n : Nat) (h : n < g.nodes.length) :
    isWorker g n = true ∨ isFuture g n = true := by
  unfold isWorker isFuture
  have : g.nodes[n]? = some g.nodes[n] := List.getElem?_eq_getElem h
  rw [this]
  rcases g.nodes[n] with ⟨k, a, b⟩
  cases k <;> simp

private theorem publish_future' (g : G) (p pi s k : Nat) (hf : isFuture g s = true) (hne : s ≠ p) :
    publish g p pi ⟨s, .apply k⟩ = register g s k p pi :=
  publish_future g p pi ⟨s, .apply k⟩ hf hne

/-- creating a node keeps `Wf` -/
private theorem wf_nodes (g : G) (nd : Node) (k : Nat) (hw : Wf g) :
    Wf { g with nodes := g.nodes ++ [nd], ngroups := k } := by
  obtain ⟨i2, i3, i4, i5, i6, i7, i8⟩ := hw
  have hwk : ∀ n, n < g.nodes.length →
      isWorker { g with nodes := g.nodes ++ [nd], ngroups := k } n = isWorker g n := by
    intro n h; simp [isWorker, List.getElem?_append_left h]
  have hfu : ∀ n, n < g.nodes.length →
      isFuture { g with nodes := g.nodes ++ [nd], ngroups := k } n = isFuture g n := by
    intro n h; simp [isFuture, List.getElem?_append_left h]
  have hg : ∀ n, n < g.nodes.length →
      gid? { g with nodes := g.nodes ++ [nd], ngroups := k } n = gid? g n := by
    intro n h; simp [gid?, List.getElem?_append_left h]
  refine ⟨i2, i3, ?_, i5, i6, ?_, ?_⟩
  · intro e he e' he' ha ha' hgid
    rw [hg _ (isWorker_lt _ _ (i7 e he).2), hg _ (isWorker_lt _ _ (i7 e' he').2)] at hgid
    exact i4 e he e' he' ha ha' hgid
  · intro e he
    have h := i7 e he
    refine ⟨?_, ?_⟩
    · have := h.1
      simp only [List.length_append, List.length_singleton]; omega
    · rw [hwk _ (isWorker_lt _ _ h.2)]; exact h.2
  · intro r hr
    have h := i8 r hr
    refine ⟨?_, ?_⟩
    · rw [hfu _ (isFuture_lt _ _ h.1)]; exact h.1
    · have := h.2
      simp only [List.length_append, List.length_singleton]; omega

/-! ### C11 — well-formedness after every call sequence -/

/-- one call — legal or illegal, succeeding or raising, between workers or through placeholders — keeps `Wf` -/
theorem C11_wf_step (g : G) (op : Op) (hw : Wf g) : Wf (step g op).1 := by
  cases op with
  | mkWorker st i o =>
    simp only [step, mkWorker]; split
    · exact hw
    · exact wf_nodes g _ _ hw
  | mkFuture i o =>
    simp only [step, mkFuture]; split
    · exact hw
    · exact wf_nodes g _ g.ngroups hw
  | fork n =>
    simp only [step, fork]; split
    · exact hw
    · exact wf_nodes g _ g.ngroups hw
  | subscribe s j p pi =>
    simp only [step, subscribe]
    split
    · exact hw
    · rename_i hlen
      have hs : s < g.nodes.length := by omega
      have hp : p < g.nodes.length := by omega
      split
      · rename_i hf; exact register_wf g s j p pi hw hf hp
      · rename_i hf
        have hwk : isWorker g s = true := by
          rcases worker_or_future g s hs with h | h
          · exact h
          · exact absurd h hf
        exact publish_wf g p pi ⟨s, .apply j⟩ hw hwk hp (fun h => by simp [Port.isApply] at h)
  | publish p pi s k =>
    simp only [step, publishOp]
    split
    · exact hw
    · rename_i hlen
      have hs : s < g.nodes.length := by omega
      have hp : p < g.nodes.length := by omega
      rcases worker_or_future g s hs with hwk | hf
      · exact publish_wf g p pi ⟨s, .apply k⟩ hw hwk hp (fun h => by simp [Port.isApply] at h)
      · by_cases heq : s = p
        · obtain ⟨e, h⟩ := publish_self_future g p pi ⟨s, .apply k⟩ hf heq
          rw [h]; exact hw
        · rw [publish_future' g p pi s k hf heq]
          exact register_wf g s k p pi hw hf hp
  | train n tp ti lp li =>
    simp only [step]
    rcases train_cases g n tp ti lp li hw with ⟨e, h⟩ | ⟨L1, L2, h, _, _, hw2, _⟩
    · rw [h]; exact hw
    · rw [h]; exact hw2
  | segment h t => exact hw
  | validate h t => exact hw

theorem C11_wf_init : Wf init := by decide

/-- **C11_wf**: after any sequence of construction calls no node feeds itself, every worker is subscribed either
for training or for applying, every group has at most one trained member, trained workers publish nothing,
and the `_PORTS` registry is exactly the set of subscribed ports -/
theorem C11_wf (ops : List Op) : Wf (run init ops) := by
  suffices h : ∀ g, Wf g → Wf (run g ops) from h init C11_wf_init
  induction ops with
  | nil => intro g hw; exact hw
  | cons op ops ih => intro g hw; exact ih _ (C11_wf_step g op hw)

/-! ### C11 — atomicity -/

/-- a call that raises leaves a well-formed state exactly as it was — every kind of call, every route -/
theorem C11_atomic_step (g : G) (op : Op) (hw : Wf g) (he : (step g op).2.isErr = true) : (step g op).1 = g := by
  cases op with
  | mkWorker st i o =>
    simp only [step, mkWorker] at he ⊢
    split at he <;> simp_all [Res.isErr]
  | mkFuture i o =>
    simp only [step, mkFuture] at he ⊢
    split at he <;> simp_all [Res.isErr]
  | fork n =>
    simp only [step, fork] at he ⊢
    split at he <;> simp_all [Res.isErr]
  | subscribe s j p pi =>
    simp only [step, subscribe] at he ⊢
    split
    · rfl
    · rename_i hlen
      simp only [hlen, ↓reduceIte] at he
      have hs : s < g.nodes.length := by omega
      have hp : p < g.nodes.length := by omega
      split
      · rename_i hf
        simp only [hf, ↓reduceIte] at he
        exact register_atomic g s j p pi hw hf hp he
      · rename_i hf
        simp only [hf] at he
        have hwk : isWorker g s = true := by
          rcases worker_or_future g s hs with h | h
          · exact h
          · exact absurd h hf
        exact publish_atomic g p pi ⟨s, .apply j⟩ hw hwk hp he
  | publish p pi s k =>
    simp only [step, publishOp] at he ⊢
    split
    · rfl
    · rename_i hlen
      simp only [hlen, ↓reduceIte] at he
      have hs : s < g.nodes.length := by omega
      have hp : p < g.nodes.length := by omega
      rcases worker_or_future g s hs with hwk | hf
      · exact publish_atomic g p pi ⟨s, .apply k⟩ hw hwk hp he
      · by_cases heq : s = p
        · obtain ⟨e, h⟩ := publish_self_future g p pi ⟨s, .apply k⟩ hf heq
          rw [h]
        · rw [publish_future' g p pi s k hf heq] at he ⊢
          exact register_atomic g s k p pi hw hf hp he
  | train n tp ti lp li =>
    simp only [step] at he ⊢
    rcases train_cases g n tp ti lp li hw with ⟨e, h⟩ | ⟨L1, L2, h, _⟩
    · rw [h]
    · rw [h] at he; simp [Res.isErr] at he
  | segment h t => rfl
  | validate h t => rfl

/-- **C11_atomic**: after any sequence of construction calls, a call that raises leaves the graph exactly as it was -/
theorem C11_atomic (ops : List Op) (op : Op) (he : (step (run init ops) op).2.isErr = true) :
    (step (run init ops) op).1 = run init ops :=
  C11_atomic_step _ op (C11_wf ops) he

/-- non-vacuity: failing calls of every kind on a non-trivial graph (self subscription through a placeholder,
trained publisher behind a placeholder, label stage of `train`, cycle of placeholders) -/
example :
    let ops := [Op.mkWorker true 1 1, .mkWorker false 1 1, .mkFuture 1 1, .mkFuture 1 1, .subscribe 2 0 1 0,
                .subscribe 1 0 2 0, .train 0 1 0 0 0, .subscribe 3 0 2 0, .subscribe 2 0 3 0, .train 0 2 0 1 0,
                .subscribe 2 0 0 0]
    (step (run init (ops.take 5)) (ops.getD 5 (.fork 0))).2 = .err .self ∧
    (step (run init (ops.take 6)) (ops.getD 6 (.fork 0))).2 = .err .trainedPublishing ∧
    (step (run init (ops.take 8)) (ops.getD 8 (.fork 0))).2 = .err .self ∧
    (run init ops).edges.length = 3 := by
  decide

/-! ### C11 — one publisher per input port (worker and placeholder routes, any order of the calls) -/

/-- the call does not give a placeholder input port a second publisher -/
def SingleOp (g : G) : Op → Bool
  | .subscribe s j _ _ => !(isFuture g s && g.regs.any (fun r => r.fut == s && r.idx == j))
  | .publish _ _ s k => !(isFuture g s && g.regs.any (fun r => r.fut == s && r.idx == k))
  | _ => true

/-- one call (any kind, any route, failing or not) that registers no second publisher on a placeholder port keeps
"the holders of a subscription form one chain of registrations" -/
theorem C11_chain_step (g : G) (op : Op) (hw : Wf g) (hs : SingleReg g) (hc : Chain g)
    (ho : SingleOp g op = true) : SingleReg (step g op).1 ∧ Chain (step g op).1 := by
  cases op with
  | mkWorker st i o =>
    simp only [step, mkWorker]; split
    · exact ⟨hs, hc⟩
    · exact ⟨hs, chain_congr g _ rfl rfl hc⟩
  | mkFuture i o =>
    simp only [step, mkFuture]; split
    · exact ⟨hs, hc⟩
    · exact ⟨hs, chain_congr g _ rfl rfl hc⟩
  | fork n =>
    simp only [step, fork]; split
    · exact ⟨hs, hc⟩
    · exact ⟨hs, chain_congr g _ rfl rfl hc⟩
  | subscribe s j p pi =>
    simp only [step, subscribe]
    split
    · exact ⟨hs, hc⟩
    · rename_i hlen
      have hsl : s < g.nodes.length := by omega
      have hp : p < g.nodes.length := by omega
      split
      · rename_i hf
        have hno : ∀ r ∈ g.regs, ¬(r.fut = s ∧ r.idx = j) := by
          intro r hr ⟨h1, h2⟩
          simp only [SingleOp, hf, Bool.true_and, Bool.not_eq_true', List.any_eq_false, Bool.and_eq_true,
            beq_iff_eq, not_and] at ho
          exact ho r hr h1 h2
        rcases register_cases g s j p pi hw hf hp with ⟨e, h⟩ | ⟨L, h, facts⟩
        · rw [h]; exact ⟨hs, hc⟩
        · rw [h]; exact chain_register g s j p pi L hs hc hno facts
      · rename_i hf
        have hwk : isWorker g s = true := by
          rcases worker_or_future g s hsl with h | h
          · exact h
          · exact absurd h hf
        rcases publish_cases g p pi ⟨s, .apply j⟩ hw hwk hp with ⟨e, h⟩ | ⟨L, h, _, facts⟩
        · rw [h]; exact ⟨hs, hc⟩
        · rw [h]
          obtain ⟨_, fresh, _, _, _, f5, f6⟩ := facts
          exact ⟨hs, chain_publish g _ ⟨s, .apply j⟩ L p pi (fuelOf g) hs hc rfl rfl fresh
            (fun e he => ⟨(f5 e he).1, f6 e he⟩)⟩
  | publish p pi s k =>
    simp only [step, publishOp]
    split
    · exact ⟨hs, hc⟩
    · rename_i hlen
      have hsl : s < g.nodes.length := by omega
      have hp : p < g.nodes.length := by omega
      rcases worker_or_future g s hsl with hwk | hf
      · rcases publish_cases g p pi ⟨s, .apply k⟩ hw hwk hp with ⟨e, h⟩ | ⟨L, h, _, facts⟩
        · rw [h]; exact ⟨hs, hc⟩
        · rw [h]
          obtain ⟨_, fresh, _, _, _, f5, f6⟩ := facts
          exact ⟨hs, chain_publish g _ ⟨s, .apply k⟩ L p pi (fuelOf g) hs hc rfl rfl fresh
            (fun e he => ⟨(f5 e he).1, f6 e he⟩)⟩
      · by_cases heq : s = p
        · obtain ⟨e, h⟩ := publish_self_future g p pi ⟨s, .apply k⟩ hf heq
          rw [h]; exact ⟨hs, hc⟩
        · rw [publish_future' g p pi s k hf heq]
          have hno : ∀ r ∈ g.regs, ¬(r.fut = s ∧ r.idx = k) := by
            intro r hr ⟨h1, h2⟩
            simp only [SingleOp, hf, Bool.true_and, Bool.not_eq_true', List.any_eq_false, Bool.and_eq_true,
              beq_iff_eq, not_and] at ho
            exact ho r hr h1 h2
          rcases register_cases g s k p pi hw hf hp with ⟨e, h⟩ | ⟨L, h, facts⟩
          · rw [h]; exact ⟨hs, hc⟩
          · rw [h]; exact chain_register g s k p pi L hs hc hno facts
  | train n tp ti lp li =>
    simp only [step]
    rcases train_cases g n tp ti lp li hw with ⟨e, h⟩ | ⟨L1, L2, h, facts1, facts2, _, _⟩
    · rw [h]; exact ⟨hs, hc⟩
    · rw [h]
      obtain ⟨_, fresh1, _, _, _, a5, a6⟩ := facts1
      obtain ⟨_, fresh2, _, _, _, b5, b6⟩ := facts2
      have hc1 : Chain { g with edges := g.edges ++ L1, ports := g.ports ++ [⟨n, .train⟩] } :=
        chain_publish g _ ⟨n, .train⟩ L1 tp ti (fuelOf g) hs hc rfl rfl fresh1 (fun e he => ⟨(a5 e he).1, a6 e he⟩)
      exact ⟨hs, chain_publish { g with edges := g.edges ++ L1, ports := g.ports ++ [⟨n, .train⟩] } _ ⟨n, .label⟩ L2
        lp li _ hs hc1 rfl rfl fresh2 (fun e he => ⟨(b5 e he).1, b6 e he⟩)⟩
  | segment h t => exact ⟨hs, hc⟩
  | validate h t => exact ⟨hs, hc⟩

/-- no call of the sequence registers a second publisher on a placeholder port (decidable along the run) -/
def AllSingle : G → List Op → Prop
  | _, [] => True
  | g, op :: ops => SingleOp g op = true ∧ AllSingle (step g op).1 ops

instance : (g : G) → (ops : List Op) → Decidable (AllSingle g ops)
  | _, [] => isTrue trivial
  | g, op :: ops =>
    have := instDecidableAllSingle (step g op).1 ops
    by unfold AllSingle; infer_instance

private theorem single_run (g : G) (ops : List Op) (hw : Wf g) (hs : SingleReg g) (hc : Chain g)
    (ha : AllSingle g ops) : Wf (run g ops) ∧ SingleReg (run g ops) ∧ Chain (run g ops) := by
  induction ops generalizing g with
  | nil => exact ⟨hw, hs, hc⟩
  | cons op ops ih =>
    obtain ⟨s1, c1⟩ := C11_chain_step g op hw hs hc ha.1
    exact ih _ (C11_wf_step g op hw) s1 c1 ha.2

/-- **C11_future_sound**: calls routed through any number of placeholders, in any order, connect nothing but the
chain of registrations: whenever two output ports hold the same subscription, one of them is upstream of the other
through the registered publishers (a worker port holding it is upstream of every placeholder port holding it) -/
theorem C11_future_sound (ops : List Op) (ha : AllSingle init ops) : Chain (run init ops) :=
  (single_run init ops C11_wf_init (by intro r hr; cases hr) (by intro e he; cases he) ha).2.2

theorem C11_invariant_init : Inv init := by decide

/-- full strength: all the invariants, (I1) included, hold after every sequence of construction calls -/
def C11_invariant_full : Prop := ∀ ops : List Op, Inv (run init ops)

/-- C11-F1: two publishers registered on one placeholder port, then a subscriber: two publishers on one input port -/
theorem C11_invariant_counterexample : ¬ C11_invariant_full := by
  intro h
  have := h [.mkWorker false 1 1, .mkWorker false 1 1, .mkFuture 1 1, .mkWorker false 1 1,
             .subscribe 2 0 0 0, .subscribe 2 0 1 0, .subscribe 3 0 2 0]
  revert this
  decide

/-- the same witness violates (I1) specifically -/
theorem C11_I1_counterexample :
    ¬ I1 (run init [.mkWorker false 1 1, .mkWorker false 1 1, .mkFuture 1 1, .mkWorker false 1 1,
                    .subscribe 2 0 0 0, .subscribe 2 0 1 0, .subscribe 3 0 2 0]) := by
  unfold I1; decide

/-- **C11_invariant_partial**: all the invariants, one publisher per input port included, hold after every call
sequence — any length, worker routes and placeholder routes, any number of placeholders connected in any order,
legal and illegal calls, failed calls and retries in any interleaving — in which no placeholder input port is
given a second publisher -/
theorem C11_invariant_partial (ops : List Op) (ha : AllSingle init ops) : Inv (run init ops) := by
  obtain ⟨hw, _, hc⟩ := single_run init ops C11_wf_init (by intro r hr; cases hr) (by intro e he; cases he) ha
  exact ⟨i1_of_chain hw.2.2.2.2.2.2 hc, hw⟩

/-- non-vacuity: legal and illegal worker-to-worker calls (trained publisher, fork collision, retry, failing train
at the label stage) satisfy the hypothesis and end in a non-trivial graph -/
example :
    let ops := [Op.mkWorker true 1 1, .mkWorker false 1 2, .fork 0, .mkFuture 1 1, .subscribe 0 0 1 0,
                .train 0 1 0 1 0, .train 2 1 1 0 0, .train 2 1 1 1 0, .subscribe 1 0 2 0, .train 0 1 0 1 0,
                .segment 1 none]
    AllSingle init ops ∧ (run init ops).edges.length = 3 := by
  decide

/-- non-vacuity: a chain of placeholders wired downstream-first, upstream-last, with failing calls in between -/
example :
    let ops := [Op.mkWorker false 1 1, .mkFuture 1 1, .mkFuture 1 1, .mkWorker false 1 1, .mkWorker false 1 1,
                .subscribe 3 0 2 0, .subscribe 4 0 2 0, .subscribe 2 0 1 0, .subscribe 1 0 2 0, .subscribe 1 0 0 0,
                .subscribe 0 0 2 0]
    AllSingle init ops ∧ (run init ops).edges.length = 6 ∧
    (resolve (run init ops)).map (fun e => (e.pub, e.sub.node)) = [(0, 3), (0, 4)] := by
  decide

/-! ### C11 — completeness of the connections made through placeholders, any order of the calls -/

private theorem closed_nodes (g : G) (nd : Node) (k : Nat) (hw : Wf g) (hc : Closed g) :
    Closed { g with nodes := g.nodes ++ [nd], ngroups := k } := by
  intro e he
  refine holdsUp_lift g ({ g with nodes := g.nodes ++ [nd], ngroups := k } : G) rfl (fun _ h => h) ?_ (hc e he)
  intro x hx
  simp [isFuture, List.getElem?_append_left (hw.2.2.2.2.2.1 x hx).1]

/-- one call keeps "whatever an output port holds is held by every publisher registered on it, all the way up" -/
theorem C11_closed_step (g : G) (op : Op) (hw : Wf g) (hc : Closed g) : Closed (step g op).1 := by
  cases op with
  | mkWorker st i o =>
    simp only [step, mkWorker]; split
    · exact hc
    · exact closed_nodes g _ _ hw hc
  | mkFuture i o =>
    simp only [step, mkFuture]; split
    · exact hc
    · exact closed_nodes g _ g.ngroups hw hc
  | fork n =>
    simp only [step, fork]; split
    · exact hc
    · exact closed_nodes g _ g.ngroups hw hc
  | subscribe s j p pi =>
    simp only [step, subscribe]
    split
    · exact hc
    · rename_i hlen
      have hsl : s < g.nodes.length := by omega
      have hp : p < g.nodes.length := by omega
      split
      · rename_i hf
        rcases register_cases g s j p pi hw hf hp with ⟨e, h⟩ | ⟨L, h, facts⟩
        · rw [h]; exact hc
        · rw [h]; exact closed_register g s j p pi L hc h facts
      · rename_i hf
        have hwk : isWorker g s = true := by
          rcases worker_or_future g s hsl with h | h
          · exact h
          · exact absurd h hf
        rcases publish_cases g p pi ⟨s, .apply j⟩ hw hwk hp with ⟨e, h⟩ | ⟨L, h, hpt, facts⟩
        · rw [h]; exact hc
        · rw [h]
          obtain ⟨_, _, _, _, _, f5, f6⟩ := facts
          exact closed_publish g p pi ⟨s, .apply j⟩ L hc hpt (fun e he => ⟨(f5 e he).1, f6 e he⟩)
  | publish p pi s k =>
    simp only [step, publishOp]
    split
    · exact hc
    · rename_i hlen
      have hsl : s < g.nodes.length := by omega
      have hp : p < g.nodes.length := by omega
      rcases worker_or_future g s hsl with hwk | hf
      · rcases publish_cases g p pi ⟨s, .apply k⟩ hw hwk hp with ⟨e, h⟩ | ⟨L, h, hpt, facts⟩
        · rw [h]; exact hc
        · rw [h]
          obtain ⟨_, _, _, _, _, f5, f6⟩ := facts
          exact closed_publish g p pi ⟨s, .apply k⟩ L hc hpt (fun e he => ⟨(f5 e he).1, f6 e he⟩)
      · by_cases heq : s = p
        · obtain ⟨e, h⟩ := publish_self_future g p pi ⟨s, .apply k⟩ hf heq
          rw [h]; exact hc
        · rw [publish_future' g p pi s k hf heq]
          rcases register_cases g s k p pi hw hf hp with ⟨e, h⟩ | ⟨L, h, facts⟩
          · rw [h]; exact hc
          · rw [h]; exact closed_register g s k p pi L hc h facts
  | train n tp ti lp li =>
    simp only [step]
    rcases train_cases g n tp ti lp li hw with ⟨e, h⟩ | ⟨L1, L2, h, facts1, facts2, _, hpt1, hpt2⟩
    · rw [h]; exact hc
    · rw [h]
      obtain ⟨_, _, _, _, _, a5, a6⟩ := facts1
      obtain ⟨_, _, _, _, _, b5, b6⟩ := facts2
      have hc1 := closed_publish g tp ti ⟨n, .train⟩ L1 hc hpt1 (fun e he => ⟨(a5 e he).1, a6 e he⟩)
      exact closed_publish _ lp li ⟨n, .label⟩ L2 hc1 hpt2 (fun e he => ⟨(b5 e he).1, b6 e he⟩)
  | segment h t => exact hc
  | validate h t => exact hc

/-- **C11_future_complete**: after any sequence of construction calls — any number of placeholders, connected in
any order, several publishers per placeholder port included — a subscription held by an output port is held by
every output port upstream of it through the registered publishers; in particular every worker registered
(transitively) on a placeholder is connected to every subscriber of that placeholder, exactly as if it had been
wired directly -/
theorem C11_future_complete (ops : List Op) (e : Edge) (he : e ∈ (run init ops).edges) (x : Nat × Nat)
    (hu : Up (run init ops) (e.pub, e.out) x) : (⟨x.1, x.2, e.sub⟩ : Edge) ∈ (run init ops).edges := by
  have hcl : ∀ (ops : List Op) (g : G), Wf g → Closed g → Closed (run g ops) := by
    intro ops
    induction ops with
    | nil => intro g _ hc; exact hc
    | cons op ops ih => intro g hw hc; exact ih _ (C11_wf_step g op hw) (C11_closed_step g op hw hc)
  have hc := hcl ops init C11_wf_init (by intro e he; cases he)
  exact (holdsUp_up (C11_wf ops).2.2.2.2.2.2 hu (hc e he)).edge

/-! ### C11 — cycles are rejected when a segment is traced -/

/-- **C11_cycle**: when `Segment(head)` traces its tail successfully, no walk over (non-trained) subscriptions
starting at the head ever returns to the head or passes a node twice: no cycle is reachable from the head.
(Contrapositive: with a reachable cycle the tracing raises.) -/
theorem C11_cycle (g : G) (h t : Nat) (hs : segment g h none = .node t) (ys : List Nat) (hy : Trail g h ys) :
    h ∉ ys ∧ ys.Nodup := by
  have hsimple : Simple g h [h] := by
    unfold segment at hs
    split at hs
    · cases hs
    · split at hs
      · cases hs
      · simp only at hs
        split at hs
        · rename_i l hscan; exact scan_simple _ g h [h] _ hscan
        · cases hs
        · cases hs
  obtain ⟨h1, h2⟩ := simple_trail ys h [h] hsimple hy
  exact ⟨fun hm => h1 h hm (by simp), h2⟩

/-- the same for a validated auto-traced segment -/
theorem C11_cycle_validate (g : G) (h t : Nat) (hv : validate g h none = .node t) (ys : List Nat)
    (hy : Trail g h ys) : h ∉ ys ∧ ys.Nodup := by
  unfold validate at hv
  split at hv
  · rename_i tl hseg
    exact C11_cycle g h tl hseg ys hy
  · rename_i r _
    cases r <;> simp_all

/-- non-vacuity: a two-node cycle is refused, a chain with a trained side branch is traced -/
example :
    segment (run init [.mkWorker false 1 1, .mkWorker false 1 1, .subscribe 1 0 0 0, .subscribe 0 0 1 0]) 0 none
      = .err .cyclic ∧
    segment (run init [.mkWorker false 1 1, .mkWorker false 1 1, .mkWorker false 1 1, .mkWorker true 1 1,
      .subscribe 1 0 0 0, .subscribe 2 0 1 0, .train 3 1 0 0 0]) 0 none = .node 2 ∧
    Trail (run init [.mkWorker false 1 1, .mkWorker false 1 1, .mkWorker false 1 1, .mkWorker true 1 1,
      .subscribe 1 0 0 0, .subscribe 2 0 1 0, .train 3 1 0 0 0]) 0 [1, 2] := by
  decide

/-! ### C11 — placeholders in a validated segment -/

private theorem visit_sub (g : G) (tail : Nat) : ∀ (fuel pivot : Nat) (seen : List Nat) (x : Nat),
    x ∈ seen → x ∈ visit fuel g tail pivot seen := by
  intro fuel
  induction fuel with
  | zero => intro pivot seen x h; exact h
  | succ k ih =>
    intro pivot seen x h
    unfold visit
    simp only
    have key : ∀ (ns : List Nat) (acc : List Nat), x ∈ acc →
        x ∈ ns.foldl (fun seen n =>
          if memNode g n seen then seen
          else if eqNode g pivot tail && !(isWorker g n && trained g n) then seen
          else visit k g tail n seen) acc := by
      intro ns
      induction ns with
      | nil => intro acc h; exact h
      | cons n ns ihn =>
        intro acc h
        simp only [List.foldl_cons]
        apply ihn
        split
        · exact h
        · split
          · exact h
          · exact ih n acc x h
    exact key _ _ (List.mem_append_left _ h)

private theorem visit_pivot (g : G) (tail fuel pivot : Nat) (seen : List Nat) :
    pivot ∈ visit (fuel + 1) g tail pivot seen := by
  unfold visit
  simp only
  have key : ∀ (ns : List Nat) (acc : List Nat), pivot ∈ acc →
      pivot ∈ ns.foldl (fun seen n =>
        if memNode g n seen then seen
        else if eqNode g pivot tail && !(isWorker g n && trained g n) then seen
        else visit fuel g tail n seen) acc := by
    intro ns
    induction ns with
    | nil => intro acc h; exact h
    | cons n ns ihn =>
      intro acc h
      simp only [List.foldl_cons]
      apply ihn
      split
      · exact h
      · split
        · exact h
        · exact visit_sub g tail fuel n acc pivot h
  exact key _ _ (by simp)

/-- full strength: a segment accepted by the validator has no placeholder head (unless it is the tail itself) -/
def C11_placeholder_full : Prop :=
  ∀ (g : G) (h : Nat) (t : Option Nat) (tl : Nat), validate g h t = .node tl → isFuture g h = true → tl = h

/-- C11-F2: a placeholder head whose registered publisher is given as the tail (and holds the same subscriptions)
compares equal to it and is skipped as if it were the tail -/
theorem C11_placeholder_counterexample : ¬ C11_placeholder_full := by
  intro h
  have := h (run init [.mkWorker false 1 1, .mkFuture 1 1, .mkWorker false 1 1, .subscribe 1 0 0 0, .subscribe 2 0 1 0])
    1 (some 0) 0 (by decide) (by decide)
  revert this
  decide

/-- **C11_placeholder_partial**: the validator accepts a placeholder head only when it compares equal to the tail
(`Node.__eq__`: same number of output ports holding equal subscriptions, not all of them empty) -/
theorem C11_placeholder_partial (g : G) (h : Nat) (t : Option Nat) (tl : Nat)
    (hv : validate g h t = .node tl) (hf : isFuture g h = true) : eqNode g h tl = true := by
  unfold validate at hv
  split at hv
  · rename_i tl' _
    simp only at hv
    split at hv
    · cases hv
    · rename_i hany
      cases hv
      have hmem := visit_pivot g tl (g.nodes.length * g.nodes.length) h []
      have hany' : ∀ x ∈ visit (g.nodes.length * g.nodes.length + 1) g tl h [],
          isFuture g x = true → eqNode g x tl = true := by simpa using hany
      exact hany' h hmem hf
  · rename_i r _
    cases r <;> simp_all

/-- non-vacuity: a connected placeholder head is refused, a worker-only segment is accepted -/
example :
    validate (run init [.mkFuture 1 1, .mkWorker false 1 1, .subscribe 1 0 0 0]) 0 none = .err .futures ∧
    validate (run init [.mkWorker false 1 1, .mkWorker false 1 1, .subscribe 1 0 0 0]) 0 none = .node 1 := by
  decide

end ForML.Graph
