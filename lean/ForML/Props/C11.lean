/-
C11 — Graph construction keeps topology invariants under any call sequence.

Property theorems over `ForML.Model.Graph` (the model of forml's construction API with
`fixes/C11-atomic-topology-errors.diff` applied); helper lemmas live in `ForML/Lemmas/C11*.lean`.
Reading of the statement:
  * `Wf`       = (I2) no self-loop, (I3) apply xor train, (I4) one trained member per group, (I5) trained workers
                 publish nothing, (I6) `_PORTS` = ports having an edge, (I7) publishers exist / subscribers are
                 workers, (I8) registrations sit on placeholders;  `Inv` = (I1) one publisher per input port ∧ `Wf`;
  * atomicity  = a call answering an error leaves the state exactly as it was;
  * transparency = what an output port holds is held by everything registered upstream of it (complete) and the
                 holders of one subscription form one chain of registrations (sound);
  * cycles     = a successfully auto-traced segment has no walk from the head that returns to a passed node; with an
                 explicit tail: success = a repetition-free walk to the tail, `Cyclic` = a walk running into a passed
                 node, `Disconnected` = no walk reaches the tail (the search stops at the first hit, by design);
  * placeholders: a validated segment / an accepted composition reaches no placeholder (but a placeholder tail);
  * copy       = an isomorphic region of fresh nodes, disjoint from the copied graph.
`Wf` holds for every call sequence, whatever the route (workers, placeholders, failed calls, retries, segment /
trunk / composition calls).  Atomicity holds for every single-step call; `Segment.extend`, `Trunk.extend` and
`flow.Composition` keep their completed stages (finding C11-F3): `C11_atomic_full` + `_counterexample` + `_partial`
+ `C11_atomic_stages`.  (I1) is false of the code that exists when two publishers are registered on one placeholder
port (finding C11-F1): `_full` + `_counterexample` + `_partial`.  The placeholder clause is false when the head
placeholder compares equal to the tail worker, i.e. the tail is its registered publisher (finding C11-F2): `_full`
+ `_counterexample` + `_partial` (`C11_placeholder_*`, `C11_validator_*`).
-/
import ForML.Lemmas.C11Copy
import ForML.Lemmas.C11Cycle
import ForML.Lemmas.C11Visit
import ForML.Lemmas.C11Exists
import ForML.Lemmas.C11Republish

namespace ForML.Graph

/-! ### helper lemmas -/

private theorem publish_future' (g : G) (p pi s : Nat) (k : Port) (hf : isFuture g s = true) (hne : s ≠ p) :
    publish g p pi ⟨s, k⟩ = register g s k.index p pi :=
  publish_future g p pi ⟨s, k⟩ hf hne

/-! ### C11 — well-formedness after every call sequence -/

/-- one call — legal or illegal, succeeding or raising, between workers or through placeholders — keeps `Wf` -/
theorem C11_wf_step (g : G) (op : Op) (hw : Wf g) : Wf (step g op).1 := by
  cases op with
  | mkWorker st i o =>
    simp only [step, mkWorker]; split
    · exact hw
    · exact wf_nodes g _ _ hw
  | mkFuture i o =>
    simp only [step, mkFuture]; split
    · exact hw
    · exact wf_nodes g _ g.ngroups hw
  | fork n =>
    simp only [step, fork]; split
    · exact hw
    · exact wf_nodes g _ g.ngroups hw
  | subscribe s j p pi =>
    simp only [step, subscribe]
    split
    · exact hw
    · rename_i hlen
      have hs : s < g.nodes.length := by omega
      have hp : p < g.nodes.length := by omega
      split
      · rename_i hf; exact register_wf g s j p pi hw hf hp
      · rename_i hf
        have hwk : isWorker g s = true := by
          rcases node_kind g s hs with h | h
          · exact h
          · exact absurd h hf
        exact publish_wf g p pi ⟨s, .apply j⟩ hw hwk hp
  | publish p pi s k =>
    simp only [step, publishOp]
    split
    · exact hw
    · rename_i hlen
      have hs : s < g.nodes.length := by omega
      have hp : p < g.nodes.length := by omega
      rcases node_kind g s hs with hwk | hf
      · exact publish_wf g p pi ⟨s, k⟩ hw hwk hp
      · by_cases heq : s = p
        · obtain ⟨e, h⟩ := publish_self_future g p pi ⟨s, k⟩ hf heq
          rw [h]; exact hw
        · rw [publish_future' g p pi s k hf heq]
          exact register_wf g s k.index p pi hw hf hp
  | train n tp ti lp li =>
    simp only [step]
    rcases train_cases g n tp ti lp li hw with ⟨e, h⟩ | ⟨L1, L2, h, _, _, hw2, _⟩
    · rw [h]; exact hw
    · rw [h]; exact hw2
  | segment h t => exact hw
  | validate h t => exact hw
  | extend h t right xt => exact (extend_wire g h t right xt hw).wf hw
  | copy h t =>
    simp only [step]
    rcases copy_cases g h t hw with ⟨e, he⟩ | ⟨tl, ps, _, hc, ok, _, _⟩
    · rw [he]; exact hw
    · rw [hc]; exact copied_wf g _ _ hw ok
  | trunk a t l => exact trunk_keeps Wf (fun g hg => wf_nodes g _ _ hg) g a t l hw
  | textend b a t l => exact (textend_wire g b a t l hw).wf hw
  | compose ts => exact (compose_wire g ts hw).wf hw

theorem C11_wf_init : Wf init := by decide

/-- **C11_wf**: after any sequence of construction calls no node feeds itself, every worker is subscribed either
for training or for applying, every group has at most one trained member, trained workers publish nothing,
and the `_PORTS` registry is exactly the set of subscribed ports -/
theorem C11_wf (ops : List Op) : Wf (run init ops) := by
  suffices h : ∀ g, Wf g → Wf (run g ops) from h init C11_wf_init
  induction ops with
  | nil => intro g hw; exact hw
  | cons op ops ih => intro g hw; exact ih _ (C11_wf_step g op hw)

/-! ### C11 — atomicity -/

/-- the calls that are one step of wiring (or none); `Segment.extend`, `Trunk.extend` and `flow.Composition` are
several (subscribe, then trace; three modes; several operators) -/
def Op.atomic : Op → Bool
  | .extend _ _ _ _ => false
  | .textend _ _ _ _ => false
  | .compose _ => false
  | _ => true

/-- a call that raises leaves a well-formed state exactly as it was — every kind of single-step call, every route -/
theorem C11_atomic_step (g : G) (op : Op) (hw : Wf g) (ha : op.atomic = true) (he : (step g op).2.isErr = true) :
    (step g op).1 = g := by
  cases op with
  | mkWorker st i o =>
    simp only [step, mkWorker] at he ⊢
    split at he <;> simp_all [Res.isErr]
  | mkFuture i o =>
    simp only [step, mkFuture] at he ⊢
    split at he <;> simp_all [Res.isErr]
  | fork n =>
    simp only [step, fork] at he ⊢
    split at he <;> simp_all [Res.isErr]
  | subscribe s j p pi =>
    simp only [step, subscribe] at he ⊢
    split
    · rfl
    · rename_i hlen
      simp only [hlen, ↓reduceIte] at he
      have hs : s < g.nodes.length := by omega
      have hp : p < g.nodes.length := by omega
      split
      · rename_i hf
        simp only [hf, ↓reduceIte] at he
        exact register_atomic g s j p pi hw hf hp he
      · rename_i hf
        simp only [hf] at he
        have hwk : isWorker g s = true := by
          rcases node_kind g s hs with h | h
          · exact h
          · exact absurd h hf
        exact publish_atomic g p pi ⟨s, .apply j⟩ hw hwk hp he
  | publish p pi s k =>
    simp only [step, publishOp] at he ⊢
    split
    · rfl
    · rename_i hlen
      simp only [hlen, ↓reduceIte] at he
      have hs : s < g.nodes.length := by omega
      have hp : p < g.nodes.length := by omega
      rcases node_kind g s hs with hwk | hf
      · exact publish_atomic g p pi ⟨s, k⟩ hw hwk hp he
      · by_cases heq : s = p
        · obtain ⟨e, h⟩ := publish_self_future g p pi ⟨s, k⟩ hf heq
          rw [h]
        · rw [publish_future' g p pi s k hf heq] at he ⊢
          exact register_atomic g s k.index p pi hw hf hp he
  | train n tp ti lp li =>
    simp only [step] at he ⊢
    rcases train_cases g n tp ti lp li hw with ⟨e, h⟩ | ⟨L1, L2, h, _⟩
    · rw [h]
    · rw [h] at he; simp [Res.isErr] at he
  | segment h t => rfl
  | validate h t => rfl
  | extend h t right xt => simp [Op.atomic] at ha
  | textend b a t l => simp [Op.atomic] at ha
  | compose ts => simp [Op.atomic] at ha
  | copy h t =>
    simp only [step] at he ⊢
    rcases copy_cases g h t hw with ⟨e, h1⟩ | ⟨tl, ps, _, hc, _, _, _⟩
    · rw [h1]
    · rw [hc] at he; simp [Res.isErr] at he
  | trunk a t l => exact trunk_atomic g a t l he

/-- full strength: after any sequence of construction calls, a call that raises leaves the graph exactly as it was -/
def C11_atomic_full : Prop :=
  ∀ (ops : List Op) (op : Op), (step (run init ops) op).2.isErr = true → (step (run init ops) op).1 = run init ops

/-- C11-F3: `Trunk.extend` wires its modes one after the other; the train extension is refused (the input port is
taken) after the apply extension went through, and stays -/
theorem C11_atomic_counterexample : ¬ C11_atomic_full := by
  intro h
  have := h [.mkWorker false 1 1, .mkWorker true 1 1, .mkWorker true 1 1, .mkWorker true 1 1, .subscribe 3 0 1 0]
    (.textend ⟨(0, none), (1, none), (2, none)⟩ (some (2, none)) (some (3, none)) none) (by decide)
  revert this
  decide

/-- **C11_atomic_partial** (`C11_atomic`): after any sequence of construction calls, a single-step call (node
creation, fork, subscribe / publish through any tree of placeholders, train, segment tracing, validation, copy,
`Trunk(...)`) that raises leaves the graph exactly as it was -/
theorem C11_atomic_partial (ops : List Op) (op : Op) (ha : op.atomic = true)
    (he : (step (run init ops) op).2.isErr = true) : (step (run init ops) op).1 = run init ops :=
  C11_atomic_step _ op (C11_wf ops) ha he

theorem C11_atomic (ops : List Op) (op : Op) (ha : op.atomic = true)
    (he : (step (run init ops) op).2.isErr = true) : (step (run init ops) op).1 = run init ops :=
  C11_atomic_partial ops op ha he

/-- **C11_atomic_stages**: the several-step calls (`Segment.extend`, `Trunk.extend`, `flow.Composition`), refused or
not, change the graph by subscriptions that were each accepted and nothing else: every completed stage stays, a
refused stage leaves no trace -/
theorem C11_atomic_stages (ops : List Op) (op : Op) (ha : op.atomic = false) :
    Wire (run init ops) (step (run init ops) op).1 := by
  have hw := C11_wf ops
  cases op with
  | extend h t right xt => exact extend_wire _ h t right xt hw
  | textend b a t l => exact textend_wire _ b a t l hw
  | compose ts => exact compose_wire _ ts hw
  | _ => simp [Op.atomic] at ha

/-- a refused `Segment.copy` leaves the model state exactly as it was (the code leaves forks behind in the worker
groups: finding C11-F4, outside the compared state) -/
theorem C11_copy_atomic (ops : List Op) (h : Nat) (t : Option Nat)
    (he : (step (run init ops) (.copy h t)).2.isErr = true) : (step (run init ops) (.copy h t)).1 = run init ops :=
  C11_atomic_step _ _ (C11_wf ops) rfl he

/-- non-vacuity: failing calls of every kind on a non-trivial graph (self subscription through a placeholder,
trained publisher behind a placeholder, label stage of `train`, cycle of placeholders) -/
example :
    let ops := [Op.mkWorker true 1 1, .mkWorker false 1 1, .mkFuture 1 1, .mkFuture 1 1, .subscribe 2 0 1 0,
                .subscribe 1 0 2 0, .train 0 1 0 0 0, .subscribe 3 0 2 0, .subscribe 2 0 3 0, .train 0 2 0 1 0,
                .subscribe 2 0 0 0]
    (step (run init (ops.take 5)) (ops.getD 5 (.fork 0))).2 = .err .self ∧
    (step (run init (ops.take 6)) (ops.getD 6 (.fork 0))).2 = .err .trainedPublishing ∧
    (step (run init (ops.take 8)) (ops.getD 8 (.fork 0))).2 = .err .self ∧
    (run init ops).edges.length = 3 := by
  decide

/-! ### C11 — one publisher per input port (worker and placeholder routes, any order of the calls) -/

/-- the call does not give a placeholder input port a second publisher -/
def SingleOp (g : G) (op : Op) : Bool :=
  match op with
  | .subscribe s j _ _ => !(isFuture g s && g.regs.any (fun r => r.fut == s && r.idx == j))
  | .publish _ _ s k => !(isFuture g s && g.regs.any (fun r => r.fut == s && r.idx == k.index))
  | .extend _ _ _ _ => decide (KeyNodup (step g op).1)
  | .textend _ _ _ _ => decide (KeyNodup (step g op).1)
  | .compose _ => decide (KeyNodup (step g op).1)
  | _ => true

/-- one call (any kind, any route, failing or not) that registers no second publisher on a placeholder port keeps
"the holders of a subscription form one chain of registrations" -/
theorem C11_chain_step (g : G) (op : Op) (hw : Wf g) (hs : SingleReg g) (hc : Chain g)
    (ho : SingleOp g op = true) : SingleReg (step g op).1 ∧ Chain (step g op).1 := by
  cases op with
  | mkWorker st i o =>
    simp only [step, mkWorker]; split
    · exact ⟨hs, hc⟩
    · exact ⟨hs, chain_congr g _ rfl rfl hc⟩
  | mkFuture i o =>
    simp only [step, mkFuture]; split
    · exact ⟨hs, hc⟩
    · exact ⟨hs, chain_congr g _ rfl rfl hc⟩
  | fork n =>
    simp only [step, fork]; split
    · exact ⟨hs, hc⟩
    · exact ⟨hs, chain_congr g _ rfl rfl hc⟩
  | subscribe s j p pi =>
    simp only [step, subscribe]
    split
    · exact ⟨hs, hc⟩
    · rename_i hlen
      have hsl : s < g.nodes.length := by omega
      have hp : p < g.nodes.length := by omega
      split
      · rename_i hf
        have hno : ∀ r ∈ g.regs, ¬(r.fut = s ∧ r.idx = j) := by
          intro r hr ⟨h1, h2⟩
          simp only [SingleOp, hf, Bool.true_and, Bool.not_eq_true', List.any_eq_false, Bool.and_eq_true,
            beq_iff_eq, not_and] at ho
          exact ho r hr h1 h2
        rcases register_cases g s j p pi hw hf hp with ⟨e, h⟩ | ⟨L, h, facts⟩
        · rw [h]; exact ⟨hs, hc⟩
        · rw [h]; exact chain_register g s j p pi L hs hc hno facts
      · rename_i hf
        have hwk : isWorker g s = true := by
          rcases node_kind g s hsl with h | h
          · exact h
          · exact absurd h hf
        rcases publish_cases g p pi ⟨s, .apply j⟩ hw hwk hp with ⟨e, h⟩ | ⟨L, h, _, facts⟩
        · rw [h]; exact ⟨hs, hc⟩
        · rw [h]
          obtain ⟨_, fresh, _, _, _, f5, f6⟩ := facts
          exact ⟨hs, chain_publish g _ ⟨s, .apply j⟩ L p pi (fuelOf g) hs hc rfl rfl fresh
            (fun e he => ⟨(f5 e he).1, f6 e he⟩)⟩
  | publish p pi s k =>
    simp only [step, publishOp]
    split
    · exact ⟨hs, hc⟩
    · rename_i hlen
      have hsl : s < g.nodes.length := by omega
      have hp : p < g.nodes.length := by omega
      rcases node_kind g s hsl with hwk | hf
      · rcases publish_cases g p pi ⟨s, k⟩ hw hwk hp with ⟨e, h⟩ | ⟨L, h, _, facts⟩
        · rw [h]; exact ⟨hs, hc⟩
        · rw [h]
          obtain ⟨_, fresh, _, _, _, f5, f6⟩ := facts
          exact ⟨hs, chain_publish g _ ⟨s, k⟩ L p pi (fuelOf g) hs hc rfl rfl fresh
            (fun e he => ⟨(f5 e he).1, f6 e he⟩)⟩
      · by_cases heq : s = p
        · obtain ⟨e, h⟩ := publish_self_future g p pi ⟨s, k⟩ hf heq
          rw [h]; exact ⟨hs, hc⟩
        · rw [publish_future' g p pi s k hf heq]
          have hno : ∀ r ∈ g.regs, ¬(r.fut = s ∧ r.idx = k.index) := by
            intro r hr ⟨h1, h2⟩
            simp only [SingleOp, hf, Bool.true_and, Bool.not_eq_true', List.any_eq_false, Bool.and_eq_true,
              beq_iff_eq, not_and] at ho
            exact ho r hr h1 h2
          rcases register_cases g s k.index p pi hw hf hp with ⟨e, h⟩ | ⟨L, h, facts⟩
          · rw [h]; exact ⟨hs, hc⟩
          · rw [h]; exact chain_register g s k.index p pi L hs hc hno facts
  | train n tp ti lp li =>
    simp only [step]
    rcases train_cases g n tp ti lp li hw with ⟨e, h⟩ | ⟨L1, L2, h, facts1, facts2, _, _⟩
    · rw [h]; exact ⟨hs, hc⟩
    · rw [h]
      obtain ⟨_, fresh1, _, _, _, a5, a6⟩ := facts1
      obtain ⟨_, fresh2, _, _, _, b5, b6⟩ := facts2
      have hc1 : Chain { g with edges := g.edges ++ L1, ports := g.ports ++ [⟨n, .train⟩] } :=
        chain_publish g _ ⟨n, .train⟩ L1 tp ti (fuelOf g) hs hc rfl rfl fresh1 (fun e he => ⟨(a5 e he).1, a6 e he⟩)
      exact ⟨hs, chain_publish { g with edges := g.edges ++ L1, ports := g.ports ++ [⟨n, .train⟩] } _ ⟨n, .label⟩ L2
        lp li _ hs hc1 rfl rfl fresh2 (fun e he => ⟨(b5 e he).1, b6 e he⟩)⟩
  | segment h t => exact ⟨hs, hc⟩
  | validate h t => exact ⟨hs, hc⟩
  | extend h t right xt =>
    exact (extend_wire g h t right xt hw).chain hw hs hc (by have h1 := ho; simp only [SingleOp, decide_eq_true_eq] at h1; exact h1)
  | textend b a t l =>
    exact (textend_wire g b a t l hw).chain hw hs hc (by have h1 := ho; simp only [SingleOp, decide_eq_true_eq] at h1; exact h1)
  | compose ts =>
    exact (compose_wire g ts hw).chain hw hs hc (by have h1 := ho; simp only [SingleOp, decide_eq_true_eq] at h1; exact h1)
  | copy h t =>
    simp only [step]
    rcases copy_cases g h t hw with ⟨e, he⟩ | ⟨tl, ps, _, hcp, ok, _, _⟩
    · rw [he]; exact ⟨hs, hc⟩
    · rw [hcp]; exact ⟨hs, copied_chain g _ _ hw ok hc⟩
  | trunk a t l =>
    exact trunk_keeps (fun g => SingleReg g ∧ Chain g)
      (fun g hg => ⟨hg.1, chain_congr g _ rfl rfl hg.2⟩) g a t l ⟨hs, hc⟩

/-- no call of the sequence registers a second publisher on a placeholder port (decidable along the run) -/
def AllSingle : G → List Op → Prop
  | _, [] => True
  | g, op :: ops => SingleOp g op = true ∧ AllSingle (step g op).1 ops

instance : (g : G) → (ops : List Op) → Decidable (AllSingle g ops)
  | _, [] => isTrue trivial
  | g, op :: ops =>
    have := instDecidableAllSingle (step g op).1 ops
    by unfold AllSingle; infer_instance

private theorem single_run (g : G) (ops : List Op) (hw : Wf g) (hs : SingleReg g) (hc : Chain g)
    (ha : AllSingle g ops) : Wf (run g ops) ∧ SingleReg (run g ops) ∧ Chain (run g ops) := by
  induction ops generalizing g with
  | nil => exact ⟨hw, hs, hc⟩
  | cons op ops ih =>
    obtain ⟨s1, c1⟩ := C11_chain_step g op hw hs hc ha.1
    exact ih _ (C11_wf_step g op hw) s1 c1 ha.2

/-- **C11_future_sound**: calls routed through any number of placeholders, in any order, connect nothing but the
chain of registrations: whenever two output ports hold the same subscription, one of them is upstream of the other
through the registered publishers (a worker port holding it is upstream of every placeholder port holding it) -/
theorem C11_future_sound (ops : List Op) (ha : AllSingle init ops) : Chain (run init ops) :=
  (single_run init ops C11_wf_init (by intro r hr; cases hr) (by intro e he; cases he) ha).2.2

theorem C11_invariant_init : Inv init := by decide

/-- full strength: all the invariants, (I1) included, hold after every sequence of construction calls -/
def C11_invariant_full : Prop := ∀ ops : List Op, Inv (run init ops)

/-- C11-F1: two publishers registered on one placeholder port, then a subscriber: two publishers on one input port -/
theorem C11_invariant_counterexample : ¬ C11_invariant_full := by
  intro h
  have := h [.mkWorker false 1 1, .mkWorker false 1 1, .mkFuture 1 1, .mkWorker false 1 1,
             .subscribe 2 0 0 0, .subscribe 2 0 1 0, .subscribe 3 0 2 0]
  revert this
  decide

/-- the same witness violates (I1) specifically -/
theorem C11_I1_counterexample :
    ¬ I1 (run init [.mkWorker false 1 1, .mkWorker false 1 1, .mkFuture 1 1, .mkWorker false 1 1,
                    .subscribe 2 0 0 0, .subscribe 2 0 1 0, .subscribe 3 0 2 0]) := by
  unfold I1; decide

/-- **C11_invariant_partial**: all the invariants, one publisher per input port included, hold after every call
sequence — any length, worker routes and placeholder routes, any number of placeholders connected in any order,
legal and illegal calls, failed calls and retries in any interleaving — in which no placeholder input port is
given a second publisher -/
theorem C11_invariant_partial (ops : List Op) (ha : AllSingle init ops) : Inv (run init ops) := by
  obtain ⟨hw, _, hc⟩ := single_run init ops C11_wf_init (by intro r hr; cases hr) (by intro e he; cases he) ha
  exact ⟨i1_of_chain hw.2.2.2.2.2.2 hc, hw⟩

/-- non-vacuity: legal and illegal worker-to-worker calls (trained publisher, fork collision, retry, failing train
at the label stage) satisfy the hypothesis and end in a non-trivial graph -/
example :
    let ops := [Op.mkWorker true 1 1, .mkWorker false 1 2, .fork 0, .mkFuture 1 1, .subscribe 0 0 1 0,
                .train 0 1 0 1 0, .train 2 1 1 0 0, .train 2 1 1 1 0, .subscribe 1 0 2 0, .train 0 1 0 1 0,
                .segment 1 none]
    AllSingle init ops ∧ (run init ops).edges.length = 3 := by
  decide

/-- non-vacuity: a chain of placeholders wired downstream-first, upstream-last, with failing calls in between -/
example :
    let ops := [Op.mkWorker false 1 1, .mkFuture 1 1, .mkFuture 1 1, .mkWorker false 1 1, .mkWorker false 1 1,
                .subscribe 3 0 2 0, .subscribe 4 0 2 0, .subscribe 2 0 1 0, .subscribe 1 0 2 0, .subscribe 1 0 0 0,
                .subscribe 0 0 2 0]
    AllSingle init ops ∧ (run init ops).edges.length = 6 ∧
    (resolve (run init ops)).map (fun e => (e.pub, e.sub.node)) = [(0, 3), (0, 4)] := by
  decide

/-! ### C11 — completeness of the connections made through placeholders, any order of the calls -/

/-- one call keeps "whatever an output port holds is held by every publisher registered on it, all the way up" -/
theorem C11_closed_step (g : G) (op : Op) (hw : Wf g) (hc : Closed g) : Closed (step g op).1 := by
  cases op with
  | mkWorker st i o =>
    simp only [step, mkWorker]; split
    · exact hc
    · exact closed_nodes g _ _ hw hc
  | mkFuture i o =>
    simp only [step, mkFuture]; split
    · exact hc
    · exact closed_nodes g _ g.ngroups hw hc
  | fork n =>
    simp only [step, fork]; split
    · exact hc
    · exact closed_nodes g _ g.ngroups hw hc
  | subscribe s j p pi =>
    simp only [step, subscribe]
    split
    · exact hc
    · rename_i hlen
      have hsl : s < g.nodes.length := by omega
      have hp : p < g.nodes.length := by omega
      split
      · rename_i hf
        rcases register_cases g s j p pi hw hf hp with ⟨e, h⟩ | ⟨L, h, facts⟩
        · rw [h]; exact hc
        · rw [h]; exact closed_register g s j p pi L hc h facts
      · rename_i hf
        have hwk : isWorker g s = true := by
          rcases node_kind g s hsl with h | h
          · exact h
          · exact absurd h hf
        rcases publish_cases g p pi ⟨s, .apply j⟩ hw hwk hp with ⟨e, h⟩ | ⟨L, h, hpt, facts⟩
        · rw [h]; exact hc
        · rw [h]
          obtain ⟨_, _, _, _, _, f5, f6⟩ := facts
          exact closed_publish g p pi ⟨s, .apply j⟩ L hc hpt (fun e he => ⟨(f5 e he).1, f6 e he⟩)
  | publish p pi s k =>
    simp only [step, publishOp]
    split
    · exact hc
    · rename_i hlen
      have hsl : s < g.nodes.length := by omega
      have hp : p < g.nodes.length := by omega
      rcases node_kind g s hsl with hwk | hf
      · rcases publish_cases g p pi ⟨s, k⟩ hw hwk hp with ⟨e, h⟩ | ⟨L, h, hpt, facts⟩
        · rw [h]; exact hc
        · rw [h]
          obtain ⟨_, _, _, _, _, f5, f6⟩ := facts
          exact closed_publish g p pi ⟨s, k⟩ L hc hpt (fun e he => ⟨(f5 e he).1, f6 e he⟩)
      · by_cases heq : s = p
        · obtain ⟨e, h⟩ := publish_self_future g p pi ⟨s, k⟩ hf heq
          rw [h]; exact hc
        · rw [publish_future' g p pi s k hf heq]
          rcases register_cases g s k.index p pi hw hf hp with ⟨e, h⟩ | ⟨L, h, facts⟩
          · rw [h]; exact hc
          · rw [h]; exact closed_register g s k.index p pi L hc h facts
  | train n tp ti lp li =>
    simp only [step]
    rcases train_cases g n tp ti lp li hw with ⟨e, h⟩ | ⟨L1, L2, h, facts1, facts2, _, hpt1, hpt2⟩
    · rw [h]; exact hc
    · rw [h]
      obtain ⟨_, _, _, _, _, a5, a6⟩ := facts1
      obtain ⟨_, _, _, _, _, b5, b6⟩ := facts2
      have hc1 := closed_publish g tp ti ⟨n, .train⟩ L1 hc hpt1 (fun e he => ⟨(a5 e he).1, a6 e he⟩)
      exact closed_publish _ lp li ⟨n, .label⟩ L2 hc1 hpt2 (fun e he => ⟨(b5 e he).1, b6 e he⟩)
  | segment h t => exact hc
  | validate h t => exact hc
  | extend h t right xt => exact (extend_wire g h t right xt hw).closed hw hc
  | textend b a t l => exact (textend_wire g b a t l hw).closed hw hc
  | compose ts => exact (compose_wire g ts hw).closed hw hc
  | copy h t =>
    simp only [step]
    rcases copy_cases g h t hw with ⟨e, he⟩ | ⟨tl, ps, _, hcp, _, _, _⟩
    · rw [he]; exact hc
    · rw [hcp]; exact copied_closed g _ _ hw hc
  | trunk a t l =>
    exact (trunk_keeps (fun g => Wf g ∧ Closed g)
      (fun g hg => ⟨wf_nodes g _ _ hg.1, closed_nodes g _ _ hg.1 hg.2⟩) g a t l ⟨hw, hc⟩).2

/-- **C11_future_complete**: after any sequence of construction calls — any number of placeholders, connected in
any order, several publishers per placeholder port included — a subscription held by an output port is held by
every output port upstream of it through the registered publishers; in particular every worker registered
(transitively) on a placeholder is connected to every subscriber of that placeholder, exactly as if it had been
wired directly -/
theorem C11_future_complete (ops : List Op) (e : Edge) (he : e ∈ (run init ops).edges) (x : Nat × Nat)
    (hu : Up (run init ops) (e.pub, e.out) x) : (⟨x.1, x.2, e.sub⟩ : Edge) ∈ (run init ops).edges := by
  have hcl : ∀ (ops : List Op) (g : G), Wf g → Closed g → Closed (run g ops) := by
    intro ops
    induction ops with
    | nil => intro g _ hc; exact hc
    | cons op ops ih => intro g hw hc; exact ih _ (C11_wf_step g op hw) (C11_closed_step g op hw hc)
  have hc := hcl ops init C11_wf_init (by intro e he; cases he)
  exact (holdsUp_up (C11_wf ops).2.2.2.2.2.2 hu (hc e he)).edge

/-! ### C11 — cycles are rejected when a segment is traced -/

/-- **C11_cycle**: when `Segment(head)` traces its tail successfully, no walk over (non-trained) subscriptions
starting at the head ever returns to the head or passes a node twice: no cycle is reachable from the head.
(Contrapositive: with a reachable cycle the tracing raises.) -/
theorem C11_cycle (g : G) (h t : Nat) (hs : segment g h none = .node t) (ys : List Nat) (hy : Trail g h ys) :
    h ∉ ys ∧ ys.Nodup := by
  have hsimple : Simple g h [h] := by
    unfold segment at hs
    split at hs
    · cases hs
    · split at hs
      · cases hs
      · simp only at hs
        split at hs
        · rename_i l hscan; exact scan_simple _ g h [h] _ hscan
        · cases hs
        · cases hs
  obtain ⟨h1, h2⟩ := simple_trail ys h [h] hsimple hy
  exact ⟨fun hm => h1 h hm (by simp), h2⟩

/-- the same for a validated auto-traced segment -/
theorem C11_cycle_validate (g : G) (h t : Nat) (hv : validate g h none = .node t) (ys : List Nat)
    (hy : Trail g h ys) : h ∉ ys ∧ ys.Nodup := by
  unfold validate at hv
  split at hv
  · rename_i tl hseg
    exact C11_cycle g h tl hseg ys hy
  · rename_i r _
    cases r <;> simp_all

/-- non-vacuity: a two-node cycle is refused, a chain with a trained side branch is traced -/
example :
    segment (run init [.mkWorker false 1 1, .mkWorker false 1 1, .subscribe 1 0 0 0, .subscribe 0 0 1 0]) 0 none
      = .err .cyclic ∧
    segment (run init [.mkWorker false 1 1, .mkWorker false 1 1, .mkWorker false 1 1, .mkWorker true 1 1,
      .subscribe 1 0 0 0, .subscribe 2 0 1 0, .train 3 1 0 0 0]) 0 none = .node 2 ∧
    Trail (run init [.mkWorker false 1 1, .mkWorker false 1 1, .mkWorker false 1 1, .mkWorker true 1 1,
      .subscribe 1 0 0 0, .subscribe 2 0 1 0, .train 3 1 0 0 0]) 0 [1, 2] := by
  decide

/-! ### C11 — placeholders in a validated segment -/

private theorem visit_sub (g : G) (tail : Nat) : ∀ (fuel pivot : Nat) (seen : List Nat) (x : Nat),
    x ∈ seen → x ∈ visit fuel g tail pivot seen := by
  intro fuel
  induction fuel with
  | zero => intro pivot seen x h; exact h
  | succ k ih =>
    intro pivot seen x h
    unfold visit
    simp only
    have key : ∀ (ns : List Nat) (acc : List Nat), x ∈ acc →
        x ∈ ns.foldl (fun seen n =>
          if memNode g n seen then seen
          else if eqNode g pivot tail && !(isWorker g n && trained g n) then seen
          else visit k g tail n seen) acc := by
      intro ns
      induction ns with
      | nil => intro acc h; exact h
      | cons n ns ihn =>
        intro acc h
        simp only [List.foldl_cons]
        apply ihn
        split
        · exact h
        · split
          · exact h
          · exact ih n acc x h
    exact key _ _ (List.mem_append_left _ h)

private theorem visit_pivot (g : G) (tail fuel pivot : Nat) (seen : List Nat) :
    pivot ∈ visit (fuel + 1) g tail pivot seen := by
  unfold visit
  simp only
  have key : ∀ (ns : List Nat) (acc : List Nat), pivot ∈ acc →
      pivot ∈ ns.foldl (fun seen n =>
        if memNode g n seen then seen
        else if eqNode g pivot tail && !(isWorker g n && trained g n) then seen
        else visit fuel g tail n seen) acc := by
    intro ns
    induction ns with
    | nil => intro acc h; exact h
    | cons n ns ihn =>
      intro acc h
      simp only [List.foldl_cons]
      apply ihn
      split
      · exact h
      · split
        · exact h
        · exact visit_sub g tail fuel n acc pivot h
  exact key _ _ (by simp)

/-- full strength: a segment accepted by the validator has no placeholder head (unless it is the tail itself) -/
def C11_placeholder_full : Prop :=
  ∀ (g : G) (h : Nat) (t : Option Nat) (tl : Nat), validate g h t = .node tl → isFuture g h = true → tl = h

/-- C11-F2: a placeholder head whose registered publisher is given as the tail (and holds the same subscriptions)
compares equal to it and is skipped as if it were the tail -/
theorem C11_placeholder_counterexample : ¬ C11_placeholder_full := by
  intro h
  have := h (run init [.mkWorker false 1 1, .mkFuture 1 1, .mkWorker false 1 1, .subscribe 1 0 0 0, .subscribe 2 0 1 0])
    1 (some 0) 0 (by decide) (by decide)
  revert this
  decide

/-- **C11_placeholder_partial**: the validator accepts a placeholder head only when it compares equal to the tail
(`Node.__eq__`: same number of output ports holding equal subscriptions, not all of them empty) -/
theorem C11_placeholder_partial (g : G) (h : Nat) (t : Option Nat) (tl : Nat)
    (hv : validate g h t = .node tl) (hf : isFuture g h = true) : eqNode g h tl = true := by
  unfold validate at hv
  split at hv
  · rename_i tl' _
    simp only at hv
    split at hv
    · cases hv
    · rename_i hany
      cases hv
      have hmem := visit_pivot g tl (g.nodes.length * g.nodes.length) h []
      have hany' : ∀ x ∈ visit (g.nodes.length * g.nodes.length + 1) g tl h [],
          isFuture g x = true → eqNode g x tl = true := by simpa using hany
      exact hany' h hmem hf
  · rename_i r _
    cases r <;> simp_all

/-- non-vacuity: a connected placeholder head is refused, a worker-only segment is accepted -/
example :
    validate (run init [.mkFuture 1 1, .mkWorker false 1 1, .subscribe 1 0 0 0]) 0 none = .err .futures ∧
    validate (run init [.mkWorker false 1 1, .mkWorker false 1 1, .subscribe 1 0 0 0]) 0 none = .node 1 := by
  decide

/-! ### C11 — `Segment.copy` yields an isomorphic, disjoint region -/

/-- **C11_copy_iso**: a successful `Segment(h, t).copy()` forks exactly the nodes on the mapper paths from the head
to the (unwrapped) tail - one fresh node per member, same kind, shape and worker group, the existing nodes
untouched -, replays exactly the subscriptions between two members of one path (an `Apply` port of the same
index), leaves the registrations as they were, and links no old node with a new one. -/
theorem C11_copy_iso (g : G) (h : Nat) (t : Option Nat) (hw : Wf g) (hok : (copy g h t).2.isErr = false) :
    ∃ (tl : Nat) (ps : List (List Nat)), paths (fuelOf g) g tl h [h] = .ok ps ∧
      (copy g h t).2 = .segs [(copyIdx g (regionOf g h ps) h, copyIdx g (regionOf g h ps) tl)] ∧
      h ∈ regionOf g h ps ∧ tl ∈ regionOf g h ps ∧ (regionOf g h ps).Nodup ∧
      (∀ n, n ∈ regionOf g h ps ↔ n < g.nodes.length ∧ (n = h ∨ ∃ m ∈ ps, n ∈ m)) ∧
      -- the forks: fresh, one per member, same kind / shape / group; the old nodes are untouched
      (∀ n ∈ regionOf g h ps, g.nodes.length ≤ copyIdx g (regionOf g h ps) n ∧
        (copy g h t).1.nodes[copyIdx g (regionOf g h ps) n]? = g.nodes[n]?) ∧
      (∀ a ∈ regionOf g h ps, ∀ b ∈ regionOf g h ps,
        copyIdx g (regionOf g h ps) a = copyIdx g (regionOf g h ps) b → a = b) ∧
      (copy g h t).1.nodes.length = g.nodes.length + (regionOf g h ps).length ∧
      (∀ n < g.nodes.length, (copy g h t).1.nodes[n]? = g.nodes[n]?) ∧
      -- the subscriptions: the old ones as they were, the new ones the images of the edges inside one path
      (copy g h t).1.regs = g.regs ∧
      (copy g h t).1.edges = g.edges ++ (copyEdges g ps).map (copyEdge g (regionOf g h ps)) ∧
      (∀ e, e ∈ copyEdges g ps ↔ e ∈ g.edges ∧ ∃ m ∈ ps, e.pub ∈ m ∧ e.sub.node ∈ m) ∧
      -- disjoint: no subscription links an old node with a new one
      (∀ e ∈ (copy g h t).1.edges, (e.pub < g.nodes.length ↔ e.sub.node < g.nodes.length)) := by
  rcases copy_cases g h t hw with ⟨e, he⟩ | ⟨tl, ps, hps, hc, ok, htl, hh⟩
  · rw [he] at hok; simp [Res.isErr] at hok
  · rw [hc]
    refine ⟨tl, ps, hps, rfl, hh, htl, ok.nodup, mem_regionOf g h ps, ?_, ?_, ?_, ?_, rfl, rfl, mem_copyEdges g ps, ?_⟩
    · intro n hn
      exact ⟨copyIdx_ge g _ n, copied_new_get g _ _ hn (ok.bound n hn)⟩
    · intro a ha b hb hab
      exact copyIdx_inj g ha hb hab
    · simp [copied]
    · intro n hn
      exact copied_old_get g _ _ n hn
    · intro e he
      rcases mem_copied_edges g _ _ e he with h1 | ⟨a, _, rfl⟩
      · have i7 := hw.2.2.2.2.2.1 e h1
        exact ⟨fun _ => isWorker_lt _ _ i7.2, fun _ => i7.1⟩
      · have h1 := copyIdx_ge g (regionOf g h ps) a.pub
        have h2 := copyIdx_ge g (regionOf g h ps) a.sub.node
        simp only [copyEdge]
        constructor <;> (intro hlt; omega)

/-- non-vacuity: a placeholder head feeding a chain with a trained side branch: the three mappers are copied, the
trainer is not; a region in which two ports hold one subscription is refused and nothing is created -/
example :
    let g := run init [.mkFuture 1 1, .mkWorker false 1 1, .mkWorker false 1 1, .mkWorker true 1 1,
      .subscribe 1 0 0 0, .subscribe 2 0 1 0, .train 3 1 0 0 0]
    (copy g 0 none).2 = .segs [(4, 6)] ∧ (copy g 0 none).1.nodes.length = 7 ∧
    (copy g 0 none).1.edges.length = g.edges.length + 2 ∧
    (step (run init [.mkWorker false 1 2, .mkWorker false 1 1, .mkWorker false 1 1, .mkFuture 1 1,
      .mkWorker false 1 1, .subscribe 1 0 0 0, .subscribe 2 0 0 1, .subscribe 3 0 1 0, .subscribe 3 0 2 0,
      .subscribe 4 0 3 0]) (.copy 0 (some 4))).2 = .err .double := by
  decide

/-! ### C11 — a composition still containing placeholders is refused -/

/-- full strength: the validator refuses a segment iff a placeholder other than its tail is reachable from the head -/
def C11_validator_full : Prop :=
  ∀ (g : G) (h tl : Nat), Wf g → h < g.nodes.length → tl < g.nodes.length →
    (accept g h tl = some .futures ↔ ∃ n, Reach g tl h n ∧ isFuture g n = true ∧ n ≠ tl)

/-- C11-F2 again: the placeholder head compares equal to the tail (its registered publisher) and is skipped -/
theorem C11_validator_counterexample : ¬ C11_validator_full := by
  intro h
  have := (h (run init [.mkWorker false 1 1, .mkFuture 1 1, .mkWorker false 1 1, .subscribe 1 0 0 0, .subscribe 2 0 1 0])
    1 0 (by decide) (by decide) (by decide)).mpr ⟨1, .head, by decide, by decide⟩
  revert this
  decide

/-- **C11_validator_partial**: in every well-formed state in which no two different nodes compare equal
(`Node.__eq__`), `Segment(h, tl).accept(Validator())` refuses **iff** a placeholder other than the tail is
reachable from the head (over the subscribers of every output port, below the tail only through trained ones) -/
theorem C11_validator_partial (g : G) (hw : Wf g) (na : noAlias g = true) (h tl : Nat) (hh : h < g.nodes.length)
    (ht : tl < g.nodes.length) :
    accept g h tl = some .futures ↔ ∃ n, Reach g tl h n ∧ isFuture g n = true ∧ n ≠ tl :=
  accept_iff g hw na h tl hh ht

/-- **C11_validator_sound**: in every state, a refusal names a reachable placeholder that does not compare equal to the tail -/
theorem C11_validator_sound (g : G) (h tl : Nat) (hr : accept g h tl = some .futures) :
    ∃ n, Reach g tl h n ∧ isFuture g n = true ∧ eqNode g n tl = false :=
  accept_sound g h tl hr

/-- non-vacuity: a state with a wired placeholder in which no two nodes compare equal; the placeholder head is
refused, the worker-only remainder accepted -/
example :
    let g := run init [.mkFuture 1 1, .mkWorker false 1 1, .mkWorker false 1 1, .mkWorker true 1 1,
      .subscribe 1 0 0 0, .subscribe 2 0 1 0, .train 3 2 0 1 0]
    Wf g ∧ noAlias g = true ∧ accept g 0 2 = some .futures ∧ accept g 1 2 = none ∧
    Reach g 2 0 1 ∧ isFuture g 0 = true := by
  refine ⟨by decide, by decide, by decide, by decide, ?_, by decide⟩
  exact .step .head (by decide) (by decide)

private theorem autoTail_res (g : G) (p : Nat) : (∃ x, autoTail g p = .node x) ∨ ∃ e, autoTail g p = .err e := by
  unfold autoTail
  split
  · exact .inl ⟨_, rfl⟩
  · exact .inr ⟨_, rfl⟩
  · exact .inr ⟨_, rfl⟩

private theorem retrace_res (g : G) (s : Nat × Nat) : (∃ x, retrace g s = .node x) ∨ ∃ e, retrace g s = .err e := by
  unfold retrace
  rcases autoTail_res g s.2 with ⟨x, hx⟩ | ⟨e, hx⟩
  · rw [hx]; exact segment_res g s.1 (some x)
  · rw [hx]; exact .inr ⟨e, rfl⟩

private theorem retrace_node (g : G) (s : Nat × Nat) (x : Nat) (hr : retrace g s = .node x) :
    s.1 < g.nodes.length ∧ x < g.nodes.length := by
  unfold retrace at hr
  rcases autoTail_res g s.2 with ⟨y, hy⟩ | ⟨e, hy⟩
  · rw [hy] at hr
    obtain ⟨rfl, h1, h2⟩ := segment_some_node g s.1 y x hr
    exact ⟨h1, h2⟩
  · rw [hy] at hr; cases hr

/-- **C11_composition_refused_iff**: the validation `Composition.__new__` makes (apply path retraced and validated,
then the train path), in a well-formed alias-free state where both paths retrace: it refuses **iff** a placeholder
other than the path's tail is reachable from the head of the apply path or of the train path - a placeholder on
one path only is enough -/
theorem C11_composition_refused_iff (g : G) (c : Trunk3) (hw : Wf g) (na : noAlias g = true) (at_ tt : Nat)
    (ha : retrace g c.apply = .node at_) (ht : retrace g c.train = .node tt) :
    (finalize g c).isErr = true ↔
      (∃ n, Reach g at_ c.apply.1 n ∧ isFuture g n = true ∧ n ≠ at_) ∨
      (∃ n, Reach g tt c.train.1 n ∧ isFuture g n = true ∧ n ≠ tt) := by
  obtain ⟨a1, a2⟩ := retrace_node g c.apply at_ ha
  obtain ⟨t1, t2⟩ := retrace_node g c.train tt ht
  rw [← accept_iff g hw na c.apply.1 at_ a1 a2, ← accept_iff g hw na c.train.1 tt t1 t2]
  unfold finalize
  rw [ha]
  simp only
  rcases accept_none_or g c.apply.1 at_ with h1 | h1
  · rw [h1, ht]
    simp only
    rcases accept_none_or g c.train.1 tt with h2 | h2
    · rw [h2]; simp [Res.isErr]
    · rw [h2]; simp [Res.isErr]
  · rw [h1]; simp [Res.isErr]

private theorem composeLoop_final : ∀ (ts : List TrunkSpec) (g : G) (c : Trunk3) (g' : G) (r : Res),
    composeLoop g c ts = (g', r) → r.isErr = false → ∃ c', r = finalize g' c' := by
  intro ts
  induction ts with
  | nil =>
    intro g c g' r h _
    simp only [composeLoop, Prod.mk.injEq] at h
    exact ⟨c, by rw [← h.1, h.2]⟩
  | cons s rest ih =>
    intro g c g' r h hok
    simp only [composeLoop] at h
    split at h
    · simp only [Prod.mk.injEq] at h; rw [← h.2] at hok; simp [Res.isErr] at hok
    · split at h
      · exact ih _ _ g' r h hok
      · simp only [Prod.mk.injEq] at h; rw [← h.2] at hok; simp [Res.isErr] at hok

private theorem finalize_segs (g : G) (c : Trunk3) (l : List (Nat × Nat)) (h : finalize g c = .segs l) :
    ∃ at_ tt, l = [(c.apply.1, at_), (c.train.1, tt)] ∧ retrace g c.apply = .node at_ ∧
      retrace g c.train = .node tt ∧ accept g c.apply.1 at_ = none ∧ accept g c.train.1 tt = none := by
  unfold finalize at h
  rcases retrace_res g c.apply with ⟨at_, ha⟩ | ⟨e, ha⟩
  · rw [ha] at h
    simp only at h
    rcases accept_none_or g c.apply.1 at_ with hacc | hacc
    · rw [hacc] at h
      simp only at h
      rcases retrace_res g c.train with ⟨tt, ht⟩ | ⟨e, ht⟩
      · rw [ht] at h
        simp only at h
        rcases accept_none_or g c.train.1 tt with hacc2 | hacc2
        · rw [hacc2] at h
          simp only [Res.segs.injEq] at h
          exact ⟨at_, tt, h.symm, ha, ht, hacc, hacc2⟩
        · rw [hacc2] at h; cases h
      · rw [ht] at h; cases h
    · rw [hacc] at h; cases h
  · rw [ha] at h; cases h

/-- **C11_composition_accepted**: after any call sequence, a `flow.Composition` that is accepted - whatever the
operators wired before the validation - contains no placeholder in its apply path nor in its train path (other than
a lone placeholder tail), provided no two different nodes of the final graph compare equal -/
theorem C11_composition_accepted (ops : List Op) (ts : List TrunkSpec) (l : List (Nat × Nat))
    (hc : (step (run init ops) (.compose ts)).2 = .segs l)
    (na : noAlias (step (run init ops) (.compose ts)).1 = true) :
    ∃ ah at_ th tt, l = [(ah, at_), (th, tt)] ∧
      (∀ n, Reach (step (run init ops) (.compose ts)).1 at_ ah n →
        isFuture (step (run init ops) (.compose ts)).1 n = true → n = at_) ∧
      (∀ n, Reach (step (run init ops) (.compose ts)).1 tt th n →
        isFuture (step (run init ops) (.compose ts)).1 n = true → n = tt) := by
  have hw := C11_wf (ops ++ [.compose ts])
  have hrun : run init (ops ++ [.compose ts]) = (step (run init ops) (.compose ts)).1 := by
    have : ∀ (xs : List Op) (g : G) (op : Op), run g (xs ++ [op]) = (step (run g xs) op).1 := by
      intro xs
      induction xs with
      | nil => intro g op; rfl
      | cons x xs ih => intro g op; simp only [List.cons_append, run]; exact ih _ op
    exact this ops init _
  rw [hrun] at hw
  generalize hg' : (step (run init ops) (.compose ts)).1 = g' at hw na hc ⊢
  have hfin : ∃ c', Res.segs l = finalize g' c' := by
    cases ts with
    | nil => simp [step, compose] at hc
    | cons s rest =>
      simp only [step, compose] at hc hg'
      split at hc
      · cases hc
      · rename_i c hres
        rw [hres] at hg'
        simp only at hg'
        have := composeLoop_final rest (run init ops) c g' (.segs l)
          (by apply Prod.ext; exact hg'; exact hc) rfl
        exact this
  obtain ⟨c', hfin⟩ := hfin
  obtain ⟨at_, tt, hl, ha, ht, acc1, acc2⟩ := finalize_segs g' c' l hfin.symm
  obtain ⟨a1, a2⟩ := retrace_node g' c'.apply at_ ha
  obtain ⟨t1, t2⟩ := retrace_node g' c'.train tt ht
  refine ⟨c'.apply.1, at_, c'.train.1, tt, hl, ?_, ?_⟩
  · intro n hr hf
    by_cases hn : n = at_
    · exact hn
    · have := (accept_iff g' hw na c'.apply.1 at_ a1 a2).mpr ⟨n, hr, hf, hn⟩
      rw [acc1] at this; cases this
  · intro n hr hf
    by_cases hn : n = tt
    · exact hn
    · have := (accept_iff g' hw na c'.train.1 tt t1 t2).mpr ⟨n, hr, hf, hn⟩
      rw [acc2] at this; cases this

/-- non-vacuity: a complete two-operator pipeline is accepted; with the train path of the source left to the
default placeholder (the apply path fully wired) it is refused, and so it is with the placeholder on the apply path -/
example :
    let ops := [Op.mkWorker false 0 1, .fork 0, .fork 0, .trunk none none none, .mkWorker false 1 1, .fork 6,
      .textend ⟨(3, none), (4, none), (5, none)⟩ (some (6, none)) (some (7, none)) none,
      .trunk (some (0, none)) none none]
    (step (run init ops) (.compose [⟨(0, none), (1, none), (2, none)⟩, ⟨(3, none), (4, none), (5, none)⟩])).2
      = .segs [(0, 6), (1, 7)] ∧
    (step (run init ops) (.compose [⟨(0, none), (8, none), (9, none)⟩, ⟨(3, none), (4, none), (5, none)⟩])).2
      = .err .futures ∧
    (step (run init ops) (.compose [⟨(8, none), (1, none), (9, none)⟩, ⟨(3, none), (4, none), (5, none)⟩])).2
      = .err .futures := by
  decide

/-! ### C11 — tracing with an explicit tail -/

/-- **C11_tail_connected**: `Segment(h, t)` succeeds only when a walk over mapper subscriptions that never passes a
node twice leads from the head to (a node comparing equal to) the tail -/
theorem C11_tail_connected (g : G) (h t tl : Nat) (hs : segment g h (some t) = .node tl) :
    tl = t ∧ ∃ ys, TrailM g t [h] h ys ∧ eqNode g (ys.getLastD h) t = true := by
  refine ⟨(segment_some_node g h t tl hs).1, ?_⟩
  rcases segment_explicit g h t with h1 | h1 | ⟨hf, _⟩ | ⟨_, h1⟩ | ⟨_, h1⟩ | ⟨_, h1⟩
  · rw [h1] at hs; cases hs
  · rw [h1] at hs; cases hs
  · exact existsT_found g t _ h [h] hf
  · rw [h1] at hs; cases hs
  · rw [h1] at hs; cases hs
  · rw [h1] at hs; cases hs

/-- **C11_cycle_explicit**: `Segment(h, t)` raises `Cyclic` only for a genuine cycle: a walk from the head whose
next step runs into a node it has already passed -/
theorem C11_cycle_explicit (g : G) (h t : Nat) (hs : segment g h (some t) = .err .cyclic) :
    ∃ ys n, TrailM g t [h] h ys ∧ n ∈ mappers g (ys.getLastD h) (some t) ∧ memNode g n (ys.reverse ++ [h]) = true := by
  rcases segment_explicit g h t with h1 | h1 | ⟨_, h1 | h1⟩ | ⟨hc, _⟩ | ⟨_, h1⟩ | ⟨_, h1⟩
  · rw [h1] at hs; cases hs
  · rw [h1] at hs; cases hs
  · rw [h1] at hs; cases hs
  · rw [h1] at hs; cases hs
  · exact existsT_cyclic g t _ h [h] hc
  · rw [h1] at hs; cases hs
  · rw [h1] at hs; cases hs

/-- **C11_disconnected_exact**: `Segment(h, t)` raises `Disconnected tail` only when no walk over mapper
subscriptions leads from the head to the tail -/
theorem C11_disconnected_exact (g : G) (h t : Nat) (hs : segment g h (some t) = .err .disconnected)
    (ys : List Nat) (hy : TrailE g t h ys) : eqNode g (ys.getLastD h) t = false := by
  rcases segment_explicit g h t with h1 | h1 | ⟨_, h1 | h1⟩ | ⟨_, h1⟩ | ⟨hn, _⟩ | ⟨_, h1⟩
  · rw [h1] at hs; cases hs
  · rw [h1] at hs; cases hs
  · rw [h1] at hs; cases hs
  · rw [h1] at hs; cases hs
  · rw [h1] at hs; cases hs
  · exact existsT_notFound g t _ h [h] hn ys hy
  · rw [h1] at hs; cases hs

/-- full strength for an explicit tail: a traced segment has no cycle reachable from its head -/
def C11_cycle_explicit_full : Prop :=
  ∀ (g : G) (h t tl : Nat), segment g h (some t) = .node tl → ∀ ys, Trail g h ys → h ∉ ys ∧ ys.Nodup

/-- the search for an explicit tail stops at the first hit (`any`), a cycle beside the found path goes unnoticed -
the auto-traced `Segment(h)` of the same graph raises `Cyclic` (`C11_cycle`) -/
theorem C11_cycle_explicit_counterexample : ¬ C11_cycle_explicit_full := by
  intro h
  have := h (run init [.mkWorker false 1 2, .mkWorker false 1 1, .mkWorker false 2 1, .mkWorker false 1 1,
      .subscribe 1 0 0 0, .subscribe 2 0 0 1, .subscribe 3 0 2 0, .subscribe 2 1 3 0]) 0 1 1 (by decide)
    [2, 3, 2] (by decide)
  revert this
  decide

/-- non-vacuity: the explicit tail is found although a cycle hangs beside it; auto-tracing the same head refuses -/
example :
    let g := run init [.mkWorker false 1 2, .mkWorker false 1 1, .mkWorker false 2 1, .mkWorker false 1 1,
      .subscribe 1 0 0 0, .subscribe 2 0 0 1, .subscribe 3 0 2 0, .subscribe 2 1 3 0]
    segment g 0 (some 1) = .node 1 ∧ segment g 0 none = .err .cyclic ∧ segment g 1 (some 3) = .err .disconnected ∧
    segment g 3 (some 1) = .err .cyclic := by
  decide

/-! ### C11 — the several-step calls (non-vacuity) -/

/-- `Segment.extend` with a node, a segment, an explicit tail, and retracing; a refused subscription leaves nothing,
a refused later stage of `Trunk.extend` leaves the earlier one (C11-F3) -/
example :
    let ops := [Op.mkWorker false 1 1, .mkWorker false 1 1, .mkWorker false 1 1, .mkFuture 1 1,
      .extend 0 none (some (1, none)) none, .extend 0 none (some (1, none)) none, .extend 0 (some 1) (some (3, none)) none,
      .extend 0 none none none]
    (step (run init (ops.take 4)) (ops.getD 4 (.fork 0))).2 = .node 1 ∧
    (step (run init (ops.take 5)) (ops.getD 5 (.fork 0))).2 = .err .double ∧
    (step (run init (ops.take 6)) (ops.getD 6 (.fork 0))).2 = .node 3 ∧
    (step (run init (ops.take 7)) (ops.getD 7 (.fork 0))).2 = .node 1 ∧
    AllSingle init ops ∧ (run init ops).edges.length = 1 ∧ (run init ops).regs.length = 1 := by
  decide

/-! ### C11 — the raw port API: `Train()`, `Label()` and `Apply(i)` subscriptions one at a time -/

/-- `Worker.trained` as the code defines it: subscribed on the Train port **or** on the Label port -/
theorem C11_trained_iff (g : G) (n : Nat) :
    trained g n = true ↔ (⟨n, .train⟩ : Sub) ∈ g.ports ∨ (⟨n, .label⟩ : Sub) ∈ g.ports := by
  unfold trained
  simp only [List.any_eq_true, Bool.not_eq_true']
  constructor
  · rintro ⟨q, hq, hqa⟩
    cases q with
    | apply i => simp [Port.isApply] at hqa
    | train => exact .inl ((mem_inputs' g n .train).mp hq)
    | label => exact .inr ((mem_inputs' g n .label).mp hq)
  · rintro (h | h)
    · exact ⟨.train, (mem_inputs' g n .train).mpr h, rfl⟩
    · exact ⟨.label, (mem_inputs' g n .label).mpr h, rfl⟩

/-- **C11_raw_port_group_rule**: in every state, `publisher.publish(worker, Train())` / `(worker, Label())` through the
raw port API is refused - nothing changes - when another member of the worker's group is trained (subscribed on its
Train or on its Label port), exactly as `Worker.train` is -/
theorem C11_raw_port_group_rule (g : G) (p pi s m : Nat) (port : Port) (hp : port.isApply = false)
    (hs : isWorker g s = true) (hm : m ∈ group g s) (hne : m ≠ s) (ht : trained g m = true) :
    ∃ e, step g (.publish p pi s port) = (g, .err e) := by
  simp only [step, publishOp]
  split
  · exact ⟨_, rfl⟩
  · unfold publish
    have hsf := isFuture_of_isWorker g s hs
    simp only [hsf, Bool.false_eq_true, false_and, ↓reduceIte]
    cases hsub : subscription g ⟨s, port⟩ with
    | some e => exact ⟨e, rfl⟩
    | none =>
      exfalso
      have c5 := (subscription_none g ⟨s, port⟩ hsub).2.2.2.2 hp
      have := List.any_eq_false.mp c5 m hm
      simp [ht, hne] at this

/-- non-vacuity: a worker subscribed on its Label port only is trained: it does not publish, takes no Apply port, no
other member of its group becomes trained (raw port API or `Worker.train`), and the Train port completes it -/
example :
    let ops := [Op.mkWorker false 1 1, .mkWorker true 1 1, .fork 1, .publish 0 0 1 .label]
    trained (run init ops) 1 = true ∧
    (step (run init ops) (.publish 1 0 0 (.apply 0))).2 = .err .trainedPublishing ∧
    (step (run init ops) (.publish 0 0 2 .train)).2 = .err .forkTrain ∧
    (step (run init ops) (.train 2 0 0 0 0)).2 = .err .forkTrain ∧
    (step (run init ops) (.publish 0 0 1 (.apply 0))).2 = .err .collision ∧
    (step (run init ops) (.publish 0 0 1 .label)).2 = .err .double ∧
    (step (run init ops) (.publish 0 0 1 .train)).2 = .ok ∧
    AllSingle init (ops ++ [.publish 0 0 1 .train]) := by
  decide

/-! ### C11 — re-publishing is idempotent; `Future._collapse()` on published pairs is a no-op -/

/-- **C11_republish_idempotent**: once `n._publish(idx, s)` (= `Publishable.republish`) has succeeded — `n` a worker
or a placeholder with any tree of registered publishers — the same call succeeds and changes nothing in the state
reached and in every later state with the same nodes / registrations / `_PORTS` that still holds what was published -/
theorem C11_republish_idempotent (fuel : Nat) (g h : G) (n idx : Nat) (s : Sub)
    (hok : (publishTo fuel g n idx s).2 = .ok) (hab : Above (publishTo fuel g n idx s).1 h) :
    publishTo fuel h n idx s = (h, .ok) :=
  publishTo_again fuel g n idx s h hok hab

/-- **C11_publish_monotone**: `_publish` never withdraws a subscription nor touches nodes, registrations or `_PORTS`,
whatever it answers -/
theorem C11_publish_monotone (fuel : Nat) (g : G) (n idx : Nat) (s : Sub) :
    Above g (publishTo fuel g n idx s).1 :=
  publishTo_above fuel g n idx s

/-- **C11_collapse_noop**: `Future._collapse()` as the code has it (re-publish *every* (registered publisher, held
subscription) pair) raises nothing and changes nothing when every such pair has been published successfully before:
the reason why the model's `publishTo` forwards the new subscription only -/
theorem C11_collapse_noop (k : Nat) (g : G) (f : Nat)
    (hpub : ∀ r ∈ g.regs, r.fut = f → ∀ s ∈ out g f r.idx,
      ∃ g0, (publishTo k g0 r.pub r.out s).2 = .ok ∧ Above (publishTo k g0 r.pub r.out s).1 g) :
    collapse k g f = (g, .ok) :=
  collapse_noop k g f hpub

/-- **C11_collapse_reachable**: after every call sequence — any calls, any placeholders, several publishers per
placeholder port included — `Future._collapse()` on any node re-publishes only pairs whose publication changes
nothing: the graph stays exactly as it is and nothing is raised (the only other answer of the model is its depth
guard, when the fuel `k` given is smaller than the registration tree).  Together with `C11_republish_idempotent`
this is why `publishTo` forwards the new subscription only -/
theorem C11_collapse_reachable (ops : List Op) (f k : Nat) :
    collapse k (run init ops) f = (run init ops, .ok) ∨
    collapse k (run init ops) f = (run init ops, .err .recursion) := by
  have hcl : ∀ (ops : List Op) (g : G), Wf g → Closed g → Closed (run g ops) := by
    intro ops
    induction ops with
    | nil => intro g _ hc; exact hc
    | cons op ops ih => intro g hw hc; exact ih _ (C11_wf_step g op hw) (C11_closed_step g op hw hc)
  exact collapse_closed k _ f (C11_wf ops) (hcl ops init C11_wf_init (by intro e he; cases he))

/-- the graph part of it, for every fuel -/
theorem C11_collapse_keeps_graph (ops : List Op) (f k : Nat) :
    (collapse k (run init ops) f).1 = run init ops := by
  rcases C11_collapse_reachable ops f k with h | h <;> rw [h]

/-- non-vacuity: a placeholder with a registered publisher and two held subscriptions (one connected before, one
after the registration): four pairs are re-published by `_collapse()`, nothing changes; the hypothesis of
`C11_republish_idempotent` holds of the second publish (through the placeholder) -/
example :
    let ops := [Op.mkWorker false 1 1, .mkFuture 1 1, .mkWorker false 1 1, .mkWorker false 1 1, .mkWorker false 1 1,
                .subscribe 2 0 1 0, .subscribe 1 0 0 0, .subscribe 1 0 4 0, .subscribe 3 0 1 0]
    let g := run init ops
    ((g.regs.filter (fun r => r.fut = 1)).flatMap (fun r => (out g 1 r.idx).map (fun s => (r.pub, r.out, s)))).length = 4 ∧
    collapse (fuelOf g) g 1 = (g, .ok) ∧
    (publishTo (fuelOf g) (run init (ops.take 8)) 1 0 ⟨3, .apply 0⟩).2 = .ok ∧
    (publishTo (fuelOf g) (run init (ops.take 8)) 1 0 ⟨3, .apply 0⟩).1 ≠ run init (ops.take 8) := by
  decide

end ForML.Graph
