/-
C11 — Graph construction keeps topology invariants under any call sequence.

Property theorems over `ForML.Model.Graph` (helper lemmas are `private`).  Reading of the statement:
  * `Inv`      = (I1) one publisher per input port, (I2) no self-loop, (I3) apply xor train, (I4) one trained
                 member per group, (I5) trained workers publish nothing, (I6) `_PORTS` = ports having an edge,
                 (I7) publishers exist / subscribers are workers;
  * atomicity  = a call answering an error leaves the state as it was;
  * cycles     = `Segment(head)` succeeds only if no node reachable from the head lies on a cycle;
  * transparency: a subscription published by a placeholder reaches every registered publisher.
The statements at full strength are false of the code that exists (D12, D13 and the failing calls routed
through a `Future`): `_full` + `_counterexample` + `_partial`.
-/
import ForML.Model.Graph

namespace ForML.Graph

/-! ### helper lemmas -/

private theorem mem_inputs (g : G) (s : Sub) : s.port ∈ inputs g s.node ↔ s ∈ g.ports := by
  unfold inputs
  simp only [List.mem_map, List.mem_filter, decide_eq_true_eq]
  constructor
  · rintro ⟨x, ⟨hx, hn⟩, hp⟩
    have : x = s := by cases x; cases s; simp_all
    exact this ▸ hx
  · intro h; exact ⟨s, ⟨h, rfl⟩, rfl⟩

private theorem mem_inputs' (g : G) (n : Nat) (p : Port) : p ∈ inputs g n ↔ (⟨n, p⟩ : Sub) ∈ g.ports :=
  mem_inputs g ⟨n, p⟩

private theorem filter_ne_self (l : List Sub) (s : Sub) (h : s ∉ l) :
    l.filter (fun x => !decide (x = s)) = l := by
  apply List.filter_eq_self.mpr
  intro a ha; simp; intro hs; exact h (hs ▸ ha)

/-- what the checks of `Subscription.__new__` establish -/
private theorem subscription_none (g : G) (s : Sub) (h : subscription g s = none) :
    s ∉ g.ports ∧
    (∀ q ∈ g.ports, q.node = s.node → (inputs g s.node).any Port.isApply = s.port.isApply) ∧
    (s.port.isApply = false → publishes g s.node = false) ∧ isFuture g s.node = false := by
  unfold subscription at h
  simp only at h
  split at h
  · cases h
  · rename_i h1
    split at h
    · cases h
    · rename_i h2
      split at h
      · cases h
      · rename_i h3
        split at h
        · cases h
        · rename_i h4
          refine ⟨fun hm => h1 ((mem_inputs g s).mpr hm), ?_, ?_, by simpa using h4⟩
          · intro q hq hqn
            have hne : (inputs g s.node).isEmpty = false := by
              have : q.port ∈ inputs g s.node := by
                rw [← hqn]; exact (mem_inputs g q).mpr hq
              cases hi : inputs g s.node with
              | nil => rw [hi] at this; cases this
              | cons _ _ => rfl
            simp only [hne, Bool.not_false, Bool.true_and, bne_iff_ne, ne_eq, Decidable.not_not] at h2
            exact h2.symm
          · intro hp
            simp only [hp, Bool.not_false, Bool.true_and, Bool.not_eq_true] at h3
            exact h3

/-- a `Worker` publisher: `publishTo` is one non-recursive step -/
private theorem publishTo_worker (fuel : Nat) (g : G) (p pi : Nat) (s : Sub) (hp : isFuture g p = false) :
    publishTo (fuel + 1) g p pi s =
      if trained g p then (g, .err .trainedPublishing)
      else if p = s.node then (g, .err .self)
      else (addEdge g ⟨p, pi, s⟩, .ok) := by
  simp [publishTo, hp]

private theorem isFuture_of_isWorker (g : G) (n : Nat) (h : isWorker g n = true) : isFuture g n = false := by
  unfold isWorker at h; unfold isFuture
  split at h <;> simp_all

/-! ### C11 — atomicity -/

/-- calls whose endpoints are all workers (no placeholder involved) -/
def DirectOp (g : G) : Op → Bool
  | .subscribe s _ p _ => isWorker g s && isWorker g p
  | .train n tp _ lp _ => isWorker g n && isWorker g tp && isWorker g lp
  | _ => true

def isTrain : Op → Bool
  | .train .. => true
  | _ => false

/-- full strength: every call that raises leaves the graph exactly as it was -/
def C11_atomic_full : Prop := ∀ (g : G) (op : Op), (step g op).2.isErr = true → (step g op).1 = g

/-- state reached by the D13 witness prefix `mkWorker(stateful), mkWorker` -/
def d13State : G := run init [.mkWorker true 1 1, .mkWorker false 1 1]

/-- D13: `w0.train(w1[0], w0[0])` — the label publish raises `Self subscription` after the train publish succeeded -/
theorem C11_atomic_counterexample : ¬ C11_atomic_full := by
  intro h
  have := h d13State (.train 0 1 0 0 0) (by decide)
  revert this
  decide

/-- failing calls routed through a placeholder are not atomic either: `w0[0].subscribe(f1[0])` after
`f1[0].subscribe(w0[0])` raises `Self subscription` but `f1` keeps the subscription -/
theorem C11_atomic_future_counterexample :
    let g := run init [.mkWorker false 1 1, .mkFuture 1 1, .subscribe 1 0 0 0]
    (step g (.subscribe 0 0 1 0)).2.isErr = true ∧ (step g (.subscribe 0 0 1 0)).1 ≠ g := by
  decide

private theorem publish_direct_atomic (g : G) (p pi : Nat) (s : Sub)
    (hs : isFuture g s.node = false) (hp : isFuture g p = false)
    (he : (publish g p pi s).2.isErr = true) : (publish g p pi s).1 = g := by
  unfold publish at he ⊢
  simp only [hs, Bool.false_eq_true, false_and, ↓reduceIte] at he ⊢
  cases hsub : subscription g s with
  | some e => simp
  | none =>
    have hnot := (subscription_none g s hsub).1
    simp only [hsub] at he ⊢
    have hp' : isFuture { g with ports := g.ports ++ [s] } p = false := hp
    unfold fuelOf at he ⊢
    rw [publishTo_worker _ _ _ _ _ hp'] at he ⊢
    by_cases h1 : trained { g with ports := g.ports ++ [s] } p = true
    · rw [if_pos h1]; simp [filter_ne_self _ _ hnot]
    · by_cases h2 : p = s.node
      · rw [if_neg h1, if_pos h2]; simp [filter_ne_self _ _ hnot]
      · -- success branch: not an error
        exfalso
        rw [if_neg h1, if_neg h2] at he
        simp only at he
        split at he <;> simp [Res.isErr] at he

/-- **C11_atomic_partial**: every failing call other than `train` whose endpoints are workers (create, fork,
worker-to-worker subscribe, segment tracing, validation) leaves the state exactly as it was. -/
theorem C11_atomic_partial (g : G) (op : Op) (hd : DirectOp g op = true) (ht : isTrain op = false)
    (he : (step g op).2.isErr = true) : (step g op).1 = g := by
  cases op with
  | mkWorker st i o =>
    simp only [step, mkWorker] at he ⊢
    split at he <;> simp_all [Res.isErr]
  | mkFuture i o =>
    simp only [step, mkFuture] at he ⊢
    split at he <;> simp_all [Res.isErr]
  | fork n =>
    simp only [step, fork] at he ⊢
    split at he <;> simp_all [Res.isErr]
  | subscribe s j p pi =>
    simp only [DirectOp, Bool.and_eq_true] at hd
    have hs := isFuture_of_isWorker g s hd.1
    have hp := isFuture_of_isWorker g p hd.2
    simp only [step, subscribe] at he ⊢
    split
    · rfl
    · rename_i hlen
      simp only [hlen, ↓reduceIte, hs, Bool.false_eq_true] at he ⊢
      exact publish_direct_atomic g p pi ⟨s, .apply j⟩ hs hp he
  | train n tp ti lp li => simp [isTrain] at ht
  | segment h t => rfl
  | validate h t => rfl

/-! ### C11 — invariants -/

/-- the state after a successful worker-to-worker `publish` -/
private def added (g : G) (p pi : Nat) (s : Sub) : G :=
  { g with edges := g.edges ++ [⟨p, pi, s⟩], ports := g.ports ++ [s] }

/-- adding one subscription that passed every check keeps the invariants -/
private theorem inv_add (g : G) (p pi : Nat) (s : Sub) (hi : Inv g)
    (h1 : ∀ e ∈ g.edges, e.sub ≠ s)
    (h2 : ∀ e ∈ g.edges, e.sub.node = s.node → e.sub.port.isApply = s.port.isApply)
    (h3 : s.port.isApply = false → ∀ e ∈ g.edges, e.pub ≠ s.node)
    (h4 : isWorker g s.node = true)
    (h5 : ∀ e ∈ g.edges, e.sub.node = p → e.sub.port.isApply = true)
    (h6 : p ≠ s.node) (h7 : p < g.nodes.length)
    (h8 : s.port.isApply = false → ∀ e ∈ g.edges, e.sub.port.isApply = false →
      gid? g e.sub.node = gid? g s.node → e.sub.node = s.node) :
    Inv (added g p pi s) := by
  obtain ⟨i1, i2, i3, i4, i5, i6, i7⟩ := hi
  refine ⟨?_, ?_, ?_, ?_, ?_, ?_, ?_⟩
  · intro e he e' he' hw hw' hsub
    simp only [added, List.mem_append, List.mem_singleton] at he he'
    rcases he with he | rfl <;> rcases he' with he' | rfl
    · exact i1 e he e' he' hw hw' hsub
    · exact absurd hsub (h1 e he)
    · exact absurd hsub.symm (h1 e' he')
    · rfl
  · intro e he
    simp only [added, List.mem_append, List.mem_singleton] at he
    rcases he with he | rfl
    · exact i2 e he
    · exact h6
  · intro e he e' he' hn
    simp only [added, List.mem_append, List.mem_singleton] at he he'
    rcases he with he | rfl <;> rcases he' with he' | rfl
    · exact i3 e he e' he' hn
    · exact h2 e he hn
    · exact (h2 e' he' hn.symm).symm
    · rfl
  · intro e he e' he' ha ha' hg
    simp only [added, List.mem_append, List.mem_singleton] at he he'
    rcases he with he | rfl <;> rcases he' with he' | rfl
    · exact i4 e he e' he' ha ha' hg
    · exact h8 ha' e he ha hg
    · exact (h8 ha e' he' ha' hg.symm).symm
    · rfl
  · intro e he e' he' ha
    simp only [added, List.mem_append, List.mem_singleton] at he he'
    rcases he with he | rfl <;> rcases he' with he' | rfl
    · exact i5 e he e' he' ha
    · intro hp
      have := h5 e he hp.symm
      simp [this] at ha
    · exact h3 ha e' he'
    · exact h6
  · constructor
    · intro q hq
      simp only [added, List.mem_append, List.mem_singleton] at hq
      rcases hq with hq | rfl
      · obtain ⟨e, he, hs⟩ := i6.1 q hq
        exact ⟨e, by simp [added, he], hs⟩
      · exact ⟨⟨p, pi, q⟩, by simp [added], rfl⟩
    · intro e he
      simp only [added, List.mem_append, List.mem_singleton] at he
      rcases he with he | rfl
      · simp [added, i6.2 e he]
      · simp [added]
  · intro e he
    simp only [added, List.mem_append, List.mem_singleton] at he
    rcases he with he | rfl
    · exact i7 e he
    · exact ⟨h7, h4⟩

private theorem isWorker_lt (g : G) (n : Nat) (h : isWorker g n = true) : n < g.nodes.length := by
  unfold isWorker at h
  cases hn : g.nodes[n]? with
  | none => simp [hn] at h
  | some _ => exact (List.getElem?_eq_some_iff.mp hn).1

private theorem trained_false (g : G) (n : Nat) (h : trained g n = false) (q : Sub) (hq : q ∈ g.ports)
    (hn : q.node = n) : q.port.isApply = true := by
  unfold trained at h
  have hm : q.port ∈ inputs g n := hn ▸ (mem_inputs g q).mpr hq
  have := List.any_eq_false.mp h q.port hm
  simpa using this

/-- `any isApply` over the subscribed ports of a node decides the kind of every edge into it (I3 + I6) -/
private theorem any_apply (g : G) (hi : Inv g) (e : Edge) (he : e ∈ g.edges) :
    (inputs g e.sub.node).any Port.isApply = e.sub.port.isApply := by
  obtain ⟨_, _, i3, _, _, i6, _⟩ := hi
  have hin : e.sub.port ∈ inputs g e.sub.node := (mem_inputs g e.sub).mpr (i6.2 e he)
  cases hb : e.sub.port.isApply with
  | true => exact List.any_eq_true.mpr ⟨_, hin, hb⟩
  | false =>
    apply List.any_eq_false.mpr
    intro q hq
    obtain ⟨e', he', hs'⟩ := i6.1 ⟨e.sub.node, q⟩ ((mem_inputs' g _ _).mp hq)
    have := i3 e he e' he' (by rw [hs'])
    rw [hs'] at this
    simp only at this
    rw [← this, hb]; simp

/-- outcome of `publish` between two workers on a state satisfying the invariants: either an error with the
state untouched, or exactly one new subscription and every fact the checks established -/
private theorem publish_direct (g : G) (p pi : Nat) (s : Sub) (hi : Inv g)
    (hs : isWorker g s.node = true) (hp : isWorker g p = true) :
    (∃ e, publish g p pi s = (g, .err e)) ∨
    (publish g p pi s = (added g p pi s, .ok) ∧
      (∀ e ∈ g.edges, e.sub ≠ s) ∧
      (∀ e ∈ g.edges, e.sub.node = s.node → e.sub.port.isApply = s.port.isApply) ∧
      (s.port.isApply = false → ∀ e ∈ g.edges, e.pub ≠ s.node) ∧
      (∀ e ∈ g.edges, e.sub.node = p → e.sub.port.isApply = true) ∧ p ≠ s.node) := by
  have hsf := isFuture_of_isWorker g _ hs
  have hpf := isFuture_of_isWorker g _ hp
  have i6 := hi.2.2.2.2.2.1
  unfold publish
  simp only [hsf, Bool.false_eq_true, false_and, ↓reduceIte]
  cases hsub : subscription g s with
  | some e => exact .inl ⟨e, rfl⟩
  | none =>
    obtain ⟨c1, c2, c3, _⟩ := subscription_none g s hsub
    have hnoedge : ∀ e ∈ g.edges, e.sub ≠ s := fun e he h => c1 (h ▸ i6.2 e he)
    have hp' : isFuture { g with ports := g.ports ++ [s] } p = false := hpf
    simp only
    unfold fuelOf
    rw [publishTo_worker _ _ _ _ _ hp']
    by_cases h1 : trained { g with ports := g.ports ++ [s] } p = true
    · rw [if_pos h1]; left; exact ⟨.trainedPublishing, by simp [filter_ne_self _ _ c1]⟩
    · by_cases h2 : p = s.node
      · rw [if_neg h1, if_pos h2]; left; exact ⟨.self, by simp [filter_ne_self _ _ c1]⟩
      · rw [if_neg h1, if_neg h2]; right
        have hnotin : (⟨p, pi, s⟩ : Edge) ∉ g.edges := fun h => hnoedge _ h rfl
        have hadd : addEdge { g with ports := g.ports ++ [s] } ⟨p, pi, s⟩ = added g p pi s := by
          simp [addEdge, hnotin, added]
        have hcnt : ((added g p pi s).edges.filter (·.sub = s)).length ≠ (g.edges.filter (·.sub = s)).length := by
          simp [added, List.filter_append]
        rw [hadd]
        simp only [hcnt, ↓reduceIte, true_and]
        refine ⟨hnoedge, ?_, ?_, ?_, h2⟩
        · intro e he hn
          have := c2 e.sub (i6.2 e he) hn
          rw [← hn, any_apply g hi e he] at this
          exact this
        · intro ha e he hpub
          have := c3 ha
          unfold publishes at this
          have := List.any_eq_false.mp this e he
          simp [hpub] at this
        · intro e he hn
          have ht : trained g p = false := by
            have h1' : trained { g with ports := g.ports ++ [s] } p = false := by simpa using h1
            unfold trained inputs at h1' ⊢
            simp only [List.filter_append, List.map_append, List.any_append, Bool.or_eq_false_iff] at h1'
            exact h1'.1
          exact trained_false g p ht e.sub (i6.2 e he) hn

/-- precondition on the group for a train/label subscription (established by `Worker.train`'s fork check) -/
private def TrainOK (g : G) (s : Sub) : Prop :=
  s.port.isApply = false → ∀ e ∈ g.edges, e.sub.port.isApply = false →
    gid? g e.sub.node = gid? g s.node → e.sub.node = s.node

private theorem publish_direct_inv (g : G) (p pi : Nat) (s : Sub) (hi : Inv g)
    (hs : isWorker g s.node = true) (hp : isWorker g p = true) (ht : TrainOK g s) :
    Inv (publish g p pi s).1 := by
  rcases publish_direct g p pi s hi hs hp with ⟨e, h⟩ | ⟨h, f1, f2, f3, f5, f6⟩
  · rw [h]; exact hi
  · rw [h]; exact inv_add g p pi s hi f1 f2 f3 hs f5 f6 (isWorker_lt g p hp) ht

private theorem inv_nodes (g : G) (nd : Node) (k : Nat) (hi : Inv g) :
    Inv { g with nodes := g.nodes ++ [nd], ngroups := k } := by
  obtain ⟨i1, i2, i3, i4, i5, i6, i7⟩ := hi
  have hw : ∀ n, n < g.nodes.length →
      isWorker { g with nodes := g.nodes ++ [nd], ngroups := k } n = isWorker g n := by
    intro n h; simp [isWorker, List.getElem?_append_left h]
  have hg : ∀ n, n < g.nodes.length →
      gid? { g with nodes := g.nodes ++ [nd], ngroups := k } n = gid? g n := by
    intro n h; simp [gid?, List.getElem?_append_left h]
  refine ⟨?_, i2, i3, ?_, i5, i6, ?_⟩
  · intro e he e' he' h1 h2 hs
    rw [hw _ (i7 e he).1] at h1
    rw [hw _ (i7 e' he').1] at h2
    exact i1 e he e' he' h1 h2 hs
  · intro e he e' he' ha ha' hgid
    rw [hg _ (isWorker_lt _ _ (i7 e he).2), hg _ (isWorker_lt _ _ (i7 e' he').2)] at hgid
    exact i4 e he e' he' ha ha' hgid
  · intro e he
    have h := i7 e he
    refine ⟨?_, ?_⟩
    · have := h.1
      simp only [List.length_append, List.length_singleton]; omega
    · rw [hw _ (isWorker_lt _ _ h.2)]; exact h.2

private theorem gid_of_worker (g : G) (n : Nat) (h : isWorker g n = true) : ∃ k, gid? g n = some k := by
  unfold isWorker at h; unfold gid?
  split at h <;> simp_all

private theorem trained_true (g : G) (q : Sub) (hq : q ∈ g.ports) (ha : q.port.isApply = false) :
    trained g q.node = true := by
  unfold trained
  exact List.any_eq_true.mpr ⟨q.port, (mem_inputs g q).mpr hq, by simp [ha]⟩

private theorem train_inv (g : G) (n tp ti lp li : Nat) (hi : Inv g)
    (hn : isWorker g n = true) (htp : isWorker g tp = true) (hlp : isWorker g lp = true) :
    Inv (train g n tp ti lp li).1 := by
  unfold train
  split
  · exact hi
  · split
    · exact hi
    · split
      · exact hi
      · rename_i hfork
        -- the fork check: no member of the group is the target of a train/label subscription
        have hnone : ∀ e ∈ g.edges, e.sub.port.isApply = false → gid? g e.sub.node = gid? g n → False := by
          intro e he ha hgid
          obtain ⟨k, hk⟩ := gid_of_worker g n hn
          apply hfork
          apply List.any_eq_true.mpr
          refine ⟨e.sub.node, ?_, trained_true g e.sub (hi.2.2.2.2.2.1.2 e he) ha⟩
          unfold group
          simp only [hk, List.mem_filter, List.mem_range, decide_eq_true_eq]
          exact ⟨isWorker_lt _ _ (hi.2.2.2.2.2.2 e he).2, by rw [hgid, hk]⟩
        rcases publish_direct g tp ti ⟨n, .train⟩ hi hn htp with ⟨e, h⟩ | ⟨h, f1, f2, f3, f5, f6⟩
        · rw [h]; exact hi
        · rw [h]
          have hi1 : Inv (added g tp ti ⟨n, .train⟩) :=
            inv_add g tp ti ⟨n, .train⟩ hi f1 f2 f3 hn f5 f6 (isWorker_lt g tp htp)
              (fun _ e he ha hg => (hnone e he ha hg).elim)
          refine publish_direct_inv (added g tp ti ⟨n, .train⟩) lp li ⟨n, .label⟩ hi1 hn hlp ?_
          intro _ e he ha hg
          simp only [added, List.mem_append, List.mem_singleton] at he
          rcases he with he | rfl
          · exact (hnone e he ha hg).elim
          · rfl

/-- one call whose endpoints are workers — legal or illegal, succeeding or raising — keeps every invariant -/
theorem C11_invariant_step (g : G) (op : Op) (hi : Inv g) (hd : DirectOp g op = true) : Inv (step g op).1 := by
  cases op with
  | mkWorker st i o =>
    simp only [step, mkWorker]; split
    · exact hi
    · exact inv_nodes g _ _ hi
  | mkFuture i o =>
    simp only [step, mkFuture]; split
    · exact hi
    · exact inv_nodes g _ g.ngroups hi
  | fork n =>
    simp only [step, fork]; split
    · exact hi
    · exact inv_nodes g _ g.ngroups hi
  | subscribe s j p pi =>
    simp only [DirectOp, Bool.and_eq_true] at hd
    simp only [step, subscribe]
    split
    · exact hi
    · simp only [isFuture_of_isWorker g s hd.1, Bool.false_eq_true, ↓reduceIte]
      exact publish_direct_inv g p pi ⟨s, .apply j⟩ hi hd.1 hd.2 (fun h => by simp [Port.isApply] at h)
  | train n tp ti lp li =>
    simp only [DirectOp, Bool.and_eq_true] at hd
    exact train_inv g n tp ti lp li hi hd.1.1 hd.1.2 hd.2
  | segment h t => exact hi
  | validate h t => exact hi

theorem C11_invariant_init : Inv init := by decide

/-- every call of the sequence has worker endpoints only (decidable along the run) -/
def AllDirect : G → List Op → Prop
  | _, [] => True
  | g, op :: ops => DirectOp g op = true ∧ AllDirect (step g op).1 ops

instance : (g : G) → (ops : List Op) → Decidable (AllDirect g ops)
  | _, [] => isTrue trivial
  | g, op :: ops =>
    have := instDecidableAllDirect (step g op).1 ops
    by unfold AllDirect; infer_instance

/-- full strength: the invariants hold after every sequence of construction calls -/
def C11_invariant_full : Prop := ∀ ops : List Op, Inv (run init ops)

/-- D12: two publishers registered on one placeholder port, then a subscriber: two publishers on one input port -/
theorem C11_invariant_counterexample : ¬ C11_invariant_full := by
  intro h
  have := h [.mkWorker false 1 1, .mkWorker false 1 1, .mkFuture 1 1, .mkWorker false 1 1,
             .subscribe 2 0 0 0, .subscribe 2 0 1 0, .subscribe 3 0 2 0]
  revert this
  decide

/-- the same witness violates (I1) specifically -/
theorem C11_I1_counterexample :
    ¬ I1 (run init [.mkWorker false 1 1, .mkWorker false 1 1, .mkFuture 1 1, .mkWorker false 1 1,
                    .subscribe 2 0 0 0, .subscribe 2 0 1 0, .subscribe 3 0 2 0]) := by
  unfold I1; decide

/-- **C11_invariant_partial**: by induction over the call sequence — any length, legal and illegal calls, failed
calls and retries in any interleaving — the invariants hold after every prefix, provided no call goes
through a placeholder. -/
theorem C11_invariant_partial (g : G) (ops : List Op) (hi : Inv g) (hd : AllDirect g ops) : Inv (run g ops) := by
  induction ops generalizing g with
  | nil => exact hi
  | cons op ops ih => exact ih (step g op).1 (C11_invariant_step g op hi hd.1) hd.2

/-- non-vacuity: a sequence with legal and illegal direct calls (trained publisher, fork collision, retry,
failing train at the label stage) satisfies the hypothesis and ends in a non-trivial graph -/
example :
    let ops := [Op.mkWorker true 1 1, .mkWorker false 1 2, .fork 0, .mkFuture 1 1, .subscribe 0 0 1 0,
                .train 0 1 0 1 0, .train 2 1 1 0 0, .train 2 1 1 1 0, .subscribe 1 0 2 0, .train 0 1 0 1 0,
                .segment 1 none]
    AllDirect init ops ∧ (run init ops).edges.length = 3 := by
  decide

end ForML.Graph
