/-
C06 — Feed reads return exactly what the statement denotes over its own storage (property theorems).

Objects: `parse` = the model of `forml/io/dsl/parser.py` + `provider/feed/reader/alchemy.py` as a stack machine emitting
abstract SQL (ForML.Model.Parser), `evalSql` = the meaning of that SQL, `denote` = the reference denotation of DSL
statements written from the documentation (ForML.Model.DslDenote), `WF` = well-formed statement over the schemas the
feed provisions (ForML.Model.ParserWF), `FeedCache.run` = the read path of the SQL feeds with their caches.
The tables `EXPRESSION / SET / ORDER`, the join options and the LIMIT/OFFSET emission are re-extracted from the live
code on every run (ForML.Generated.C06Tables); every theorem below is re-checked against them.
-/
import ForML.Lemmas.C06Parse
import ForML.Lemmas.C06Render
import ForML.Lemmas.C06Window
import ForML.Lemmas.C06Hints
import ForML.Lemmas.C06Lazy
import ForML.Lemmas.C06Sugar
import ForML.Lemmas.C06File
import ForML.Model.FeedCache

namespace ForML.C06
open ForML.Dsl ForML.Rel ForML.Parser ForML.Denote

/-! ### the tables of the live code -/

/-- the operator classes of the modelled fragment -/
def modelledOps : List Op :=
  [.lt, .le, .gt, .ge, .eq, .ne, .isnull, .notnull, .and, .or, .not, .add, .sub, .mul, .abs, .count, .sum, .min, .max]

/-- every modelled expression class has an `EXPRESSION` entry that accepts SQL operands -/
theorem C06_expression_total : ∀ op ∈ modelledOps, ∃ sop, exprOp op = some sop ∧ sop ≠ .raises := by decide

/-- every `EXPRESSION` entry emits the SQL operator with the documented meaning of its class -/
theorem C06_expression_sound (op : Op) (sop : SqlOp) (h : exprOp op = some sop) (hr : sop ≠ .raises) :
    sop.isAgg = op.isAggregate ∧ (∀ vs, sqlAgg sop vs = dslAgg op vs) ∧ (∀ vs, sqlScalar sop vs = dslScalar op vs) :=
  ⟨isAgg_eq op sop h hr, sqlAgg_eq_dslAgg op sop h hr, sqlScalar_eq_dslScalar op sop h hr⟩

/-- `generate_join`: the options per join kind (RIGHT = LEFT with the sides swapped; CROSS gets `full=True`) -/
theorem C06_join_table :
    joinOpt .inner = some (false, false, false) ∧ joinOpt .left = some (false, true, false) ∧
    joinOpt .right = some (false, true, true) ∧ joinOpt .full = some (true, false, false) ∧
    joinOpt .cross = some (true, false, false) ∧ Generated.C06.crossOnTrue = true := by decide

/-- `SET` and `ORDER` map every kind / direction to its SQL counterpart -/
theorem C06_set_order_tables :
    (∀ k : SetKind, setOpOf k = some (setOfKind k)) ∧ (∀ d : Dir, orderOf d = some (dirOf d)) := by
  constructor
  · intro k; cases k <;> decide
  · intro d; cases d <;> decide

/-- the `generate_query` model agrees with what the live code emitted on the probed `Rows` -/
theorem C06_rows_probe : ∀ p ∈ Generated.C06.rowsProbe, rowsOpts (some p.1) = p.2 := by decide

/-! ### parsing never fails -/

/-- Every visit of a well-formed statement pushes exactly one symbol — the translation `compile s` — onto the current
context, whatever lies below it, and leaves the suspended contexts and the registered origins as they were. -/
theorem C06_visit_one_symbol (srcs : Sources) (s : Source) (h : WF srcs s = true) :
    ∃ q, compile srcs s = some q ∧
      ∀ (syms : List Sym) (origs : List (Source × String)) (stk : List (Option Ctx)),
        visitSource srcs s ⟨some ⟨syms, origs⟩, stk⟩ = .ok ⟨some ⟨.src q :: syms, origs⟩, stk⟩ := by
  simp only [WF, Bool.and_eq_true] at h
  obtain ⟨q, hq, _, hv⟩ := visit_out srcs h.1 s h.2
  refine ⟨q, hq, ?_⟩
  intro syms origs stk
  have hreg : regOrigins srcs s = [] := by
    cases s <;> simp [wfOut] at h <;> rfl
  simpa [hreg] using hv syms origs stk

/-- `Reader._parse_statement` on a well-formed statement returns the translation: the visitor ends with exactly one
symbol in the context it was started in and an empty stack of suspended contexts (`fetch` and `__exit__` succeed) -/
theorem C06_parse_spec (srcs : Sources) (s : Source) (h : WF srcs s = true) :
    ∃ q, compile srcs s = some q ∧ parse srcs s = .ok q := by
  obtain ⟨q, hq, hv⟩ := C06_visit_one_symbol srcs s h
  refine ⟨q, hq, ?_⟩
  have := hv [] [] [none]
  simp [parse, enter, this, pop, exit, bind, Except.bind]

/-- parsing a well-formed statement over provisioned tables never fails -/
theorem C06_parse_total (srcs : Sources) (s : Source) (h : WF srcs s = true) : ∃ q, parse srcs s = .ok q := by
  obtain ⟨q, _, hp⟩ := C06_parse_spec srcs s h
  exact ⟨q, hp⟩

/-! ### the Python operator surface the statements are written in -/

open ForML.Sugar (PyExpr PyOp Operand)

/-- the documented meaning of every operator method of `Operable`: method ↦ (expression class, operand order) -/
def sugarSpec : List (String × (String × String)) := [
  ("__add__", ("Addition", "self-other")), ("__and__", ("And", "self-other")), ("__eq__", ("Equal", "self-other")),
  ("__ge__", ("GreaterEqual", "self-other")), ("__gt__", ("GreaterThan", "self-other")), ("__invert__", ("Not", "self")),
  ("__le__", ("LessEqual", "self-other")), ("__lt__", ("LessThan", "self-other")), ("__mod__", ("Modulus", "self-other")),
  ("__mul__", ("Multiplication", "self-other")), ("__ne__", ("NotEqual", "self-other")), ("__or__", ("Or", "self-other")),
  ("__radd__", ("Addition", "other-self")), ("__rand__", ("And", "other-self")), ("__rmod__", ("Modulus", "other-self")),
  ("__rmul__", ("Multiplication", "other-self")), ("__ror__", ("Or", "other-self")),
  ("__rsub__", ("Subtraction", "other-self")), ("__rtruediv__", ("Division", "other-self")),
  ("__sub__", ("Subtraction", "self-other")), ("__truediv__", ("Division", "self-other"))]

/-- the operator methods of the live `Operable` (probed with marker operands on every run) are the documented ones:
a reflected method `__rop__` puts `other` first -/
theorem C06_sugar_table : Generated.C06.sugar = sugarSpec := by decide

/-- every binary operator with at least one feature operand constructs a feature: the operator's documented class with
the operands in the written order, or — comparisons only, the interpreter's own mirroring — the mirrored class with the
operands exchanged -/
theorem C06_sugar_binary (op : PyOp) (a b : Operand) (h : (∃ f, a = .feat f) ∨ (∃ f, b = .feat f)) :
    Sugar.binary op a b = some (.expr op.dsl (.cons a.lift (.cons b.lift .nil))) ∨
      (op.isComparison = true ∧
        Sugar.binary op a b = some (.expr (mirrorOp op.dsl) (.cons b.lift (.cons a.lift .nil)))) :=
  binary_spec op a b h

/-- the feature a Python expression over plain values and features constructs (any nesting, plain values on either
side, `~`) has on every row the value of the expression it is documented to mean -/
theorem C06_sugar_denotes (e : PyExpr) (f : Feature) (h : e.eval = some (.feat f)) (labels : Labels) (g : List Row)
    (row : Row) : evalF labels f g row = evalF labels e.spec g row :=
  sugarEq_sem (eval_spec e f h) labels g row

/-! ### origin resolution: references, self-joins -/

/-- `context.origins`: after the visit of the FROM tree of a well-formed query — in whatever order tables and
references to them were visited — every origin of the tree (a table, each reference to it) resolves to *its own*
handle, the name it is addressed by in the emitted SQL; and different origins have different handles (so the columns
of a table and of a reference to the same table, as in a self-join, are never confused). -/
theorem C06_origin_resolution (srcs : Sources) (hT : OnlyTables srcs = true) (s : Source)
    (hwf : wfFrom srcs s = true) (ho : isOrigin s = true) (hn : nodupB ((leaves s).map (qualD srcs)) = true)
    (syms : List Sym) (origs : List (Source × String)) (stk : List (Option Ctx)) :
    ∃ st', visitSource srcs s ⟨some ⟨syms, origs⟩, stk⟩ = .ok st' ∧
      (∀ o ∈ leaves s, getOrigin o st' = .ok (qualD srcs o)) ∧
      (∀ a ∈ leaves s, ∀ b ∈ leaves s, qualD srcs a = qualD srcs b → a = b) := by
  obtain ⟨q, _, hv⟩ := visit_from srcs hT s hwf ho
  refine ⟨_, hv syms origs stk, ?_, injOn_of_nodupB srcs _ hn⟩
  intro o hm
  have hl := registered_of_reg srcs s hwf ho origs o hm
  obtain ⟨h, hh⟩ := Option.isSome_iff_exists.mp (leaves_qual_some srcs s hwf ho o hm)
  simp [getOrigin, hl, hh, qualD]

/-! ### … also with the per-table segments (`Context.tables`) and the hint code `visit_table` generates -/

open ForML.Parser.Hints (parseH factorsOf hintFeatures queryCtx)

/-- Every factor `.factors` files under a table is a feature over that table alone, built from expression classes the
parser supports — so `visit_table` can always generate its code in the context in which only that table is registered. -/
theorem C06_factors_over_own_table (scope : List Source) (e : Feature) (h : supportedF scope e = true) :
    ∀ p ∈ factorsOf e, supportedF [p.1] p.2 = true :=
  factorsOf_ok scope e h

/-- the visitor with the segments (`Tables.select / filter` in `visit_query` / `visit_join`, the fields and the
predicate `visit_table` generates code for) computes exactly what the visitor without them computes: generating the
hint code never raises and leaves the parser state as it was -/
theorem C06_hint_generation_inert (srcs : Sources) (s : Source) (h : WF srcs s = true) : parseH srcs s = parse srcs s :=
  parseH_eq_parse srcs s h

/-- parsing a well-formed statement never fails — the complete `visit_table` included -/
theorem C06_parse_hints_total (srcs : Sources) (s : Source) (h : WF srcs s = true) :
    ∃ q, compile srcs s = some q ∧ parseH srcs s = .ok q := by
  obtain ⟨q, hq, hp⟩ := C06_parse_spec srcs s h
  exact ⟨q, hq, by rw [C06_hint_generation_inert srcs s h, hp]⟩

/-! ### the rows returned are the rows denoted -/

/-- rows the database returns for what the parser emitted (`none`: parsing or evaluation failed) -/
def readRows (srcs : Sources) (s : Source) (db : Db) : Option ORel :=
  match parse srcs s with
  | .ok q => evalSql q db
  | .error _ => none

/-- full strength: for every well-formed statement and every storage content -/
def C06_denotation_full : Prop :=
  ∀ (srcs : Sources) (s : Source), WF srcs s = true → ∀ db : Db, readRows srcs s db = denote srcs s db

/-- holds for every statement and every content on which each CROSS join has two non-empty or two empty sides: the
excluded region is *exactly* the known finding (CROSS rendered as FULL OUTER JOIN ON true, one side empty) -/
theorem C06_denotation_partial (srcs : Sources) (s : Source) (h : WF srcs s = true) (db : Db)
    (hc : crossBalanced srcs s db = true) : readRows srcs s db = denote srcs s db := by
  obtain ⟨q, hq, hp⟩ := C06_parse_spec srcs s h
  simp only [WF, Bool.and_eq_true] at h
  obtain ⟨q', hq', _, hev⟩ := out_spec srcs s h.2
  rw [hq] at hq'; injection hq' with hq'; subst hq'
  simp [readRows, hp, evalSql, denote, hev db hc]

/-- in particular for every statement without a CROSS join, over every content -/
theorem C06_denotation_nocross (srcs : Sources) (s : Source) (h : WF srcs s = true) (hc : noCross s = true) (db : Db) :
    readRows srcs s db = denote srcs s db :=
  C06_denotation_partial srcs s h db (crossBalanced_of_noCross srcs db s hc)

/-! ### set operations -/

/-- reading a set operation is the set operation on what reading its operands returns (every content, no restriction) -/
theorem C06_set_compositional (srcs : Sources) (l r : Source) (k : SetKind) (h : WF srcs (.set l r k) = true) (db : Db) :
    readRows srcs (.set l r k) db =
      match readRows srcs l db, readRows srcs r db with
      | some L, some R =>
        if L.names.length = R.names.length then some ⟨L.names, setRows (setOfKind k) L.rows R.rows⟩ else none
      | _, _ => none := by
  have h' := h
  simp only [WF, wfOut, Bool.and_eq_true] at h'
  obtain ⟨hT, ⟨hl, hr⟩, hk⟩ := h'
  obtain ⟨q, hq, hp⟩ := C06_parse_spec srcs _ h
  obtain ⟨ql, hql, hpl⟩ := C06_parse_spec srcs l (by simp [WF, hT, hl])
  obtain ⟨qr, hqr, hpr⟩ := C06_parse_spec srcs r (by simp [WF, hT, hr])
  have : q = .compound (setOfKind k) ql qr := by
    simp [compile, hql, hqr, setOpOf_setOfKind k hk] at hq
    exact hq.symm
  subst this
  simp only [readRows, hp, hpl, hpr, evalSql, evalOut]
  cases evalOut ql db <;> cases evalOut qr db <;> rfl

/-- consequently a set operation denotes what the documentation says as soon as its operands do -/
theorem C06_set_denotes (srcs : Sources) (l r : Source) (k : SetKind) (h : WF srcs (.set l r k) = true) (db : Db)
    (hl : readRows srcs l db = denote srcs l db) (hr : readRows srcs r db = denote srcs r db) :
    readRows srcs (.set l r k) db = denote srcs (.set l r k) db := by
  rw [C06_set_compositional srcs l r k h db, hl, hr]
  simp only [denote, denoteOut]
  cases denoteOut srcs l db <;> cases denoteOut srcs r db <;> rfl

/-! ### LIMIT / OFFSET -/

/-- `limit(count, offset)`: the read returns exactly the rows `[offset, offset + count)` of what the same statement
without a limit returns — for every well-formed statement, every content, every `count` and `offset` (the arithmetic
of `generate_query`: `LIMIT count`, `OFFSET offset` only when non-zero; no CROSS restriction) -/
theorem C06_limit_window (srcs : Sources) (src : Source) (sel : Features) (pre : FeatureOpt) (grp : Features)
    (post : FeatureOpt) (ord : Orderings) (c o : Int)
    (h : WF srcs (.query src sel pre grp post ord (some (c, o))) = true) (db : Db) (R : ORel)
    (hR : readRows srcs (.query src sel pre grp post ord none) db = some R) :
    readRows srcs (.query src sel pre grp post ord (some (c, o))) db =
      some ⟨R.names, (R.rows.drop (toNat' o)).take (toNat' c)⟩ := by
  have h0 : WF srcs (.query src sel pre grp post ord none) = true := by
    simpa [WF, wfOut] using h
  obtain ⟨q0, hq0, hp0⟩ := C06_parse_spec srcs _ h0
  obtain ⟨q1, hq1, hp1⟩ := C06_parse_spec srcs _ h
  obtain ⟨items, frm, whr, g, hav, od, rfl⟩ := compile_query_select srcs src sel pre grp post ord none q0 hq0
  rw [compile_rows, hq0] at hq1
  simp only [Option.map_some, Option.some.injEq] at hq1
  subst hq1
  simp only [readRows, hp0] at hR
  simp only [readRows, hp1, withWindow]
  rw [evalSql_window items frm whr g hav od _ _ db R hR, windowOf_rowsOpts]

/-- consequently a limited read denotes what the documentation says as soon as the unlimited read does -/
theorem C06_limit_denotes (srcs : Sources) (src : Source) (sel : Features) (pre : FeatureOpt) (grp : Features)
    (post : FeatureOpt) (ord : Orderings) (c o : Int)
    (h : WF srcs (.query src sel pre grp post ord (some (c, o))) = true) (db : Db) (R : ORel)
    (hR : readRows srcs (.query src sel pre grp post ord none) db = some R)
    (hD : denote srcs (.query src sel pre grp post ord none) db = some R) :
    readRows srcs (.query src sel pre grp post ord (some (c, o))) db =
      denote srcs (.query src sel pre grp post ord (some (c, o))) db := by
  rw [C06_limit_window srcs src sel pre grp post ord c o h db R hR,
    denote_window srcs src sel pre grp post ord c o db R hD]

/-! ### witnesses -/

namespace Witness
def A : Source := .table "A" [("id", .integer), ("x", .integer)]
def B : Source := .table "B" [("id", .integer), ("y", .integer)]
def srcs : Sources := [(A, "a"), (B, "b")]

/-- `A.cross_join(B).select(A.x, B.y)` -/
def crossStmt : Source :=
  .query (.join A B .cross .none) (.cons (.elem A "x") (.cons (.elem B "y") .nil)) .none .nil .none .nil none

/-- one row in `a`, none in `b` -/
def crossDb : Db := [("a", ⟨["id", "x"], [[.int 1, .int 10]]⟩), ("b", ⟨["id", "y"], []⟩)]

/-- `A.left_join(r, A.x == r.id).select(A.id, Count(r.x).alias('n')).where(A.id > 0).groupby(A.id).orderby(A.id)`
with `r = A.reference('r')`: a self-join through a reference, a pre-aggregation filter, grouping, an aggregate,
an alias and an ordering -/
def R : Source := .ref A "r"
def selfStmt : Source :=
  .query (.join A R .left (.some (.expr .eq (.cons (.elem A "x") (.cons (.elem R "id") .nil)))))
    (.cons (.elem A "id") (.cons (.alias (.expr .count (.cons (.elem R "x") .nil)) "n") .nil))
    (.some (.expr .gt (.cons (.elem A "id") (.cons (.lit (.int 0)) .nil))))
    (.cons (.elem A "id") .nil) .none (.cons (.mk (.elem A "id") .desc) .nil) (some (5, 0))

def selfDb : Db := [("a", ⟨["id", "x"], [[.int 1, .int 2], [.int 2, .int 2], [.int 3, .null]]⟩), ("b", ⟨["id", "y"], []⟩)]
end Witness

/-- non-vacuity of the segment mechanism: for `selfStmt` the context of the query holds a factor for the table `A`
(`A.id > 0`, from the `where` clause) and three of its columns, `visit_table` generates code for all of them, and the
parse with the segments succeeds with the translation -/
example :
    hintFeatures (queryCtx (.join Witness.A Witness.R .left (.some (.expr .eq (.cons (.elem Witness.A "x") (.cons (.elem Witness.R "id") .nil)))))
        (.cons (.elem Witness.A "id") (.cons (.alias (.expr .count (.cons (.elem Witness.R "x") .nil)) "n") .nil))
        (.some (.expr .gt (.cons (.elem Witness.A "id") (.cons (.lit (.int 0)) .nil)))) (.cons (.elem Witness.A "id") .nil) .none
        (.cons (.mk (.elem Witness.A "id") .desc) .nil)) Witness.A =
      [.elem Witness.A "id", .elem Witness.A "x", .expr .gt (.cons (.elem Witness.A "id") (.cons (.lit (.int 0)) .nil))] ∧
    (match parseH Witness.srcs Witness.selfStmt with
     | .ok q => compile Witness.srcs Witness.selfStmt == some q
     | .error _ => false) = true := by
  decide

/-- non-vacuity of `C06_limit_window`: `limit(2, 1)` of the ordered self-join -/
example :
    readRows Witness.srcs
      (.query (.join Witness.A Witness.R .left (.some (.expr .eq (.cons (.elem Witness.A "x") (.cons (.elem Witness.R "id") .nil)))))
        (.cons (.elem Witness.A "id") .nil) .none .nil .none (.cons (.mk (.elem Witness.A "id") .desc) .nil) (some (2, 1)))
      Witness.selfDb = some ⟨[some "id"], [[.int 2], [.int 1]]⟩ := by
  decide

/-- the full statement is false of the code that exists: a CROSS join with exactly one empty side -/
theorem C06_denotation_counterexample : ¬ C06_denotation_full := by
  intro h
  have := h Witness.srcs Witness.crossStmt (by decide) Witness.crossDb
  revert this
  decide

/-- what the witness shows: nothing is denoted, one NULL-extended row is returned -/
example : denote Witness.srcs Witness.crossStmt Witness.crossDb = some ⟨[some "x", some "y"], []⟩ ∧
    readRows Witness.srcs Witness.crossStmt Witness.crossDb = some ⟨[some "x", some "y"], [[.int 10, .null]]⟩ := by
  decide

/-- non-vacuity of `C06_denotation_partial` with a CROSS join: both sides non-empty -/
example : WF Witness.srcs Witness.crossStmt = true ∧
    crossBalanced Witness.srcs Witness.crossStmt
      [("a", ⟨["id", "x"], [[.int 1, .int 10]]⟩), ("b", ⟨["id", "y"], [[.int 1, .int 5], [.int 2, .null]]⟩)] = true ∧
    denote Witness.srcs Witness.crossStmt
      [("a", ⟨["id", "x"], [[.int 1, .int 10]]⟩), ("b", ⟨["id", "y"], [[.int 1, .int 5], [.int 2, .null]]⟩)] =
      some ⟨[some "x", some "y"], [[.int 10, .int 5], [.int 10, .null]]⟩ := by
  decide

/-- non-vacuity of `C06_denotation_nocross`: a well-formed statement without CROSS with a non-trivial denotation -/
example : WF Witness.srcs Witness.selfStmt = true ∧ noCross Witness.selfStmt = true ∧
    denote Witness.srcs Witness.selfStmt Witness.selfDb =
      some ⟨[some "id", some "n"], [[.int 3, .int 0], [.int 2, .int 1], [.int 1, .int 1]]⟩ := by
  decide

/-! ### reads do not depend on other feeds, other storages or earlier reads -/

open ForML.FeedCache (Feed State FeedKind run step storageOf)

/-- what every read of a history should return: a fresh evaluation over the feed's own storage at read time -/
def fresh (feeds : List Feed) : List Db → List FeedCache.Op → List (Option ORel)
  | _, [] => []
  | dbs, .read i s :: ops =>
    (match feeds[i]? with
     | none => none
     | some f => readRows f.srcs s (dbs.getD f.storage [])) :: fresh feeds dbs ops
  | dbs, .mutate i db :: ops => fresh feeds (dbs.set i db) ops
  | dbs, .restart :: ops => fresh feeds dbs ops

/-- full strength: in every history every read returns the fresh evaluation -/
def C06_independence_full : Prop :=
  ∀ (feeds : List Feed) (dbs : List Db) (ops : List FeedCache.Op), run feeds { storages := dbs } ops = fresh feeds dbs ops

namespace Witness
def sel : Source := .query A (.cons (.elem A "x") .nil) .none .nil .none .nil none
def db1 : Db := [("a", ⟨["id", "x"], [[.int 1, .int 10]]⟩)]
def db2 : Db := [("a", ⟨["id", "x"], [[.int 1, .int 20]]⟩)]
def feedOn (i : Nat) : Feed := { kind := .alchemy, srcs := [(A, "a")], storage := i }
def lazyOn (i : Nat) : Feed := { kind := .lazy, srcs := [(A, "a")], storage := i }
end Witness

/-- `read; mutate storage; read`: the second read returns the rows of the first (result cache keyed by the SQL text) -/
theorem C06_stale_counterexample :
    run [Witness.feedOn 0] { storages := [Witness.db1] } [.read 0 Witness.sel, .mutate 0 Witness.db2, .read 0 Witness.sel] ≠
      fresh [Witness.feedOn 0] [Witness.db1] [.read 0 Witness.sel, .mutate 0 Witness.db2, .read 0 Witness.sel] := by
  decide

/-- the stale rows also survive a restart (file cache under the ForML home directory) -/
theorem C06_stale_restart_counterexample :
    run [Witness.feedOn 0] { storages := [Witness.db1] }
        [.read 0 Witness.sel, .mutate 0 Witness.db2, .restart, .read 0 Witness.sel] ≠
      fresh [Witness.feedOn 0] [Witness.db1] [.read 0 Witness.sel, .mutate 0 Witness.db2, .restart, .read 0 Witness.sel] := by
  decide

/-- two feeds over two storages with equally named tables: the second feed gets the first feed's rows -/
theorem C06_crossfeed_counterexample :
    run [Witness.feedOn 0, Witness.feedOn 1] { storages := [Witness.db1, Witness.db2] }
        [.read 0 Witness.sel, .read 1 Witness.sel] ≠
      fresh [Witness.feedOn 0, Witness.feedOn 1] [Witness.db1, Witness.db2] [.read 0 Witness.sel, .read 1 Witness.sel] := by
  decide

/-- lazy feeds: an origin registered once in the process-global backend is never refreshed — a *different* statement
read after the storage changed still sees the old table content -/
theorem C06_lazy_counterexample :
    run [Witness.lazyOn 0] { storages := [Witness.db1] }
        [.read 0 Witness.sel, .mutate 0 Witness.db2, .read 0 (.query Witness.A (.cons (.elem Witness.A "id") (.cons (.elem Witness.A "x") .nil)) .none .nil .none .nil none)] ≠
      fresh [Witness.lazyOn 0] [Witness.db1]
        [.read 0 Witness.sel, .mutate 0 Witness.db2, .read 0 (.query Witness.A (.cons (.elem Witness.A "id") (.cons (.elem Witness.A "x") .nil)) .none .nil .none .nil none)] := by
  decide

/-- lazy feeds: a table none of whose columns is used (here the right side of a CROSS join) is never registered in
the backend, the read fails although the statement denotes rows -/
theorem C06_lazy_unused_counterexample :
    run [{ kind := .lazy, srcs := Witness.srcs, storage := 0 }]
        { storages := [[("a", ⟨["id", "x"], [[.int 1, .int 10]]⟩), ("b", ⟨["id", "y"], [[.int 1, .int 5]]⟩)]] }
        [.read 0 (.query (.join Witness.A Witness.B .cross .none) (.cons (.elem Witness.A "x") .nil) .none .nil .none .nil none)] = [none] ∧
      fresh [{ kind := .lazy, srcs := Witness.srcs, storage := 0 }]
        [[("a", ⟨["id", "x"], [[.int 1, .int 10]]⟩), ("b", ⟨["id", "y"], [[.int 1, .int 5]]⟩)]]
        [.read 0 (.query (.join Witness.A Witness.B .cross .none) (.cons (.elem Witness.A "x") .nil) .none .nil .none .nil none)] =
        [some ⟨[some "x"], [[.int 10]]⟩] := by
  decide

theorem C06_independence_counterexample : ¬ C06_independence_full := by
  intro h
  exact C06_stale_counterexample (h _ _ _)

/-- histories without a storage change -/
def noMutate : List FeedCache.Op → Bool
  | [] => true
  | .mutate _ _ :: _ => false
  | _ :: ops => noMutate ops

/-- all feeds are alchemy feeds on the storage `k` -/
def allOn (k : Nat) (feeds : List Feed) : Bool := feeds.all (fun f => f.kind == .alchemy && f.storage == k)

/-! #### the key of the result cache -/

open ForML.FeedCache (keyOf)

/-- The key of the result cache — the rendered statement with its literal values in line — determines the SQL the
parser emitted: two statements share a cache entry only if they were translated to the same SQL. -/
theorem C06_cache_key_injective (q q' : SqlSel) (h : keyOf q = keyOf q') : q = q' :=
  Render.sel_injective q q' h

/-- distinct statements (differing in a literal, an operator, an alias, a limit or an offset …) never share an entry -/
theorem C06_distinct_statements_distinct_entries (q q' : SqlSel) (h : q ≠ q') : keyOf q ≠ keyOf q' :=
  fun hk => h (C06_cache_key_injective q q' hk)

/-- non-vacuity: `… WHERE x > 25` and `… WHERE x > 45`, `LIMIT 3` and `LIMIT 3 OFFSET 2` have different keys -/
example :
    keyOf (.select [.col "t" "x"] (.table "t") (some (.bin .gt (.col "t" "x") (.lit (.int 25)))) [] none [] none none) ≠
      keyOf (.select [.col "t" "x"] (.table "t") (some (.bin .gt (.col "t" "x") (.lit (.int 45)))) [] none [] none none) ∧
    keyOf (.select [.col "t" "x"] (.table "t") none [] none [] (some 3) none) ≠
      keyOf (.select [.col "t" "x"] (.table "t") none [] none [] (some 3) (some 2)) := by
  decide

/-- the caches only hold what a fresh evaluation over `db` yields; the parse cache only holds what parsing yields -/
structure CacheOk (feeds : List Feed) (dbs : List Db) (k : Nat) (st : State) : Prop where
  stor : st.storages = dbs
  mem : ∀ q v, st.mem.lookup (keyOf q) = some v → evalSql q (dbs.getD k []) = some v
  disk : ∀ q v, st.disk.lookup (keyOf q) = some v → evalSql q (dbs.getD k []) = some v
  parsed : ∀ i s q, st.parsed.lookup (i, s) = some q → ∃ f, feeds[i]? = some f ∧ parse f.srcs s = .ok q

private theorem lookup_cons_key (q q' : SqlSel) (v : ORel) (l : List (FeedCache.Key × ORel)) :
    ((keyOf q, v) :: l).lookup (keyOf q') = if q' = q then some v else l.lookup (keyOf q') := by
  by_cases h : q' = q
  · subst h; simp [List.lookup]
  · have hk : keyOf q' ≠ keyOf q := C06_distinct_statements_distinct_entries q' q h
    have : (keyOf q' == keyOf q) = false := by simpa using hk
    simp [List.lookup, this, h]

private theorem exec_fresh (feeds : List Feed) (dbs : List Db) (k : Nat) (st : State) (hst : CacheOk feeds dbs k st)
    (f : Feed) (hk : f.kind = .alchemy) (hs : f.storage = k) (s : Source) (q : SqlSel) :
    (FeedCache.exec st f s q).2 = evalSql q (dbs.getD k []) ∧ CacheOk feeds dbs k (FeedCache.exec st f s q).1 := by
  unfold FeedCache.exec
  simp only [hk, storageOf, hs]
  have hne : (FeedKind.alchemy = FeedKind.lazy) = False := by simp
  simp only [hne, decide_false, Bool.false_and, Bool.false_eq_true, if_false]
  cases hm : st.mem.lookup (keyOf q) with
  | some v => exact ⟨(hst.mem q v hm).symm, hst⟩
  | none =>
    cases hd : st.disk.lookup (keyOf q) with
    | some v =>
      refine ⟨(hst.disk q v hd).symm, ⟨hst.stor, ?_, hst.disk, hst.parsed⟩⟩
      intro q' v' h'
      rw [lookup_cons_key] at h'
      by_cases hq : q' = q
      · subst hq; simp at h'; subst h'; exact hst.disk _ _ hd
      · simp [hq] at h'; exact hst.mem q' v' h'
    | none =>
      cases he : evalSql q (st.storages.getD k []) with
      | none =>
        refine ⟨?_, hst⟩
        rw [← hst.stor, he]
      | some v =>
        have he' : evalSql q (dbs.getD k []) = some v := by rw [← hst.stor]; exact he
        refine ⟨he'.symm, ⟨hst.stor, ?_, ?_, hst.parsed⟩⟩
        · intro q' v' h'
          rw [lookup_cons_key] at h'
          by_cases hq : q' = q
          · subst hq; simp at h'; subst h'; exact he'
          · simp [hq] at h'; exact hst.mem q' v' h'
        · intro q' v' h'
          rw [lookup_cons_key] at h'
          by_cases hq : q' = q
          · subst hq; simp at h'; subst h'; exact he'
          · simp [hq] at h'; exact hst.disk q' v' h'

private theorem lookup_cons_parsed (i i' : Nat) (s s' : Source) (q : SqlSel) (l : List ((Nat × Source) × SqlSel)) :
    (((i, s), q) :: l).lookup (i', s') = if (i', s') = (i, s) then some q else l.lookup (i', s') := by
  by_cases h : (i', s') = (i, s)
  · rw [h]; simp [List.lookup]
  · have : ((i', s') == (i, s)) = false := by simpa using h
    simp [List.lookup, this, h]

private theorem read_fresh (feeds : List Feed) (dbs : List Db) (k : Nat) (st : State) (hst : CacheOk feeds dbs k st)
    (i : Nat) (f : Feed) (hi : feeds[i]? = some f) (hk : f.kind = .alchemy) (hs : f.storage = k) (s : Source) :
    (FeedCache.read st i f s).2 = readRows f.srcs s (dbs.getD k []) ∧ CacheOk feeds dbs k (FeedCache.read st i f s).1 := by
  unfold FeedCache.read FeedCache.parseCached readRows
  cases hl : st.parsed.lookup (i, s) with
  | some q =>
    obtain ⟨f', hf', hp⟩ := hst.parsed i s q hl
    rw [hi] at hf'; injection hf' with hf'; subst hf'
    simp only [hp]
    exact exec_fresh feeds dbs k st hst f hk hs s q
  | none =>
    cases hp : parse f.srcs s with
    | error e => exact ⟨rfl, hst⟩
    | ok q =>
      simp only []
      refine exec_fresh feeds dbs k { st with parsed := ((i, s), q) :: st.parsed } ⟨hst.stor, hst.mem, hst.disk, ?_⟩ f hk hs s q
      intro i' s' q' h'
      rw [lookup_cons_parsed] at h'
      by_cases hq : (i', s') = (i, s)
      · simp only [hq, if_true, Option.some.injEq] at h'
        injection hq with h1 h2
        subst h1 h2 h'
        exact ⟨f, hi, hp⟩
      · simp only [hq, if_false] at h'
        exact hst.parsed i' s' q' h'

private theorem run_fresh (feeds : List Feed) (dbs : List Db) (k : Nat) (hf : allOn k feeds = true) :
    ∀ (ops : List FeedCache.Op) (st : State), noMutate ops = true → CacheOk feeds dbs k st →
      run feeds st ops = fresh feeds dbs ops
  | [], _, _, _ => rfl
  | .read i s :: ops, st, hn, hst => by
    simp only [run, step, fresh]
    cases hi : feeds[i]? with
    | none =>
      simp only [run_fresh feeds dbs k hf ops st (by simpa [noMutate] using hn) hst]
    | some f =>
      have hmem : f ∈ feeds := List.mem_of_getElem? hi
      have hfk := List.all_eq_true.mp hf f hmem
      simp only [Bool.and_eq_true, beq_iff_eq] at hfk
      obtain ⟨h1, h2⟩ := read_fresh feeds dbs k st hst i f hi hfk.1 hfk.2 s
      simp only [h1, hfk.2]
      rw [run_fresh feeds dbs k hf ops (FeedCache.read st i f s).1 (by simpa [noMutate] using hn) h2]
  | .mutate i db :: ops, st, hn, _ => by simp [noMutate] at hn
  | .restart :: ops, st, hn, hst => by
    simp only [run, step, fresh]
    apply run_fresh feeds dbs k hf ops _ (by simpa [noMutate] using hn)
    exact ⟨hst.stor, by intro q v h; simp [List.lookup] at h, hst.disk, by intro i s q h; simp [List.lookup] at h⟩

/-- What holds of the code that exists: as long as the storage does not change and all feeds read the same storage,
every read of every history — arbitrary statements in any order, repeated, across restarts that keep the home
directory — returns the fresh evaluation of *its own* statement: statements never get each other's rows (the cache key
is injective, `C06_cache_key_injective`; the parse cache is transparent). -/
theorem C06_independence_partial (feeds : List Feed) (dbs : List Db) (k : Nat) (ops : List FeedCache.Op)
    (hf : allOn k feeds = true) (hn : noMutate ops = true) :
    run feeds { storages := dbs } ops = fresh feeds dbs ops :=
  run_fresh feeds dbs k hf ops _ hn
    ⟨rfl, by intro q v h; simp [List.lookup] at h, by intro q v h; simp [List.lookup] at h,
     by intro i s q h; simp [List.lookup] at h⟩

/-- every statement read in the history is well-formed for its feed and CROSS-balanced over the content `db` -/
def readsOk (feeds : List Feed) (db : Db) : List FeedCache.Op → Bool
  | [] => true
  | .read i s :: ops =>
    (match feeds[i]? with
     | none => true
     | some f => WF f.srcs s && crossBalanced f.srcs s db) && readsOk feeds db ops
  | _ :: ops => readsOk feeds db ops

private theorem fresh_spec (feeds : List Feed) (dbs : List Db) (k : Nat) (hf : allOn k feeds = true) :
    ∀ ops : List FeedCache.Op, noMutate ops = true → readsOk feeds (dbs.getD k []) ops = true →
      fresh feeds dbs ops = FeedCache.spec feeds dbs ops
  | [], _, _ => rfl
  | .read i s :: ops, hn, hr => by
    simp only [readsOk, Bool.and_eq_true] at hr
    simp only [fresh, FeedCache.spec]
    rw [fresh_spec feeds dbs k hf ops (by simpa [noMutate] using hn) hr.2]
    cases hi : feeds[i]? with
    | none => rfl
    | some f =>
      have hfk := List.all_eq_true.mp hf f (List.mem_of_getElem? hi)
      simp only [Bool.and_eq_true, beq_iff_eq] at hfk
      have h := hr.1
      simp only [hi, Bool.and_eq_true] at h
      simp only [hfk.2, C06_denotation_partial f.srcs s h.1 (dbs.getD k []) h.2]
  | .mutate i db :: ops, hn, _ => by simp [noMutate] at hn
  | .restart :: ops, hn, hr => by
    simp only [fresh, FeedCache.spec]
    exact fresh_spec feeds dbs k hf ops (by simpa [noMutate] using hn) (by simpa [readsOk] using hr)

/-- Over unchanged storage, for every history of reads of arbitrary well-formed statements (in any order, repeated,
across restarts) every read returns exactly what *its own statement denotes* over the storage — whatever was read
before (outside the CROSS finding's region). -/
theorem C06_history_denotes (feeds : List Feed) (dbs : List Db) (k : Nat) (ops : List FeedCache.Op)
    (hf : allOn k feeds = true) (hn : noMutate ops = true) (hr : readsOk feeds (dbs.getD k []) ops = true) :
    run feeds { storages := dbs } ops = FeedCache.spec feeds dbs ops := by
  rw [C06_independence_partial feeds dbs k ops hf hn]
  exact fresh_spec feeds dbs k hf ops hn hr

/-- non-vacuity: a history with a restart and repeated reads through two feeds on one storage -/
example : allOn 0 [Witness.feedOn 0, Witness.feedOn 0] = true ∧
    noMutate [.read 0 Witness.sel, .restart, .read 1 Witness.sel, .read 0 Witness.sel] = true ∧
    run [Witness.feedOn 0, Witness.feedOn 0] { storages := [Witness.db1] }
      [.read 0 Witness.sel, .restart, .read 1 Witness.sel, .read 0 Witness.sel] =
      [some ⟨[some "x"], [[.int 10]]⟩, some ⟨[some "x"], [[.int 10]]⟩, some ⟨[some "x"], [[.int 10]]⟩] := by
  decide

/-! #### lazy (file / inline backed) feeds -/

/-- all feeds are lazy feeds provisioning `srcs` from the storage `k` -/
def allLazyOn (srcs : Sources) (k : Nat) (feeds : List Feed) : Bool :=
  feeds.all (fun f => f.kind == .lazy && f.storage == k && f.srcs == srcs)

/-- every statement read is well-formed and uses a column of each of its tables, all present in the storage -/
def lazyReadsOk (srcs : Sources) (db : Db) : List FeedCache.Op → Bool
  | [] => true
  | .read _ s :: ops => (WF srcs s && lazyCovered srcs db s) && lazyReadsOk srcs db ops
  | _ :: ops => lazyReadsOk srcs db ops

private theorem read_lazy (srcs : Sources) (k : Nat) (dbs : List Db) (st : State) (hst : LazyOk srcs k dbs st)
    (i : Nat) (f : Feed) (hk : f.kind = .lazy) (hsr : f.srcs = srcs) (hs : f.storage = k) (s : Source)
    (hwf : WF srcs s = true) (hcov : lazyCovered srcs (dbs.getD k []) s = true) :
    (FeedCache.read st i f s).2 = readRows srcs s (dbs.getD k []) ∧ LazyOk srcs k dbs (FeedCache.read st i f s).1 := by
  obtain ⟨q0, hq0, hp0⟩ := C06_parse_spec srcs s hwf
  unfold FeedCache.read FeedCache.parseCached readRows
  cases hl : st.parsed.lookup (i, s) with
  | some q =>
    have hp := hst.parsed i s q hl
    rw [hp0] at hp; injection hp with hp; subst hp
    simp only [hp0]
    exact exec_lazy srcs k dbs st hst f hk hsr hs s q0 hq0 hcov
  | none =>
    simp only [hsr, hp0]
    refine exec_lazy srcs k dbs { st with parsed := ((i, s), q0) :: st.parsed }
      ⟨hst.stor, hst.mem, hst.disk, hst.back, hst.parts, ?_⟩ f hk hsr hs s q0 hq0 hcov
    intro i' s' q' h'
    rw [lookup_cons_parsed] at h'
    by_cases hq : (i', s') = (i, s)
    · simp only [hq, if_true, Option.some.injEq] at h'
      injection hq with h1 h2
      subst h1 h2 h'
      exact hp0
    · simp only [hq, if_false] at h'
      exact hst.parsed i' s' q' h'

private theorem run_lazy (srcs : Sources) (k : Nat) (feeds : List Feed) (dbs : List Db) (hf : allLazyOn srcs k feeds = true) :
    ∀ (ops : List FeedCache.Op) (st : State), noMutate ops = true → lazyReadsOk srcs (dbs.getD k []) ops = true →
      LazyOk srcs k dbs st → run feeds st ops = fresh feeds dbs ops
  | [], _, _, _, _ => rfl
  | .read i s :: ops, st, hn, hr, hst => by
    simp only [lazyReadsOk, Bool.and_eq_true] at hr
    simp only [run, step, fresh]
    cases hi : feeds[i]? with
    | none =>
      simp only [run_lazy srcs k feeds dbs hf ops st (by simpa [noMutate] using hn) hr.2 hst]
    | some f =>
      have hfk := List.all_eq_true.mp hf f (List.mem_of_getElem? hi)
      simp only [Bool.and_eq_true, beq_iff_eq] at hfk
      obtain ⟨⟨h1, h2⟩, h3⟩ := hfk
      obtain ⟨r1, r2⟩ := read_lazy srcs k dbs st hst i f h1 h3 h2 s hr.1.1 hr.1.2
      simp only [r1, h2, h3]
      rw [run_lazy srcs k feeds dbs hf ops (FeedCache.read st i f s).1 (by simpa [noMutate] using hn) hr.2 r2]
  | .mutate i db :: ops, st, hn, _, _ => by simp [noMutate] at hn
  | .restart :: ops, st, hn, hr, hst => by
    simp only [run, step, fresh]
    apply run_lazy srcs k feeds dbs hf ops _ (by simpa [noMutate] using hn) (by simpa [lazyReadsOk] using hr)
    exact ⟨hst.stor, by intro q v h; simp [List.lookup] at h, hst.disk, by intro key c h; simp [List.lookup] at h,
      by intro t ht; simp at ht, by intro i s q h; simp [List.lookup] at h⟩

/-- Lazy (file / inline backed: `lazy.Feed`, `monolite.Feed`) feeds over one unchanged storage: every read of every
history of well-formed statements that use a column of each of their tables returns the fresh evaluation of its own
statement — in one process and across restarts.  The two excluded regions are exactly the known findings: a storage
change (`C06_lazy_counterexample`, the registration is never refreshed) and a table none of whose columns is used
(`C06_lazy_unused_counterexample`). -/
theorem C06_independence_lazy_partial (srcs : Sources) (k : Nat) (feeds : List Feed) (dbs : List Db)
    (ops : List FeedCache.Op) (hf : allLazyOn srcs k feeds = true) (hn : noMutate ops = true)
    (hr : lazyReadsOk srcs (dbs.getD k []) ops = true) :
    run feeds { storages := dbs } ops = fresh feeds dbs ops :=
  run_lazy srcs k feeds dbs hf ops _ hn hr
    ⟨rfl, by intro q v h; simp [List.lookup] at h, by intro q v h; simp [List.lookup] at h,
     by intro key c h; simp [List.lookup] at h, by intro t ht; simp at ht, by intro i s q h; simp [List.lookup] at h⟩

/-! #### several feeds in one process -/

private theorem fresh_append (feeds : List Feed) (dbs : List Db) : ∀ (pre post : List FeedCache.Op), noMutate pre = true →
    fresh feeds dbs (pre ++ post) = fresh feeds dbs pre ++ fresh feeds dbs post
  | [], _, _ => rfl
  | .read i s :: pre, post, h => by
    simp only [List.cons_append, fresh, fresh_append feeds dbs pre post (by simpa [noMutate] using h)]
  | .mutate i db :: pre, post, h => by simp [noMutate] at h
  | .restart :: pre, post, h => by
    simp only [List.cons_append, fresh, fresh_append feeds dbs pre post (by simpa [noMutate] using h)]

private theorem noMutate_append : ∀ (a b : List FeedCache.Op), noMutate (a ++ b) = (noMutate a && noMutate b)
  | [], b => by simp [noMutate]
  | .read _ _ :: a, b => by simp [noMutate, noMutate_append a b]
  | .mutate _ _ :: a, b => by simp [noMutate]
  | .restart :: a, b => by simp [noMutate, noMutate_append a b]

/-- A read through feed `f` depends only on `f`'s own mapping and storage: whatever other feeds of the process (same
connection, other source ↦ table mappings) read before — the same statement included — the read returns the fresh
evaluation of the statement under `f.srcs` (the parse cache is per reader, the result cache per rendered SQL). -/
theorem C06_read_own_feed (feeds : List Feed) (dbs : List Db) (k : Nat) (pre : List FeedCache.Op) (i : Nat) (s : Source)
    (f : Feed) (hf : allOn k feeds = true) (hn : noMutate pre = true) (hi : feeds[i]? = some f) :
    (run feeds { storages := dbs } (pre ++ [.read i s])).getLast? = some (readRows f.srcs s (dbs.getD k [])) := by
  have hfk := List.all_eq_true.mp hf f (List.mem_of_getElem? hi)
  simp only [Bool.and_eq_true, beq_iff_eq] at hfk
  rw [C06_independence_partial feeds dbs k _ hf (by rw [noMutate_append, hn]; rfl), fresh_append feeds dbs pre _ hn]
  simp [fresh, hi, hfk.2]

/-- `A.select(A.x).where(A.x > n)`: a family of statements that differ in one literal only -/
def Witness.selGt (n : Int) : Source :=
  .query Witness.A (.cons (.elem Witness.A "x") .nil)
    (.some (.expr .gt (.cons (.elem Witness.A "x") (.cons (.lit (.int n)) .nil)))) .nil .none .nil none

def Witness.db3 : Db := [("a", ⟨["id", "x"], [[.int 1, .int 10], [.int 2, .int 30], [.int 3, .int 50]]⟩)]

/-- non-vacuity of `C06_history_denotes`: statements differing in a literal only, read alternately, in one process and
after a restart — every read gets the rows of its own statement -/
example : allOn 0 [Witness.feedOn 0] = true ∧
    noMutate [.read 0 (Witness.selGt 25), .read 0 (Witness.selGt 45), .restart, .read 0 (Witness.selGt 45),
              .read 0 (Witness.selGt 25)] = true ∧
    readsOk [Witness.feedOn 0] Witness.db3
      [.read 0 (Witness.selGt 25), .read 0 (Witness.selGt 45), .restart, .read 0 (Witness.selGt 45),
       .read 0 (Witness.selGt 25)] = true ∧
    run [Witness.feedOn 0] { storages := [Witness.db3] }
      [.read 0 (Witness.selGt 25), .read 0 (Witness.selGt 45), .restart, .read 0 (Witness.selGt 45),
       .read 0 (Witness.selGt 25)] =
      [some ⟨[some "x"], [[.int 30], [.int 50]]⟩, some ⟨[some "x"], [[.int 50]]⟩, some ⟨[some "x"], [[.int 50]]⟩,
       some ⟨[some "x"], [[.int 30], [.int 50]]⟩] := by
  decide

/-- non-vacuity of `C06_read_own_feed`: two feeds on ONE storage (same connection) that map the schema `A` to different
physical tables read the same statement one after the other, also after a restart: each gets its own table's rows -/
example :
    run [{ kind := .alchemy, srcs := [(Witness.A, "a")], storage := 0 }, { kind := .alchemy, srcs := [(Witness.A, "a2")], storage := 0 }]
      { storages := [[("a", ⟨["id", "x"], [[.int 1, .int 10]]⟩), ("a2", ⟨["id", "x"], [[.int 1, .int 20], [.int 2, .int 30]]⟩)]] }
      [.read 0 Witness.sel, .read 1 Witness.sel, .restart, .read 1 Witness.sel, .read 0 Witness.sel] =
      [some ⟨[some "x"], [[.int 10]]⟩, some ⟨[some "x"], [[.int 20], [.int 30]]⟩, some ⟨[some "x"], [[.int 20], [.int 30]]⟩,
       some ⟨[some "x"], [[.int 10]]⟩] := by
  decide

/-! ### file backed origins (`monolite`) -/

open ForML.FileOrigin (effective csvDefaults loadCsv writeCsv)

/-- an option the user configures reaches the reader with the user's value … -/
theorem C06_file_options_user_wins (defaults user : FileOrigin.Options) (k v : String) (h : user.lookup k = some v) :
    (effective defaults user).lookup k = some v := by
  simp [effective, lookup_merge, h]

/-- … and an option the user does not mention keeps the class default -/
theorem C06_file_options_default (defaults user : FileOrigin.Options) (k : String) (h : user.lookup k = none) :
    (effective defaults user).lookup k = defaults.lookup k := by
  simp [effective, lookup_merge, h]

/-- whatever the user configures: the file these options describe (a header line exactly when the effective `header`
option says so) is loaded to exactly its content rows -/
theorem C06_csv_load_content (user : FileOrigin.Options) (cols : List String) (rows file : List Row)
    (h : writeCsv (effective csvDefaults user) cols rows = some file) :
    loadCsv (effective csvDefaults user) file = some rows :=
  loadCsv_writeCsv _ cols rows file h

/-- non-vacuity: a headerless file configured with `header=None` keeps its first row; by default the header line goes -/
example :
    loadCsv (effective csvDefaults [("header", "None")]) [[.int 1, .int 10], [.int 2, .int 20]] =
      some [[.int 1, .int 10], [.int 2, .int 20]] ∧
    loadCsv (effective csvDefaults [("sep", ";")]) [[.str "sensor", .str "value"], [.int 1, .int 10]] = some [[.int 1, .int 10]] ∧
    writeCsv (effective csvDefaults [("header", "None")]) ["sensor", "value"] [[.int 1, .int 10]] = some [[.int 1, .int 10]] := by
  decide

/-- non-vacuity of `C06_independence_lazy_partial`: the same family through a lazy feed, with a restart -/
example : allLazyOn [(Witness.A, "a")] 0 [Witness.lazyOn 0] = true ∧
    lazyReadsOk [(Witness.A, "a")] Witness.db3
      [.read 0 (Witness.selGt 25), .read 0 (Witness.selGt 45), .restart, .read 0 (Witness.selGt 25)] = true ∧
    run [Witness.lazyOn 0] { storages := [Witness.db3] }
      [.read 0 (Witness.selGt 25), .read 0 (Witness.selGt 45), .restart, .read 0 (Witness.selGt 25)] =
      [some ⟨[some "x"], [[.int 30], [.int 50]]⟩, some ⟨[some "x"], [[.int 50]]⟩, some ⟨[some "x"], [[.int 30], [.int 50]]⟩] := by
  decide

/-- non-vacuity: `100 / A.x`, `5 < A.x`, `~(A.x - 1 > 2)` -/
example :
    (PyExpr.bin .truediv (.val (.int 100)) (.feat (.elem Witness.A "x"))).eval =
      some (.feat (.expr .div (.cons (.lit (.int 100)) (.cons (.elem Witness.A "x") .nil)))) ∧
    (PyExpr.bin .lt (.val (.int 5)) (.feat (.elem Witness.A "x"))).eval =
      some (.feat (.expr .gt (.cons (.elem Witness.A "x") (.cons (.lit (.int 5)) .nil)))) ∧
    (PyExpr.inv (.bin .gt (.bin .sub (.feat (.elem Witness.A "x")) (.val (.int 1))) (.val (.int 2)))).eval =
      some (.feat (.expr .not (.cons (.expr .gt (.cons (.expr .sub (.cons (.elem Witness.A "x") (.cons (.lit (.int 1)) .nil)))
        (.cons (.lit (.int 2)) .nil))) .nil))) := by
  refine ⟨rfl, rfl, rfl⟩

/-- `PARTITIONS` is keyed by the origin — class and source: a second lazy feed whose table comes from an origin of the
same class is served the first feed's registration (C06-F4), one whose origin is of another class (a parquet file
against a CSV file) registers its own content -/
example :
    run [Witness.lazyOn 0, Witness.lazyOn 1] { storages := [Witness.db1, Witness.db2] }
      [.read 0 Witness.sel, .read 1 (Witness.selGt 0)] = [some ⟨[some "x"], [[.int 10]]⟩, some ⟨[some "x"], [[.int 10]]⟩] ∧
    run [Witness.lazyOn 0, { Witness.lazyOn 1 with origins := [(Witness.A, "Parquet")] }] { storages := [Witness.db1, Witness.db2] }
      [.read 0 Witness.sel, .read 1 (Witness.selGt 0)] = [some ⟨[some "x"], [[.int 10]]⟩, some ⟨[some "x"], [[.int 20]]⟩] := by
  decide

end ForML.C06
