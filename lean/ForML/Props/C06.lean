/-
C06 — Feed reads return exactly what the statement denotes over its own storage (property theorems).

Objects: `parse` = the model of `forml/io/dsl/parser.py` + `provider/feed/reader/alchemy.py` as a stack machine emitting
abstract SQL (ForML.Model.Parser), `evalSql` = the meaning of that SQL, `denote` = the reference denotation of DSL
statements written from the documentation (ForML.Model.DslDenote), `WF` = well-formed statement over the schemas the
feed provisions (ForML.Model.ParserWF), `FeedCache.run` = the read path of the SQL feeds with their caches.
The tables `EXPRESSION / SET / ORDER`, the join options and the LIMIT/OFFSET emission are re-extracted from the live
code on every run (ForML.Generated.C06Tables); every theorem below is re-checked against them.
-/
import ForML.Lemmas.C06Parse
import ForML.Model.FeedCache

namespace ForML.C06
open ForML.Dsl ForML.Rel ForML.Parser ForML.Denote

/-! ### the tables of the live code -/

/-- the operator classes of the modelled fragment -/
def modelledOps : List Op :=
  [.lt, .le, .gt, .ge, .eq, .ne, .isnull, .notnull, .and, .or, .not, .add, .sub, .mul, .abs, .count, .sum, .min, .max]

/-- every modelled expression class has an `EXPRESSION` entry that accepts SQL operands -/
theorem C06_expression_total : ∀ op ∈ modelledOps, ∃ sop, exprOp op = some sop ∧ sop ≠ .raises := by decide

/-- every `EXPRESSION` entry emits the SQL operator with the documented meaning of its class -/
theorem C06_expression_sound (op : Op) (sop : SqlOp) (h : exprOp op = some sop) (hr : sop ≠ .raises) :
    sop.isAgg = op.isAggregate ∧ (∀ vs, sqlAgg sop vs = dslAgg op vs) ∧ (∀ vs, sqlScalar sop vs = dslScalar op vs) :=
  ⟨isAgg_eq op sop h hr, sqlAgg_eq_dslAgg op sop h hr, sqlScalar_eq_dslScalar op sop h hr⟩

/-- `generate_join`: the options per join kind (RIGHT = LEFT with the sides swapped; CROSS gets `full=True`) -/
theorem C06_join_table :
    joinOpt .inner = some (false, false, false) ∧ joinOpt .left = some (false, true, false) ∧
    joinOpt .right = some (false, true, true) ∧ joinOpt .full = some (true, false, false) ∧
    joinOpt .cross = some (true, false, false) ∧ Generated.C06.crossOnTrue = true := by decide

/-- `SET` and `ORDER` map every kind / direction to its SQL counterpart -/
theorem C06_set_order_tables :
    (∀ k : SetKind, setOpOf k = some (setOfKind k)) ∧ (∀ d : Dir, orderOf d = some (dirOf d)) := by
  constructor
  · intro k; cases k <;> decide
  · intro d; cases d <;> decide

/-- the `generate_query` model agrees with what the live code emitted on the probed `Rows` -/
theorem C06_rows_probe : ∀ p ∈ Generated.C06.rowsProbe, rowsOpts (some p.1) = p.2 := by decide

/-! ### parsing never fails -/

/-- Every visit of a well-formed statement pushes exactly one symbol — the translation `compile s` — onto the current
context, whatever lies below it, and leaves the suspended contexts and the registered origins as they were. -/
theorem C06_visit_one_symbol (srcs : Sources) (s : Source) (h : WF srcs s = true) :
    ∃ q, compile srcs s = some q ∧
      ∀ (syms : List Sym) (origs : List (Source × String)) (stk : List (Option Ctx)),
        visitSource srcs s ⟨some ⟨syms, origs⟩, stk⟩ = .ok ⟨some ⟨.src q :: syms, origs⟩, stk⟩ := by
  simp only [WF, Bool.and_eq_true] at h
  obtain ⟨q, hq, _, hv⟩ := visit_out srcs h.1 s h.2
  refine ⟨q, hq, ?_⟩
  intro syms origs stk
  have hreg : regOrigins srcs s = [] := by
    cases s <;> simp [wfOut] at h <;> rfl
  simpa [hreg] using hv syms origs stk

/-- `Reader._parse_statement` on a well-formed statement returns the translation: the visitor ends with exactly one
symbol in the context it was started in and an empty stack of suspended contexts (`fetch` and `__exit__` succeed) -/
theorem C06_parse_spec (srcs : Sources) (s : Source) (h : WF srcs s = true) :
    ∃ q, compile srcs s = some q ∧ parse srcs s = .ok q := by
  obtain ⟨q, hq, hv⟩ := C06_visit_one_symbol srcs s h
  refine ⟨q, hq, ?_⟩
  have := hv [] [] [none]
  simp [parse, enter, this, pop, exit, bind, Except.bind]

/-- parsing a well-formed statement over provisioned tables never fails -/
theorem C06_parse_total (srcs : Sources) (s : Source) (h : WF srcs s = true) : ∃ q, parse srcs s = .ok q := by
  obtain ⟨q, _, hp⟩ := C06_parse_spec srcs s h
  exact ⟨q, hp⟩

/-! ### the rows returned are the rows denoted -/

/-- rows the database returns for what the parser emitted (`none`: parsing or evaluation failed) -/
def readRows (srcs : Sources) (s : Source) (db : Db) : Option ORel :=
  match parse srcs s with
  | .ok q => evalSql q db
  | .error _ => none

/-- full strength: for every well-formed statement and every storage content -/
def C06_denotation_full : Prop :=
  ∀ (srcs : Sources) (s : Source), WF srcs s = true → ∀ db : Db, readRows srcs s db = denote srcs s db

/-- holds for every statement and every content on which each CROSS join has two non-empty or two empty sides: the
excluded region is *exactly* the known finding (CROSS rendered as FULL OUTER JOIN ON true, one side empty) -/
theorem C06_denotation_partial (srcs : Sources) (s : Source) (h : WF srcs s = true) (db : Db)
    (hc : crossBalanced srcs s db = true) : readRows srcs s db = denote srcs s db := by
  obtain ⟨q, hq, hp⟩ := C06_parse_spec srcs s h
  simp only [WF, Bool.and_eq_true] at h
  obtain ⟨q', hq', _, hev⟩ := out_spec srcs s h.2
  rw [hq] at hq'; injection hq' with hq'; subst hq'
  simp [readRows, hp, evalSql, denote, hev db hc]

/-- in particular for every statement without a CROSS join, over every content -/
theorem C06_denotation_nocross (srcs : Sources) (s : Source) (h : WF srcs s = true) (hc : noCross s = true) (db : Db) :
    readRows srcs s db = denote srcs s db :=
  C06_denotation_partial srcs s h db (crossBalanced_of_noCross srcs db s hc)

/-! ### witnesses -/

namespace Witness
def A : Source := .table "A" [("id", .integer), ("x", .integer)]
def B : Source := .table "B" [("id", .integer), ("y", .integer)]
def srcs : Sources := [(A, "a"), (B, "b")]

/-- `A.cross_join(B).select(A.x, B.y)` -/
def crossStmt : Source :=
  .query (.join A B .cross .none) (.cons (.elem A "x") (.cons (.elem B "y") .nil)) .none .nil .none .nil none

/-- one row in `a`, none in `b` -/
def crossDb : Db := [("a", ⟨["id", "x"], [[.int 1, .int 10]]⟩), ("b", ⟨["id", "y"], []⟩)]

/-- `A.left_join(r, A.x == r.id).select(A.id, Count(r.x).alias('n')).where(A.id > 0).groupby(A.id).orderby(A.id)`
with `r = A.reference('r')`: a self-join through a reference, a pre-aggregation filter, grouping, an aggregate,
an alias and an ordering -/
def R : Source := .ref A "r"
def selfStmt : Source :=
  .query (.join A R .left (.some (.expr .eq (.cons (.elem A "x") (.cons (.elem R "id") .nil)))))
    (.cons (.elem A "id") (.cons (.alias (.expr .count (.cons (.elem R "x") .nil)) "n") .nil))
    (.some (.expr .gt (.cons (.elem A "id") (.cons (.lit (.int 0)) .nil))))
    (.cons (.elem A "id") .nil) .none (.cons (.mk (.elem A "id") .desc) .nil) (some (5, 0))

def selfDb : Db := [("a", ⟨["id", "x"], [[.int 1, .int 2], [.int 2, .int 2], [.int 3, .null]]⟩), ("b", ⟨["id", "y"], []⟩)]
end Witness

/-- the full statement is false of the code that exists: a CROSS join with exactly one empty side -/
theorem C06_denotation_counterexample : ¬ C06_denotation_full := by
  intro h
  have := h Witness.srcs Witness.crossStmt (by decide) Witness.crossDb
  revert this
  decide

/-- what the witness shows: nothing is denoted, one NULL-extended row is returned -/
example : denote Witness.srcs Witness.crossStmt Witness.crossDb = some ⟨[some "x", some "y"], []⟩ ∧
    readRows Witness.srcs Witness.crossStmt Witness.crossDb = some ⟨[some "x", some "y"], [[.int 10, .null]]⟩ := by
  decide

/-- non-vacuity of `C06_denotation_partial` with a CROSS join: both sides non-empty -/
example : WF Witness.srcs Witness.crossStmt = true ∧
    crossBalanced Witness.srcs Witness.crossStmt
      [("a", ⟨["id", "x"], [[.int 1, .int 10]]⟩), ("b", ⟨["id", "y"], [[.int 1, .int 5], [.int 2, .null]]⟩)] = true ∧
    denote Witness.srcs Witness.crossStmt
      [("a", ⟨["id", "x"], [[.int 1, .int 10]]⟩), ("b", ⟨["id", "y"], [[.int 1, .int 5], [.int 2, .null]]⟩)] =
      some ⟨[some "x", some "y"], [[.int 10, .int 5], [.int 10, .null]]⟩ := by
  decide

/-- non-vacuity of `C06_denotation_nocross`: a well-formed statement without CROSS with a non-trivial denotation -/
example : WF Witness.srcs Witness.selfStmt = true ∧ noCross Witness.selfStmt = true ∧
    denote Witness.srcs Witness.selfStmt Witness.selfDb =
      some ⟨[some "id", some "n"], [[.int 3, .int 0], [.int 2, .int 1], [.int 1, .int 1]]⟩ := by
  decide

/-! ### reads do not depend on other feeds, other storages or earlier reads -/

open ForML.FeedCache (Feed State FeedKind run step storageOf)

/-- what every read of a history should return: a fresh evaluation over the feed's own storage at read time -/
def fresh (feeds : List Feed) : List Db → List FeedCache.Op → List (Option ORel)
  | _, [] => []
  | dbs, .read i s :: ops =>
    (match feeds[i]? with
     | none => none
     | some f => readRows f.srcs s (dbs.getD f.storage [])) :: fresh feeds dbs ops
  | dbs, .mutate i db :: ops => fresh feeds (dbs.set i db) ops
  | dbs, .restart :: ops => fresh feeds dbs ops

/-- full strength: in every history every read returns the fresh evaluation -/
def C06_independence_full : Prop :=
  ∀ (feeds : List Feed) (dbs : List Db) (ops : List FeedCache.Op), run feeds { storages := dbs } ops = fresh feeds dbs ops

namespace Witness
def sel : Source := .query A (.cons (.elem A "x") .nil) .none .nil .none .nil none
def db1 : Db := [("a", ⟨["id", "x"], [[.int 1, .int 10]]⟩)]
def db2 : Db := [("a", ⟨["id", "x"], [[.int 1, .int 20]]⟩)]
def feedOn (i : Nat) : Feed := { kind := .alchemy, srcs := [(A, "a")], storage := i }
def lazyOn (i : Nat) : Feed := { kind := .lazy, srcs := [(A, "a")], storage := i }
end Witness

/-- `read; mutate storage; read`: the second read returns the rows of the first (result cache keyed by the SQL text) -/
theorem C06_stale_counterexample :
    run [Witness.feedOn 0] { storages := [Witness.db1] } [.read 0 Witness.sel, .mutate 0 Witness.db2, .read 0 Witness.sel] ≠
      fresh [Witness.feedOn 0] [Witness.db1] [.read 0 Witness.sel, .mutate 0 Witness.db2, .read 0 Witness.sel] := by
  decide

/-- the stale rows also survive a restart (file cache under the ForML home directory) -/
theorem C06_stale_restart_counterexample :
    run [Witness.feedOn 0] { storages := [Witness.db1] }
        [.read 0 Witness.sel, .mutate 0 Witness.db2, .restart, .read 0 Witness.sel] ≠
      fresh [Witness.feedOn 0] [Witness.db1] [.read 0 Witness.sel, .mutate 0 Witness.db2, .restart, .read 0 Witness.sel] := by
  decide

/-- two feeds over two storages with equally named tables: the second feed gets the first feed's rows -/
theorem C06_crossfeed_counterexample :
    run [Witness.feedOn 0, Witness.feedOn 1] { storages := [Witness.db1, Witness.db2] }
        [.read 0 Witness.sel, .read 1 Witness.sel] ≠
      fresh [Witness.feedOn 0, Witness.feedOn 1] [Witness.db1, Witness.db2] [.read 0 Witness.sel, .read 1 Witness.sel] := by
  decide

/-- lazy feeds: an origin registered once in the process-global backend is never refreshed — a *different* statement
read after the storage changed still sees the old table content -/
theorem C06_lazy_counterexample :
    run [Witness.lazyOn 0] { storages := [Witness.db1] }
        [.read 0 Witness.sel, .mutate 0 Witness.db2, .read 0 (.query Witness.A (.cons (.elem Witness.A "id") (.cons (.elem Witness.A "x") .nil)) .none .nil .none .nil none)] ≠
      fresh [Witness.lazyOn 0] [Witness.db1]
        [.read 0 Witness.sel, .mutate 0 Witness.db2, .read 0 (.query Witness.A (.cons (.elem Witness.A "id") (.cons (.elem Witness.A "x") .nil)) .none .nil .none .nil none)] := by
  decide

/-- lazy feeds: a table none of whose columns is used (here the right side of a CROSS join) is never registered in
the backend, the read fails although the statement denotes rows -/
theorem C06_lazy_unused_counterexample :
    run [{ kind := .lazy, srcs := Witness.srcs, storage := 0 }]
        { storages := [[("a", ⟨["id", "x"], [[.int 1, .int 10]]⟩), ("b", ⟨["id", "y"], [[.int 1, .int 5]]⟩)]] }
        [.read 0 (.query (.join Witness.A Witness.B .cross .none) (.cons (.elem Witness.A "x") .nil) .none .nil .none .nil none)] = [none] ∧
      fresh [{ kind := .lazy, srcs := Witness.srcs, storage := 0 }]
        [[("a", ⟨["id", "x"], [[.int 1, .int 10]]⟩), ("b", ⟨["id", "y"], [[.int 1, .int 5]]⟩)]]
        [.read 0 (.query (.join Witness.A Witness.B .cross .none) (.cons (.elem Witness.A "x") .nil) .none .nil .none .nil none)] =
        [some ⟨[some "x"], [[.int 10]]⟩] := by
  decide

theorem C06_independence_counterexample : ¬ C06_independence_full := by
  intro h
  exact C06_stale_counterexample (h _ _ _)

/-- histories without a storage change -/
def noMutate : List FeedCache.Op → Bool
  | [] => true
  | .mutate _ _ :: _ => false
  | _ :: ops => noMutate ops

/-- all feeds are alchemy feeds on the storage `k` -/
def allOn (k : Nat) (feeds : List Feed) : Bool := feeds.all (fun f => f.kind == .alchemy && f.storage == k)

/-- the caches only hold what a fresh evaluation over `db` yields -/
structure CacheOk (dbs : List Db) (k : Nat) (st : State) : Prop where
  stor : st.storages = dbs
  mem : ∀ q v, st.mem.lookup q = some v → evalSql q (dbs.getD k []) = some v
  disk : ∀ q v, st.disk.lookup q = some v → evalSql q (dbs.getD k []) = some v

private theorem lookup_cons_sql (q q' : SqlSel) (v : ORel) (l : List (SqlSel × ORel)) :
    ((q, v) :: l).lookup q' = if q' = q then some v else l.lookup q' := by
  by_cases h : q' = q
  · subst h; simp [List.lookup]
  · have : (q' == q) = false := by simpa using h
    simp [List.lookup, this, h]

private theorem read_fresh (dbs : List Db) (k : Nat) (st : State) (hst : CacheOk dbs k st) (f : Feed)
    (hk : f.kind = .alchemy) (hs : f.storage = k) (s : Source) :
    (FeedCache.read st f s).2 = readRows f.srcs s (dbs.getD k []) ∧ CacheOk dbs k (FeedCache.read st f s).1 := by
  unfold FeedCache.read readRows
  cases hp : parse f.srcs s with
  | error e => exact ⟨rfl, hst⟩
  | ok q =>
    simp only [hk, storageOf, hs]
    have hne : (FeedKind.alchemy = FeedKind.lazy) = False := by simp
    simp only [hne, decide_false, Bool.false_and, Bool.false_eq_true, if_false]
    cases hm : st.mem.lookup q with
    | some v => exact ⟨(hst.mem q v hm).symm, hst⟩
    | none =>
      cases hd : st.disk.lookup q with
      | some v =>
        refine ⟨(hst.disk q v hd).symm, ⟨hst.stor, ?_, hst.disk⟩⟩
        intro q' v' h'
        rw [lookup_cons_sql] at h'
        by_cases hq : q' = q
        · subst hq; simp at h'; subst h'; exact hst.disk _ _ hd
        · simp [hq] at h'; exact hst.mem q' v' h'
      | none =>
        cases he : evalSql q (st.storages.getD k []) with
        | none =>
          refine ⟨?_, hst⟩
          rw [← hst.stor, he]
        | some v =>
          have he' : evalSql q (dbs.getD k []) = some v := by rw [← hst.stor]; exact he
          refine ⟨he'.symm, ⟨hst.stor, ?_, ?_⟩⟩
          · intro q' v' h'
            rw [lookup_cons_sql] at h'
            by_cases hq : q' = q
            · subst hq; simp at h'; subst h'; exact he'
            · simp [hq] at h'; exact hst.mem q' v' h'
          · intro q' v' h'
            rw [lookup_cons_sql] at h'
            by_cases hq : q' = q
            · subst hq; simp at h'; subst h'; exact he'
            · simp [hq] at h'; exact hst.disk q' v' h'

private theorem run_fresh (feeds : List Feed) (dbs : List Db) (k : Nat) (hf : allOn k feeds = true) :
    ∀ (ops : List FeedCache.Op) (st : State), noMutate ops = true → CacheOk dbs k st → run feeds st ops = fresh feeds dbs ops
  | [], _, _, _ => rfl
  | .read i s :: ops, st, hn, hst => by
    simp only [run, step, fresh]
    cases hi : feeds[i]? with
    | none =>
      simp only [run_fresh feeds dbs k hf ops st (by simpa [noMutate] using hn) hst]
    | some f =>
      have hmem : f ∈ feeds := List.mem_of_getElem? hi
      have hfk := List.all_eq_true.mp hf f hmem
      simp only [Bool.and_eq_true, beq_iff_eq] at hfk
      obtain ⟨h1, h2⟩ := read_fresh dbs k st hst f hfk.1 hfk.2 s
      simp only [h1, hfk.2]
      rw [run_fresh feeds dbs k hf ops (FeedCache.read st f s).1 (by simpa [noMutate] using hn) h2]
  | .mutate i db :: ops, st, hn, _ => by simp [noMutate] at hn
  | .restart :: ops, st, hn, hst => by
    simp only [run, step, fresh]
    apply run_fresh feeds dbs k hf ops _ (by simpa [noMutate] using hn)
    exact ⟨hst.stor, by intro q v h; simp [List.lookup] at h, hst.disk⟩

/-- what holds of the code that exists: as long as the storage does not change and all feeds read the same storage,
every read (also across restarts) returns the fresh evaluation -/
theorem C06_independence_partial (feeds : List Feed) (dbs : List Db) (k : Nat) (ops : List FeedCache.Op)
    (hf : allOn k feeds = true) (hn : noMutate ops = true) :
    run feeds { storages := dbs } ops = fresh feeds dbs ops :=
  run_fresh feeds dbs k hf ops _ hn ⟨rfl, by intro q v h; simp [List.lookup] at h, by intro q v h; simp [List.lookup] at h⟩

/-- non-vacuity: a history with a restart and repeated reads through two feeds on one storage -/
example : allOn 0 [Witness.feedOn 0, Witness.feedOn 0] = true ∧
    noMutate [.read 0 Witness.sel, .restart, .read 1 Witness.sel, .read 0 Witness.sel] = true ∧
    run [Witness.feedOn 0, Witness.feedOn 0] { storages := [Witness.db1] }
      [.read 0 Witness.sel, .restart, .read 1 Witness.sel, .read 0 Witness.sel] =
      [some ⟨[some "x"], [[.int 10]]⟩, some ⟨[some "x"], [[.int 10]]⟩, some ⟨[some "x"], [[.int 10]]⟩] := by
  decide

end ForML.C06
