/-
C06 — Feed reads return exactly what the statement denotes over its own storage (property theorems).
-/
import ForML.Model.Parser
import ForML.Model.DslDenote
import ForML.Model.FeedCache

namespace ForML.C06
open ForML.Dsl ForML.Rel ForML.Parser ForML.Denote

/-- the `generate_query` model agrees with what the live code emitted on the probed `Rows` -/
theorem C06_rows_probe : ∀ p ∈ Generated.C06.rowsProbe, rowsOpts (some p.1) = p.2 := by decide

end ForML.C06
