/-
C19 — the header *string* level of content negotiation and the gateway around it.  Property theorems
(helper lemmas: ForML/Lemmas/C19Header.lean; concrete syntax and gateway model:
ForML/Model/CodecHeader.lean).  Every statement quantifies over all texts / all lists of ranges / all
tables; `example`s are non-vacuity tests.

* `C19_parse_render`: `Encoding.parse` (regex split on commas, `cgi.parse_header`, `float(q)`) reads every
  well-formed header text back as the ranges it was written from — any white space around `,` `;` `=`, any
  case of parameter names, token and quoted-string values (escaped quotes and backslashes, `;` and `=`
  inside), empty values, repeated parameters (dict semantics), parameters without `=`; the first `q` that
  is not a number raises.  `C19_parse_render_order` is `C19_parse_order` on the string level.
* `C19_parse_render_full` is the same without "no comma inside a quoted-string" (what RFC 9110 allows):
  false, the `_CSV` regex splits inside quoted strings (`_counterexample`, replayed by the harness).
* `C19_q_spelling` / `C19_q_error`: `float(q)` on the grammar `ws* [+-]? DIGIT* [. DIGIT{0,3}] ws*` is the
  number written, and (in the model) the `ValueError` is raised exactly outside that grammar;
  `1`, `1.`, `1.0`, `1.000`, `01` are one key, `.5` = `0.5` = `0.500`.
* `C19_header_parse`: the response Content-Type written by `Encoding.header` parses back to the encoding.
* `C19_gateway*`: `rest.py` `Apply` + `Generic.receive/respond`: which header feeds `parse`, the defaults
  (`application/octet-stream`; Accept absent or empty = the content type), `ValueError` → 500,
  `Unsupported` → 415.
-/
import ForML.Lemmas.C19Header
import ForML.Props.C19

namespace ForML.Codec

/-! ### concrete syntax → ranges -/

/-- reading back the concrete syntax (see `ranges_render`) -/
theorem C19_parse_render (rs : List RangeSpec) (hne : rs ≠ []) (hwf : ∀ r ∈ rs, r.wf = true) :
    ranges (renderHeader rs) = specRanges rs ∧
    parse (renderHeader rs) = (specRanges rs).map (fun xs => (sortDesc xs).map Range.enc) := by
  have h := ranges_render rs hne hwf
  exact ⟨h, by unfold parse; rw [h]⟩

/-- one range as written means: kind as written, lower-cased names, un-quoted values, quality of the `q` entry -/
theorem C19_parse_item (r : RangeSpec) (hwf : r.wfRfc = true) :
    parseHeader r.core = (r.kind, r.opts) ∧ range1 (trim r.render) = r.range :=
  ⟨parseHeader_core r hwf, range1_render r hwf⟩

/-- `C19_parse_order` on the string level: a well-formed header text whose `q` values are numbers is parsed
into the encodings of its ranges, permuted, by non-increasing quality, every quality class in the order written -/
theorem C19_parse_render_order (rs : List RangeSpec) (hne : rs ≠ []) (hwf : ∀ r ∈ rs, r.wf = true)
    (xs : List Range) (hq : specRanges rs = .ok xs) :
    ∃ out : List Range, parse (renderHeader rs) = .ok (out.map Range.enc) ∧ out.Perm xs ∧
      out.Pairwise (fun a b => a.q ≥ b.q) ∧ ∀ k, out.filter (fun r => r.q == k) = xs.filter (fun r => r.q == k) := by
  refine ⟨sortDesc xs, ?_, sortDesc_perm xs, sortDesc_sorted xs, sortDesc_stable xs⟩
  rw [(C19_parse_render rs hne hwf).2, hq]; rfl

/-- the error mapping of the header parser: `ValueError` exactly when some item carries a `q` that `float` refuses -/
theorem C19_parse_error (h : Str) :
    parse h = .error .badQ ↔
      ∃ item ∈ splitCsv h, ∃ v, getOpt ['q'] (parseHeader item).2 = some v ∧ parseQ v = none := by
  unfold parse ranges
  generalize splitCsv h = items
  have key : ∀ items : List Str, rangesOf items = .error .badQ ↔
      ∃ item ∈ items, ∃ v, getOpt ['q'] (parseHeader item).2 = some v ∧ parseQ v = none := by
    intro items
    induction items with
    | nil => simp [rangesOf]
    | cons i is ih =>
      have h1 : range1 i = .error .badQ ↔ ∃ v, getOpt ['q'] (parseHeader i).2 = some v ∧ parseQ v = none := by
        unfold range1
        cases hg : getOpt ['q'] (parseHeader i).2 with
        | none => simp [hg]
        | some v => cases hp : parseQ v <;> simp [hg, hp]
      simp only [rangesOf, List.mem_cons, exists_eq_or_imp, ← h1, ← ih]
      cases hr : range1 i with
      | error e => cases e; simp
      | ok r =>
        cases hrs : rangesOf is with
        | error e => cases e; simp
        | ok rs => simp
  rw [← key items]
  cases rangesOf items with
  | error e => cases e; simp [Except.map]
  | ok rs => simp [Except.map]

/-- with distinct (lower-cased) names, the dictionary is the parameters in the order written -/
theorem C19_opts_distinct (r : RangeSpec) (hd : (r.params.filterMap ParamSpec.sem).map (·.1) |>.Nodup) :
    r.opts = r.params.filterMap ParamSpec.sem := by
  rw [opts_eq]
  suffices h : ∀ (d : Options) (ps : List ParamSpec), ((d ++ ps.filterMap ParamSpec.sem).map (·.1)).Nodup →
      ps.foldl semStep d = d ++ ps.filterMap ParamSpec.sem by simpa using h [] r.params (by simpa using hd)
  intro d ps
  induction ps generalizing d with
  | nil => simp
  | cons p ps ih =>
    intro hnd
    simp only [List.foldl_cons, List.filterMap_cons]
    cases hs : p.sem with
    | none =>
      have hstep : semStep d p = d := by simp [semStep, hs]
      rw [hstep]
      exact ih d (by simpa [List.filterMap_cons, hs] using hnd)
    | some kv =>
      obtain ⟨k, v⟩ := kv
      have hstep : semStep d p = setOpt k v d := by simp [semStep, hs]
      simp only [List.filterMap_cons, hs] at hnd
      have hk : k ∉ d.map (·.1) := by
        intro hk
        rw [List.map_append, List.nodup_append] at hnd
        exact hnd.2.2 k hk k (by simp) rfl
      have hset : setOpt k v d = d ++ [(k, v)] := by
        clear hnd ih hstep
        induction d with
        | nil => rfl
        | cons x d' ihd =>
          obtain ⟨k', v'⟩ := x
          have : k' ≠ k := by intro e; apply hk; simp [e]
          simp only [setOpt, beq_iff_eq, this, if_false, List.cons_append]
          rw [ihd (by intro h'; apply hk; simp [h'])]
      rw [hstep, hset, ih (d ++ [(k, v)]) (by simpa [List.append_assoc] using hnd)]
      simp [List.append_assoc]

/-! ### commas inside quoted strings -/

/-- the statement at full strength: every header that RFC 9110 allows (a quoted-string may hold a comma) -/
def C19_parse_render_full : Prop :=
  ∀ rs : List RangeSpec, rs ≠ [] → (∀ r ∈ rs, r.wfRfc = true) → ranges (renderHeader rs) = specRanges rs

/-- `text/csv;a="x,y"` — the `_CSV` regex does not know about quoting and cuts inside the string: two "ranges" -/
theorem C19_parse_render_counterexample : ¬ C19_parse_render_full := by
  intro h
  have := h [⟨[], "text/csv".toList, [.kv [] [] ['a'] [] [] ['x', ',', 'y'] true], []⟩] (by simp) (by decide +kernel)
  have h2 := congrArg Except.toOption this
  revert h2
  decide +kernel

/-- it holds for the headers without a comma inside a quoted-string -/
theorem C19_parse_render_partial (rs : List RangeSpec) (hne : rs ≠ []) (hwf : ∀ r ∈ rs, r.wf = true) :
    ranges (renderHeader rs) = specRanges rs := ranges_render rs hne hwf

/-! ### quality values -/

/-- `float(q)` of a spelling of the grammar is the number written -/
theorem C19_q_spelling (s : QSpec) (h : s.wf = true) : parseQ s.render = some s.value := parseQ_render s h

/-- the `ValueError` (model: `none`) is raised exactly for the texts that are not such a spelling -/
theorem C19_q_error (s : Str) : parseQ s = none ↔ ¬ ∃ spec : QSpec, spec.wf = true ∧ s = spec.render := by
  constructor
  · rintro hn ⟨spec, hwf, rfl⟩
    rw [parseQ_render spec hwf] at hn; cases hn
  · intro hne
    cases hq : parseQ s with
    | none => rfl
    | some q =>
      obtain ⟨spec, hwf, hs, _⟩ := parseQ_some s q hq
      exact absurd ⟨spec, hwf, hs⟩ hne

/-- `0.5` = `0.50` = `0.500`, `1.` = `1.0` …: a trailing zero does not change the key (so such ranges tie) -/
theorem C19_q_trailing_zero (w1 w2 w1' w2' : Str) (sg : Option Bool) (i f : Str) (h : f.length < 3) :
    (QSpec.mk w1 sg i (some (f ++ ['0'])) w2).value = (QSpec.mk w1' sg i (some f) w2').value := by
  have hX : digitsVal (f ++ ['0']) * 10 ^ (3 - (f ++ ['0']).length) = digitsVal f * 10 ^ (3 - f.length) := by
    have hk : 3 - f.length = (3 - (f.length + 1)) + 1 := by omega
    have h0 : ('0'.toNat - '0'.toNat) = 0 := by decide
    rw [digitsVal_snoc, List.length_append, List.length_singleton, hk, Nat.pow_succ, h0, Nat.add_zero,
      Nat.mul_comm 10 (digitsVal f), Nat.mul_assoc, Nat.mul_comm 10]
  simp only [QSpec.value, QSpec.absValue, hX]

/-- `1` = `1.`: the point alone changes nothing; `01` = `1`: nor does a leading zero -/
theorem C19_q_point_and_zero (w1 w2 : Str) (sg : Option Bool) (i : Str) (fr : Option Str) :
    (QSpec.mk w1 sg i none w2).value = (QSpec.mk w1 sg i (some []) w2).value ∧
    (QSpec.mk w1 sg ('0' :: i) fr w2).value = (QSpec.mk w1 sg i fr w2).value := by
  constructor
  · simp [QSpec.value, QSpec.absValue, digitsVal]
  · simp only [QSpec.value, QSpec.absValue, digitsVal_zero_cons]

/-! ### `Encoding.header` -/

/-- the Content-Type the gateway writes for an encoding parses back to that encoding (kind normalised as the
constructor does): for every encoding whose option names are lower-case tokens other than `q` and pairwise
distinct and whose values are tokens -/
theorem C19_header_parse (e : Encoding) (hwf : e.spec.wf = true) (hq : getOpt ['q'] e.options = none)
    (hlow : ∀ kv ∈ e.options, lower kv.1 = kv.1) (hu : UniqueKeys e.options) :
    parse e.header = .ok [Encoding.mk' e.kind e.options] := by
  have hsem : (ParamSpec.sem ∘ fun kv : Str × Str => ParamSpec.kv [] [' '] kv.1 [] [] kv.2 false) = fun kv => some (lower kv.1, kv.2) := by
    funext kv; rfl
  have hm : ∀ o : Options, (∀ kv ∈ o, lower kv.1 = kv.1) → (o.filterMap fun kv => some (lower kv.1, kv.2)) = o := by
    intro o
    induction o with
    | nil => intro _; rfl
    | cons kv r ih =>
      intro hl
      simp only [List.filterMap_cons]
      rw [ih (fun x hx => hl x (List.mem_cons_of_mem _ hx)), hl kv (by simp)]
  have hopts : e.spec.opts = e.options := by
    rw [C19_opts_distinct]
    · simp only [Encoding.spec, List.filterMap_map]
      rw [hsem, hm _ hlow]
    · simp only [Encoding.spec, List.filterMap_map]
      rw [hsem, hm _ hlow]; exact hu
  have hr : e.spec.range = .ok ⟨e.kind, e.options, 1000⟩ := by
    unfold RangeSpec.range
    rw [hopts, hq]; rfl
  rw [header_eq_render, (C19_parse_render [e.spec] (by simp) (by simpa using hwf)).2]
  simp only [specRanges, hr]
  have hf : e.options.filter (fun kv => kv.1 != ['q']) = e.options := by
    rw [List.filter_eq_self]
    intro kv hkv
    simp only [bne_iff_ne, ne_eq]
    intro hk
    have := getOpt_of_mem kv.1 kv.2 e.options hu hkv
    rw [hk, hq] at this; cases this
  simp [Except.map, sortDesc, insertDesc, Range.enc, hf]

/-- every encoder of the live table announces itself with a Content-Type that parses back to its encoding -/
theorem C19_tables_header : ∀ e ∈ Tables.encoders, parse e.header = .ok [e] := by
  decide +kernel

/-! ### the REST route with the generic application -/

/-- 500 exactly when a header does not parse (`ValueError` of `float(q)`, raised outside the `try`): the
Content-Type (default `application/octet-stream`) or a non-empty Accept -/
theorem C19_gateway_500 (encoders decoders : List Encoding) (ct accept : Option Str) :
    gateway encoders decoders ct accept = .serverError ↔
      (parse (ct.getD defaultContentType) = .error .badQ ∨ ∃ a, accept = some a ∧ a ≠ [] ∧ parse a = .error .badQ) := by
  rw [gateway_eq]
  cases hp : parse (ct.getD defaultContentType) with
  | error e => cases e; simp
  | ok es =>
    cases es with
    | nil => exact absurd rfl (C19_parse_nonempty _ _ hp)
    | cons enc rest =>
      have hserve : ∀ accs, serve encoders decoders enc accs ≠ .serverError := by
        intro accs; unfold serve
        cases getDecoder decoders enc with
        | none => simp
        | some d => cases getEncoder encoders accs <;> simp
      simp only [reduceCtorEq, false_or]
      cases accept with
      | none => simp [acceptedOf, hserve]
      | some a =>
        by_cases ha : a.isEmpty = true
        · have : a = [] := by simpa using ha
          subst this
          simp [acceptedOf, hserve]
        · have hne : a ≠ [] := by intro h; subst h; simp at ha
          simp only [acceptedOf, ha, Bool.false_eq_true, if_false, Option.some.injEq, exists_eq_left', hne,
            ne_eq, not_false_eq_true, true_and]
          cases hpa : parse a with
          | error e => cases e; simp [Except.map]
          | ok acc => simp [Except.map, hserve]

/-- otherwise the head of the parsed Content-Type goes to `get_decoder` and the accepted encodings (the
parsed Accept; the content type itself when Accept is absent or empty) to `get_encoder`: 200 with exactly
their choices -/
theorem C19_gateway_200 (encoders decoders : List Encoding) (ct accept : Option Str) (e d : Nat) :
    gateway encoders decoders ct accept = .ok e d ↔
      ∃ enc rest accs, parse (ct.getD defaultContentType) = .ok (enc :: rest) ∧ acceptedOf enc accept = .ok accs ∧
        getDecoder decoders enc = some d ∧ getEncoder encoders accs = some e := by
  rw [gateway_eq]
  cases hp : parse (ct.getD defaultContentType) with
  | error x => simp
  | ok es =>
    cases es with
    | nil => simp
    | cons enc rest =>
      cases hacc : acceptedOf enc accept with
      | error x => simp [hacc]
      | ok accs =>
        simp only [hacc, Except.ok.injEq, List.cons.injEq]
        unfold serve
        constructor
        · intro h
          cases hd : getDecoder decoders enc with
          | none => rw [hd] at h; cases h
          | some d' =>
            cases he : getEncoder encoders accs with
            | none => rw [hd, he] at h; cases h
            | some e' =>
              rw [hd, he] at h; cases h
              exact ⟨enc, rest, accs, ⟨rfl, rfl⟩, hacc, hd, he⟩
        · rintro ⟨enc', rest', accs', ⟨rfl, rfl⟩, hacc', hd, he⟩
          rw [hacc] at hacc'; cases hacc'
          rw [hd, he]

/-- 415 exactly when the headers parse and `get_decoder` or `get_encoder` raises `Unsupported` -/
theorem C19_gateway_415 (encoders decoders : List Encoding) (ct accept : Option Str) :
    gateway encoders decoders ct accept = .unsupported ↔
      ∃ enc rest accs, parse (ct.getD defaultContentType) = .ok (enc :: rest) ∧ acceptedOf enc accept = .ok accs ∧
        (getDecoder decoders enc = none ∨ getEncoder encoders accs = none) := by
  rw [gateway_eq]
  cases hp : parse (ct.getD defaultContentType) with
  | error x => simp
  | ok es =>
    cases es with
    | nil => simp
    | cons enc rest =>
      cases hacc : acceptedOf enc accept with
      | error x => simp [hacc]
      | ok accs =>
        simp only [hacc, Except.ok.injEq, List.cons.injEq]
        unfold serve
        constructor
        · intro h
          cases hd : getDecoder decoders enc with
          | none => exact ⟨enc, rest, accs, ⟨rfl, rfl⟩, hacc, Or.inl hd⟩
          | some d' =>
            cases he : getEncoder encoders accs with
            | none => exact ⟨enc, rest, accs, ⟨rfl, rfl⟩, hacc, Or.inr he⟩
            | some e' => rw [hd, he] at h; cases h
        · rintro ⟨enc', rest', accs', ⟨rfl, rfl⟩, hacc', hor⟩
          rw [hacc] at hacc'; cases hacc'
          rcases hor with hd | he
          · rw [hd]
          · cases hd : getDecoder decoders enc with
            | none => rfl
            | some d' => simp only [he]

/-- Accept absent or empty: the response is negotiated against the request's own content type -/
theorem C19_gateway_default_accept (encoders decoders : List Encoding) (ct : Option Str) :
    gateway encoders decoders ct none = gateway encoders decoders ct (some []) ∧
    ∀ enc rest, parse (ct.getD defaultContentType) = .ok (enc :: rest) →
      gateway encoders decoders ct none = serve encoders decoders enc [enc] := by
  constructor
  · rw [gateway_eq, gateway_eq]; rfl
  · intro enc rest hp
    rw [gateway_eq, hp]; rfl

/-- Content-Type absent: `application/octet-stream`, for which the live tables have no decoder — 415 unless
the Accept header does not parse (500: it is parsed first) -/
theorem C19_gateway_default_content_type (accept : Option Str) :
    gateway Tables.encoders Tables.decoders none accept =
      (match accept with
       | none => .unsupported
       | some a => if a.isEmpty then .unsupported else match parse a with
         | .error _ => .serverError
         | .ok _ => .unsupported) := by
  have hp : parse ((none : Option Str).getD defaultContentType) = .ok [⟨defaultContentType, []⟩] := by
    decide +kernel
  have hd : ∀ accs, serve Tables.encoders Tables.decoders ⟨defaultContentType, []⟩ accs = .unsupported := by
    intro accs
    have : getDecoder Tables.decoders ⟨defaultContentType, []⟩ = none := by decide +kernel
    unfold serve; rw [this]
  rw [gateway_eq, hp]
  cases accept with
  | none => exact hd _
  | some a =>
    by_cases ha : a.isEmpty = true
    · simp only [acceptedOf, ha, if_true]; exact hd _
    · simp only [acceptedOf, ha, Bool.false_eq_true, if_false]
      cases parse a with
      | error e => rfl
      | ok acc => exact hd _

/-- a header that does not parse is a 500, never a 415 or a 200, whatever the tables hold -/
theorem C19_gateway_bad_q (encoders decoders : List Encoding) (ct accept : Option Str)
    (h : parse (ct.getD defaultContentType) = .error .badQ) : gateway encoders decoders ct accept = .serverError := by
  rw [gateway_eq, h]

/-! ### non-vacuity (tests on concrete objects, not part of the claim) -/

-- `  Text/CSV ; Q = "0.50" ;a="say \"hi\"; x=1";;flag; FORMAT= ;a=z , */*;q=.5`
private def exSpec : List RangeSpec :=
  [⟨[' ', ' '], "Text/CSV".toList,
     [.kv [' '] [' '] ['Q'] [' '] [' '] "0.50".toList true,
      .kv [] [] ['a'] [] [] "say \"hi\"; x=1".toList true,
      .flag [] [] [],
      .flag [] [] "flag".toList,
      .kv [] [' '] "FORMAT".toList [] [' '] [] false,
      .kv [' '] [] ['a'] [] [] ['z'] false], [' ']⟩,
   ⟨[' '], "*/*".toList, [.kv [] [] ['q'] [] [] ".5".toList false], []⟩]

example : renderHeader exSpec
    = "  Text/CSV ; Q = \"0.50\";a=\"say \\\"hi\\\"; x=1\";;flag; FORMAT= ;a=z , */*;q=.5".toList := by decide +kernel
example : ∀ r ∈ exSpec, r.wf = true := by decide +kernel
-- the ranges meant: the repeated `a` keeps its place and takes the last value, `Q` is the quality, `FORMAT=` is kept
example : specRanges exSpec = .ok
    [⟨"Text/CSV".toList, [(['q'], "0.50".toList), (['a'], ['z']), ("format".toList, [])], 500⟩,
     ⟨"*/*".toList, [(['q'], ".5".toList)], 500⟩] := by decide +kernel
example : (parse (renderHeader exSpec)).toOption
    = some [⟨"text/csv".toList, [(['a'], ['z']), ("format".toList, [])]⟩, ⟨"*/*".toList, []⟩] := by
  rw [(C19_parse_render exSpec (by decide) (by decide +kernel)).2]; decide +kernel
-- quality spellings
example : (QSpec.mk [' '] (some false) ['0', '1'] (some ['5', '0']) ['\t']).wf = true := by decide +kernel
example : (QSpec.mk [' '] (some false) ['0', '1'] (some ['5', '0']) ['\t']).render = " +01.50\t".toList := by decide +kernel
example : parseQ " +01.50\t".toList = some 1500 := by decide +kernel
example : parseQ "1e3".toList = none ∧ parseQ "0.5x".toList = none ∧ parseQ "".toList = none ∧ parseQ ".".toList = none
    ∧ parseQ "0.1234".toList = none ∧ parseQ "- 1".toList = none := by decide +kernel
example : parseQ "1".toList = parseQ "1.000".toList ∧ parseQ ".5".toList = parseQ "0.50".toList := by decide +kernel
-- the gateway
example : gateway Tables.encoders Tables.decoders (some "Text/CSV".toList) none = .ok 6 7 := by decide +kernel
-- without Accept the content type itself is the accepted pattern, options included: no encoder announces a charset
example : gateway Tables.encoders Tables.decoders (some "Text/CSV; charset=utf-8".toList) none = .unsupported := by decide +kernel
example : gateway Tables.encoders Tables.decoders (some "Text/CSV; charset=utf-8".toList) (some "*/*".toList) = .ok 0 7 := by decide +kernel
example : gateway Tables.encoders Tables.decoders (some "text/csv;q=0.1, application/json".toList)
    (some "foo/bar, application/*;q=0.5".toList) = .ok 0 6 := by decide +kernel
example : gateway Tables.encoders Tables.decoders (some "text/csv".toList) (some "foo/bar".toList) = .unsupported := by decide +kernel
example : gateway Tables.encoders Tables.decoders (some "text/csv".toList) (some "*/*;q=high".toList) = .serverError := by decide +kernel
example : (Encoding.mk "application/json".toList [("format".toList, "pandas-split".toList)]).header
    = "application/json; format=pandas-split".toList := by decide +kernel

end ForML.Codec
