/-
C01 — Compiled instruction table preserves the task-graph dataflow.

Objects (all executable, `ForML/Model`):
  `compile g A order`   model of `flow.compile` (forml/flow/_code/compiler.py `Table.add/Linkage/Index/__iter__`)
                        over an explicit visit order (`Traversal.each`),
  `run A t`             the reference interpreter (memoised, dependency ordered) of a symbol table,
  `nodeVal/commitVal`   direct evaluation of the task graph (`GraphEval`, written from the property text),
  `specTable g A`       the table a segment denotes, written declaratively (`CompileSpec`).

The property, for a compiled table `t`, is `Preserves g A t` below.
-/
import ForML.Model.Compile
import ForML.Lemmas.C01Sem
import ForML.Lemmas.C01Compile
import ForML.Lemmas.C01Rerun
import ForML.Lemmas.C01Traversal
import ForML.Lemmas.C01Construct
import ForML.Lemmas.C01Faults

namespace ForML.Flow
open Segment

/-- What C01 demands of a table `t` compiled from segment `g` with asset accessor `A`. -/
structure Preserves (g : Segment) (A : Option Assets) (t : Table) : Prop where
  /-- executing the table yields, at the functor of every worker (in particular at every sink), exactly the value of
  direct graph evaluation: inputs in port order, multi-output workers split per port, the trained sibling's state of
  the same run / the stored state at the group's list position preset -/
  values : ∀ w ∈ g.workers, (run A t).get (.uid w.uid) = some (g.nodeVal A g.evalFuel w.uid)
  /-- no instruction is executed twice … -/
  once : (run A t).trace.Nodup
  /-- … every instruction of the table is executed, nothing else is -/
  all : ∀ k, k ∈ (run A t).trace ↔ ∃ s ∈ t, s.id = k
  /-- the table holds every instruction once -/
  distinct : (t.map (·.id)).Nodup
  /-- the functors of the table are exactly the tasks of the workers: one per worker … -/
  tasks : ∀ w ∈ g.workers, g.functorSym A w ∈ t
  /-- … and no other -/
  functors : ∀ s ∈ t, (∃ a act ps, s.instr = .functor a act ps) → ∃ w ∈ g.workers, s = g.functorSym A w
  /-- new generation: committed exactly when a persistent group is trained here, the dumped states of the trainers
  at the list positions of their groups; otherwise nothing is committed -/
  commit : match g.commitVal A with
    | some c => (run A t).get .committer = some c
    | none => ∀ s ∈ t, s.id ≠ Key.committer

/-! ### the reference interpreter (any acyclic table, shared with C02) -/

/-- the memoising executor computes the denotation of every instruction of an acyclic table -/
theorem C01_run_is_value (A : Option Assets) (t : Table) (r : Key → Nat) (hr : t.Ranked r) (s : Symbol) (hs : s ∈ t) :
    (run A t).get s.id = some (Table.value A t t.fuel s.id) := run_get A hr hs

/-- every instruction of an acyclic table is executed exactly once, and nothing else -/
theorem C01_run_exactly_once (A : Option Assets) (t : Table) (r : Key → Nat) (hr : t.Ranked r) :
    (run A t).trace.Nodup ∧ ∀ k, k ∈ (run A t).trace ↔ ∃ s ∈ t, s.id = k :=
  ⟨run_trace_nodup A hr, run_trace_mem A hr⟩

/-- the default fuel is enough for every acyclic table, of any size -/
theorem C01_value_fuel (A : Option Assets) (t : Table) (r : Key → Nat) (hr : t.Ranked r) (k : Key) (f : Nat)
    (hf : t.fuel ≤ f) : Table.value A t f k = Table.value A t t.fuel k := Table.value_fuel A hr k f hf

/-! ### semantics of the denoted table -/

/-- **Any table with the symbols of `specTable g A` preserves the dataflow of `g`** (all well-formed segments, all
compatible asset accessors, no bound on size). -/
theorem C01_denoted_table_preserves (g : Segment) (A : Option Assets) (rank : Uid → Nat) (t : Table)
    (hwf : g.wf rank = true) (hA : g.assetsOK A = true) (hd : Denotes g A t) (hnd : (t.map (·.id)).Nodup) :
    Preserves g A t := by
  have h := wf_WF hwf
  have hA' := assetsOK_AssetsOK hA
  have hr := hd.ranked h
  have hfun : ∀ w ∈ g.workers, g.functorSym A w ∈ t :=
    fun w hw => (hd _).mpr (mem_specTable.mpr (Or.inl ⟨w, hw, rfl⟩))
  refine ⟨?_, run_trace_nodup A hr, run_trace_mem A hr, hnd, hfun, ?_, ?_⟩
  · intro w hw
    have := run_get A hr (hfun w hw)
    rw [show (g.functorSym A w).id = Key.uid w.uid from rfl, hd.value_uid h hA' hw] at this
    exact this
  · rintro s hs ⟨a, act, ps, hi⟩
    rcases mem_specTable.mp ((hd s).mp hs) with hw | ⟨w, _, h'⟩ | h' | h' | h'
    · exact hw
    · obtain ⟨_, _, i, _, _, rfl⟩ := mem_getterSyms.mp h'; cases hi
    · obtain ⟨_, γ, _, _, _, rfl⟩ := mem_loaderSyms.mp h'; cases hi
    · obtain ⟨w, _, _, _, rfl⟩ := mem_dumperSyms.mp h'; cases hi
    · obtain ⟨_, _, _, rfl⟩ := mem_committerSyms.mp h'; cases hi
  · cases hc : g.commitVal A with
    | none => exact hd.no_commit hc
    | some c =>
      obtain ⟨⟨s, hs, hid⟩, hv⟩ := hd.value_commit h hA' hc
      have := run_get A hr hs
      rw [hid, hv] at this
      exact this

theorem C01_describes_denotes {g : Segment} {A : Option Assets} {t : Table} (h : g.describes A t = true) :
    Denotes g A t ∧ (t.map (·.id)).Nodup := by
  simp only [describes, Bool.and_eq_true, List.all_eq_true, List.contains_iff_mem, allDistinct_iff_nodup] at h
  exact ⟨fun s => ⟨h.1.1 s, h.1.2 s⟩, h.2⟩

theorem C01_denotes_describes {g : Segment} {A : Option Assets} {t : Table} (hd : Denotes g A t)
    (hnd : (t.map (·.id)).Nodup) : g.describes A t = true := by
  simp only [describes, Bool.and_eq_true, List.all_eq_true, List.contains_iff_mem, allDistinct_iff_nodup]
  exact ⟨⟨fun s hs => (hd s).mp hs, fun s hs => (hd s).mpr hs⟩, hnd⟩

/-- Translation validation (what the driver evaluates on every explored case): an output of the compiler model that
passes the executable validator `describes` preserves the dataflow. -/
theorem C01_dataflow_validated (g : Segment) (A : Option Assets) (rank : Uid → Nat) (order : List Uid)
    (t : Table) (hwf : g.wf rank = true) (hA : g.assetsOK A = true) (_hc : compile g A order = .ok t)
    (hv : g.describes A t = true) : Preserves g A t :=
  C01_denoted_table_preserves g A rank t hwf hA (C01_describes_denotes hv).1 (C01_describes_denotes hv).2

/-! ### the compiler -/

/-- **The compiler model produces, for every visit order, exactly the denoted table (up to symbol order), every
instruction once**: no assertion of `Table.add` / `Linkage.insert` / `Index.set` / `__iter__` fires, arguments are
linked by subscriber port, getters by output port, stub getters pruned, loader re-keyed, committer by list position. -/
theorem C01_compile_denotes (g : Segment) (A : Option Assets) (rank : Uid → Nat) (order : List Uid)
    (hwf : g.wf rank = true) (hA : g.assetsOK A = true) (hp : order.Perm g.uids) :
    ∃ t, compile g A order = .ok t ∧ g.describes A t = true := by
  obtain ⟨t, hc, hd, hnd⟩ := compile_denotes hwf hA hp
  exact ⟨t, hc, C01_denotes_describes hd hnd⟩

/-- **C01 at full strength** (all segment topologies, all visit orders, all persistent lists; unbounded): compiling
succeeds and executing the compiled table yields at every worker exactly the value of direct graph evaluation, every
instruction runs exactly once, functors correspond one-to-one to workers, and the new generation is committed with the
trainers' states at their groups' list positions. (Model of the code with fix C01-F1: `Linkage.leaves` accepts an empty
linkage.) -/
theorem C01_dataflow (g : Segment) (A : Option Assets) (rank : Uid → Nat) (order : List Uid)
    (hwf : g.wf rank = true) (hA : g.assetsOK A = true) (hp : order.Perm g.uids) :
    ∃ t, compile g A order = .ok t ∧ Preserves g A t := by
  obtain ⟨t, hc, hd, hnd⟩ := compile_denotes hwf hA hp
  exact ⟨t, hc, C01_denoted_table_preserves g A rank t hwf hA hd hnd⟩

/-! ### the traversal (`span.Traversal.each`) -/

/-- **`Traversal.each` never raises `Cyclic`**, on any graph (cyclic or not, well-formed or not): the model with the
recursion path (`Traversal.members`) and the `Cyclic` test of `Traversal.subscribers` is the plain search — every node
of the path is in the global `seen` set and that mask is tested first (`continue`) -/
theorem C01_traversal_never_cyclic (g : Segment) : g.each = .ok g.visitOrder := each_eq g

/-- **`Traversal.each` calls the acceptor exactly once for every node reachable from the head along subscriptions, not
continuing past the tail except into trained subscribers, and for nothing else** — for every segment whose
subscriptions stay inside the listed workers (`closed`, a part of `wf`); no acyclicity is needed, the default fuel
always suffices -/
theorem C01_traversal_enumerates (g : Segment) (h : g.closed = true) :
    g.visitOrder.Nodup ∧ (∀ x ∈ g.visitOrder, x ∈ g.uids) ∧ ∀ x, x ∈ g.visitOrder ↔ Reach g.followed g.head x :=
  visitOrder_spec h

/-- the listed members of a well-formed segment are all reachable iff the decidable `connected` holds (every listed
member but the head has a subscription through which the traversal follows it) … -/
theorem C01_members_reachable (g : Segment) (rank : Uid → Nat) (hwf : g.wf rank = true) :
    g.connected = true ↔ ∀ x ∈ g.uids, Reach g.followed g.head x := connected_iff_reach hwf

/-- … which is exactly when the traversal enumerates the listed members, each once -/
theorem C01_traversal_perm (g : Segment) (rank : Uid → Nat) (hwf : g.wf rank = true) :
    g.connected = true ↔ g.visitOrder.Perm g.uids :=
  ⟨visitOrder_perm hwf, connected_of_perm hwf⟩

/-- **C01 for the order in which `Traversal.each` feeds the compiler** — no hypothesis on the visit order: for every
well-formed segment whose listed members are the reachable ones, the traversal succeeds, the compiler fed in its order
succeeds and the compiled table preserves the dataflow -/
theorem C01_dataflow_traversal (g : Segment) (A : Option Assets) (rank : Uid → Nat)
    (hwf : g.wf rank = true) (hA : g.assetsOK A = true) (hc : g.connected = true) :
    ∃ o t, g.each = .ok o ∧ compile g A o = .ok t ∧ Preserves g A t := by
  obtain ⟨t, hct, hp⟩ := C01_dataflow g A rank g.visitOrder hwf hA (visitOrder_perm hwf hc)
  exact ⟨g.visitOrder, t, each_eq g, hct, hp⟩

/-- **`flow.Segment(head, tail)` accepts every well-formed connected segment**: the head is simple (it cannot be trained),
the tail search of `Traversal.tail(expected)` — no global `seen` set, `Cyclic` when a subscriber is on the current path,
`any` stopping at the first hit — neither raises nor misses the tail, the tail is simple. So the segments the theorems
quantify over are segments the constructor lets through. -/
theorem C01_segment_accepted (g : Segment) (rank : Uid → Nat) (hwf : g.wf rank = true) (hc : g.connected = true) :
    g.construct = .ok () := construct_ok hwf hc

/-- `wf` alone does not make the *listed* workers the members: the statement without `connected` … -/
def C01_traversal_listed_full : Prop :=
  ∀ (g : Segment) (rank : Uid → Nat), g.wf rank = true → g.visitOrder.Perm g.uids

/-- … fails on a listed source (no input port) that nothing connects to the head -/
def strayWorker : Segment := ⟨[⟨0, 0, 0, false, 1, 1⟩, ⟨1, 1, 1, false, 0, 1⟩], [], 0, 0, []⟩

theorem C01_traversal_listed_counterexample : ¬ C01_traversal_listed_full := by
  intro h
  have := (h strayWorker (fun _ => 0) (by decide)).length_eq
  revert this
  decide

/-- what does hold without `connected`: the traversal visits a duplicate-free sub-list of the listed workers -/
theorem C01_traversal_listed_partial (g : Segment) (rank : Uid → Nat) (hwf : g.wf rank = true) :
    g.visitOrder.Nodup ∧ ∀ x ∈ g.visitOrder, x ∈ g.uids :=
  ⟨(visitOrder_spec (wf_closed hwf)).1, (visitOrder_spec (wf_closed hwf)).2.1⟩

/-- non-vacuity of the enumeration theorem on a *cyclic* graph (1 → 2 → 1) with a node (3) fed by the tail only: no
`Cyclic`, every reachable node once, the tail's plain subscriber is not a member while its trained one (4) is -/
def cyclicDemo : Segment :=
  ⟨[⟨0, 0, 0, false, 1, 1⟩, ⟨1, 1, 1, false, 2, 2⟩, ⟨2, 2, 2, false, 1, 1⟩, ⟨5, 5, 5, false, 1, 1⟩, ⟨3, 3, 3, false, 1, 1⟩,
    ⟨4, 4, 4, true, 1, 1⟩],
   [⟨0, 0, 1, .apply 0⟩, ⟨1, 0, 2, .apply 0⟩, ⟨2, 0, 1, .apply 1⟩, ⟨1, 1, 5, .apply 0⟩, ⟨5, 0, 3, .apply 0⟩,
    ⟨5, 0, 4, .train⟩, ⟨0, 0, 4, .label⟩],
   0, 5, []⟩

example : cyclicDemo.closed = true := by decide
example : cyclicDemo.each = .ok [0, 1, 2, 5, 4] := by rfl
/-- … while the constructor, which meets the cycle before the tail, raises `Cyclic` -/
example : cyclicDemo.construct = .error .cyclic := by rfl

/-- the visit order is irrelevant: two traversals yield the same symbols -/
theorem C01_order_irrelevant (g : Segment) (A : Option Assets) (rank : Uid → Nat) (o₁ o₂ : List Uid) (t₁ t₂ : Table)
    (hwf : g.wf rank = true) (hA : g.assetsOK A = true)
    (hp₁ : o₁.Perm g.uids) (hp₂ : o₂.Perm g.uids) (h₁ : compile g A o₁ = .ok t₁) (h₂ : compile g A o₂ = .ok t₂) :
    t₁.Perm t₂ := by
  obtain ⟨t₁', hc₁, hd₁, hn₁⟩ := compile_denotes hwf hA hp₁
  obtain ⟨t₂', hc₂, hd₂, hn₂⟩ := compile_denotes hwf hA hp₂
  rw [h₁] at hc₁; rw [h₂] at hc₂
  cases hc₁; cases hc₂
  rw [List.perm_ext_iff_of_nodup (nodup_of_nodup_map _ hn₁) (nodup_of_nodup_map _ hn₂)]
  intro s
  rw [hd₁ s, hd₂ s]

/-- positions: the committer's `i`-th argument is the dumper of the trainer of the `i`-th persistent group; the
loader of the `i`-th persistent group yields the `i`-th state of the previous generation -/
theorem C01_positions (g : Segment) (As : Assets) (rank : Uid → Nat) (order : List Uid) (t : Table)
    (hwf : g.wf rank = true) (hA : g.assetsOK (some As) = true)
    (hp : order.Perm g.uids) (hc : compile g (some As) order = .ok t) :
    (∀ (s : Symbol), s ∈ t → s.id = Key.committer → ∀ (i : Nat) (γ : Gid), As.persistent[i]? = some γ →
        ∃ tw, g.trainerOf γ = some tw ∧ s.args[i]? = some (Key.dumper tw.uid)) ∧
    (∀ (s : Symbol), s ∈ t → ∀ (γ : Gid), s.id = Key.loader γ → ∀ (i : Nat), As.persistent[i]? = some γ →
        (run (some As) t).get (.loader γ) = some (As.prev.getD i .none)) := by
  obtain ⟨t', hc', hd, hnd⟩ := compile_denotes hwf hA hp
  rw [hc] at hc'; cases hc'
  have h := wf_WF hwf
  have hA' := assetsOK_AssetsOK hA
  constructor
  · intro s hs hid i γ hγ
    obtain ⟨As', hAs, ⟨w, hw, hT, hP⟩, rfl⟩ := mem_committerSyms.mp (spec_committer ((hd s).mp hs) hid)
    cases hAs
    have hall : ∀ γ ∈ As.persistent, (g.trainerOf γ).isSome := by
      rcases hA'.allOrNone As rfl with h1 | h1
      · exact h1
      · exfalso
        obtain ⟨_, As'', hAs'', hcn⟩ := persistentW_true hP
        cases hAs''
        have hmem : w.gid ∈ As.persistent := (indexOf_isSome_iff _ _).mp hcn
        have := trainerOf_none (h1 _ hmem) w hw rfl
        simp only [isTrainer, Bool.and_eq_true] at hT
        rw [hT.2] at this; cases this
    obtain ⟨tw, htw⟩ := Option.isSome_iff_exists.mp (hall γ (List.mem_of_getElem? hγ))
    refine ⟨tw, htw, ?_⟩
    simp only
    rw [filterMap_eq_map (h := fun γ => match g.trainerOf γ with | some t => Key.dumper t.uid | none => Key.committer)
      (fun γ' hγ' => by
        obtain ⟨tw', htw'⟩ := Option.isSome_iff_exists.mp (hall γ' hγ')
        simp [htw'])]
    rw [List.getElem?_map, hγ]
    simp [htw]
  · intro s hs γ hid i hγ
    have hsym := spec_loader ((hd s).mp hs) hid
    subst hsym
    have hr := hd.ranked (A := some As) h
    have hv := run_get (some As) hr hs
    simp only at hv
    rw [hv, hd.value_loader h rfl ((hd _).mp hs)]
    simp only [Assets.load, Assets.offset, indexOf_of_get (hA'.nodup As rfl) hγ]

/-- **Re-execution**: instructions carry no state across executions. The `j`-th execution of a compiled table against
the evolving store (`asset.State.commit` replaces the generation: execution `j` sees what execution `j-1` committed)
*is* the execution of a fresh compilation against the store of that moment, and preserves the dataflow of the
segment with that store: the previous states preset are those of the latest committed generation, every time. -/
theorem C01_rerun (g : Segment) (A : Option Assets) (rank : Uid → Nat) (order : List Uid) (t : Table)
    (hwf : g.wf rank = true) (hA : g.assetsOK A = true) (hp : order.Perm g.uids)
    (hc : compile g A order = .ok t) (j : Nat) :
    (runSeq A t (j + 1))[j]? = some (run (storeSeq A t j) t) ∧
    compile g (storeSeq A t j) order = .ok t ∧ Preserves g (storeSeq A t j) t := by
  have hs := sameP_storeSeq A t j
  have hc' : compile g (storeSeq A t j) order = .ok t := by rw [← compile_congr g hs order]; exact hc
  refine ⟨by simp [runSeq], hc', ?_⟩
  obtain ⟨t', hct, hpres⟩ := C01_dataflow g (storeSeq A t j) rank order hwf
    (by rw [← assetsOK_congr g hs]; exact hA) hp
  rw [hc'] at hct; cases hct
  exact hpres

/-- … and whatever happened to the store in between (commits of the table itself, commits from outside, refused
commits with more or fewer states than persistent groups, a previous generation longer or shorter than the persistent
list): against **any** store with the same persistent list the compiled table is the fresh compilation and preserves
the dataflow of the segment with that store -/
theorem C01_rerun_any_store (g : Segment) (A A' : Option Assets) (rank : Uid → Nat) (order : List Uid) (t : Table)
    (hwf : g.wf rank = true) (hA : g.assetsOK A = true) (hp : order.Perm g.uids)
    (hc : compile g A order = .ok t) (hs : SameP A A') :
    compile g A' order = .ok t ∧ Preserves g A' t := by
  have hc' : compile g A' order = .ok t := by rw [← compile_congr g hs order]; exact hc
  obtain ⟨t', hct, hpres⟩ := C01_dataflow g A' rank order hwf (by rw [← assetsOK_congr g hs]; exact hA) hp
  rw [hc'] at hct; cases hct
  exact ⟨hc', hpres⟩

/-- a commit from outside with a wrong number of states leaves the store as it was; one with the right number
replaces the previous generation; either way the persistent list is the same -/
theorem C01_external_commit (As : Assets) (vs : List Val) :
    SameP (some As) (some (commitExternal As vs)) ∧
    (vs.length ≠ As.persistent.length → commitExternal As vs = As) ∧
    (vs.length = As.persistent.length → commitExternal As vs = { As with prev := vs.map undump }) :=
  ⟨sameP_commitExternal As vs, commitExternal_refused As vs, commitExternal_accepted As vs⟩

/-! ### falsy yet informative payloads -/

/-- **The committed generation has one state id per persistent group, at the group's list position, whatever the
trained states are** — truthy, falsy (`b''`, `0`, an empty sequence: `Actor.falsyState`) or `None`: whenever a
persistent group is trained in the segment, the committer of the compiled table yields `committed vs` with `vs` as long
as the persistent list, and `vs[i]` is the *dumped* state of the trainer of `persistent[i]` (never a hole). -/
theorem C01_commit_every_position (g : Segment) (As : Assets) (rank : Uid → Nat) (t : Table)
    (hwf : g.wf rank = true) (hA : g.assetsOK (some As) = true) (hp : Preserves g (some As) t)
    (hany : ∃ γ ∈ As.persistent, (g.trainerOf γ).isSome) :
    ∃ vs, (run (some As) t).get .committer = some (.committed vs) ∧ vs.length = As.persistent.length ∧
      ∀ (i : Nat) (γ : Gid), As.persistent[i]? = some γ →
        ∃ tw, g.trainerOf γ = some tw ∧ vs[i]? = some (.dumped (g.nodeVal (some As) g.evalFuel tw.uid)) := by
  have hA' := assetsOK_AssetsOK hA
  obtain ⟨γ₀, hγ₀, hs₀⟩ := hany
  have hall : ∀ γ ∈ As.persistent, (g.trainerOf γ).isSome := by
    rcases hA'.allOrNone As rfl with h1 | h1
    · exact h1
    · rw [h1 γ₀ hγ₀] at hs₀; cases hs₀
  have hc := hp.commit
  have hcv : g.commitVal (some As) = some (As.commit (As.persistent.map fun p =>
      match g.trainerOf p with
      | some t => .dumped (g.nodeVal (some As) g.evalFuel t.uid)
      | none => .error .unbound)) := by
    simp only [commitVal]
    rw [if_pos (List.any_eq_true.mpr ⟨γ₀, hγ₀, hs₀⟩)]
    rfl
  rw [hcv] at hc
  simp only [Assets.commit, List.length_map, if_true] at hc
  refine ⟨_, hc, by simp, ?_⟩
  intro i γ hγ
  obtain ⟨tw, htw⟩ := Option.isSome_iff_exists.mp (hall γ (List.mem_of_getElem? hγ))
  refine ⟨tw, htw, ?_⟩
  rw [List.getElem?_map, hγ]
  simp [htw]

/-- what the flow layer does with a falsy state: the dumper dumps it like any other (`dumped v`), while an actor that
is offered it as a preset keeps the state it was built with (`Preset.reduce` skips a falsy value) -/
theorem C01_falsy_state (A : Option Assets) (As : Assets) (a : Actor) (v : Val) (xs : List Val) (hv : v.truthy = false) :
    exec (some As) .dumper [v] = .dumped v ∧
    exec A (.functor a .apply [.setState]) (v :: xs) = .apply a .none xs := by
  refine ⟨rfl, ?_⟩
  rw [exec_apply_preset]
  simp [Val.asState, hv]

/-- non-vacuity: group 2002 of `falsyDemo` trains a *falsy* state (`Actor.falsyState`), fed by a head (1000) whose
output is falsy (`Actor.falsyOut`), with a falsy stored previous state: the state is dumped and committed at position 0
although it is falsy, while the applied fork holds no state and the trainer starts from no state -/
def falsyDemo : Segment :=
  ⟨[⟨0, 0, 1000, false, 0, 1⟩, ⟨1, 1, 2002, true, 1, 1⟩, ⟨2, 1, 2002, true, 1, 1⟩],
   [⟨0, 0, 1, .apply 0⟩, ⟨0, 0, 2, .train⟩, ⟨0, 0, 2, .label⟩], 0, 1, []⟩

def falsyAssets : Option Assets := some ⟨[1], [.stored 1000]⟩

example : Actor.falsyOut 1000 = true ∧ Actor.falsyOut 2002 = false ∧ Actor.falsyState 2002 = true ∧
    (Val.stored 1000).truthy = false ∧ (Val.stored 0).truthy = true := by decide
example : falsyDemo.wf (fun u => if u = 0 then 0 else if u = 2 then 1 else 2) = true := by decide +kernel
example : falsyDemo.assetsOK falsyAssets = true := by decide +kernel
example : falsyDemo.connected = true := by decide +kernel
example : (match compile falsyDemo falsyAssets falsyDemo.visitOrder with
    | .ok t => ((run falsyAssets t).get .committer, (run falsyAssets t).get (.uid 1))
    | .error _ => (none, none)) =
    (some (.committed [.dumped (.state 2002 .none (.apply 1000 .none []) (.apply 1000 .none []))]),
     some (.apply 2002 .none [.apply 1000 .none []])) := by rfl

/-! ### compiling again after the graph has changed -/

/-- **Every compilation denotes the graph as it is at that moment**: for any sequence of rounds — the same head and
tail with workers, forks, trainers, subscriptions added in between, or any other segments; each with the store of its
moment — every round's traversal succeeds, its compilation succeeds and the table preserves the dataflow of *that*
round's graph. (`compile` is a function of the whole graph; nothing of an earlier round enters.) -/
theorem C01_recompile (rounds : List (Segment × Option Assets)) (rank : Segment → Uid → Nat)
    (h : ∀ r ∈ rounds, r.1.wf (rank r.1) = true ∧ r.1.assetsOK r.2 = true ∧ r.1.connected = true) :
    ∀ r ∈ rounds, ∃ o t, r.1.each = .ok o ∧ compile r.1 r.2 o = .ok t ∧ Preserves r.1 r.2 t :=
  fun r hr => C01_dataflow_traversal r.1 r.2 (rank r.1) (h r hr).1 (h r hr).2.1 (h r hr).2.2

/-- the statement a cache keyed by the segment's boundary would need: a table compiled for one graph serves every
well-formed graph between the same head and tail … -/
def C01_compile_by_boundary_full : Prop :=
  ∀ (g₁ g₂ : Segment) (A : Option Assets) (r₁ r₂ : Uid → Nat) (t : Table),
    g₁.head = g₂.head → g₁.tail = g₂.tail → g₁.wf r₁ = true → g₂.wf r₂ = true → g₂.connected = true →
    g₂.assetsOK A = true → compile g₁ A g₁.visitOrder = .ok t → Preserves g₂ A t

/-- source → stateful scaler → sink … -/
def stage1 : Segment :=
  ⟨[⟨0, 0, 0, false, 0, 1⟩, ⟨1, 1, 1, true, 1, 1⟩, ⟨2, 2, 2, false, 1, 1⟩],
   [⟨0, 0, 1, .apply 0⟩, ⟨1, 0, 2, .apply 0⟩], 0, 2, []⟩

/-- … and the same head and tail after the trained fork of the scaler has been attached -/
def stage2 : Segment :=
  ⟨[⟨0, 0, 0, false, 0, 1⟩, ⟨1, 1, 1, true, 1, 1⟩, ⟨2, 2, 2, false, 1, 1⟩, ⟨3, 1, 1, true, 1, 1⟩],
   [⟨0, 0, 1, .apply 0⟩, ⟨1, 0, 2, .apply 0⟩, ⟨0, 0, 3, .train⟩, ⟨0, 0, 3, .label⟩], 0, 2, []⟩

/-- … is false: the table of `stage1` has no task for the trainer of `stage2` (and applies the scaler without state) -/
theorem C01_compile_by_boundary_counterexample : ¬ C01_compile_by_boundary_full := by
  intro h
  have hp := h stage1 stage2 none (fun u => u) (fun u => if u = 3 then 1 else if u = 0 then 0 else u + 1)
    [⟨.uid 0, .functor 0 .apply [], []⟩, ⟨.uid 1, .functor 1 .apply [], [.uid 0]⟩,
     ⟨.uid 2, .functor 2 .apply [], [.uid 1]⟩]
    rfl rfl (by decide) (by decide) (by decide) (by decide) rfl
  have := hp.tasks ⟨3, 1, 1, true, 1, 1⟩ (by decide)
  revert this
  decide

/-- what does hold: a compiled table serves the graph it was compiled from -/
theorem C01_compile_by_boundary_partial (g : Segment) (A : Option Assets) (rank : Uid → Nat) (t : Table)
    (hwf : g.wf rank = true) (hA : g.assetsOK A = true) (hc : g.connected = true)
    (hct : compile g A g.visitOrder = .ok t) : Preserves g A t := by
  obtain ⟨t', hct', hp⟩ := C01_dataflow g A rank g.visitOrder hwf hA (visitOrder_perm hwf hc)
  rw [hct] at hct'; cases hct'
  exact hp

/-! ### an accessor that fails -/

/-- `Loader.execute` against an accessor that may fail (`Store.loader`): it returns a value exactly for a stored state
and for the documented `MissingError` (→ `none`: "no state"); every other refusal raises; and the abstract store of the
interpreter (`Store.toAssets`) holds that value resp. the error value in its place -/
theorem C01_loader_outcomes (S : Store) (γ : Gid) (i : Nat) (hi : indexOf γ S.persistent = some i) :
    (S.outcomes[i]? = none → S.loader γ = .ok .none) ∧
    (S.outcomes[i]? = some .missing → S.loader γ = .ok .none) ∧
    (∀ v, S.outcomes[i]? = some (.state v) → S.loader γ = .ok v) ∧
    (S.outcomes[i]? = some .refused → S.loader γ = .error .assetRefused) ∧
    (S.outcomes[i]? = some .crashed → S.loader γ = .error .assetCrashed) ∧
    (match S.loader γ with | .ok v => v | .error e => .error e) = S.toAssets.load γ := by
  refine ⟨?_, ?_, ?_, ?_, ?_, Store.loader_toAssets S γ⟩ <;> intros <;> simp_all [Store.loader]

/-- **A refused load fails the run and nothing is committed**: when the accessor answers the load of a persistent
group that has a stateful member in the segment with anything but a state or `MissingError`, executing the compiled
table raises (`runFails`) — the member that is handed the loaded state (the group's trainer, else its applied
members) is never computed — and no generation is committed. In particular the actor is *not* run without its state. -/
theorem C01_refused_load_fails (g : Segment) (As : Assets) (rank : Uid → Nat) (t : Table)
    (hwf : g.wf rank = true) (hp : Preserves g (some As) t)
    (w : Worker) (hw : w ∈ g.workers) (hst : w.stateful = true) (hc : As.contains w.gid = true)
    (e : RunErr) (hl : As.load w.gid = .error e) :
    runFails (some As) t = true ∧ committedStates (some As) t = none := by
  obtain ⟨x, hx, _, he⟩ := consumer_hasError (wf_WF hwf) hw hst hc hl
  have hmem := lookupVal_mem (hp.values x hx)
  have hf : runFails (some As) t = true := by
    simp only [runFails, List.any_eq_true]
    exact ⟨_, hmem, he⟩
  exact ⟨hf, by simp [committedStates, hf]⟩

/-- … and in a training segment the committer itself is downstream of the refused load: the value it would commit
carries the error, i.e. `State.commit` is never called -/
theorem C01_refused_load_blocks_commit (g : Segment) (As : Assets) (rank : Uid → Nat) (t : Table)
    (hwf : g.wf rank = true) (hA : g.assetsOK (some As) = true) (hp : Preserves g (some As) t)
    (w : Worker) (hw : w ∈ g.workers) (hst : w.stateful = true) (hc : As.contains w.gid = true)
    (e : RunErr) (hl : As.load w.gid = .error e) (tw : Worker) (htw : g.trainerOf w.gid = some tw) :
    ∃ c, (run (some As) t).get .committer = some c ∧ c.hasError = true := by
  have h := wf_WF hwf
  have hA' := assetsOK_AssetsOK hA
  have hmemP : w.gid ∈ As.persistent := (indexOf_isSome_iff _ _).mp hc
  have hs₀ : (g.trainerOf w.gid).isSome = true := by rw [htw]; rfl
  have hcv : g.commitVal (some As) = some (As.commit (As.persistent.map fun p =>
      match g.trainerOf p with
      | some t => .dumped (g.nodeVal (some As) g.evalFuel t.uid)
      | none => .error .unbound)) := by
    simp only [commitVal]
    rw [if_pos (List.any_eq_true.mpr ⟨w.gid, hmemP, hs₀⟩)]
    rfl
  have hcm := hp.commit
  rw [hcv] at hcm
  refine ⟨_, hcm, ?_⟩
  simp only [Assets.commit, List.length_map, if_true, Val.hasError]
  have he := trainer_hasError h hc hl htw
  apply Val.anyError_of_mem (v := .dumped (g.nodeVal (some As) g.evalFuel tw.uid))
  · rw [List.mem_map]
    exact ⟨w.gid, hmemP, by simp [htw]⟩
  · simpa [Val.hasError] using he

/-- the single stateless worker without any subscription (regression witness of fix C01-F1: the unrepaired
`Linkage.leaves` asserted `'Not acyclic'` on its empty linkage) -/
def loneWorker : Segment := ⟨[⟨0, 0, 0, false, 1, 1⟩], [], 0, 0, []⟩

example : loneWorker.wf (fun _ => 0) = true := by decide
example : compile loneWorker none [0] = .ok [⟨.uid 0, .functor 0 .apply [], []⟩] := rfl

/-! ### non-vacuity -/

/-- DESIGN's shape: 3-output worker with an unused port, a group (gid 2) with a trainer (4) and two applied forks
(2, 3), a second group (gid 3) with fork 5 and trainer 6, train/label fed from different upstream ports -/
def demo : Segment :=
  ⟨[⟨0, 0, 0, false, 0, 1⟩, ⟨1, 1, 1, false, 1, 3⟩, ⟨2, 2, 2, true, 1, 1⟩, ⟨3, 2, 2, true, 1, 1⟩, ⟨4, 2, 2, true, 1, 1⟩,
    ⟨5, 3, 3, true, 1, 1⟩, ⟨6, 3, 3, true, 1, 1⟩, ⟨7, 4, 4, false, 3, 1⟩],
   [⟨0, 0, 1, .apply 0⟩, ⟨1, 0, 2, .apply 0⟩, ⟨1, 1, 3, .apply 0⟩, ⟨1, 0, 4, .train⟩, ⟨1, 1, 4, .label⟩,
    ⟨2, 0, 5, .apply 0⟩, ⟨3, 0, 6, .train⟩, ⟨0, 0, 6, .label⟩, ⟨2, 0, 7, .apply 0⟩, ⟨3, 0, 7, .apply 1⟩,
    ⟨5, 0, 7, .apply 2⟩],
   0, 7, []⟩

def demoRank : Uid → Nat
  | 0 => 0 | 1 => 1 | 4 => 2 | 2 => 3 | 3 => 4 | 6 => 5 | 5 => 6 | _ => 7

/-- partial persistence: only group 2 is persistent, a previous generation exists -/
def demoAssets : Option Assets := some ⟨[2], [.stored 0]⟩

example : demo.wf demoRank = true := by decide +kernel
example : demo.assetsOK demoAssets = true := by decide +kernel
example : demo.connected = true := by decide +kernel
example : demo.construct = .ok () := by rfl
example : demo.each = .ok [0, 1, 2, 5, 7, 4, 3, 6] := by rfl
/-- the theorem instantiated: the DESIGN shape compiles and preserves its dataflow -/
example : ∃ o t, demo.each = .ok o ∧ compile demo demoAssets o = .ok t ∧ Preserves demo demoAssets t :=
  C01_dataflow_traversal demo demoAssets demoRank (by decide +kernel) (by decide +kernel) (by decide +kernel)
example : (match compile demo demoAssets demo.visitOrder with
    | .ok t => demo.describes demoAssets t
    | .error _ => false) = true := by decide +kernel

end ForML.Flow
