/-
C14 — Push-down hints offered to storage back-ends never lose required data.

Model: `ForML.Model.PushDown` (the parser's per-table segments, `Predicate.Factors`, the `visit_*` traversal that
offers the hints, a row-level denotation run against a back-end that ignores / honours them, and `lazy._Columns`),
following the code as repaired by fixes/C14-pushdown-hints.diff.

* `C14_columns` (full): every `generate_table` call is offered every column its origin is used with in the query's
  clauses or in the condition of a join it takes part in — also through a reference to the table.
  `C14_lazy_columns` (full): the same for the per-table column sets of `lazy._Columns`.
  `C14_columns_equivalence`: restricting every scan to the offered columns never changes the result (any join kind).
* `C14_factors`: every factor of a condition is a predicate over its table alone which is TRUE whenever the condition
  is (three-valued logic) — for AND, OR (tables constrained on both sides only), NOT and comparisons.
* `C14_filter_full`: a back-end pre-filtering every scan by the offered filter returns what a back-end ignoring the
  hints returns.  Refuted twice (`…_counterexample_outer`: a factor of an ON condition pushed below the preserved side
  of a LEFT JOIN; `…_counterexample_alias`: the filter of a table offered to the scan of its self-join reference).
  `C14_filter_partial`: proved for statements without outer joins and without a table scanned both directly and through
  a reference; `C14_filter_partial_outer`: also with outer joins whose ON condition yields no factor and whose
  NULL-supplying side is offered no factor from above — for every semantics of the scalar operators, aggregation,
  ordering, limits and set operators.  `C14_equivalence_partial(_outer)`: columns and filter together.
-/
import ForML.Lemmas.C14Filter
import ForML.Lemmas.C14Proj
import ForML.Lemmas.C14Lazy
import ForML.Lemmas.C14Outer

namespace ForML.PushDown
open ForML.Dsl

/-! ### columns -/

/-- **C14 (columns).** Whatever the back-end and the data: the parser makes exactly one `generate_table` call per
scan and each call offers all the columns the scanned origin is used with (projection, filters, grouping, ordering,
conditions of the joins it takes part in). -/
theorem C14_columns (len : Bool) (S : Sem) (B : Backend) (db : Db) (s : Source) :
    ColsOK (needs [] s) (run len S B db s {}).hints :=
  (run_cols len S B db s [] {} (covers_nil _)).1

/-- the same for the hints as the driver reports them -/
theorem C14_columns_hints (len : Bool) (s : Source) (hs : List Hint) (h : hints len s = .ok hs) :
    ColsOK (needs [] s) hs := by
  unfold hints at h
  simp only at h
  cases he : (run len trivialSem Backend.ignore (fun _ => []) s {}).st.err with
  | some e => simp [he] at h
  | none =>
    simp only [he, Except.ok.injEq] at h
    exact h ▸ C14_columns len trivialSem .ignore (fun _ => []) s

/-- the offered hints (and the parser state) are the same whatever the back-end does with them -/
theorem C14_hints_independent (len : Bool) (S : Sem) (B : Backend) (db : Db) (s : Source) :
    (run len S B db s {}).hints = (run len trivialSem .ignore (fun _ => []) s {}).hints :=
  (run_indep len S trivialSem B .ignore db (fun _ => []) s {}).2

/-- **C14 (columns, lazy feed).** The per-table column sets `lazy._Columns.extract` hands to `Origin.partitions`
contain, for every scan of the statement, every column its origin is used with. -/
theorem C14_lazy_columns (s : Source) :
    Forall2 (fun need t => ∀ n ∈ need, (t, n) ∈ lazyS s) (needs [] s) (scanTables s) :=
  lazy_needs s [] (lazyS s) (fun e he => by simp [elemsAll] at he) (fun _ hx => hx)

/-! ### factors -/

/-- **C14 (factors).** A factor offered for table `t` only mentions columns of `t`, and every row combination on
which the condition is TRUE satisfies it. -/
theorem C14_factors (len : Bool) (S : Sem) (p : Feature) (m : FMap) (h : factorsOf len p = .ok m)
    (t : Source) (f : Feature) (hf : (t, f) ∈ m) :
    isTable t = true ∧ (∀ e ∈ elems f, e.1 = t) ∧ (∀ e ∈ elems f, e ∈ elems p) ∧
      ∀ env, eval S env p = .bool true → eval S env f = .bool true := by
  have k := factorsP_sound len S (toPred p) m h t f hf
  refine ⟨k.table, k.own, fun e he => (mem_elemsP_toPred p e).mp (k.sub e he), fun env he => k.sound env ?_⟩
  rw [evalP_toPred]
  exact he

/-- with the lenient variant of the code (every `Operable` has factors) factorisation never fails -/
theorem C14_factors_total_lenient (p : Pred) : ∃ m, factorsP true p = .ok m := by
  induction p with
  | atom f => exact ⟨_, rfl⟩
  | other f => exact ⟨[], rfl⟩
  | and a b iha ihb =>
    obtain ⟨l, hl⟩ := iha
    obtain ⟨r, hr⟩ := ihb
    exact ⟨andF l r, by simp [factorsP, hl, hr]⟩
  | or a b iha ihb =>
    obtain ⟨l, hl⟩ := iha
    obtain ⟨r, hr⟩ := ihb
    exact ⟨orF l r, by simp [factorsP, hl, hr]⟩

/-! ### row filter -/

/-- the property at full strength: for every statement the grammar admits, honouring the offered row filters does not
change the result — for every semantics of the parameters and all table contents -/
def C14_filter_full : Prop :=
  ∀ (len : Bool) (S : Sem) (db : Db) (s : Source), isStmt s = true → grammarScoped s = true →
    result len S .honourRows db s = result len S .ignore db s

/-- **C14 (filter), proved part**: no outer join, no table scanned both directly and through a reference. -/
theorem C14_filter_partial (len : Bool) (S : Sem) (db : Db) (s : Source) (hs : isStmt s = true)
    (hi : innerOnly s = true) (hw : wellScoped s = true) :
    result len S .honourRows db s = result len S .ignore db s := by
  unfold result
  rw [(run_prune len S db s hi hw).2 hs {}]

/-- inside a query, every row the honouring back-end does not deliver is rejected by the prefilter or by the
condition of a join above it, whatever it is combined with -/
theorem C14_filter_contributes (len : Bool) (S : Sem) (db : Db) (src : Source) (sel : Features) (pre : FeatureOpt)
    (grp : Features) (post : FeatureOpt) (ord : Orderings) (rows : Option Rows)
    (hi : innerOnly (.query src sel pre grp post ord rows) = true)
    (hw : wellScoped (.query src sel pre grp post ord rows) = true) :
    Prune (Doomed S (optList pre))
      (run len S .honourRows db src (queryCtx len none src sel pre grp post ord)).envs
      (run len S .ignore db src (queryCtx len none src sel pre grp post ord)).envs := by
  simp only [innerOnly] at hi
  simp only [wellScoped, Bool.and_eq_true, decide_eq_true_eq] at hw
  exact (run_prune len S db src hi hw.2).1 (origins src) (optList pre) _ hw.1.1.1.2 hw.1.1.1.1 (fun o ho => ho) hw.1.2
    (within_queryCtx len none src sel pre grp post ord hw.1.1.2)
    (justified_queryCtx len none src sel pre grp post ord (origins src))

/-- statements without outer joins are `outerSafe` -/
theorem C14_outerSafe_of_innerOnly (len : Bool) : ∀ (s : Source) (P : List Feature), innerOnly s = true → outerSafe len P s = true
  | .table _ _, _, _ => rfl
  | .ref i _, _, h => by
    simp only [innerOnly] at h
    simpa [outerSafe] using C14_outerSafe_of_innerOnly len i [] h
  | .join l r k c, P, h => by
    simp only [innerOnly, Bool.and_eq_true, Bool.or_eq_true, beq_iff_eq] at h
    rcases h.1.1 with rfl | rfl <;>
      simp [outerSafe, C14_outerSafe_of_innerOnly len l _ h.1.2, C14_outerSafe_of_innerOnly len r _ h.2]
  | .set l r _, _, h => by
    simp only [innerOnly, Bool.and_eq_true] at h
    simp [outerSafe, C14_outerSafe_of_innerOnly len l [] h.1, C14_outerSafe_of_innerOnly len r [] h.2]
  | .query src _ pre _ _ _ _, _, h => by
    simp only [innerOnly] at h
    simpa [outerSafe] using C14_outerSafe_of_innerOnly len src (optList pre) h

/-- **C14 (filter), proved part with outer joins**: the outer joins of the statement are harmless (`outerSafe`: their
ON conditions yield no single-table factor and no table on a NULL-supplying side is offered a factor of a condition
above the join) and no table is scanned both directly and through a reference. Generalises `C14_filter_partial`. -/
theorem C14_filter_partial_outer (len : Bool) (S : Sem) (db : Db) (s : Source) (hs : isStmt s = true)
    (ho : outerSafe len [] s = true) (hw : wellScoped s = true) :
    result len S .honourRows db s = result len S .ignore db s := by
  unfold result
  rw [(run_prune_outer len S db s hw).2 hs ho {}]

/-! ### columns and filter together -/

/-- the concrete semantics used for the witnesses and the SQLite tie is local -/
theorem C14_simpleSem_finishLocal : FinishLocal simpleSem := by
  intro src sel pre grp post ord rows envs' envs h
  simp only [simpleSem, simpleFinish]
  induction h with
  | nil => rfl
  | cons hab _ ih =>
    simp only [List.map_cons, ih, List.cons.injEq, and_true]
    apply List.map_congr_left
    intro f hf
    rw [eval_congr simpleScalar _ _ f (fun el hel => hab.2 el ?_)]
    unfold queryFeatures
    refine (elemsAll_append _ _ _).mpr (Or.inl ((elemsAll_append _ _ _).mpr (Or.inl ((elemsAll_append _ _ _).mpr
      (Or.inl ((elemsAll_append _ _ _).mpr (Or.inl ?_)))))))
    exact List.mem_flatMap.mpr ⟨f, hf, hel⟩

/-- **C14 (equivalence), proved part**: a back-end that restricts every scan to the offered columns *and* pre-filters
it by the offered row filter (`SELECT cols FROM table WHERE filter`) returns what a back-end ignoring the hints returns —
for statements without outer joins and aliased scans, every semantics whose query post-processing only looks at the
elements the query mentions. -/
theorem C14_equivalence_partial (len : Bool) (S : Sem) (db : Db) (s : Source) (hS : FinishLocal S)
    (hs : isStmt s = true) (hi : innerOnly s = true) (hw : wellScoped s = true) :
    result len S .honour db s = result len S .ignore db s := by
  rw [← C14_filter_partial len S db s hs hi hw]
  unfold result
  rw [honour_eq_proj, (run_proj len S .honourRows db hS s (shaped_of_wellScoped s hw)).2 hs {}]

/-- **C14 (columns, semantically).** The column restriction alone never changes the result: any join kind, self-joins
through references included; only the shape every constructible statement has is assumed. -/
theorem C14_columns_equivalence (len : Bool) (S : Sem) (db : Db) (s : Source) (hS : FinishLocal S)
    (hs : isStmt s = true) (hw : shaped s = true) :
    result len S .honourCols db s = result len S .ignore db s := by
  unfold result
  rw [honourCols_eq_proj, (run_proj len S .ignore db hS s hw).2 hs {}]

/-- columns and filter together, with harmless outer joins -/
theorem C14_equivalence_partial_outer (len : Bool) (S : Sem) (db : Db) (s : Source) (hS : FinishLocal S)
    (hs : isStmt s = true) (ho : outerSafe len [] s = true) (hw : wellScoped s = true) :
    result len S .honour db s = result len S .ignore db s := by
  rw [← C14_filter_partial_outer len S db s hs ho hw]
  unfold result
  rw [honour_eq_proj, (run_proj len S .honourRows db hS s (shaped_of_wellScoped s hw)).2 hs {}]

/-! ### witnesses -/

def tA : Source := .table "A" [("x", .integer)]
def tB : Source := .table "B" [("z", .integer)]
def xA : Feature := .elem tA "x"
def gt1 (f : Feature) : Feature := binop .gt f (.lit (.int 1))

/-- `SELECT A.x FROM A LEFT JOIN B ON A.x > 1` -/
def wOuter : Source :=
  .query (.join tA tB .left (.some (gt1 xA))) (.cons xA .nil) .none .nil .none .nil none

/-- `SELECT A.x, r.x FROM A CROSS JOIN A AS r WHERE A.x > 1` -/
def wAlias : Source :=
  .query (.join tA (.ref tA "r") .cross .none) (.cons xA (.cons (.elem (.ref tA "r") "x") .nil)) (.some (gt1 xA))
    .nil .none .nil none

def dbOuter : Db := fun t => if t = tA then [[("x", .int 0)]] else []
def dbAlias : Db := fun t => if t = tA then [[("x", .int 2)], [("x", .int 0)]] else []

/-- the LEFT JOIN keeps the `A` row with `x = 0` (NULL-extended); pre-filtered by the offered `A.x > 1` it is gone -/
theorem C14_filter_counterexample_outer : ¬ C14_filter_full := by
  intro h
  have := h true simpleSem dbOuter wOuter (by decide) (by decide)
  revert this
  decide

/-- the filter `A.x > 1` of the directly scanned `A` is also offered for the scan behind the reference `r`:
the pair `(2, 0)` is lost -/
theorem C14_filter_counterexample_alias : ¬ C14_filter_full := by
  intro h
  have := h true simpleSem dbAlias wAlias (by decide) (by decide)
  revert this
  decide

/-- each hypothesis of the partial theorem excludes exactly one of the witnesses -/
example : innerOnly wOuter = false ∧ wellScoped wOuter = true := by decide
example : innerOnly wAlias = true ∧ wellScoped wAlias = false := by decide
/-- the column theorem covers both witnesses -/
example : shaped wOuter = true ∧ shaped wAlias = true := by decide

/-- `SELECT A.x, B.z FROM A LEFT JOIN B ON A.x = B.z WHERE A.x > 1`: the usual shape of a left join is in the proved
fragment (the preserved side is offered `A.x > 1`, the NULL-supplying side nothing) -/
def wLeftOk : Source :=
  .query (.join tA tB .left (.some (binop .eq xA (.elem tB "z")))) (.cons xA (.cons (.elem tB "z") .nil)) (.some (gt1 xA))
    .nil .none .nil none

/-- `… WHERE B.z IS NULL`: the NULL-supplying side would be offered `B.z IS NULL` -/
def wLeftIsNull : Source :=
  .query (.join tA tB .left (.some (binop .eq xA (.elem tB "z")))) (.cons xA .nil)
    (.some (.expr .isnull (.cons (.elem tB "z") .nil))) .nil .none .nil none

example : outerSafe false [] wLeftOk = true ∧ wellScoped wLeftOk = true ∧ innerOnly wLeftOk = false ∧
    (hints false wLeftOk).toOption.map (fun hs => hs.map (fun h => h.pred.length)) = some [1, 0] := by decide
example : outerSafe false [] wOuter = false ∧ outerSafe false [] wLeftIsNull = false := by decide
/-- the IS NULL statement really loses the equivalence: `A = {1}`, `B = {1}` gives no row, pre-filtered `B = {}` gives one -/
example : result false simpleSem .honourRows (fun t => if t = tA then [[("x", .int 1)]] else [[("z", .int 1)]]) wLeftIsNull
    ≠ result false simpleSem .ignore (fun t => if t = tA then [[("x", .int 1)]] else [[("z", .int 1)]]) wLeftIsNull := by decide

/-! ### non-vacuity -/

def yB : Feature := .elem tB "z"

/-- `SELECT A.x, B.z FROM A JOIN B ON A.x = B.z WHERE A.x > 1 AND (B.z > 1 OR NOT B.z > 1)` -/
def wInner : Source :=
  .query (.join tA tB .inner (.some (binop .eq xA yB))) (.cons xA (.cons yB .nil))
    (.some (binop .and (gt1 xA) (binop .or (gt1 yB) (.expr .not (.cons (gt1 yB) .nil))))) .nil .none .nil none

def dbInner : Db := fun t =>
  if t = tA then [[("x", .int 2)], [("x", .int 0)], [("x", .null)]] else [[("z", .int 2)], [("z", .int 0)]]

/-- a statement satisfying the hypotheses of `C14_filter_partial` with both tables offered a non-trivial filter,
which removes rows from the scans and leaves the (non-empty) result alone -/
example : isStmt wInner = true ∧ innerOnly wInner = true ∧ wellScoped wInner = true ∧
    (hints false wInner).toOption.map (fun hs => hs.map (fun h => (h.cols, h.pred.length))) = some [(["x"], 1), (["z"], 1)] ∧
    Backend.honourRows.scan simpleSem dbInner ⟨tA, ["x"], [gt1 xA]⟩ = [[("x", .int 2)]] ∧
    result false simpleSem .honour dbInner wInner = [[("x", .int 2), ("z", .int 2)]] ∧
    result false simpleSem .ignore dbInner wInner = [[("x", .int 2), ("z", .int 2)]] := by
  decide

/-- the columns theorem on the same statement: needs = offered -/
example : needs [] wInner = [["x", "x", "x"], ["z", "z", "z", "z"]] := by decide

end ForML.PushDown
